/-
C06, last hypothesis — `RefStable` for the logs of the indexer.

`RefStable ops`: once a location has been registered as a *reference* of a symbol, no later
operation registers the same location for another symbol.  For the indexer it follows from a
linearity fact about its traversal (`Lemmas/IdeOnce*.lean`, one lemma per function of `Index.lean`
and per bang-operator arm):

* every location registered while a function indexes a node lies in the current file, is non-empty
  and lies inside the node — or lies in a file that was first indexed during that call (`include`;
  a file is indexed at most once: `markIndexed`);
* the nodes a function hands on to the functions it calls are different children of its node (by
  their kinds, or by their position among the children of one kind), so their ranges are disjoint;
* a function registers its own identifier at most once — except `let f = …` in a record body, which
  first *defines* the new field and then *references* the overridden one at the same identifier,
  and registers nothing there afterwards.

Hence (`NoReuse`): after a `reference _ L` of the log, `L` is never registered again — stronger
than `RefStable`.  No construct of the model violates it (defm instantiation does not re-walk the
multiclass body in this indexer, forward declarations / defset names / `NAME` register nothing
twice), so there is no finding here and no `_partial` version.

Tree hypotheses: consistent offsets (part of `Ready`) and, because two *empty* tokens at the same
offset have the same range (`refStable_not_from_ready`), that every `Identifier` node begins with a
non-empty token (`IdsNE`).  `Lemmas/IdShape.lean` proves the latter for parser output (only the
grammar function `identifier` opens `Identifier` nodes, and it does so as
`start_node; if eat_if(Id) ..; finish_node`; delivered non-`Eof` tokens are non-empty), so for
workspaces built by `buildWorkspace` nothing is left to assume.
-/
import TgModel.Props.C06Index
import TgModel.Lemmas.IdeOnceBuilt

namespace Tg.C06
open SymbolMap Tg.Ide

/-- after a reference at a location nothing is registered there again — on a ready workspace whose
`Identifier` nodes begin with non-empty tokens -/
theorem index_noReuse_of {ws : Workspace} (h : C03.Ready ws) (hids : ∀ g, IdsNE (ws.tree g))
    {r : Index.IndexResult} (hr : Index.index ws = .ok r) : NoReuse (opsOf r) :=
  Index.index_noReuse (fun g => ⟨let ⟨txt, hs, _⟩ := h.wf.tree_spans g; ⟨txt, hs⟩, hids g⟩) hr

/-- (e), with the tree hypothesis explicit -/
theorem index_refStable_of {ws : Workspace} (h : C03.Ready ws) (hids : ∀ g, IdsNE (ws.tree g))
    {r : Index.IndexResult} (hr : Index.index ws = .ok r) : RefStable (opsOf r) :=
  (index_noReuse_of h hids hr).refStable

/-- **(e) for every workspace built by `buildWorkspace`** -/
theorem built_refStable {vfs : List (String × String)} {rootPath : String} {includeDir : Option String}
    {ws : Workspace} (hb : buildWorkspace vfs rootPath includeDir = .ok ws) {r : Index.IndexResult}
    (hr : Index.index ws = .ok r) : RefStable (opsOf r) :=
  (Index.index_noReuse (Index.built_wsOK (C03.built_ready hb).wf hb) hr).refStable

/-- clause 3 of C06 without hypotheses on the log: on a workspace built by `buildWorkspace`,
go-to-definition from every (non-empty) reference range of the symbol under the cursor gives the
same target -/
theorem built_goto_from_references_agrees {vfs : List (String × String)} {rootPath : String}
    {includeDir : Option String} {ws : Workspace} (hb : buildWorkspace vfs rootPath includeDir = .ok ws)
    {r : Index.IndexResult} (hr : Index.index ws = .ok r) (file p : Nat) (S : Sym)
    (hf : findSymbolAt (run (opsOf r)) file p = some S) (x : Loc) (hx : x ∈ S.refs) (hne : x.isEmpty = false)
    (q : Nat) (hq : overlaps x x.file q = true) :
    gotoDef (run (opsOf r)) x.file q = some S.define :=
  index_goto_from_references_agrees (C03.built_ready hb) (Index.built_idsPlain hb) hr (built_refStable hb hr) file p S hf x hx
    hne q hq

/-- clauses 1 and 2, restated for built workspaces (no hypotheses on the log either) -/
theorem built_same_text {vfs : List (String × String)} {rootPath : String} {includeDir : Option String}
    {ws : Workspace} (hb : buildWorkspace vfs rootPath includeDir = .ok ws) {r : Index.IndexResult}
    (hr : Index.index ws = .ok r) (file p : Nat) (c : Loc) (hc : cursorLoc (run (opsOf r)) file p = some c) :
    ∃ S, findSymbolAt (run (opsOf r)) file p = some S ∧ fileText ws c = S.name ∧
      fileText ws S.define = S.name ∧ ∀ x ∈ S.refs, fileText ws x = S.name :=
  index_same_text (C03.built_ready hb) (Index.built_idsPlain hb) hr file p c hc

/-- the C06 theorems without any hypothesis: for every virtual file system, root path and include
directory the workspace is built (`C03.buildWorkspace_total`), the indexer returns, its log is
`RefStable`, and clauses 1–3 hold of the position map built from it -/
theorem c06_all (vfs : List (String × String)) (rootPath : String) (includeDir : Option String) :
    ∃ ws r, buildWorkspace vfs rootPath includeDir = .ok ws ∧ Index.index ws = .ok r ∧
      RefsValid (opsOf r) 0 ∧ NamedRefs (opsOf r) ∧ TextOk (fileText ws) (opsOf r) ∧ DisjointLocs (opsOf r) ∧
      RefStable (opsOf r) ∧
      (∀ file p c, cursorLoc (run (opsOf r)) file p = some c →
        ∃ S, findSymbolAt (run (opsOf r)) file p = some S ∧ fileText ws c = S.name ∧
          fileText ws S.define = S.name ∧ ∀ x ∈ S.refs, fileText ws x = S.name) ∧
      (∀ file p S, findSymbolAt (run (opsOf r)) file p = some S → ∀ x ∈ S.refs, x.isEmpty = false →
        ∀ q, overlaps x x.file q = true → gotoDef (run (opsOf r)) x.file q = some S.define) := by
  obtain ⟨ws, r, hb, hr⟩ := C03.index_never_panics_all vfs rootPath includeDir
  have h := C03.built_ready hb
  exact ⟨ws, r, hb, hr, index_refsValid h hr, index_namedRefs h hr, index_textOk h hr,
    index_disjointLocs h (Index.built_idsPlain hb) hr,
    built_refStable hb hr, fun file p c hc => built_same_text hb hr file p c hc,
    fun file p S hf x hx hne q hq => built_goto_from_references_agrees hb hr file p S hf x hx hne q hq⟩

/-! ### non-vacuity -/

/-- the example of `C06Index.lean` (`def d { int f = 1; let f = 2; }`): its identifier nodes begin
with non-empty tokens … -/
theorem ex_idsNE : ∀ g, IdsNE ((wsOfTree exTree).tree g) := by
  have hid : exTree.idOK := by
    unfold exTree
    split
    · rename_i r hr; exact parse_idOK hr
    · simp
  intro g
  unfold Workspace.tree
  cases g with
  | zero => simpa [wsOfTree] using idsNE_ofTree hid
  | succ g => simpa [wsOfTree] using defaultTree_idsNE

/-- … so `RefStable` of its log — which has a definition, the `let` re-definition and a reference at
the same identifier — is an instance of the theorem (in `C06Index.lean` it was checked by
evaluation) -/
example : RefStable exOps := by
  obtain ⟨r, hr, ho⟩ := ex_index
  rw [← ho]
  exact index_refStable_of ex_ready ex_idsNE hr

/-- `buildWorkspace` succeeds on a two-file workspace with an include, and then all premises of
`built_refStable` / `built_goto_from_references_agrees` hold -/
example : ∃ ws r, buildWorkspace [("/w/a.td", "include \"b.td\"\nclass A;"), ("/w/b.td", "def x;")] "/w/a.td" none = .ok ws ∧
    Index.index ws = .ok r ∧ RefStable (opsOf r) := by
  have hk : C03.isOk (buildWorkspace [("/w/a.td", "include \"b.td\"\nclass A;"), ("/w/b.td", "def x;")]
      "/w/a.td" none) = true := by decide +kernel
  cases hb : buildWorkspace [("/w/a.td", "include \"b.td\"\nclass A;"), ("/w/b.td", "def x;")] "/w/a.td" none with
  | error e => rw [hb] at hk; cases hk
  | ok ws =>
    obtain ⟨r, hr⟩ := C03.index_never_panics _ _ _ ws hb
    exact ⟨ws, r, rfl, hr, built_refStable hb hr⟩

/-- the artificial workspace of `refStable_not_from_ready` violates exactly the tree hypothesis -/
example : ¬ ∀ g, IdsNE ((wsOfTree badTree).tree g) := by
  intro h
  obtain ⟨r, hr, hns⟩ := bad_index
  have := index_refStable_of bad_ready h hr
  obtain ⟨ws', _, r', _, _⟩ := refStable_not_from_ready
  rw [hns] at this
  have hbad := this [.define [] ⟨0, 0, 0⟩, .define [] ⟨0, 0, 0⟩] [.define [] ⟨0, 0, 0⟩] 1
    ⟨0, 0, 0⟩ rfl (⟨0, 0, 0⟩, 2) (by simp [registrations, RefStable.registrations.count]) rfl
  simp at hbad

end Tg.C06
