/-
C13, the type of `!if(c, a, b)` after the change of `xIf`: the result is the type of the `then` value, the
type of the `else` value, their common type, or `unknown`; it is `unknown` only when one of the two types is
missing, when one of them is `unknown` itself, or together with the report "inconsistent types … for !if".
-/
import TgModel.Lemmas.IdeSemScope
import TgModel.Ide.Bang

namespace Tg.C13If
open Tg Tg.Ide Tg.Ide.Bang

/-- what `xIf` does after its operands have been indexed and the condition checked -/
def ifTail (vt : ValueTypes) : IxM (Option Ty) := do
  let some (_, some thenTyp) := vt.head? | return some .unknown
  let vt := vt.tail
  let some (elseRange, some elseTyp) := vt.head? | return some .unknown
  let thenFits ← canBeCastedTo thenTyp elseTyp
  let elseFits ← canBeCastedTo elseTyp thenTyp
  if thenFits && elseFits then
    if elseTyp.specificity > thenTyp.specificity then return some elseTyp else return some thenTyp
  else if thenFits then
    return some elseTyp
  else if elseFits then
    return some thenTyp
  else if let some commonTyp ← withSM (fun sm => sm.commonTyp thenTyp elseTyp) then
    return some commonTyp
  else
    error elseRange s!"inconsistent types {thenTyp} and {elseTyp} for !if"
    return some .unknown

/-- `xIf` is its three preparatory steps followed by `ifTail` -/
theorem xIf_eq (r : Rec) (node : PTree) :
    xIf r node = (do
      unexpectTypeAnnotation node
      let values ← expectValues node 3 (some 3)
      let vt ← indexValues r values
      let vt ← checkNext vt (fun sm t => sm.canBeCastedTo t .bit || sm.canBeCastedTo t .int)
        (fun t => s!"expected bit, or int; found {t}")
      ifTail vt) := rfl

/-- the operand types `ifTail` looks at -/
def thenTypOf (vt : ValueTypes) : Option Ty := (vt.head?).bind (·.2)
def elseOf (vt : ValueTypes) : Option ((Nat × Nat) × Ty) :=
  (vt.tail.head?).bind fun e => e.2.map fun t => (e.1, t)

/-- **the result of `ifTail`** -/
theorem ifTail_result (vt : ValueTypes) (c c' : IndexCtx) (o : Option Ty)
    (h : (ifTail vt).run c = .ok (o, c')) :
    (thenTypOf vt = none ∨ elseOf vt = none) ∧ o = some .unknown ∧ c' = c ∨
    ∃ thenTyp elseRange elseTyp, thenTypOf vt = some thenTyp ∧ elseOf vt = some (elseRange, elseTyp) ∧
      ((o = some thenTyp ∨ o = some elseTyp ∨ c.symbolMap.commonTyp thenTyp elseTyp = some o.get!) ∧ c' = c ∧
          (c.symbolMap.canBeCastedTo thenTyp elseTyp = true ∨ c.symbolMap.canBeCastedTo elseTyp thenTyp = true ∨
            (c.symbolMap.commonTyp thenTyp elseTyp).isSome = true) ∨
       o = some .unknown ∧ c.symbolMap.canBeCastedTo thenTyp elseTyp = false ∧
          c.symbolMap.canBeCastedTo elseTyp thenTyp = false ∧ c.symbolMap.commonTyp thenTyp elseTyp = none ∧
          (error elseRange s!"inconsistent types {thenTyp} and {elseTyp} for !if").run c = .ok ((), c')) := by
  unfold ifTail at h
  split at h
  · rename_i rg thenTyp hhead
    dsimp only at h
    split at h
    · rename_i elseRange elseTyp hhead2
      right
      refine ⟨thenTyp, elseRange, elseTyp, by simp [thenTypOf, hhead], by simp [elseOf, hhead2], ?_⟩
      have hw : ∀ (a b : Ty), (canBeCastedTo a b).run c = .ok (c.symbolMap.canBeCastedTo a b, c) := fun _ _ => rfl
      simp only [StateT.run_bind, hw, Except.ok_bind] at h
      cases h1 : c.symbolMap.canBeCastedTo thenTyp elseTyp <;> cases h2 : c.symbolMap.canBeCastedTo elseTyp thenTyp <;>
        simp only [h1, h2, Bool.and_true, Bool.and_false, Bool.false_eq_true, if_false, if_true] at h
      · -- neither fits
        have hw2 : (withSM fun sm => sm.commonTyp thenTyp elseTyp).run c =
            .ok (c.symbolMap.commonTyp thenTyp elseTyp, c) := rfl
        simp only [StateT.run_bind, hw2, Except.ok_bind] at h
        cases h3 : c.symbolMap.commonTyp thenTyp elseTyp with
        | some t =>
          simp only [h3, StateT.run_pure] at h
          cases h
          exact Or.inl ⟨Or.inr (Or.inr rfl), rfl, Or.inr (Or.inr rfl)⟩
        | none =>
          simp only [h3] at h
          obtain ⟨u, c1, he, h⟩ := IxM.run_bind_ok h
          simp only [StateT.run_pure] at h
          cases h
          exact Or.inr ⟨rfl, rfl, rfl, rfl, he⟩
      · simp only [StateT.run_pure] at h
        cases h
        exact Or.inl ⟨Or.inl rfl, rfl, Or.inr (Or.inl rfl)⟩
      · simp only [StateT.run_pure] at h
        cases h
        exact Or.inl ⟨Or.inr (Or.inl rfl), rfl, Or.inl rfl⟩
      · split at h <;> simp only [StateT.run_pure] at h <;> cases h
        · exact Or.inl ⟨Or.inr (Or.inl rfl), rfl, Or.inl rfl⟩
        · exact Or.inl ⟨Or.inl rfl, rfl, Or.inl rfl⟩
    · rename_i hne
      left
      simp only [StateT.run_pure] at h
      cases h
      refine ⟨Or.inr ?_, rfl, rfl⟩
      unfold elseOf
      cases hh : vt.tail.head? with
      | none => rfl
      | some e =>
        obtain ⟨rg2, t2⟩ := e
        cases t2 with
        | none => rfl
        | some t2 => exact absurd hh (hne rg2 t2)
  · rename_i hne
    left
    simp only [StateT.run_pure] at h
    cases h
    refine ⟨Or.inl ?_, rfl, rfl⟩
    unfold thenTypOf
    cases hh : vt.head? with
    | none => rfl
    | some e =>
      obtain ⟨rg, t⟩ := e
      cases t with
      | none => rfl
      | some t => exact absurd hh (hne rg t)

/-- the operands of `!if` are indexed and the condition is checked (from `c` to `c1`, giving `vt`); then
`ifTail vt` runs from `c1` - so `ifTail_result` describes the result of `xIf` -/
theorem xIf_run (r : Rec) (node : PTree) (c c' : IndexCtx) (o : Option Ty)
    (h : (xIf r node).run c = .ok (o, c')) :
    ∃ vt c1, (do
        unexpectTypeAnnotation node
        let values ← expectValues node 3 (some 3)
        let vt ← indexValues r values
        checkNext vt (fun sm t => sm.canBeCastedTo t .bit || sm.canBeCastedTo t .int)
          (fun t => s!"expected bit, or int; found {t}")).run c = .ok (vt, c1) ∧
      (ifTail vt).run c1 = .ok (o, c') := by
  rw [xIf_eq] at h
  obtain ⟨u, s1, h1, h⟩ := IxM.run_bind_ok h
  obtain ⟨vs, s2, h2, h⟩ := IxM.run_bind_ok h
  obtain ⟨vt0, s3, h3, h⟩ := IxM.run_bind_ok h
  obtain ⟨vt, s4, h4, h⟩ := IxM.run_bind_ok h
  refine ⟨vt, s4, ?_, h⟩
  simp only [StateT.run_bind, h1, h2, h3, Except.ok_bind]
  exact h4

/-- **the type of `!if`** is the `then` type, the `else` type, their common type, or `unknown`; and
`unknown` that is none of the former comes with a missing operand type or with the report -/
theorem xIf_result (r : Rec) (node : PTree) (c c' : IndexCtx) (o : Option Ty)
    (h : (xIf r node).run c = .ok (o, c')) :
    ∃ vt c1,
      ((thenTypOf vt = none ∨ elseOf vt = none) ∧ o = some .unknown ∧ c' = c1 ∨
      ∃ thenTyp elseRange elseTyp, thenTypOf vt = some thenTyp ∧ elseOf vt = some (elseRange, elseTyp) ∧
        ((o = some thenTyp ∨ o = some elseTyp ∨ c1.symbolMap.commonTyp thenTyp elseTyp = some o.get!) ∧ c' = c1 ∧
            (c1.symbolMap.canBeCastedTo thenTyp elseTyp = true ∨ c1.symbolMap.canBeCastedTo elseTyp thenTyp = true ∨
              (c1.symbolMap.commonTyp thenTyp elseTyp).isSome = true) ∨
         o = some .unknown ∧ c1.symbolMap.canBeCastedTo thenTyp elseTyp = false ∧
            c1.symbolMap.canBeCastedTo elseTyp thenTyp = false ∧ c1.symbolMap.commonTyp thenTyp elseTyp = none ∧
            (error elseRange s!"inconsistent types {thenTyp} and {elseTyp} for !if").run c1 = .ok ((), c'))) := by
  obtain ⟨vt, c1, _, h2⟩ := xIf_run r node c c' o h
  exact ⟨vt, c1, ifTail_result vt c1 c' o h2⟩

end Tg.C13If
