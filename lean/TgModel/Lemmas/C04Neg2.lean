/-
C04, negative facts (part 2): `[ ]` is not a documented `Value` although the value parser takes it cleanly
— `ValueOK` is false.
-/
import TgModel.Lemmas.C04Neg1

namespace Tg
namespace C04L
open Prog Grammar Frag Doc

local notation "rcv" => Tables.recoverTokens

/-- a documented `List` has at least one element: `[` … `]` with something in between -/
theorem simple_lsquare_len {x : List TokenKind} (h : Derives (.nt .SimpleValue_) (TokenKind.LSquare :: x)) :
    ∃ y k, x = y ++ [k] ∧ y ≠ [] ∧ Derives (.nt .ValueList_) y ∧ k = TokenKind.RSquare := by
  have h := inv_nt h
  simp only [rule] at h
  have h := alt_skip 80 (by decide +kernel) h
  have h := alt_skip 80 (by decide +kernel) h
  have h := alt_skip 80 (by decide +kernel) h
  have h := alt_skip 80 (by decide +kernel) h
  have h := alt_skip 80 (by decide +kernel) h
  have h := alt_skip 80 (by decide +kernel) h
  rcases inv_alt h with h | h
  · have h := inv_nt h
    simp only [rule] at h
    obtain ⟨k, v, hkv, _, h⟩ := inv_tokseq h
    simp only [List.cons.injEq] at hkv
    obtain ⟨_, rfl⟩ := hkv
    obtain ⟨y, z, rfl, hy, hz⟩ := inv_seq h
    obtain ⟨k', hk', rfl⟩ := inv_tok hz
    refine ⟨y, k', rfl, ?_, hy, by simpa using hk'⟩
    intro hy0; subst hy0
    exact not_null 80 (by decide +kernel) hy
  · exact (not_start 80 (by decide +kernel) h).elim

/-- the part of a documented `Value` in front of the first suffix / paste -/
theorem value_head {w : List TokenKind} (h : Derives (.nt .Value_) w) :
    ∃ x r, w = x ++ r ∧ x ≠ [] ∧ Derives (.nt .SimpleValue_) x := by
  have h := inv_nt h
  simp only [rule] at h
  obtain ⟨u, v, rfl, hu, _⟩ := inv_seq h
  have hu := inv_nt hu
  simp only [rule] at hu
  obtain ⟨x, s, rfl, hx, _⟩ := inv_seq hu
  refine ⟨x, s ++ v, by simp, ?_, hx⟩
  intro h0; subst h0
  exact not_null 80 (by decide +kernel) hx

/-- `[ ]` is not a documented `Value` -/
theorem empty_list_not_value : ¬ Derives (.nt .Value_) [TokenKind.LSquare, TokenKind.RSquare] := by
  intro h
  obtain ⟨x, r, hw, hx0, hx⟩ := value_head h
  cases x with
  | nil => exact hx0 rfl
  | cons a x' =>
    simp only [List.cons_append, List.cons.injEq] at hw
    obtain ⟨rfl, hw⟩ := hw
    obtain ⟨y, k, rfl, hy0, _, _⟩ := simple_lsquare_len hx
    have := congrArg List.length hw
    simp only [List.length_cons, List.length_nil, List.length_append] at this
    have : 0 < y.length := List.length_pos_iff.mpr hy0
    omega

/-- the value parser takes `[ ]` cleanly -/
theorem empty_list_vw : VW [TokenKind.LSquare, TokenKind.RSquare] := by
  have h : okAnd (exec defs rcv 500 (call .value) (PState.init "[]".toList)) (fun b =>
      decide (b.errors.length ≤ (PState.init "[]".toList).errors.length) &&
      decide ((PState.init "[]".toList).kinds = [TokenKind.LSquare, TokenKind.RSquare] ++ b.kinds)) = true := by
    decide +kernel
  obtain ⟨b, hr, hp⟩ := okAnd_spec h
  simp only [Bool.and_eq_true, decide_eq_true_eq] at hp
  have hn : Norm (PState.init "[]".toList) := by unfold Norm; decide +kernel
  exact ⟨500, PState.init "[]".toList, b, hn, hr, hp.1, hp.2⟩

/-- **`ValueOK` is false**: the value parser takes `[ ]` without an error, and `[ ]` is not a documented
`Value` (the documented `List` wants a `ValueList`, which is not empty) -/
theorem valueOK_false : ¬ ValueOK :=
  fun h => empty_list_not_value (h _ empty_list_vw)

end C04L
end Tg
