/-
The second core on which the indexer reports nothing (`Props/C13.lean`, `core_no_diagnostics_partial`):
the core of `IdeSemDiagCore.lean` extended by initialisers that are the *name of a field declared
earlier in the same record* (or the field itself), of a type castable to the declared type.

The checker threads an environment `Env` (field name ↦ declared type, latest declaration first)
through the body items; the proof relates it to the state by `RInv`: the innermost scope is the
record's scope and binds no variable, and every environment entry is found among the record's own
fields with that type.
-/
import TgModel.Lemmas.IdeSemDiagCore

namespace Tg
namespace Ide
open Index

/-! ### `IndexMap` -/

theorem list_findIdx_set (L : List (String × Nat)) (k : String) (v : Nat) (k' : String) :
    (((match L.findIdx? (fun (e : String × Nat) => e.1 == k) with
      | some i => L.set i (k, v)
      | none => L ++ [(k, v)]) : List (String × Nat)).find? (fun (e : String × Nat) => e.1 == k')).map (fun e => e.2) =
    if k' = k then some v else (L.find? (fun (e : String × Nat) => e.1 == k')).map (fun e => e.2) := by
  induction L with
  | nil =>
    simp only [List.findIdx?_nil, List.nil_append, List.find?_cons, List.find?_nil]
    by_cases h : k' = k
    · subst h; simp
    · have : (k == k') = false := by simpa using fun e => h e.symm
      simp [h, this]
  | cons x t ih =>
    rw [List.findIdx?_cons]
    by_cases hx : (x.1 == k) = true
    · simp only [hx, if_true, List.set_cons_zero, List.find?_cons]
      have hxk : x.1 = k := by simpa using hx
      by_cases h : k' = k
      · subst h; simp
      · have h1 : (k == k') = false := by simpa using fun e => h e.symm
        have h2 : (x.1 == k') = false := by rw [hxk]; exact h1
        simp [h, h1, h2]
    · simp only [hx, Bool.false_eq_true, if_false]
      have hxk : ¬ x.1 = k := by simpa using hx
      cases hfi : t.findIdx? (fun e => e.1 == k) with
      | none =>
        rw [hfi] at ih
        simp only [Option.map_none, List.cons_append, List.find?_cons] at ih ⊢
        by_cases hxk' : (x.1 == k') = true
        · have : ¬ k' = k := by
            intro e; subst e; exact hxk (by simpa using hxk')
          simp [hxk', this]
        · simp only [hxk', Bool.false_eq_true, if_false] 
          exact ih
      | some i =>
        rw [hfi] at ih
        simp only [Option.map_some, List.set_cons_succ, List.find?_cons] at ih ⊢
        by_cases hxk' : (x.1 == k') = true
        · have : ¬ k' = k := by
            intro e; subst e; exact hxk (by simpa using hxk')
          simp [hxk', this]
        · simp only [hxk', Bool.false_eq_true, if_false]
          exact ih

theorem indexMapGet_insert (m : Array (String × Nat)) (k : String) (v : Nat) (k' : String) :
    indexMapGet (indexMapInsert m k v) k' = if k' = k then some v else indexMapGet m k' := by
  obtain ⟨L⟩ := m
  unfold indexMapGet indexMapInsert
  have := list_findIdx_set L k v k'
  simp only [List.findIdx?_toArray, List.find?_toArray]
  rw [← this]
  cases L.findIdx? (fun e => e.1 == k) with
  | none => simp
  | some i => simp [Array.set!_eq_setIfInBounds]


/-! ### values that are one identifier -/

/-- the `Identifier` of a `Value` that consists of one identifier without suffixes -/
def identValueNode (v : PTree) : Option PTree :=
  match Ast.valueInnerValues v with
  | [iv] =>
    match Ast.innerValueSimpleValue iv with
    | some sv => if sv.kind == .Identifier && (Ast.innerValueSuffixes iv).isEmpty then some sv else none
    | none => none
  | _ => none

theorem indexValue_ident (r : Rec) (v id : PTree) (h : identValueNode v = some id) (c : IndexCtx) :
    (indexValue r v).run c = (indexIdentifierValue id).run c := by
  unfold identValueNode at h
  split at h
  · rename_i iv hiv
    split at h
    · rename_i sv hsv
      split at h
      · rename_i hcond
        cases h
        simp only [Bool.and_eq_true, beq_iff_eq, List.isEmpty_iff] at hcond
        obtain ⟨hk, hs⟩ := hcond
        unfold indexValue
        simp only [hiv, List.head?_cons, List.tail_cons, List.forIn_nil, List.length_cons, List.length_nil,
          StateT.run_bind]
        have hinner : (indexInnerValue r iv).run c = (indexIdentifierValue id).run c := by
          unfold indexInnerValue
          have hsv' : (indexSimpleValue r id) = indexIdentifierValue id := by
            unfold indexSimpleValue
            simp only [hk]
          simp only [hsv, StateT.run_bind, hsv', hs, List.forIn_nil]
          cases (indexIdentifierValue id).run c with
          | error e => rfl
          | ok p =>
            obtain ⟨t, c1⟩ := p
            cases t <;> rfl
        rw [hinner]
        cases (indexIdentifierValue id).run c with
        | error e => rfl
        | ok p => rfl
      · cases h
    · cases h
  · cases h

/-! ### the environment and the invariant -/

abbrev Env := List (String × Ty)

def Env.get (env : Env) (name : String) : Option Ty := (env.find? fun e => e.1 == name).map (·.2)

/-- the types that fields of the core have -/
def isPrimTy : Ty → Bool
  | .bit | .int | .string | .code | .dag | .bits _ | .uninitialized => true
  | _ => false

theorem primCast_sound (sm : SymMap) (a b : Ty) (ha : isPrimTy a = true) (h : litCastOk a b = true) :
    sm.canBeCastedTo a b = true := by
  unfold litCastOk at h
  unfold SymMap.canBeCastedTo
  cases a <;> simp only [isPrimTy] at ha <;> first | cases ha | skip
  all_goals (cases b <;>
    first
      | rfl
      | (simp only [Ty.canBeCastedTo] at h ⊢; exact h)
      | (rename_i w
         rcases w with _ | _ | w <;>
           first | rfl | (simp only [Ty.canBeCastedTo] at h ⊢; exact h) | (simp [Ty.canBeCastedTo] at h))
      | (rename_i w w'
         rcases w with _ | _ | w <;>
           first | rfl | (simp only [Ty.canBeCastedTo] at h ⊢; exact h) | (simp [Ty.canBeCastedTo] at h)))

structure RInv (rid : Nat) (env : Env) (c : IndexCtx) : Prop where
  top : ∃ sc rest, c.scopes.scopes = sc :: rest ∧ sc.kind = .record rid ∧ ∀ k : String, sc.nameToVariable[k]? = none
  recOk : rid < c.symbolMap.recordList.size
  flds : ∀ name t, env.get name = some t → isPrimTy t = true ∧ ∃ fid,
    indexMapGet (c.symbolMap.record rid).nameToRecordField name = some fid ∧
    fid < c.symbolMap.recordFieldList.size ∧ (c.symbolMap.recordField fid).typ = t
  trace : c.fileTrace ≠ []

theorem RInv.currentRecordId {rid : Nat} {env : Env} {c : IndexCtx} (h : RInv rid env c) :
    c.scopes.currentRecordId = some rid := by
  obtain ⟨sc, rest, hs, hk, _⟩ := h.top
  unfold Scopes.currentRecordId
  rw [hs]
  simp [List.findSome?_cons, Scope.recordId, hk]

theorem recordFindField_own (sm : SymMap) (rid : Nat) (name : String) (fid : Nat)
    (h : indexMapGet (sm.record rid).nameToRecordField name = some fid) : sm.recordFindField rid name = some fid := by
  unfold SymMap.recordFindField SymMap.fieldFuel
  show SymMap.findFieldGo sm name (sm.recordList.size + 1) rid = some fid
  unfold SymMap.findFieldGo
  simp only [h]

theorem RInv.findLocal {rid : Nat} {env : Env} {c : IndexCtx} (h : RInv rid env c) (name : String) (t : Ty)
    (hg : env.get name = some t) :
    ∃ fid, c.scopes.findLocal c.symbolMap name = some (.recordField fid) ∧ (c.symbolMap.recordField fid).typ = t := by
  obtain ⟨sc, rest, hs, hk, hv⟩ := h.top
  obtain ⟨_, fid, hf, _, ht⟩ := h.flds name t hg
  refine ⟨fid, ?_, ht⟩
  unfold Scopes.findLocal
  rw [hs]
  simp only [List.findSome?_cons]
  have h1 : sc.findVariable name = none := by
    unfold Scope.findVariable
    simp [hv name, hk]
  simp only [h1, Scope.recordId, hk, recordFindField_own _ _ _ _ hf]

/-- the run of the identifier site on a name that the innermost scopes resolve to a field -/
theorem indexIdentifierValue_field (id : PTree) (c : IndexCtx) (f : Nat) (rest : List Nat) (hft : c.fileTrace = f :: rest)
    (name : String) (loc : FileRange) (hid : identOf f id = some (name, loc)) (fid : Nat)
    (hres : c.scopes.findLocal c.symbolMap name = some (.recordField fid)) :
    (indexIdentifierValue id).run c =
      .ok (some (c.symbolMap.recordField fid).typ, c.setSM (c.symbolMap.addReference (.recordField fid) loc)) := by
  unfold indexIdentifierValue resolveId
  simp only [StateT.run_bind, utilsIdentifier_runOf id c f rest hft, hid, Except.ok_bind, IxM.run_get, hres,
    addReference_run, withSM_run]
  rfl


/-! ### the checker -/

/-- an initialiser of the second core: a literal castable to the declared type, or the name of a
field in scope (`env`) whose type is castable to it -/
def coreInit2 (env : Env) (ty : Ty) (v : PTree) : Bool :=
  match litValueType v with
  | some lt => litCastOk lt ty
  | none =>
    match identValueNode v with
    | some id =>
      match Ast.identifierValue id, Ast.identifierRange id with
      | some name, some _ =>
        match env.get name with
        | some t => litCastOk t ty
        | none => false
      | _, _ => false
    | none => false

/-- `T x [= init];`: the environment after the declaration, `none` = not in the core -/
def coreFieldDef2 (env : Env) (n : PTree) : Option Env :=
  match Ast.fieldDefName n, Ast.fieldDefType n with
  | some nameNode, some tn =>
    match Ast.identifierValue nameNode, Ast.identifierRange nameNode with
    | some name, some _ =>
      if isPrimTypeNode tn then
        match primTypeOf tn with
        | some ty =>
          match Ast.fieldDefValue n with
          | none => some ((name, ty) :: env)
          | some v => if coreInit2 ((name, ty) :: env) ty v then some ((name, ty) :: env) else none
        | none => none
      else none
    | _, _ => none
  | _, _ => none

theorem primTypeOf_prim (n : PTree) (ty : Ty) (h : primTypeOf n = some ty) : isPrimTy ty = true := by
  unfold primTypeOf at h
  split at h <;> first | (cases h; rfl) | skip
  · split at h
    · cases h
    · split at h
      · cases h
      · split at h
        · cases h
        · cases h; rfl
  · cases h

theorem Env.get_cons (env : Env) (name : String) (ty : Ty) (name' : String) :
    Env.get ((name, ty) :: env) name' = if name' = name then some ty else env.get name' := by
  unfold Env.get
  simp only [List.find?_cons]
  by_cases h : name' = name
  · subst h; simp
  · have : (name == name') = false := by simpa using fun e => h e.symm
    simp [h, this]

theorem identOf_of (f : Nat) (id : PTree) (name : String) (se : Nat × Nat) (h1 : Ast.identifierValue id = some name)
    (h2 : Ast.identifierRange id = some se) : identOf f id = some (name, ⟨f, se.1, se.2⟩) := by
  unfold identOf
  simp [h1, h2]

/-- declaring a field keeps the invariant, for the environment with the new field -/
theorem RInv.withField {rid : Nat} {env : Env} {c : IndexCtx} (h : RInv rid env c) (name : String) (ty : Ty)
    (hty : isPrimTy ty = true) (loc : FileRange) :
    RInv rid ((name, ty) :: env) (Ide.withField c rid ⟨name, ty, rid, loc⟩) := by
  have hsz : (c.symbolMap.addRecordField ⟨name, ty, rid, loc⟩).2.recordList = c.symbolMap.recordList := rfl
  have hfl : (c.symbolMap.addRecordField ⟨name, ty, rid, loc⟩).2.recordFieldList =
      c.symbolMap.recordFieldList.push ⟨name, ty, rid, loc⟩ := rfl
  have hid : (c.symbolMap.addRecordField ⟨name, ty, rid, loc⟩).1 = c.symbolMap.recordFieldList.size := rfl
  refine ⟨h.top, ?_, ?_, h.trace⟩
  · show rid < (Array.modify _ _ _).size
    rw [Array.size_modify]
    exact h.recOk
  · intro name' t hg
    rw [Env.get_cons] at hg
    have hrec : ((Ide.withField c rid ⟨name, ty, rid, loc⟩).symbolMap.record rid).nameToRecordField =
        indexMapInsert (c.symbolMap.record rid).nameToRecordField name c.symbolMap.recordFieldList.size := by
      show ((Array.modify c.symbolMap.recordList rid _)[rid]!).nameToRecordField = _
      rw [sGetElem!_modify _ _ _ _ h.recOk]
      simp only [if_true]
      rfl
    have hfld : ∀ i, (Ide.withField c rid ⟨name, ty, rid, loc⟩).symbolMap.recordField i =
        (c.symbolMap.recordFieldList.push ⟨name, ty, rid, loc⟩)[i]! := fun _ => rfl
    have hfsz : (Ide.withField c rid ⟨name, ty, rid, loc⟩).symbolMap.recordFieldList.size =
        c.symbolMap.recordFieldList.size + 1 := by
      show (c.symbolMap.recordFieldList.push _).size = _
      simp
    rw [hrec, indexMapGet_insert]
    by_cases hn : name' = name
    · simp only [hn, if_true] at hg ⊢
      cases hg
      refine ⟨hty, _, rfl, by rw [hfsz]; omega, ?_⟩
      rw [hfld, getElem!_push_size]
    · simp only [hn, if_false] at hg ⊢
      obtain ⟨hp, fid, hf, hlt, ht⟩ := h.flds name' t hg
      refine ⟨hp, fid, hf, by rw [hfsz]; omega, ?_⟩
      rw [hfld, sGetElem!_push_lt _ _ _ hlt]
      exact ht

/-- registering a reference keeps the invariant -/
theorem RInv.addReference {rid : Nat} {env : Env} {c : IndexCtx} (h : RInv rid env c) (s : SymbolId) (loc : FileRange) :
    RInv rid env (c.setSM (c.symbolMap.addReference s loc)) :=
  ⟨h.top, h.recOk, h.flds, h.trace⟩


section core2
variable (k : Nat)

/-- **one field definition of the second core**: no diagnostic, and the invariant holds for the
extended environment -/
theorem fieldDef2_step (n : PTree) (rid : Nat) (env env' : Env) (c c' : IndexCtx) (hinv : RInv rid env c)
    (hchk : coreFieldDef2 env n = some env') (hrun : (indexFieldDef (mkRec (k + 1)) n).run c = .ok ((), c')) :
    c'.diagnostics = c.diagnostics ∧ RInv rid env' c' := by
  obtain ⟨f, rest, hft⟩ : ∃ f rest, c.fileTrace = f :: rest := by
    cases hc : c.fileTrace with
    | nil => exact absurd hc hinv.trace
    | cons f rest => exact ⟨f, rest, rfl⟩
  unfold coreFieldDef2 at hchk
  cases hnn : Ast.fieldDefName n with
  | none => rw [hnn] at hchk; cases hchk
  | some nameNode =>
  cases htn : Ast.fieldDefType n with
  | none => rw [hnn, htn] at hchk; cases hchk
  | some tn =>
  rw [hnn, htn] at hchk
  simp only at hchk
  cases hiv : Ast.identifierValue nameNode with
  | none => rw [hiv] at hchk; cases hchk
  | some name =>
  cases hir : Ast.identifierRange nameNode with
  | none => rw [hiv, hir] at hchk; cases hchk
  | some se =>
  rw [hiv, hir] at hchk
  simp only at hchk
  by_cases hprim : isPrimTypeNode tn = true
  · simp only [hprim, if_true] at hchk
    cases hty : primTypeOf tn with
    | none => rw [hty] at hchk; cases hchk
    | some ty =>
    rw [hty] at hchk
    simp only at hchk
    have hpty := primTypeOf_prim tn ty hty
    have hid := identOf_of f nameNode name se hiv hir
    have htyp : ((mkRec (k + 1)).typ tn).run c = .ok (some ty, c) := by
      have := indexType_prim (mkRec k) tn hprim c
      rw [hty] at this
      exact this
    have hinv2 := hinv.withField name ty hpty ⟨f, se.1, se.2⟩
    unfold indexFieldDef at hrun
    simp only [StateT.run_bind, currentRecordId_run, hinv.currentRecordId, Except.ok_bind, hnn,
      utilsIdentifier_runOf nameNode c f rest hft, hid, htn, htyp, addRecordField_run, recordMut_run] at hrun
    change (StateT.run _ (withField c rid ⟨name, ty, rid, ⟨f, se.1, se.2⟩⟩)) = _ at hrun
    cases hv : Ast.fieldDefValue n with
    | none =>
      rw [hv] at hrun hchk
      cases hrun
      cases hchk
      exact ⟨rfl, hinv2⟩
    | some v =>
      rw [hv] at hrun hchk
      simp only at hrun hchk
      by_cases hci : coreInit2 ((name, ty) :: env) ty v = true
      · simp only [hci, if_true] at hchk
        cases hchk
        unfold coreInit2 at hci
        cases hlt : litValueType v with
        | some lt =>
          rw [hlt] at hci
          simp only at hci
          have hvrun : ((mkRec (k + 1)).value v).run (withField c rid ⟨name, ty, rid, ⟨f, se.1, se.2⟩⟩) =
              .ok (some lt, withField c rid ⟨name, ty, rid, ⟨f, se.1, se.2⟩⟩) := indexValue_lit _ v lt hlt _
          simp only [StateT.run_bind, hvrun, Except.ok_bind, canBeCastedTo_run,
            litCast_sound _ lt ty (litValueType_cases v lt hlt) hci, Bool.not_true, Bool.false_eq_true, if_false] at hrun
          cases hrun
          exact ⟨rfl, hinv2⟩
        | none =>
          rw [hlt] at hci
          simp only at hci
          cases hidv : identValueNode v with
          | none => rw [hidv] at hci; cases hci
          | some id =>
            rw [hidv] at hci
            simp only at hci
            cases hv1 : Ast.identifierValue id with
            | none => rw [hv1] at hci; cases hci
            | some vname =>
            cases hv2 : Ast.identifierRange id with
            | none => rw [hv1, hv2] at hci; cases hci
            | some vse =>
            rw [hv1, hv2] at hci
            simp only at hci
            cases hg : Env.get ((name, ty) :: env) vname with
            | none => rw [hg] at hci; cases hci
            | some t =>
            rw [hg] at hci
            simp only at hci
            obtain ⟨fid, hfl, hft'⟩ := hinv2.findLocal vname t hg
            have hpt := (hinv2.flds vname t hg).1
            have hvrun : ((mkRec (k + 1)).value v).run (withField c rid ⟨name, ty, rid, ⟨f, se.1, se.2⟩⟩) = _ :=
              (indexValue_ident (mkRec k) v id hidv _).trans
                (indexIdentifierValue_field id _ f rest (by simpa using hft) vname ⟨f, vse.1, vse.2⟩
                  (identOf_of f id vname vse hv1 hv2) fid hfl)
            rw [hft'] at hvrun
            simp only [StateT.run_bind, hvrun, Except.ok_bind, canBeCastedTo_run,
              primCast_sound _ t ty hpt hci, Bool.not_true, Bool.false_eq_true, if_false] at hrun
            cases hrun
            exact ⟨rfl, hinv2.addReference _ _⟩
      · simp only [hci, Bool.false_eq_true, if_false] at hchk
        cases hchk
  · simp only [hprim, Bool.false_eq_true, if_false] at hchk
    cases hchk

/-- the items of a body of the second core, checked left to right -/
def coreItems2 : Env → List PTree → Bool
  | _, [] => true
  | env, it :: rest =>
    it.kind == .FieldDef &&
    match coreFieldDef2 env it with
    | some env' => coreItems2 env' rest
    | none => false

theorem items2_quiet (items : List PTree) (rid : Nat) (env : Env) (c c' : IndexCtx) (u : PUnit)
    (hinv : RInv rid env c) (hchk : coreItems2 env items = true)
    (hrun : (forIn items PUnit.unit fun item _ => do
        indexBodyItem (mkRec (k + 1)) item
        pure (ForInStep.yield PUnit.unit)).run c = .ok (u, c')) :
    c'.diagnostics = c.diagnostics := by
  induction items generalizing env c with
  | nil =>
    simp only [List.forIn_nil, StateT.run_pure] at hrun
    cases hrun; rfl
  | cons it rest ih =>
    unfold coreItems2 at hchk
    simp only [Bool.and_eq_true, beq_iff_eq] at hchk
    obtain ⟨hkind, hchk⟩ := hchk
    cases hfd : coreFieldDef2 env it with
    | none => rw [hfd] at hchk; cases hchk
    | some env' =>
      rw [hfd] at hchk
      rw [List.forIn_cons] at hrun
      obtain ⟨st, c1, h1, hrun⟩ := IxM.run_bind_ok hrun
      obtain ⟨_, c1', j1, j2⟩ := IxM.run_bind_ok h1
      simp only [StateT.run_pure] at j2
      cases j2
      have j1' : (indexFieldDef (mkRec (k + 1)) it).run c = .ok ((), c1) := by
        unfold indexBodyItem at j1
        simp only [hkind] at j1
        exact j1
      obtain ⟨hd1, hinv1⟩ := fieldDef2_step k it rid env env' c c1 hinv hfd j1'
      exact (ih env' c1 hinv1 hchk hrun).trans hd1

/-- a record body of the second core: no parents, items checked by `coreItems2` from the empty environment -/
def coreRecordBody2 (rb : PTree) : Bool :=
  match Ast.recordBodyParentClassList rb with
  | none => true
  | some pcl =>
    (Ast.parentClassListClasses pcl).isEmpty &&
    match Ast.recordBodyBody rb with
    | none => true
    | some b => coreItems2 [] (Ast.bodyItems b)

theorem recordBody2_quiet (rb : PTree) (rid : Nat) (c c' : IndexCtx) (hinv : RInv rid [] c)
    (hchk : coreRecordBody2 rb = true) (hrun : (indexRecordBody (mkRec (k + 1)) rb).run c = .ok ((), c')) :
    c'.diagnostics = c.diagnostics := by
  unfold coreRecordBody2 at hchk
  unfold indexRecordBody at hrun
  cases hp : Ast.recordBodyParentClassList rb with
  | none => rw [hp] at hrun; cases hrun; rfl
  | some pcl =>
    rw [hp] at hrun hchk
    simp only [Bool.and_eq_true, List.isEmpty_iff] at hchk
    obtain ⟨hcls, hchk⟩ := hchk
    have hpcl : (indexParentClassList (mkRec (k + 1)) pcl).run c = .ok ((), c) := by
      unfold indexParentClassList
      simp only [StateT.run_bind, currentRecordId_run, hinv.currentRecordId, Except.ok_bind, hcls, List.forIn_nil]
      rfl
    simp only [StateT.run_bind, hpcl, Except.ok_bind] at hrun
    cases hb : Ast.recordBodyBody rb with
    | none => rw [hb] at hrun; cases hrun; rfl
    | some b =>
      rw [hb] at hrun hchk
      simp only at hrun hchk
      unfold indexBody at hrun
      obtain ⟨u, c1, h1, h2⟩ := IxM.run_bind_ok hrun
      simp only [StateT.run_pure] at h2
      cases h2
      exact items2_quiet k _ rid [] c c' u hinv hchk h1

/-- the state in which a record body is indexed: right after `scopes.push(Record(id))` -/
theorem RInv.ofPush (c : IndexCtx) (id : Nat) (hid : id < c.symbolMap.recordList.size) (htr : c.fileTrace ≠ []) :
    RInv id [] { c with scopes := c.scopes.push (.record id) } := by
  refine ⟨⟨{ kind := .record id }, c.scopes.scopes, rfl, rfl, fun k => ?_⟩, hid, ?_, htr⟩
  · simp
  · intro name t h
    simp [Env.get] at h

/-- `scopes.push(Record(id))` followed by the record body -/
theorem pushBody_quiet (rb : PTree) (id : Nat) (c c1 c2 : IndexCtx) (hid : id < c.symbolMap.recordList.size)
    (htr : c.fileTrace ≠ []) (hchk : coreRecordBody2 rb = true)
    (h1 : (scopesPush (.record id)).run c = .ok ((), c1))
    (h2 : (indexRecordBody (mkRec (k + 1)) rb).run c1 = .ok ((), c2)) : c2.diagnostics = c.diagnostics := by
  unfold scopesPush at h1
  rw [IxM.run_modify] at h1
  cases h1
  exact recordBody2_quiet k rb id { c with scopes := c.scopes.push (.record id) } c2 (RInv.ofPush c id hid htr) hchk h2

theorem pushFileSymbol_recordList (sm : SymMap) (file : Nat) (s : SymbolId) :
    (sm.pushFileSymbol file s).recordList = sm.recordList := by
  unfold SymMap.pushFileSymbol
  split <;> rfl

theorem addRecord_size (sm : SymMap) (r : Record) (g : Bool) :
    (sm.addRecord r g).1 = sm.recordList.size ∧ (sm.addRecord r g).2.recordList.size = sm.recordList.size + 1 := by
  refine ⟨rfl, ?_⟩
  unfold SymMap.addRecord
  simp only
  split <;> split <;> simp [pushFileSymbol_recordList, SymMap.logDefine]

theorem addMulticlassDef_size (sm : SymMap) (r : Record) :
    (sm.addMulticlassDef r).1 = sm.recordList.size ∧ (sm.addMulticlassDef r).2.recordList.size = sm.recordList.size + 1 := by
  refine ⟨rfl, ?_⟩
  simp [SymMap.addMulticlassDef, pushFileSymbol_recordList, SymMap.logDefine]

theorem addAnonymousDef_size (sm : SymMap) (r : Record) :
    (sm.addAnonymousDef r).1 = sm.recordList.size ∧ (sm.addAnonymousDef r).2.recordList.size = sm.recordList.size + 1 := by
  refine ⟨rfl, ?_⟩
  simp [SymMap.addAnonymousDef, SymMap.logDefine]

/-- `class C { … }` of the second core -/
def coreClass2 (n : PTree) : Bool :=
  (Ast.classTemplateArgList n).isNone &&
  match Ast.classRecordBody n with
  | none => true
  | some rb => coreRecordBody2 rb

theorem indexClass2_quiet (n : PTree) (c c' : IndexCtx) (htr : c.fileTrace ≠ []) (hchk : coreClass2 n = true)
    (hrun : (indexClass (mkRec (k + 1)) n).run c = .ok ((), c')) : c'.diagnostics = c.diagnostics := by
  unfold coreClass2 at hchk
  simp only [Bool.and_eq_true, Option.isNone_iff_eq_none] at hchk
  obtain ⟨hta, hrb⟩ := hchk
  unfold indexClass at hrun
  rw [hta] at hrun
  cases hnn : Ast.className n with
  | none => rw [hnn] at hrun; cases hrun; rfl
  | some nameNode =>
    rw [hnn] at hrun
    simp only at hrun
    obtain ⟨x1, c1, h1, hrun⟩ := IxM.run_bind_ok hrun
    have q1 := (quiet_utilsIdentifier nameNode).run _ _ _ h1
    have a1 := ((utilsIdentifier_keeps (R := AttrRel) nameNode).run _ _ _ h1).trace
    cases x1 with
    | none => cases hrun; exact q1
    | some nl =>
      obtain ⟨name, loc⟩ := nl
      simp only at hrun
      obtain ⟨id, c2, h2, hrun⟩ := IxM.run_bind_ok hrun
      have h2' : (addRecord { name := name, kind := .cls, defineLoc := loc } true).run c1 =
          .ok ((c1.symbolMap.addRecord { name := name, kind := .cls, defineLoc := loc } true).1,
            c1.setSM (c1.symbolMap.addRecord { name := name, kind := .cls, defineLoc := loc } true).2) := rfl
      rw [h2'] at h2
      cases h2
      have hsz := addRecord_size c1.symbolMap { name := name, kind := .cls, defineLoc := loc } true
      obtain ⟨_, c3, h3, hrun⟩ := IxM.run_bind_ok hrun
      have htr1 : (c1.setSM (c1.symbolMap.addRecord { name := name, kind := .cls, defineLoc := loc } true).2).fileTrace ≠ [] := by
        simp only [IndexCtx.setSM_fileTrace, a1]; exact htr
      have hid : (c1.symbolMap.addRecord { name := name, kind := .cls, defineLoc := loc } true).1 <
          (c1.setSM (c1.symbolMap.addRecord { name := name, kind := .cls, defineLoc := loc } true).2).symbolMap.recordList.size := by
        simp only [IndexCtx.setSM_symbolMap, hsz.1, hsz.2]; omega
      cases hb : Ast.classRecordBody n with
      | none =>
        rw [hb] at hrun
        simp only [pure_bind] at hrun
        have q3 := (quiet_scopesPush _).run _ _ _ h3
        have q4 := quiet_scopesPop.run _ _ _ hrun
        exact (q4.trans q3).trans q1
      | some rb =>
        rw [hb] at hrun hrb
        simp only at hrun
        obtain ⟨_, c4, h4, hrun⟩ := IxM.run_bind_ok hrun
        have q4 := pushBody_quiet k rb _ _ c3 c4 hid htr1 hrb h3 h4
        have q5 := quiet_scopesPop.run _ _ _ hrun
        exact (q5.trans q4).trans q1

/-- `def d { … }` of the second core -/
def coreDef2 (n : PTree) : Bool :=
  match Ast.defRecordBody n with
  | none => true
  | some rb => coreRecordBody2 rb

/-- diagnostics, file trace untouched and the record arena not shrunk: what the prefix of `indexDef` keeps -/
def PreRel (c c' : IndexCtx) : Prop :=
  c'.diagnostics = c.diagnostics ∧ c'.fileTrace = c.fileTrace ∧
    c.symbolMap.recordList.size ≤ c'.symbolMap.recordList.size

instance : KeepRel PreRel where
  refl := fun _ => ⟨rfl, rfl, Nat.le_refl _⟩
  trans := fun h1 h2 => ⟨h2.1.trans h1.1, h2.2.1.trans h1.2.1, Nat.le_trans h1.2.2 h2.2.2⟩

theorem pre_sameFileDefset : Keeps PreRel sameFileDefset := by
  unfold sameFileDefset currentDefsetId withSM
  keeps
theorem pre_defDefset : Keeps PreRel defDefset := by
  unfold defDefset sameFileDefset currentDefsetId currentMulticlassId withSM
  keeps
theorem pre_indexNameValue (v : PTree) : Keeps PreRel (indexNameValue v) := by
  unfold indexNameValue utilsIdentifier
  keeps
theorem pre_currentMulticlassId : Keeps PreRel currentMulticlassId := by unfold currentMulticlassId; keeps
theorem pre_nextAnonymousDefName : Keeps PreRel nextAnonymousDefName :=
  Keeps.modifyGet _ fun _ => ⟨rfl, rfl, Nat.le_refl _⟩
theorem pre_defsetMut (id : Nat) (g : Defset → Defset) : Keeps PreRel (defsetMut id g) :=
  Keeps.modifyGet _ fun _ => ⟨rfl, rfl, Nat.le_refl _⟩

theorem indexDef2_quiet (n : PTree) (c c' : IndexCtx) (htr : c.fileTrace ≠ []) (hchk : coreDef2 n = true)
    (hrun : (indexDef (mkRec (k + 1)) n).run c = .ok ((), c')) : c'.diagnostics = c.diagnostics := by
  unfold coreDef2 at hchk
  have hfin : ∀ (id : Nat) (c1 c6 : IndexCtx), PreRel c c1 → id < c1.symbolMap.recordList.size →
      (scopesPush (.record id)).run c1 = .ok ((), c6) →
      (∀ rb, Ast.defRecordBody n = some rb → ∃ c7, (indexRecordBody (mkRec (k + 1)) rb).run c6 = .ok ((), c7) ∧
        scopesPop.run c7 = .ok ((), c')) →
      (Ast.defRecordBody n = none → c' = c6) → c'.diagnostics = c.diagnostics := by
    intro id c1 c6 hp hid h6 hsome hnone
    have htr1 : c1.fileTrace ≠ [] := by rw [hp.2.1]; exact htr
    cases hb : Ast.defRecordBody n with
    | none =>
      rw [hnone hb]
      exact ((quiet_scopesPush _).run _ _ _ h6).trans hp.1
    | some rb =>
      rw [hb] at hchk
      obtain ⟨c7, h7, h8⟩ := hsome rb hb
      exact ((quiet_scopesPop.run _ _ _ h8).trans (pushBody_quiet k rb id c1 c6 c7 hid htr1 hchk h6 h7)).trans hp.1
  have hadd : ∀ (c1 : IndexCtx) (sm' : SymMap), sm'.recordList.size = c1.symbolMap.recordList.size + 1 →
      PreRel c c1 → PreRel c (c1.setSM sm') := by
    intro c1 sm' hsz hp
    exact ⟨hp.1, hp.2.1, by simp only [IndexCtx.setSM_symbolMap, hsz]; have := hp.2.2; omega⟩
  unfold indexDef at hrun
  obtain ⟨ds, c1, h1, hrun⟩ := IxM.run_bind_ok hrun
  have p1 : PreRel c c1 := pre_defDefset.run _ _ _ h1
  dsimp only at hrun
  split at hrun
  all_goals
    obtain ⟨named, c2, h2, hrun⟩ := IxM.run_bind_ok hrun
    have p2 : PreRel c c2 := by
      first
        | exact KeepRel.trans p1 ((pre_indexNameValue _).run _ _ _ h2)
        | (have e : c2 = c1 := by cases h2; rfl
           rw [e]; exact p1)
    split at hrun
    · rename_i name loc
      obtain ⟨m, c3, h3, hrun⟩ := IxM.run_bind_ok hrun
      have p3 : PreRel c c3 := KeepRel.trans p2 (pre_currentMulticlassId.run _ _ _ h3)
      split at hrun
      · obtain ⟨id, c4, h4, hrun⟩ := IxM.run_bind_ok hrun
        have h4' : (addMulticlassDef { name := name, kind := .def_, defineLoc := loc }).run c3 =
            .ok ((c3.symbolMap.addMulticlassDef { name := name, kind := .def_, defineLoc := loc }).1,
              c3.setSM (c3.symbolMap.addMulticlassDef { name := name, kind := .def_, defineLoc := loc }).2) := rfl
        rw [h4'] at h4
        cases h4
        have hsz := addMulticlassDef_size c3.symbolMap { name := name, kind := .def_, defineLoc := loc }
        have p4 := hadd c3 _ hsz.2 p3
        split at hrun
        · obtain ⟨_, c5, h5, hrun⟩ := IxM.run_bind_ok hrun
          have p5 : PreRel c c5 := KeepRel.trans p4 ((pre_defsetMut _ _).run _ _ _ h5)
          obtain ⟨_, c6, h6, hrun⟩ := IxM.run_bind_ok hrun
          refine hfin _ c5 c6 p5 ?_ h6 ?_ ?_
          · have := ((pre_defsetMut _ _).run _ _ _ h5).2.2
            simp only [IndexCtx.setSM_symbolMap, hsz.2] at this
            rw [hsz.1]; omega
          · intro rb hb
            rw [hb] at hrun
            simp only at hrun
            obtain ⟨_, c7, h7, h8⟩ := IxM.run_bind_ok hrun
            exact ⟨c7, h7, h8⟩
          · intro hb
            rw [hb] at hrun
            cases hrun; rfl
        · obtain ⟨_, c6, h6, hrun⟩ := IxM.run_bind_ok hrun
          refine hfin _ _ c6 p4 ?_ h6 ?_ ?_
          · simp only [IndexCtx.setSM_symbolMap, hsz.1, hsz.2]; omega
          · intro rb hb
            rw [hb] at hrun
            simp only at hrun
            obtain ⟨_, c7, h7, h8⟩ := IxM.run_bind_ok hrun
            exact ⟨c7, h7, h8⟩
          · intro hb
            rw [hb] at hrun
            cases hrun; rfl
      · obtain ⟨id, c4, h4, hrun⟩ := IxM.run_bind_ok hrun
        have h4' : (addRecord { name := name, kind := .def_, defineLoc := loc } ds.isNone).run c3 =
            .ok ((c3.symbolMap.addRecord { name := name, kind := .def_, defineLoc := loc } ds.isNone).1,
              c3.setSM (c3.symbolMap.addRecord { name := name, kind := .def_, defineLoc := loc } ds.isNone).2) := rfl
        rw [h4'] at h4
        cases h4
        have hsz := addRecord_size c3.symbolMap { name := name, kind := .def_, defineLoc := loc } ds.isNone
        have p4 := hadd c3 _ hsz.2 p3
        split at hrun
        · obtain ⟨_, c5, h5, hrun⟩ := IxM.run_bind_ok hrun
          have p5 : PreRel c c5 := KeepRel.trans p4 ((pre_defsetMut _ _).run _ _ _ h5)
          obtain ⟨_, c6, h6, hrun⟩ := IxM.run_bind_ok hrun
          refine hfin _ c5 c6 p5 ?_ h6 ?_ ?_
          · have := ((pre_defsetMut _ _).run _ _ _ h5).2.2
            simp only [IndexCtx.setSM_symbolMap, hsz.2] at this
            rw [hsz.1]; omega
          · intro rb hb
            rw [hb] at hrun
            simp only at hrun
            obtain ⟨_, c7, h7, h8⟩ := IxM.run_bind_ok hrun
            exact ⟨c7, h7, h8⟩
          · intro hb
            rw [hb] at hrun
            cases hrun; rfl
        · obtain ⟨_, c6, h6, hrun⟩ := IxM.run_bind_ok hrun
          refine hfin _ _ c6 p4 ?_ h6 ?_ ?_
          · simp only [IndexCtx.setSM_symbolMap, hsz.1, hsz.2]; omega
          · intro rb hb
            rw [hb] at hrun
            simp only at hrun
            obtain ⟨_, c7, h7, h8⟩ := IxM.run_bind_ok hrun
            exact ⟨c7, h7, h8⟩
          · intro hb
            rw [hb] at hrun
            cases hrun; rfl
    · obtain ⟨nm, c2a, h2a, hrun⟩ := IxM.run_bind_ok hrun
      have p2a : PreRel c c2a := KeepRel.trans p2 (pre_nextAnonymousDefName.run _ _ _ h2a)
      obtain ⟨f, c3, h3, hrun⟩ := IxM.run_bind_ok hrun
      have p3 : PreRel c c3 := KeepRel.trans p2a ((currentFileId_keeps (R := PreRel)).run _ _ _ h3)
      obtain ⟨id, c4, h4, hrun⟩ := IxM.run_bind_ok hrun
      have h4' : (addAnonymousDef { name := nm, kind := .def_, defineLoc := ⟨f, n.start, n.stop⟩ }).run c3 =
          .ok ((c3.symbolMap.addAnonymousDef { name := nm, kind := .def_, defineLoc := ⟨f, n.start, n.stop⟩ }).1,
            c3.setSM (c3.symbolMap.addAnonymousDef { name := nm, kind := .def_, defineLoc := ⟨f, n.start, n.stop⟩ }).2) := rfl
      rw [h4'] at h4
      cases h4
      have hsz := addAnonymousDef_size c3.symbolMap { name := nm, kind := .def_, defineLoc := ⟨f, n.start, n.stop⟩ }
      obtain ⟨_, c6, h6, hrun⟩ := IxM.run_bind_ok hrun
      refine hfin _ _ c6 (hadd c3 _ hsz.2 p3) ?_ h6 ?_ ?_
      · simp only [IndexCtx.setSM_symbolMap, hsz.1, hsz.2]; omega
      · intro rb hb
        rw [hb] at hrun
        simp only at hrun
        obtain ⟨_, c7, h7, h8⟩ := IxM.run_bind_ok hrun
        exact ⟨c7, h7, h8⟩
      · intro hb
        rw [hb] at hrun
        cases hrun; rfl

def coreStatement2 (s : PTree) : Bool := (s.kind == .Class && coreClass2 s) || (s.kind == .Def && coreDef2 s)

/-- **the second core**: a statement list of `class` / `def` statements without template parameters
and parents whose bodies are field definitions `T x [= init];`, `T` primitive, `init` a literal
castable to `T` or the name of a field declared earlier in the same body (or `x` itself) whose type is
castable to `T` -/
def coreStatementList2 (sl : PTree) : Bool := (Ast.statementListStatements sl).all coreStatement2

theorem indexStatement2_quiet (s : PTree) (c c' : IndexCtx) (htr : c.fileTrace ≠ []) (hchk : coreStatement2 s = true)
    (hrun : (indexStatement (mkRec (k + 1)) s).run c = .ok ((), c')) : c'.diagnostics = c.diagnostics := by
  unfold coreStatement2 at hchk
  simp only [Bool.or_eq_true, Bool.and_eq_true, beq_iff_eq] at hchk
  unfold indexStatement at hrun
  rcases hchk with ⟨hk, hc⟩ | ⟨hk, hc⟩
  · simp only [hk] at hrun; exact indexClass2_quiet k s c c' htr hc hrun
  · simp only [hk] at hrun; exact indexDef2_quiet k s c c' htr hc hrun

theorem indexStatementList2_quiet (sl : PTree) (hchk : coreStatementList2 sl = true) (c c' : IndexCtx)
    (htr : c.fileTrace ≠ []) (hrun : ((mkRec (k + 2)).statementList sl).run c = .ok ((), c')) :
    c'.diagnostics = c.diagnostics := by
  have hrun' : (indexStatementList (mkRec (k + 1)) sl).run c = .ok ((), c') := hrun
  unfold indexStatementList at hrun'
  unfold coreStatementList2 at hchk
  rw [List.all_eq_true] at hchk
  obtain ⟨u, c'', hloop, hpure⟩ := IxM.run_bind_ok hrun'
  simp only [StateT.run_pure] at hpure
  cases hpure
  clear hrun hrun'
  generalize Ast.statementListStatements sl = l at hchk hloop
  induction l generalizing c with
  | nil =>
    simp only [List.forIn_nil, StateT.run_pure] at hloop
    cases hloop; rfl
  | cons s rest ih =>
    rw [List.forIn_cons] at hloop
    obtain ⟨st, c1, h1, hloop⟩ := IxM.run_bind_ok hloop
    obtain ⟨_, c1', j1, j2⟩ := IxM.run_bind_ok h1
    simp only [StateT.run_pure] at j2
    cases j2
    have q1 := indexStatement2_quiet k s c c1 htr (hchk s List.mem_cons_self) j1
    obtain ⟨hv, ht, hsl, hsf⟩ := mkRec_attr (k + 1)
    have a1 : AttrRel c c1 := (Index.indexStatement_keeps hv ht hsl hsf s).run _ _ _ j1
    have htr1 : c1.fileTrace ≠ [] := by rw [a1.trace]; exact htr
    exact (ih c1 htr1 (fun x hx => hchk x (List.mem_cons_of_mem _ hx)) hloop).trans q1

end core2

end Ide
end Tg
