/-
C04 converse for values — assembled, with an evaluator for the examples.
-/
import TgModel.Lemmas.C04ConvV6
import TgModel.Lemmas.C04ConvLemmas

namespace Tg
namespace C04L
open Prog Grammar Frag Doc

local notation "rcv" => Tables.recoverTokens

/-- `ValueOK` holds on the words with the value shape -/
theorem value_ok_shape : ValueOKOn VShape := fun _ hs hv => value_converse hv hs

/-- the value parser run on a whole input: no error, everything consumed -/
def valueRunsClean (input : List Char) (fuel : Nat) : Bool :=
  okAnd (exec defs rcv fuel (call .value) (PState.init input)) fun s' =>
    decide (s'.errors.length = 0) && decide (s'.kinds.length = 0) && decide ((PState.init input).errors.length = 0)

/-- the value converse applied to a whole input -/
theorem value_on_input (input : List Char) (fuel : Nat) (h : valueRunsClean input fuel = true)
    (hs : VShape (PState.init input).kinds) : Derives (.nt .Value_) (PState.init input).kinds := by
  obtain ⟨s', hr, hp⟩ := okAnd_spec h
  simp only [Bool.and_eq_true, decide_eq_true_eq] at hp
  obtain ⟨⟨he, hk⟩, h0⟩ := hp
  have hc : Clean (PState.init input) s' := by unfold Clean; omega
  obtain ⟨w, hw, hd⟩ := value_run_converse fuel _ s' hr hc
  have : w = (PState.init input).kinds := by
    rw [hw, List.length_eq_zero_iff.mp hk, List.append_nil]
  subst this
  exact hd hs

/-- the top-level converse without hypotheses, applied to a concrete input -/
theorem sentence_on_input (input : List Char) (h : acceptsClean input = true)
    (hs : Shape (PState.init input).kinds) (hv : VShape (PState.init input).kinds) :
    Doc.Sentence (PState.init input).kinds := by
  obtain ⟨r, hr, he⟩ := acceptsClean_spec h
  exact source_file_converse_shape input r hr he hs hv

end C04L
end Tg
