/-
The epilogue of `ParserBase::finish`: what it appends is determined by the text alone.

`Src.endMessage input` is the message still parked in the token source when it has been run to
`Eof` under the parser's discipline (`Src.drain`); `endErrors input` the error `finish` makes of
it.  Every parser state with look-ahead `Eof` that satisfies the generic invariant holds exactly
that source state (`Inv.chain`), so `parse` reports the errors of the run followed by
`endErrors input` — for every grammar.
-/
import TgModel.Grammar
import TgModel.Lemmas.ParserInv
import TgModel.Lemmas.GrammarEof

namespace Tg
namespace Src

/-- `Eof` has been delivered: no input left and the `Eof` arm has nothing more to do -/
def Settled (s : Src) : Prop := s.rest = [] ∧ ¬ (0 < s.openConds ∧ s.prepErr = none)

theorem atEof_settled (s : Src) (h : s.rest = []) : Settled (atEof s) := by
  unfold atEof
  split
  · exact ⟨h, by simp⟩
  · rename_i hc; exact ⟨h, hc⟩

theorem atEof_of_settled (s : Src) (h : Settled s) : atEof s = s := by
  unfold atEof; rw [if_neg h.2]

/-- the token source that delivered `Eof` is settled -/
theorem eat_eof_settled (s : Src) (h : (s.eat).1.kind = .Eof) : Settled (s.eat).2 := by
  unfold eat at h ⊢
  have he := lexEat_eof_text s
  cases hle : s.lexEat with
  | mk t s1 =>
    rw [hle] at h he
    simp only [] at h he ⊢
    split at h
    · rcases processIf_kind true t s1 with h1 | ⟨h1, _⟩ <;> simp [h1] at h
    · rcases processIf_kind false t s1 with h1 | ⟨h1, _⟩ <;> simp [h1] at h
    · simp at h
    · simp at h
    · rcases processDefine_kind t s1 with h1 | ⟨h1, _⟩ <;> simp [h1] at h
    · exact atEof_settled s1 (he h).2
    · rename_i h6; exact absurd h h6

theorem lexEat_of_nil (s : Src) (h : s.rest = []) : s.lexEat = ({ kind := .Eof, text := [] }, s) := by
  cases s
  simp only at h
  subst h
  simp [lexEat, Lex.next_nil]

/-- asking a settled source again delivers `Eof` again and changes nothing -/
theorem eat_of_settled (s : Src) (h : Settled s) : (s.eat).1.kind = .Eof ∧ (s.eat).2 = s := by
  unfold eat
  rw [lexEat_of_nil s h.1]
  exact ⟨rfl, atEof_of_settled s h⟩

theorem pull_eof (s : Src) : pull .Eof s = s := rfl

/-- one round of `save; lex` on (look-ahead kind, source) -/
def stepP (p : TokenKind × Src) : TokenKind × Src :=
  (((pull p.1 p.2).eat).1.kind, ((pull p.1 p.2).eat).2)

theorem chain_succ (input : List Char) (n : Nat) : chain input (n+1) = stepP (chain input n) := rfl

/-- every look-ahead/source pair of the chain comes out of an `eat` -/
theorem chain_is_eat (input : List Char) (n : Nat) :
    ∃ x : Src, chain input n = ((x.eat).1.kind, (x.eat).2) := by
  cases n with
  | zero => exact ⟨init input, rfl⟩
  | succ n => exact ⟨pull (chain input n).1 (chain input n).2, rfl⟩

/-- once `Eof` is the look-ahead the chain is stationary -/
theorem chain_stationary (input : List Char) (n : Nat) (s : Src) (h : chain input n = (.Eof, s)) :
    ∀ j, chain input (n + j) = (.Eof, s) := by
  have hs : Settled s := by
    obtain ⟨x, hx⟩ := chain_is_eat input n
    rw [hx] at h
    simp only [Prod.mk.injEq] at h
    rw [← h.2]; exact eat_eof_settled x h.1
  intro j
  induction j with
  | zero => exact h
  | succ j ih =>
    rw [← Nat.add_assoc, chain_succ, ih]
    obtain ⟨h1, h2⟩ := eat_of_settled s hs
    simp only [stepP, pull_eof]
    rw [h1, h2]

/-- `drain` on (look-ahead kind, source) pairs -/
def drainP : Nat → TokenKind × Src → Option Src
  | 0, _ => none
  | n+1, p => if p.1 == .Eof then some p.2 else drainP n (stepP p)

theorem drain_eq_drainP (n : Nat) (s : Src) : drain n s = drainP n ((s.eat).1.kind, (s.eat).2) := by
  induction n generalizing s with
  | zero => rfl
  | succ n ih =>
    simp only [drain, drainP]
    split
    · rfl
    · rw [ih]
      cases n with
      | zero => rfl
      | succ m => rfl

theorem drainP_chain (input : List Char) (m i : Nat) (s' : Src) (h : drainP m (chain input i) = some s') :
    ∃ j, chain input (i + j) = (.Eof, s') := by
  induction m generalizing i with
  | zero => simp [drainP] at h
  | succ m ih =>
    simp only [drainP] at h
    split at h
    · rename_i hk
      simp only [Option.some.injEq] at h
      refine ⟨0, ?_⟩
      rw [Nat.add_zero]
      exact Prod.ext (by simpa using hk) h
    · rw [← chain_succ] at h
      obtain ⟨j, hj⟩ := ih (i+1) h
      exact ⟨j + 1, by rw [← hj]; congr 1; omega⟩

/-- **the source at `Eof` is the drained source**: whatever number of `save; lex` rounds led to
look-ahead `Eof`, the token source is in the state `drain` ends in -/
theorem chain_eof_drain (input : List Char) (n : Nat) (s : Src) (h : chain input n = (.Eof, s))
    (m : Nat) (s' : Src) (hd : drain m (init input) = some s') : s = s' := by
  rw [drain_eq_drainP] at hd
  obtain ⟨j, hj⟩ := drainP_chain input m 0 s' hd
  rw [Nat.zero_add] at hj
  have h1 := chain_stationary input n s h j
  have h2 := chain_stationary input j s' hj n
  rw [Nat.add_comm] at h2
  rw [h1] at h2
  simpa using h2

/-- fuel `rest.length + 1` is enough to drain a source -/
theorem drain_total (n : Nat) (s : Src) (h : s.rest.length < n) : ∃ s', drain n s = some s' := by
  induction n generalizing s with
  | zero => omega
  | succ n ih =>
    simp only [drain]
    split
    · exact ⟨_, rfl⟩
    · rename_i hk
      have hne : (s.eat).1.kind ≠ .Eof := by simpa using hk
      apply ih
      have h1 := congrArg List.length (eat_append s)
      have h2 := List.length_pos_iff.mpr (eat_text_ne_nil s hne)
      simp only [List.length_append] at h1
      have h3 : (pull (s.eat).1.kind (s.eat).2).rest = (s.eat).2.rest := by
        unfold pull takeError
        split
        · split <;> rfl
        · rfl
      rw [h3]; omega

theorem endMessage_of_drain (input : List Char) (m : Nat) (s : Src) (h : drain m (init input) = some s) :
    endMessage input = (s.takeError).1 := by
  obtain ⟨s', hs'⟩ := drain_total (input.length + 1) (init input) (by simp [init])
  have : s' = s := by
    rw [drain_eq_drainP] at hs'
    obtain ⟨j, hj⟩ := drainP_chain input _ 0 s' hs'
    rw [Nat.zero_add] at hj
    exact chain_eof_drain input j s' hj m s h
  simp only [endMessage, hs', this]

end Src

theorem endErrors_reverse (input : List Char) : (endErrors input).reverse = endErrors input := by
  unfold endErrors; split <;> rfl

namespace PState

/-- `finish` touches only the error list and the token source -/
theorem finish_b (s : PState) : s.finish.b = s.b ∧ s.finish.steps = s.steps := by
  unfold finish
  split
  · split <;> exact ⟨rfl, rfl⟩
  · exact ⟨rfl, rfl⟩

/-- **what `finish` appends**: in a state with look-ahead `Eof` that satisfies the generic
invariant, exactly `endErrors input` -/
theorem finish_errors {input : List Char} {s : PState} (h : Inv input s) (hc : s.cur = .Eof) :
    s.finish.errors = endErrors input ++ s.errors := by
  obtain ⟨n, hn⟩ := h.chain
  rw [hc] at hn
  obtain ⟨s', hs'⟩ := Src.drain_total (input.length + 1) (Src.init input) (by simp [Src.init])
  have hsrc : s.src = s' := Src.chain_eof_drain input n s.src hn _ s' hs'
  have hmsg : Src.endMessage input = (s.src.takeError).1 := by
    rw [hsrc]; exact Src.endMessage_of_drain input _ s' hs'
  obtain ⟨h1, h2⟩ := h.eof hc
  have hcur : s.cursor = byteLen input := by
    have ht := h.text
    rw [h1, h2] at ht
    simp only [List.append_nil] at ht
    unfold cursor
    rw [h.pos, h1, ht]; simp
  unfold finish endErrors
  rw [hmsg]
  simp only [hc, beq_self_eq_true, if_true]
  cases hte : s.src.takeError with
  | mk o src =>
    cases o with
    | some m => simp [hcur]
    | none => simp

/-- the appended error lies at the end of the text: an empty piece after the whole input -/
theorem endErrors_ok (input : List Char) : ∀ e ∈ endErrors input, ErrOk input e := by
  intro e he
  unfold endErrors at he
  split at he
  · simp only [List.mem_singleton] at he
    subst he
    exact ⟨input, [], [], by simp, rfl, by simp⟩
  · simp at he

theorem finish_errs {input : List Char} {s : PState} (h : Inv input s) (hc : s.cur = .Eof) :
    ∀ e ∈ s.finish.errors, ErrOk input e := by
  intro e he
  rw [finish_errors h hc, List.mem_append] at he
  rcases he with he | he
  · exact endErrors_ok input e he
  · exact h.errs e he

end PState

namespace Grammar

/-- **`parse` = run + epilogue**: a successful parse is a successful run of `source_file` from the
initial state, ending at look-ahead `Eof` with one root in the builder; the reported errors are
the run's errors followed by `endErrors input` -/
theorem parse_ok_iff (input : List Char) (r : ParseResult) :
    parse input = .ok r ↔
    ∃ s, exec defs Tables.recoverTokens (parseFuel input) (.call .source_file) (PState.init input) = .ok s ∧
      s.b.cur = [r.tree] ∧ s.b.parents = [] ∧ r.errors = s.errors.reverse ++ endErrors input ∧
      r.steps = s.steps := by
  unfold parse
  constructor
  · intro h
    split at h
    · rename_i s hx
      have hinv := inv_exec defs Tables.recoverTokens input _ _ _ s (PState.inv_init input) hx
      have heof := source_file_ends_at_eof Tables.recoverTokens _ _ s hx
      split at h
      · rename_i t hc hp
        simp only [ParseOut.ok.injEq] at h
        subst h
        refine ⟨s, hx, hc, hp, ?_, rfl⟩
        simp [PState.finish_errors hinv heof, endErrors_reverse]
      · cases h
    · cases h
    · cases h
  · rintro ⟨s, hx, hc, hp, he, hst⟩
    have hinv := inv_exec defs Tables.recoverTokens input _ _ _ s (PState.inv_init input) hx
    have heof := source_file_ends_at_eof Tables.recoverTokens _ _ s hx
    rw [hx]
    simp only [hc, hp]
    congr 1
    cases r
    simp only [ParseResult.mk.injEq]
    simp only at he hst
    exact ⟨trivial, by rw [he, PState.finish_errors hinv heof]; simp [endErrors_reverse], hst.symm⟩

end Grammar
end Tg
