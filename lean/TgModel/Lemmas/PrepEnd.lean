/-
What can be parked in the token source under the parser's discipline (`save` fetches the message
of every `Error` token before the next `eat`): with an `Error` token exactly one message —
the preprocessor's (`PreProcessor::error` drops the lexer's) or the lexer's; otherwise nothing,
or, at the end of the text, "reached EOF without matching #endif".  Hence the message
`ParserBase::finish` finds (`Src.endMessage`) is never a lexer message and never a
"missing macro name" message.
-/
import TgModel.Lemmas.PrepRefine
import TgModel.Lemmas.ParserFinish

namespace Tg
namespace Src

/-- between two `eat`s, the message of an `Error` token having been fetched: the lexer holds no
message, the preprocessor none or — with no input left — the EOF message -/
def Calm (s : Src) : Prop :=
  s.lexErr = none ∧ (s.prepErr = none ∨ (s.prepErr = some eofMsg ∧ s.rest = []))

/-- what the consumer is looking at: an `Error` token comes with exactly one parked message -/
def Served (k : TokenKind) (s : Src) : Prop :=
  if k = .Error then (s.lexErr = none ∧ s.prepErr.isSome = true) ∨ (s.prepErr = none ∧ s.lexErr.isSome = true)
  else Calm s

theorem served_of_calm {k : TokenKind} {s : Src} (hk : k ≠ .Error) (h : Calm s) : Served k s := by
  unfold Served; rw [if_neg hk]; exact h

theorem lexErr_none_of {s : Src} {k : TokenKind} (h : s.lexErr.isSome = (false || (k == .Error))) (hk : k ≠ .Error) :
    s.lexErr = none := by
  have : (k == TokenKind.Error) = false := by simpa using hk
  rw [this] at h
  cases hl : s.lexErr <;> simp_all

/-- a skip loop that reports `Eof` has consumed everything -/
theorem eatUntil_eof_rest (fuel depth : Nat) (s : Src) (racc : List Char) (hf : s.rest.length < fuel)
    (h : (eatUntil fuel depth s racc).2.2 = .Eof) : (eatUntil fuel depth s racc).2.1.rest = [] := by
  induction fuel generalizing depth s racc with
  | zero => omega
  | succ n ih =>
    by_cases hr : s.rest = []
    · obtain ⟨hk, hrest⟩ := lexEat_nil s hr
      simp only [eatUntil, hk] at h ⊢
      exact hrest
    · have hlt := lexEat_rest_lt s hr
      have hne := lexEat_not_eof s hr
      have hrec := fun d => ih d (s.lexEat).2 ((s.lexEat).1.text.reverseAux racc) (by omega)
      simp only [eatUntil] at h ⊢
      split at h
      · exact hrec _ h
      · exact hrec _ h
      · split at h
        · rename_i hd; simp only [hd, if_true]; exact hrec _ h
        · cases h
      · split at h
        · cases h
        · rename_i hd; simp only [hd]; exact hrec _ h
      · rename_i hk; exact absurd hk hne
      · exact hrec _ h

theorem skipCond_calm (fuel : Nat) (s : Src) (racc : List Char) (hf : s.rest.length < fuel)
    (hp : s.prepErr = none) :
    Calm (reopen (skipCond fuel s racc).2.1 (skipCond fuel s racc).2.2) := by
  obtain ⟨_, _, _, _, e5⟩ := eu_refine fuel 1 s racc hf
  refine ⟨by simp [skipCond], ?_⟩
  simp only [reopen_prepErr, reopen_rest, skipCond, afterSkip_rest]
  unfold afterSkip
  split
  · rename_i he
    exact Or.inr ⟨rfl, eatUntil_eof_rest fuel 1 s racc hf he⟩
  · exact Or.inl (by show (eatUntil fuel 1 s racc).2.1.prepErr = none; rw [e5, hp])

theorem processIf_served (b : Bool) (d : Tok) (s : Src) (hl : s.lexErr = none) (hp : s.prepErr = none) :
    Served (processIf b d s).1.kind (processIf b d s).2 := by
  obtain ⟨_, _, _, _, h5, _, h7⟩ := nnt_refine (fuelOf s) s d.text.reverse (by simp [fuelOf])
  rw [hl] at h7
  unfold processIf
  simp only []
  split
  · rename_i hid
    have hid' : (nextNotTrivia (fuelOf s) s d.text.reverse).2.1.kind = .Id := by simpa using hid
    have hl1 := lexErr_none_of h7 (by rw [hid']; simp)
    split
    · exact served_of_calm (by simp) (skipCond_calm _ _ _ (by simp [fuelOf]) (by rw [h5, hp]))
    · exact served_of_calm (by simp) ⟨hl1, Or.inl (by rw [h5, hp])⟩
  · unfold Served
    simp

theorem processDefine_served (d : Tok) (s : Src) (hl : s.lexErr = none) (hp : s.prepErr = none) :
    Served (processDefine d s).1.kind (processDefine d s).2 := by
  obtain ⟨_, _, _, _, h5, _, h7⟩ := nnt_refine (fuelOf s) s d.text.reverse (by simp [fuelOf])
  rw [hl] at h7
  unfold processDefine
  simp only []
  split
  · rename_i hid
    have hid' : (nextNotTrivia (fuelOf s) s d.text.reverse).2.1.kind = .Id := by simpa using hid
    have hl1 := lexErr_none_of h7 (by rw [hid']; simp)
    exact served_of_calm (by simp) ⟨hl1, Or.inl (by rw [h5, hp])⟩
  · unfold Served
    simp

/-- **one `eat` from a calm source serves its token properly** -/
theorem eat_served (s : Src) (hc : Calm s) : Served (s.eat).1.kind (s.eat).2 := by
  obtain ⟨hl, hp | ⟨hp, hr⟩⟩ := hc
  · have h7 := lexEat_lexErr s
    rw [hl] at h7
    have hp1 := lexEat_prepErr s
    have he := lexEat_eof_text s
    unfold eat
    cases hle : s.lexEat with
    | mk t s1 =>
      rw [hle] at h7 hp1 he
      simp only [] at h7 hp1 he ⊢
      rw [hp] at hp1
      have hl1 : t.kind ≠ .Error → s1.lexErr = none := fun hk => lexErr_none_of h7 hk
      split
      · rename_i hk; exact processIf_served true t s1 (hl1 (by rw [hk]; simp)) hp1
      · rename_i hk; exact processIf_served false t s1 (hl1 (by rw [hk]; simp)) hp1
      · exact served_of_calm (by simp) (skipCond_calm _ _ _ (by simp [fuelOf]) hp1)
      · rename_i hk
        exact served_of_calm (by simp) ⟨hl1 (by rw [hk]; simp), Or.inl hp1⟩
      · rename_i hk; exact processDefine_served t s1 (hl1 (by rw [hk]; simp)) hp1
      · rename_i hk
        have hl2 := hl1 (by rw [hk]; simp)
        refine served_of_calm (by rw [hk]; simp) ?_
        unfold atEof
        split
        · exact ⟨rfl, Or.inr ⟨rfl, (he hk).2⟩⟩
        · exact ⟨hl2, Or.inl hp1⟩
      · by_cases hk : t.kind = .Error
        · unfold Served
          rw [if_pos hk]
          exact Or.inr ⟨hp1, by rw [h7, hk]; simp⟩
        · exact served_of_calm hk ⟨hl1 hk, Or.inl hp1⟩
  · have hs : Settled s := ⟨hr, by simp [hp]⟩
    obtain ⟨h1, h2⟩ := eat_of_settled s hs
    rw [h1, h2]
    exact served_of_calm (by simp) ⟨hl, Or.inr ⟨hp, hr⟩⟩

/-- fetching the message of an `Error` token leaves a calm source -/
theorem pull_calm {k : TokenKind} {s : Src} (h : Served k s) : Calm (pull k s) := by
  unfold Served at h
  unfold pull
  by_cases hk : k = .Error
  · rw [if_pos hk] at h
    simp only [hk, beq_self_eq_true, if_true]
    unfold takeError
    rcases h with ⟨hl, hp⟩ | ⟨hp, _⟩
    · cases hpe : s.prepErr with
      | none => simp [hpe] at hp
      | some m => exact ⟨hl, Or.inl rfl⟩
    · rw [hp]; exact ⟨rfl, Or.inl rfl⟩
  · rw [if_neg hk] at h
    have : (k == TokenKind.Error) = false := by simpa using hk
    simp only [this, Bool.false_eq_true, if_false]
    exact h

theorem calm_init (input : List Char) : Calm (init input) := ⟨rfl, Or.inl rfl⟩

/-- every state of the chain (`ParserBase::new`, then rounds of `save; lex`) is properly served -/
theorem chain_served (input : List Char) (n : Nat) : Served (chain input n).1 (chain input n).2 := by
  induction n with
  | zero => exact eat_served _ (calm_init input)
  | succ n ih => exact eat_served _ (pull_calm ih)

/-- **the message `ParserBase::finish` finds is the EOF message**, for every input: never a
lexer message, never a "missing macro name" message -/
theorem endMessage_eofMsg (input : List Char) (m : String) (h : endMessage input = some m) : m = eofMsg := by
  obtain ⟨s', hs'⟩ := drain_total (input.length + 1) (init input) (by simp [init])
  have hd := hs'
  rw [drain_eq_drainP] at hd
  obtain ⟨j, hj⟩ := drainP_chain input _ 0 s' hd
  rw [Nat.zero_add] at hj
  have hsv := chain_served input j
  rw [hj] at hsv
  obtain ⟨hl, hp⟩ : Calm s' := by simpa [Served] using hsv
  simp only [endMessage, hs', takeError] at h
  rcases hp with hp | ⟨hp, _⟩
  · rw [hp, hl] at h; simp at h
  · rw [hp] at h
    simp only [Option.some.injEq] at h
    exact h.symm

/-- a directive `Error` token (one whose message this `eat` parked in `PreProcessor::error`) comes
with that message alone: the lexer's is dropped -/
theorem eat_directive_error_lexErr (s : Src) (hp : s.prepErr = none) (hk : (s.eat).1.kind = .Error)
    (hs : (s.eat).2.prepErr.isSome = true) : (s.eat).2.lexErr = none := by
  have hp1 := lexEat_prepErr s
  unfold eat at hk hs ⊢
  cases hle : s.lexEat with
  | mk t s1 =>
    rw [hle] at hk hs hp1
    simp only [] at hk hs hp1 ⊢
    rw [hp] at hp1
    have hif : ∀ b, (processIf b t s1).1.kind = .Error → (processIf b t s1).2.lexErr = none := by
      intro b
      unfold processIf
      simp only []
      split
      · split <;> simp
      · intro _; rfl
    have hdef : (processDefine t s1).1.kind = .Error → (processDefine t s1).2.lexErr = none := by
      unfold processDefine
      simp only []
      split
      · simp
      · intro _; rfl
    split
    · rename_i h1; simp only [h1] at hk; exact hif true hk
    · rename_i h1; simp only [h1] at hk; exact hif false hk
    · rename_i h1; simp [h1] at hk
    · rename_i h1; simp [h1] at hk
    · rename_i h1; simp only [h1] at hk; exact hdef hk
    · rename_i h1; simp [h1] at hk
    · rename_i h1 h2 h3 h4 h5 h6
      split at hs
      · exact absurd ‹_› h1
      · exact absurd ‹_› h2
      · exact absurd ‹_› h3
      · exact absurd ‹_› h4
      · exact absurd ‹_› h5
      · exact absurd ‹_› h6
      · simp [hp1] at hs

end Src
end Tg
