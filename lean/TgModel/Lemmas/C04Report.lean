/-
C04 (b): the reporting discipline of the parser primitives, for *every* program of the DSL.

`Grow s s'` bundles the two facts that every primitive (and hence every program) respects:
the error list only grows, and "`afterError` implies an error was recorded" is preserved.
-/
import TgModel.Dsl

namespace Tg
namespace C04L

/-- `afterError` is backed by a recorded error -/
def Honest (s : PState) : Prop := s.afterError = true → s.errors ≠ []

/-- errors are only added, and honesty of the suppression flag is preserved -/
def Grow (s s' : PState) : Prop :=
  (∃ new, s'.errors = new ++ s.errors) ∧ (Honest s → Honest s')

theorem Grow.refl (s : PState) : Grow s s := ⟨⟨[], rfl⟩, id⟩

theorem Grow.trans {a b c : PState} (h1 : Grow a b) (h2 : Grow b c) : Grow a c := by
  obtain ⟨⟨n1, e1⟩, k1⟩ := h1
  obtain ⟨⟨n2, e2⟩, k2⟩ := h2
  exact ⟨⟨n2 ++ n1, by rw [e2, e1, List.append_assoc]⟩, fun h => k2 (k1 h)⟩

/-- a step that touches neither `errors` nor `afterError` -/
theorem Grow.same {s s' : PState} (he : s'.errors = s.errors) (ha : s'.afterError = s.afterError) :
    Grow s s' := by
  refine ⟨⟨[], by simp [he]⟩, ?_⟩
  intro h; unfold Honest at *; rw [he, ha]; exact h

theorem grow_error (s : PState) (m : String) : Grow s (s.error m) :=
  ⟨⟨[_], rfl⟩, fun _ _ => by simp [PState.error]⟩

theorem error_errors_ne (s : PState) (m : String) : (s.error m).errors ≠ [] := by
  simp [PState.error]

theorem grow_save {s s1 : PState} (h : s.save = .ok s1) : Grow s s1 := by
  unfold PState.save at h
  split at h
  · split at h
    · simp only [Res.ok.injEq] at h; subst h
      exact ⟨⟨[_], rfl⟩, fun _ _ => by simp [PState.error]⟩
    · cases h
  · simp only [Res.ok.injEq] at h; subst h
    exact ⟨⟨[], rfl⟩, fun _ ha => by simp at ha⟩

theorem grow_lex (s : PState) : Grow s s.lex := Grow.same rfl rfl

theorem grow_skip (n : Nat) {s s' : PState} (h : PState.skip n s = .ok s') : Grow s s' := by
  induction n generalizing s with
  | zero => simp [PState.skip] at h
  | succ n ih =>
    simp only [PState.skip] at h
    split at h
    · split at h
      · rename_i s1 hs; exact (grow_save hs).trans ((grow_lex s1).trans (ih h))
      · rename_i hne; exact (hne _ h).elim
    · simp only [Res.ok.injEq] at h; subst h; exact Grow.refl _

theorem grow_eat {s s' : PState} (h : s.eat = .ok s') : Grow s s' := by
  unfold PState.eat at h
  split at h
  · rename_i s1 hs; exact (grow_save hs).trans ((grow_lex s1).trans (grow_skip _ h))
  · rename_i hne; exact (hne _ h).elim

theorem grow_startNode (s : PState) (k : SyntaxKind) : Grow s (s.startNode k) := Grow.same rfl rfl

theorem grow_finishNode {s s' : PState} (h : s.finishNode = .ok s') : Grow s s' := by
  unfold PState.finishNode at h
  split at h
  · cases h
  · simp only [Res.ok.injEq] at h; subst h; exact Grow.same rfl rfl

theorem grow_startNodeAt {s s' : PState} {cp k} (h : s.startNodeAt cp k = .ok s') : Grow s s' := by
  unfold PState.startNodeAt at h
  split at h
  · cases h
  · split at h
    · cases h
    · simp only [Res.ok.injEq] at h; subst h; exact Grow.same rfl rfl

/-- every program of the DSL only adds errors and keeps the suppression flag honest -/
theorem grow_exec (defs : Defs) (recover : List TokenKind) :
    ∀ (fuel : Nat) (p : Prog) (s s' : PState), exec defs recover fuel p s = .ok s' → Grow s s' := by
  intro fuel
  induction fuel with
  | zero => intro p s s' h; simp [exec] at h
  | succ n ih =>
    intro p s s' h
    cases p with
    | nop => simp only [exec, Res.ok.injEq] at h; subst h; exact Grow.refl _
    | startNode k => simp only [exec, Res.ok.injEq] at h; subst h; exact grow_startNode s k
    | finishNode => simp only [exec] at h; exact grow_finishNode h
    | pushCp => simp only [exec, Res.ok.injEq] at h; subst h; exact Grow.same rfl rfl
    | popCp => simp only [exec, Res.ok.injEq] at h; subst h; exact Grow.same rfl rfl
    | startNodeAtCp k =>
      simp only [exec] at h
      split at h
      · exact grow_startNodeAt h
      · cases h
    | eat => simp only [exec] at h; exact grow_eat h
    | skip => simp only [exec] at h; exact grow_skip _ h
    | eatIf k =>
      simp only [exec] at h
      split at h
      · split at h
        · rename_i s1 he
          simp only [Res.ok.injEq] at h; subst h
          exact (grow_eat he).trans (Grow.same rfl rfl)
        · rename_i hne; first | exact (hne _ h).elim | cases h
      · simp only [Res.ok.injEq] at h; subst h; exact Grow.same rfl rfl
    | expect k msg =>
      simp only [exec] at h
      split at h
      · exact grow_eat h
      · split at h
        · simp only [Res.ok.injEq] at h; subst h; exact Grow.refl _
        · simp only [Res.ok.injEq] at h; subst h; exact grow_error s _
    | assertTok k =>
      simp only [exec] at h
      split at h
      · exact grow_eat h
      · cases h
    | error msg => simp only [exec, Res.ok.injEq] at h; subst h; exact grow_error s _
    | errorAndEat msg =>
      simp only [exec] at h
      split at h
      · rename_i s1 he
        exact (grow_error s _).trans ((grow_startNode _ _).trans ((grow_eat he).trans (grow_finishNode h)))
      · rename_i hne; first | exact (hne _ h).elim | cases h
    | errorAndRecover msg =>
      simp only [exec] at h
      split at h
      · split at h
        · rename_i s2 he
          exact (grow_error s _).trans ((grow_startNode _ _).trans ((grow_eat he).trans (grow_finishNode h)))
        · rename_i hne; first | exact (hne _ h).elim | cases h
      · simp only [Res.ok.injEq] at h; subst h; exact grow_error s _
    | retB b => simp only [exec, Res.ok.injEq] at h; subst h; exact Grow.same rfl rfl
    | seq a b =>
      simp only [exec] at h
      split at h
      · rename_i s1 h1; exact (ih a s s1 h1).trans (ih b s1 s' h)
      · rename_i hne; first | exact (hne _ h).elim | cases h
    | ifAt ks t e =>
      simp only [exec] at h
      split at h
      · exact ih t s s' h
      · exact ih e s s' h
    | ifFlag t e =>
      simp only [exec] at h
      split at h
      · exact ih t s s' h
      · exact ih e s s' h
    | loop c b =>
      simp only [exec] at h
      split at h
      · rename_i s1 h1
        have g1 := ih c s s1 h1
        split at h
        · split at h
          · rename_i s2 h2; exact g1.trans ((ih b s1 s2 h2).trans (ih _ s2 s' h))
          · rename_i hne; first | exact (hne _ h).elim | cases h
        · simp only [Res.ok.injEq] at h; subst h; exact g1
      · rename_i hne; first | exact (hne _ h).elim | cases h
    | call f => simp only [exec] at h; exact ih _ s s' h
    | pushLocal => simp only [exec, Res.ok.injEq] at h; subst h; exact Grow.same rfl rfl
    | popLocal => simp only [exec, Res.ok.injEq] at h; subst h; exact Grow.same rfl rfl
    | setLocal => simp only [exec, Res.ok.injEq] at h; subst h; exact Grow.same rfl rfl
    | ifLocal t e =>
      simp only [exec] at h
      split at h
      · exact ih t s s' h
      · exact ih e s s' h

theorem errors_only_grow (defs : Defs) (recover : List TokenKind) (fuel : Nat) (p : Prog) (s s' : PState)
    (h : exec defs recover fuel p s = .ok s') : ∃ new, s'.errors = new ++ s.errors :=
  (grow_exec defs recover fuel p s s' h).1

theorem after_error_has_error (defs : Defs) (recover : List TokenKind) (fuel : Nat) (p : Prog) (s s' : PState)
    (h : exec defs recover fuel p s = .ok s') (hs : s.afterError = true → s.errors ≠ []) :
    s'.afterError = true → s'.errors ≠ [] :=
  (grow_exec defs recover fuel p s s' h).2 hs

theorem expect_miss_reports (defs : Defs) (recover : List TokenKind) (fuel : Nat) (k : TokenKind)
    (msg : Option String) (s s' : PState) (h : exec defs recover fuel (.expect k msg) s = .ok s')
    (hmiss : s.cur ≠ k) (hs : s.afterError = true → s.errors ≠ []) : s'.errors ≠ [] := by
  cases fuel with
  | zero => simp [exec] at h
  | succ n =>
    simp only [exec] at h
    split at h
    · rename_i hc; exact absurd (by simpa using hc) hmiss
    · split at h
      · rename_i ha
        simp only [Res.ok.injEq] at h; subst h; exact hs ha
      · simp only [Res.ok.injEq] at h; subst h; exact error_errors_ne _ _

theorem grow_ne_nil {s s' : PState} (g : Grow s s') (h : s.errors ≠ []) : s'.errors ≠ [] := by
  obtain ⟨⟨new, e⟩, _⟩ := g
  rw [e]; intro hc
  exact h (List.append_eq_nil_iff.mp hc).2

theorem error_prims_report (defs : Defs) (recover : List TokenKind) (fuel : Nat) (m : String) (s s' : PState) :
    (exec defs recover fuel (.error m) s = .ok s' → s'.errors ≠ []) ∧
    (exec defs recover fuel (.errorAndEat m) s = .ok s' → s'.errors ≠ []) ∧
    (exec defs recover fuel (.errorAndRecover m) s = .ok s' → s'.errors ≠ []) := by
  cases fuel with
  | zero => simp [exec]
  | succ n =>
    refine ⟨?_, ?_, ?_⟩
    · intro h
      simp only [exec, Res.ok.injEq] at h; subst h; exact error_errors_ne _ _
    · intro h
      simp only [exec] at h
      split at h
      · rename_i s1 he
        exact grow_ne_nil ((grow_startNode _ _).trans ((grow_eat he).trans (grow_finishNode h)))
          (error_errors_ne s m)
      · rename_i hne; first | exact (hne _ h).elim | cases h
    · intro h
      simp only [exec] at h
      split at h
      · split at h
        · rename_i s2 he
          exact grow_ne_nil ((grow_startNode _ _).trans ((grow_eat he).trans (grow_finishNode h)))
            (error_errors_ne s m)
        · rename_i hne; first | exact (hne _ h).elim | cases h
      · simp only [Res.ok.injEq] at h; subst h; exact error_errors_ne _ _

end C04L
end Tg
