/-
Live symbols: every symbol id that the name maps, the records / multiclasses and the scope stack of
a reachable indexer state can return exists in its arena and has a consistent allocation index.

* `GidOK sm`: `gidToSym[gidOf S] = S` for every valid `S` (kept by every `SmStep`: `GidRel` is a `StdRel`);
* `ContOK sm`: the ids stored in `nameToClass` / `nameToDef` / `nameToMulticlass` / `nameToDefset` and
  in the field / template-argument maps of the records and multiclasses exist (kept by the steps *as
  the indexer performs them*, `SmStepC`: `ContRel` is a `CoreRel`);
* scope variables: `BInv 0 (fun _ => True)` of `IdeSemFresh.lean`.
Every indexer function keeps the three (`mkRec_gid`, `mkRec_cont`, `mkRec_brel`), they hold of
`IndexCtx.new`, and under them `findLocal`, `findDef`, `findDefset`, `findClass`, `findMulticlass`
return live symbols (`findLocal_valid`, …, `GidOK.ok`).
-/
import TgModel.Lemmas.IdeSemGoto
import TgModel.Lemmas.IdeSemCore

namespace Tg
namespace Ide

theorem pushFileSymbol_eq (sm : SymMap) (file : Nat) (s : SymbolId) :
    ∃ l, sm.pushFileSymbol file s = { sm with fileToSymbolList := l } := by
  unfold SymMap.pushFileSymbol
  split <;> exact ⟨_, rfl⟩

@[simp] theorem pfs_recordList (sm : SymMap) (file : Nat) (s : SymbolId) : (sm.pushFileSymbol file s).recordList = sm.recordList := by
  obtain ⟨l, hl⟩ := pushFileSymbol_eq sm file s; rw [hl]
@[simp] theorem pfs_templateArgList (sm : SymMap) (file : Nat) (s : SymbolId) : (sm.pushFileSymbol file s).templateArgList = sm.templateArgList := by
  obtain ⟨l, hl⟩ := pushFileSymbol_eq sm file s; rw [hl]
@[simp] theorem pfs_recordFieldList (sm : SymMap) (file : Nat) (s : SymbolId) : (sm.pushFileSymbol file s).recordFieldList = sm.recordFieldList := by
  obtain ⟨l, hl⟩ := pushFileSymbol_eq sm file s; rw [hl]
@[simp] theorem pfs_variableList (sm : SymMap) (file : Nat) (s : SymbolId) : (sm.pushFileSymbol file s).variableList = sm.variableList := by
  obtain ⟨l, hl⟩ := pushFileSymbol_eq sm file s; rw [hl]
@[simp] theorem pfs_defsetList (sm : SymMap) (file : Nat) (s : SymbolId) : (sm.pushFileSymbol file s).defsetList = sm.defsetList := by
  obtain ⟨l, hl⟩ := pushFileSymbol_eq sm file s; rw [hl]
@[simp] theorem pfs_multiclassList (sm : SymMap) (file : Nat) (s : SymbolId) : (sm.pushFileSymbol file s).multiclassList = sm.multiclassList := by
  obtain ⟨l, hl⟩ := pushFileSymbol_eq sm file s; rw [hl]
@[simp] theorem pfs_defmList (sm : SymMap) (file : Nat) (s : SymbolId) : (sm.pushFileSymbol file s).defmList = sm.defmList := by
  obtain ⟨l, hl⟩ := pushFileSymbol_eq sm file s; rw [hl]
@[simp] theorem pfs_nameToClass (sm : SymMap) (file : Nat) (s : SymbolId) : (sm.pushFileSymbol file s).nameToClass = sm.nameToClass := by
  obtain ⟨l, hl⟩ := pushFileSymbol_eq sm file s; rw [hl]
@[simp] theorem pfs_nameToDef (sm : SymMap) (file : Nat) (s : SymbolId) : (sm.pushFileSymbol file s).nameToDef = sm.nameToDef := by
  obtain ⟨l, hl⟩ := pushFileSymbol_eq sm file s; rw [hl]
@[simp] theorem pfs_nameToMulticlass (sm : SymMap) (file : Nat) (s : SymbolId) : (sm.pushFileSymbol file s).nameToMulticlass = sm.nameToMulticlass := by
  obtain ⟨l, hl⟩ := pushFileSymbol_eq sm file s; rw [hl]
@[simp] theorem pfs_nameToDefset (sm : SymMap) (file : Nat) (s : SymbolId) : (sm.pushFileSymbol file s).nameToDefset = sm.nameToDefset := by
  obtain ⟨l, hl⟩ := pushFileSymbol_eq sm file s; rw [hl]
@[simp] theorem pfs_ops (sm : SymMap) (file : Nat) (s : SymbolId) : (sm.pushFileSymbol file s).ops = sm.ops := by
  obtain ⟨l, hl⟩ := pushFileSymbol_eq sm file s; rw [hl]
@[simp] theorem pfs_gidToSym (sm : SymMap) (file : Nat) (s : SymbolId) : (sm.pushFileSymbol file s).gidToSym = sm.gidToSym := by
  obtain ⟨l, hl⟩ := pushFileSymbol_eq sm file s; rw [hl]
@[simp] theorem pfs_recordGid (sm : SymMap) (file : Nat) (s : SymbolId) : (sm.pushFileSymbol file s).recordGid = sm.recordGid := by
  obtain ⟨l, hl⟩ := pushFileSymbol_eq sm file s; rw [hl]
@[simp] theorem pfs_templateArgGid (sm : SymMap) (file : Nat) (s : SymbolId) : (sm.pushFileSymbol file s).templateArgGid = sm.templateArgGid := by
  obtain ⟨l, hl⟩ := pushFileSymbol_eq sm file s; rw [hl]
@[simp] theorem pfs_recordFieldGid (sm : SymMap) (file : Nat) (s : SymbolId) : (sm.pushFileSymbol file s).recordFieldGid = sm.recordFieldGid := by
  obtain ⟨l, hl⟩ := pushFileSymbol_eq sm file s; rw [hl]
@[simp] theorem pfs_variableGid (sm : SymMap) (file : Nat) (s : SymbolId) : (sm.pushFileSymbol file s).variableGid = sm.variableGid := by
  obtain ⟨l, hl⟩ := pushFileSymbol_eq sm file s; rw [hl]
@[simp] theorem pfs_defsetGid (sm : SymMap) (file : Nat) (s : SymbolId) : (sm.pushFileSymbol file s).defsetGid = sm.defsetGid := by
  obtain ⟨l, hl⟩ := pushFileSymbol_eq sm file s; rw [hl]
@[simp] theorem pfs_multiclassGid (sm : SymMap) (file : Nat) (s : SymbolId) : (sm.pushFileSymbol file s).multiclassGid = sm.multiclassGid := by
  obtain ⟨l, hl⟩ := pushFileSymbol_eq sm file s; rw [hl]
@[simp] theorem pfs_defmGid (sm : SymMap) (file : Nat) (s : SymbolId) : (sm.pushFileSymbol file s).defmGid = sm.defmGid := by
  obtain ⟨l, hl⟩ := pushFileSymbol_eq sm file s; rw [hl]

/-- allocation indices and the per-arena index tables agree -/
structure GidOK (sm : SymMap) : Prop where
  szRec : sm.recordGid.size = sm.recordList.size
  szTa : sm.templateArgGid.size = sm.templateArgList.size
  szFld : sm.recordFieldGid.size = sm.recordFieldList.size
  szVar : sm.variableGid.size = sm.variableList.size
  szDs : sm.defsetGid.size = sm.defsetList.size
  szMc : sm.multiclassGid.size = sm.multiclassList.size
  szDm : sm.defmGid.size = sm.defmList.size
  ok : ∀ S : SymbolId, S.Valid sm → sm.gidToSym[sm.gidOf S]? = some S

theorem gid_new (gids : Array Nat) (g2s : Array SymbolId) (S : SymbolId) :
    (g2s.push S)[(gids.push g2s.size)[gids.size]!]? = some S := by
  rw [getElem!_push_size]; simp

theorem gid_old (gids : Array Nat) (g2s : Array SymbolId) (T S : SymbolId) (x i : Nat) (hi : i < gids.size)
    (h : g2s[gids[i]!]? = some S) : (g2s.push T)[(gids.push x)[i]!]? = some S := by
  rw [sGetElem!_push_lt _ _ _ hi]
  exact getElem?_push_some _ _ _ _ h

theorem g2s_old (g2s : Array SymbolId) (T S : SymbolId) (k : Nat) (h : g2s[k]? = some S) : (g2s.push T)[k]? = some S :=
  getElem?_push_some _ _ _ _ h

theorem GidOK.alloc_record {sm sm' : SymMap} (h : GidOK sm)
    (hg : sm'.gidToSym = sm.gidToSym.push (.record sm.recordList.size))
    (hl : sm'.recordList.size = sm.recordList.size + 1) (hgid : sm'.recordGid = sm.recordGid.push sm.gidToSym.size)
    (e_templateArgList : sm'.templateArgList.size = sm.templateArgList.size) (e_templateArgGid : sm'.templateArgGid = sm.templateArgGid) (e_recordFieldList : sm'.recordFieldList.size = sm.recordFieldList.size) (e_recordFieldGid : sm'.recordFieldGid = sm.recordFieldGid) (e_variableList : sm'.variableList.size = sm.variableList.size) (e_variableGid : sm'.variableGid = sm.variableGid) (e_defsetList : sm'.defsetList.size = sm.defsetList.size) (e_defsetGid : sm'.defsetGid = sm.defsetGid) (e_multiclassList : sm'.multiclassList.size = sm.multiclassList.size) (e_multiclassGid : sm'.multiclassGid = sm.multiclassGid) (e_defmList : sm'.defmList.size = sm.defmList.size) (e_defmGid : sm'.defmGid = sm.defmGid) : GidOK sm' := by
  refine ⟨by rw [hgid, hl]; simp [h.szRec], by rw [e_templateArgGid, e_templateArgList]; exact h.szTa, by rw [e_recordFieldGid, e_recordFieldList]; exact h.szFld, by rw [e_variableGid, e_variableList]; exact h.szVar, by rw [e_defsetGid, e_defsetList]; exact h.szDs, by rw [e_multiclassGid, e_multiclassList]; exact h.szMc, by rw [e_defmGid, e_defmList]; exact h.szDm, ?_⟩
  intro S hS
  cases S with
  | record i =>
    simp only [SymbolId.Valid] at hS
    simp only [SymMap.gidOf]
    rw [hg, hgid]
    by_cases hi : i < sm.recordList.size
    · exact gid_old _ _ _ _ _ _ (by rw [h.szRec]; exact hi) (h.ok (.record i) hi)
    · have : i = sm.recordList.size := by omega
      subst this
      rw [← h.szRec]
      exact gid_new _ _ _
  | templateArgument i =>
    simp only [SymbolId.Valid] at hS
    simp only [SymMap.gidOf]
    rw [hg, e_templateArgGid]
    exact g2s_old _ _ _ _ (h.ok (.templateArgument i) (by simp only [SymbolId.Valid]; omega))
  | recordField i =>
    simp only [SymbolId.Valid] at hS
    simp only [SymMap.gidOf]
    rw [hg, e_recordFieldGid]
    exact g2s_old _ _ _ _ (h.ok (.recordField i) (by simp only [SymbolId.Valid]; omega))
  | var i =>
    simp only [SymbolId.Valid] at hS
    simp only [SymMap.gidOf]
    rw [hg, e_variableGid]
    exact g2s_old _ _ _ _ (h.ok (.var i) (by simp only [SymbolId.Valid]; omega))
  | defset i =>
    simp only [SymbolId.Valid] at hS
    simp only [SymMap.gidOf]
    rw [hg, e_defsetGid]
    exact g2s_old _ _ _ _ (h.ok (.defset i) (by simp only [SymbolId.Valid]; omega))
  | multiclass i =>
    simp only [SymbolId.Valid] at hS
    simp only [SymMap.gidOf]
    rw [hg, e_multiclassGid]
    exact g2s_old _ _ _ _ (h.ok (.multiclass i) (by simp only [SymbolId.Valid]; omega))
  | defm i =>
    simp only [SymbolId.Valid] at hS
    simp only [SymMap.gidOf]
    rw [hg, e_defmGid]
    exact g2s_old _ _ _ _ (h.ok (.defm i) (by simp only [SymbolId.Valid]; omega))

theorem GidOK.alloc_templateArgument {sm sm' : SymMap} (h : GidOK sm)
    (hg : sm'.gidToSym = sm.gidToSym.push (.templateArgument sm.templateArgList.size))
    (hl : sm'.templateArgList.size = sm.templateArgList.size + 1) (hgid : sm'.templateArgGid = sm.templateArgGid.push sm.gidToSym.size)
    (e_recordList : sm'.recordList.size = sm.recordList.size) (e_recordGid : sm'.recordGid = sm.recordGid) (e_recordFieldList : sm'.recordFieldList.size = sm.recordFieldList.size) (e_recordFieldGid : sm'.recordFieldGid = sm.recordFieldGid) (e_variableList : sm'.variableList.size = sm.variableList.size) (e_variableGid : sm'.variableGid = sm.variableGid) (e_defsetList : sm'.defsetList.size = sm.defsetList.size) (e_defsetGid : sm'.defsetGid = sm.defsetGid) (e_multiclassList : sm'.multiclassList.size = sm.multiclassList.size) (e_multiclassGid : sm'.multiclassGid = sm.multiclassGid) (e_defmList : sm'.defmList.size = sm.defmList.size) (e_defmGid : sm'.defmGid = sm.defmGid) : GidOK sm' := by
  refine ⟨by rw [e_recordGid, e_recordList]; exact h.szRec, by rw [hgid, hl]; simp [h.szTa], by rw [e_recordFieldGid, e_recordFieldList]; exact h.szFld, by rw [e_variableGid, e_variableList]; exact h.szVar, by rw [e_defsetGid, e_defsetList]; exact h.szDs, by rw [e_multiclassGid, e_multiclassList]; exact h.szMc, by rw [e_defmGid, e_defmList]; exact h.szDm, ?_⟩
  intro S hS
  cases S with
  | record i =>
    simp only [SymbolId.Valid] at hS
    simp only [SymMap.gidOf]
    rw [hg, e_recordGid]
    exact g2s_old _ _ _ _ (h.ok (.record i) (by simp only [SymbolId.Valid]; omega))
  | templateArgument i =>
    simp only [SymbolId.Valid] at hS
    simp only [SymMap.gidOf]
    rw [hg, hgid]
    by_cases hi : i < sm.templateArgList.size
    · exact gid_old _ _ _ _ _ _ (by rw [h.szTa]; exact hi) (h.ok (.templateArgument i) hi)
    · have : i = sm.templateArgList.size := by omega
      subst this
      rw [← h.szTa]
      exact gid_new _ _ _
  | recordField i =>
    simp only [SymbolId.Valid] at hS
    simp only [SymMap.gidOf]
    rw [hg, e_recordFieldGid]
    exact g2s_old _ _ _ _ (h.ok (.recordField i) (by simp only [SymbolId.Valid]; omega))
  | var i =>
    simp only [SymbolId.Valid] at hS
    simp only [SymMap.gidOf]
    rw [hg, e_variableGid]
    exact g2s_old _ _ _ _ (h.ok (.var i) (by simp only [SymbolId.Valid]; omega))
  | defset i =>
    simp only [SymbolId.Valid] at hS
    simp only [SymMap.gidOf]
    rw [hg, e_defsetGid]
    exact g2s_old _ _ _ _ (h.ok (.defset i) (by simp only [SymbolId.Valid]; omega))
  | multiclass i =>
    simp only [SymbolId.Valid] at hS
    simp only [SymMap.gidOf]
    rw [hg, e_multiclassGid]
    exact g2s_old _ _ _ _ (h.ok (.multiclass i) (by simp only [SymbolId.Valid]; omega))
  | defm i =>
    simp only [SymbolId.Valid] at hS
    simp only [SymMap.gidOf]
    rw [hg, e_defmGid]
    exact g2s_old _ _ _ _ (h.ok (.defm i) (by simp only [SymbolId.Valid]; omega))

theorem GidOK.alloc_recordField {sm sm' : SymMap} (h : GidOK sm)
    (hg : sm'.gidToSym = sm.gidToSym.push (.recordField sm.recordFieldList.size))
    (hl : sm'.recordFieldList.size = sm.recordFieldList.size + 1) (hgid : sm'.recordFieldGid = sm.recordFieldGid.push sm.gidToSym.size)
    (e_recordList : sm'.recordList.size = sm.recordList.size) (e_recordGid : sm'.recordGid = sm.recordGid) (e_templateArgList : sm'.templateArgList.size = sm.templateArgList.size) (e_templateArgGid : sm'.templateArgGid = sm.templateArgGid) (e_variableList : sm'.variableList.size = sm.variableList.size) (e_variableGid : sm'.variableGid = sm.variableGid) (e_defsetList : sm'.defsetList.size = sm.defsetList.size) (e_defsetGid : sm'.defsetGid = sm.defsetGid) (e_multiclassList : sm'.multiclassList.size = sm.multiclassList.size) (e_multiclassGid : sm'.multiclassGid = sm.multiclassGid) (e_defmList : sm'.defmList.size = sm.defmList.size) (e_defmGid : sm'.defmGid = sm.defmGid) : GidOK sm' := by
  refine ⟨by rw [e_recordGid, e_recordList]; exact h.szRec, by rw [e_templateArgGid, e_templateArgList]; exact h.szTa, by rw [hgid, hl]; simp [h.szFld], by rw [e_variableGid, e_variableList]; exact h.szVar, by rw [e_defsetGid, e_defsetList]; exact h.szDs, by rw [e_multiclassGid, e_multiclassList]; exact h.szMc, by rw [e_defmGid, e_defmList]; exact h.szDm, ?_⟩
  intro S hS
  cases S with
  | record i =>
    simp only [SymbolId.Valid] at hS
    simp only [SymMap.gidOf]
    rw [hg, e_recordGid]
    exact g2s_old _ _ _ _ (h.ok (.record i) (by simp only [SymbolId.Valid]; omega))
  | templateArgument i =>
    simp only [SymbolId.Valid] at hS
    simp only [SymMap.gidOf]
    rw [hg, e_templateArgGid]
    exact g2s_old _ _ _ _ (h.ok (.templateArgument i) (by simp only [SymbolId.Valid]; omega))
  | recordField i =>
    simp only [SymbolId.Valid] at hS
    simp only [SymMap.gidOf]
    rw [hg, hgid]
    by_cases hi : i < sm.recordFieldList.size
    · exact gid_old _ _ _ _ _ _ (by rw [h.szFld]; exact hi) (h.ok (.recordField i) hi)
    · have : i = sm.recordFieldList.size := by omega
      subst this
      rw [← h.szFld]
      exact gid_new _ _ _
  | var i =>
    simp only [SymbolId.Valid] at hS
    simp only [SymMap.gidOf]
    rw [hg, e_variableGid]
    exact g2s_old _ _ _ _ (h.ok (.var i) (by simp only [SymbolId.Valid]; omega))
  | defset i =>
    simp only [SymbolId.Valid] at hS
    simp only [SymMap.gidOf]
    rw [hg, e_defsetGid]
    exact g2s_old _ _ _ _ (h.ok (.defset i) (by simp only [SymbolId.Valid]; omega))
  | multiclass i =>
    simp only [SymbolId.Valid] at hS
    simp only [SymMap.gidOf]
    rw [hg, e_multiclassGid]
    exact g2s_old _ _ _ _ (h.ok (.multiclass i) (by simp only [SymbolId.Valid]; omega))
  | defm i =>
    simp only [SymbolId.Valid] at hS
    simp only [SymMap.gidOf]
    rw [hg, e_defmGid]
    exact g2s_old _ _ _ _ (h.ok (.defm i) (by simp only [SymbolId.Valid]; omega))

theorem GidOK.alloc_var {sm sm' : SymMap} (h : GidOK sm)
    (hg : sm'.gidToSym = sm.gidToSym.push (.var sm.variableList.size))
    (hl : sm'.variableList.size = sm.variableList.size + 1) (hgid : sm'.variableGid = sm.variableGid.push sm.gidToSym.size)
    (e_recordList : sm'.recordList.size = sm.recordList.size) (e_recordGid : sm'.recordGid = sm.recordGid) (e_templateArgList : sm'.templateArgList.size = sm.templateArgList.size) (e_templateArgGid : sm'.templateArgGid = sm.templateArgGid) (e_recordFieldList : sm'.recordFieldList.size = sm.recordFieldList.size) (e_recordFieldGid : sm'.recordFieldGid = sm.recordFieldGid) (e_defsetList : sm'.defsetList.size = sm.defsetList.size) (e_defsetGid : sm'.defsetGid = sm.defsetGid) (e_multiclassList : sm'.multiclassList.size = sm.multiclassList.size) (e_multiclassGid : sm'.multiclassGid = sm.multiclassGid) (e_defmList : sm'.defmList.size = sm.defmList.size) (e_defmGid : sm'.defmGid = sm.defmGid) : GidOK sm' := by
  refine ⟨by rw [e_recordGid, e_recordList]; exact h.szRec, by rw [e_templateArgGid, e_templateArgList]; exact h.szTa, by rw [e_recordFieldGid, e_recordFieldList]; exact h.szFld, by rw [hgid, hl]; simp [h.szVar], by rw [e_defsetGid, e_defsetList]; exact h.szDs, by rw [e_multiclassGid, e_multiclassList]; exact h.szMc, by rw [e_defmGid, e_defmList]; exact h.szDm, ?_⟩
  intro S hS
  cases S with
  | record i =>
    simp only [SymbolId.Valid] at hS
    simp only [SymMap.gidOf]
    rw [hg, e_recordGid]
    exact g2s_old _ _ _ _ (h.ok (.record i) (by simp only [SymbolId.Valid]; omega))
  | templateArgument i =>
    simp only [SymbolId.Valid] at hS
    simp only [SymMap.gidOf]
    rw [hg, e_templateArgGid]
    exact g2s_old _ _ _ _ (h.ok (.templateArgument i) (by simp only [SymbolId.Valid]; omega))
  | recordField i =>
    simp only [SymbolId.Valid] at hS
    simp only [SymMap.gidOf]
    rw [hg, e_recordFieldGid]
    exact g2s_old _ _ _ _ (h.ok (.recordField i) (by simp only [SymbolId.Valid]; omega))
  | var i =>
    simp only [SymbolId.Valid] at hS
    simp only [SymMap.gidOf]
    rw [hg, hgid]
    by_cases hi : i < sm.variableList.size
    · exact gid_old _ _ _ _ _ _ (by rw [h.szVar]; exact hi) (h.ok (.var i) hi)
    · have : i = sm.variableList.size := by omega
      subst this
      rw [← h.szVar]
      exact gid_new _ _ _
  | defset i =>
    simp only [SymbolId.Valid] at hS
    simp only [SymMap.gidOf]
    rw [hg, e_defsetGid]
    exact g2s_old _ _ _ _ (h.ok (.defset i) (by simp only [SymbolId.Valid]; omega))
  | multiclass i =>
    simp only [SymbolId.Valid] at hS
    simp only [SymMap.gidOf]
    rw [hg, e_multiclassGid]
    exact g2s_old _ _ _ _ (h.ok (.multiclass i) (by simp only [SymbolId.Valid]; omega))
  | defm i =>
    simp only [SymbolId.Valid] at hS
    simp only [SymMap.gidOf]
    rw [hg, e_defmGid]
    exact g2s_old _ _ _ _ (h.ok (.defm i) (by simp only [SymbolId.Valid]; omega))

theorem GidOK.alloc_defset {sm sm' : SymMap} (h : GidOK sm)
    (hg : sm'.gidToSym = sm.gidToSym.push (.defset sm.defsetList.size))
    (hl : sm'.defsetList.size = sm.defsetList.size + 1) (hgid : sm'.defsetGid = sm.defsetGid.push sm.gidToSym.size)
    (e_recordList : sm'.recordList.size = sm.recordList.size) (e_recordGid : sm'.recordGid = sm.recordGid) (e_templateArgList : sm'.templateArgList.size = sm.templateArgList.size) (e_templateArgGid : sm'.templateArgGid = sm.templateArgGid) (e_recordFieldList : sm'.recordFieldList.size = sm.recordFieldList.size) (e_recordFieldGid : sm'.recordFieldGid = sm.recordFieldGid) (e_variableList : sm'.variableList.size = sm.variableList.size) (e_variableGid : sm'.variableGid = sm.variableGid) (e_multiclassList : sm'.multiclassList.size = sm.multiclassList.size) (e_multiclassGid : sm'.multiclassGid = sm.multiclassGid) (e_defmList : sm'.defmList.size = sm.defmList.size) (e_defmGid : sm'.defmGid = sm.defmGid) : GidOK sm' := by
  refine ⟨by rw [e_recordGid, e_recordList]; exact h.szRec, by rw [e_templateArgGid, e_templateArgList]; exact h.szTa, by rw [e_recordFieldGid, e_recordFieldList]; exact h.szFld, by rw [e_variableGid, e_variableList]; exact h.szVar, by rw [hgid, hl]; simp [h.szDs], by rw [e_multiclassGid, e_multiclassList]; exact h.szMc, by rw [e_defmGid, e_defmList]; exact h.szDm, ?_⟩
  intro S hS
  cases S with
  | record i =>
    simp only [SymbolId.Valid] at hS
    simp only [SymMap.gidOf]
    rw [hg, e_recordGid]
    exact g2s_old _ _ _ _ (h.ok (.record i) (by simp only [SymbolId.Valid]; omega))
  | templateArgument i =>
    simp only [SymbolId.Valid] at hS
    simp only [SymMap.gidOf]
    rw [hg, e_templateArgGid]
    exact g2s_old _ _ _ _ (h.ok (.templateArgument i) (by simp only [SymbolId.Valid]; omega))
  | recordField i =>
    simp only [SymbolId.Valid] at hS
    simp only [SymMap.gidOf]
    rw [hg, e_recordFieldGid]
    exact g2s_old _ _ _ _ (h.ok (.recordField i) (by simp only [SymbolId.Valid]; omega))
  | var i =>
    simp only [SymbolId.Valid] at hS
    simp only [SymMap.gidOf]
    rw [hg, e_variableGid]
    exact g2s_old _ _ _ _ (h.ok (.var i) (by simp only [SymbolId.Valid]; omega))
  | defset i =>
    simp only [SymbolId.Valid] at hS
    simp only [SymMap.gidOf]
    rw [hg, hgid]
    by_cases hi : i < sm.defsetList.size
    · exact gid_old _ _ _ _ _ _ (by rw [h.szDs]; exact hi) (h.ok (.defset i) hi)
    · have : i = sm.defsetList.size := by omega
      subst this
      rw [← h.szDs]
      exact gid_new _ _ _
  | multiclass i =>
    simp only [SymbolId.Valid] at hS
    simp only [SymMap.gidOf]
    rw [hg, e_multiclassGid]
    exact g2s_old _ _ _ _ (h.ok (.multiclass i) (by simp only [SymbolId.Valid]; omega))
  | defm i =>
    simp only [SymbolId.Valid] at hS
    simp only [SymMap.gidOf]
    rw [hg, e_defmGid]
    exact g2s_old _ _ _ _ (h.ok (.defm i) (by simp only [SymbolId.Valid]; omega))

theorem GidOK.alloc_multiclass {sm sm' : SymMap} (h : GidOK sm)
    (hg : sm'.gidToSym = sm.gidToSym.push (.multiclass sm.multiclassList.size))
    (hl : sm'.multiclassList.size = sm.multiclassList.size + 1) (hgid : sm'.multiclassGid = sm.multiclassGid.push sm.gidToSym.size)
    (e_recordList : sm'.recordList.size = sm.recordList.size) (e_recordGid : sm'.recordGid = sm.recordGid) (e_templateArgList : sm'.templateArgList.size = sm.templateArgList.size) (e_templateArgGid : sm'.templateArgGid = sm.templateArgGid) (e_recordFieldList : sm'.recordFieldList.size = sm.recordFieldList.size) (e_recordFieldGid : sm'.recordFieldGid = sm.recordFieldGid) (e_variableList : sm'.variableList.size = sm.variableList.size) (e_variableGid : sm'.variableGid = sm.variableGid) (e_defsetList : sm'.defsetList.size = sm.defsetList.size) (e_defsetGid : sm'.defsetGid = sm.defsetGid) (e_defmList : sm'.defmList.size = sm.defmList.size) (e_defmGid : sm'.defmGid = sm.defmGid) : GidOK sm' := by
  refine ⟨by rw [e_recordGid, e_recordList]; exact h.szRec, by rw [e_templateArgGid, e_templateArgList]; exact h.szTa, by rw [e_recordFieldGid, e_recordFieldList]; exact h.szFld, by rw [e_variableGid, e_variableList]; exact h.szVar, by rw [e_defsetGid, e_defsetList]; exact h.szDs, by rw [hgid, hl]; simp [h.szMc], by rw [e_defmGid, e_defmList]; exact h.szDm, ?_⟩
  intro S hS
  cases S with
  | record i =>
    simp only [SymbolId.Valid] at hS
    simp only [SymMap.gidOf]
    rw [hg, e_recordGid]
    exact g2s_old _ _ _ _ (h.ok (.record i) (by simp only [SymbolId.Valid]; omega))
  | templateArgument i =>
    simp only [SymbolId.Valid] at hS
    simp only [SymMap.gidOf]
    rw [hg, e_templateArgGid]
    exact g2s_old _ _ _ _ (h.ok (.templateArgument i) (by simp only [SymbolId.Valid]; omega))
  | recordField i =>
    simp only [SymbolId.Valid] at hS
    simp only [SymMap.gidOf]
    rw [hg, e_recordFieldGid]
    exact g2s_old _ _ _ _ (h.ok (.recordField i) (by simp only [SymbolId.Valid]; omega))
  | var i =>
    simp only [SymbolId.Valid] at hS
    simp only [SymMap.gidOf]
    rw [hg, e_variableGid]
    exact g2s_old _ _ _ _ (h.ok (.var i) (by simp only [SymbolId.Valid]; omega))
  | defset i =>
    simp only [SymbolId.Valid] at hS
    simp only [SymMap.gidOf]
    rw [hg, e_defsetGid]
    exact g2s_old _ _ _ _ (h.ok (.defset i) (by simp only [SymbolId.Valid]; omega))
  | multiclass i =>
    simp only [SymbolId.Valid] at hS
    simp only [SymMap.gidOf]
    rw [hg, hgid]
    by_cases hi : i < sm.multiclassList.size
    · exact gid_old _ _ _ _ _ _ (by rw [h.szMc]; exact hi) (h.ok (.multiclass i) hi)
    · have : i = sm.multiclassList.size := by omega
      subst this
      rw [← h.szMc]
      exact gid_new _ _ _
  | defm i =>
    simp only [SymbolId.Valid] at hS
    simp only [SymMap.gidOf]
    rw [hg, e_defmGid]
    exact g2s_old _ _ _ _ (h.ok (.defm i) (by simp only [SymbolId.Valid]; omega))

theorem GidOK.alloc_defm {sm sm' : SymMap} (h : GidOK sm)
    (hg : sm'.gidToSym = sm.gidToSym.push (.defm sm.defmList.size))
    (hl : sm'.defmList.size = sm.defmList.size + 1) (hgid : sm'.defmGid = sm.defmGid.push sm.gidToSym.size)
    (e_recordList : sm'.recordList.size = sm.recordList.size) (e_recordGid : sm'.recordGid = sm.recordGid) (e_templateArgList : sm'.templateArgList.size = sm.templateArgList.size) (e_templateArgGid : sm'.templateArgGid = sm.templateArgGid) (e_recordFieldList : sm'.recordFieldList.size = sm.recordFieldList.size) (e_recordFieldGid : sm'.recordFieldGid = sm.recordFieldGid) (e_variableList : sm'.variableList.size = sm.variableList.size) (e_variableGid : sm'.variableGid = sm.variableGid) (e_defsetList : sm'.defsetList.size = sm.defsetList.size) (e_defsetGid : sm'.defsetGid = sm.defsetGid) (e_multiclassList : sm'.multiclassList.size = sm.multiclassList.size) (e_multiclassGid : sm'.multiclassGid = sm.multiclassGid) : GidOK sm' := by
  refine ⟨by rw [e_recordGid, e_recordList]; exact h.szRec, by rw [e_templateArgGid, e_templateArgList]; exact h.szTa, by rw [e_recordFieldGid, e_recordFieldList]; exact h.szFld, by rw [e_variableGid, e_variableList]; exact h.szVar, by rw [e_defsetGid, e_defsetList]; exact h.szDs, by rw [e_multiclassGid, e_multiclassList]; exact h.szMc, by rw [hgid, hl]; simp [h.szDm], ?_⟩
  intro S hS
  cases S with
  | record i =>
    simp only [SymbolId.Valid] at hS
    simp only [SymMap.gidOf]
    rw [hg, e_recordGid]
    exact g2s_old _ _ _ _ (h.ok (.record i) (by simp only [SymbolId.Valid]; omega))
  | templateArgument i =>
    simp only [SymbolId.Valid] at hS
    simp only [SymMap.gidOf]
    rw [hg, e_templateArgGid]
    exact g2s_old _ _ _ _ (h.ok (.templateArgument i) (by simp only [SymbolId.Valid]; omega))
  | recordField i =>
    simp only [SymbolId.Valid] at hS
    simp only [SymMap.gidOf]
    rw [hg, e_recordFieldGid]
    exact g2s_old _ _ _ _ (h.ok (.recordField i) (by simp only [SymbolId.Valid]; omega))
  | var i =>
    simp only [SymbolId.Valid] at hS
    simp only [SymMap.gidOf]
    rw [hg, e_variableGid]
    exact g2s_old _ _ _ _ (h.ok (.var i) (by simp only [SymbolId.Valid]; omega))
  | defset i =>
    simp only [SymbolId.Valid] at hS
    simp only [SymMap.gidOf]
    rw [hg, e_defsetGid]
    exact g2s_old _ _ _ _ (h.ok (.defset i) (by simp only [SymbolId.Valid]; omega))
  | multiclass i =>
    simp only [SymbolId.Valid] at hS
    simp only [SymMap.gidOf]
    rw [hg, e_multiclassGid]
    exact g2s_old _ _ _ _ (h.ok (.multiclass i) (by simp only [SymbolId.Valid]; omega))
  | defm i =>
    simp only [SymbolId.Valid] at hS
    simp only [SymMap.gidOf]
    rw [hg, hgid]
    by_cases hi : i < sm.defmList.size
    · exact gid_old _ _ _ _ _ _ (by rw [h.szDm]; exact hi) (h.ok (.defm i) hi)
    · have : i = sm.defmList.size := by omega
      subst this
      rw [← h.szDm]
      exact gid_new _ _ _

theorem GidOK.of_same {sm sm' : SymMap} (h : GidOK sm) (hg : sm'.gidToSym = sm.gidToSym)
    (e_recordList : sm'.recordList.size = sm.recordList.size) (e_recordGid : sm'.recordGid = sm.recordGid) (e_templateArgList : sm'.templateArgList.size = sm.templateArgList.size) (e_templateArgGid : sm'.templateArgGid = sm.templateArgGid) (e_recordFieldList : sm'.recordFieldList.size = sm.recordFieldList.size) (e_recordFieldGid : sm'.recordFieldGid = sm.recordFieldGid) (e_variableList : sm'.variableList.size = sm.variableList.size) (e_variableGid : sm'.variableGid = sm.variableGid) (e_defsetList : sm'.defsetList.size = sm.defsetList.size) (e_defsetGid : sm'.defsetGid = sm.defsetGid) (e_multiclassList : sm'.multiclassList.size = sm.multiclassList.size) (e_multiclassGid : sm'.multiclassGid = sm.multiclassGid) (e_defmList : sm'.defmList.size = sm.defmList.size) (e_defmGid : sm'.defmGid = sm.defmGid) : GidOK sm' := by
  refine ⟨by rw [e_recordGid, e_recordList]; exact h.szRec, by rw [e_templateArgGid, e_templateArgList]; exact h.szTa, by rw [e_recordFieldGid, e_recordFieldList]; exact h.szFld, by rw [e_variableGid, e_variableList]; exact h.szVar, by rw [e_defsetGid, e_defsetList]; exact h.szDs, by rw [e_multiclassGid, e_multiclassList]; exact h.szMc, by rw [e_defmGid, e_defmList]; exact h.szDm, ?_⟩
  intro S hS
  cases S with
  | record i =>
    simp only [SymbolId.Valid] at hS
    simp only [SymMap.gidOf]
    rw [hg, e_recordGid]
    exact h.ok (.record i) (by simp only [SymbolId.Valid]; omega)
  | templateArgument i =>
    simp only [SymbolId.Valid] at hS
    simp only [SymMap.gidOf]
    rw [hg, e_templateArgGid]
    exact h.ok (.templateArgument i) (by simp only [SymbolId.Valid]; omega)
  | recordField i =>
    simp only [SymbolId.Valid] at hS
    simp only [SymMap.gidOf]
    rw [hg, e_recordFieldGid]
    exact h.ok (.recordField i) (by simp only [SymbolId.Valid]; omega)
  | var i =>
    simp only [SymbolId.Valid] at hS
    simp only [SymMap.gidOf]
    rw [hg, e_variableGid]
    exact h.ok (.var i) (by simp only [SymbolId.Valid]; omega)
  | defset i =>
    simp only [SymbolId.Valid] at hS
    simp only [SymMap.gidOf]
    rw [hg, e_defsetGid]
    exact h.ok (.defset i) (by simp only [SymbolId.Valid]; omega)
  | multiclass i =>
    simp only [SymbolId.Valid] at hS
    simp only [SymMap.gidOf]
    rw [hg, e_multiclassGid]
    exact h.ok (.multiclass i) (by simp only [SymbolId.Valid]; omega)
  | defm i =>
    simp only [SymbolId.Valid] at hS
    simp only [SymMap.gidOf]
    rw [hg, e_defmGid]
    exact h.ok (.defm i) (by simp only [SymbolId.Valid]; omega)

theorem SmStep.gidOK {sm sm' : SymMap} (hs : SmStep sm sm') (h : GidOK sm) : GidOK sm' := by
  cases hs with
  | addRecord r g =>
    refine h.alloc_record ?_ ?_ ?_ ?_ ?_ ?_ ?_ ?_ ?_ ?_ ?_ ?_ ?_ ?_ ?_ <;>
      (unfold SymMap.addRecord; simp only; split <;> split <;> simp [SymMap.logDefine])
  | addAnonymousDef r => exact h.alloc_record (by simp [SymMap.addAnonymousDef, SymMap.logDefine]) (by simp [SymMap.addAnonymousDef, SymMap.logDefine]) (by simp [SymMap.addAnonymousDef, SymMap.logDefine]) (by simp [SymMap.addAnonymousDef, SymMap.logDefine]) (by simp [SymMap.addAnonymousDef, SymMap.logDefine]) (by simp [SymMap.addAnonymousDef, SymMap.logDefine]) (by simp [SymMap.addAnonymousDef, SymMap.logDefine]) (by simp [SymMap.addAnonymousDef, SymMap.logDefine]) (by simp [SymMap.addAnonymousDef, SymMap.logDefine]) (by simp [SymMap.addAnonymousDef, SymMap.logDefine]) (by simp [SymMap.addAnonymousDef, SymMap.logDefine]) (by simp [SymMap.addAnonymousDef, SymMap.logDefine]) (by simp [SymMap.addAnonymousDef, SymMap.logDefine]) (by simp [SymMap.addAnonymousDef, SymMap.logDefine]) (by simp [SymMap.addAnonymousDef, SymMap.logDefine])
  | addMulticlassDef r => exact h.alloc_record (by simp [SymMap.addMulticlassDef, SymMap.logDefine]) (by simp [SymMap.addMulticlassDef, SymMap.logDefine]) (by simp [SymMap.addMulticlassDef, SymMap.logDefine]) (by simp [SymMap.addMulticlassDef, SymMap.logDefine]) (by simp [SymMap.addMulticlassDef, SymMap.logDefine]) (by simp [SymMap.addMulticlassDef, SymMap.logDefine]) (by simp [SymMap.addMulticlassDef, SymMap.logDefine]) (by simp [SymMap.addMulticlassDef, SymMap.logDefine]) (by simp [SymMap.addMulticlassDef, SymMap.logDefine]) (by simp [SymMap.addMulticlassDef, SymMap.logDefine]) (by simp [SymMap.addMulticlassDef, SymMap.logDefine]) (by simp [SymMap.addMulticlassDef, SymMap.logDefine]) (by simp [SymMap.addMulticlassDef, SymMap.logDefine]) (by simp [SymMap.addMulticlassDef, SymMap.logDefine]) (by simp [SymMap.addMulticlassDef, SymMap.logDefine])
  | registerDefsetName id => exact h.of_same rfl rfl rfl rfl rfl rfl rfl rfl rfl rfl rfl rfl rfl rfl rfl
  | addTemplateArgument a => exact h.alloc_templateArgument (by simp [SymMap.addTemplateArgument, SymMap.logDefine]) (by simp [SymMap.addTemplateArgument, SymMap.logDefine]) (by simp [SymMap.addTemplateArgument, SymMap.logDefine]) (by simp [SymMap.addTemplateArgument, SymMap.logDefine]) (by simp [SymMap.addTemplateArgument, SymMap.logDefine]) (by simp [SymMap.addTemplateArgument, SymMap.logDefine]) (by simp [SymMap.addTemplateArgument, SymMap.logDefine]) (by simp [SymMap.addTemplateArgument, SymMap.logDefine]) (by simp [SymMap.addTemplateArgument, SymMap.logDefine]) (by simp [SymMap.addTemplateArgument, SymMap.logDefine]) (by simp [SymMap.addTemplateArgument, SymMap.logDefine]) (by simp [SymMap.addTemplateArgument, SymMap.logDefine]) (by simp [SymMap.addTemplateArgument, SymMap.logDefine]) (by simp [SymMap.addTemplateArgument, SymMap.logDefine]) (by simp [SymMap.addTemplateArgument, SymMap.logDefine])
  | addRecordField f => exact h.alloc_recordField (by simp [SymMap.addRecordField, SymMap.logDefine]) (by simp [SymMap.addRecordField, SymMap.logDefine]) (by simp [SymMap.addRecordField, SymMap.logDefine]) (by simp [SymMap.addRecordField, SymMap.logDefine]) (by simp [SymMap.addRecordField, SymMap.logDefine]) (by simp [SymMap.addRecordField, SymMap.logDefine]) (by simp [SymMap.addRecordField, SymMap.logDefine]) (by simp [SymMap.addRecordField, SymMap.logDefine]) (by simp [SymMap.addRecordField, SymMap.logDefine]) (by simp [SymMap.addRecordField, SymMap.logDefine]) (by simp [SymMap.addRecordField, SymMap.logDefine]) (by simp [SymMap.addRecordField, SymMap.logDefine]) (by simp [SymMap.addRecordField, SymMap.logDefine]) (by simp [SymMap.addRecordField, SymMap.logDefine]) (by simp [SymMap.addRecordField, SymMap.logDefine])
  | addVariable v => exact h.alloc_var (by simp [SymMap.addVariable, SymMap.logDefine]) (by simp [SymMap.addVariable, SymMap.logDefine]) (by simp [SymMap.addVariable, SymMap.logDefine]) (by simp [SymMap.addVariable, SymMap.logDefine]) (by simp [SymMap.addVariable, SymMap.logDefine]) (by simp [SymMap.addVariable, SymMap.logDefine]) (by simp [SymMap.addVariable, SymMap.logDefine]) (by simp [SymMap.addVariable, SymMap.logDefine]) (by simp [SymMap.addVariable, SymMap.logDefine]) (by simp [SymMap.addVariable, SymMap.logDefine]) (by simp [SymMap.addVariable, SymMap.logDefine]) (by simp [SymMap.addVariable, SymMap.logDefine]) (by simp [SymMap.addVariable, SymMap.logDefine]) (by simp [SymMap.addVariable, SymMap.logDefine]) (by simp [SymMap.addVariable, SymMap.logDefine])
  | addDefset d => exact h.alloc_defset (by simp [SymMap.addDefset, SymMap.logDefine]) (by simp [SymMap.addDefset, SymMap.logDefine]) (by simp [SymMap.addDefset, SymMap.logDefine]) (by simp [SymMap.addDefset, SymMap.logDefine]) (by simp [SymMap.addDefset, SymMap.logDefine]) (by simp [SymMap.addDefset, SymMap.logDefine]) (by simp [SymMap.addDefset, SymMap.logDefine]) (by simp [SymMap.addDefset, SymMap.logDefine]) (by simp [SymMap.addDefset, SymMap.logDefine]) (by simp [SymMap.addDefset, SymMap.logDefine]) (by simp [SymMap.addDefset, SymMap.logDefine]) (by simp [SymMap.addDefset, SymMap.logDefine]) (by simp [SymMap.addDefset, SymMap.logDefine]) (by simp [SymMap.addDefset, SymMap.logDefine]) (by simp [SymMap.addDefset, SymMap.logDefine])
  | addMulticlass m => exact h.alloc_multiclass (by simp [SymMap.addMulticlass, SymMap.logDefine]) (by simp [SymMap.addMulticlass, SymMap.logDefine]) (by simp [SymMap.addMulticlass, SymMap.logDefine]) (by simp [SymMap.addMulticlass, SymMap.logDefine]) (by simp [SymMap.addMulticlass, SymMap.logDefine]) (by simp [SymMap.addMulticlass, SymMap.logDefine]) (by simp [SymMap.addMulticlass, SymMap.logDefine]) (by simp [SymMap.addMulticlass, SymMap.logDefine]) (by simp [SymMap.addMulticlass, SymMap.logDefine]) (by simp [SymMap.addMulticlass, SymMap.logDefine]) (by simp [SymMap.addMulticlass, SymMap.logDefine]) (by simp [SymMap.addMulticlass, SymMap.logDefine]) (by simp [SymMap.addMulticlass, SymMap.logDefine]) (by simp [SymMap.addMulticlass, SymMap.logDefine]) (by simp [SymMap.addMulticlass, SymMap.logDefine])
  | addDefm d g =>
    refine h.alloc_defm ?_ ?_ ?_ ?_ ?_ ?_ ?_ ?_ ?_ ?_ ?_ ?_ ?_ ?_ ?_ <;>
      (unfold SymMap.addDefm; simp only; split <;> simp [SymMap.logDefine])
  | addAnonymousDefm d => exact h.alloc_defm (by simp [SymMap.addAnonymousDefm, SymMap.logDefine]) (by simp [SymMap.addAnonymousDefm, SymMap.logDefine]) (by simp [SymMap.addAnonymousDefm, SymMap.logDefine]) (by simp [SymMap.addAnonymousDefm, SymMap.logDefine]) (by simp [SymMap.addAnonymousDefm, SymMap.logDefine]) (by simp [SymMap.addAnonymousDefm, SymMap.logDefine]) (by simp [SymMap.addAnonymousDefm, SymMap.logDefine]) (by simp [SymMap.addAnonymousDefm, SymMap.logDefine]) (by simp [SymMap.addAnonymousDefm, SymMap.logDefine]) (by simp [SymMap.addAnonymousDefm, SymMap.logDefine]) (by simp [SymMap.addAnonymousDefm, SymMap.logDefine]) (by simp [SymMap.addAnonymousDefm, SymMap.logDefine]) (by simp [SymMap.addAnonymousDefm, SymMap.logDefine]) (by simp [SymMap.addAnonymousDefm, SymMap.logDefine]) (by simp [SymMap.addAnonymousDefm, SymMap.logDefine])
  | addReference s loc => exact h.of_same rfl rfl rfl rfl rfl rfl rfl rfl rfl rfl rfl rfl rfl rfl rfl
  | recordMut id f hf => exact h.of_same rfl (by simp) rfl rfl rfl rfl rfl rfl rfl rfl rfl rfl rfl rfl rfl
  | multiclassMut id f hf => exact h.of_same rfl rfl rfl rfl rfl rfl rfl rfl rfl rfl rfl (by simp) rfl rfl rfl
  | defmMut id f hf => exact h.of_same rfl rfl rfl rfl rfl rfl rfl rfl rfl rfl rfl rfl rfl (by simp) rfl
  | defsetMut id f hf => exact h.of_same rfl rfl rfl rfl rfl rfl rfl rfl rfl (by simp) rfl rfl rfl rfl rfl

/-! ### what the name maps and the records contain -/

def FldMapOK (sm : SymMap) (m : Array (String × Nat)) : Prop :=
  ∀ name fid, indexMapGet m name = some fid → fid < sm.recordFieldList.size
def TaMapOK (sm : SymMap) (m : Array (String × Nat)) : Prop :=
  ∀ name tid, indexMapGet m name = some tid → tid < sm.templateArgList.size

theorem indexMapGet_empty (name : String) : indexMapGet #[] name = none := by simp [indexMapGet]

/-- every id that a name map or a record / multiclass stores exists -/
structure ContOK (sm : SymMap) : Prop where
  cls : ∀ (k : String) (id : Nat), sm.nameToClass[k]? = some id → id < sm.recordList.size
  defs : ∀ (k : String) (id : Nat), sm.nameToDef[k]? = some id → id < sm.recordList.size
  mcs : ∀ (k : String) (id : Nat), sm.nameToMulticlass[k]? = some id → id < sm.multiclassList.size
  /-- (`register_defset_name` of an id that does not exist would file it under the empty name) -/
  dss : ∀ (k : String) (id : Nat), sm.nameToDefset[k]? = some id → id < sm.defsetList.size ∨ k = ""
  recs : ∀ r ∈ sm.recordList.toList, FldMapOK sm r.nameToRecordField ∧ TaMapOK sm r.nameToTemplateArg
  mcls : ∀ m ∈ sm.multiclassList.toList, TaMapOK sm m.nameToTemplateArg

theorem ContOK.build {sm sm' : SymMap} (h : ContOK sm)
    (sz1 : sm.recordList.size ≤ sm'.recordList.size) (sz2 : sm.recordFieldList.size ≤ sm'.recordFieldList.size)
    (sz3 : sm.templateArgList.size ≤ sm'.templateArgList.size) (sz4 : sm.multiclassList.size ≤ sm'.multiclassList.size)
    (sz5 : sm.defsetList.size ≤ sm'.defsetList.size)
    (hcls : ∀ (k : String) (id : Nat), sm'.nameToClass[k]? = some id → sm.nameToClass[k]? = some id ∨ id < sm'.recordList.size)
    (hdefs : ∀ (k : String) (id : Nat), sm'.nameToDef[k]? = some id → sm.nameToDef[k]? = some id ∨ id < sm'.recordList.size)
    (hmcs : ∀ (k : String) (id : Nat), sm'.nameToMulticlass[k]? = some id →
      sm.nameToMulticlass[k]? = some id ∨ id < sm'.multiclassList.size)
    (hdss : ∀ (k : String) (id : Nat), sm'.nameToDefset[k]? = some id →
      sm.nameToDefset[k]? = some id ∨ id < sm'.defsetList.size ∨ k = "")
    (hrec : ∀ r ∈ sm'.recordList.toList, r ∈ sm.recordList.toList ∨
      (FldMapOK sm' r.nameToRecordField ∧ TaMapOK sm' r.nameToTemplateArg))
    (hmc : ∀ m ∈ sm'.multiclassList.toList, m ∈ sm.multiclassList.toList ∨ TaMapOK sm' m.nameToTemplateArg) :
    ContOK sm' := by
  refine ⟨?_, ?_, ?_, ?_, ?_, ?_⟩
  · intro k id hk
    rcases hcls k id hk with h1 | h1
    · exact Nat.lt_of_lt_of_le (h.cls k id h1) sz1
    · exact h1
  · intro k id hk
    rcases hdefs k id hk with h1 | h1
    · exact Nat.lt_of_lt_of_le (h.defs k id h1) sz1
    · exact h1
  · intro k id hk
    rcases hmcs k id hk with h1 | h1
    · exact Nat.lt_of_lt_of_le (h.mcs k id h1) sz4
    · exact h1
  · intro k id hk
    rcases hdss k id hk with h1 | h1 | h1
    · rcases h.dss k id h1 with h2 | h2
      · exact Or.inl (Nat.lt_of_lt_of_le h2 sz5)
      · exact Or.inr h2
    · exact Or.inl h1
    · exact Or.inr h1
  · intro r hr
    rcases hrec r hr with h1 | h1
    · obtain ⟨a, b⟩ := h.recs r h1
      exact ⟨fun n f hf => Nat.lt_of_lt_of_le (a n f hf) sz2, fun n t ht => Nat.lt_of_lt_of_le (b n t ht) sz3⟩
    · exact h1
  · intro m hm
    rcases hmc m hm with h1 | h1
    · exact fun n t ht => Nat.lt_of_lt_of_le (h.mcls m h1 n t ht) sz3
    · exact h1

theorem mem_modify {α : Type} (a : Array α) (i : Nat) (f : α → α) (x : α) (hx : x ∈ (a.modify i f).toList) :
    x ∈ a.toList ∨ ∃ y ∈ a.toList, x = f y := by
  rw [Array.mem_toList_iff] at hx
  obtain ⟨j, hj, rfl⟩ := Array.mem_iff_getElem.1 hx
  rw [Array.getElem_modify]
  have hj' : j < a.size := by simpa using hj
  split
  · exact Or.inr ⟨a[j], by simp, rfl⟩
  · exact Or.inl (by simp)

theorem mem_push {α : Type} (a : Array α) (y x : α) (hx : x ∈ (a.push y).toList) : x ∈ a.toList ∨ x = y := by
  simpa using hx

theorem SmStepC.contOK {sm sm' : SymMap} (hs : SmStepC sm sm') (h : ContOK sm) : ContOK sm' := by
  cases hs with
  | addTemplateArgument a => exact h.build (by simp [SymMap.addTemplateArgument, SymMap.logDefine]) (by simp [SymMap.addTemplateArgument, SymMap.logDefine]) (by simp [SymMap.addTemplateArgument, SymMap.logDefine]) (by simp [SymMap.addTemplateArgument, SymMap.logDefine]) (by simp [SymMap.addTemplateArgument, SymMap.logDefine]) (fun _ _ hk => Or.inl (by simpa [SymMap.addTemplateArgument, SymMap.logDefine] using hk)) (fun _ _ hk => Or.inl (by simpa [SymMap.addTemplateArgument, SymMap.logDefine] using hk)) (fun _ _ hk => Or.inl (by simpa [SymMap.addTemplateArgument, SymMap.logDefine] using hk)) (fun _ _ hk => Or.inl (by simpa [SymMap.addTemplateArgument, SymMap.logDefine] using hk)) (fun _ hr => Or.inl (by simpa [SymMap.addTemplateArgument, SymMap.logDefine] using hr)) (fun _ hr => Or.inl (by simpa [SymMap.addTemplateArgument, SymMap.logDefine] using hr))
  | addRecordField f => exact h.build (by simp [SymMap.addRecordField, SymMap.logDefine]) (by simp [SymMap.addRecordField, SymMap.logDefine]) (by simp [SymMap.addRecordField, SymMap.logDefine]) (by simp [SymMap.addRecordField, SymMap.logDefine]) (by simp [SymMap.addRecordField, SymMap.logDefine]) (fun _ _ hk => Or.inl (by simpa [SymMap.addRecordField, SymMap.logDefine] using hk)) (fun _ _ hk => Or.inl (by simpa [SymMap.addRecordField, SymMap.logDefine] using hk)) (fun _ _ hk => Or.inl (by simpa [SymMap.addRecordField, SymMap.logDefine] using hk)) (fun _ _ hk => Or.inl (by simpa [SymMap.addRecordField, SymMap.logDefine] using hk)) (fun _ hr => Or.inl (by simpa [SymMap.addRecordField, SymMap.logDefine] using hr)) (fun _ hr => Or.inl (by simpa [SymMap.addRecordField, SymMap.logDefine] using hr))
  | addVariable v => exact h.build (by simp [SymMap.addVariable, SymMap.logDefine]) (by simp [SymMap.addVariable, SymMap.logDefine]) (by simp [SymMap.addVariable, SymMap.logDefine]) (by simp [SymMap.addVariable, SymMap.logDefine]) (by simp [SymMap.addVariable, SymMap.logDefine]) (fun _ _ hk => Or.inl (by simpa [SymMap.addVariable, SymMap.logDefine] using hk)) (fun _ _ hk => Or.inl (by simpa [SymMap.addVariable, SymMap.logDefine] using hk)) (fun _ _ hk => Or.inl (by simpa [SymMap.addVariable, SymMap.logDefine] using hk)) (fun _ _ hk => Or.inl (by simpa [SymMap.addVariable, SymMap.logDefine] using hk)) (fun _ hr => Or.inl (by simpa [SymMap.addVariable, SymMap.logDefine] using hr)) (fun _ hr => Or.inl (by simpa [SymMap.addVariable, SymMap.logDefine] using hr))
  | addDefset d => exact h.build (by simp [SymMap.addDefset, SymMap.logDefine]) (by simp [SymMap.addDefset, SymMap.logDefine]) (by simp [SymMap.addDefset, SymMap.logDefine]) (by simp [SymMap.addDefset, SymMap.logDefine]) (by simp [SymMap.addDefset, SymMap.logDefine]) (fun _ _ hk => Or.inl (by simpa [SymMap.addDefset, SymMap.logDefine] using hk)) (fun _ _ hk => Or.inl (by simpa [SymMap.addDefset, SymMap.logDefine] using hk)) (fun _ _ hk => Or.inl (by simpa [SymMap.addDefset, SymMap.logDefine] using hk)) (fun _ _ hk => Or.inl (by simpa [SymMap.addDefset, SymMap.logDefine] using hk)) (fun _ hr => Or.inl (by simpa [SymMap.addDefset, SymMap.logDefine] using hr)) (fun _ hr => Or.inl (by simpa [SymMap.addDefset, SymMap.logDefine] using hr))
  | addDefm d g =>
    refine h.build ?_ ?_ ?_ ?_ ?_ ?_ ?_ ?_ ?_ ?_ ?_ <;>
      (unfold SymMap.addDefm; simp only; split <;> first
        | (simp [SymMap.logDefine]; done)
        | (intro _ _ hk; exact Or.inl (by simpa [SymMap.logDefine] using hk))
        | (intro _ hr; exact Or.inl (by simpa [SymMap.logDefine] using hr)))
  | addAnonymousDefm d => exact h.build (by simp [SymMap.addAnonymousDefm, SymMap.logDefine]) (by simp [SymMap.addAnonymousDefm, SymMap.logDefine]) (by simp [SymMap.addAnonymousDefm, SymMap.logDefine]) (by simp [SymMap.addAnonymousDefm, SymMap.logDefine]) (by simp [SymMap.addAnonymousDefm, SymMap.logDefine]) (fun _ _ hk => Or.inl (by simpa [SymMap.addAnonymousDefm, SymMap.logDefine] using hk)) (fun _ _ hk => Or.inl (by simpa [SymMap.addAnonymousDefm, SymMap.logDefine] using hk)) (fun _ _ hk => Or.inl (by simpa [SymMap.addAnonymousDefm, SymMap.logDefine] using hk)) (fun _ _ hk => Or.inl (by simpa [SymMap.addAnonymousDefm, SymMap.logDefine] using hk)) (fun _ hr => Or.inl (by simpa [SymMap.addAnonymousDefm, SymMap.logDefine] using hr)) (fun _ hr => Or.inl (by simpa [SymMap.addAnonymousDefm, SymMap.logDefine] using hr))
  | addReference s loc => exact h.build (by simp [SymMap.addReference, SymMap.logDefine]) (by simp [SymMap.addReference, SymMap.logDefine]) (by simp [SymMap.addReference, SymMap.logDefine]) (by simp [SymMap.addReference, SymMap.logDefine]) (by simp [SymMap.addReference, SymMap.logDefine]) (fun _ _ hk => Or.inl (by simpa [SymMap.addReference, SymMap.logDefine] using hk)) (fun _ _ hk => Or.inl (by simpa [SymMap.addReference, SymMap.logDefine] using hk)) (fun _ _ hk => Or.inl (by simpa [SymMap.addReference, SymMap.logDefine] using hk)) (fun _ _ hk => Or.inl (by simpa [SymMap.addReference, SymMap.logDefine] using hk)) (fun _ hr => Or.inl (by simpa [SymMap.addReference, SymMap.logDefine] using hr)) (fun _ hr => Or.inl (by simpa [SymMap.addReference, SymMap.logDefine] using hr))
  | addAnonymousDef r hr =>
    refine h.build (by simp [SymMap.addAnonymousDef, SymMap.logDefine]) (by simp [SymMap.addAnonymousDef, SymMap.logDefine])
      (by simp [SymMap.addAnonymousDef, SymMap.logDefine]) (by simp [SymMap.addAnonymousDef, SymMap.logDefine])
      (by simp [SymMap.addAnonymousDef, SymMap.logDefine])
      (fun _ _ hk => Or.inl (by simpa [SymMap.addAnonymousDef, SymMap.logDefine] using hk))
      (fun _ _ hk => Or.inl (by simpa [SymMap.addAnonymousDef, SymMap.logDefine] using hk))
      (fun _ _ hk => Or.inl (by simpa [SymMap.addAnonymousDef, SymMap.logDefine] using hk))
      (fun _ _ hk => Or.inl (by simpa [SymMap.addAnonymousDef, SymMap.logDefine] using hk)) ?_
      (fun _ hm => Or.inl (by simpa [SymMap.addAnonymousDef, SymMap.logDefine] using hm))
    intro x hx
    have hx' : x ∈ (sm.recordList.push r).toList := by simpa [SymMap.addAnonymousDef, SymMap.logDefine] using hx
    rcases mem_push _ _ _ hx' with h1 | rfl
    · exact Or.inl h1
    · right
      rw [hr.1, hr.2]
      exact ⟨fun n f hf => by (rw [indexMapGet_empty] at hf; cases hf), fun n f hf => by (rw [indexMapGet_empty] at hf; cases hf)⟩
  | addMulticlassDef r hr =>
    refine h.build (by simp [SymMap.addMulticlassDef, SymMap.logDefine]) (by simp [SymMap.addMulticlassDef, SymMap.logDefine])
      (by simp [SymMap.addMulticlassDef, SymMap.logDefine]) (by simp [SymMap.addMulticlassDef, SymMap.logDefine])
      (by simp [SymMap.addMulticlassDef, SymMap.logDefine])
      (fun _ _ hk => Or.inl (by simpa [SymMap.addMulticlassDef, SymMap.logDefine] using hk))
      (fun _ _ hk => Or.inl (by simpa [SymMap.addMulticlassDef, SymMap.logDefine] using hk))
      (fun _ _ hk => Or.inl (by simpa [SymMap.addMulticlassDef, SymMap.logDefine] using hk))
      (fun _ _ hk => Or.inl (by simpa [SymMap.addMulticlassDef, SymMap.logDefine] using hk)) ?_
      (fun _ hm => Or.inl (by simpa [SymMap.addMulticlassDef, SymMap.logDefine] using hm))
    intro x hx
    have hx' : x ∈ (sm.recordList.push r).toList := by simpa [SymMap.addMulticlassDef, SymMap.logDefine] using hx
    rcases mem_push _ _ _ hx' with h1 | rfl
    · exact Or.inl h1
    · right
      rw [hr.1, hr.2]
      exact ⟨fun n f hf => by (rw [indexMapGet_empty] at hf; cases hf), fun n f hf => by (rw [indexMapGet_empty] at hf; cases hf)⟩
  | registerDefsetName id =>
    refine h.build (Nat.le_refl _) (Nat.le_refl _) (Nat.le_refl _) (Nat.le_refl _) (Nat.le_refl _)
      (fun _ _ hk => Or.inl hk) (fun _ _ hk => Or.inl hk) (fun _ _ hk => Or.inl hk) ?_
      (fun _ hr => Or.inl hr) (fun _ hm => Or.inl hm)
    intro k id' hk
    have hk' : (sm.nameToDefset.insert (sm.defsetList[id]!).name id)[k]? = some id' := hk
    rw [Std.HashMap.getElem?_insert] at hk'
    split at hk'
    · rename_i heq
      cases hk'
      have hkey : (sm.defsetList[id]!).name = k := by simpa using heq
      by_cases hid : id < sm.defsetList.size
      · exact Or.inr (Or.inl hid)
      · right; right
        rw [← hkey]
        have : sm.defsetList[id]! = default := by
          simp [getElem!_def, Array.getElem?_eq_none (Nat.le_of_not_lt hid)]
        rw [this]
        rfl
    · exact Or.inl hk'
  | recordMut id f hf hc =>
    refine h.build (by simp) (Nat.le_refl _) (Nat.le_refl _) (Nat.le_refl _) (Nat.le_refl _)
      (fun _ _ hk => Or.inl hk) (fun _ _ hk => Or.inl hk) (fun _ _ hk => Or.inl hk) (fun _ _ hk => Or.inl hk) ?_
      (fun _ hm => Or.inl hm)
    intro x hx
    rcases mem_modify _ _ _ _ hx with h1 | ⟨y, hy, rfl⟩
    · exact Or.inl h1
    · right
      rw [(hc y).1, (hc y).2]
      exact h.recs y hy
  | multiclassMut id f hf hc =>
    refine h.build (Nat.le_refl _) (Nat.le_refl _) (Nat.le_refl _) (by simp) (Nat.le_refl _)
      (fun _ _ hk => Or.inl hk) (fun _ _ hk => Or.inl hk) (fun _ _ hk => Or.inl hk) (fun _ _ hk => Or.inl hk)
      (fun _ hr => Or.inl hr) ?_
    intro x hx
    rcases mem_modify _ _ _ _ hx with h1 | ⟨y, hy, rfl⟩
    · exact Or.inl h1
    · right
      rw [hc y]
      exact h.mcls y hy
  | defmMut id f hf =>
    exact h.build (Nat.le_refl _) (Nat.le_refl _) (Nat.le_refl _) (Nat.le_refl _) (Nat.le_refl _)
      (fun _ _ hk => Or.inl hk) (fun _ _ hk => Or.inl hk) (fun _ _ hk => Or.inl hk) (fun _ _ hk => Or.inl hk)
      (fun _ hr => Or.inl hr) (fun _ hm => Or.inl hm)
  | defsetMut id f hf =>
    exact h.build (Nat.le_refl _) (Nat.le_refl _) (Nat.le_refl _) (Nat.le_refl _) (by simp)
      (fun _ _ hk => Or.inl hk) (fun _ _ hk => Or.inl hk) (fun _ _ hk => Or.inl hk) (fun _ _ hk => Or.inl hk)
      (fun _ hr => Or.inl hr) (fun _ hm => Or.inl hm)
  | insertField rid name fid hfid =>
    refine h.build (by simp) (Nat.le_refl _) (Nat.le_refl _) (Nat.le_refl _) (Nat.le_refl _)
      (fun _ _ hk => Or.inl hk) (fun _ _ hk => Or.inl hk) (fun _ _ hk => Or.inl hk) (fun _ _ hk => Or.inl hk) ?_
      (fun _ hm => Or.inl hm)
    intro x hx
    rcases mem_modify _ _ _ _ hx with h1 | ⟨y, hy, rfl⟩
    · exact Or.inl h1
    · right
      refine ⟨fun n f hf => ?_, (h.recs y hy).2⟩
      simp only at hf
      rw [indexMapGet_insert] at hf
      split at hf
      · cases hf; exact hfid
      · exact (h.recs y hy).1 n f hf
  | insertTARecord rid name tid htid =>
    refine h.build (by simp) (Nat.le_refl _) (Nat.le_refl _) (Nat.le_refl _) (Nat.le_refl _)
      (fun _ _ hk => Or.inl hk) (fun _ _ hk => Or.inl hk) (fun _ _ hk => Or.inl hk) (fun _ _ hk => Or.inl hk) ?_
      (fun _ hm => Or.inl hm)
    intro x hx
    rcases mem_modify _ _ _ _ hx with h1 | ⟨y, hy, rfl⟩
    · exact Or.inl h1
    · right
      refine ⟨(h.recs y hy).1, fun n f hf => ?_⟩
      simp only at hf
      rw [indexMapGet_insert] at hf
      split at hf
      · cases hf; exact htid
      · exact (h.recs y hy).2 n f hf
  | insertTAMulticlass mid name tid htid =>
    refine h.build (Nat.le_refl _) (Nat.le_refl _) (Nat.le_refl _) (by simp) (Nat.le_refl _)
      (fun _ _ hk => Or.inl hk) (fun _ _ hk => Or.inl hk) (fun _ _ hk => Or.inl hk) (fun _ _ hk => Or.inl hk)
      (fun _ hr => Or.inl hr) ?_
    intro x hx
    rcases mem_modify _ _ _ _ hx with h1 | ⟨y, hy, rfl⟩
    · exact Or.inl h1
    · right
      intro n f hf
      simp only at hf
      rw [indexMapGet_insert] at hf
      split at hf
      · cases hf; exact htid
      · exact h.mcls y hy n f hf
  | addMulticlass m hm =>
    refine h.build (by simp [SymMap.addMulticlass, SymMap.logDefine]) (by simp [SymMap.addMulticlass, SymMap.logDefine])
      (by simp [SymMap.addMulticlass, SymMap.logDefine]) (by simp [SymMap.addMulticlass, SymMap.logDefine])
      (by simp [SymMap.addMulticlass, SymMap.logDefine])
      (fun _ _ hk => Or.inl (by simpa [SymMap.addMulticlass, SymMap.logDefine] using hk))
      (fun _ _ hk => Or.inl (by simpa [SymMap.addMulticlass, SymMap.logDefine] using hk)) ?_
      (fun _ _ hk => Or.inl (by simpa [SymMap.addMulticlass, SymMap.logDefine] using hk))
      (fun _ hr => Or.inl (by simpa [SymMap.addMulticlass, SymMap.logDefine] using hr)) ?_
    · intro k id hk
      have hk' : (sm.nameToMulticlass.insert m.name sm.multiclassList.size)[k]? = some id := by
        simpa [SymMap.addMulticlass, SymMap.logDefine] using hk
      rw [Std.HashMap.getElem?_insert] at hk'
      split at hk'
      · cases hk'; right; simp [SymMap.addMulticlass, SymMap.logDefine]
      · exact Or.inl hk'
    · intro x hx
      have hx' : x ∈ (sm.multiclassList.push m).toList := by simpa [SymMap.addMulticlass, SymMap.logDefine] using hx
      rcases mem_push _ _ _ hx' with h1 | rfl
      · exact Or.inl h1
      · right
        rw [hm]
        exact fun n f hf => by (rw [indexMapGet_empty] at hf; cases hf)
  | addRecord r g hr =>
    have hlist : (sm.addRecord r g).2.recordList = sm.recordList.push r := by
      unfold SymMap.addRecord; simp only; split <;> split <;> simp [SymMap.logDefine]
    have hother : (sm.addRecord r g).2.recordFieldList = sm.recordFieldList ∧
        (sm.addRecord r g).2.templateArgList = sm.templateArgList ∧
        (sm.addRecord r g).2.multiclassList = sm.multiclassList ∧
        (sm.addRecord r g).2.defsetList = sm.defsetList ∧
        (sm.addRecord r g).2.nameToMulticlass = sm.nameToMulticlass ∧
        (sm.addRecord r g).2.nameToDefset = sm.nameToDefset := by
      unfold SymMap.addRecord; simp only; split <;> split <;> simp [SymMap.logDefine]
    have hmaps : ((sm.addRecord r g).2.nameToClass = sm.nameToClass ∨
          (sm.addRecord r g).2.nameToClass = sm.nameToClass.insert r.name sm.recordList.size) ∧
        ((sm.addRecord r g).2.nameToDef = sm.nameToDef ∨
          (sm.addRecord r g).2.nameToDef = sm.nameToDef.insert r.name sm.recordList.size) := by
      unfold SymMap.addRecord; simp only; split <;> split <;> simp [SymMap.logDefine]
    obtain ⟨o1, o2, o3, o4, o5, o6⟩ := hother
    refine h.build (by rw [hlist]; simp) (by rw [o1]; exact Nat.le_refl _) (by rw [o2]; exact Nat.le_refl _)
      (by rw [o3]; exact Nat.le_refl _) (by rw [o4]; exact Nat.le_refl _) ?_ ?_
      (fun _ _ hk => Or.inl (by rw [o5] at hk; exact hk)) (fun _ _ hk => Or.inl (by rw [o6] at hk; exact hk)) ?_
      (fun _ hm => Or.inl (by rw [o3] at hm; exact hm))
    · intro k id hk
      rcases hmaps.1 with e | e
      · rw [e] at hk; exact Or.inl hk
      · rw [e, Std.HashMap.getElem?_insert] at hk
        split at hk
        · cases hk; right; rw [hlist]; simp
        · exact Or.inl hk
    · intro k id hk
      rcases hmaps.2 with e | e
      · rw [e] at hk; exact Or.inl hk
      · rw [e, Std.HashMap.getElem?_insert] at hk
        split at hk
        · cases hk; right; rw [hlist]; simp
        · exact Or.inl hk
    · intro x hx
      rw [hlist] at hx
      rcases mem_push _ _ _ hx with h1 | rfl
      · exact Or.inl h1
      · right
        rw [hr.1, hr.2]
        exact ⟨fun n f hf => by (rw [indexMapGet_empty] at hf; cases hf), fun n f hf => by (rw [indexMapGet_empty] at hf; cases hf)⟩


/-! ### the relations -/

def GidRel (c c' : IndexCtx) : Prop := GidOK c.symbolMap → GidOK c'.symbolMap

instance : StdRel GidRel where
  refl := fun _ h => h
  trans := fun h1 h2 h => h2 (h1 h)
  of_eq := fun c c' _ h1 _ h => by rw [h1]; exact h
  sm := fun _ _ hs h => hs.gidOK h

instance : NoScopeRel GidRel where
  scopes := fun _ _ _ h => h

instance : VarRel GidRel where
  addVariable := fun v => by
    unfold scopesAddVariable
    keeps
    refine Keeps.modifyGet _ fun c => ?_
    split <;> exact fun h => h

theorem mkRec_gid (fuel : Nat) :
    (∀ n, Keeps GidRel ((Index.mkRec fuel).value n)) ∧ (∀ n, Keeps GidRel ((Index.mkRec fuel).typ n)) ∧
    (∀ n, Keeps GidRel ((Index.mkRec fuel).statementList n)) ∧
    (∀ n, Keeps GidRel ((Index.mkRec fuel).sourceFile n)) := mkRec_keeps fuel

def ContRel (c c' : IndexCtx) : Prop := ContOK c.symbolMap → ContOK c'.symbolMap

instance : KeepRel ContRel where
  refl := fun _ h => h
  trans := fun h1 h2 h => h2 (h1 h)

theorem ContRel.of_sm {c c' : IndexCtx} (h : c'.symbolMap = c.symbolMap) : ContRel c c' := by
  intro hc; rw [h]; exact hc

theorem ContRel.error (rg : Nat × Nat) (msg : String) : Keeps ContRel (error rg msg) := by
  unfold Ide.error
  exact Keeps.bind currentFileId_keeps fun f => Keeps.modify _ fun _ => ContRel.of_sm rfl

instance : CoreRel ContRel where
  sm := fun _ _ hs h => hs.contOK h
  anon := Keeps.modifyGet _ fun _ => ContRel.of_sm rfl
  error := ContRel.error
  incl := fun r hsf n => by
    unfold Index.indexInclude
    refine Keeps.bind currentFileId_keeps fun fileId => Keeps.bind Keeps.get fun c0 => ?_
    dsimp only
    split
    · exact ContRel.error _ _
    · refine Keeps.bind (Keeps.modifyGet _ fun c => ?_) fun b => ?_
      · split <;> exact ContRel.of_sm rfl
      split
      · exact Keeps.pure _
      · split
        · refine Keeps.bind (Keeps.modify _ fun _ => ContRel.of_sm rfl) fun _ => Keeps.bind (hsf _) fun _ => ?_
          unfold popFile
          refine Keeps.bind Keeps.get fun c => ?_
          split
          · exact Keeps.modify _ fun _ => ContRel.of_sm rfl
          · exact panic_keeps _
        · exact Keeps.pure _

instance : NoScopeRel ContRel where
  scopes := fun _ _ _ h => h

instance : VarRel ContRel where
  addVariable := fun v => by
    unfold scopesAddVariable
    keeps
    refine Keeps.modifyGet _ fun c => ?_
    split <;> exact fun h => h

theorem mkRec_cont (fuel : Nat) :
    (∀ n, Keeps ContRel ((Index.mkRec fuel).value n)) ∧ (∀ n, Keeps ContRel ((Index.mkRec fuel).typ n)) ∧
    (∀ n, Keeps ContRel ((Index.mkRec fuel).statementList n)) ∧
    (∀ n, Keeps ContRel ((Index.mkRec fuel).sourceFile n)) := mkRec_keeps fuel

/-! ### the invariant of reachable states -/

/-- the state invariant: allocation indices, stored ids and bound variables are consistent -/
structure LiveInv (c : IndexCtx) : Prop where
  gid : GidOK c.symbolMap
  cont : ContOK c.symbolMap
  vars : BInv 0 (fun _ => True) c

theorem GidOK.empty : GidOK {} :=
  ⟨rfl, rfl, rfl, rfl, rfl, rfl, rfl, fun S hS => by cases S <;> simp [SymbolId.Valid] at hS⟩

theorem ContOK.empty : ContOK {} := by
  refine ⟨?_, ?_, ?_, ?_, ?_, ?_⟩
  · intro a b h; simp at h
  · intro a b h; simp at h
  · intro a b h; simp at h
  · intro a b h; simp at h
  · intro a h; simp at h
  · intro a h; simp at h

theorem LiveInv.new (ws : Workspace) : LiveInv (IndexCtx.new ws) := by
  refine ⟨GidOK.empty, ContOK.empty, Nat.zero_le _, fun v hv => ?_⟩
  obtain ⟨sc, hsc, hb⟩ := hv
  have : sc = { kind := .root } := by simpa [IndexCtx.new] using hsc
  subst this
  rcases hb with ⟨n, hn⟩ | ⟨nm, hk⟩
  · simp at hn
  · cases hk

/-- every relation of the pass at once -/
def LiveRel (c c' : IndexCtx) : Prop := GidRel c c' ∧ ContRel c c' ∧ BRel 0 (fun _ => True) c c'

theorem LiveRel.inv {c c' : IndexCtx} (h : LiveRel c c') (hi : LiveInv c) : LiveInv c' :=
  ⟨h.1 hi.gid, h.2.1 hi.cont, h.2.2.2 hi.vars⟩

theorem mkRec_live (fuel : Nat) :
    (∀ n, Keeps LiveRel ((Index.mkRec fuel).value n)) ∧ (∀ n, Keeps LiveRel ((Index.mkRec fuel).typ n)) ∧
    (∀ n, Keeps LiveRel ((Index.mkRec fuel).statementList n)) ∧
    (∀ n, Keeps LiveRel ((Index.mkRec fuel).sourceFile n)) := by
  obtain ⟨g1, g2, g3, g4⟩ := mkRec_gid fuel
  obtain ⟨c1, c2, c3, c4⟩ := mkRec_cont fuel
  obtain ⟨b1, b2, b3, b4⟩ := mkRec_brel (T := 0) (Good := fun _ => True) (fun _ _ => trivial) fuel
  exact ⟨fun n => ⟨fun c a c' h => ⟨(g1 n).run _ _ _ h, (c1 n).run _ _ _ h, (b1 n).run _ _ _ h⟩⟩,
    fun n => ⟨fun c a c' h => ⟨(g2 n).run _ _ _ h, (c2 n).run _ _ _ h, (b2 n).run _ _ _ h⟩⟩,
    fun n => ⟨fun c a c' h => ⟨(g3 n).run _ _ _ h, (c3 n).run _ _ _ h, (b3 n).run _ _ _ h⟩⟩,
    fun n => ⟨fun c a c' h => ⟨(g4 n).run _ _ _ h, (c4 n).run _ _ _ h, (b4 n).run _ _ _ h⟩⟩⟩

/-! ### what the lookups return is valid -/

theorem getElem!_mem_or_default {α : Type} [Inhabited α] (a : Array α) (i : Nat) :
    a[i]! ∈ a.toList ∨ a[i]! = default := by
  by_cases h : i < a.size
  · left; rw [getElem!_pos a i h]; simp
  · right; simp [getElem!_def, Array.getElem?_eq_none (Nat.le_of_not_lt h)]

theorem ContOK.record_maps {sm : SymMap} (h : ContOK sm) (rid : Nat) :
    FldMapOK sm (sm.record rid).nameToRecordField ∧ TaMapOK sm (sm.record rid).nameToTemplateArg := by
  unfold SymMap.record
  rcases getElem!_mem_or_default sm.recordList rid with h1 | h1
  · exact h.recs _ h1
  · rw [h1]
    exact ⟨fun n f hf => by (change indexMapGet #[] n = some f at hf; rw [indexMapGet_empty] at hf; cases hf),
      fun n f hf => by (change indexMapGet #[] n = some f at hf; rw [indexMapGet_empty] at hf; cases hf)⟩

theorem ContOK.multiclass_map {sm : SymMap} (h : ContOK sm) (mid : Nat) :
    TaMapOK sm (sm.multiclass mid).nameToTemplateArg := by
  unfold SymMap.multiclass
  rcases getElem!_mem_or_default sm.multiclassList mid with h1 | h1
  · exact h.mcls _ h1
  · rw [h1]
    exact fun n f hf => by (change indexMapGet #[] n = some f at hf; rw [indexMapGet_empty] at hf; cases hf)

theorem findFieldGo_valid {sm : SymMap} (h : ContOK sm) (name : String) (fuel rid fid : Nat)
    (hf : SymMap.findFieldGo sm name fuel rid = some fid) : fid < sm.recordFieldList.size := by
  induction fuel generalizing rid with
  | zero => simp [SymMap.findFieldGo] at hf
  | succ fuel ih =>
    unfold SymMap.findFieldGo at hf
    simp only at hf
    split at hf
    · rename_i f hown
      cases hf
      exact (h.record_maps rid).1 name _ hown
    · rw [← Array.findSome?_toList] at hf
      obtain ⟨p, _, hp⟩ := List.exists_of_findSome?_eq_some hf
      exact ih p hp

/-- **`find_local` returns a valid symbol** -/
theorem findLocal_valid {c : IndexCtx} (h : LiveInv c) (name : String) (S : SymbolId)
    (hf : c.scopes.findLocal c.symbolMap name = some S) : S.Valid c.symbolMap := by
  cases S with
  | var v => exact (h.vars.2 v (findLocal_var_binds hf)).1
  | _ =>
    all_goals
      unfold Scopes.findLocal at hf
      obtain ⟨sc, _, hx⟩ := List.exists_of_findSome?_eq_some hf
      cases hfv : sc.findVariable name with
      | some id => rw [hfv] at hx; cases hx
      | none =>
        rw [hfv] at hx
        simp only at hx
        cases hrid : sc.recordId with
        | some rid =>
          rw [hrid] at hx
          simp only at hx
          cases hrf : c.symbolMap.recordFindField rid name with
          | some fid =>
            rw [hrf] at hx
            simp only [Option.some.injEq] at hx
            first
              | (cases hx; exact findFieldGo_valid h.cont name _ rid _ hrf)
              | cases hx
          | none =>
            rw [hrf] at hx
            simp only at hx
            cases hta : SymMap.recordFindTemplateArg (c.symbolMap.record rid) name with
            | some t =>
              rw [hta] at hx
              simp only [Option.some.injEq] at hx
              first
                | (cases hx; exact (h.cont.record_maps rid).2 name _ hta)
                | cases hx
            | none =>
              rw [hta] at hx
              simp only at hx
              cases hmid : sc.multiclassId with
              | none => rw [hmid] at hx; cases hx
              | some mid =>
                rw [hmid] at hx
                simp only at hx
                cases hmt : SymMap.multiclassFindTemplateArg (c.symbolMap.multiclass mid) name with
                | none => rw [hmt] at hx; cases hx
                | some t =>
                  rw [hmt] at hx
                  simp only [Option.some.injEq] at hx
                  first
                    | (cases hx; exact h.cont.multiclass_map mid name _ hmt)
                    | cases hx
        | none =>
          rw [hrid] at hx
          simp only at hx
          cases hmid : sc.multiclassId with
          | none => rw [hmid] at hx; cases hx
          | some mid =>
            rw [hmid] at hx
            simp only at hx
            cases hmt : SymMap.multiclassFindTemplateArg (c.symbolMap.multiclass mid) name with
            | none => rw [hmt] at hx; cases hx
            | some t =>
              rw [hmt] at hx
              simp only [Option.some.injEq] at hx
              first
                | (cases hx; exact h.cont.multiclass_map mid name _ hmt)
                | cases hx

/-- a valid symbol of a live state has a consistent allocation index -/
theorem LiveInv.live {c : IndexCtx} (h : LiveInv c) (S : SymbolId) (hS : S.Valid c.symbolMap) :
    c.symbolMap.gidToSym[c.symbolMap.gidOf S]? = some S := h.gid.ok S hS

end Ide
end Tg
