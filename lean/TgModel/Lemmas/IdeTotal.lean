/-
`buildWorkspace` always succeeds (given that the parser does): the fuel of `collect_sources`'s loop
is enough.

Counting argument.  A file id stands for a class of equal paths (`PathBuf` equality); its content is
what the virtual file system holds under that path (or empty).  Each loop iteration pops one queue
entry; an entry whose file is already collected costs one unit; a new file costs one unit and pushes
at most one entry per `include` statement of its text, i.e. at most as many as the text has
characters (`parseFile_includes`), while the text's entry of the file system — `length + 1` units of
the fuel — is spent for good, because different file ids read different entries.  So

    queue length + (Σ over the file system of (length + 1) − what collected files have spent)

strictly decreases; the fuel is 16 + that sum.
-/
import TgModel.Lemmas.IncCountTree
import TgModel.Lemmas.IdeWorkspace

namespace Tg
namespace Ide

/-! ### paths and the virtual file system -/

/-- `PathBuf` equality -/
def PEq (a b : String) : Prop := Path.components a = Path.components b

theorem pathEq_iff {a b : String} : Path.pathEq a b = true ↔ PEq a b := by
  unfold Path.pathEq PEq; exact beq_iff_eq

theorem PEq.symm {a b : String} (h : PEq a b) : PEq b a := Eq.symm h
theorem PEq.trans {a b c : String} (h1 : PEq a b) (h2 : PEq b c) : PEq a c := Eq.trans h1 h2
theorem PEq.refl (a : String) : PEq a a := rfl

/-- `MemFs::read_content`, as a function of the file system -/
def readV (vfs : List (String × String)) (p : String) : Option String :=
  ((vfs.filter fun e => Path.pathEq e.1 p).getLast?).map (·.2)

theorem readContent_eq (c : Collect) (p : String) : c.readContent p = readV c.vfs p := rfl

theorem readV_congr (vfs : List (String × String)) {p q : String} (h : PEq p q) : readV vfs p = readV vfs q := by
  unfold readV Path.pathEq
  unfold PEq at h
  rw [h]

/-- what a path costs: the size of the entry it reads -/
def cost (vfs : List (String × String)) (p : String) : Nat :=
  match readV vfs p with
  | some t => t.length + 1
  | none => 0

def total (vfs : List (String × String)) : Nat := (vfs.map fun e => e.2.length + 1).sum

theorem fuel_eq (vfs : List (String × String)) (n : Nat) :
    vfs.foldl (fun n e => n + e.2.length + 1) n = n + total vfs := by
  induction vfs generalizing n with
  | nil => simp [total]
  | cons e l ih =>
    simp only [List.foldl_cons, ih, total, List.map_cons, List.sum_cons]
    omega

theorem sum_map_zero {α : Type} {l : List α} {f : α → Nat} (h : ∀ x ∈ l, f x = 0) : (l.map f).sum = 0 := by
  induction l with
  | nil => simp
  | cons x xs ih => simp [h x (by simp), ih (fun y hy => h y (by simp [hy]))]

theorem match_sum_le (e : String × String) (k : Nat) : ∀ (ps : List String),
    ps.Pairwise (fun a b => ¬ PEq a b) → (ps.map fun p => if Path.pathEq e.1 p then k else 0).sum ≤ k
  | [], _ => by simp
  | p :: ps, h => by
    rw [List.pairwise_cons] at h
    simp only [List.map_cons, List.sum_cons]
    by_cases hp : Path.pathEq e.1 p = true
    · have hz : (ps.map fun q => if Path.pathEq e.1 q then k else 0).sum = 0 := by
        apply sum_map_zero
        intro q hq
        have : Path.pathEq e.1 q = false := by
          cases hh : Path.pathEq e.1 q with
          | false => rfl
          | true => exact absurd ((pathEq_iff.mp hp).symm.trans (pathEq_iff.mp hh)) (h.1 q hq)
        simp [this]
      simp [hp, hz]
    · have := match_sum_le e k ps h.2
      simp [hp]; exact this

theorem cost_cons_le (e : String × String) (l : List (String × String)) (p : String) :
    cost (e :: l) p ≤ cost l p + (if Path.pathEq e.1 p then e.2.length + 1 else 0) := by
  unfold cost readV
  simp only [List.filter_cons]
  by_cases hp : Path.pathEq e.1 p = true
  · simp only [hp, if_true]
    cases hl : List.filter (fun e => Path.pathEq e.1 p) l with
    | nil => simp
    | cons x xs => simp [List.getLast?_cons_cons]
  · simp [hp]

/-- different paths read different entries: together they cost at most the whole file system -/
theorem cost_sum_le : ∀ (vfs : List (String × String)) (ps : List String),
    ps.Pairwise (fun a b => ¬ PEq a b) → (ps.map (cost vfs)).sum ≤ total vfs
  | [], ps, _ => by
    have : ∀ p, cost [] p = 0 := fun p => by simp [cost, readV]
    rw [sum_map_zero (fun p _ => this p)]
    exact Nat.zero_le _
  | e :: l, ps, h => by
    have ih := cost_sum_le l ps h
    have h1 : (ps.map (cost (e :: l))).sum ≤
        (ps.map (cost l)).sum + (ps.map fun p => if Path.pathEq e.1 p then e.2.length + 1 else 0).sum := by
      clear ih h
      induction ps with
      | nil => simp
      | cons p ps ihp =>
        simp only [List.map_cons, List.sum_cons]
        have := cost_cons_le e l p
        omega
    have h2 := match_sum_le e (e.2.length + 1) ps h
    simp only [total, List.map_cons, List.sum_cons] at ih ⊢
    omega

/-! ### array bookkeeping -/

theorem getD_push_lt {a : Array String} {x : String} {i : Nat} (h : i < a.size) : (a.push x).getD i "" = a.getD i "" := by
  simp [Array.getD_eq_getD_getElem?, Array.getElem?_push, Nat.ne_of_lt h]

theorem getD_push_eq {a : Array String} {x : String} : (a.push x).getD a.size "" = x := by
  simp [Array.getD_eq_getD_getElem?]

theorem getD_set_eq {a : Array String} {x : String} {i : Nat} (h : i < a.size) : (a.set! i x).getD i "" = x := by
  simp [Array.getD_eq_getD_getElem?, Array.set!_eq_setIfInBounds, Array.getElem?_setIfInBounds, h]

theorem getD_set_ne {a : Array String} {x : String} {i j : Nat} (h : i ≠ j) : (a.set! i x).getD j "" = a.getD j "" := by
  simp [Array.getD_eq_getD_getElem?, Array.set!_eq_setIfInBounds, Array.getElem?_setIfInBounds, h]

/-! ### the invariant of the collection -/

structure TInv (vfs : List (String × String)) (c : Collect) : Prop where
  hv : c.vfs = vfs
  csz : c.contents.size = c.paths.size
  queue : ∀ f ∈ c.queue, f < c.paths.size
  fileSet : ∀ f ∈ c.fileSet.toList, f < c.paths.size
  nodup : c.fileSet.toList.Nodup
  /-- different ids, different paths -/
  inj : ∀ i j, i < c.paths.size → j < c.paths.size → PEq (c.paths.getD i "") (c.paths.getD j "") → i = j
  /-- the content of a file is what the file system holds under its path -/
  cont : ∀ i, i < c.paths.size → c.contents.getD i "" = (readV vfs (c.paths.getD i "")).getD ""

/-- what stays when ids are assigned -/
structure Keep (c c' : Collect) : Prop where
  size : c.paths.size ≤ c'.paths.size
  paths : ∀ i, i < c.paths.size → c'.paths.getD i "" = c.paths.getD i ""
  fileSet : c'.fileSet = c.fileSet
  queue : c'.queue = c.queue

theorem Keep.refl (c : Collect) : Keep c c := ⟨Nat.le_refl _, fun _ _ => rfl, rfl, rfl⟩
theorem Keep.trans {a b c : Collect} (h1 : Keep a b) (h2 : Keep b c) : Keep a c :=
  ⟨Nat.le_trans h1.size h2.size, fun i hi => (h2.paths i (Nat.lt_of_lt_of_le hi h1.size)).trans (h1.paths i hi),
   h2.fileSet.trans h1.fileSet, h2.queue.trans h1.queue⟩

/-- `assign_or_get_file_id(p)` followed by storing the content of `p` -/
theorem assignSet_T {vfs : List (String × String)} {c : Collect} (h : TInv vfs c) (p : String) :
    TInv vfs { (c.assignOrGetFileId p).2 with
      contents := (c.assignOrGetFileId p).2.contents.set! (c.assignOrGetFileId p).1 ((readV vfs p).getD "") } ∧
    (c.assignOrGetFileId p).1 < (c.assignOrGetFileId p).2.paths.size ∧ Keep c (c.assignOrGetFileId p).2 := by
  unfold Collect.assignOrGetFileId
  split
  · rename_i id hid
    obtain ⟨hlt, hp, _⟩ := Array.findIdx?_eq_some_iff_getElem.mp hid
    have hpe : PEq (c.paths.getD id "") p := by
      have : c.paths.getD id "" = c.paths[id] := by simp [Array.getD_eq_getD_getElem?, hlt]
      rw [this]; exact pathEq_iff.mp hp
    refine ⟨⟨h.hv, by simp [h.csz], h.queue, h.fileSet, h.nodup, h.inj, ?_⟩, hlt, Keep.refl c⟩
    intro i hi
    simp only
    by_cases hid' : id = i
    · subst hid'
      rw [getD_set_eq (by rw [h.csz]; exact hlt), readV_congr vfs hpe]
    · rw [getD_set_ne hid']; exact h.cont i hi
  · rename_i hnone
    have hno : ∀ i, i < c.paths.size → ¬ PEq (c.paths.getD i "") p := by
      intro i hi hpe
      have := Array.findIdx?_eq_none_iff.mp hnone c.paths[i] (Array.getElem_mem hi)
      have hg : c.paths.getD i "" = c.paths[i] := by simp [Array.getD_eq_getD_getElem?, hi]
      rw [hg] at hpe
      rw [pathEq_iff.mpr hpe] at this
      cases this
    refine ⟨⟨h.hv, by simp [h.csz], ?_, ?_, h.nodup, ?_, ?_⟩, by simp, ⟨by simp, fun i hi => getD_push_lt hi, rfl, rfl⟩⟩
    · intro f hf; have := h.queue f hf; simp only [Array.size_push]; omega
    · intro f hf; have := h.fileSet f hf; simp only [Array.size_push]; omega
    · intro i j hi hj hpe
      simp only [Array.size_push] at hi hj
      rcases Nat.lt_succ_iff_lt_or_eq.mp hi with hi | hi <;> rcases Nat.lt_succ_iff_lt_or_eq.mp hj with hj | hj
      · rw [getD_push_lt hi, getD_push_lt hj] at hpe; exact h.inj i j hi hj hpe
      · subst hj; rw [getD_push_lt hi, getD_push_eq] at hpe; exact absurd hpe (hno i hi)
      · subst hi; rw [getD_push_eq, getD_push_lt hj] at hpe; exact absurd hpe.symm (hno j hj)
      · omega
    · intro i hi
      simp only [Array.size_push] at hi
      simp only
      rcases Nat.lt_succ_iff_lt_or_eq.mp hi with hi | hi
      · rw [getD_set_ne (by omega), getD_push_lt (by rw [h.csz]; exact hi), getD_push_lt hi]
        exact h.cont i hi
      · subst hi
        rw [getD_set_eq (by simp [h.csz]), getD_push_eq]

theorem TInv.contents_eq {vfs : List (String × String)} {c : Collect} (h : TInv vfs c) (x : Array String)
    (hx : x = c.contents) : TInv vfs { c with contents := x } := by subst hx; exact h

/-- `resolve_include_file` -/
theorem resolveIncludeFile_T {vfs : List (String × String)} (includePath : String) :
    ∀ (dirs : List String) {c : Collect}, TInv vfs c →
    TInv vfs (c.resolveIncludeFile includePath dirs).2 ∧ Keep c (c.resolveIncludeFile includePath dirs).2 ∧
    ∀ id, (c.resolveIncludeFile includePath dirs).1 = some id →
      id < (c.resolveIncludeFile includePath dirs).2.paths.size
  | [], c, h => by
    simp only [Collect.resolveIncludeFile]
    exact ⟨h, Keep.refl c, by intro _ hh; cases hh⟩
  | dir :: dirs, c, h => by
    simp only [Collect.resolveIncludeFile]
    split
    · rename_i content hcontent
      have hc : content = (readV vfs (Path.join dir includePath)).getD "" := by
        rw [readContent_eq, h.hv] at hcontent
        rw [hcontent]; rfl
      obtain ⟨h1, h2, h3⟩ := assignSet_T h (Path.join dir includePath)
      rw [← hc] at h1
      generalize c.assignOrGetFileId (Path.join dir includePath) = res at h1 h2 h3
      obtain ⟨id, c'⟩ := res
      simp only at h1 h2 h3 ⊢
      exact ⟨h1, ⟨h3.size, h3.paths, h3.fileSet, h3.queue⟩, by intro id' hid'; cases hid'; exact h2⟩
    · exact resolveIncludeFile_T includePath dirs h

/-- resolving the includes of one file: at most one queue entry per include -/
theorem resolveIncludes_T {vfs : List (String × String)} (dirs : List String)
    (g : Collect × List ((Nat × Nat) × Nat) → (Nat × Nat) × String → Collect × List ((Nat × Nat) × Nat))
    (hg : ∀ st inc,
      (∃ id c', st.1.resolveIncludeFile inc.2 dirs = (some id, c') ∧
        g st inc = ({ c' with queue := c'.queue ++ [id] }, st.2 ++ [(inc.1, id)])) ∨
      (∃ c', st.1.resolveIncludeFile inc.2 dirs = (none, c') ∧ g st inc = (c', st.2))) :
    ∀ (incs : List ((Nat × Nat) × String)) (st : Collect × List ((Nat × Nat) × Nat)), TInv vfs st.1 →
    TInv vfs (incs.foldl g st).1 ∧ (incs.foldl g st).1.queue.length ≤ st.1.queue.length + incs.length ∧
    st.1.paths.size ≤ (incs.foldl g st).1.paths.size ∧
    (∀ i, i < st.1.paths.size → (incs.foldl g st).1.paths.getD i "" = st.1.paths.getD i "") ∧
    (incs.foldl g st).1.fileSet = st.1.fileSet
  | [], st, h => ⟨h, by simp, Nat.le_refl _, fun _ _ => rfl, rfl⟩
  | inc :: incs, st, h => by
    simp only [List.foldl_cons]
    obtain ⟨h1, h2, h3⟩ := resolveIncludeFile_T (vfs := vfs) inc.2 dirs h
    rcases hg st inc with ⟨id, c', hr, hgs⟩ | ⟨c', hr, hgs⟩
    · rw [hr] at h1 h2 h3
      simp only at h1 h2 h3
      rw [hgs]
      have hid := h3 id rfl
      have hc : TInv vfs { c' with queue := c'.queue ++ [id] } := by
        refine ⟨h1.hv, h1.csz, ?_, h1.fileSet, h1.nodup, h1.inj, h1.cont⟩
        intro f hf
        simp only [List.mem_append, List.mem_singleton] at hf
        rcases hf with hf | rfl
        · exact h1.queue f hf
        · exact hid
      obtain ⟨i1, i2, i3, i4, i5⟩ := resolveIncludes_T dirs g hg incs
        ({ c' with queue := c'.queue ++ [id] }, st.2 ++ [(inc.1, id)]) hc
      refine ⟨i1, ?_, Nat.le_trans h2.size i3, fun i hi => (i4 i (Nat.lt_of_lt_of_le hi h2.size)).trans (h2.paths i hi),
        i5.trans h2.fileSet⟩
      simp only [List.length_append, List.length_cons, List.length_nil, h2.queue] at i2 ⊢
      omega
    · rw [hr] at h1 h2 h3
      simp only at h1 h2 h3
      rw [hgs]
      obtain ⟨i1, i2, i3, i4, i5⟩ := resolveIncludes_T dirs g hg incs (c', st.2) h1
      refine ⟨i1, ?_, Nat.le_trans h2.size i3, fun i hi => (i4 i (Nat.lt_of_lt_of_le hi h2.size)).trans (h2.paths i hi),
        i5.trans h2.fileSet⟩
      simp only [List.length_cons, h2.queue] at i2 ⊢
      omega

/-! ### the potential -/

/-- what the collected files have spent -/
def spent (vfs : List (String × String)) (fileSet : Array Nat) (paths : Array String) : Nat :=
  ((fileSet.toList.map fun f => paths.getD f "").map (cost vfs)).sum

theorem spent_le {vfs : List (String × String)} {c : Collect} (h : TInv vfs c) :
    spent vfs c.fileSet c.paths ≤ total vfs := by
  refine cost_sum_le vfs _ ?_
  rw [List.pairwise_map]
  have hnd : c.fileSet.toList.Pairwise (· ≠ ·) := h.nodup
  refine hnd.imp_of_mem ?_
  intro a b ha hb hab hpe
  exact hab (h.inj a b (h.fileSet a ha) (h.fileSet b hb) hpe)

theorem spent_congr {vfs : List (String × String)} {fs : Array Nat} {p p' : Array String}
    (hp : ∀ f ∈ fs.toList, p'.getD f "" = p.getD f "") : spent vfs fs p' = spent vfs fs p := by
  unfold spent
  congr 2
  exact List.map_congr_left hp

theorem spent_push (vfs : List (String × String)) (fs : Array Nat) (p : Array String) (f : Nat) :
    spent vfs (fs.push f) p = spent vfs fs p + cost vfs (p.getD f "") := by
  unfold spent; simp

/-- **the loop of `collect_sources` has enough fuel** -/
theorem collectLoop_total {vfs : List (String × String)} (hparse : ∀ t, ∃ r, parseFile t = .ok r)
    (includeDir : Option String) : ∀ (fuel : Nat) (c : Collect), TInv vfs c →
    c.queue.length + (total vfs - spent vfs c.fileSet c.paths) + 1 ≤ fuel → ∃ c', collectLoop includeDir fuel c = .ok c'
  | 0, _, _, hf => by omega
  | fuel + 1, c, hc, hf => by
    unfold collectLoop
    split
    · exact ⟨c, rfl⟩
    · rename_i fileId queue hq
      have hfid : fileId < c.paths.size := hc.queue fileId (by rw [hq]; simp)
      have hqlen : c.queue.length = queue.length + 1 := by rw [hq]; simp
      have hc1 : TInv vfs { c with queue := queue } :=
        ⟨hc.hv, hc.csz, fun f hf => hc.queue f (by rw [hq]; simp [hf]), hc.fileSet, hc.nodup, hc.inj, hc.cont⟩
      simp only
      split
      · refine collectLoop_total hparse includeDir fuel { c with queue := queue } hc1 ?_
        show queue.length + (total vfs - spent vfs c.fileSet c.paths) + 1 ≤ fuel
        omega
      · rename_i hnot
        have hnotin : fileId ∉ c.fileSet.toList := by
          intro hm
          apply hnot
          simp only [Array.contains_eq_mem, decide_eq_true_eq]
          exact Array.mem_toList_iff.mp hm
        obtain ⟨⟨tree, errors⟩, hp⟩ := hparse (c.contents.getD fileId "")
        rw [hp]
        dsimp only
        have hincs := parseFile_includes hp
        have hc2 : TInv vfs { c with queue := queue, fileSet := c.fileSet.push fileId } := by
          refine ⟨hc.hv, hc.csz, hc1.queue, ?_, ?_, hc.inj, hc.cont⟩
          · intro f hf
            simp only [Array.toList_push, List.mem_append, List.mem_singleton] at hf
            rcases hf with hf | rfl
            · exact hc.fileSet f hf
            · exact hfid
          · simp only [Array.toList_push]
            exact List.nodup_append.mpr ⟨hc.nodup, by simp, by
              intro a ha b hb
              simp only [List.mem_singleton] at hb
              subst hb
              intro hab; subst hab; exact hnotin ha⟩
        -- the new file pays for its includes
        have hcost : (listIncludes tree).length ≤ cost vfs (c.paths.getD fileId "") := by
          have hcont := hc.cont fileId hfid
          unfold cost
          cases hr : readV vfs (c.paths.getD fileId "") with
          | none =>
            rw [hr] at hcont
            simp only [Option.getD_none] at hcont
            rw [hcont] at hincs
            simpa using hincs
          | some t =>
            rw [hr] at hcont
            simp only [Option.getD_some] at hcont
            rw [hcont, String.length_toList] at hincs
            simp only
            omega
        have hspent2 := spent_push vfs c.fileSet c.paths fileId
        have hle := spent_le hc2
        rw [show ({ c with queue := queue, fileSet := c.fileSet.push fileId } : Collect).fileSet = c.fileSet.push fileId from rfl,
          show ({ c with queue := queue, fileSet := c.fileSet.push fileId } : Collect).paths = c.paths from rfl, hspent2] at hle
        exact (fun hres =>
            collectLoop_total hparse includeDir fuel _
              ⟨hres.1.hv, hres.1.csz, hres.1.queue, hres.1.fileSet, hres.1.nodup, hres.1.inj, hres.1.cont⟩
              (by
                have i2 := hres.2.1
                have i5 := hres.2.2.2.2
                have hsp := spent_congr (vfs := vfs) (fs := c.fileSet.push fileId)
                  (fun f hf => hres.2.2.2.1 f (hc2.fileSet f hf))
                simp only at i2 i5 hsp ⊢
                rw [i5, hsp, hspent2]
                omega))
          (resolveIncludes_T (vfs := vfs) _ _
            (by
              intro st inc
              generalize st.1.resolveIncludeFile inc.2 _ = res
              obtain ⟨o, c''⟩ := res
              cases o with
              | some id => exact Or.inl ⟨id, c'', rfl, rfl⟩
              | none => exact Or.inr ⟨c'', rfl, rfl⟩)
            (listIncludes tree) ({ c with queue := queue, fileSet := c.fileSet.push fileId }, []) hc2)

/-- **`buildWorkspace` always succeeds**, provided `parseFile` does -/
theorem buildWorkspace_total_of (hparse : ∀ t, ∃ r, parseFile t = .ok r) (vfs : List (String × String))
    (rootPath : String) (includeDir : Option String) : ∃ ws, buildWorkspace vfs rootPath includeDir = .ok ws := by
  unfold buildWorkspace
  simp only
  have h0 : TInv vfs ({ vfs := vfs } : Collect) := by
    refine ⟨rfl, rfl, ?_, ?_, ?_, ?_, ?_⟩
    · intro f hf; cases hf
    · intro f hf; simp at hf
    · simp
    · intro i j hi; simp at hi
    · intro i hi; simp at hi
  obtain ⟨h1, hr1, hk⟩ := assignSet_T h0 rootPath
  have hfs : (({ vfs := vfs } : Collect).assignOrGetFileId rootPath).2.fileSet = #[] := hk.fileSet
  have hrc : ∀ c : Collect, c.vfs = vfs → (c.readContent rootPath).getD "" = (readV vfs rootPath).getD "" := by
    intro c hc; rw [readContent_eq, hc]
  have hvfs1 : (({ vfs := vfs } : Collect).assignOrGetFileId rootPath).2.vfs = vfs := by
    unfold Collect.assignOrGetFileId; split <;> rfl
  generalize ({ vfs := vfs } : Collect).assignOrGetFileId rootPath = res at h1 hr1 hfs hvfs1
  obtain ⟨root, c1⟩ := res
  simp only at h1 hr1 hfs hvfs1 ⊢
  rw [hrc c1 hvfs1]
  have hc1 : TInv vfs ({ c1 with contents := c1.contents.set! root ((readV vfs rootPath).getD ""), queue := [root] } : Collect) := by
    refine ⟨h1.hv, h1.csz, ?_, h1.fileSet, h1.nodup, h1.inj, h1.cont⟩
    intro f hf
    simp only [List.mem_singleton] at hf
    subst hf
    exact hr1
  have hsp : spent vfs c1.fileSet c1.paths = 0 := by
    unfold spent; simp [hfs]
  obtain ⟨c, hc⟩ := collectLoop_total hparse includeDir (vfs.foldl (fun n e => n + e.2.length + 1) 16) _ hc1 (by
    show 1 + (total vfs - spent vfs c1.fileSet c1.paths) + 1 ≤ _
    rw [fuel_eq, hsp]; omega)
  rw [hc]
  exact ⟨_, rfl⟩

end Ide
end Tg
