/-
The fifth core of `core_no_diagnostics_partial` (`Props/C13.lean`): `defvar` at top level and in the bodies of
classes and defs, with uses of the variables.
-/
import TgModel.Lemmas.IdeSemCoreT
namespace Tg
namespace Ide
open Index

/-- the type of a value that is a literal or one identifier in `scope` -/
def coreValTy (scope : Env) (v : PTree) : Option Ty :=
  match litValueType v with
  | some lt => some lt
  | none =>
    match identValueNode v with
    | some id =>
      match Ast.identifierValue id, Ast.identifierRange id with
      | some nm, some _ => scope.get nm
      | _, _ => none
    | none => none

/-- `defvar x = v;`: the name and the type of the variable -/
def coreDefvar5 (scope : Env) (n : PTree) : Option (String × Ty) :=
  match Ast.defvarName n, Ast.defvarValue n with
  | some nameNode, some v =>
    match Ast.identifierValue nameNode, Ast.identifierRange nameNode with
    | some name, some _ => (coreValTy scope v).map fun t => (name, t)
    | _, _ => none
  | _, _ => none

theorem lit_isPrim (v : PTree) (lt : Ty) (h : litValueType v = some lt) : isPrimTy lt = true := by
  rcases litValueType_cases v lt h with rfl | rfl | rfl | rfl | rfl <;> rfl

/-- `scopes.add_variable` when the innermost scope is `sc` (not a defset scope) -/
theorem scopesAddVariable_run_top (v : Variable) (c : IndexCtx) (sc : Scope) (outer : List Scope)
    (hs : c.scopes.scopes = sc :: outer) (hk : Scopes.isDefsetKind sc.kind = false) :
    (scopesAddVariable v).run c = .ok ((),
      { c with symbolMap := (c.symbolMap.addVariable v).2,
               scopes := { scopes := { sc with nameToVariable := sc.nameToVariable.insert v.name c.symbolMap.variableList.size } :: outer } }) := by
  unfold scopesAddVariable addVariable modifySM
  simp only [StateT.run_bind, IxM.run_modifyGet, Except.ok_bind]
  have : c.scopes.insertVariable v.name (c.symbolMap.addVariable v).1 =
      some { scopes := { sc with nameToVariable := sc.nameToVariable.insert v.name c.symbolMap.variableList.size } :: outer } := by
    unfold Scopes.insertVariable
    rw [hs]
    simp only [Scopes.insertVariableGo, hk, Bool.false_eq_true, if_false, Option.map_some]
    rfl
  simp only [this]
  rfl

theorem addVariable_tab (sm : SymMap) (v : Variable) :
    (sm.addVariable v).2.recordList = sm.recordList ∧ (sm.addVariable v).2.recordFieldList = sm.recordFieldList ∧
    (sm.addVariable v).2.templateArgList = sm.templateArgList ∧ (sm.addVariable v).2.nameToClass = sm.nameToClass ∧
    (sm.addVariable v).2.variableList = sm.variableList.push v := by
  refine ⟨?_, ?_, ?_, ?_, ?_⟩ <;> simp [SymMap.addVariable, SymMap.logDefine]

/-- a symbol map that differs only in the variables (and the logs) -/
theorem KInv.sameTables {cenv : CEnv} {B : Nat} {sm sm' : SymMap} (h : KInv cenv B sm)
    (e1 : sm'.recordList = sm.recordList) (e2 : sm'.recordFieldList = sm.recordFieldList)
    (e3 : sm'.templateArgList = sm.templateArgList) (e4 : sm'.nameToClass = sm.nameToClass) : KInv cenv B sm' := by
  have hrec : ∀ i, sm'.record i = sm.record i := fun i => by unfold SymMap.record; rw [e1]
  refine h.transport (by rw [e1]; exact Nat.le_refl _) ?_ (fun i _ => hrec i) (by rw [e2]; exact Nat.le_refl _)
    (fun i _ => by unfold SymMap.recordField; rw [e2]) (by rw [e3]; exact Nat.le_refl _)
    (fun i _ => by unfold SymMap.templateArg; rw [e3]) (fun _ _ _ => by rw [e4])
  rw [e1]
  exact h.older.transport fun i _ => hrec i

/-- a `defvar` in the body: the new variable shadows what was in scope under its name -/
theorem PInv.addVar {cenv : CEnv} {N : Std.HashMap String Nat} {rid : Nat} {ps : Params} {bv gv : Env} {outer : List Scope} {xt : XTab} {dt : DTabs}
    {env : Env} {c c' : IndexCtx} (h : PInv cenv N rid ps bv gv outer xt dt env c) (v : Variable) (hp : isCoreTy v.typ = true)
    (hrun : (scopesAddVariable v).run c = .ok ((), c')) :
    c'.diagnostics = c.diagnostics ∧ PInv cenv N rid ps ((v.name, v.typ) :: bv) gv outer xt dt env c' := by
  obtain ⟨sc, hs, hk, hv, ho⟩ := h.top
  have hkd : Scopes.isDefsetKind sc.kind = false := by rw [hk]; rfl
  rw [scopesAddVariable_run_top v c sc outer hs hkd] at hrun
  cases hrun
  obtain ⟨e1, e2, e3, e4, e5⟩ := addVariable_tab c.symbolMap v
  have hrec : ∀ i, (c.symbolMap.addVariable v).2.record i = c.symbolMap.record i := fun i => by
    unfold SymMap.record; rw [e1]
  have hkeep : ∀ (i : Nat) x, c.symbolMap.variableList[i]? = some x → (c.symbolMap.addVariable v).2.variableList[i]? = some x := by
    intro i x hx
    rw [e5]
    exact getElem?_push_of_some _ _ _ _ hx
  refine ⟨rfl, ⟨h.k.sameTables e1 e2 e3 e4, ?_, by show _ = (c.symbolMap.addVariable v).2.recordList.size; rw [e1]; exact h.newest,
    ?_, ?_, h.trace, by show (c.symbolMap.addVariable v).2.nameToClass = N; rw [e4]; exact h.ntc,
    h.x.mono (Nat.le_refl _) (fun _ _ _ => by show (c.symbolMap.addVariable v).2.nameToClass[_]? = _; rw [e4]),
    h.d.transport h.older1 (fun i _ => by rw [hrec i]) (fun i _ => by rw [hrec i])
      (fun _ _ _ => by show (c.symbolMap.addVariable v).2.nameToDef[_]? = _; simp [SymMap.addVariable, SymMap.logDefine])⟩⟩
  · refine ⟨_, rfl, hk, ?_, ho.mono hkeep⟩
    intro name
    rw [Env.get_cons]
    by_cases hn : name = v.name
    · rw [if_pos hn]
      refine ⟨hp, c.symbolMap.variableList.size, v, ?_, ?_, rfl⟩
      · simp [hn]
      · show (c.symbolMap.addVariable v).2.variableList[c.symbolMap.variableList.size]? = some v
        rw [e5]; simp
    · rw [if_neg hn]
      have hne : (v.name == name) = false := by simpa using fun e => hn e.symm
      have := hv name
      cases hg : bv.get name with
      | none =>
        rw [hg] at this
        simp only [Std.HashMap.getElem?_insert, hne]
        exact this
      | some t =>
        rw [hg] at this
        obtain ⟨hpt, vid, w, h1, h2, h3⟩ := this
        refine ⟨hpt, vid, w, ?_, hkeep _ _ h2, h3⟩
        simp only [Std.HashMap.getElem?_insert, hne]
        exact h1
  · exact h.exact.transport (rid + 1) (Nat.lt_succ_self _) (fun i hi => h.k.older i (by have := h.newest; omega))
      (fun i _ => hrec i) (by show _ ≤ (c.symbolMap.addVariable v).2.recordFieldList.size; rw [e2]; exact Nat.le_refl _)
      (fun i _ => by show (c.symbolMap.addVariable v).2.recordField i = _; unfold SymMap.recordField; rw [e2])
  · exact h.tas.transport (sm' := (c.symbolMap.addVariable v).2) (by rw [hrec]) (by rw [e3]; exact Nat.le_refl _)
      (fun i _ => by unfold SymMap.templateArg; rw [e3])

section core5
variable (k : Nat)

/-- the value of a `defvar`: a literal or an identifier in scope; its type is the one `coreValTy` computes -/
theorem value5_run (cenv : CEnv) (N : Std.HashMap String Nat) (rid : Nat) (ps : Params) (bv gv : Env) (outer : List Scope) (xt : XTab) (dt : DTabs)
    (env : Env) (t : Ty) (v : PTree) (c : IndexCtx) (hinv : PInv cenv N rid ps bv gv outer xt dt env c)
    (hty : coreValTy (bv ++ (env ++ (ps.env ++ gv))) v = some t) :
    isCoreTy t = true ∧ ∃ c1, ((mkRec (k + 1)).value v).run c = .ok (some t, c1) ∧ c1.diagnostics = c.diagnostics ∧
      PInv cenv N rid ps bv gv outer xt dt env c1 := by
  obtain ⟨f, rest, hft⟩ : ∃ f rest, c.fileTrace = f :: rest := by
    cases hc : c.fileTrace with
    | nil => exact absurd hc hinv.trace
    | cons f rest => exact ⟨f, rest, rfl⟩
  unfold coreValTy at hty
  cases hlt : litValueType v with
  | some lt =>
    rw [hlt] at hty
    cases hty
    exact ⟨isCoreTy_of_prim (lit_isPrim v t hlt), c, indexValue_lit _ v t hlt _, rfl, hinv⟩
  | none =>
    rw [hlt] at hty
    simp only at hty
    cases hidv : identValueNode v with
    | none => rw [hidv] at hty; cases hty
    | some id =>
      rw [hidv] at hty
      simp only at hty
      cases hv1 : Ast.identifierValue id with
      | none => rw [hv1] at hty; cases hty
      | some vname =>
      cases hv2 : Ast.identifierRange id with
      | none => rw [hv1, hv2] at hty; cases hty
      | some vse =>
      rw [hv1, hv2] at hty
      simp only at hty
      have hg := hty
      have hidn := identOf_of f id vname vse hv1 hv2
      rw [Env.get_append] at hg
      cases hgb : Env.get bv vname with
      | some t' =>
        rw [hgb] at hg
        cases hg
        obtain ⟨hpt, vid, hfl, hft'⟩ := hinv.findLocalVar vname t hgb
        have hvrun : ((mkRec (k + 1)).value v).run c = _ :=
          (indexValue_ident (mkRec k) v id hidv _).trans
            (indexIdentifierValue_var id _ f rest hft vname ⟨f, vse.1, vse.2⟩ hidn vid hfl)
        rw [hft'] at hvrun
        exact ⟨hpt, _, hvrun, rfl, hinv.addReference _ _⟩
      | none =>
      rw [hgb] at hg
      simp only at hg
      rw [Env.get_append] at hg
      cases hge : Env.get env vname with
      | some t' =>
        rw [hge] at hg
        cases hg
        obtain ⟨hpt, fid, _, hfl, hft'⟩ := hinv.findLocal vname t hgb hge
        have hvrun : ((mkRec (k + 1)).value v).run c = _ :=
          (indexValue_ident (mkRec k) v id hidv _).trans
            (indexIdentifierValue_field id _ f rest hft vname ⟨f, vse.1, vse.2⟩ hidn fid hfl)
        rw [hft'] at hvrun
        exact ⟨hpt, _, hvrun, rfl, hinv.addReference _ _⟩
      | none =>
      rw [hge] at hg
      simp only at hg
      rw [Env.get_append] at hg
      cases hgp : Env.get ps.env vname with
      | some t' =>
        rw [hgp] at hg
        cases hg
        obtain ⟨hpt, tid, hfl, hft'⟩ := hinv.findLocalTA vname t hgb hge hgp
        have hvrun : ((mkRec (k + 1)).value v).run c = _ :=
          (indexValue_ident (mkRec k) v id hidv _).trans
            (indexIdentifierValue_ta id _ f rest hft vname ⟨f, vse.1, vse.2⟩ hidn tid hfl)
        rw [hft'] at hvrun
        exact ⟨hpt, _, hvrun, rfl, hinv.addReference _ _⟩
      | none =>
        rw [hgp] at hg
        simp only at hg
        obtain ⟨hpt, vid, hfl, hft'⟩ := hinv.findLocalOuter vname t hgb hge hgp hg
        have hvrun : ((mkRec (k + 1)).value v).run c = _ :=
          (indexValue_ident (mkRec k) v id hidv _).trans
            (indexIdentifierValue_var id _ f rest hft vname ⟨f, vse.1, vse.2⟩ hidn vid hfl)
        rw [hft'] at hvrun
        exact ⟨hpt, _, hvrun, rfl, hinv.addReference _ _⟩

/-- `defvar x = v;` in a record body -/
theorem defvar5_step (cenv : CEnv) (N : Std.HashMap String Nat) (n : PTree) (rid : Nat) (ps : Params) (bv gv : Env)
    (outer : List Scope) (xt : XTab) (dt : DTabs) (env : Env) (name : String) (t : Ty) (c c' : IndexCtx) (hinv : PInv cenv N rid ps bv gv outer xt dt env c)
    (hchk : coreDefvar5 (bv ++ (env ++ (ps.env ++ gv))) n = some (name, t))
    (hrun : (indexDefvar (mkRec (k + 1)) n).run c = .ok ((), c')) :
    c'.diagnostics = c.diagnostics ∧ PInv cenv N rid ps ((name, t) :: bv) gv outer xt dt env c' := by
  obtain ⟨f, rest, hft⟩ : ∃ f rest, c.fileTrace = f :: rest := by
    cases hc : c.fileTrace with
    | nil => exact absurd hc hinv.trace
    | cons f rest => exact ⟨f, rest, rfl⟩
  unfold coreDefvar5 at hchk
  cases hnn : Ast.defvarName n with
  | none => rw [hnn] at hchk; cases hchk
  | some nameNode =>
  cases hvv : Ast.defvarValue n with
  | none => rw [hnn, hvv] at hchk; cases hchk
  | some v =>
  rw [hnn, hvv] at hchk
  simp only at hchk
  cases hiv : Ast.identifierValue nameNode with
  | none => rw [hiv] at hchk; cases hchk
  | some nm =>
  cases hir : Ast.identifierRange nameNode with
  | none => rw [hiv, hir] at hchk; cases hchk
  | some se =>
  rw [hiv, hir] at hchk
  simp only at hchk
  cases hty : coreValTy (bv ++ (env ++ (ps.env ++ gv))) v with
  | none => rw [hty] at hchk; cases hchk
  | some t0 =>
  rw [hty] at hchk
  cases hchk
  obtain ⟨hpt, c1, hvr, hd1, hinv1⟩ := value5_run k cenv N rid ps bv gv outer xt dt env t v c hinv hty
  have hid := identOf_of f nameNode name se hiv hir
  unfold indexDefvar at hrun
  simp only [StateT.run_bind, hnn, utilsIdentifier_runOf nameNode c f rest hft, hid, Except.ok_bind, hvv, hvr,
    Option.getD_some] at hrun
  obtain ⟨hd2, hinv2⟩ := hinv1.addVar { name := name, typ := t, kind := .defvar, defineLoc := ⟨f, se.1, se.2⟩ } hpt hrun
  exact ⟨hd2.trans hd1, hinv2⟩

/-- the items of a body of the fifth core: field definitions, field lets and `defvar`s; the variables and the fields
in scope afterwards -/
def coreItems5 (tyOf : PTree → Option Ty) (lists : Bool) (initX : Env → Ty → PTree → Bool) (back : Env) : Env → Env → List PTree → Option (Env × Env)
  | bv, env, [] => some (bv, env)
  | bv, env, it :: rest =>
    if it.kind == .FieldDef then
      match coreFieldDefG tyOf lists initX bv env back it with
      | some env' => coreItems5 tyOf lists initX back bv env' rest
      | none => none
    else if it.kind == .FieldLet then
      if coreFieldLetG lists initX bv env back it then coreItems5 tyOf lists initX back bv env rest else none
    else if it.kind == .Defvar then
      match coreDefvar5 (bv ++ (env ++ back)) it with
      | some p => coreItems5 tyOf lists initX back (p :: bv) env rest
      | none => none
    else none

theorem items5_step (tyOf : PTree → Option Ty) (lists : Bool) (hk : lists = true → 0 < k) (initX : Env → Ty → PTree → Bool) (cenv : CEnv) (N : Std.HashMap String Nat) (items : List PTree) (rid : Nat) (ps : Params) (gv : Env)
    (outer : List Scope) (xt : XTab) (dt : DTabs) (bv env bv' env' : Env) (c c' : IndexCtx) (u : PUnit)
    (htyO : TyOracle k tyOf cenv N rid ps gv outer xt dt) (hX : InitOracle k initX cenv N rid ps gv outer xt dt)
    (hinv : PInv cenv N rid ps bv gv outer xt dt env c) (hchk : coreItems5 tyOf lists initX (ps.env ++ gv) bv env items = some (bv', env'))
    (hrun : (forIn items PUnit.unit fun item _ => do
        indexBodyItem (mkRec (k + 1)) item
        pure (ForInStep.yield PUnit.unit)).run c = .ok (u, c')) :
    c'.diagnostics = c.diagnostics ∧ PInv cenv N rid ps bv' gv outer xt dt env' c' := by
  induction items generalizing bv env c with
  | nil =>
    simp only [List.forIn_nil, StateT.run_pure] at hrun
    cases hrun; cases hchk; exact ⟨rfl, hinv⟩
  | cons it rest ih =>
    unfold coreItems5 at hchk
    rw [List.forIn_cons] at hrun
    obtain ⟨st, c1, h1, hrun⟩ := IxM.run_bind_ok hrun
    obtain ⟨_, c1', j1, j2⟩ := IxM.run_bind_ok h1
    simp only [StateT.run_pure] at j2
    cases j2
    by_cases hk1 : it.kind = .FieldDef
    · simp only [hk1, beq_self_eq_true, if_true] at hchk
      cases hfd : coreFieldDefG tyOf lists initX bv env (ps.env ++ gv) it with
      | none => rw [hfd] at hchk; cases hchk
      | some env1 =>
        rw [hfd] at hchk
        have j1' : (indexFieldDef (mkRec (k + 1)) it).run c = .ok ((), c1) := by
          unfold indexBodyItem at j1
          simp only [hk1] at j1
          exact j1
        obtain ⟨hd1, hinv1⟩ := fieldDefG_step k tyOf lists hk initX cenv N it rid ps bv gv outer xt dt env env1 c c1 hinv htyO hX hfd j1'
        obtain ⟨hd2, r⟩ := ih bv env1 c1 hinv1 hchk hrun
        exact ⟨hd2.trans hd1, r⟩
    · have hb1 : (it.kind == SyntaxKind.FieldDef) = false := by simpa using hk1
      simp only [hb1, Bool.false_eq_true, if_false] at hchk
      by_cases hk2 : it.kind = .FieldLet
      · simp only [hk2, beq_self_eq_true, if_true] at hchk
        by_cases hl : coreFieldLetG lists initX bv env (ps.env ++ gv) it = true
        · simp only [hl, if_true] at hchk
          have j1' : (indexFieldLet (mkRec (k + 1)) it).run c = .ok ((), c1) := by
            unfold indexBodyItem at j1
            simp only [hk2] at j1
            exact j1
          obtain ⟨hd1, hinv1⟩ := fieldLetG_step k lists hk initX cenv N it rid ps bv gv outer xt dt env c c1 hinv hX hl j1'
          obtain ⟨hd2, r⟩ := ih bv env c1 hinv1 hchk hrun
          exact ⟨hd2.trans hd1, r⟩
        · simp only [hl, Bool.false_eq_true, if_false] at hchk
          cases hchk
      · have hb2 : (it.kind == SyntaxKind.FieldLet) = false := by simpa using hk2
        simp only [hb2, Bool.false_eq_true, if_false] at hchk
        by_cases hk3 : it.kind = .Defvar
        · simp only [hk3, beq_self_eq_true, if_true] at hchk
          cases hdv : coreDefvar5 (bv ++ (env ++ (ps.env ++ gv))) it with
          | none => rw [hdv] at hchk; cases hchk
          | some p =>
            obtain ⟨name, t⟩ := p
            rw [hdv] at hchk
            have j1' : (indexDefvar (mkRec (k + 1)) it).run c = .ok ((), c1) := by
              unfold indexBodyItem at j1
              simp only [hk3] at j1
              exact j1
            obtain ⟨hd1, hinv1⟩ := defvar5_step k cenv N it rid ps bv gv outer xt dt env name t c c1 hinv hdv j1'
            obtain ⟨hd2, r⟩ := ih ((name, t) :: bv) env c1 hinv1 hchk hrun
            exact ⟨hd2.trans hd1, r⟩
        · have hb3 : (it.kind == SyntaxKind.Defvar) = false := by simpa using hk3
          simp only [hb3, Bool.false_eq_true, if_false] at hchk
          cases hchk

/-- a record body of the fifth core -/
def coreRecordBody5 (tyOf : PTree → Option Ty) (lists : Bool) (cenv : CEnv) (back : Env) (rb : PTree) : Option Env :=
  match Ast.recordBodyParentClassList rb with
  | none => some []
  | some pcl =>
    match coreParents4 cenv back [] (Ast.parentClassListClasses pcl) with
    | some env =>
      match Ast.recordBodyBody rb with
      | none => some env
      | some b => (coreItems5 tyOf lists noInitX back [] env (Ast.bodyItems b)).map (·.2)
    | none => none

theorem recordBody5_step (tyOf : PTree → Option Ty) (lists : Bool) (hk : lists = true → 0 < k) (cenv : CEnv) (N : Std.HashMap String Nat) (rb : PTree) (rid : Nat) (ps : Params) (gv : Env)
    (outer : List Scope) (xt : XTab) (dt : DTabs) (env' : Env) (c c' : IndexCtx) (htyO : TyOracle k tyOf cenv N rid ps gv outer xt dt)
    (hinv : PInv cenv N rid ps [] gv outer xt dt [] c)
    (hchk : coreRecordBody5 tyOf lists cenv (ps.env ++ gv) rb = some env')
    (hrun : (indexRecordBody (mkRec (k + 1)) rb).run c = .ok ((), c')) :
    c'.diagnostics = c.diagnostics ∧ ∃ bv, PInv cenv N rid ps bv gv outer xt dt env' c' := by
  unfold coreRecordBody5 at hchk
  unfold indexRecordBody at hrun
  cases hp : Ast.recordBodyParentClassList rb with
  | none => rw [hp] at hrun hchk; cases hrun; cases hchk; exact ⟨rfl, [], hinv⟩
  | some pcl =>
    rw [hp] at hrun hchk
    simp only at hrun hchk
    cases hps : coreParents4 cenv (ps.env ++ gv) [] (Ast.parentClassListClasses pcl) with
    | none => rw [hps] at hchk; cases hchk
    | some env =>
      rw [hps] at hchk
      simp only at hchk
      obtain ⟨_, c1, h1, hrun⟩ := IxM.run_bind_ok hrun
      obtain ⟨hd1, hinv1⟩ := parents4_step k cenv N pcl rid ps gv outer xt dt [] env c c1 hinv hps h1
      cases hb : Ast.recordBodyBody rb with
      | none => rw [hb] at hrun hchk; cases hrun; cases hchk; exact ⟨hd1, [], hinv1⟩
      | some b =>
        rw [hb] at hrun hchk
        simp only at hrun hchk
        cases hit : coreItems5 tyOf lists noInitX (ps.env ++ gv) [] env (Ast.bodyItems b) with
        | none => rw [hit] at hchk; cases hchk
        | some p =>
          obtain ⟨bv', env2⟩ := p
          rw [hit] at hchk
          cases hchk
          unfold indexBody at hrun
          obtain ⟨u, c2, h2, h3⟩ := IxM.run_bind_ok hrun
          simp only [StateT.run_pure] at h3
          cases h3
          obtain ⟨hd2, hinv2⟩ := items5_step k tyOf lists hk noInitX cenv N _ rid ps gv outer xt dt [] env bv' env2 c1 c' u htyO (noInitX_oracle k cenv N rid ps gv outer xt dt) hinv1 hit h2
          exact ⟨hd2.trans hd1, bv', hinv2⟩


/-! ### between the statements: the class table and the variables of the root scope -/

/-- between two statements of the fifth core: the class table, and a scope stack that consists of the root
scope with exactly the variables `gv` -/
structure TabInv5 (cenv : CEnv) (gv : Env) (c : IndexCtx) : Prop where
  tab : TabInv cenv c
  root : ∃ root, c.scopes.scopes = [root] ∧ root.kind = .root ∧ VarsOK c.symbolMap root gv

theorem OuterOK.ofRoot {sm : SymMap} {root : Scope} {gv : Env} (hk : root.kind = .root) (hv : VarsOK sm root gv) :
    OuterOK sm [root] gv := by
  intro name t hg
  have := hv name
  rw [hg] at this
  obtain ⟨hp, vid, v, h1, h2, h3⟩ := this
  refine ⟨hp, vid, v, fun sm' => ?_, h2, h3⟩
  simp only [List.findSome?_cons, List.findSome?_nil]
  have : scopeLookup sm' name root = some (.var vid) := by
    unfold scopeLookup Scope.findVariable
    simp [h1]
  rw [this]

theorem TabInv5.outer {cenv : CEnv} {gv : Env} {c : IndexCtx} (h : TabInv5 cenv gv c) :
    OuterOK c.symbolMap c.scopes.scopes gv := by
  obtain ⟨root, hs, hk, hv⟩ := h.root
  rw [hs]
  exact OuterOK.ofRoot hk hv

/-- after a statement that restores the scope stack and only appends to the typed arenas -/
theorem TabInv5.after {cenv cenv' : CEnv} {gv : Env} {c c' : IndexCtx} (h : TabInv5 cenv gv c) (ht : TabInv cenv' c')
    (hs : c'.scopes.scopes = c.scopes.scopes) (hk : ArenaKeep c.symbolMap c'.symbolMap) : TabInv5 cenv' gv c' := by
  obtain ⟨root, hr, hkr, hv⟩ := h.root
  exact ⟨ht, root, by rw [hs]; exact hr, hkr, hv.mono hk.2.2⟩

theorem coreValTy_top_run (cenv : CEnv) (gv : Env) (t : Ty) (v : PTree) (c : IndexCtx) (h : TabInv5 cenv gv c)
    (hty : coreValTy gv v = some t) :
    isCoreTy t = true ∧ ∃ c1, ((mkRec (k + 1)).value v).run c = .ok (some t, c1) ∧ c1.diagnostics = c.diagnostics ∧
      TabInv5 cenv gv c1 ∧ c1.symbolMap.nameToClass = c.symbolMap.nameToClass ∧
      c1.symbolMap.recordList = c.symbolMap.recordList ∧ c1.symbolMap.nameToDef = c.symbolMap.nameToDef := by
  obtain ⟨f, rest, hft⟩ : ∃ f rest, c.fileTrace = f :: rest := by
    cases hc : c.fileTrace with
    | nil => exact absurd hc h.tab.trace
    | cons f rest => exact ⟨f, rest, rfl⟩
  unfold coreValTy at hty
  cases hlt : litValueType v with
  | some lt =>
    rw [hlt] at hty
    cases hty
    exact ⟨isCoreTy_of_prim (lit_isPrim v t hlt), c, indexValue_lit _ v t hlt _, rfl, h, rfl, rfl, rfl⟩
  | none =>
    rw [hlt] at hty
    simp only at hty
    cases hidv : identValueNode v with
    | none => rw [hidv] at hty; cases hty
    | some id =>
      rw [hidv] at hty
      simp only at hty
      cases hv1 : Ast.identifierValue id with
      | none => rw [hv1] at hty; cases hty
      | some vname =>
      cases hv2 : Ast.identifierRange id with
      | none => rw [hv1, hv2] at hty; cases hty
      | some vse =>
      rw [hv1, hv2] at hty
      simp only at hty
      obtain ⟨hpt, vid, w, h1, h2, h3⟩ := h.outer vname t hty
      have hfl : c.scopes.findLocal c.symbolMap vname = some (.var vid) := by
        rw [findLocal_eq]; exact h1 c.symbolMap
      have hvrun : ((mkRec (k + 1)).value v).run c = _ :=
        (indexValue_ident (mkRec k) v id hidv _).trans
          (indexIdentifierValue_var id _ f rest hft vname ⟨f, vse.1, vse.2⟩ (identOf_of f id vname vse hv1 hv2) vid hfl)
      rw [var_typ_of_getElem? _ _ _ h2, h3] at hvrun
      refine ⟨hpt, _, hvrun, rfl, ?_, rfl, rfl, rfl⟩
      exact h.after (h.tab.same ⟨rfl, rfl, rfl, rfl, rfl, rfl, rfl, rfl⟩) rfl (ArenaKeep.of_eq rfl rfl rfl)

/-- `defvar x = v;` at top level -/
theorem defvarTop5_step (cenv : CEnv) (gv : Env) (n : PTree) (name : String) (t : Ty) (c c' : IndexCtx)
    (h : TabInv5 cenv gv c) (hchk : coreDefvar5 gv n = some (name, t))
    (hrun : (indexDefvar (mkRec (k + 1)) n).run c = .ok ((), c')) :
    c'.diagnostics = c.diagnostics ∧ TabInv5 cenv ((name, t) :: gv) c' ∧
      c'.symbolMap.nameToClass = c.symbolMap.nameToClass ∧ c'.symbolMap.recordList = c.symbolMap.recordList ∧
      c'.symbolMap.nameToDef = c.symbolMap.nameToDef := by
  obtain ⟨f, rest, hft⟩ : ∃ f rest, c.fileTrace = f :: rest := by
    cases hc : c.fileTrace with
    | nil => exact absurd hc h.tab.trace
    | cons f rest => exact ⟨f, rest, rfl⟩
  unfold coreDefvar5 at hchk
  cases hnn : Ast.defvarName n with
  | none => rw [hnn] at hchk; cases hchk
  | some nameNode =>
  cases hvv : Ast.defvarValue n with
  | none => rw [hnn, hvv] at hchk; cases hchk
  | some v =>
  rw [hnn, hvv] at hchk
  simp only at hchk
  cases hiv : Ast.identifierValue nameNode with
  | none => rw [hiv] at hchk; cases hchk
  | some nm =>
  cases hir : Ast.identifierRange nameNode with
  | none => rw [hiv, hir] at hchk; cases hchk
  | some se =>
  rw [hiv, hir] at hchk
  simp only at hchk
  cases hty : coreValTy gv v with
  | none => rw [hty] at hchk; cases hchk
  | some t0 =>
  rw [hty] at hchk
  cases hchk
  obtain ⟨hpt, c1, hvr, hd1, h1, hn1, hr1, hnd1⟩ := coreValTy_top_run k cenv gv t v c h hty
  have hft1 : c1.fileTrace = f :: rest := by
    have := ((mkRec_attr (k + 1)).1 v).run _ _ _ hvr
    rw [this.trace]; exact hft
  have hid := identOf_of f nameNode name se hiv hir
  unfold indexDefvar at hrun
  simp only [StateT.run_bind, hnn, utilsIdentifier_runOf nameNode c f rest hft, hid, Except.ok_bind, hvv, hvr,
    Option.getD_some] at hrun
  obtain ⟨root, hs, hk, hv⟩ := h1.root
  have hkd : Scopes.isDefsetKind root.kind = false := by rw [hk]; rfl
  rw [scopesAddVariable_run_top _ c1 root [] hs hkd] at hrun
  cases hrun
  obtain ⟨e1, e2, e3, e4, e5⟩ := addVariable_tab c1.symbolMap
    { name := name, typ := t, kind := .defvar, defineLoc := ⟨f, se.1, se.2⟩ }
  have hkeep : ∀ (i : Nat) x, c1.symbolMap.variableList[i]? = some x →
      (c1.symbolMap.addVariable { name := name, typ := t, kind := .defvar, defineLoc := ⟨f, se.1, se.2⟩ }).2.variableList[i]? = some x := by
    intro i x hx
    rw [e5]
    exact getElem?_push_of_some _ _ _ _ hx
  have e6 : (c1.symbolMap.addVariable { name := name, typ := t, kind := .defvar, defineLoc := ⟨f, se.1, se.2⟩ }).2.nameToDef =
      c1.symbolMap.nameToDef := by simp [SymMap.addVariable, SymMap.logDefine]
  refine ⟨hd1, ⟨⟨?_, h1.tab.trace⟩, _, rfl, hk, ?_⟩, e4.trans hn1, e1.trans hr1, e6.trans hnd1⟩
  · show KInv cenv (c1.symbolMap.addVariable _).2.recordList.size (c1.symbolMap.addVariable _).2
    rw [e1]
    exact h1.tab.k.sameTables e1 e2 e3 e4
  · intro nm'
    rw [Env.get_cons]
    by_cases hn : nm' = name
    · rw [if_pos hn]
      refine ⟨hpt, c1.symbolMap.variableList.size,
        { name := name, typ := t, kind := .defvar, defineLoc := ⟨f, se.1, se.2⟩ }, ?_, ?_, rfl⟩
      · simp [hn]
      · show (c1.symbolMap.addVariable _).2.variableList[c1.symbolMap.variableList.size]? = some _
        rw [e5]; simp
    · rw [if_neg hn]
      have hne : (name == nm') = false := by simpa using fun e => hn e.symm
      have := hv nm'
      cases hg : gv.get nm' with
      | none =>
        rw [hg] at this
        simp only [Std.HashMap.getElem?_insert, hne]
        exact this
      | some t' =>
        rw [hg] at this
        obtain ⟨hpt', vid, w, j1, j2, j3⟩ := this
        refine ⟨hpt', vid, w, ?_, hkeep _ _ j2, j3⟩
        simp only [Std.HashMap.getElem?_insert, hne]
        exact j1

/-- `class C …` of the fifth core -/
def coreClass5 (lists : Bool) (cenv : CEnv) (gv : Env) (n : PTree) : Option CEnv :=
  coreClassG (fun ce _ ps rb => coreRecordBody5 (coreTypeOf lists) lists ce (ps.env ++ gv) rb) cenv [] n

/-- `def d … { … }` of the fifth core: the record body must be there (a `def` node without one would leave its
scope on the stack) -/
def coreDef5 (lists : Bool) (cenv : CEnv) (gv : Env) (n : PTree) : Bool :=
  match Ast.defRecordBody n with
  | none => false
  | some rb => (coreRecordBody5 (coreTypeOf lists) lists cenv gv rb).isSome

/-- one statement of the fifth core; the class table and the top-level variables afterwards -/
def coreStatement5 (lists : Bool) (cenv : CEnv) (gv : Env) (s : PTree) : Option (CEnv × Env) :=
  if s.kind == .Class then (coreClass5 lists cenv gv s).map fun ce => (ce, gv)
  else if s.kind == .Def then (if coreDef5 lists cenv gv s then some (cenv, gv) else none)
  else if s.kind == .Defvar then (coreDefvar5 gv s).map fun p => (cenv, p :: gv)
  else none

def coreStatements5 (lists : Bool) : CEnv → Env → List PTree → Bool
  | _, _, [] => true
  | cenv, gv, s :: rest =>
    match coreStatement5 lists cenv gv s with
    | some (cenv', gv') => coreStatements5 lists cenv' gv' rest
    | none => false

/-- **the fifth core**: the fourth core with `defvar` - see `coreProgramB` in `Props/C13.lean` for the description -/
def coreStatementList5 (sl : PTree) : Bool := coreStatements5 false [] [] (Ast.statementListStatements sl)

/-- **the sixth core**: the fifth core with `list<T>` fields (`T` primitive) and list literals of literals of one
type as initialisers and `let` values - see `coreProgramB` in `Props/C13.lean` -/
def coreStatementList6 (sl : PTree) : Bool := coreStatements5 true [] [] (Ast.statementListStatements sl)

theorem indexStatement5_step (lists : Bool) (hk : lists = true → 0 < k) (cenv cenv' : CEnv) (gv gv' : Env) (s : PTree) (c c' : IndexCtx) (h : TabInv5 cenv gv c)
    (hchk : coreStatement5 lists cenv gv s = some (cenv', gv'))
    (hrun : (indexStatement (mkRec (k + 1)) s).run c = .ok ((), c')) :
    c'.diagnostics = c.diagnostics ∧ TabInv5 cenv' gv' c' := by
  obtain ⟨tv, tt, tsl, tsf⟩ := mkRec_typRel (k + 1)
  have hkeep : ArenaKeep c.symbolMap c'.symbolMap := (Index.indexStatement_keeps tv tt tsl tsf s).run _ _ _ hrun
  unfold coreStatement5 at hchk
  unfold indexStatement at hrun
  by_cases hk1 : s.kind = .Class
  · simp only [hk1, beq_self_eq_true, if_true] at hchk
    simp only [hk1] at hrun
    cases hc : coreClass5 lists cenv gv s with
    | none => rw [hc] at hchk; cases hchk
    | some ce =>
      rw [hc] at hchk
      cases hchk
      obtain ⟨q, ht, hs, _⟩ := indexClassG_step k _ gv {} (fun _ _ => []) c.scopes.scopes
        (fun cenv1 xt' ps rb env N rid outer c6 c7 _ hinv hrb h7 =>
          recordBody5_step k (coreTypeOf lists) lists hk cenv1 N rb rid ps gv outer xt' {} env c6 c7
            (coreTypeOf_oracle k lists hk cenv1 N rid ps gv outer xt' {}) hinv hrb h7)
        cenv _ [] s c c' h.tab h.outer rfl (XInv.nil _ _) (DInv.nil _ _) rfl hc hrun
      exact ⟨q, h.after ht hs hkeep⟩
  · have hb1 : (s.kind == SyntaxKind.Class) = false := by simpa using hk1
    simp only [hb1, Bool.false_eq_true, if_false] at hchk
    by_cases hk2 : s.kind = .Def
    · simp only [hk2, beq_self_eq_true, if_true] at hchk
      simp only [hk2] at hrun
      by_cases hd : coreDef5 lists cenv gv s = true
      · simp only [hd, if_true] at hchk
        cases hchk
        unfold coreDef5 at hd
        cases hb : Ast.defRecordBody s with
        | none => rw [hb] at hd; cases hd
        | some rb0 =>
          obtain ⟨q, ht, hs, _⟩ := indexDefG_step k cenv (coreRecordBody5 (coreTypeOf lists) lists cenv gv) gv [] {}
            (fun _ => []) c.scopes.scopes
            (fun rb env N rid outer c6 c7 _ hinv hrb h7 =>
              recordBody5_step k (coreTypeOf lists) lists hk cenv N rb rid [] gv outer [] {} env c6 c7
                (coreTypeOf_oracle k lists hk cenv N rid [] gv outer [] {}) hinv hrb h7)
            s c c' h.tab h.outer rfl (XInv.nil _ _) rfl (fun _ _ _ _ _ _ _ _ => DInv.nil _ _)
            (fun rb hrb => by rw [hb] at hd hrb; cases hrb; exact hd) hrun
          exact ⟨q, h.after ht (hs (by rw [hb]; rfl)) hkeep⟩
      · simp only [hd, Bool.false_eq_true, if_false] at hchk
        cases hchk
    · have hb2 : (s.kind == SyntaxKind.Def) = false := by simpa using hk2
      simp only [hb2, Bool.false_eq_true, if_false] at hchk
      by_cases hk3 : s.kind = .Defvar
      · simp only [hk3, beq_self_eq_true, if_true] at hchk
        simp only [hk3] at hrun
        cases hdv : coreDefvar5 gv s with
        | none => rw [hdv] at hchk; cases hchk
        | some p =>
          obtain ⟨name, t⟩ := p
          rw [hdv] at hchk
          cases hchk
          exact ⟨(defvarTop5_step k cenv gv s name t c c' h hdv hrun).1, (defvarTop5_step k cenv gv s name t c c' h hdv hrun).2.1⟩
      · have hb3 : (s.kind == SyntaxKind.Defvar) = false := by simpa using hk3
        simp only [hb3, Bool.false_eq_true, if_false] at hchk
        cases hchk

theorem TabInv5.init (c : IndexCtx) (hsm : c.symbolMap = {}) (hsc : c.scopes = {}) (htr : c.fileTrace ≠ []) :
    TabInv5 [] [] c := by
  refine ⟨TabInv.init c hsm htr, { kind := .root }, by rw [hsc], rfl, ?_⟩
  exact VarsOK.nil _ _ (fun k => by simp)

theorem indexStatementListL_quiet (lists : Bool) (hk : lists = true → 0 < k) (sl : PTree)
    (hchk : coreStatements5 lists [] [] (Ast.statementListStatements sl) = true) (c c' : IndexCtx)
    (hsm : c.symbolMap = {}) (hsc : c.scopes = {}) (htr : c.fileTrace ≠ [])
    (hrun : ((mkRec (k + 2)).statementList sl).run c = .ok ((), c')) :
    c'.diagnostics = c.diagnostics := by
  have hrun' : (indexStatementList (mkRec (k + 1)) sl).run c = .ok ((), c') := hrun
  unfold indexStatementList at hrun'
  obtain ⟨u, c'', hloop, hpure⟩ := IxM.run_bind_ok hrun'
  simp only [StateT.run_pure] at hpure
  cases hpure
  have hT := TabInv5.init c hsm hsc htr
  clear hrun hrun' hsm hsc htr
  generalize Ast.statementListStatements sl = l at hchk hloop
  generalize ([] : CEnv) = cenv at hchk hT
  generalize ([] : Env) = gv at hchk hT
  induction l generalizing c cenv gv with
  | nil =>
    simp only [List.forIn_nil, StateT.run_pure] at hloop
    cases hloop; rfl
  | cons s rest ih =>
    rw [List.forIn_cons] at hloop
    obtain ⟨st, c1, h1, hloop⟩ := IxM.run_bind_ok hloop
    obtain ⟨_, c1', j1, j2⟩ := IxM.run_bind_ok h1
    simp only [StateT.run_pure] at j2
    cases j2
    unfold coreStatements5 at hchk
    cases hs : coreStatement5 lists cenv gv s with
    | none => rw [hs] at hchk; cases hchk
    | some p =>
      obtain ⟨cenv1, gv1⟩ := p
      rw [hs] at hchk
      obtain ⟨q1, hT1⟩ := indexStatement5_step k lists hk cenv cenv1 gv gv1 s c c1 hT hs j1
      have q2 : c'.diagnostics = c1.diagnostics := by
        apply ih <;> first | exact hloop | exact hchk | exact hT1
      exact q2.trans q1

theorem indexStatementList5_quiet (sl : PTree) (hchk : coreStatementList5 sl = true) (c c' : IndexCtx)
    (hsm : c.symbolMap = {}) (hsc : c.scopes = {}) (htr : c.fileTrace ≠ [])
    (hrun : ((mkRec (k + 2)).statementList sl).run c = .ok ((), c')) :
    c'.diagnostics = c.diagnostics :=
  indexStatementListL_quiet k false (fun h => nomatch h) sl hchk c c' hsm hsc htr hrun

end core5

/-- the sixth core needs one more level of fuel (the elements of a list literal and the element type of `list<T>` are
indexed one level deeper) -/
theorem indexStatementList6_quiet (k : Nat) (sl : PTree) (hchk : coreStatementList6 sl = true) (c c' : IndexCtx)
    (hsm : c.symbolMap = {}) (hsc : c.scopes = {}) (htr : c.fileTrace ≠ [])
    (hrun : ((mkRec (k + 3)).statementList sl).run c = .ok ((), c')) :
    c'.diagnostics = c.diagnostics :=
  indexStatementListL_quiet (k + 1) true (fun _ => Nat.succ_pos k) sl hchk c c' hsm hsc htr hrun

end Ide
end Tg
