/-
C04 converse for statements, values checked by the tree (part 3): record bodies with their items, `def`,
`defm`, `class`, `let` lists and `foreach` iterators.  (The lemmas of `C04ConvN4`, relative to a context.)
-/
import TgModel.Lemmas.C04MJ2

namespace Tg
namespace C04L
open Prog Grammar Frag Doc

local notation "rcv" => Tables.recoverTokens

section
variable (C : RunCtx) {V N : List TokenKind → Prop} (hv : ValHook C V) (hnm : NameHook C N)

section
include hv

theorem field_defJ_inv (n : Nat) (s s' : PState) (hi : C.I s)
    (h : exec defs rcv n (call .field_def) s = .ok s') (hc : Clean s s') (ha : s.afterError = false) :
    ∃ w, s.kinds = w ++ s'.kinds ∧ (Shape w → C.J s' → DVN V N (.nt .FieldDef_) w) := by
  have h := call_inv defs rcv (lift_fuel h 40)
  simp only [defs, seqs] at h
  obtain ⟨s1, h1, _, h, hc⟩ := seq_inv defs rcv h hc
  have i1 := C.hI _ _ _ _ hi h1
  have e1 := same_startNode h1
  obtain ⟨s2, h2, c2, h, hc⟩ := seq_inv defs rcv h hc
  have i2 := C.hI _ _ _ _ i1 h2
  obtain ⟨s3, h3, c3, h, hc⟩ := seq_inv defs rcv h hc
  have i3 := C.hI _ _ _ _ i2 h3
  obtain ⟨t, k3, a3⟩ := type_inv _ _ _ _ (Nat.le_refl _) h3 c3
  obtain ⟨s4, h4, c4, h, hc⟩ := seq_inv defs rcv h hc
  have i4 := C.hI _ _ _ _ i3 h4
  obtain ⟨k4, a4⟩ := ident_clean h4 c4
  obtain ⟨s5, h5, c5, h, hc⟩ := seq_inv defs rcv h hc
  have i5 := C.hI _ _ _ _ i4 h5
  have b5 := C.hJ _ _ _ _ i5 h
  obtain ⟨wi, k5, d5⟩ := opt_initJ_inv C (N := N) hv _ _ _ i4 h5 c5
  have a5 := clean_afterError defs rcv h5 c5 a4
  obtain ⟨s6, h6, c6, h, _⟩ := seq_inv defs rcv h hc
  obtain ⟨k6, _⟩ := expect_clean (by decide) h6 c6 a5
  have e7 := same_finishNode h
  have fin : ∀ (fld : List TokenKind), DVN V N (.opt (.tok [TokenKind.Field])) fld → s2.kinds = t.render ++ s3.kinds →
      s.kinds = fld ++ s2.kinds →
      ∃ w, s.kinds = w ++ s'.kinds ∧ (Shape w → C.J s' → DVN V N (.nt .FieldDef_) w) := by
    intro fld dfld _ hk
    refine ⟨fld ++ (t.render ++ (TokenKind.Id :: (wi ++ [TokenKind.Semi]))), ?_, ?_⟩
    · rw [hk, k3, k4, k5, k6, e7.kinds]; simp
    · intro hs j
      have ht : Shape t.render := Shape.infix (u := fld) (by simpa using hs)
      exact DVN.nt (DVN.altR (DVN.seq dfld (DVN.seq (DVN.of (fty_doc ht)) (dg_idSeq (DVN.seq (d5 (b5 j)) (dg_tok1 _))))))
  rcases eatIf_clean (by decide) h2 with ⟨_, _, k2, _, _⟩ | ⟨_, rfl⟩
  · exact fin [TokenKind.Field] (DVN.optSome (dg_tok1 _)) k3 (by rw [← e1.kinds, k2]; rfl)
  · exact fin [] DVN.optNone k3 (by rw [← e1.kinds]; rfl)

theorem field_letJ_inv (n : Nat) (s s' : PState) (hi : C.I s)
    (h : exec defs rcv n (call .field_let) s = .ok s') (hc : Clean s s') :
    ∃ w, s.kinds = w ++ s'.kinds ∧ (C.J s' → DVN V N (.nt .FieldLet_) w) := by
  have h := call_inv defs rcv (lift_fuel h 40)
  simp only [defs, seqs] at h
  obtain ⟨s1, h1, _, h, hc⟩ := seq_inv defs rcv h hc
  have i1 := C.hI _ _ _ _ hi h1
  have e1 := same_startNode h1
  obtain ⟨s2, h2, _, h, hc⟩ := seq_inv defs rcv h hc
  have i2 := C.hI _ _ _ _ i1 h2
  obtain ⟨k2, a2⟩ := assertTok_clean (by decide) h2
  obtain ⟨s3, h3, c3, h, hc⟩ := seq_inv defs rcv h hc
  have i3 := C.hI _ _ _ _ i2 h3
  obtain ⟨k3, a3⟩ := ident_clean h3 c3
  obtain ⟨s4, h4, c4, h, hc⟩ := seq_inv defs rcv h hc
  have i4 := C.hI _ _ _ _ i3 h4
  obtain ⟨wr, k4, a4, d4⟩ := opt_range_inv0 .LBrace .RBrace _ (by decide) (by decide) _ _ _ h4 c4 a3
  obtain ⟨s5, h5, c5, h, hc⟩ := seq_inv defs rcv h hc
  have i5 := C.hI _ _ _ _ i4 h5
  obtain ⟨k5, a5, n5⟩ := expect_cleanN (by decide) h5 c5 a4
  obtain ⟨s6, h6, c6, h, hc⟩ := seq_inv defs rcv h hc
  have i6 := C.hI _ _ _ _ i5 h6
  have b6 := C.hJ _ _ _ _ i6 h
  obtain ⟨h6, _⟩ := orError_inv h6 c6
  obtain ⟨wv, k6, dv, a6⟩ := valueJ_clean C hv i5 h6 c6 a5 n5
  obtain ⟨s7, h7, c7, h, _⟩ := seq_inv defs rcv h hc
  obtain ⟨k7, _⟩ := expect_clean (by decide) h7 c7 a6
  have e8 := same_finishNode h
  refine ⟨TokenKind.Let :: TokenKind.Id :: (wr ++ (TokenKind.Equal :: (wv ++ [TokenKind.Semi]))), ?_, fun j => ?_⟩
  · rw [← e1.kinds, k2, k3, k4, k5, k6, k7, e8.kinds]; simp
  · exact DVN.nt (dg_tokSeq (dg_idSeq (DVN.seq (DVN.of d4) (dg_tokSeq (DVN.seq (DVN.val (dv (b6 j))) (dg_tok1 _))))))

/-- what `body_item` did: nothing (answer `false`), or one documented item (answer `true`) -/
theorem body_itemJ_inv (n : Nat) (s s' : PState) (hi : C.I s)
    (h : exec defs rcv n (call .body_item) s = .ok s') (hc : Clean s s') (ha : s.afterError = false) :
    (s'.flag = false ∧ s'.kinds = s.kinds) ∨
    (s'.flag = true ∧ ∃ w, s.kinds = w ++ s'.kinds ∧ (Shape w → C.J s' → DVN V N (.nt .BodyItem_) w)) := by
  have h := call_inv defs rcv (lift_fuel h 40)
  simp only [defs, matchPeek, bodyItemArms] at h
  have wrap : ∀ {m : Nat} {f : Fn} {A : E},
      exec defs rcv (m+2) (seq (call f) (retB true)) s = .ok s' →
      (∀ a, exec defs rcv (m+1) (call f) s = .ok a → Clean s a →
        ∃ w, s.kinds = w ++ a.kinds ∧ (Shape w → C.J a → DVN V N A w)) →
      (∀ w, DVN V N A w → DVN V N (.nt .BodyItem_) w) →
      (s'.flag = false ∧ s'.kinds = s.kinds) ∨
      (s'.flag = true ∧ ∃ w, s.kinds = w ++ s'.kinds ∧ (Shape w → C.J s' → DVN V N (.nt .BodyItem_) w)) := by
    intro m f A hh hconv hd
    obtain ⟨a, g1, gc1, g2, _⟩ := seq_inv defs rcv hh hc
    have ia := C.hI _ _ _ _ hi g1
    have e := same_retB g2
    have ef : s'.flag = true := by have := retB_inv defs rcv g2; rw [this]
    obtain ⟨w, hk, hw⟩ := hconv a g1 gc1
    exact Or.inr ⟨ef, w, by rw [e.kinds]; exact hk, fun hs j => hd w (hw hs (C.hJ _ _ _ _ ia g2 j))⟩
  rcases ifAt_inv defs rcv h with ⟨_, h⟩ | ⟨_, h⟩
  · exact wrap h (fun a g gc => field_defJ_inv C hv _ s a hi g gc ha)
      (fun w d => DVN.nt (DVN.altR (DVN.altL d)))
  rcases ifAt_inv defs rcv h with ⟨_, h⟩ | ⟨_, h⟩
  · exact wrap h (fun a g gc => by
        obtain ⟨w, hk, hd⟩ := field_letJ_inv C (N := N) hv _ s a hi g gc
        exact ⟨w, hk, fun _ j => hd j⟩)
      (fun w d => DVN.nt (DVN.altR (DVN.altR (DVN.altL d))))
  rcases ifAt_inv defs rcv h with ⟨_, h⟩ | ⟨_, h⟩
  · exact wrap h (fun a g gc => by
        obtain ⟨w, hk, hd⟩ := convJ_defvar C (N := N) hv _ s a hi g gc
        exact ⟨w, hk, fun _ j => hd j⟩)
      (fun w d => DVN.nt (DVN.altR (DVN.altR (DVN.altR (DVN.altL d)))))
  rcases ifAt_inv defs rcv h with ⟨_, h⟩ | ⟨_, h⟩
  · exact wrap h (fun a g gc => by
        obtain ⟨w, hk, hd⟩ := convJ_assert C (N := N) hv _ s a hi g gc
        exact ⟨w, hk, fun _ j => hd j⟩)
      (fun w d => DVN.nt (DVN.altR (DVN.altR (DVN.altR (DVN.altR (DVN.altL d))))))
  rcases ifAt_inv defs rcv h with ⟨_, h⟩ | ⟨_, h⟩
  · exact wrap h (fun a g gc => by
        obtain ⟨w, hk, hd⟩ := convJ_dump C (N := N) hv _ s a hi g gc
        exact ⟨w, hk, fun _ j => hd j⟩)
      (fun w d => DVN.nt (DVN.altR (DVN.altR (DVN.altR (DVN.altR (DVN.altR d))))))
  · have e := retB_inv defs rcv h; subst e
    exact Or.inl ⟨rfl, rfl⟩

/-- the item loop of a body -/
theorem items_loopJ : ∀ (n : Nat) (s s' : PState), C.I s →
    exec defs rcv n (loop (ifAt [.RBrace, .Eof] (retB false) (call .body_item)) nop) s = .ok s' → Clean s s' →
    s.afterError = false →
    ∃ w, s.kinds = w ++ s'.kinds ∧ (Shape w → C.J s' → DVN V N (.star (.nt .BodyItem_)) w) := by
  intro n
  induction n with
  | zero => intro s s' _ h; simp [exec] at h
  | succ n ih =>
    intro s s' hi h hc ha
    obtain ⟨s1, h1, c1, hcase⟩ := loop_inv h hc
    have i1 := C.hI _ _ _ _ hi h1
    have h1 := lift_fuel h1 5
    rcases ifAt_inv defs rcv h1 with ⟨_, h1⟩ | ⟨_, h1⟩
    · have e1 := retB_inv defs rcv h1; subst e1
      rcases hcase with ⟨_, rfl⟩ | ⟨hf, _⟩
      · exact ⟨[], rfl, fun _ _ => DVN.starNil⟩
      · simp at hf
    · rcases body_itemJ_inv C hv _ _ _ hi h1 c1 ha with ⟨hfl, hk⟩ | ⟨hfl, w1, hk, hd⟩
      · rcases hcase with ⟨_, rfl⟩ | ⟨hf, _⟩
        · exact ⟨[], by rw [hk]; rfl, fun _ _ => DVN.starNil⟩
        · rw [hfl] at hf; cases hf
      · rcases hcase with ⟨hf, _⟩ | ⟨_, s2, hb, _, hl, cl⟩
        · rw [hfl] at hf; cases hf
        · have e2 := nop_inv defs rcv (lift_fuel hb 1)
          rw [e2] at hl cl
          have a1 := clean_afterError defs rcv h1 c1 ha
          obtain ⟨w2, k2, d2⟩ := ih _ _ i1 hl cl a1
          exact ⟨w1 ++ w2, by rw [hk, k2]; simp,
            fun hs j => DVN.starCons (hd hs.left (C.hJ _ _ _ _ i1 hl j)) (d2 hs.right j)⟩

/-- `";"` or `"{" BodyItem* "}"` -/
theorem convJ_body (n : Nat) (s s' : PState) (hi : C.I s)
    (h : exec defs rcv n (call .body) s = .ok s') (hc : Clean s s') (ha : s.afterError = false) :
    ∃ w, s.kinds = w ++ s'.kinds ∧ s.cur ≠ .Eof ∧ (Shape w → C.J s' → DVN V N (.nt .Body_) w) := by
  have h := call_inv defs rcv (lift_fuel h 40)
  simp only [defs, seqs, ifEatIf] at h
  obtain ⟨s1, h1, _, h, hc⟩ := seq_inv defs rcv h hc
  have i1 := C.hI _ _ _ _ hi h1
  have e1 := same_startNode h1
  obtain ⟨s2, h2, c2, h, _⟩ := seq_inv defs rcv h hc
  have i2 := C.hI _ _ _ _ i1 h2
  have b2 := C.hJ _ _ _ _ i2 h
  have e9 := same_finishNode h
  obtain ⟨s3, h3, c3, h4, c4⟩ := seq_inv defs rcv h2 c2
  have i3 := C.hI _ _ _ _ i1 h3
  rcases eatIf_clean (by decide) h3 with ⟨hcur, hfl, k3, a3, _⟩ | ⟨_, rfl⟩
  · rcases ifFlag_inv defs rcv h4 with ⟨_, h4⟩ | ⟨hf, _⟩
    · have e4 := same_nop h4
      refine ⟨[TokenKind.Semi], ?_, ?_, ?_⟩
      · rw [← e1.kinds, k3, e9.kinds, e4.kinds]; rfl
      · rw [← e1.cur, hcur]; decide
      · intro _ _; exact DVN.nt (DVN.altL (dg_tok1 _))
    · rw [hfl] at hf; cases hf
  · rcases ifFlag_inv defs rcv h4 with ⟨hf, _⟩ | ⟨_, h4⟩
    · simp at hf
    · obtain ⟨s5, h5, c5, h6, c6⟩ := seq_inv defs rcv h4 c4
      have i5 := C.hI _ _ _ _ i3 h5
      obtain ⟨hcur, k5, a5, _⟩ := expect_cleanC (by decide) h5 c5 (show s1.afterError = false by rw [e1.after]; exact ha)
      obtain ⟨s6, h6, c6, h7, c7⟩ := seq_inv defs rcv h6 c6
      have i6 := C.hI _ _ _ _ i5 h6
      have b6 := C.hJ _ _ _ _ i6 h7
      obtain ⟨wi, k6, d6⟩ := items_loopJ C (N := N) hv _ _ _ i5 h6 c6 a5
      have a6 := clean_afterError defs rcv h6 c6 a5
      obtain ⟨k7, _⟩ := expect_clean (by decide) h7 c7 a6
      refine ⟨TokenKind.LBrace :: (wi ++ [TokenKind.RBrace]), ?_, ?_, ?_⟩
      · have k5' : s1.kinds = TokenKind.LBrace :: s5.kinds := k5
        rw [← e1.kinds, k5', k6, k7, e9.kinds]; simp
      · have : s1.cur = TokenKind.LBrace := hcur
        rw [← e1.cur, this]; decide
      · intro hs j
        have hsi : Shape wi := Shape.infix (u := [TokenKind.LBrace]) (x := [TokenKind.RBrace]) (by simpa using hs)
        exact DVN.nt (DVN.altR (dg_tokSeq (DVN.seq (d6 hsi (b6 (b2 j))) (dg_tok1 _))))

theorem convJ_record_body (n : Nat) (s s' : PState) (hi : C.I s)
    (h : exec defs rcv n (call .record_body) s = .ok s') (hc : Clean s s') (ha : s.afterError = false) :
    ∃ w, s.kinds = w ++ s'.kinds ∧ (Shape w → C.J s' → DVN V N (.nt .RecordBody_) w) := by
  have h := call_inv defs rcv (lift_fuel h 40)
  simp only [defs, seqs] at h
  obtain ⟨s1, h1, _, h, hc⟩ := seq_inv defs rcv h hc
  have i1 := C.hI _ _ _ _ hi h1
  have e1 := same_startNode h1
  obtain ⟨s2, h2, c2, h, hc⟩ := seq_inv defs rcv h hc
  have i2 := C.hI _ _ _ _ i1 h2
  have b2 := C.hJ _ _ _ _ i2 h
  obtain ⟨wP, k2, a2, d2⟩ := convJ_parents C (N := N) hv _ _ _ i1 h2 c2 (by rw [e1.after]; exact ha)
  obtain ⟨s3, h3, c3, h, _⟩ := seq_inv defs rcv h hc
  have i3 := C.hI _ _ _ _ i2 h3
  have b3 := C.hJ _ _ _ _ i3 h
  obtain ⟨wB, k3, hne, d3⟩ := convJ_body C (N := N) hv _ _ _ i2 h3 c3 a2
  have e4 := same_finishNode h
  refine ⟨wP ++ wB, ?_, ?_⟩
  · rw [← e1.kinds, k2, k3, e4.kinds]; simp
  · intro hs j
    rcases d2 with he | d2
    · exact (hne he).elim
    · exact DVN.nt (DVN.seq (d2 (b2 j)) (d3 hs.right (b3 j)))

end

/-! ### `def`, `defm`, `class` -/

section
include hnm

/-- the optional name of a `def`/`defm` -/
theorem object_nameJ_inv (n : Nat) (s s' : PState) (hi : C.I s) (hn : Norm s)
    (h : exec defs rcv n (call .object_name) s = .ok s') (hc : Clean s s') :
    ∃ w, s.kinds = w ++ s'.kinds ∧ (C.J s' → DVN V N (.opt (.nt .Value_NameMode_)) w) := by
  have h := call_inv defs rcv (lift_fuel h 40)
  simp only [defs] at h
  rcases ifAt_inv defs rcv h with ⟨_, h⟩ | ⟨_, h⟩
  · have e := same_nop h
    exact ⟨[], by rw [e.kinds]; rfl, fun _ => DVN.optNone⟩
  · have h := call_inv defs rcv h
    simp only [defs] at h
    rcases ifAt_inv defs rcv h with ⟨_, h⟩ | ⟨_, h⟩
    · obtain ⟨w, hk, hw⟩ := hnm _ _ _ hi hn h hc
      exact ⟨w, hk, fun j => DVN.optSome (DVN.nval (hw j))⟩
    · have e := same_nop h
      exact ⟨[], by rw [e.kinds]; rfl, fun _ => DVN.optNone⟩

end

section
include hv hnm

theorem convJ_def (n : Nat) (s s' : PState) (hi : C.I s)
    (h : exec defs rcv n (call .def_) s = .ok s') (hc : Clean s s') :
    ∃ w, s.kinds = w ++ s'.kinds ∧ (Shape w → C.J s' → DVN V N (.nt .Def_) w) := by
  have h := call_inv defs rcv (lift_fuel h 40)
  simp only [defs, seqs] at h
  obtain ⟨s1, h1, _, h, hc⟩ := seq_inv defs rcv h hc
  have i1 := C.hI _ _ _ _ hi h1
  have e1 := same_startNode h1
  obtain ⟨s2, h2, _, h, hc⟩ := seq_inv defs rcv h hc
  have i2 := C.hI _ _ _ _ i1 h2
  obtain ⟨k2, a2, n2⟩ := assertTok_cleanN (by decide) h2
  obtain ⟨s3, h3, c3, h, hc⟩ := seq_inv defs rcv h hc
  have i3 := C.hI _ _ _ _ i2 h3
  have b3 := C.hJ _ _ _ _ i3 h
  obtain ⟨wn, k3, d3⟩ := object_nameJ_inv C (V := V) hnm _ _ _ i2 n2 h3 c3
  have a3 := clean_afterError defs rcv h3 c3 a2
  obtain ⟨s4, h4, c4, h, _⟩ := seq_inv defs rcv h hc
  have i4 := C.hI _ _ _ _ i3 h4
  have b4 := C.hJ _ _ _ _ i4 h
  obtain ⟨wb, k4, d4⟩ := convJ_record_body C (N := N) hv _ _ _ i3 h4 c4 a3
  have e5 := same_finishNode h
  refine ⟨TokenKind.Def :: (wn ++ wb), ?_, ?_⟩
  · rw [← e1.kinds, k2, k3, k4, e5.kinds]; simp
  · intro hs j
    have hb : Shape wb := Shape.right (u := TokenKind.Def :: wn) (by simpa using hs)
    exact DVN.nt (dg_tokSeq (DVN.seq (d3 (b3 j)) (d4 hb (b4 j))))

theorem convJ_defm (n : Nat) (s s' : PState) (hi : C.I s)
    (h : exec defs rcv n (call .defm) s = .ok s') (hc : Clean s s') :
    ∃ w, s.kinds = w ++ s'.kinds ∧ (C.J s' → DVN V N (.nt .Defm_) w) := by
  have h := call_inv defs rcv (lift_fuel h 40)
  simp only [defs, seqs] at h
  obtain ⟨s1, h1, _, h, hc⟩ := seq_inv defs rcv h hc
  have i1 := C.hI _ _ _ _ hi h1
  have e1 := same_startNode h1
  obtain ⟨s2, h2, _, h, hc⟩ := seq_inv defs rcv h hc
  have i2 := C.hI _ _ _ _ i1 h2
  obtain ⟨k2, a2, n2⟩ := assertTok_cleanN (by decide) h2
  obtain ⟨s3, h3, c3, h, hc⟩ := seq_inv defs rcv h hc
  have i3 := C.hI _ _ _ _ i2 h3
  have b3 := C.hJ _ _ _ _ i3 h
  obtain ⟨wn, k3, d3⟩ := object_nameJ_inv C (V := V) hnm _ _ _ i2 n2 h3 c3
  have a3 := clean_afterError defs rcv h3 c3 a2
  obtain ⟨s4, h4, c4, h, hc⟩ := seq_inv defs rcv h hc
  have i4 := C.hI _ _ _ _ i3 h4
  have b4 := C.hJ _ _ _ _ i4 h
  obtain ⟨wp, k4, a4, d4⟩ := convJ_parents C (N := N) hv _ _ _ i3 h4 c4 a3
  obtain ⟨s5, h5, c5, h, _⟩ := seq_inv defs rcv h hc
  obtain ⟨hcur, k5, _, _⟩ := expect_cleanC (by decide) h5 c5 a4
  have e6 := same_finishNode h
  refine ⟨TokenKind.Defm :: (wn ++ (wp ++ [TokenKind.Semi])), ?_, fun j => ?_⟩
  · rw [← e1.kinds, k2, k3, k4, k5, e6.kinds]; simp
  · rcases d4 with he | d4
    · rw [he] at hcur; cases hcur
    · exact DVN.nt (dg_tokSeq (DVN.seq (d3 (b3 j)) (DVN.seq (d4 (b4 j)) (dg_tok1 _))))

end

section
include hv

theorem convJ_class (n : Nat) (s s' : PState) (hi : C.I s)
    (h : exec defs rcv n (call .class_) s = .ok s') (hc : Clean s s') :
    ∃ w, s.kinds = w ++ s'.kinds ∧ (Shape w → C.J s' → DVN V N (.nt .Class_) w) := by
  have h := call_inv defs rcv (lift_fuel h 40)
  simp only [defs, seqs] at h
  obtain ⟨s1, h1, _, h, hc⟩ := seq_inv defs rcv h hc
  have i1 := C.hI _ _ _ _ hi h1
  have e1 := same_startNode h1
  obtain ⟨s2, h2, _, h, hc⟩ := seq_inv defs rcv h hc
  have i2 := C.hI _ _ _ _ i1 h2
  obtain ⟨k2, a2⟩ := assertTok_clean (by decide) h2
  obtain ⟨s3, h3, c3, h, hc⟩ := seq_inv defs rcv h hc
  have i3 := C.hI _ _ _ _ i2 h3
  obtain ⟨k3, a3⟩ := ident_clean h3 c3
  obtain ⟨s4, h4, c4, h, hc⟩ := seq_inv defs rcv h hc
  have i4 := C.hI _ _ _ _ i3 h4
  have b4 := C.hJ _ _ _ _ i4 h
  obtain ⟨wT, k4, a4, d4⟩ := convJ_targs C (N := N) hv _ _ _ i3 h4 c4 a3
  obtain ⟨s5, h5, c5, h, _⟩ := seq_inv defs rcv h hc
  have i5 := C.hI _ _ _ _ i4 h5
  have b5 := C.hJ _ _ _ _ i5 h
  obtain ⟨wb, k5, d5⟩ := convJ_record_body C (N := N) hv _ _ _ i4 h5 c5 a4
  have e6 := same_finishNode h
  refine ⟨TokenKind.Class :: TokenKind.Id :: (wT ++ wb), ?_, ?_⟩
  · rw [← e1.kinds, k2, k3, k4, k5, e6.kinds]; simp
  · intro hs j
    have hb : Shape wb := Shape.right (u := TokenKind.Class :: TokenKind.Id :: wT) (by simpa using hs)
    rcases d4 with rfl | d4
    · exact (Shape.not_pat (pat := [TokenKind.Class, TokenKind.Id, TokenKind.Less, TokenKind.Greater]) (by decide)
        (by simp) [] wb (by simpa using hs)).elim
    · have hT : Shape wT := Shape.infix (u := [TokenKind.Class, TokenKind.Id]) (x := wb) (by simpa using hs)
      exact DVN.nt (dg_tokSeq (dg_idSeq (DVN.seq (d4 hT (b4 j)) (d5 hb (b5 j)))))

/-! ### `let` lists -/

theorem let_itemJ_inv (n : Nat) (a b : PState) (hi : C.I a) (_ : Norm a)
    (h : exec defs rcv n (call .let_item) a = .ok b) (hc : Clean a b) (ha : a.afterError = false) :
    ∃ w, a.kinds = w ++ b.kinds ∧ b.afterError = false ∧ (C.J b → DVN V N (.nt .LetItem_) w) := by
  have hb := clean_afterError defs rcv h hc ha
  have h := call_inv defs rcv (lift_fuel h 40)
  simp only [defs, seqs] at h
  obtain ⟨s1, h1, _, h, hc⟩ := seq_inv defs rcv h hc
  have i1 := C.hI _ _ _ _ hi h1
  have e1 := same_startNode h1
  obtain ⟨s2, h2, c2, h, hc⟩ := seq_inv defs rcv h hc
  have i2 := C.hI _ _ _ _ i1 h2
  obtain ⟨k2, a2⟩ := ident_clean h2 c2
  obtain ⟨s3, h3, c3, h, hc⟩ := seq_inv defs rcv h hc
  have i3 := C.hI _ _ _ _ i2 h3
  obtain ⟨wr, k3, a3, d3⟩ := opt_range_inv0 .Less .Greater _ (by decide) (by decide) _ _ _ h3 c3 a2
  obtain ⟨s4, h4, c4, h, hc⟩ := seq_inv defs rcv h hc
  have i4 := C.hI _ _ _ _ i3 h4
  obtain ⟨k4, a4, n4⟩ := expect_cleanN (by decide) h4 c4 a3
  obtain ⟨s5, h5, c5, h, _⟩ := seq_inv defs rcv h hc
  have i5 := C.hI _ _ _ _ i4 h5
  have b5 := C.hJ _ _ _ _ i5 h
  obtain ⟨wv, k5, dv, _⟩ := valueJ_clean C hv i4 h5 c5 a4 n4
  have e6 := same_finishNode h
  refine ⟨TokenKind.Id :: (wr ++ (TokenKind.Equal :: wv)), ?_, hb, fun j => ?_⟩
  · rw [← e1.kinds, k2, k3, k4, k5, e6.kinds]; simp
  · exact DVN.nt (dg_idSeq (DVN.seq (DVN.of d3) (dg_tokSeq (DVN.val (dv (b5 j))))))

theorem let_listJ_inv (n : Nat) (s s' : PState) (hi : C.I s) (hn : Norm s)
    (h : exec defs rcv n (call .let_list) s = .ok s') (hc : Clean s s') (ha : s.afterError = false) :
    ∃ w, s.kinds = w ++ s'.kinds ∧ (s'.cur = .Eof ∨ (C.J s' → DVN V N (.nt .LetList_) w)) := by
  have h := call_inv defs rcv (lift_fuel h 40)
  simp only [defs, seqs, sepLoop] at h
  obtain ⟨s1, h1, _, h, hc⟩ := seq_inv defs rcv h hc
  have i1 := C.hI _ _ _ _ hi h1
  have e1 := same_startNode h1
  obtain ⟨s2, h2, c2, h, _⟩ := seq_inv defs rcv h hc
  have i2 := C.hI _ _ _ _ i1 h2
  have b2 := C.hJ _ _ _ _ i2 h
  have e3 := same_finishNode h
  obtain ⟨w, b, k2, _, sl, hb1, _⟩ := sepMJ_inv C _ _ _ (let_itemJ_inv C (N := N) hv) _ _ _ h2 c2
    (by rw [e1.after]; exact ha) i1 (e1.norm hn)
  refine ⟨w, by rw [← e1.kinds, k2, e3.kinds], ?_⟩
  cases b with
  | true =>
    left
    have := hb1 rfl
    rw [e3.cur]
    simpa using this
  | false => exact Or.inr fun j => DVN.nt (sepDg_derives (sl (b2 j)))

/-! ### `foreach` iterators -/

theorem foreach_initJ_inv (n : Nat) (s s' : PState) (hi : C.I s) (hn : Norm s)
    (h : exec defs rcv n (call .foreach_iterator_init) s = .ok s') (hc : Clean s s') (ha : s.afterError = false) :
    ∃ w, s.kinds = w ++ s'.kinds ∧ (C.J s' → DVN V N (.nt .ForeachIteratorInit_) w) := by
  have h := call_inv defs rcv (lift_fuel h 40)
  simp only [defs, matchPeek, seqs] at h
  rcases ifAt_inv defs rcv h with ⟨_, h⟩ | ⟨_, h⟩
  · obtain ⟨s1, h1, _, h, hc⟩ := seq_inv defs rcv h hc
    obtain ⟨k1, a1⟩ := assertTok_clean (by decide) h1
    obtain ⟨s2, h2, c2, h3, c3⟩ := seq_inv defs rcv h hc
    obtain ⟨wr, k2, a2, d2⟩ := range_list_inv0 _ _ _ h2 c2 a1
    obtain ⟨hcur, k3, _, _⟩ := expect_cleanC (by decide) h3 c3 a2
    refine ⟨TokenKind.LBrace :: (wr ++ [TokenKind.RBrace]), by rw [k1, k2, k3]; simp, fun _ => ?_⟩
    rcases d2 with he | d2
    · rw [he] at hcur; cases hcur
    · exact DVN.nt (DVN.altL (dg_tokSeq (DVN.seq (DVN.of d2) (dg_tok1 _))))
  rcases ifAt_inv defs rcv h with ⟨_, h⟩ | ⟨_, h⟩
  · obtain ⟨w, k1, _, d1⟩ := range_piece_inv _ _ _ h hc
    exact ⟨w, k1, fun _ => DVN.nt (DVN.altR (DVN.altL (DVN.of d1)))⟩
  · obtain ⟨w, k1, d1, _⟩ := valueJ_clean C hv hi h hc ha hn
    exact ⟨w, k1, fun j => DVN.nt (DVN.altR (DVN.altR (DVN.val (d1 j))))⟩

theorem foreach_iteratorJ_inv (n : Nat) (s s' : PState) (hi : C.I s)
    (h : exec defs rcv n (call .foreach_iterator) s = .ok s') (hc : Clean s s') :
    ∃ w, s.kinds = w ++ s'.kinds ∧ (C.J s' → DVN V N (.nt .ForeachIterator_) w) := by
  have h := call_inv defs rcv (lift_fuel h 40)
  simp only [defs, seqs] at h
  obtain ⟨s1, h1, _, h, hc⟩ := seq_inv defs rcv h hc
  have i1 := C.hI _ _ _ _ hi h1
  have e1 := same_startNode h1
  obtain ⟨s2, h2, c2, h, hc⟩ := seq_inv defs rcv h hc
  have i2 := C.hI _ _ _ _ i1 h2
  obtain ⟨k2, a2⟩ := ident_clean h2 c2
  obtain ⟨s3, h3, c3, h, hc⟩ := seq_inv defs rcv h hc
  have i3 := C.hI _ _ _ _ i2 h3
  obtain ⟨k3, a3, n3⟩ := expect_cleanN (by decide) h3 c3 a2
  obtain ⟨s4, h4, c4, h, _⟩ := seq_inv defs rcv h hc
  have i4 := C.hI _ _ _ _ i3 h4
  have b4 := C.hJ _ _ _ _ i4 h
  obtain ⟨wi, k4, d4⟩ := foreach_initJ_inv C (N := N) hv _ _ _ i3 n3 h4 c4 a3
  have e5 := same_finishNode h
  refine ⟨TokenKind.Id :: TokenKind.Equal :: wi, ?_, fun j => ?_⟩
  · rw [← e1.kinds, k2, k3, k4, e5.kinds]; simp
  · exact DVN.nt (dg_idSeq (dg_tokSeq (d4 (b4 j))))

end
end

end C04L
end Tg
