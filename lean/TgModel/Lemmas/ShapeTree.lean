/-
Tree-shape predicates on green trees (`Tree`) and their transfer to the annotated tree
(`PTree.ofTree`): `first_token` of a node, "no node begins with a trivia token", "a `BangOperator`
node begins with a bang-operator token".
-/
import TgModel.Lemmas.IdeWorkspace

namespace Tg
open Tg.Ide

/-! ### green trees -/

mutual
/-- kind of `first_token()` (follows the first child only, like rowan) -/
def Tree.firstTok : Tree → Option SyntaxKind
  | .token k _ => some k
  | .node _ cs => firstTokL cs
def firstTokL : List Tree → Option SyntaxKind
  | [] => none
  | c :: _ => c.firstTok
end

@[simp] theorem firstTokL_nil : firstTokL [] = none := by simp [firstTokL]
@[simp] theorem firstTokL_cons (c : Tree) (cs : List Tree) : firstTokL (c :: cs) = c.firstTok := by simp [firstTokL]
@[simp] theorem Tree.firstTok_token (k : SyntaxKind) (t : List Char) : (Tree.token k t).firstTok = some k := by
  simp [Tree.firstTok]
@[simp] theorem Tree.firstTok_node (k : SyntaxKind) (cs : List Tree) : (Tree.node k cs).firstTok = firstTokL cs := by
  simp [Tree.firstTok]

theorem firstTokL_append_of_ne_nil {a : List Tree} (h : a ≠ []) (b : List Tree) :
    firstTokL (a ++ b) = firstTokL a := by
  cases a with
  | nil => exact absurd rfl h
  | cons x xs => simp

/-- the first token of a node is not trivia; a `BangOperator` node starts with a bang operator -/
def okFirst (k : SyntaxKind) (ft : Option SyntaxKind) : Prop :=
  (∀ x, ft = some x → x.isTrivia = false) ∧ (k = .BangOperator → ∃ x, ft = some x ∧ x ∈ bangKinds)

/-- the kinds whose first token the indexer / handlers look at -/
def shapeKinds : List SyntaxKind := .BangOperator :: .String :: Tables.foldingKinds

mutual
/-- every node of the tree satisfies `okFirst` -/
def Tree.clean : Tree → Prop
  | .token _ _ => True
  | .node k cs => okFirst k (firstTokL cs) ∧ cleanL cs
def cleanL : List Tree → Prop
  | [] => True
  | c :: cs => c.clean ∧ cleanL cs
end

mutual
/-- every node of a kind in `shapeKinds` satisfies `okFirst` -/
def Tree.good : Tree → Prop
  | .token _ _ => True
  | .node k cs => (k ∈ shapeKinds → okFirst k (firstTokL cs)) ∧ goodL cs
def goodL : List Tree → Prop
  | [] => True
  | c :: cs => c.good ∧ goodL cs
end

@[simp] theorem cleanL_nil : cleanL [] = True := by simp [cleanL]
@[simp] theorem cleanL_cons (c : Tree) (cs : List Tree) : cleanL (c :: cs) = (c.clean ∧ cleanL cs) := by simp [cleanL]
@[simp] theorem Tree.clean_token (k : SyntaxKind) (t : List Char) : (Tree.token k t).clean = True := by simp [Tree.clean]
@[simp] theorem Tree.clean_node (k : SyntaxKind) (cs : List Tree) :
    (Tree.node k cs).clean = (okFirst k (firstTokL cs) ∧ cleanL cs) := by simp [Tree.clean]
@[simp] theorem goodL_nil : goodL [] = True := by simp [goodL]
@[simp] theorem goodL_cons (c : Tree) (cs : List Tree) : goodL (c :: cs) = (c.good ∧ goodL cs) := by simp [goodL]
@[simp] theorem Tree.good_token (k : SyntaxKind) (t : List Char) : (Tree.token k t).good = True := by simp [Tree.good]
@[simp] theorem Tree.good_node (k : SyntaxKind) (cs : List Tree) :
    (Tree.node k cs).good = ((k ∈ shapeKinds → okFirst k (firstTokL cs)) ∧ goodL cs) := by simp [Tree.good]

theorem cleanL_iff {l : List Tree} : cleanL l ↔ ∀ t ∈ l, t.clean := by
  induction l with
  | nil => simp
  | cons x xs ih => simp [ih]

theorem goodL_iff {l : List Tree} : goodL l ↔ ∀ t ∈ l, t.good := by
  induction l with
  | nil => simp
  | cons x xs ih => simp [ih]

theorem cleanL_append {a b : List Tree} : cleanL (a ++ b) ↔ cleanL a ∧ cleanL b := by
  simp only [cleanL_iff, List.mem_append]
  constructor
  · intro h; exact ⟨fun t ht => h t (Or.inl ht), fun t ht => h t (Or.inr ht)⟩
  · rintro ⟨h1, h2⟩ t (ht | ht)
    · exact h1 t ht
    · exact h2 t ht

theorem cleanL_reverse {a : List Tree} : cleanL a.reverse ↔ cleanL a := by
  simp only [cleanL_iff, List.mem_reverse]

theorem clean_good : ∀ (t : Tree), t.clean → t.good := by
  intro t
  induction t using Tree.rec (motive_2 := fun ts => cleanL ts → goodL ts) with
  | node k cs ih =>
    intro h
    simp only [Tree.clean_node] at h
    simp only [Tree.good_node]
    exact ⟨fun _ => h.1, ih h.2⟩
  | token k t => intro _; simp
  | nil => simp
  | cons t ts iht ihts =>
    rename_i h
    simp only [cleanL_cons] at h
    simp only [goodL_cons]
    exact ⟨iht h.1, ihts h.2⟩

theorem cleanL_goodL {l : List Tree} (h : cleanL l) : goodL l := by
  rw [goodL_iff]
  rw [cleanL_iff] at h
  exact fun t ht => clean_good t (h t ht)

/-- subtrees -/
inductive SubT : Tree → Tree → Prop
  | refl (t : Tree) : SubT t t
  | step {t : Tree} {k : SyntaxKind} {cs : List Tree} {c : Tree} : SubT t (.node k cs) → c ∈ cs → SubT t c

theorem SubT.good {t u : Tree} (h : SubT t u) (hg : t.good) : u.good := by
  induction h with
  | refl => exact hg
  | step _ hc ih =>
    have := ih
    simp only [Tree.good_node] at this
    exact goodL_iff.mp this.2 _ hc


/-! ### transfer to the annotated tree -/

namespace Ide

/-- the annotated children of a node -/
def annotL : List Tree → Nat → List PTree
  | [], _ => []
  | t :: ts, pos => (ofTreeAt t pos).1 :: annotL ts (ofTreeAt t pos).2

theorem ofTreesAt_toList : ∀ (ts : List Tree) (pos : Nat) (acc : Array PTree) (h : Nat),
    (ofTreesAt ts pos acc h).1.toList = acc.toList ++ annotL ts pos
  | [], pos, acc, h => by simp [ofTreesAt, annotL]
  | t :: ts, pos, acc, h => by
    simp only [ofTreesAt, annotL]
    rw [ofTreesAt_toList ts]
    simp

theorem ofTreeAt_node_children (k : SyntaxKind) (cs : List Tree) (pos : Nat) :
    (ofTreeAt (.node k cs) pos).1.children.toList = annotL cs pos := by
  simp only [ofTreeAt, PTree.children]
  rw [ofTreesAt_toList]
  simp

theorem ofTreeAt_token_children (k : SyntaxKind) (t : List Char) (pos : Nat) :
    (ofTreeAt (.token k t) pos).1.children = #[] := by simp [ofTreeAt, PTree.children]

theorem mem_annotL : ∀ {cs : List Tree} {pos : Nat} {c : PTree}, c ∈ annotL cs pos →
    ∃ c' ∈ cs, ∃ p, c = (ofTreeAt c' p).1
  | [], _, _, h => by simp [annotL] at h
  | t :: ts, pos, c, h => by
    simp only [annotL, List.mem_cons] at h
    rcases h with rfl | h
    · exact ⟨t, by simp, pos, rfl⟩
    · obtain ⟨c', hc', p, hp⟩ := mem_annotL h
      exact ⟨c', by simp [hc'], p, hp⟩

theorem desc_ofTreeAt {t : Tree} {pos : Nat} {n : PTree} (h : Desc (ofTreeAt t pos).1 n) :
    ∃ u p, SubT t u ∧ n = (ofTreeAt u p).1 := by
  generalize hr : (ofTreeAt t pos).1 = root at h
  induction h with
  | refl => exact ⟨t, pos, SubT.refl t, hr.symm⟩
  | step _ hc ih =>
    obtain ⟨u, p, hsub, rfl⟩ := ih
    cases u with
    | token k txt => simp [ofTreeAt_token_children] at hc
    | node k cs =>
      rw [ofTreeAt_node_children] at hc
      obtain ⟨c', hc', p', rfl⟩ := mem_annotL hc
      exact ⟨c', p', SubT.step hsub hc', rfl⟩

theorem ofTreeAt_kind (u : Tree) (p : Nat) :
    (ofTreeAt u p).1.kind = (match u with | .node k _ => k | .token k _ => k) ∧
    (ofTreeAt u p).1.isNode = (match u with | .node _ _ => true | .token _ _ => false) := by
  cases u <;> simp [ofTreeAt, PTree.kind, PTree.isNode]

theorem firstTokenGo_ofTreeAt : ∀ (fuel : Nat) (u : Tree) (p : Nat) (c : Cursor), c.here = (ofTreeAt u p).1 →
    (ofTreeAt u p).1.height + 1 ≤ fuel →
    (Cursor.firstTokenGo fuel c).map (fun r => r.here.kind) = u.firstTok
  | 0, _, _, _, _, hf => by omega
  | fuel + 1, u, p, c, hc, hf => by
    unfold Cursor.firstTokenGo
    cases u with
    | token k txt =>
      have : c.here = PTree.token k p (p + byteLen txt) (String.ofList txt) := by rw [hc]; simp [ofTreeAt]
      rw [this]
      simp [this, PTree.kind]
    | node k cs =>
      have hnode : ∃ s e h arr, c.here = PTree.node k s e h arr := by
        rw [hc]; simp [ofTreeAt]
      obtain ⟨s, e, hh, arr, hhere⟩ := hnode
      rw [hhere]
      simp only
      have hch : c.here.children.toList = annotL cs p := by rw [hc]; exact ofTreeAt_node_children k cs p
      cases cs with
      | nil =>
        have : c.here.children = #[] := by
          apply Array.toList_inj.mp
          rw [hch]; simp [annotL]
        simp [Cursor.child, this]
      | cons c' cs' =>
        have h0 : c.here.children[0]? = some (ofTreeAt c' p).1 := by
          rw [← Array.getElem?_toList, hch]
          simp [annotL]
        have hchild : c.child 0 = some ⟨(ofTreeAt c' p).1, (c.here, 0) :: c.up⟩ := by
          simp [Cursor.child, h0]
        rw [hchild]
        simp only [Tree.firstTok_node, firstTokL_cons]
        refine firstTokenGo_ofTreeAt fuel c' p _ rfl ?_
        -- the child is lower than the node
        have hsp := (ofTreeAt_spans (.node k (c' :: cs')) p).1
        have hmem : (ofTreeAt c' p).1 ∈ (ofTreeAt (.node k (c' :: cs')) p).1.children.toList := by
          rw [ofTreeAt_node_children]; simp [annotL]
        have := (hsp.child hmem).1
        omega

theorem firstToken_ofTreeAt (u : Tree) (p : Nat) :
    ((ofTreeAt u p).1.firstToken).map (·.kind) = u.firstTok := by
  unfold PTree.firstToken Cursor.firstToken
  rw [Option.map_map]
  exact firstTokenGo_ofTreeAt _ u p (Cursor.root (ofTreeAt u p).1) rfl (Nat.le_refl _)

/-- the shape hypotheses of the indexer and the handlers follow from the green-tree predicate -/
theorem treeShape_of_good {k : SyntaxKind} {cs : List Tree} (hk : k = .SourceFile) (hg : (Tree.node k cs).good) :
    TreeShape (PTree.ofTree (.node k cs)) := by
  refine ⟨?_, ?_, ?_, ?_⟩
  · intro n hn hnode hkind kd hkd
    obtain ⟨u, p, hsub, rfl⟩ := desc_ofTreeAt hn
    have hug := hsub.good hg
    cases u with
    | token k' txt => simp [ofTreeAt, PTree.isNode] at hnode
    | node k' cs' =>
      have hk' : k' = .BangOperator := by
        have := (ofTreeAt_kind (.node k' cs') p).1
        rw [hkind] at this
        exact this.symm
      simp only [Tree.good_node] at hug
      obtain ⟨x, hx, hxm⟩ := (hug.1 (by simp [hk', shapeKinds])).2 hk'
      have hft := firstToken_ofTreeAt (.node k' cs') p
      simp only [Tree.firstTok_node, hx] at hft
      unfold Ast.bangOperatorKind at hkd
      rw [hkd] at hft
      cases hft
      exact hxm
  · intro A hA hnode hkind t' ht'
    obtain ⟨u, p, hsub, rfl⟩ := desc_ofTreeAt hA
    have hug := hsub.good hg
    cases u with
    | token k' txt => simp [ofTreeAt, PTree.isNode] at hnode
    | node k' cs' =>
      have hk' : (ofTreeAt (.node k' cs') p).1.kind = k' := (ofTreeAt_kind (.node k' cs') p).1
      rw [hk'] at hkind
      simp only [Tree.good_node] at hug
      have hmem : k' ∈ shapeKinds := by
        rcases hkind with h | h
        · simp only [shapeKinds, List.mem_cons]
          exact Or.inr (Or.inr (by simpa using h))
        · simp [shapeKinds, h]
      have hft := firstToken_ofTreeAt (.node k' cs') p
      rw [ht'] at hft
      simp only [Option.map_some, Tree.firstTok_node] at hft
      exact (hug.1 hmem).1 _ hft.symm
  · simp [PTree.ofTree, ofTreeAt, PTree.isNode]
  · simp [PTree.ofTree, ofTreeAt, PTree.kind, hk]

end Ide
end Tg
