/-
C04 converse, widened: the statement skeletons in one theorem, the `ValueOK` corollary, the literal
values, and a small evaluator for the non-vacuity examples of `Props/C04.lean`.
-/
import TgModel.Lemmas.C04Conv4

namespace Tg
namespace C04L
open Prog Grammar Frag Doc

local notation "rcv" => Tables.recoverTokens

/-- the statements covered by the skeleton converse -/
inductive Skel where
  | incl | defvar | dump | assert | cls
deriving DecidableEq, Repr

def Skel.fn : Skel → Fn
  | .incl => Fn.include
  | .defvar => Fn.defvar
  | .dump => Fn.dump
  | .assert => Fn.assert_
  | .cls => Fn.class_

def Skel.nt : Skel → NT
  | .incl => NT.Include_
  | .defvar => NT.Defvar_
  | .dump => NT.Dump_
  | .assert => NT.Assert_
  | .cls => NT.Class_

/-- where the parser takes more than the documented rule, the condition on the consumed tokens that
brings it back: one string literal after `include`; `classShape` for `class` -/
def Skel.shape : Skel → List TokenKind → Prop
  | .incl, w => w.length = 2
  | .cls, w => classShape w
  | _, _ => True

instance (sk : Skel) (w : List TokenKind) : Decidable (sk.shape w) := by
  cases sk <;> unfold Skel.shape <;> infer_instance

/-- **converse for statement skeletons, `Value` abstract** -/
theorem statement_skeleton_converse (sk : Skel) (input : List Char) (fuel : Nat) (s s' : PState)
    (hi : Inv input s) (h : exec defs rcv fuel (call sk.fn) s = .ok s') (hclean : s'.errors = s.errors) :
    ∃ w, s.kinds = w ++ s'.kinds ∧ (sk.shape w → DV VW (.nt sk.nt) w) := by
  have hc : Clean s s' := by unfold Clean; rw [hclean]; exact Nat.le_refl _
  cases sk with
  | incl =>
    obtain ⟨m, hk, hd⟩ := conv_include fuel s s' h hc
    refine ⟨_, hk, ?_⟩
    intro hs
    have hm : m = 0 := by
      simp only [Skel.shape, List.length_cons, List.length_replicate] at hs
      omega
    subst hm
    exact DV.of (hd rfl)
  | defvar =>
    obtain ⟨w, hk, hd⟩ := conv_defvar input fuel s s' hi h hc
    exact ⟨w, hk, fun _ => hd⟩
  | dump =>
    obtain ⟨w, hk, hd⟩ := conv_dump input fuel s s' hi h hc
    exact ⟨w, hk, fun _ => hd⟩
  | assert =>
    obtain ⟨w, hk, hd⟩ := conv_assert input fuel s s' hi h hc
    exact ⟨w, hk, fun _ => hd⟩
  | cls =>
    obtain ⟨w, hk, hd⟩ := conv_class input fuel s s' hi h hc
    exact ⟨w, hk, hd⟩

/-- the same with the named hypothesis `ValueOK`: plain derivability in the documented grammar -/
theorem statement_skeleton_converse_partial (hValueOK : ValueOK) (sk : Skel) (input : List Char) (fuel : Nat)
    (s s' : PState) (hi : Inv input s) (h : exec defs rcv fuel (call sk.fn) s = .ok s')
    (hclean : s'.errors = s.errors) :
    ∃ w, s.kinds = w ++ s'.kinds ∧ (sk.shape w → Derives (.nt sk.nt) w) := by
  obtain ⟨w, hk, hd⟩ := statement_skeleton_converse sk input fuel s s' hi h hclean
  exact ⟨w, hk, fun hs => DV.collapse hValueOK (hd hs)⟩

/-! ### `ValueOK` on the one-token literals -/

/-- a `VW` word that starts with a literal token (integer, string, code fragment, `true`/`false`, `?`,
identifier) whose next token — if the word has one — could not continue a value, is that one token, and a
documented `Value` -/
theorem vw_literal {w : List TokenKind} (hv : VW w) {k : TokenKind} (hk : w.head? = some k) (hlit : k ∈ litToks)
    (hf : ∀ t, w[1]? = some t → litValFollow t = true) :
    w = [k] ∧ Derives (.nt .Value_) w := by
  obtain ⟨fuel, a, b, hn, h, hc, hw⟩ := hv
  cases w with
  | nil => cases hk
  | cons k' w' =>
    simp only [List.head?_cons, Option.some.injEq] at hk
    subst hk
    cases w' with
    | nil => exact ⟨rfl, lit_derives hlit⟩
    | cons t w'' =>
      exfalso
      have hcur : a.cur = k' := by rw [cur_eq_head hn, hw]; rfl
      have hft : litValFollow t = true := hf t rfl
      obtain ⟨hb, _⟩ := value_ok_literal fuel a b h hc k' (t :: w'' ++ b.kinds) hw hcur hlit hft
      have := congrArg List.length hb
      simp only [List.length_append, List.length_cons] at this
      omega

/-- `ValueOK` restricted to words selected by `K` -/
def ValueOKOn (K : List TokenKind → Prop) : Prop := ∀ w, K w → VW w → Derives (.nt .Value_) w

/-- words that start with a literal token not followed (inside the word) by a continuation -/
def LitWord (w : List TokenKind) : Prop :=
  ∃ k, w.head? = some k ∧ k ∈ litToks ∧ ∀ t, w[1]? = some t → litValFollow t = true

theorem value_ok_literals : ValueOKOn LitWord :=
  fun _ ⟨_, hk, hlit, hf⟩ hv => (vw_literal hv hk hlit hf).2

/-! ### evaluating a run (for the examples) -/

def okAnd (r : Res) (P : PState → Bool) : Bool :=
  match r with
  | .ok s => P s
  | _ => false

theorem okAnd_spec {r : Res} {P : PState → Bool} (h : okAnd r P = true) : ∃ s, r = .ok s ∧ P s = true := by
  unfold okAnd at h
  split at h
  · exact ⟨_, rfl, h⟩
  · cases h

/-- a statement function run on a whole input: no error, everything consumed -/
def runsClean (sk : Skel) (input : List Char) (fuel : Nat) : Bool :=
  okAnd (exec defs rcv fuel (call sk.fn) (PState.init input)) fun s' =>
    decide (s'.errors.length = 0) && decide (s'.kinds.length = 0) && decide ((PState.init input).errors.length = 0)

/-- the skeleton converse applied to a whole input -/
theorem skeleton_on_input (sk : Skel) (input : List Char) (fuel : Nat) (h : runsClean sk input fuel = true)
    (hs : sk.shape (PState.init input).kinds) : DV VW (.nt sk.nt) (PState.init input).kinds := by
  obtain ⟨s', hr, hp⟩ := okAnd_spec h
  simp only [Bool.and_eq_true, decide_eq_true_eq] at hp
  obtain ⟨⟨he, hk⟩, h0⟩ := hp
  have he' : s'.errors = (PState.init input).errors := by
    rw [List.length_eq_zero_iff.mp he, List.length_eq_zero_iff.mp h0]
  obtain ⟨w, hw, hd⟩ := statement_skeleton_converse sk input fuel _ s' (PState.inv_init input) hr he'
  have : w = (PState.init input).kinds := by
    rw [hw, List.length_eq_zero_iff.mp hk, List.append_nil]
  subst this
  exact hd hs

end C04L
end Tg
