/-
C04, accessor clause — the tree side.

`AstWalk.walk` lists what the typed accessors reach, as strings.  Here: the same listing with
structure (`walkS`, `walk = walkS.map fmt`), the list of all nodes of a tree with their byte ranges
(`allSubL`), and a *local* criterion `goodNode k ks` on a node kind and the kinds of its child nodes
("every child node is returned by some accessor").  If every node of a tree satisfies it
(`goodL`), everything below the root is reached by the walk — in source order, since accessor
results are sublists of the children.
-/
import TgModel.AstWalk

namespace Tg
namespace C04L
open AstTable AstWalk

/-! ### the accessor selection, generically -/

/-- `AstWalk.select` for any element type -/
def selectG {α : Type} (sel : Sel) (cands : List α) : List α :=
  match sel with
  | .first => cands.take 1
  | .all => cands
  | .nth i => (cands.drop i).take 1

theorem select_eq (sel : Sel) (cands : List (Nat × SyntaxKind × List Tree)) :
    select sel cands = selectG sel cands := by
  cases sel <;> rfl

theorem selectG_map {α β : Type} (h : α → β) (sel : Sel) (l : List α) :
    selectG sel (l.map h) = (selectG sel l).map h := by
  cases sel <;> simp [selectG, List.map_take, List.map_drop]

theorem selectG_sublist {α : Type} (sel : Sel) (l : List α) : (selectG sel l).Sublist l := by
  cases sel with
  | first => exact List.take_sublist _ _
  | all => exact List.Sublist.refl _
  | nth i => exact (List.take_sublist _ _).trans (List.drop_sublist _ _)

/-- what the accessors `fs` return on candidates `l` whose kinds are given by `g` -/
def accessedG {α : Type} (g : α → SyntaxKind) (fs : List Field) (l : List α) : List (Field × α) :=
  fs.flatMap fun f => (selectG f.sel (l.filter fun c => f.casts.contains (g c))).map fun c => (f, c)

theorem accessedG_map {α β : Type} (gα : α → SyntaxKind) (gβ : β → SyntaxKind) (h : α → β)
    (hg : ∀ x, gβ (h x) = gα x) (fs : List Field) (l : List α) :
    accessedG gβ fs (l.map h) = (accessedG gα fs l).map (fun p => (p.1, h p.2)) := by
  unfold accessedG
  induction fs with
  | nil => rfl
  | cons f fs ih =>
    simp only [List.flatMap_cons, List.map_append, ih]
    congr 1
    rw [List.filter_map, selectG_map]
    simp only [List.map_map]
    have hf : ((fun c => f.casts.contains (gβ c)) ∘ h) = (fun c => f.casts.contains (gα c)) := by
      funext c; simp [Function.comp, hg]
    rw [hf]
    rfl

theorem accessedG_mem {α : Type} (g : α → SyntaxKind) (fs : List Field) (l : List α) (p : Field × α)
    (hp : p ∈ accessedG g fs l) : p.2 ∈ l := by
  unfold accessedG at hp
  obtain ⟨f, _, hf⟩ := List.mem_flatMap.mp hp
  obtain ⟨c, hc, rfl⟩ := List.mem_map.mp hf
  exact (List.mem_filter.mp ((selectG_sublist _ _).mem hc)).1

/-! ### indexing -/

def idxFrom {α : Type} : Nat → List α → List (Nat × α)
  | _, [] => []
  | i, x :: xs => (i, x) :: idxFrom (i+1) xs

theorem idxFrom_map_snd {α : Type} (i : Nat) (l : List α) : (idxFrom i l).map Prod.snd = l := by
  induction l generalizing i with
  | nil => rfl
  | cons x xs ih => simp [idxFrom, ih]

theorem idxFrom_map {α β : Type} (h : α → β) (i : Nat) (l : List α) :
    idxFrom i (l.map h) = (idxFrom i l).map (fun p => (p.1, h p.2)) := by
  induction l generalizing i with
  | nil => rfl
  | cons x xs ih => simp [idxFrom, ih]

theorem idxFrom_ge {α : Type} (i : Nat) (l : List α) (p : Nat × α) (hp : p ∈ idxFrom i l) : i ≤ p.1 := by
  induction l generalizing i with
  | nil => simp [idxFrom] at hp
  | cons x xs ih =>
    simp only [idxFrom, List.mem_cons] at hp
    rcases hp with rfl | hp
    · exact Nat.le_refl _
    · exact Nat.le_trans (Nat.le_succ _) (ih _ hp)

/-- an index determines the element -/
theorem idxFrom_inj {α : Type} (i : Nat) (l : List α) (p q : Nat × α) (hp : p ∈ idxFrom i l) (hq : q ∈ idxFrom i l)
    (h : p.1 = q.1) : p = q := by
  induction l generalizing i with
  | nil => simp [idxFrom] at hp
  | cons x xs ih =>
    simp only [idxFrom, List.mem_cons] at hp hq
    rcases hp with rfl | hp <;> rcases hq with rfl | hq
    · rfl
    · have := idxFrom_ge _ _ _ hq; simp only [] at h; omega
    · have := idxFrom_ge _ _ _ hp; simp only [] at h; omega
    · exact ih _ hp hq

/-! ### the local criterion -/

/-- every child node (given by the kinds `ks` of the child nodes, in order) is returned by some accessor
of a node of kind `k` -/
def goodNode (k : SyntaxKind) (ks : List SyntaxKind) : Bool :=
  match fields k with
  | none => ks.isEmpty
  | some fs =>
    (idxFrom 0 ks).all fun p => ((accessedG Prod.snd fs (idxFrom 0 ks)).map Prod.snd).contains p

/-- a node whose only accessor returns all children of the listed kinds -/
theorem goodNode_of_all (k : SyntaxKind) (f : Field) (hf : fields k = some [f]) (hs : f.sel = .all)
    (ks : List SyntaxKind) (h : ∀ x ∈ ks, f.casts.contains x = true) : goodNode k ks = true := by
  unfold goodNode
  rw [hf]
  simp only [accessedG, List.flatMap_cons, List.flatMap_nil, List.append_nil, hs, selectG, List.map_map]
  apply List.all_eq_true.mpr
  intro p hp
  have hx : p.2 ∈ ks := by
    have := List.mem_map_of_mem (f := Prod.snd) hp
    rwa [idxFrom_map_snd] at this
  have : p ∈ (idxFrom 0 ks).filter (fun c => f.casts.contains c.2) :=
    List.mem_filter.mpr ⟨hp, h _ hx⟩
  simpa [Function.comp] using this

/-- two accessors, "first of these kinds" and "all of those kinds": a first child of the first sort
followed by children of the second sort (none of which is of the first sort) -/
theorem goodNode_head_tail (k : SyntaxKind) (f1 f2 : Field) (hf : fields k = some [f1, f2]) (h1 : f1.sel = .first)
    (h2 : f2.sel = .all) (a : SyntaxKind) (tl : List SyntaxKind) (ha : f1.casts.contains a = true)
    (htl : ∀ x ∈ tl, f2.casts.contains x = true) (_hd : True) : goodNode k (a :: tl) = true := by
  unfold goodNode
  rw [hf]
  simp only [accessedG, List.flatMap_cons, List.flatMap_nil, List.append_nil, h1, h2, selectG, List.map_append,
    List.map_map]
  apply List.all_eq_true.mpr
  intro p hp
  simp only [idxFrom, List.mem_cons] at hp
  simp only [List.contains_eq_any_beq, List.any_eq_true, beq_iff_eq]
  refine ⟨p, ?_, rfl⟩
  rcases hp with rfl | hp
  · apply List.mem_append_left
    have ha' : a ∈ f1.casts := by simpa using ha
    simp [idxFrom, List.filter_cons, ha']
  · apply List.mem_append_right
    have hx : p.2 ∈ tl := by
      have := List.mem_map_of_mem (f := Prod.snd) hp
      rwa [idxFrom_map_snd] at this
    have : p ∈ (idxFrom 0 (a :: tl)).filter (fun c => f2.casts.contains c.2) :=
      List.mem_filter.mpr ⟨by simp only [idxFrom, List.mem_cons]; exact Or.inr hp, htl _ hx⟩
    simpa [Function.comp] using this

/-- the same without the first child -/
theorem goodNode_tail_only (k : SyntaxKind) (f1 f2 : Field) (hf : fields k = some [f1, f2])
    (h2 : f2.sel = .all) (tl : List SyntaxKind) (htl : ∀ x ∈ tl, f2.casts.contains x = true) :
    goodNode k tl = true := by
  unfold goodNode
  rw [hf]
  simp only [accessedG, List.flatMap_cons, List.flatMap_nil, List.append_nil, h2, selectG, List.map_append,
    List.map_map]
  apply List.all_eq_true.mpr
  intro p hp
  simp only [List.contains_eq_any_beq, List.any_eq_true, beq_iff_eq]
  refine ⟨p, List.mem_append_right _ ?_, rfl⟩
  have hx : p.2 ∈ tl := by
    have := List.mem_map_of_mem (f := Prod.snd) hp
    rwa [idxFrom_map_snd] at this
  have : p ∈ (idxFrom 0 tl).filter (fun c => f2.casts.contains c.2) := List.mem_filter.mpr ⟨hp, htl _ hx⟩
  simpa [Function.comp] using this

/-- transfer from kinds to any list of candidates: every candidate is accessed -/
theorem good_all_accessed {α : Type} (g : α → SyntaxKind) (fs : List Field) (l : List α)
    (hgood : (idxFrom 0 (l.map g)).all
      (fun p => ((accessedG Prod.snd fs (idxFrom 0 (l.map g))).map Prod.snd).contains p) = true)
    (c : α) (hc : c ∈ l) : ∃ f, (f, c) ∈ accessedG g fs l := by
  -- index the candidates
  have hl : l = (idxFrom 0 l).map Prod.snd := (idxFrom_map_snd 0 l).symm
  obtain ⟨q, hq, rfl⟩ : ∃ q ∈ idxFrom 0 l, q.2 = c := by
    rw [hl] at hc; obtain ⟨q, hq, e⟩ := List.mem_map.mp hc; exact ⟨q, hq, e⟩
  -- the kinds version
  have hk : idxFrom 0 (l.map g) = (idxFrom 0 l).map (fun p => (p.1, g p.2)) := idxFrom_map g 0 l
  rw [hk] at hgood
  have h1 := List.all_eq_true.mp hgood (q.1, g q.2) (List.mem_map.mpr ⟨q, hq, rfl⟩)
  have h2 : (q.1, g q.2) ∈ (accessedG Prod.snd fs ((idxFrom 0 l).map (fun p => (p.1, g p.2)))).map Prod.snd := by
    simpa using h1
  rw [accessedG_map (fun p : Nat × α => g p.2) Prod.snd (fun p => (p.1, g p.2)) (fun _ => rfl)] at h2
  obtain ⟨r, hr, e⟩ := List.mem_map.mp h2
  obtain ⟨r', hr', e'⟩ := List.mem_map.mp hr
  subst e'
  simp only [] at e
  have hmem := accessedG_mem _ _ _ _ hr'
  have hidx : r'.2.1 = q.1 := by have := congrArg Prod.fst e; simpa using this
  have heq : r'.2 = q := idxFrom_inj 0 l _ _ hmem hq hidx
  -- back to the unindexed list
  have h3 : accessedG g fs l = (accessedG (fun p : Nat × α => g p.2) fs (idxFrom 0 l)).map (fun p => (p.1, p.2.2)) := by
    conv => lhs; rw [hl]
    exact accessedG_map (fun p : Nat × α => g p.2) g Prod.snd (fun _ => rfl) fs (idxFrom 0 l)
  refine ⟨r'.1, ?_⟩
  rw [h3]
  exact List.mem_map.mpr ⟨r', hr', by rw [heq]⟩

/-! ### trees -/

/-- kinds of the child nodes (tokens skipped) -/
def kindsOf : List Tree → List SyntaxKind
  | [] => []
  | .token _ _ :: ts => kindsOf ts
  | .node k _ :: ts => k :: kindsOf ts

theorem childNodes_kinds (off : Nat) (cs : List Tree) :
    (childNodes off cs).map (fun c => c.2.1) = kindsOf cs := by
  induction cs generalizing off with
  | nil => rfl
  | cons t ts ih =>
    cases t with
    | token k txt => simp only [childNodes, kindsOf]; exact ih _
    | node k ccs => simp only [childNodes, kindsOf, List.map_cons]; rw [ih]

mutual
/-- every node of the tree satisfies the local criterion -/
def goodT : Tree → Bool
  | .token _ _ => true
  | .node k cs => goodNode k (kindsOf cs) && goodL cs
def goodL : List Tree → Bool
  | [] => true
  | t :: ts => goodT t && goodL ts
end

theorem accessed_eq (off : Nat) (k : SyntaxKind) (cs : List Tree) :
    accessed off k cs =
      match fields k with
      | none => []
      | some fs => (accessedG (fun c : Nat × SyntaxKind × List Tree => c.2.1) fs (childNodes off cs)).map
          (fun p => (k.name ++ "." ++ p.1.name, p.2)) := by
  unfold accessed
  cases fields k with
  | none => rfl
  | some fs =>
    simp only [accessedG, List.map_flatMap, List.map_map, select_eq]
    rfl

/-- the local criterion does what it says: every child node is returned by some accessor -/
theorem good_accessed (off : Nat) (k : SyntaxKind) (cs : List Tree) (hg : goodNode k (kindsOf cs) = true)
    (c : Nat × SyntaxKind × List Tree) (hc : c ∈ childNodes off cs) :
    ∃ label, (label, c) ∈ accessed off k cs := by
  rw [accessed_eq]
  unfold goodNode at hg
  cases hf : fields k with
  | none =>
    rw [hf] at hg
    simp only [] at hg
    have : kindsOf cs = [] := by simpa using hg
    rw [← childNodes_kinds off cs] at this
    have : childNodes off cs = [] := by simpa using this
    rw [this] at hc; cases hc
  | some fs =>
    rw [hf] at hg
    simp only [] at hg ⊢
    rw [← childNodes_kinds off cs] at hg
    obtain ⟨f, hfm⟩ := good_all_accessed (fun c : Nat × SyntaxKind × List Tree => c.2.1) fs (childNodes off cs) hg c hc
    exact ⟨_, List.mem_map.mpr ⟨(f, c), hfm, rfl⟩⟩

/-! ### the structured walk -/

def walkS : Nat → Nat → SyntaxKind → List Tree → List (String × Nat × SyntaxKind × Nat)
  | 0, _, _, _ => []
  | fuel+1, off, k, cs =>
    (accessed off k cs).flatMap fun p =>
      (p.1, p.2.1, p.2.2.1, p.2.1 + listLen p.2.2.2) :: walkS fuel p.2.1 p.2.2.1 p.2.2.2

/-- the line `AstWalk.walk` prints for an entry -/
def fmt (x : String × Nat × SyntaxKind × Nat) : String := s!"{x.1}={x.2.2.1.name}@{x.2.1}-{x.2.2.2}"

theorem walk_eq (fuel off : Nat) (k : SyntaxKind) (cs : List Tree) :
    walk fuel off k cs = (walkS fuel off k cs).map fmt := by
  induction fuel generalizing off k cs with
  | zero => rfl
  | succ n ih =>
    simp only [walk, walkS, List.map_flatMap, List.map_cons]
    congr 1
    funext p
    obtain ⟨label, o, ck, ccs⟩ := p
    simp only [ih]
    rfl

/-- what the walk over a whole tree reaches, with structure -/
def reached (t : Tree) : List (String × Nat × SyntaxKind × Nat) :=
  match t with
  | .token _ _ => []
  | .node k cs => walkS (depth t + 1) 0 k cs

theorem walkTree_eq (t : Tree) : walkTree t = (reached t).map fmt := by
  cases t with
  | token k txt => rfl
  | node k cs => simp only [walkTree, reached, walk_eq]

/-! ### all nodes -/

mutual
/-- the node itself and everything below, as (start, kind, end) -/
def allSubT (off : Nat) : Tree → List (Nat × SyntaxKind × Nat)
  | .token _ _ => []
  | .node k cs => (off, k, off + listLen cs) :: allSubL off cs
def allSubL (off : Nat) : List Tree → List (Nat × SyntaxKind × Nat)
  | [] => []
  | t :: ts => allSubT off t ++ allSubL (off + treeLen t) ts
end

/-- every node of the tree except the root -/
def allNodes (t : Tree) : List (Nat × SyntaxKind × Nat) :=
  match t with
  | .token _ _ => []
  | .node _ cs => allSubL 0 cs

theorem mem_allSubL (off : Nat) (cs : List Tree) (x : Nat × SyntaxKind × Nat) (hx : x ∈ allSubL off cs) :
    ∃ c ∈ childNodes off cs, x = (c.1, c.2.1, c.1 + listLen c.2.2) ∨ x ∈ allSubL c.1 c.2.2 := by
  induction cs generalizing off with
  | nil => simp [allSubL] at hx
  | cons t ts ih =>
    cases t with
    | token k txt =>
      simp only [allSubL, allSubT, List.nil_append, treeLen] at hx
      obtain ⟨c, hc, h⟩ := ih _ hx
      exact ⟨c, by simpa [childNodes] using hc, h⟩
    | node k ccs =>
      simp only [allSubL, allSubT, List.cons_append, List.mem_cons, List.mem_append, treeLen] at hx
      rcases hx with rfl | hx | hx
      · exact ⟨(off, k, ccs), by simp [childNodes], Or.inl rfl⟩
      · exact ⟨(off, k, ccs), by simp [childNodes], Or.inr hx⟩
      · obtain ⟨c, hc, h⟩ := ih _ hx
        exact ⟨c, by simp only [childNodes, List.mem_cons]; exact Or.inr hc, h⟩

theorem child_props (off : Nat) (cs : List Tree) (c : Nat × SyntaxKind × List Tree) (hc : c ∈ childNodes off cs)
    (hg : goodL cs = true) :
    goodNode c.2.1 (kindsOf c.2.2) = true ∧ goodL c.2.2 = true ∧ depthList c.2.2 + 1 ≤ depthList cs := by
  induction cs generalizing off with
  | nil => simp [childNodes] at hc
  | cons t ts ih =>
    simp only [goodL, Bool.and_eq_true] at hg
    cases t with
    | token k txt =>
      simp only [childNodes] at hc
      obtain ⟨h1, h2, h3⟩ := ih _ hc hg.2
      refine ⟨h1, h2, ?_⟩
      simp only [depthList]; omega
    | node k ccs =>
      simp only [childNodes, List.mem_cons] at hc
      rcases hc with rfl | hc
      · have := hg.1
        simp only [goodT, Bool.and_eq_true] at this
        refine ⟨this.1, this.2, ?_⟩
        simp only [depthList, depth]; omega
      · obtain ⟨h1, h2, h3⟩ := ih _ hc hg.2
        refine ⟨h1, h2, ?_⟩
        simp only [depthList]; omega

/-- **every node below a good node is reached by the walk** -/
theorem reach_all : ∀ (fuel off : Nat) (k : SyntaxKind) (cs : List Tree), depthList cs < fuel →
    goodNode k (kindsOf cs) = true → goodL cs = true →
    ∀ x ∈ allSubL off cs, ∃ label, (label, x) ∈ walkS fuel off k cs := by
  intro fuel
  induction fuel with
  | zero => intro off k cs h; omega
  | succ n ih =>
    intro off k cs hd hg hgl x hx
    obtain ⟨c, hc, hx'⟩ := mem_allSubL off cs x hx
    obtain ⟨label, hacc⟩ := good_accessed off k cs hg c hc
    obtain ⟨g1, g2, g3⟩ := child_props off cs c hc hgl
    simp only [walkS, List.mem_flatMap]
    rcases hx' with rfl | hx'
    · exact ⟨label, (label, c), hacc, List.mem_cons_self ..⟩
    · obtain ⟨l2, h2⟩ := ih c.1 c.2.1 c.2.2 (by omega) g1 g2 x hx'
      exact ⟨l2, (label, c), hacc, List.mem_cons_of_mem _ h2⟩

/-- for a tree all of whose nodes satisfy the local criterion -/
theorem reach_tree (t : Tree) (hg : goodT t = true) :
    ∀ x ∈ allNodes t, ∃ label, (label, x) ∈ reached t := by
  cases t with
  | token k txt => intro x hx; simp [allNodes] at hx
  | node k cs =>
    simp only [goodT, Bool.and_eq_true] at hg
    intro x hx
    exact reach_all _ 0 k cs (by simp only [depth]; omega) hg.1 hg.2 x hx

/-! ### source order -/

theorem childNodes_ge (off : Nat) (cs : List Tree) (c : Nat × SyntaxKind × List Tree) (hc : c ∈ childNodes off cs) :
    off ≤ c.1 := by
  induction cs generalizing off with
  | nil => simp [childNodes] at hc
  | cons t ts ih =>
    cases t with
    | token k txt => simp only [childNodes] at hc; have := ih _ hc; omega
    | node k ccs =>
      simp only [childNodes, List.mem_cons] at hc
      rcases hc with rfl | hc
      · exact Nat.le_refl _
      · have := ih _ hc; omega

/-- child nodes come with non-decreasing starts; strictly increasing past every non-empty node -/
theorem childNodes_sorted (off : Nat) (cs : List Tree) :
    (childNodes off cs).Pairwise (fun a b => a.1 + listLen a.2.2 ≤ b.1) := by
  induction cs generalizing off with
  | nil => exact List.Pairwise.nil
  | cons t ts ih =>
    cases t with
    | token k txt => simp only [childNodes]; exact ih _
    | node k ccs =>
      simp only [childNodes]
      exact List.Pairwise.cons (fun b hb => childNodes_ge _ _ b hb) (ih _)

/-- **source order**: what one accessor returns is a sublist of the children, hence in source order -/
theorem accessor_sorted (off : Nat) (cs : List Tree) (f : Field) :
    (selectG f.sel ((childNodes off cs).filter fun c => f.casts.contains c.2.1)).Pairwise
      (fun a b => a.1 + listLen a.2.2 ≤ b.1) :=
  (childNodes_sorted off cs).sublist ((selectG_sublist _ _).trans List.filter_sublist)

end C04L
end Tg
