/-
`Array.qsort` only permutes: `x ∈ as.qsort lt ↔ x ∈ as`.

Lean core (4.33) ships no lemmas about `Array.qsort`, and its two recursive helpers
(`qsort.sort`, `qpartition.loop`) are private to `Init.Data.Array.QSort.Basic`; the two small
elaborators below only *name* these constants so that they can be unfolded — the proofs are
ordinary kernel-checked proofs.
-/
import Lean

namespace Tg.QSort
open Lean Elab Term Meta Tactic

def sortName : Name := mkPrivateNameCore `Init.Data.Array.QSort.Basic `Array.qsort.sort
def loopName : Name := mkPrivateNameCore `Init.Data.Array.QSort.Basic `Array.qpartition.loop

elab "qsort_sort%" : term => mkConstWithFreshMVarLevels sortName
elab "qpartition_loop%" : term => mkConstWithFreshMVarLevels loopName

elab "unfold_qsort_sort" : tactic => do
  let g ← getMainGoal
  let g' ← Lean.Meta.unfoldTarget g sortName
  replaceMainGoal [g']

elab "unfold_qpartition_loop" : tactic => do
  let g ← getMainGoal
  let g' ← Lean.Meta.unfoldTarget g loopName
  replaceMainGoal [g']

theorem swap_mem {α : Type} {n : Nat} (as : Vector α n) (i j : Nat) (hi : i < n) (hj : j < n) (x : α) :
    x ∈ (as.swap i j hi hj).toArray ↔ x ∈ as.toArray := by
  have := Array.swap_perm (xs := as.toArray) (i := i) (j := j) (by simpa using hi) (by simpa using hj)
  simpa using this.mem_iff

theorem loop_mem {α : Type} {n : Nat} (lt : α → α → Bool) (lo hi : Nat) (hhi : hi < n) (pivot : α) (x : α) :
    ∀ (d : Nat) (as : Vector α n) (i k : Nat) (h1 : lo ≤ i) (h2 : i ≤ k) (h3 : k ≤ hi), hi - k = d →
      (x ∈ (qpartition_loop% lt lo hi hhi pivot as i k h1 h2 h3).2.toArray ↔ x ∈ as.toArray) := by
  intro d
  induction d with
  | zero =>
    intro as i k h1 h2 h3 hd
    unfold_qpartition_loop
    have : ¬ k < hi := by omega
    simp only [this, dite_false]
    exact swap_mem _ _ _ _ _ _
  | succ d ih =>
    intro as i k h1 h2 h3 hd
    unfold_qpartition_loop
    have hk : k < hi := by omega
    simp only [hk, dite_true]
    split
    · rw [ih _ _ _ _ _ _ (by omega)]
      exact swap_mem _ _ _ _ _ _
    · exact ih _ _ _ _ _ _ (by omega)

theorem qpartition_mem {α : Type} {n : Nat} (as : Vector α n) (lt : α → α → Bool) (lo hi : Nat)
    (w : lo ≤ hi) (hlo : lo < n) (hhi : hi < n) (x : α) :
    x ∈ (Array.qpartition as lt lo hi w hlo hhi).2.toArray ↔ x ∈ as.toArray := by
  unfold Array.qpartition
  simp only
  rw [loop_mem lt lo hi hhi _ x _ _ _ _ _ _ _ rfl]
  split <;> split <;> split <;> simp only [swap_mem]

theorem sort_mem {α : Type} (lt : α → α → Bool) (x : α) {n : Nat} :
    ∀ (d : Nat) (as : Vector α n) (lo hi : Nat) (w : lo ≤ hi) (hlo : lo < n) (hhi : hi < n), hi - lo ≤ d →
      (x ∈ (qsort_sort% lt as lo hi w hlo hhi).toArray ↔ x ∈ as.toArray) := by
  intro d
  induction d with
  | zero =>
    intro as lo hi w hlo hhi hd
    unfold_qsort_sort
    have : ¬ lo < hi := by omega
    simp only [this, dite_false]
  | succ d ih =>
    intro as lo hi w hlo hhi hd
    unfold_qsort_sort
    split
    · rename_i hlt
      split
      rename_i mid hmid as' heq
      have hp : x ∈ as'.toArray ↔ x ∈ as.toArray := by
        have := qpartition_mem as lt lo hi w hlo hhi x
        rw [heq] at this
        exact this
      split
      · exact hp
      · rename_i hge
        rw [ih _ _ _ _ _ _ (by omega), ih _ _ _ _ _ _ (by omega)]
        exact hp
    · rfl

/-- **`qsort` keeps exactly the elements of the array** -/
theorem mem_qsort {α : Type} (as : Array α) (lt : α → α → Bool) (x : α) :
    x ∈ as.qsort lt ↔ x ∈ as := by
  unfold Array.qsort
  split
  · rfl
  · simp only
    rw [sort_mem lt x _ _ _ _ _ _ _ (Nat.le_refl _)]

end Tg.QSort
