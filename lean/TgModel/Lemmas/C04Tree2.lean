/-
C04, tree side of the converse (part 2): a grammar function of the shape
`start_node(K); …; finish_node(); return` leaves exactly one new tree, a `K` node, on the builder, and the
proper leaves of that node are the token kinds the run consumed.  Instances: `value`, `name_value`, `list_`.
-/
import TgModel.Lemmas.C04Tree1

namespace Tg
namespace C04L
open Prog Grammar Frag Doc

local notation "rcv" => Tables.recoverTokens

/-- `x₁; …; xₙ; finish_node(); return b` where every `xᵢ` closes the nodes it opens -/
inductive EndsFin : Prog → Prop where
  | fin (b : Bool) : EndsFin (.seq .finishNode (.retB b))
  | step {x r : Prog} : absStep x [] = some [] → EndsFin r → EndsFin (.seq x r)

theorem rel_nil_inv {B : Base} {ps : List (SyntaxKind × List Tree)} {cur : List Tree} {cps : List (Nat × Nat)}
    (h : Rel B [] ps cur cps) : ps = B.parents ∧ ∃ new, cur = new ++ B.cur := by
  cases h with
  | nil _ => exact ⟨rfl, _, rfl⟩

/-- the body after `start_node(K)` -/
theorem endsFin_run {r : Prog} (hr : EndsFin r) (K : SyntaxKind) (c0 : List Tree)
    (ps0 : List (SyntaxKind × List Tree)) (cps0 : List (Nat × Nat)) :
    ∀ (n : Nat) (a b : PState), SInv ⟨(K, c0) :: ps0, [], cps0⟩ [] a → exec defs rcv n r a = .ok b →
      ∃ cs, b.b.cur = Tree.node K cs :: c0 ∧ b.b.parents = ps0 := by
  induction hr with
  | fin bb =>
    intro n a b hi h
    cases n with
    | zero => simp [exec] at h
    | succ n =>
      rw [exec] at h
      split at h
      · rename_i s1 h1
        cases n with
        | zero => simp [exec] at h1
        | succ n =>
          simp only [exec] at h1
          simp only [exec, Res.ok.injEq] at h; subst h
          obtain ⟨hps, new, hcur⟩ := rel_nil_inv hi.rel
          unfold PState.finishNode at h1
          rw [hps] at h1
          simp only [Res.ok.injEq] at h1; subst h1
          exact ⟨a.b.cur.reverse, rfl, rfl⟩
      · rename_i hne; first | exact (hne _ h).elim | cases h
  | @step x r hx _ ih =>
    intro n a b hi h
    cases n with
    | zero => simp [exec] at h
    | succ n =>
      rw [exec] at h
      split at h
      · rename_i s1 h1
        have hi1 := absStep_sound ⟨(K, c0) :: ps0, [], cps0⟩ rcv n x [] [] [] a s1 hx (by simpa using hi) h1
        exact ih n s1 b (by simpa using hi1) h
      · rename_i hne; first | exact (hne _ h).elim | cases h

/-- **the node a grammar function builds**, and its proper leaves -/
theorem node_built {input : List Char} (f : Fn) (K : SyntaxKind) (r : Prog)
    (hdef : defs f = .seq (.startNode K) r) (hr : EndsFin r)
    {n : Nat} {a b : PState} (hi : Inv input a) (hn : Norm a) (hp : plainK a.cur)
    (h : exec defs rcv n (call f) a = .ok b) {w : List TokenKind} (hw : a.kinds = w ++ b.kinds) :
    ∃ cs, Occ (Tree.node K cs) b.b ∧ lkL cs = w.map TokenKind.toSyntax := by
  have hbld := bld_exec defs rcv input _ _ _ _ hi h
  cases n with
  | zero => simp [exec] at h
  | succ n =>
    rw [exec, hdef] at h
    cases n with
    | zero => simp [exec] at h
    | succ n =>
      rw [exec] at h
      split at h
      · rename_i s1 h1
        cases n with
        | zero => simp [exec] at h1
        | succ n =>
          rw [exec] at h1
          simp only [Res.ok.injEq] at h1; subst h1
          have hi1 : SInv ⟨(K, a.b.cur) :: a.b.parents, [], a.cps⟩ [] (a.startNode K) := by
            refine ⟨hn, hp, ?_⟩
            simp only [PState.startNode]
            have := Rel.nil (B := ⟨(K, a.b.cur) :: a.b.parents, [], a.cps⟩) (new := []) (by simp)
            simpa using this
          obtain ⟨cs, hcur, hpar⟩ := endsFin_run hr K a.b.cur a.b.parents a.cps _ _ _ hi1 h
          refine ⟨cs, Or.inl ?_, ?_⟩
          · rw [hcur]
            simp only [subsL_cons, List.mem_append]
            exact Or.inl (self_mem_subs _)
          · obtain ⟨_, htot⟩ := hbld.lk hp
            unfold tot at htot
            rw [hw] at htot
            simp only [builderLk, hcur, hpar, revLk_cons, lk_node, List.map_append, List.append_assoc] at htot
            have h2 := List.append_cancel_left (List.append_cancel_left htot)
            exact List.append_cancel_right h2
      · rename_i hne; first | exact (hne _ h).elim | cases h

theorem endsFin_value : EndsFin (.seq (.call .inner_value) (.seq (.loop (.eatIf .Paste) (.call .inner_value))
    (.seq .finishNode (.retB true)))) :=
  .step (by decide +kernel) (.step (by decide +kernel) (.fin true))

theorem endsFin_name_value : EndsFin (.seq (.call .inner_name_value)
    (.seq (.loop (.eatIf .Paste) (.call .inner_name_value)) (.seq .finishNode (.retB true)))) :=
  .step (by decide +kernel) (.step (by decide +kernel) (.fin true))

theorem endsFin_list : EndsFin (.seq (valueList .LSquare .RSquare)
    (.seq (ifEatIf .Less (.seq (.call .type_) (.expect .Greater (some "expected '>' at end of list element type"))) .nop)
      (.seq .finishNode (.retB true)))) :=
  .step (by decide +kernel) (.step (by decide +kernel) (.fin true))

/-- a run of `value` leaves a `Value` node whose proper leaves are the consumed token kinds -/
theorem value_node {input : List Char} {n : Nat} {a b : PState} (hi : Inv input a) (hn : Norm a) (hp : plainK a.cur)
    (h : exec defs rcv n (call .value) a = .ok b) {w : List TokenKind} (hw : a.kinds = w ++ b.kinds) :
    ∃ cs, Occ (Tree.node .Value cs) b.b ∧ lkL cs = w.map TokenKind.toSyntax :=
  node_built .value .Value _ rfl endsFin_value hi hn hp h hw

theorem name_value_node {input : List Char} {n : Nat} {a b : PState} (hi : Inv input a) (hn : Norm a)
    (hp : plainK a.cur) (h : exec defs rcv n (call .name_value) a = .ok b) {w : List TokenKind}
    (hw : a.kinds = w ++ b.kinds) :
    ∃ cs, Occ (Tree.node .Value cs) b.b ∧ lkL cs = w.map TokenKind.toSyntax :=
  node_built .name_value .Value _ rfl endsFin_name_value hi hn hp h hw

theorem list_node {input : List Char} {n : Nat} {a b : PState} (hi : Inv input a) (hn : Norm a) (hp : plainK a.cur)
    (h : exec defs rcv n (call .list_) a = .ok b) {w : List TokenKind} (hw : a.kinds = w ++ b.kinds) :
    ∃ cs, Occ (Tree.node .List cs) b.b ∧ lkL cs = w.map TokenKind.toSyntax :=
  node_built .list_ .List _ rfl endsFin_list hi hn hp h hw

end C04L
end Tg
