/-
Helper lemmas for C14 (lexical conformance): the lexer model `Lex.next` agrees with the declarative
specification `LexSpec`.  One "maximal munch" lemma per token class (`next_ident`, `next_keyword`,
`next_decInt_*`, `next_hexInt`, `next_binInt`, `next_str`, `next_code`, `next_varName`, `next_bang`,
`next_punct`, collected in `next_specTok`), one lemma per separator class (`next_ws`,
`next_lineComment`, `next_blockComment`), runs of separators (`seps_trivia`) and whole
token/separator sequences (`allTokens_items`).
-/
import TgModel.LexSpec
import TgModel.Lemmas.PrepRefine
namespace Tg
namespace LexSpec
open Lex

/-! ### list helpers -/

/-- the first character of `s`, if any, fails `p` -/
def HeadNot (p : Char → Bool) (s : List Char) : Prop := ∀ c r, s = c :: r → p c = false

theorem HeadNot.nil (p : Char → Bool) : HeadNot p [] := by intro c r h; cases h
theorem HeadNot.cons {p : Char → Bool} {c : Char} {r : List Char} (h : p c = false) : HeadNot p (c :: r) := by
  intro c' r' h'; cases h'; exact h
theorem HeadNot.mono {p q : Char → Bool} {s : List Char} (h : HeadNot p s) (hpq : ∀ c, q c = true → p c = true) :
    HeadNot q s := by
  intro c r hs
  have := h c r hs
  cases hq : q c with
  | false => rfl
  | true => rw [hpq c hq] at this; cases this

theorem takeWhile_append_of_all {p : Char → Bool} {l r : List Char} (hl : ∀ x ∈ l, p x = true)
    (hr : HeadNot p r) : (l ++ r).takeWhile p = l := by
  induction l with
  | nil =>
    cases r with
    | nil => rfl
    | cons c r => simp [hr c r rfl]
  | cons a l ih =>
    simp only [List.cons_append, List.takeWhile_cons, hl a (by simp), if_true]
    rw [ih (fun x hx => hl x (by simp [hx]))]

theorem dropWhile_append_of_all {p : Char → Bool} {l r : List Char} (hl : ∀ x ∈ l, p x = true)
    (hr : HeadNot p r) : (l ++ r).dropWhile p = r := by
  induction l with
  | nil =>
    cases r with
    | nil => rfl
    | cons c r => simp [hr c r rfl]
  | cons a l ih =>
    simp only [List.cons_append, List.dropWhile_cons, hl a (by simp), if_true]
    rw [ih (fun x hx => hl x (by simp [hx]))]

/-! ### character classes -/

theorem char_le_iff (a b : Char) : a ≤ b ↔ a.toNat ≤ b.toNat := by
  rw [Char.le_def, UInt32.le_iff_toNat_le]; rfl

theorem digit_not_ws {c : Char} (h : isAsciiDigit c = true) : isWhitespace c = false := by
  simp only [isAsciiDigit, Bool.and_eq_true, decide_eq_true_eq, char_le_iff] at h
  have h0 : ('0' : Char).toNat = 48 := by decide
  have h9 : ('9' : Char).toNat = 57 := by decide
  rw [h0, h9] at h
  simp only [isWhitespace]
  generalize c.toNat = n at h
  simp
  omega

theorem alpha_toNat {c : Char} (h : isAsciiAlpha c = true) :
    (97 ≤ c.toNat ∧ c.toNat ≤ 122) ∨ (65 ≤ c.toNat ∧ c.toNat ≤ 90) := by
  simp only [isAsciiAlpha, Bool.or_eq_true, Bool.and_eq_true, decide_eq_true_eq, char_le_iff] at h
  have ha : ('a' : Char).toNat = 97 := by decide
  have hz : ('z' : Char).toNat = 122 := by decide
  have hA : ('A' : Char).toNat = 65 := by decide
  have hZ : ('Z' : Char).toNat = 90 := by decide
  rw [ha, hz, hA, hZ] at h
  exact h

theorem identStart_toNat {c : Char} (h : isIdentStart c = true) :
    (97 ≤ c.toNat ∧ c.toNat ≤ 122) ∨ (65 ≤ c.toNat ∧ c.toNat ≤ 90) ∨ c.toNat = 95 := by
  simp only [isIdentStart, Bool.or_eq_true, beq_iff_eq] at h
  rcases h with h | h
  · rcases alpha_toNat h with h | h
    · exact Or.inl h
    · exact Or.inr (Or.inl h)
  · subst h; exact Or.inr (Or.inr (by decide))

theorem identStart_not_ws {c : Char} (h : isIdentStart c = true) : isWhitespace c = false := by
  have := identStart_toNat h
  simp only [isWhitespace]
  generalize c.toNat = n at this
  simp
  omega

theorem identStart_not_digit {c : Char} (h : isIdentStart c = true) : isAsciiDigit c = false := by
  have := identStart_toNat h
  simp only [isAsciiDigit, char_le_iff]
  have h0 : ('0' : Char).toNat = 48 := by decide
  have h9 : ('9' : Char).toNat = 57 := by decide
  rw [h0, h9]
  generalize c.toNat = n at this
  simp
  omega

theorem identStart_cont {c : Char} (h : isIdentStart c = true) : isIdentCont c = true := by
  simp only [isIdentStart, isIdentCont, isAsciiAlnum, Bool.or_eq_true] at h ⊢
  rcases h with h | h
  · exact Or.inl (Or.inl h)
  · exact Or.inr h

theorem digit_cont {c : Char} (h : isAsciiDigit c = true) : isIdentCont c = true := by
  simp [isIdentCont, isAsciiAlnum, h]

theorem alpha_cont {c : Char} (h : isAsciiAlpha c = true) : isIdentCont c = true := by
  simp [isIdentCont, isAsciiAlnum, h]

theorem hex_cont {c : Char} (h : isAsciiHex c = true) : isIdentCont c = true := by
  simp only [isAsciiHex, Bool.or_eq_true, Bool.and_eq_true, decide_eq_true_eq, char_le_iff] at h
  have ha : ('a' : Char).toNat = 97 := by decide
  have hf : ('f' : Char).toNat = 102 := by decide
  have hA : ('A' : Char).toNat = 65 := by decide
  have hF : ('F' : Char).toNat = 70 := by decide
  have hz : ('z' : Char).toNat = 122 := by decide
  have hZ : ('Z' : Char).toNat = 90 := by decide
  rw [ha, hf, hA, hF] at h
  rcases h with (h | h) | h
  · exact digit_cont h
  · apply alpha_cont
    simp only [isAsciiAlpha, Bool.or_eq_true, Bool.and_eq_true, decide_eq_true_eq, char_le_iff, ha, hz, hA, hZ]
    omega
  · apply alpha_cont
    simp only [isAsciiAlpha, Bool.or_eq_true, Bool.and_eq_true, decide_eq_true_eq, char_le_iff, ha, hz, hA, hZ]
    omega

theorem isUAlpha_eq (c : Char) : isUAlpha c = isIdentStart c := rfl
theorem isIdChar_eq (c : Char) : isIdChar c = isIdentCont c := by
  simp only [isIdChar, isUAlpha, isIdentCont, isAsciiAlnum]
  cases isAsciiAlpha c <;> cases isAsciiDigit c <;> cases (c == '_') <;> rfl

/-- a character of class `p` differs from any character outside `p` -/
theorem ne_of_class {p : Char → Bool} {c d : Char} (h : p c = true) (hd : p d = false) : c ≠ d := by
  intro e; subst e; rw [h] at hd; cases hd

/-! ### arms that do not fire -/

theorem armWhitespace_none {c : Char} {r : List Char} (h : isWhitespace c = false) : armWhitespace c r = none := by
  simp [armWhitespace, h]

theorem armLineComment_none {c : Char} {r : List Char} (h : c ≠ '/') : armLineComment c r = none := by
  unfold armLineComment
  split
  · exact absurd rfl h
  · rfl

theorem armBlockComment_none {c : Char} {r : List Char} (h : c ≠ '/') : armBlockComment c r = none := by
  unfold armBlockComment
  split
  · exact absurd rfl h
  · rfl

theorem armDigit_none {c : Char} {r : List Char} (h : isAsciiDigit c = false) : armDigit c r = none := by
  simp [armDigit, h]

theorem armSign_none {c : Char} {r : List Char} (h1 : c ≠ '-') (h2 : c ≠ '+') : armSign c r = none := by
  simp [armSign, h1, h2]

theorem next_of_firstArm {c : Char} {r : List Char} {o : Out} (h : firstArm arms c r = some o) :
    next (c :: r) = o := by
  simp only [next, h]

theorem armDigit_some {c : Char} (r : List Char) (h : isAsciiDigit c = true) :
    armDigit c r = some (if isDigitLeadingIdent c r then
      { kind := .Id, text := c :: r.takeWhile isIdentCont, rest := r.dropWhile isIdentCont }
      else lexNumber c r) := by
  simp only [armDigit, h, if_true]
  split <;> rfl

theorem next_digit {c : Char} (r : List Char) (h : isAsciiDigit c = true) :
    next (c :: r) = (if isDigitLeadingIdent c r then
      { kind := .Id, text := c :: r.takeWhile isIdentCont, rest := r.dropWhile isIdentCont }
      else lexNumber c r) := by
  have hs : c ≠ '/' := ne_of_class h (by decide)
  apply next_of_firstArm
  simp only [arms, firstArm, armWhitespace_none (digit_not_ws h), armLineComment_none hs,
    armBlockComment_none hs, armDigit_some r h]

theorem next_identStart {c : Char} (r : List Char) (h : isIdentStart c = true) :
    next (c :: r) = { kind := (lookup Tables.keywords (c :: r.takeWhile isIdentCont)).getD .Id,
                      text := c :: r.takeWhile isIdentCont, rest := r.dropWhile isIdentCont } := by
  have hs : c ≠ '/' := ne_of_class h (by decide)
  apply next_of_firstArm
  simp only [arms, firstArm, armWhitespace_none (identStart_not_ws h), armLineComment_none hs,
    armBlockComment_none hs, armDigit_none (identStart_not_digit h),
    armSign_none (ne_of_class h (by decide)) (ne_of_class h (by decide))]
  simp only [armIdent, h, if_true]


/-! ### what follows a token -/

/-- the text starts like a separator: a blank, or `//`, or `/*` -/
def startsSep : List Char → Bool
  | c :: r => Sep.isBlank c || (c == '/' && (match r with | d :: _ => d == '/' || d == '*' | [] => false))
  | [] => false

/-- what the conformance theorem provides after each token: a separator (or the end of input) -/
def Follow (rest : List Char) : Prop := rest = [] ∨ startsSep rest = true

theorem headNot_of_startsSep {p : Char → Bool}
    (hp : p ' ' = false ∧ p '\t' = false ∧ p '\n' = false ∧ p '\r' = false ∧ p '/' = false)
    {rest : List Char} (h : startsSep rest = true) : HeadNot p rest := by
  intro c r e
  subst e
  simp only [startsSep, Sep.isBlank, Bool.or_eq_true, beq_iff_eq, Bool.and_eq_true] at h
  rcases h with (((h | h) | h) | h) | ⟨h, _⟩ <;> subst h <;> simp [hp]

theorem Follow.headNot {p : Char → Bool}
    (hp : p ' ' = false ∧ p '\t' = false ∧ p '\n' = false ∧ p '\r' = false ∧ p '/' = false)
    {rest : List Char} (h : Follow rest) : HeadNot p rest := by
  rcases h with h | h
  · subst h; exact HeadNot.nil p
  · exact headNot_of_startsSep hp h

theorem Follow.identCont {rest : List Char} (h : Follow rest) : HeadNot isIdentCont rest :=
  h.headNot (by decide)

theorem HeadNot.append {p : Char → Bool} {l r : List Char} (hl : ∀ x ∈ l, p x = false) (hr : HeadNot p r) :
    HeadNot p (l ++ r) := by
  cases l with
  | nil => exact hr
  | cons a l => exact HeadNot.cons (hl a (by simp))

/-! ### identifiers, keywords -/

theorem lookup_none {tab : List (List Char × TokenKind)} {w : List Char}
    (h : (tab.map Prod.fst).contains w = false) : lookup tab w = none := by
  induction tab with
  | nil => rfl
  | cons p t ih =>
    obtain ⟨a, b⟩ := p
    simp only [List.map_cons, List.contains_cons, Bool.or_eq_false_iff] at h
    simp only [lookup]
    have : (a == w) = false := by
      rw [Bool.eq_false_iff]; intro e; have e' := eq_of_beq e; subst e'; simp at h
    simp only [this, Bool.false_eq_true, if_false]
    exact ih h.2

theorem next_identlike (a : Char) (cont rest : List Char) (ha : isIdentStart a = true)
    (hc : ∀ x ∈ cont, isIdentCont x = true) (hr : HeadNot isIdentCont rest) :
    next (a :: cont ++ rest) =
      { kind := (lookup Tables.keywords (a :: cont)).getD .Id, text := a :: cont, rest := rest } := by
  rw [List.cons_append, next_identStart _ ha, takeWhile_append_of_all hc hr, dropWhile_append_of_all hc hr]


theorem of_mem_takeWhile {p : Char → Bool} {l : List Char} {x : Char} (h : x ∈ l.takeWhile p) : p x = true := by
  induction l with
  | nil => cases h
  | cons a l ih =>
    rw [List.takeWhile_cons] at h
    split at h
    · rename_i hp
      rcases List.mem_cons.mp h with e | e
      · rw [e]; exact hp
      · exact ih e
    · cases h

/-- decomposition of a text matching `TokIdentifier` -/
theorem matchesIdentifier_split {s : List Char} (h : matchesIdentifier s = true) :
    ∃ ds a cont, s = ds ++ a :: cont ∧ (∀ x ∈ ds, isAsciiDigit x = true) ∧ isIdentStart a = true ∧
      (∀ x ∈ cont, isIdentCont x = true) := by
  unfold matchesIdentifier at h
  split at h
  · rename_i a cont hd
    simp only [Bool.and_eq_true, List.all_eq_true] at h
    refine ⟨s.takeWhile isAsciiDigit, a, cont, ?_, ?_, h.1, ?_⟩
    · rw [← hd, List.takeWhile_append_dropWhile]
    · intro x hx; exact of_mem_takeWhile hx
    · intro x hx; rw [← isIdChar_eq]; exact h.2 x hx
  · cases h

theorem isDigitLeadingIdent_ident (d a : Char) (ds cont rest : List Char)
    (hds : ∀ x ∈ ds, isAsciiDigit x = true) (ha : isIdentStart a = true)
    (hr : HeadNot isIdentCont rest)
    (hx : looksHex (d :: ds ++ a :: cont) = false) (hb : looksBin (d :: ds ++ a :: cont) = false) :
    isDigitLeadingIdent d (ds ++ a :: (cont ++ rest)) = true := by
  have hdrop : (ds ++ a :: (cont ++ rest)).dropWhile isAsciiDigit = a :: (cont ++ rest) :=
    dropWhile_append_of_all hds (HeadNot.cons (identStart_not_digit ha))
  unfold isDigitLeadingIdent
  simp only [hdrop]
  cases hcr : cont ++ rest with
  | nil => simpa using ha
  | cons c t =>
    simp only []
    -- the character after `0x` / `0b` is not a digit of that base
    have key : d = '0' → ds = [] → (a = 'x' → isAsciiHex c = false) ∧ (a = 'b' → (c == '0' || c == '1') = false) := by
      intro hd0 hds0
      subst hd0 hds0
      cases cont with
      | nil =>
        simp only [List.nil_append] at hcr
        have hcc := hr c t hcr
        constructor
        · intro _
          cases hh : isAsciiHex c with
          | false => rfl
          | true => rw [hex_cont hh] at hcc; cases hcc
        · intro _
          cases hh : (c == '0' || c == '1') with
          | false => rfl
          | true =>
            have hc' : isIdentCont c = true := by
              simp only [Bool.or_eq_true, beq_iff_eq] at hh
              rcases hh with e | e <;> subst e <;> decide
            rw [hc'] at hcc; cases hcc
      | cons c' t' =>
        simp only [List.cons_append, List.cons.injEq] at hcr
        obtain ⟨rfl, _⟩ := hcr
        constructor
        · intro e; subst e; simpa [looksHex] using hx
        · intro e; subst e; simpa [looksBin, isBinDigit] using hb
    have k1 : (a == 'x' && (d == '0' && (a :: c :: t).length == (ds ++ a :: c :: t).length) && isAsciiHex c) = false := by
      rw [Bool.eq_false_iff]
      intro hc
      simp only [Bool.and_eq_true, beq_iff_eq, List.length_cons, List.length_append] at hc
      obtain ⟨⟨hax, hd0, hlen⟩, hm⟩ := hc
      have hds' : ds = [] := List.eq_nil_of_length_eq_zero (by omega)
      rw [(key hd0 hds').1 hax] at hm; cases hm
    have k2 : (a == 'b' && (d == '0' && (a :: c :: t).length == (ds ++ a :: c :: t).length) && (c == '0' || c == '1')) = false := by
      rw [Bool.eq_false_iff]
      intro hc
      simp only [Bool.and_eq_true, beq_iff_eq, List.length_cons, List.length_append] at hc
      obtain ⟨⟨hax, hd0, hlen⟩, hm⟩ := hc
      have hds' : ds = [] := List.eq_nil_of_length_eq_zero (by omega)
      rw [(key hd0 hds').2 hax] at hm; cases hm
    rw [k1, k2]; simpa using ha

/-- `TokIdentifier` -/
theorem next_ident (s rest : List Char) (hwf : (SpecTok.ident s).WF) (hf : Follow rest) :
    next (s ++ rest) = { kind := .Id, text := s, rest := rest } := by
  simp only [SpecTok.WF, SpecTok.wf, Bool.and_eq_true, Bool.not_eq_true'] at hwf
  obtain ⟨⟨⟨hm, hk⟩, hx⟩, hb⟩ := hwf
  obtain ⟨ds, a, cont, rfl, hds, ha, hc⟩ := matchesIdentifier_split hm
  have hr := hf.identCont
  cases ds with
  | nil =>
    rw [List.nil_append] at hk ⊢
    rw [next_identlike a cont rest ha hc hr, lookup_none hk]; rfl
  | cons d ds =>
    have hd : isAsciiDigit d = true := hds d (by simp)
    have hds' : ∀ x ∈ ds, isAsciiDigit x = true := fun x hx => hds x (by simp [hx])
    have hall : ∀ x ∈ ds ++ a :: cont, isIdentCont x = true := by
      intro x hx
      rcases List.mem_append.mp hx with h | h
      · exact digit_cont (hds' x h)
      · rcases List.mem_cons.mp h with h | h
        · rw [h]; exact identStart_cont ha
        · exact hc x h
    have e : (d :: ds ++ a :: cont) ++ rest = d :: (ds ++ a :: (cont ++ rest)) := by simp
    rw [e, next_digit _ hd, isDigitLeadingIdent_ident d a ds cont rest hds' ha hr hx hb]
    have e2 : ds ++ a :: (cont ++ rest) = (ds ++ a :: cont) ++ rest := by simp
    rw [e2, takeWhile_append_of_all hall hr, dropWhile_append_of_all hall hr]
    rfl

/-! ### keywords, bang operators (facts about the generated tables, by evaluation) -/

def identShape : List Char → Bool
  | a :: cont => isIdentStart a && cont.all isIdentCont
  | [] => false

theorem keywords_shape : Tables.keywords.all (fun p => identShape p.1) = true := by decide +kernel

theorem keywords_lookup : Tables.keywords.all (fun p => lookup Tables.keywords p.1 == some p.2) = true := by
  decide +kernel

theorem bangTable_shape : Tables.bangTable.all (fun p => p.1.all isAsciiAlpha) = true := by decide +kernel

theorem bangTable_lookup : Tables.bangTable.all (fun p => lookup Tables.bangTable p.1 == some p.2) = true := by
  decide +kernel

/-- keyword `w` ↦ its kind -/
theorem next_keyword (w : List Char) (k : TokenKind) (rest : List Char) (hwf : (SpecTok.keyword w k).WF)
    (hf : Follow rest) : next (w ++ rest) = { kind := k, text := w, rest := rest } := by
  simp only [SpecTok.WF, SpecTok.wf, List.contains_iff_mem] at hwf
  have hs := List.all_eq_true.mp keywords_shape _ hwf
  have hl := List.all_eq_true.mp keywords_lookup _ hwf
  simp only [beq_iff_eq] at hl hs
  cases w with
  | nil => simp [identShape] at hs
  | cons a cont =>
    simp only [identShape, Bool.and_eq_true, List.all_eq_true] at hs
    rw [next_identlike a cont rest hs.1 hs.2 hf.identCont, hl]; rfl

/-- `!` + bang operator name ↦ its kind -/
theorem next_bang (w : List Char) (k : TokenKind) (rest : List Char) (hwf : (SpecTok.bang w k).WF)
    (hf : Follow rest) : next ('!' :: w ++ rest) = { kind := k, text := '!' :: w, rest := rest } := by
  simp only [SpecTok.WF, SpecTok.wf, List.contains_iff_mem] at hwf
  have hs := List.all_eq_true.mp bangTable_shape _ hwf
  have hl := List.all_eq_true.mp bangTable_lookup _ hwf
  simp only [beq_iff_eq, List.all_eq_true] at hl hs
  have hr : HeadNot isAsciiAlpha rest := hf.headNot (by decide)
  have h : firstArm arms '!' (w ++ rest) = armBang '!' (w ++ rest) := rfl
  rw [List.cons_append]
  apply next_of_firstArm
  rw [h]
  simp only [armBang, beq_self_eq_true, if_true, takeWhile_append_of_all hs hr, dropWhile_append_of_all hs hr, hl]

/-- `$` + name -/
theorem next_varName (s rest : List Char) (hwf : (SpecTok.varName s).WF) (hf : Follow rest) :
    next ('$' :: s ++ rest) = { kind := .VarName, text := '$' :: s, rest := rest } := by
  simp only [SpecTok.WF, SpecTok.wf] at hwf
  cases s with
  | nil => cases hwf
  | cons a cont =>
    simp only [Bool.and_eq_true, List.all_eq_true] at hwf
    have ha : isIdentStart a = true := hwf.1
    have hc : ∀ x ∈ cont, isIdentCont x = true := fun x hx => by rw [← isIdChar_eq]; exact hwf.2 x hx
    have h : firstArm arms '$' (a :: cont ++ rest) = armVarName '$' (a :: cont ++ rest) := rfl
    rw [List.cons_append]
    apply next_of_firstArm
    rw [h]
    simp only [armVarName, beq_self_eq_true, if_true, List.cons_append, ha,
      takeWhile_append_of_all hc hf.identCont, dropWhile_append_of_all hc hf.identCont]

/-! ### integers -/

theorem digitVal_eq : digitVal = digitValue := by
  funext c; unfold digitVal digitValue; rfl

theorem natOfDigits_eq (base : Nat) (ds : List Char) : natOfDigits base ds = valueOf base ds := by
  unfold natOfDigits valueOf; rw [digitVal_eq]

theorem u64Max_eq : u64Max = 2 ^ 64 - 1 := by decide
theorem i64MinAbs_eq : i64MinAbs = 2 ^ 63 := by decide

theorem signOnly_digit {c : Char} (r : List Char) (h : isAsciiDigit c = true) : signOnly c r = none := by
  have h1 : (c == '+') = false := by rw [beq_eq_false_iff_ne]; exact ne_of_class h (by decide)
  have h2 : (c == '-') = false := by rw [beq_eq_false_iff_ne]; exact ne_of_class h (by decide)
  unfold signOnly
  split
  · simp [h1, h2]
  · simp [h1, h2]

theorem signOnly_before_digit (c d : Char) (r : List Char) (h : isAsciiDigit d = true) :
    signOnly c (d :: r) = none := by
  simp [signOnly, h]

theorem alpha_not_digit {c : Char} (h : isAsciiAlpha c = true) : isAsciiDigit c = false :=
  identStart_not_digit (by simp [isIdentStart, h])

theorem numPrefix_dec (c : Char) (r : List Char) (h : HeadNot isAsciiAlpha r) :
    numPrefix c r = (10, [], r) := by
  unfold numPrefix
  split
  · split
    · exact absurd (h 'b' _ rfl) (by decide)
    · exact absurd (h 'x' _ rfl) (by decide)
    · rfl
  · rfl

theorem digitPred_10 : digitPred 10 = isAsciiDigit := rfl
theorem digitPred_16 : digitPred 16 = isAsciiHex := rfl
theorem digitPred_2 : digitPred 2 = isBinDigit := rfl

theorem isDigitLeadingIdent_digits (d : Char) (ds rest : List Char)
    (hds : ∀ x ∈ ds, isAsciiDigit x = true) (hr : HeadNot isIdentCont rest) :
    isDigitLeadingIdent d (ds ++ rest) = false := by
  have hdrop : (ds ++ rest).dropWhile isAsciiDigit = rest :=
    dropWhile_append_of_all hds (hr.mono fun c => digit_cont)
  unfold isDigitLeadingIdent
  simp only [hdrop]
  cases rest with
  | nil => rfl
  | cons a t =>
    have ha := hr a t rfl
    have hx : (a == 'x') = false := by
      rw [beq_eq_false_iff_ne]; intro e; subst e; revert ha; decide
    have hb : (a == 'b') = false := by
      rw [beq_eq_false_iff_ne]; intro e; subst e; revert ha; decide
    have hs : isIdentStart a = false := by
      cases h : isIdentStart a with
      | false => rfl
      | true => rw [identStart_cont h] at ha; cases ha
    simp only [hx, hb, hs, Bool.false_and, Bool.false_eq_true, if_false]

/-- unsigned `DecimalInteger` -/
theorem next_decInt_none (ds rest : List Char) (hwf : (SpecTok.decInt .none ds).WF) (hf : Follow rest) :
    next (ds ++ rest) = { kind := .IntVal, text := ds, rest := rest } := by
  simp only [SpecTok.WF, SpecTok.wf, Bool.and_eq_true, List.all_eq_true, decide_eq_true_eq] at hwf
  obtain ⟨⟨hne, hds⟩, hv⟩ := hwf
  have hr := hf.identCont
  cases ds with
  | nil => simp at hne
  | cons d ds =>
    have hd : isAsciiDigit d = true := hds d (by simp)
    have hds' : ∀ x ∈ ds, isAsciiDigit x = true := fun x hx => hds x (by simp [hx])
    have hna : HeadNot isAsciiAlpha (ds ++ rest) :=
      HeadNot.append (fun x hx => by
        cases h : isAsciiAlpha x with
        | false => rfl
        | true => have := alpha_not_digit h; rw [hds' x hx] at this; cases this)
        (hr.mono fun c => alpha_cont)
    have hrd : HeadNot isAsciiDigit rest := hr.mono fun c => digit_cont
    have h1 : (d == '-') = false := by rw [beq_eq_false_iff_ne]; exact ne_of_class hd (by decide)
    have h2 : (d == '+') = false := by rw [beq_eq_false_iff_ne]; exact ne_of_class hd (by decide)
    rw [List.cons_append, next_digit _ hd, isDigitLeadingIdent_digits d ds rest hds' hr]
    simp only [Bool.false_eq_true, if_false, lexNumber, signOnly_digit _ hd, numPrefix_dec d _ hna, digitPred_10,
      takeWhile_append_of_all hds' hrd, dropWhile_append_of_all hds' hrd]
    have hvalid : numberValid d 10 ds = true := by
      simp only [numberValid, h1, h2, natOfDigits_eq, u64Max_eq]
      simpa using hv
    rw [hvalid]
    rfl

/-- signed `DecimalInteger`; `c` is the sign character -/
theorem next_signed (c : Char) (ds rest : List Char) (hc : c = '-' ∨ c = '+')
    (hne : ds ≠ []) (hds : ∀ x ∈ ds, isAsciiDigit x = true)
    (hv : numberValid c 10 ds = true) (hf : Follow rest) :
    next (c :: ds ++ rest) = { kind := .IntVal, text := c :: ds, rest := rest } := by
  have hrd : HeadNot isAsciiDigit rest := hf.identCont.mono fun c => digit_cont
  have harm : firstArm arms c (ds ++ rest) = some (lexNumber c (ds ++ rest)) := by
    rcases hc with rfl | rfl <;> rfl
  have hpre : numPrefix c (ds ++ rest) = (10, [], ds ++ rest) := by
    rcases hc with rfl | rfl <;> rfl
  have hsign : signOnly c (ds ++ rest) = none := by
    cases ds with
    | nil => exact absurd rfl hne
    | cons d ds' => exact signOnly_before_digit c d _ (hds d (by simp))
  rw [List.cons_append]
  apply next_of_firstArm
  rw [harm]
  simp only [lexNumber, hsign, hpre, digitPred_10, takeWhile_append_of_all hds hrd,
    dropWhile_append_of_all hds hrd, hv, if_true]
  rfl

theorem next_decInt_minus (ds rest : List Char) (hwf : (SpecTok.decInt .minus ds).WF) (hf : Follow rest) :
    next ('-' :: ds ++ rest) = { kind := .IntVal, text := '-' :: ds, rest := rest } := by
  simp only [SpecTok.WF, SpecTok.wf, Bool.and_eq_true, List.all_eq_true, decide_eq_true_eq,
    Bool.not_eq_true', List.isEmpty_eq_false_iff] at hwf
  obtain ⟨⟨hne, hds⟩, hv⟩ := hwf
  refine next_signed '-' ds rest (Or.inl rfl) hne hds ?_ hf
  have : ds.isEmpty = false := by simpa using hne
  simp only [numberValid, natOfDigits_eq, i64MinAbs_eq, this]
  simpa using hv

theorem next_decInt_plus (ds rest : List Char) (hwf : (SpecTok.decInt .plus ds).WF) (hf : Follow rest) :
    next ('+' :: ds ++ rest) = { kind := .IntVal, text := '+' :: ds, rest := rest } := by
  simp only [SpecTok.WF, SpecTok.wf, Bool.and_eq_true, List.all_eq_true, decide_eq_true_eq,
    Bool.not_eq_true', List.isEmpty_eq_false_iff] at hwf
  obtain ⟨⟨hne, hds⟩, hv⟩ := hwf
  refine next_signed '+' ds rest (Or.inr rfl) hne hds ?_ hf
  have : ds.isEmpty = false := by simpa using hne
  simp only [numberValid, natOfDigits_eq, u64Max_eq, this]
  simpa using hv

/-- `HexInteger` -/
theorem next_hexInt (ds rest : List Char) (hwf : (SpecTok.hexInt ds).WF) (hf : Follow rest) :
    next ('0' :: 'x' :: ds ++ rest) = { kind := .IntVal, text := '0' :: 'x' :: ds, rest := rest } := by
  simp only [SpecTok.WF, SpecTok.wf, Bool.and_eq_true, List.all_eq_true, decide_eq_true_eq,
    Bool.not_eq_true', List.isEmpty_eq_false_iff] at hwf
  obtain ⟨⟨hne, hds⟩, hv⟩ := hwf
  have hrh : HeadNot isAsciiHex rest := hf.identCont.mono fun c => hex_cont
  have hemp : ds.isEmpty = false := by simpa using hne
  cases ds with
  | nil => exact absurd rfl hne
  | cons h ds' =>
    have hh : isAsciiHex h = true := hds h (by simp)
    have hdl : isDigitLeadingIdent '0' ('x' :: (h :: ds' ++ rest)) = false := by
      simp [isDigitLeadingIdent, isAsciiDigit, hh]
    have hvalid : numberValid '0' 16 (h :: ds') = true := by
      simp only [numberValid, natOfDigits_eq, u64Max_eq, hemp]
      simpa using hv
    have e : '0' :: 'x' :: (h :: ds') ++ rest = '0' :: ('x' :: (h :: ds' ++ rest)) := by simp
    rw [e, next_digit _ (by decide), hdl]
    have hs : signOnly '0' ('x' :: (h :: ds' ++ rest)) = none := rfl
    have hp : numPrefix '0' ('x' :: (h :: ds' ++ rest)) = (16, ['x'], h :: ds' ++ rest) := rfl
    simp only [Bool.false_eq_true, if_false, lexNumber, hs, hp, digitPred_16,
      takeWhile_append_of_all hds hrh, dropWhile_append_of_all hds hrh, hvalid, if_true]
    rfl

theorem binDigit_cont {c : Char} (h : isBinDigit c = true) : isIdentCont c = true := by
  simp only [isBinDigit, Bool.or_eq_true, beq_iff_eq] at h
  rcases h with e | e <;> subst e <;> decide

/-- `BinInteger` -/
theorem next_binInt (ds rest : List Char) (hwf : (SpecTok.binInt ds).WF) (hf : Follow rest) :
    next ('0' :: 'b' :: ds ++ rest) = { kind := .BinaryIntVal, text := '0' :: 'b' :: ds, rest := rest } := by
  simp only [SpecTok.WF, SpecTok.wf, Bool.and_eq_true, List.all_eq_true, decide_eq_true_eq,
    Bool.not_eq_true', List.isEmpty_eq_false_iff] at hwf
  obtain ⟨⟨hne, hds⟩, hv⟩ := hwf
  have hrh : HeadNot isBinDigit rest := hf.identCont.mono fun c => binDigit_cont
  have hemp : ds.isEmpty = false := by simpa using hne
  cases ds with
  | nil => exact absurd rfl hne
  | cons h ds' =>
    have hh : isBinDigit h = true := hds h (by simp)
    have hdl : isDigitLeadingIdent '0' ('b' :: (h :: ds' ++ rest)) = false := by
      simp only [isBinDigit] at hh
      simp [isDigitLeadingIdent, isAsciiDigit, hh]
    have hvalid : numberValid '0' 2 (h :: ds') = true := by
      simp only [numberValid, natOfDigits_eq, u64Max_eq, hemp]
      simpa using hv
    have e : '0' :: 'b' :: (h :: ds') ++ rest = '0' :: ('b' :: (h :: ds' ++ rest)) := by simp
    rw [e, next_digit _ (by decide), hdl]
    have hs : signOnly '0' ('b' :: (h :: ds' ++ rest)) = none := rfl
    have hp : numPrefix '0' ('b' :: (h :: ds' ++ rest)) = (2, ['b'], h :: ds' ++ rest) := rfl
    simp only [Bool.false_eq_true, if_false, lexNumber, hs, hp, digitPred_2,
      takeWhile_append_of_all hds hrh, dropWhile_append_of_all hds hrh, hvalid, if_true]
    rfl

/-! ### string literals -/

theorem scanString_go_items (items : List StrItem) (h : ∀ i ∈ items, i.wf = true) (rest acc : List Char) :
    scanString.go ((items.map StrItem.render).flatten ++ '"' :: rest) false acc =
      (acc.reverse ++ ((items.map StrItem.render).flatten ++ ['"']), rest, .closed) := by
  induction items generalizing acc with
  | nil => simp [scanString.go]
  | cons i items ih =>
    have hi := h i (by simp)
    have ih' := fun acc => ih (fun j hj => h j (by simp [hj])) acc
    cases i with
    | ch c =>
      simp only [StrItem.wf, Bool.and_eq_true, bne_iff_ne, ne_eq] at hi
      obtain ⟨⟨⟨h1, h2⟩, h3⟩, h4⟩ := hi
      have b1 : (c == '"') = false := by simpa using h1
      have b2 : (c == '\\') = false := by simpa using h2
      have b3 : (c == '\r') = false := by simpa using h3
      have b4 : (c == '\n') = false := by simpa using h4
      simp only [List.map_cons, List.flatten_cons, StrItem.render, List.cons_append, List.nil_append,
        scanString.go, b1, b2, b3, b4, Bool.false_and, Bool.false_eq_true, if_false,
        Bool.or_self, ih', List.reverse_cons, List.append_assoc]
    | esc c =>
      simp only [StrItem.wf, Bool.or_eq_true, beq_iff_eq] at hi
      have hn : (c == '\r' || c == '\n') = false := by
        rcases hi with (((e | e) | e) | e) | e <;> subst e <;> decide
      simp only [List.map_cons, List.flatten_cons, StrItem.render, List.cons_append, List.nil_append,
        scanString.go, beq_self_eq_true, Bool.not_false, Bool.and_self, if_true, Bool.not_true, Bool.and_false,
        Bool.false_eq_true, if_false, hn, ih', List.reverse_cons, List.append_assoc]

/-- `TokString` (needs nothing from what follows) -/
theorem next_str (items : List StrItem) (rest : List Char) (hwf : (SpecTok.str items).WF) :
    next ('"' :: ((items.map StrItem.render).flatten ++ ['"']) ++ rest) =
      { kind := .StrVal, text := '"' :: ((items.map StrItem.render).flatten ++ ['"']), rest := rest } := by
  simp only [SpecTok.WF, SpecTok.wf, List.all_eq_true] at hwf
  have hsc : scanString ((items.map StrItem.render).flatten ++ '"' :: rest) =
      ((items.map StrItem.render).flatten ++ ['"'], rest, .closed) := by
    rw [scanString, scanString_go_items items hwf]; rfl
  have e : '"' :: ((items.map StrItem.render).flatten ++ ['"']) ++ rest =
      '"' :: ((items.map StrItem.render).flatten ++ '"' :: rest) := by simp
  have harm : ∀ r, firstArm arms '"' r = armString '"' r := fun _ => rfl
  rw [e]
  apply next_of_firstArm
  rw [harm]
  simp only [armString, beq_self_eq_true, if_true, hsc]

/-! ### code fragments -/

theorem splitAt2_go_body (body rest acc : List Char) (h : containsPair '}' ']' body = false) :
    splitAt2.go '}' ']' (body ++ '}' :: ']' :: rest) acc = (acc.reverse ++ body, '}' :: ']' :: rest) := by
  induction body generalizing acc with
  | nil => simp [splitAt2.go]
  | cons c b ih =>
    cases b with
    | nil =>
      simp only [List.cons_append, List.nil_append, splitAt2.go]
      simp
    | cons d b' =>
      simp only [containsPair, Bool.or_eq_false_iff] at h
      have := ih (c :: acc) h.2
      simp only [List.cons_append] at this
      simp only [List.cons_append, splitAt2.go, h.1, Bool.false_eq_true, if_false, this]
      simp

/-- `TokCode` (needs nothing from what follows) -/
theorem next_code (body rest : List Char) (hwf : (SpecTok.code body).WF) :
    next ('[' :: '{' :: (body ++ ['}', ']']) ++ rest) =
      { kind := .CodeFragment, text := '[' :: '{' :: (body ++ ['}', ']']), rest := rest } := by
  simp only [SpecTok.WF, SpecTok.wf, Bool.not_eq_true'] at hwf
  have hsp : splitAt2 '}' ']' (body ++ '}' :: ']' :: rest) = (body, '}' :: ']' :: rest) := by
    rw [splitAt2, splitAt2_go_body body rest [] hwf]; rfl
  have e : '[' :: '{' :: (body ++ ['}', ']']) ++ rest = '[' :: '{' :: (body ++ '}' :: ']' :: rest) := by simp
  have harm : ∀ r, firstArm arms '[' ('{' :: r) = armCode '[' ('{' :: r) := fun _ => rfl
  rw [e]
  apply next_of_firstArm
  rw [harm]
  simp only [armCode, hsp, eatIf2]
  simp

/-! ### punctuation -/

theorem takeWhile_headNot {p : Char → Bool} {r : List Char} (h : HeadNot p r) : r.takeWhile p = [] := by
  simpa using takeWhile_append_of_all (l := []) (fun _ hx => by cases hx) h

theorem next_sign (c : Char) (k : TokenKind) (rest : List Char)
    (hc : (c = '-' ∧ k = .Minus) ∨ (c = '+' ∧ k = .Plus)) (hs : startsSep rest = true) :
    next (c :: rest) = { kind := k, text := [c], rest := rest } := by
  have hd : HeadNot isAsciiDigit rest := headNot_of_startsSep (by decide) hs
  have harm : firstArm arms c rest = some (lexNumber c rest) := by
    rcases hc with ⟨rfl, _⟩ | ⟨rfl, _⟩ <;> rfl
  apply next_of_firstArm
  rw [harm]
  cases rest with
  | nil => cases hs
  | cons c2 r2 =>
    have h2 := hd c2 r2 rfl
    rcases hc with ⟨rfl, rfl⟩ | ⟨rfl, rfl⟩ <;> simp [lexNumber, signOnly, h2]

theorem next_lsquare (rest : List Char) (hf : Follow rest) :
    next ('[' :: rest) = { kind := .LSquare, text := ['['], rest := rest } := by
  have hh : HeadNot (· == '{') rest := hf.headNot (by decide)
  have hcode : armCode '[' rest = none := by
    unfold armCode
    split
    · rename_i r1 _ _ _
      exact absurd (hh '{' _ rfl) (by decide)
    · rfl
  have harm : firstArm arms '[' rest = (match armCode '[' rest with
      | some o => some o
      | none => some { kind := .LSquare, text := ['['], rest := rest }) := rfl
  apply next_of_firstArm
  rw [harm, hcode]

theorem next_dot (rest : List Char) (hf : Follow rest) :
    next ('.' :: rest) = { kind := .Dot, text := ['.'], rest := rest } := by
  have hh : HeadNot (· == '.') rest := hf.headNot (by decide)
  have harm : firstArm arms '.' rest = armDot '.' rest := rfl
  apply next_of_firstArm
  rw [harm]
  simp only [armDot, beq_self_eq_true, if_true]
  split
  · exact absurd (hh '.' _ rfl) (by decide)
  · exact absurd (hh '.' _ rfl) (by decide)
  · rfl

theorem next_paste (rest : List Char) (hf : Follow rest) :
    next ('#' :: rest) = { kind := .Paste, text := ['#'], rest := rest } := by
  have hh : HeadNot isAlphabetic rest := hf.headNot (by decide)
  have harm : firstArm arms '#' rest = armHash '#' rest := rfl
  have hl : lookup Tables.prepTable [] = none := rfl
  apply next_of_firstArm
  rw [harm]
  simp only [armHash, beq_self_eq_true, if_true, takeWhile_headNot hh, hl]

/-- punctuation; `-` and `+` need a separator to follow (at the end of input the lexer reads them
as the start of a number) -/
theorem next_punct (p : Punct) (rest : List Char) (hf : Follow rest)
    (hs : (SpecTok.punct p).isSignPunct = true → rest ≠ []) :
    next (p.render ++ rest) = { kind := p.kind, text := p.render, rest := rest } := by
  have hsep : (SpecTok.punct p).isSignPunct = true → startsSep rest = true := by
    intro h
    rcases hf with h' | h'
    · exact absurd h' (hs h)
    · exact h'
  cases p with
  | minus => exact next_sign '-' .Minus rest (Or.inl ⟨rfl, rfl⟩) (hsep rfl)
  | plus => exact next_sign '+' .Plus rest (Or.inr ⟨rfl, rfl⟩) (hsep rfl)
  | lsquare => exact next_lsquare rest hf
  | dot => exact next_dot rest hf
  | paste => exact next_paste rest hf
  | _ => rfl

/-! ### all token classes at once -/

/-- **maximal munch**: a well-formed token followed by a separator (or by the end of input,
except for the punctuation `-`/`+`) is lexed as exactly that token -/
theorem next_specTok (t : SpecTok) (rest : List Char) (hwf : t.WF) (hf : Follow rest)
    (hs : t.isSignPunct = true → rest ≠ []) :
    next (t.render ++ rest) = { kind := t.kind, text := t.render, rest := rest } := by
  cases t with
  | ident s => exact next_ident s rest hwf hf
  | keyword w k => exact next_keyword w k rest hwf hf
  | decInt sg ds =>
    cases sg with
    | none => exact next_decInt_none ds rest hwf hf
    | plus => exact next_decInt_plus ds rest hwf hf
    | minus => exact next_decInt_minus ds rest hwf hf
  | hexInt ds => exact next_hexInt ds rest hwf hf
  | binInt ds => exact next_binInt ds rest hwf hf
  | str items => exact next_str items rest hwf
  | code body => exact next_code body rest hwf
  | varName s => exact next_varName s rest hwf hf
  | bang w k => exact next_bang w k rest hwf hf
  | punct p => exact next_punct p rest hf hs

theorem keywords_kinds : Tables.keywords.all (fun p => !p.2.isTrivia && p.2 != .Error) = true := by decide +kernel
theorem bangTable_kinds : Tables.bangTable.all (fun p => !p.2.isTrivia && p.2 != .Error) = true := by decide +kernel

/-- token kinds of the specification are neither trivia nor `Error` -/
theorem SpecTok.kind_ok (t : SpecTok) (hwf : t.WF) : t.kind.isTrivia = false ∧ t.kind ≠ .Error := by
  cases t with
  | keyword w k =>
    simp only [SpecTok.WF, SpecTok.wf, List.contains_iff_mem] at hwf
    have := List.all_eq_true.mp keywords_kinds _ hwf
    simpa [SpecTok.kind] using this
  | bang w k =>
    simp only [SpecTok.WF, SpecTok.wf, List.contains_iff_mem] at hwf
    have := List.all_eq_true.mp bangTable_kinds _ hwf
    simpa [SpecTok.kind] using this
  | punct p => cases p <;> exact ⟨rfl, by decide⟩
  | _ => exact ⟨rfl, by simp [SpecTok.kind]⟩

theorem asciiWs_ws {c : Char} (h : isAsciiWhitespace c = true) : isWhitespace c = true := by
  simp only [isAsciiWhitespace, Bool.or_eq_true, beq_iff_eq] at h
  rcases h with (((e | e) | e) | e) | e <;> subst e <;> decide

theorem not_asciiWs_of_not_ws {c : Char} (h : isWhitespace c = false) : isAsciiWhitespace c = false := by
  cases h' : isAsciiWhitespace c with
  | false => rfl
  | true => rw [asciiWs_ws h'] at h; cases h

/-- no token starts with a blank -/
theorem SpecTok.render_head (t : SpecTok) (hwf : t.WF) :
    ∃ c r, t.render = c :: r ∧ isAsciiWhitespace c = false := by
  cases t with
  | ident s =>
    simp only [SpecTok.WF, SpecTok.wf, Bool.and_eq_true] at hwf
    obtain ⟨ds, a, cont, rfl, hds, ha, _⟩ := matchesIdentifier_split hwf.1.1.1
    cases ds with
    | nil => exact ⟨a, cont, rfl, not_asciiWs_of_not_ws (identStart_not_ws ha)⟩
    | cons d ds => exact ⟨d, _, rfl, not_asciiWs_of_not_ws (digit_not_ws (hds d (by simp)))⟩
  | keyword w k =>
    simp only [SpecTok.WF, SpecTok.wf, List.contains_iff_mem] at hwf
    have hs := List.all_eq_true.mp keywords_shape _ hwf
    cases w with
    | nil => simp [identShape] at hs
    | cons a cont =>
      simp only [identShape, Bool.and_eq_true] at hs
      exact ⟨a, cont, rfl, not_asciiWs_of_not_ws (identStart_not_ws hs.1)⟩
  | decInt sg ds =>
    cases sg with
    | none =>
      simp only [SpecTok.WF, SpecTok.wf, Bool.and_eq_true, List.all_eq_true] at hwf
      cases ds with
      | nil => simp at hwf
      | cons d ds => exact ⟨d, ds, rfl, not_asciiWs_of_not_ws (digit_not_ws (hwf.1.2 d (by simp)))⟩
    | plus => exact ⟨'+', _, rfl, by decide⟩
    | minus => exact ⟨'-', _, rfl, by decide⟩
  | hexInt ds => exact ⟨'0', _, rfl, by decide⟩
  | binInt ds => exact ⟨'0', _, rfl, by decide⟩
  | str items => exact ⟨'"', _, rfl, by decide⟩
  | code body => exact ⟨'[', _, rfl, by decide⟩
  | varName s => exact ⟨'$', _, rfl, by decide⟩
  | bang w k => exact ⟨'!', _, rfl, by decide⟩
  | punct p => cases p <;> exact ⟨_, _, rfl, by decide⟩

/-! ### separators -/

theorem blank_asciiWs {c : Char} (h : Sep.isBlank c = true) : isAsciiWhitespace c = true := by
  simp only [Sep.isBlank, Bool.or_eq_true, beq_iff_eq] at h
  rcases h with ((e | e) | e) | e <;> subst e <;> decide

/-- a run of blanks, followed by something that is not a blank, is one `Whitespace` token -/
theorem next_ws (c : Char) (cs rest : List Char) (hc : Sep.isBlank c = true)
    (hcs : ∀ x ∈ cs, Sep.isBlank x = true) (hr : HeadNot isAsciiWhitespace rest) :
    next (c :: cs ++ rest) = { kind := .Whitespace, text := c :: cs, rest := rest } := by
  have hcs' : ∀ x ∈ cs, isAsciiWhitespace x = true := fun x hx => blank_asciiWs (hcs x hx)
  have harm : firstArm arms c (cs ++ rest) = some
      { kind := .Whitespace, text := c :: (cs ++ rest).takeWhile isAsciiWhitespace,
        rest := (cs ++ rest).dropWhile isAsciiWhitespace } := by
    simp only [Sep.isBlank, Bool.or_eq_true, beq_iff_eq] at hc
    rcases hc with ((e | e) | e) | e <;> subst e <;> rfl
  rw [List.cons_append]
  apply next_of_firstArm
  rw [harm, takeWhile_append_of_all hcs' hr, dropWhile_append_of_all hcs' hr]

/-- `//` text, followed by a line terminator (or the end of input), is one `LineComment` token -/
theorem next_lineComment (text rest : List Char) (ht : ∀ x ∈ text, (x != '\r' && x != '\n') = true)
    (hr : HeadNot (fun d => !isNewline d) rest) :
    next ('/' :: '/' :: text ++ rest) = { kind := .LineComment, text := '/' :: '/' :: text, rest := rest } := by
  have ht' : ∀ x ∈ text, (fun d => !isNewline d) x = true := by
    intro x hx
    have := ht x hx
    simp only [Bool.and_eq_true, bne_iff_ne, ne_eq] at this
    simp [isNewline, this.1, this.2]
  have harm : ∀ r, firstArm arms '/' ('/' :: r) = some
      { kind := .LineComment, text := '/' :: '/' :: r.takeWhile (fun d => !isNewline d),
        rest := r.dropWhile (fun d => !isNewline d) } :=
    fun _ => rfl
  have e : '/' :: '/' :: text ++ rest = '/' :: '/' :: (text ++ rest) := by simp
  rw [e]
  apply next_of_firstArm
  rw [harm, takeWhile_append_of_all ht' hr, dropWhile_append_of_all ht' hr]

theorem eol_headNot (e : Eol) (x : List Char) : HeadNot (fun d => !isNewline d) (e.render ++ x) := by
  cases e <;> exact HeadNot.cons (by decide)

theorem CBody.render_append_next (b : CBody) (rest : List Char) :
    ∃ t, b.render ++ '*' :: '/' :: rest = b.nextChar :: t := by
  cases b with
  | nil => exact ⟨_, rfl⟩
  | ch c r => exact ⟨_, rfl⟩
  | nest i r => exact ⟨_, rfl⟩

/-- scanning a well-formed comment body at depth `d ≥ 1` arrives, at the same depth, in front of the
`*/` that follows the body -/
theorem scanBlock_go_body (b : CBody) (hb : b.wf = true) (rest : List Char) (d : Nat) (hd : 1 ≤ d)
    (fuel : Nat) (acc : List Char) (hfuel : (b.render ++ '*' :: '/' :: rest).length ≤ fuel) :
    ∃ fuel', ('*' :: '/' :: rest).length ≤ fuel' ∧
      scanBlock.go fuel (b.render ++ '*' :: '/' :: rest) d acc =
        scanBlock.go fuel' ('*' :: '/' :: rest) d (b.render.reverse ++ acc) := by
  induction b generalizing rest d fuel acc with
  | nil => exact ⟨fuel, hfuel, rfl⟩
  | ch c r ih =>
    simp only [CBody.wf, Bool.and_eq_true, Bool.not_eq_true', Bool.and_eq_false_iff] at hb
    obtain ⟨⟨h1, h2⟩, hr⟩ := hb
    obtain ⟨t, ht⟩ := r.render_append_next rest
    cases fuel with
    | zero => simp [CBody.render] at hfuel
    | succ fuel =>
      have hf' : (r.render ++ '*' :: '/' :: rest).length ≤ fuel := by
        simp only [CBody.render, List.cons_append, List.length_cons] at hfuel; omega
      obtain ⟨fuel', hle, hgo⟩ := ih hr rest d hd fuel (c :: acc) hf'
      refine ⟨fuel', hle, ?_⟩
      have step : scanBlock.go (fuel + 1) (c :: (r.render ++ '*' :: '/' :: rest)) d acc =
          scanBlock.go fuel (r.render ++ '*' :: '/' :: rest) d (c :: acc) := by
        rw [ht]
        simp only [scanBlock.go]
        split
        · rename_i heq1 heq2
          simp only [List.cons.injEq] at heq2
          rw [← heq2.1] at h2
          simp at h2
        · rename_i heq1 heq2
          simp only [List.cons.injEq] at heq2
          rw [← heq2.1] at h1
          simp at h1
        · rfl
      simp only [CBody.render, List.cons_append, step, hgo, List.reverse_cons, List.append_assoc,
        List.cons_append, List.nil_append]
  | nest i r ihi ihr =>
    simp only [CBody.wf, Bool.and_eq_true] at hb
    cases fuel with
    | zero => simp [CBody.render] at hfuel
    | succ fuel =>
      have e : (CBody.nest i r).render ++ '*' :: '/' :: rest =
          '/' :: '*' :: (i.render ++ '*' :: '/' :: (r.render ++ '*' :: '/' :: rest)) := by
        simp [CBody.render]
      rw [e] at hfuel ⊢
      have hf1 : (i.render ++ '*' :: '/' :: (r.render ++ '*' :: '/' :: rest)).length ≤ fuel := by
        simp only [List.length_cons] at hfuel; omega
      obtain ⟨fuel1, hle1, hgo1⟩ := ihi hb.1 (r.render ++ '*' :: '/' :: rest) (d + 1) (by omega) fuel
        ('*' :: '/' :: acc) hf1
      cases fuel1 with
      | zero => simp at hle1
      | succ fuel1 =>
        have hf2 : (r.render ++ '*' :: '/' :: rest).length ≤ fuel1 := by
          simp only [List.length_cons] at hle1; omega
        obtain ⟨fuel2, hle2, hgo2⟩ := ihr hb.2 rest d hd fuel1
          ('/' :: '*' :: (i.render.reverse ++ '*' :: '/' :: acc)) hf2
        refine ⟨fuel2, hle2, ?_⟩
        have step1 : ∀ s, scanBlock.go (fuel + 1) ('/' :: '*' :: s) d acc =
            scanBlock.go fuel s (d + 1) ('*' :: '/' :: acc) := fun _ => rfl
        have step2 : ∀ s acc', scanBlock.go (fuel1 + 1) ('*' :: '/' :: s) (d + 1) acc' =
            scanBlock.go fuel1 s d ('/' :: '*' :: acc') := by
          intro s acc'
          simp only [scanBlock.go]
          rw [if_neg (by omega)]
          rfl
        rw [step1, hgo1, step2, hgo2]
        simp [CBody.render]

/-- `/*` body `*/` with nested comments is one `BlockComment` token (needs nothing from what follows) -/
theorem next_blockComment (b : CBody) (hb : b.wf = true) (rest : List Char) :
    next ('/' :: '*' :: (b.render ++ ['*', '/']) ++ rest) =
      { kind := .BlockComment, text := '/' :: '*' :: (b.render ++ ['*', '/']), rest := rest } := by
  have harm : ∀ r, firstArm arms '/' ('*' :: r) = some
      { kind := .BlockComment, text := '/' :: '*' :: (scanBlock r).1, rest := (scanBlock r).2 } := fun _ => rfl
  have hsb : scanBlock (b.render ++ '*' :: '/' :: rest) = (b.render ++ ['*', '/'], rest) := by
    obtain ⟨fuel', hle, hgo⟩ := scanBlock_go_body b hb rest 1 (Nat.le_refl 1) _ [] (Nat.le_refl _)
    rw [scanBlock, hgo]
    cases fuel' with
    | zero => simp at hle
    | succ f => simp [scanBlock.go]
  have e : '/' :: '*' :: (b.render ++ ['*', '/']) ++ rest = '/' :: '*' :: (b.render ++ '*' :: '/' :: rest) := by
    simp
  rw [e]
  apply next_of_firstArm
  rw [harm, hsb]

/-! ### runs of separators -/

/-- `text`, in front of `rest`, is lexed into trivia tokens that cover exactly `text` -/
def TriviaRun (text rest : List Char) : Prop :=
  ∃ triv : List Tok, (∀ t ∈ triv, t.kind.isTrivia = true) ∧ (triv.map (·.text)).flatten = text ∧
    allTokens (text ++ rest) = triv ++ allTokens rest

theorem TriviaRun.nil (rest : List Char) : TriviaRun [] rest := ⟨[], by simp, rfl, rfl⟩

theorem TriviaRun.step {a b rest : List Char} {k : TokenKind} (hk : k.isTrivia = true) (ha : a ≠ [])
    (hn : next (a ++ (b ++ rest)) = { kind := k, text := a, rest := b ++ rest })
    (hb : TriviaRun b rest) : TriviaRun (a ++ b) rest := by
  obtain ⟨triv, h1, h2, h3⟩ := hb
  refine ⟨⟨k, a⟩ :: triv, ?_, ?_, ?_⟩
  · intro t ht
    rcases List.mem_cons.mp ht with e | e
    · rw [e]; exact hk
    · exact h1 t e
  · simp [h2]
  · rw [List.append_assoc, allTokens_cons _ (by simp [ha]), hn]
    simp only [h3, List.cons_append]

theorem renderSeps_cons (s : Sep) (more : List Sep) : renderSeps (s :: more) = s.render ++ renderSeps more := by
  simp [renderSeps]

/-- a list of well-formed separators in front of a non-blank is lexed into trivia only; the same holds
with a pending run of blanks in front (which merges with a following whitespace separator) -/
theorem seps_trivia (seps : List Sep) (hwf : ∀ s ∈ seps, s.WF) (rest : List Char)
    (hr : HeadNot isAsciiWhitespace rest) :
    TriviaRun (renderSeps seps) rest ∧
    ∀ w : List Char, w ≠ [] → (∀ x ∈ w, Sep.isBlank x = true) → TriviaRun (w ++ renderSeps seps) rest := by
  induction seps with
  | nil =>
    refine ⟨TriviaRun.nil rest, ?_⟩
    intro w hne hw
    cases w with
    | nil => exact absurd rfl hne
    | cons c cs =>
      have hn := next_ws c cs rest (hw c (by simp)) (fun x hx => hw x (by simp [hx])) hr
      have := TriviaRun.step (a := c :: cs) (b := []) (k := .Whitespace) rfl (by simp) (by simpa using hn)
        (TriviaRun.nil rest)
      simpa [renderSeps] using this
  | cons s more ih =>
    obtain ⟨ihA, ihB⟩ := ih (fun s hs => hwf s (by simp [hs]))
    have hs : s.wf = true := hwf s (by simp)
    rw [renderSeps_cons]
    -- a comment in front: one comment token, then the remaining separators
    have hA : TriviaRun (s.render ++ renderSeps more) rest := by
      cases s with
      | ws cs =>
        simp only [Sep.wf, Bool.and_eq_true, Bool.not_eq_true', List.isEmpty_eq_false_iff, List.all_eq_true] at hs
        exact ihB cs hs.1 hs.2
      | lineComment text eol =>
        simp only [Sep.wf, List.all_eq_true] at hs
        have hn := next_lineComment text (eol.render ++ (renderSeps more ++ rest)) hs (eol_headNot eol _)
        have hB := ihB eol.render (by cases eol <;> simp [Eol.render])
          (by cases eol <;> simp [Eol.render, Sep.isBlank])
        have := TriviaRun.step (a := '/' :: '/' :: text) (b := eol.render ++ renderSeps more) (k := .LineComment)
          rfl (by simp) (by simpa using hn) hB
        simpa [Sep.render] using this
      | blockComment b =>
        simp only [Sep.wf] at hs
        have hn := next_blockComment b hs (renderSeps more ++ rest)
        have := TriviaRun.step (a := '/' :: '*' :: (b.render ++ ['*', '/'])) (b := renderSeps more)
          (k := .BlockComment) rfl (by simp) hn ihA
        simpa [Sep.render] using this
    refine ⟨hA, ?_⟩
    intro w hne hw
    cases s with
    | ws cs =>
      simp only [Sep.wf, Bool.and_eq_true, Bool.not_eq_true', List.isEmpty_eq_false_iff, List.all_eq_true] at hs
      have := ihB (w ++ cs) (by simp [hne]) (by
        intro x hx
        rcases List.mem_append.mp hx with h | h
        · exact hw x h
        · exact hs.2 x h)
      simpa [Sep.render] using this
    | lineComment text eol =>
      cases w with
      | nil => exact absurd rfl hne
      | cons c cs =>
        have hn := next_ws c cs ((Sep.lineComment text eol).render ++ renderSeps more ++ rest) (hw c (by simp))
          (fun x hx => hw x (by simp [hx])) (HeadNot.cons (by decide))
        exact TriviaRun.step (k := .Whitespace) rfl (by simp) (by simpa using hn) hA
    | blockComment b =>
      cases w with
      | nil => exact absurd rfl hne
      | cons c cs =>
        have hn := next_ws c cs ((Sep.blockComment b).render ++ renderSeps more ++ rest) (hw c (by simp))
          (fun x hx => hw x (by simp [hx])) (HeadNot.cons (by decide))
        exact TriviaRun.step (k := .Whitespace) rfl (by simp) (by simpa using hn) hA

/-! ### token / separator sequences -/

theorem Sep.startsSep_render (s : Sep) (hwf : s.WF) (x : List Char) : startsSep (s.render ++ x) = true := by
  cases s with
  | ws cs =>
    simp only [Sep.WF, Sep.wf, Bool.and_eq_true, Bool.not_eq_true', List.isEmpty_eq_false_iff, List.all_eq_true] at hwf
    cases cs with
    | nil => exact absurd rfl hwf.1
    | cons c cs => simp [Sep.render, startsSep, hwf.2 c (by simp)]
  | lineComment text eol => simp [Sep.render, startsSep]
  | blockComment b => simp [Sep.render, startsSep]

theorem startsSep_renderSeps (seps : List Sep) (hne : seps ≠ []) (hwf : ∀ s ∈ seps, s.WF) (x : List Char) :
    startsSep (renderSeps seps ++ x) = true := by
  cases seps with
  | nil => exact absurd rfl hne
  | cons s more =>
    rw [renderSeps_cons, List.append_assoc]
    exact s.startsSep_render (hwf s (by simp)) _

theorem renderAll_cons (t : SpecTok) (seps : List Sep) (more : List (SpecTok × List Sep)) :
    renderAll ((t, seps) :: more) = t.render ++ (renderSeps seps ++ renderAll more) := rfl

theorem renderAll_headNot (items : List (SpecTok × List Sep)) (hwf : ItemsWF items) (tail : List Char)
    (ht : HeadNot isAsciiWhitespace tail) : HeadNot isAsciiWhitespace (renderAll items ++ tail) := by
  cases items with
  | nil => exact ht
  | cons it more =>
    obtain ⟨t, seps⟩ := it
    obtain ⟨c, r, hc, hws⟩ := t.render_head (hwf (t, seps) (by simp)).1
    rw [renderAll_cons, hc]
    exact HeadNot.cons hws

/-- the token a specification token is expected to become -/
def SpecTok.tok (t : SpecTok) : Tok := { kind := t.kind, text := t.render }

/-- the layout of the token stream: every specification token, followed by trivia tokens that cover
exactly its separators -/
inductive Layout : List (SpecTok × List Sep) → List (List Tok) → Prop
  | nil : Layout [] []
  | cons {it : SpecTok × List Sep} {tr : List Tok} {items : List (SpecTok × List Sep)} {trivs : List (List Tok)} :
      (∀ t ∈ tr, t.kind.isTrivia = true) → (tr.map (·.text)).flatten = renderSeps it.2 →
      Layout items trivs → Layout (it :: items) (tr :: trivs)

def interleave (items : List (SpecTok × List Sep)) (trivs : List (List Tok)) : List Tok :=
  (List.zipWith (fun it tr => it.1.tok :: tr) items trivs).flatten

theorem SpecTok.tok_kind (t : SpecTok) : t.tok.kind = t.kind := rfl
theorem SpecTok.tok_text (t : SpecTok) : t.tok.text = t.render := rfl

theorem interleave_cons (it : SpecTok × List Sep) (tr : List Tok) (items : List (SpecTok × List Sep))
    (trivs : List (List Tok)) :
    interleave (it :: items) (tr :: trivs) = it.1.tok :: (tr ++ interleave items trivs) := by
  simp [interleave]

/-- main structural lemma, with an arbitrary non-blank continuation `tail` -/
theorem allTokens_items (items : List (SpecTok × List Sep)) (hwf : ItemsWF items) (tail : List Char)
    (ht : HeadNot isAsciiWhitespace tail) :
    ∃ trivs, Layout items trivs ∧
      allTokens (renderAll items ++ tail) = interleave items trivs ++ allTokens tail := by
  induction items with
  | nil => exact ⟨[], Layout.nil, rfl⟩
  | cons it more ih =>
    obtain ⟨t, seps⟩ := it
    obtain ⟨htw, hne, hsw⟩ := hwf (t, seps) (by simp)
    have hwf' : ItemsWF more := fun it h => hwf it (by simp [h])
    obtain ⟨trivs, hlay, htoks⟩ := ih hwf'
    have hsep := startsSep_renderSeps seps hne hsw (renderAll more ++ tail)
    have hn := next_specTok t (renderSeps seps ++ (renderAll more ++ tail)) htw (Or.inr hsep)
      (fun _ h => by rw [h] at hsep; cases hsep)
    obtain ⟨triv, h1, h2, h3⟩ := (seps_trivia seps hsw (renderAll more ++ tail)
      (renderAll_headNot more hwf' tail ht)).1
    refine ⟨triv :: trivs, Layout.cons h1 h2 hlay, ?_⟩
    obtain ⟨c, r, hc, _⟩ := t.render_head htw
    have e : renderAll ((t, seps) :: more) ++ tail = t.render ++ (renderSeps seps ++ (renderAll more ++ tail)) := by
      simp [renderAll_cons]
    rw [e, allTokens_cons _ (by simp [hc]), hn]
    simp only [h3, htoks, interleave_cons, SpecTok.tok, List.cons_append, List.append_assoc]

theorem isTrivia_ne_error {k : TokenKind} (h : k.isTrivia = true) : k ≠ .Error := by
  intro e; subst e; cases h

theorem interleave_filter (items : List (SpecTok × List Sep)) (hwf : ItemsWF items) (trivs : List (List Tok))
    (hl : Layout items trivs) :
    (interleave items trivs).filter (fun t => !t.kind.isTrivia) = items.map (fun it => it.1.tok) := by
  induction hl with
  | nil => rfl
  | @cons it tr items trivs ha hb _ ih =>
    have hk := (it.1.kind_ok (hwf it (by simp)).1).1
    have htr : tr.filter (fun t => !t.kind.isTrivia) = [] := by
      rw [List.filter_eq_nil_iff]; intro t ht; simp [ha t ht]
    have ih' := ih (fun it h => hwf it (by simp [h]))
    simp only [interleave_cons, List.filter_cons, List.filter_append, SpecTok.tok_kind, hk, htr, ih',
      List.map_cons, List.nil_append, Bool.not_false, if_true]

theorem interleave_no_error (items : List (SpecTok × List Sep)) (hwf : ItemsWF items) (trivs : List (List Tok))
    (hl : Layout items trivs) : ∀ t ∈ interleave items trivs, t.kind ≠ .Error := by
  induction hl with
  | nil => intro t ht; cases ht
  | @cons it tr items trivs ha hb _ ih =>
    intro t ht
    simp only [interleave_cons, List.mem_cons, List.mem_append] at ht
    rcases ht with e | e | e
    · rw [e]; exact (it.1.kind_ok (hwf it (by simp)).1).2
    · exact isTrivia_ne_error (ha t e)
    · exact ih (fun it h => hwf it (by simp [h])) t e

theorem interleave_texts (items : List (SpecTok × List Sep)) (trivs : List (List Tok))
    (hl : Layout items trivs) : ((interleave items trivs).map (·.text)).flatten = renderAll items := by
  induction hl with
  | nil => rfl
  | @cons it tr items trivs ha hb _ ih =>
    obtain ⟨t, seps⟩ := it
    simp only [interleave_cons, List.map_cons, List.flatten_cons, List.map_append, List.flatten_append, ih, hb,
      renderAll_cons, SpecTok.tok_text]

/-- a single token that ends the input (not the punctuation `-`/`+`) -/
theorem allTokens_single (t : SpecTok) (hwf : t.WF) (hs : t.isSignPunct = false) :
    allTokens t.render = [t.tok] := by
  obtain ⟨c, r, hc, _⟩ := t.render_head hwf
  have hn := next_specTok t [] hwf (Or.inl rfl) (fun h => by rw [hs] at h; cases h)
  rw [List.append_nil] at hn
  rw [allTokens_cons _ (by simp [hc]), hn, allTokens_nil]
  rfl

/-! ### error messages -/

theorem lexNumber_err (c : Char) (r : List Char) (h : (lexNumber c r).kind ≠ .Error) :
    (lexNumber c r).err = none := by
  unfold lexNumber at h ⊢
  cases hs : signOnly c r with
  | some k => rfl
  | none =>
    simp only [hs] at h ⊢
    split
    · rfl
    · rename_i hv; rw [if_neg hv] at h; exact absurd rfl h

/-- an arm sets a message only together with an `Error` token -/
theorem arms_err : ∀ a ∈ arms, ∀ c r o, a c r = some o → o.kind ≠ .Error → o.err = none := by
  intro a ha c r o h hk
  simp only [arms, List.mem_cons, List.not_mem_nil, or_false] at ha
  rcases ha with rfl | rfl | rfl | rfl | rfl | rfl | rfl | rfl | rfl | rfl | rfl | rfl | rfl
  · unfold armWhitespace at h
    split at h
    · simp at h; subst h; rfl
    · simp at h
  · unfold armLineComment at h
    split at h
    · simp at h; subst h; rfl
    · simp at h
  · unfold armBlockComment at h
    split at h
    · simp at h; subst h; rfl
    · simp at h
  · unfold armDigit at h
    split at h
    · split at h
      · simp at h; subst h; rfl
      · simp at h; subst h; exact lexNumber_err c r hk
    · simp at h
  · unfold armSign at h
    split at h
    · simp at h; subst h; exact lexNumber_err c r hk
    · simp at h
  · unfold armIdent at h
    split at h
    · simp at h; subst h; rfl
    · simp at h
  · unfold armString at h
    split at h
    · simp at h; subst h
      split at hk <;> first | rfl | (exact absurd rfl hk)
    · simp at h
  · unfold armVarName at h
    split at h
    · simp at h; subst h
      split at hk
      · split at hk
        · rename_i hd; simp [hd]
        · exact absurd rfl hk
      · exact absurd rfl hk
    · simp at h
  · unfold armCode at h
    split at h
    · simp at h; subst h
      split at hk
      · exact absurd rfl hk
      · rename_i he; simp [he]
    · simp at h
  · unfold armBang at h
    split at h
    · simp at h; subst h
      split at hk
      · simp
      · exact absurd rfl hk
    · simp at h
  · unfold armHash at h
    split at h
    · simp at h; subst h
      split <;> rfl
    · simp at h
  · unfold armPunct at h
    split at h
    · simp at h; subst h; rfl
    · simp at h
  · unfold armDot at h
    split at h
    · simp at h; subst h
      split at hk
      · rfl
      · exact absurd rfl hk
      · rfl
    · simp at h

theorem firstArm_err (as : List (Char → List Char → Option Out)) (hs : ∀ a ∈ as, a ∈ arms)
    (c : Char) (r : List Char) (o : Out) (h : firstArm as c r = some o) (hk : o.kind ≠ .Error) :
    o.err = none := by
  induction as with
  | nil => simp [firstArm] at h
  | cons a rest ih =>
    simp only [firstArm] at h
    split at h
    · rename_i o' ho
      simp at h; subst h
      exact arms_err a (hs a (by simp)) c r _ ho hk
    · exact ih (fun a ha => hs a (by simp [ha])) h

/-- a call of the lexer that does not return an `Error` token leaves `Lexer::error` untouched -/
theorem next_err_none (s : List Char) (hk : (next s).kind ≠ .Error) : (next s).err = none := by
  cases s with
  | nil => rfl
  | cons c r =>
    simp only [next] at hk ⊢
    split
    · rename_i o ho
      rw [ho] at hk
      exact firstArm_err arms (fun _ h => h) c r o ho hk
    · rename_i ho
      rw [ho] at hk
      exact absurd rfl hk

/-- the successive results of `Lex.next` on a text (what `Lex.allTokens` keeps the kind and text of),
including the message each call leaves in `Lexer::error` -/
def outs : Nat → List Char → List Out
  | 0, _ => []
  | n+1, s => if s.isEmpty then [] else next s :: outs n (next s).rest

def allOuts (s : List Char) : List Out := outs s.length s

theorem tokens_eq_outs (n : Nat) (s : List Char) :
    Lex.tokens n s = (outs n s).map (fun o => ({ kind := o.kind, text := o.text } : Tok)) := by
  induction n generalizing s with
  | zero => rfl
  | succ n ih =>
    simp only [Lex.tokens, outs]
    split
    · rfl
    · simp [ih]

theorem allTokens_eq_allOuts (s : List Char) :
    allTokens s = (allOuts s).map (fun o => ({ kind := o.kind, text := o.text } : Tok)) :=
  tokens_eq_outs _ _

theorem outs_is_next (n : Nat) (s : List Char) : ∀ o ∈ outs n s, ∃ s', o = next s' := by
  induction n generalizing s with
  | zero => intro o h; cases h
  | succ n ih =>
    intro o h
    simp only [outs] at h
    split at h
    · cases h
    · rcases List.mem_cons.mp h with e | e
      · exact ⟨s, e⟩
      · exact ih _ o e

/-- if no token of a text is an `Error`, no call of the lexer on it reports a message -/
theorem allOuts_err_none (s : List Char) (h : ∀ t ∈ allTokens s, t.kind ≠ .Error) :
    ∀ o ∈ allOuts s, o.err = none := by
  intro o ho
  obtain ⟨s', rfl⟩ := outs_is_next _ _ o ho
  apply next_err_none
  apply h { kind := (next s').kind, text := (next s').text }
  rw [allTokens_eq_allOuts]
  exact List.mem_map.mpr ⟨_, ho, rfl⟩

end LexSpec
end Tg
