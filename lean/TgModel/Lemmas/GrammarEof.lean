/- Grammar-specific fact needed by `parse_lossless`: when `source_file` returns, the look-ahead
token is `Eof` (the top-level statement loop exits nowhere else). -/
import TgModel.Grammar
import TgModel.Lemmas.ParserInv

namespace Tg
open Prog

variable (defs : Defs) (rc : List TokenKind)

/-- every successful run of `p` leaves the look-ahead kind unchanged -/
def KeepsCur (p : Prog) : Prop :=
  ∀ fuel s s', exec defs rc fuel p s = .ok s' → s'.cur = s.cur

/-- every successful run of `p` ends in a state satisfying `Q` -/
def Post (p : Prog) (Q : PState → Prop) : Prop :=
  ∀ fuel s s', exec defs rc fuel p s = .ok s' → Q s'

theorem finishNode_cur {s s' : PState} (h : s.finishNode = .ok s') : s'.cur = s.cur := by
  unfold PState.finishNode at h
  split at h
  · cases h
  · simp only [Res.ok.injEq] at h; subst h; rfl

theorem keeps_startNode (k) : KeepsCur defs rc (startNode k) := by
  intro fuel s s' h
  cases fuel with
  | zero => simp [exec] at h
  | succ n => simp only [exec, Res.ok.injEq] at h; subst h; rfl

theorem keeps_finishNode : KeepsCur defs rc finishNode := by
  intro fuel s s' h
  cases fuel with
  | zero => simp [exec] at h
  | succ n => simp only [exec] at h; exact finishNode_cur h

theorem keeps_nop : KeepsCur defs rc nop := by
  intro fuel s s' h
  cases fuel with
  | zero => simp [exec] at h
  | succ n => simp only [exec, Res.ok.injEq] at h; subst h; rfl

theorem keeps_error (m) : KeepsCur defs rc (error m) := by
  intro fuel s s' h
  cases fuel with
  | zero => simp [exec] at h
  | succ n => simp only [exec, Res.ok.injEq] at h; subst h; rfl

theorem keeps_ifAt (ks) {t e} (ht : KeepsCur defs rc t) (he : KeepsCur defs rc e) :
    KeepsCur defs rc (ifAt ks t e) := by
  intro fuel s s' h
  cases fuel with
  | zero => simp [exec] at h
  | succ n =>
    simp only [exec] at h
    split at h
    · exact ht n s s' h
    · exact he n s s' h

theorem keeps_seq {a b} (ha : KeepsCur defs rc a) (hb : KeepsCur defs rc b) :
    KeepsCur defs rc (seq a b) := by
  intro fuel s s' h
  cases fuel with
  | zero => simp [exec] at h
  | succ n =>
    simp only [exec] at h
    split at h
    · rename_i s1 h1; rw [hb n s1 s' h, ha n s s1 h1]
    · rename_i hne; exact (hne _ h).elim

theorem post_seq_keep {a b} (ha : Post defs rc a (fun s => s.cur = .Eof)) (hb : KeepsCur defs rc b) :
    Post defs rc (seq a b) (fun s => s.cur = .Eof) := by
  intro fuel s s' h
  cases fuel with
  | zero => simp [exec] at h
  | succ n =>
    simp only [exec] at h
    split at h
    · rename_i s1 h1
      have := ha n s s1 h1
      simp only [] at this ⊢
      rw [hb n s1 s' h]; exact this
    · rename_i hne; exact (hne _ h).elim

theorem post_seq_right {a b Q} (hb : Post defs rc b Q) : Post defs rc (seq a b) Q := by
  intro fuel s s' h
  cases fuel with
  | zero => simp [exec] at h
  | succ n =>
    simp only [exec] at h
    split at h
    · rename_i s1 h1; exact hb n s1 s' h
    · rename_i hne; exact (hne _ h).elim

theorem post_call {f Q} (h : Post defs rc (defs f) Q) : Post defs rc (call f) Q := by
  intro fuel s s' he
  cases fuel with
  | zero => simp [exec] at he
  | succ n => simp only [exec] at he; exact h n s s' he

/-- a `while !p.at_set(ks) && !p.eof()` loop can only be left at `Eof` or at one of `ks` -/
theorem post_whileNotAt (ks body) :
    Post defs rc (Grammar.whileNotAt ks body) (fun s => s.cur ∈ TokenKind.Eof :: ks) := by
  intro fuel
  induction fuel with
  | zero => intro s s' h; simp [exec] at h
  | succ n ih =>
    intro s s' h
    simp only [Grammar.whileNotAt, exec] at h
    split at h
    · rename_i s1 h1
      split at h
      · split at h
        · rename_i s2 h2; exact ih s2 s' h
        · rename_i hne; exact (hne _ h).elim
      · rename_i hf
        simp only [Res.ok.injEq] at h; subst h
        -- the condition program: ifAt (Eof :: ks) (retB false) (retB true)
        cases n with
        | zero => simp [exec] at h1
        | succ m =>
          simp only [exec] at h1
          split at h1
          · rename_i hc
            cases m with
            | zero => simp [exec] at h1
            | succ k =>
              simp only [exec, Res.ok.injEq] at h1; subst h1
              simpa using hc
          · cases m with
            | zero => simp [exec] at h1
            | succ k =>
              simp only [exec, Res.ok.injEq] at h1; subst h1
              simp at hf
    · rename_i hne; exact (hne _ h).elim

theorem source_file_ends_at_eof :
    Post Grammar.defs rc (call .source_file) (fun s => s.cur = .Eof) := by
  apply post_call
  have hslt : Post Grammar.defs rc (call .statement_list_top) (fun s => s.cur = .Eof) := by
    apply post_call
    show Post Grammar.defs rc (seq _ (seq _ (seq _ _))) _
    apply post_seq_right; apply post_seq_right
    have h2 : Post Grammar.defs rc (Grammar.whileNotAt [] (call .statement)) (fun s => s.cur = .Eof) := by
      intro fuel s s' h
      simpa using post_whileNotAt Grammar.defs rc [] (call .statement) fuel s s' h
    exact post_seq_keep Grammar.defs rc h2 (keeps_finishNode _ _)
  show Post Grammar.defs rc (seq _ (seq _ (seq _ _))) _
  apply post_seq_right
  exact post_seq_keep Grammar.defs rc hslt
    (keeps_seq _ _ (keeps_ifAt _ _ _ (keeps_nop _ _) (keeps_error _ _ _)) (keeps_finishNode _ _))

end Tg
