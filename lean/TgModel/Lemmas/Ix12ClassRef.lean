/-
The limits of `Ix11ClassRef.lean` lifted: any parent class reference of the list (`VisitsP.forIn_unit`),
named template-argument values (`B<a = x>`), and - on a workspace whose trees are bodied (built workspaces) -
a `class` statement with template arguments of its own (the values and types of the template argument list
leave the scope stack as it is: `RecW`).
-/
import TgModel.Lemmas.Ix11ClassRef
import TgModel.Lemmas.IdeSemGlobal
namespace Tg
namespace Ide
open Index

namespace Ix12
open Ix10 Ix11

theorem VisitsP.forIn_unit {α β : Type} {P : IndexCtx → Prop} (body : α → PUnit → IxM (ForInStep PUnit))
    (pre : List α) (x : α) (post : List α) {site : IxM β}
    (hy : ∀ x c st c1, (body x PUnit.unit).run c = .ok (st, c1) → st = .yield PUnit.unit)
    (hp : ∀ y, Keeps PreR (body y PUnit.unit)) (hs : ∀ y c st c1, P c → (body y PUnit.unit).run c = .ok (st, c1) → P c1)
    (hl : ∀ y, Keeps LaterRel (body y PUnit.unit))
    (hin : VisitsP P (body x PUnit.unit) site) :
    VisitsP P (forIn (pre ++ x :: post) PUnit.unit body) site := by
  intro c a c' hP h
  obtain ⟨c1, c2, i1, i2, i3⟩ := forIn_unit_split' body pre x post c c' a hy h
  have hP1 : P c1 := by
    clear i2 i3 h
    induction pre generalizing c with
    | nil =>
      simp only [List.forIn_nil, StateT.run_pure] at i1
      cases i1
      exact hP
    | cons y t ih =>
      simp only [List.forIn_cons] at i1
      obtain ⟨st, c0, hb, i1⟩ := IxM.run_bind_ok i1
      have := hy _ _ _ _ hb
      subst this
      exact ih c0 (hs y c _ c0 hP hb) i1
  obtain ⟨cs, b, cs', p, hsr, l⟩ := hin c1 _ c2 hP1 i2
  have p1 : PreR c c1 := (Keeps.forIn pre PUnit.unit body (fun y _ => hp y)).run _ _ _ i1
  have l3 : LaterRel c2 c' := (Keeps.forIn post PUnit.unit body (fun y _ => hl y)).run _ _ _ i3
  exact ⟨cs, b, cs', KeepRel.trans p1 p, hsr, SmLater.trans l l3⟩

section path
variable (k : Nat)

/-- static description of a named template-argument value `a = id` -/
structure NamedArgUse (av id : PTree) : Prop where
  kind : av.kind = .NamedArgValue
  name : ∃ nameValue inner sv nm, Ast.namedArgValueName av = some nameValue ∧
    (Ast.valueInnerValues nameValue).head? = some inner ∧ Ast.innerValueSimpleValue inner = some sv ∧
    sv.kind = .Identifier ∧ Ast.identifierValue sv = some nm
  value : ∃ v, Ast.namedArgValueValue av = some v ∧ identValueNode v = some id

theorem namedArgValue_visits (av id : PTree) (hu : NamedArgUse av id) :
    Visits (indexArgValue (mkRec k) av) (indexIdentifierValue id) := by
  obtain ⟨nameValue, inner, sv, nm, h1, h2, h3, h4, h5⟩ := hu.name
  obtain ⟨v, hv, hidv⟩ := hu.value
  unfold indexArgValue
  simp only [hu.kind, h1, h2, h3, h4, h5, hv, beq_self_eq_true, if_true]
  simp only [pure_bind]
  exact Visits.bind_first (value_visits k v id hidv) (fun a => by cases a <;> exact Keeps.pure _)

/-- a template-argument value, positional or named, that is the identifier `id` -/
inductive AnyArgUse (av id : PTree) : Prop
  | positional (h : ArgUse av id)
  | named (h : NamedArgUse av id)

theorem anyArgValue_visits (av id : PTree) (hu : AnyArgUse av id) :
    Visits (indexArgValue (mkRec k) av) (indexIdentifierValue id) := by
  rcases hu with h | h
  · exact argValue_visits k av id h
  · exact namedArgValue_visits k av id h

/-- static description of a class reference `B<…, id, …>` / `B<…, a = id, …>` -/
structure ClassRefUseW (B : String) (cref id : PTree) : Prop where
  name : ∃ nn se, Ast.classRefName cref = some nn ∧ Ast.identifierValue nn = some B ∧ Ast.identifierRange nn = some se
  args : ∃ l apre av apost, Ast.classRefArgValueList cref = some l ∧
    Ast.argValueListArgValues l = apre ++ av :: apost ∧ AnyArgUse av id

theorem classRef_visitsW (B : String) (cref id : PTree) (hu : ClassRefUseW B cref id) :
    VisitsP (HasClass B) (resolveClassRefAsClass (mkRec k) cref) (indexIdentifierValue id) := by
  obtain ⟨nn, se, hnn, hiv, hir⟩ := hu.name
  obtain ⟨l, apre, av, apost, hl, hargs, hav⟩ := hu.args
  obtain ⟨lv, lt, lsl, lsf⟩ := mkRec_later k
  unfold resolveClassRefAsClass
  simp only [hnn]
  refine VisitsP.bind_cls' (fun a => ∃ f, a = some (B, ⟨f, se.1, se.2⟩))
    (by pre_prim (utilsIdentifier_keeps _)) (utilsIdentifier_keeps _) (utilsIdentifier_some nn B se hiv hir) ?_
  rintro _ ⟨f, rfl⟩
  simp only
  refine VisitsP.bind_second (fun a _ => a.isSome = true) (by pre_prim (withSM_keeps _)) ?_ ?_
  · intro c a c1 hP h
    rw [withSM_run'] at h
    cases h
    exact hP
  intro o
  cases o with
  | none => exact VisitsP.of_false (fun c h => by cases h)
  | some cid =>
    refine VisitsP.of_visits ?_
    simp only
    refine Visits.bind_second (by pre_prim (addReference_keeps _ _)) fun _ => ?_
    refine Visits.bind_second (by pre_prim (withSM_keeps _)) fun _ => ?_
    refine Visits.bind_second (Ix10.preR_of_pass k fun R _ _ _ hv ht _ _ => Index.templateArgsOf_keeps hv ht _) fun targs => ?_
    simp only [hl]
    refine Visits.bind_first ?_ (fun avs => Keeps.bind (Index.checkTemplateArgs_keeps lv lt _ _ _) fun _ => Keeps.pure _)
    unfold indexArgValueList
    rw [hargs]
    exact Visits.mapM _ apre av apost
      (fun y => Ix10.preR_of_pass k fun R _ _ _ hv ht _ _ => Index.indexArgValue_keeps hv ht y)
      (fun y => Index.indexArgValue_keeps lv lt y) (anyArgValue_visits k av id hav)

theorem parentClassList_visitsW (B : String) (pcl : PTree) (cpre : List PTree) (cref : PTree) (cpost : List PTree)
    (id : PTree) (hcl : Ast.parentClassListClasses pcl = cpre ++ cref :: cpost) (hu : ClassRefUseW B cref id) :
    VisitsP (InRecord B) (indexParentClassList (mkRec k) pcl) (indexIdentifierValue id) := by
  obtain ⟨lv, lt, lsl, lsf⟩ := mkRec_later k
  obtain ⟨cv, ct, csl, csf⟩ := mkRec_cls B k
  unfold indexParentClassList
  refine VisitsP.bind_second (fun a c => a.isSome = true ∧ HasClass B c) (by pre_prim currentRecordId_keeps) ?_ ?_
  · intro c a c1 hP h
    unfold currentRecordId at h
    simp only [StateT.run_bind, IxM.run_get, Except.ok_bind, StateT.run_pure] at h
    cases h
    exact ⟨hP.2, hP.1⟩
  intro o
  cases o with
  | none => exact VisitsP.of_false (fun c h => by cases h.1)
  | some rid =>
    simp only [hcl]
    refine VisitsP.bind_first (VisitsP.forIn_unit _ cpre cref cpost ?_ ?_ ?_ ?_ ?_) (fun _ => Keeps.pure _)
    · intro x c st c1 h
      obtain ⟨o, c0, _, h⟩ := IxM.run_bind_ok h
      split at h
      · split at h
        · obtain ⟨_, _, _, h⟩ := IxM.run_bind_ok h
          simp only [StateT.run_pure] at h
          cases h; rfl
        · obtain ⟨_, _, _, h⟩ := IxM.run_bind_ok h
          simp only [StateT.run_pure] at h
          cases h; rfl
      · simp only [StateT.run_pure] at h
        cases h; rfl
    · intro y
      exact Ix10.preR_of_pass k fun R _ _ _ hv ht hsl hsf => by keeps
    · intro y c st c1 hP h
      have hk : Keeps (ClsRel B) (do
          let o ← resolveClassRefAsClass (mkRec k) y
          match o with
            | some classId =>
              if (classId == rid) = true then do
                error (nodeRange y) "a record cannot inherit from itself"
                pure (ForInStep.yield PUnit.unit)
              else do
                recordMut rid fun rec => { rec with parentList := rec.parentList.push classId }
                pure (ForInStep.yield PUnit.unit)
            | _ => pure (ForInStep.yield PUnit.unit) : IxM (ForInStep PUnit)) := by keeps
      exact ⟨hP.1, hk.run _ _ _ h hP.2⟩
    · intro y
      keeps
    · refine VisitsP.bind_first ?_ (fun o => by keeps)
      exact fun c a c' hP h => classRef_visitsW k B cref id hu c a c' hP.2 h

/-- static description: some parent class reference of the record body is a `ClassRefUseW` -/
structure ParentUseW (B : String) (rb id : PTree) : Prop where
  parents : ∃ pcl cpre cref cpost, Ast.recordBodyParentClassList rb = some pcl ∧
    Ast.parentClassListClasses pcl = cpre ++ cref :: cpost ∧ ClassRefUseW B cref id

theorem recordBody_parent_visitsW (B : String) (rb id : PTree) (hu : ParentUseW B rb id) :
    VisitsP (InRecord B) (indexRecordBody (mkRec k) rb) (indexIdentifierValue id) := by
  obtain ⟨pcl, cpre, cref, cpost, hp, hcl, hcr⟩ := hu.parents
  obtain ⟨lv, lt, lsl, lsf⟩ := mkRec_later k
  unfold indexRecordBody
  simp only [hp]
  refine VisitsP.bind_first (parentClassList_visitsW k B pcl cpre cref cpost id hcl hcr) fun _ => ?_
  split
  · exact Index.indexBody_keeps lv lt _
  · exact Keeps.pure _

/-- the class is known, in the workspace `ws` -/
def PW (ws : Workspace) (B : String) (c : IndexCtx) : Prop := HasClass B c ∧ c.ws = ws

theorem VisitsP.bind_pw {α β γ : Type} {ws : Workspace} {B : String} {m : IxM α} {f : α → IxM γ} {site : IxM β}
    (R : α → Prop) (hm : Keeps PreR m) (hs : Keeps (ClsRel B) m) (ha : Keeps AttrRel m)
    (hres : ∀ c a c1, m.run c = .ok (a, c1) → R a)
    (hin : ∀ a, R a → VisitsP (PW ws B) (f a) site) : VisitsP (PW ws B) (m >>= f) site :=
  VisitsP.bind_second (fun a c => R a ∧ PW ws B c) hm
    (fun _ _ _ hP h => ⟨hres _ _ _ h, hs.run _ _ _ h hP.1, ((ha.run _ _ _ h).ws).trans hP.2⟩)
    fun a => fun c x c' hQ h => hin a hQ.1 c x c' hQ.2 h

/-- static description of `class C<…> : …, B<…, id, …>, … …` -/
structure ClassParentSiteW (B : String) (n id : PTree) : Prop where
  kind : n.kind = .Class
  name : ∃ nameNode name se, Ast.className n = some nameNode ∧ Ast.identifierValue nameNode = some name ∧
    Ast.identifierRange nameNode = some se
  body : ∃ rb, Ast.classRecordBody n = some rb ∧ ParentUseW B rb id

theorem class_parent_visitsW {ws : Workspace} (hb : ws.AllBodied) (B : String) (n id : PTree)
    (hu : ClassParentSiteW B n id) :
    VisitsP (PW ws B) (indexClass (mkRec k) n) (indexIdentifierValue id) := by
  obtain ⟨nameNode, name, se, h1, h2, h3⟩ := hu.name
  obtain ⟨rb, hrb, hbu⟩ := hu.body
  obtain ⟨cv, ct, csl, csf⟩ := mkRec_cls B k
  have hw := mkRec_w hb k
  unfold indexClass
  simp only [h1, hrb]
  refine VisitsP.bind_pw (fun a => ∃ f, a = some (name, ⟨f, se.1, se.2⟩))
    (by pre_prim (utilsIdentifier_keeps _)) (utilsIdentifier_keeps _) (utilsIdentifier_keeps _)
    (utilsIdentifier_some nameNode name se h2 h3) ?_
  rintro _ ⟨f, rfl⟩
  simp only
  refine VisitsP.bind_pw (fun _ => True) (by pre_prim (addRecord_keeps _ _ ⟨rfl, rfl⟩)) (addRecord_keeps _ _ ⟨rfl, rfl⟩)
    (addRecord_keeps _ _ ⟨rfl, rfl⟩) (fun _ _ _ _ => trivial) fun rid _ => ?_
  refine VisitsP.bind_second (fun _ c => InRecord B c ∧ c.ws = ws) (scopesPush_preR _ (fun _ _ h => nomatch h))
    (fun c a c1 hP h => ⟨push_record_inRecord B rid c a c1 hP.1 h, by
      unfold scopesPush at h
      rw [IxM.run_modify] at h
      cases h
      exact hP.2⟩) fun _ => ?_
  have htail : VisitsP (InRecord B) (do indexRecordBody (mkRec k) rb; scopesPop) (indexIdentifierValue id) :=
    VisitsP.bind_first (recordBody_parent_visitsW k B rb id hbu) (fun _ => scopesPop_keeps)
  cases Ast.classTemplateArgList n with
  | none => exact fun c a c' hP h => htail c a c' hP.1 h
  | some list =>
    refine VisitsP.bind_second (fun _ c => InRecord B c)
      (Ix10.preR_of_pass k fun R _ _ _ hv ht _ _ => Index.indexTemplateArgList_keeps hv ht list) ?_ fun _ => htail
    intro c a c1 hP h
    have e1 := (Index.indexTemplateArgList_keeps hw.value hw.typ list).run _ _ _ h hP.2
    have e2 := (Index.indexTemplateArgList_keeps cv ct list).run _ _ _ h hP.1.1
    exact ⟨e2, by rw [e1.2]; exact hP.1.2⟩

/-- static description of `def d : …, B<…, id, …>, … …` -/
structure DefParentSiteW (B : String) (n id : PTree) : Prop where
  kind : n.kind = .Def
  name : DefNameOK n
  body : ∃ rb, Ast.defRecordBody n = some rb ∧ ParentUseW B rb id

theorem def_parent_visitsW (B : String) (n id : PTree) (hu : DefParentSiteW B n id) :
    VisitsP (HasClass B) (indexDef (mkRec k) n) (indexIdentifierValue id) := by
  obtain ⟨rb, hrb, hbu⟩ := hu.body
  have htail : ∀ rid : Nat, VisitsP (HasClass B) (do
      scopesPush (.record rid)
      indexRecordBody (mkRec k) rb
      scopesPop : IxM Unit) (indexIdentifierValue id) := fun rid =>
    VisitsP.bind_second (fun _ c => InRecord B c) (scopesPush_preR _ (fun _ _ h => nomatch h))
      (fun c a c1 hP h => push_record_inRecord B rid c a c1 hP h) fun _ =>
      VisitsP.bind_first (recordBody_parent_visitsW k B rb id hbu) (fun _ => scopesPop_keeps)
  unfold indexDef
  simp only [hrb]
  obtain ⟨cv, ct, _, _⟩ := mkRec_cls B k
  refine VisitsP.bind_cls (Ix10.preR_of_pass k fun R _ _ _ hv ht _ _ => Index.defDefset_keeps hv ht)
    (Index.defDefset_keeps cv ct) fun ds => ?_
  rcases hu.name with hnone | ⟨nameValue, inner, sv, name, se, h1, h2, h3, h4, h5, h6⟩
  · simp only [hnone, pure_bind]
    refine VisitsP.bind_cls (by pre_prim nextAnonymousDefName_keeps) nextAnonymousDefName_keeps fun nm => ?_
    refine VisitsP.bind_cls (by pre_prim currentFileId_keeps) currentFileId_keeps fun f => ?_
    refine VisitsP.bind_cls (by pre_prim (addAnonymousDef_keeps _ ⟨rfl, rfl⟩)) (addAnonymousDef_keeps _ ⟨rfl, rfl⟩) fun rid => ?_
    exact htail rid
  · simp only [h1]
    refine VisitsP.bind_cls' (fun a => ∃ f, a = some (name, ⟨f, se.1, se.2⟩))
      (Ix10.preR_of_pass k fun R _ _ _ hv ht _ _ => Index.indexNameValue_keeps hv ht _)
      (Index.indexNameValue_keeps cv ct _) ?_ ?_
    · intro c a c1 h
      unfold indexNameValue at h
      simp only [h2, h3, h4, beq_self_eq_true, if_true] at h
      exact utilsIdentifier_some sv name se h5 h6 c a c1 h
    rintro _ ⟨f, rfl⟩
    simp only
    refine VisitsP.bind_cls (by pre_prim currentMulticlassId_keeps) currentMulticlassId_keeps fun m => ?_
    split
    · refine VisitsP.bind_cls (by pre_prim (addMulticlassDef_keeps _ ⟨rfl, rfl⟩)) (addMulticlassDef_keeps _ ⟨rfl, rfl⟩) fun rid => ?_
      cases ds with
      | none => exact htail rid
      | some dsid =>
        exact VisitsP.bind_cls (by pre_prim (defsetMut_keeps _ _ (fun _ => ⟨rfl, rfl⟩)))
          (defsetMut_keeps _ _ (fun _ => ⟨rfl, rfl⟩)) fun _ => htail rid
    · refine VisitsP.bind_cls (by pre_prim (addRecord_keeps _ _ ⟨rfl, rfl⟩)) (addRecord_keeps _ _ ⟨rfl, rfl⟩) fun rid => ?_
      cases ds with
      | none => exact htail rid
      | some dsid =>
        exact VisitsP.bind_cls (by pre_prim (defsetMut_keeps _ _ (fun _ => ⟨rfl, rfl⟩)))
          (defsetMut_keeps _ _ (fun _ => ⟨rfl, rfl⟩)) fun _ => htail rid

/-- a statement one of whose parent class references `B<…, id, …>` executes the identifier site when `B` is known -/
inductive ParentSiteW (B : String) (s id : PTree) : Prop
  | cls (h : ClassParentSiteW B s id)
  | def_ (h : DefParentSiteW B s id)

theorem statement_parent_visitsW {ws : Workspace} (hb : ws.AllBodied) (B : String) (s id : PTree)
    (hu : ParentSiteW B s id) :
    VisitsP (PW ws B) (indexStatement (mkRec k) s) (indexIdentifierValue id) := by
  unfold indexStatement
  rcases hu with h | h
  · simp only [h.kind]; exact class_parent_visitsW k hb B s id h
  · simp only [h.kind]; exact fun c a c' hP hr => def_parent_visitsW k B s id h c a c' hP.1 hr

end path

end Ix12
end Ide
end Tg
