/-
C04 forward direction, step 3 (values, continued): the walk over the mutually recursive syntax of
fragment values, assembling the token-list facts of `C04Values.lean`; then the contracts in the
form the record / statement layers use (`c_value`, `c_name_value`).
-/
import TgModel.Lemmas.C04Values

namespace Tg
namespace C04L
open Prog Grammar Frag

set_option linter.unusedSimpArgs false
set_option linter.unusedVariables false

/-! ### element lists -/

def Frag.VList.renders : VList → List (List TokenKind)
  | .nil => []
  | .cons v rest => v.render :: rest.renders

def Frag.DagArgs.renders : DagArgs → List (List TokenKind)
  | .nil => []
  | .var rest => [TokenKind.VarName] :: rest.renders
  | .val v nm rest => (v.render ++ nameR nm) :: rest.renders

def Frag.Clauses.hdR : Clauses → List TokenKind
  | .one c v => c.render ++ TokenKind.Colon :: v.render
  | .cons c v _ => c.render ++ TokenKind.Colon :: v.render

def Frag.Clauses.tlR : Clauses → List (List TokenKind)
  | .one _ _ => []
  | .cons _ _ rest => rest.hdR :: rest.tlR

theorem vlist_join : (tl : VList) → (R W : List TokenKind) →
    R ++ (tl.tailRender ++ W) = joinC R tl.renders ++ W
  | .nil, R, W => by simp [VList.tailRender, VList.renders, joinC]
  | .cons v rest, R, W => by
    simp only [VList.tailRender, VList.renders, joinC, List.cons_append, List.append_assoc]
    rw [vlist_join rest v.render W]

theorem dagargs_join : (as : DagArgs) → (R W : List TokenKind) →
    R ++ (as.tailRender ++ W) = joinC R as.renders ++ W
  | .nil, R, W => by simp [DagArgs.tailRender, DagArgs.renders, joinC]
  | .var rest, R, W => by
    simp only [DagArgs.tailRender, DagArgs.renders, joinC, List.cons_append, List.append_assoc]
    have := dagargs_join rest [TokenKind.VarName] W
    simp only [List.cons_append, List.nil_append] at this
    rw [this]
  | .val v nm rest, R, W => by
    simp only [DagArgs.tailRender, DagArgs.renders, joinC, List.cons_append, List.append_assoc]
    have := dagargs_join rest (v.render ++ nameR nm) W
    simp only [List.append_assoc] at this
    rw [this]

theorem clauses_join : (cs : Clauses) → cs.render = joinC cs.hdR cs.tlR
  | .one c v => by simp [Clauses.render, Clauses.hdR, Clauses.tlR, joinC]
  | .cons c v rest => by
    show c.render ++ TokenKind.Colon :: (v.render ++ TokenKind.Comma :: rest.render) =
      (c.render ++ TokenKind.Colon :: v.render) ++ TokenKind.Comma :: joinC rest.hdR rest.tlR
    rw [clauses_join rest]; simp [List.append_assoc]

/-! ### first tokens -/

theorem olit_head (o : OLit) (Z : List TokenKind) : (o.render ++ Z).headD .Eof = o.firstTok := by
  cases o with
  | id => rfl
  | uninit => rfl
  | classVal args => cases args <;> rfl
  | castop g ty hd tl => cases g <;> rfl

theorem hlit_head (h : HLit) (Z : List TokenKind) : (h.render ++ Z).headD .Eof = h.firstTok := by
  cases h with
  | op o => exact olit_head o Z
  | _ => rfl

theorem lit_head (l : Lit) (Z : List TokenKind) : (l.render ++ Z).headD .Eof = l.firstTok := by
  cases l with
  | safe h => exact hlit_head h Z
  | _ => rfl

theorem val_head_eq (v : Val) (Z : List TokenKind) : (v.render ++ Z).headD .Eof = v.firstTok := by
  obtain ⟨l, sufs, tl⟩ := v
  simp only [Val.render, Val.firstTok, List.append_assoc]
  exact lit_head l _

theorem olit_first (o : OLit) : [TokenKind.Id, .XCast, .Question, .XGetDagOp].contains o.firstTok = true := by
  cases o with
  | castop g ty hd tl => cases g <;> rfl
  | _ => rfl

theorem hlit_first (h : HLit) : valFirst.contains h.firstTok = true ∧ dagFollow h.firstTok = true := by
  cases h with
  | op o => exact ⟨in_of_mem (olit_first o) (by decide), prop_of_mem dagFollow (olit_first o) (by decide)⟩
  | int b => cases b <;> exact ⟨rfl, rfl⟩
  | bang bo ty hd tl =>
    exact ⟨in_of_mem bo.2 (by decide), prop_of_mem dagFollow bo.2 (by decide)⟩
  | _ => exact ⟨rfl, rfl⟩

theorem lit_first (l : Lit) : valFirst.contains l.firstTok = true := by
  cases l with
  | safe h => exact (hlit_first h).1
  | _ => rfl

theorem lit_starts (l : Lit) (S : List TokenKind) : Starts (l.render ++ S) := by
  intro Z; rw [List.append_assoc, lit_head]; exact lit_first l

theorem hlit_starts (h : HLit) (S : List TokenKind) : Starts (h.render ++ S) := by
  intro Z; rw [List.append_assoc, hlit_head]; exact (hlit_first h).1

theorem val_starts (v : Val) : Starts v.render := by
  obtain ⟨l, sufs, tl⟩ := v
  exact lit_starts l _

theorem olit_opstart (o : OLit) (S : List TokenKind) : OpStart (o.render ++ S) := by
  intro Z; rw [List.append_assoc, olit_head]; exact olit_first o

theorem suffix_head (s : Suffix) (Z : List TokenKind) :
    [TokenKind.LBrace, .LSquare, .Dot].contains ((s.render ++ Z).headD .Eof) = true := by
  cases s <;> rfl

theorem suffix_pos (s : Suffix) : 1 ≤ s.render.length := by
  cases s <;> simp [Suffix.render]

/-! ### node kinds -/

def Frag.OLit.nk : OLit → SyntaxKind
  | .id => .Identifier
  | .uninit => .Uninitialized
  | .classVal _ => .ClassValue
  | .castop _ _ _ _ => .BangOperator

def Frag.HLit.nk : HLit → SyntaxKind
  | .op o => o.nk
  | .int _ => .Integer
  | .code => .Code
  | .tru => .Boolean
  | .fls => .Boolean
  | .bang _ _ _ _ => .BangOperator
  | .cond _ => .CondOperator
  | .dag _ _ _ _ => .Dag

def Frag.Lit.nk : Lit → SyntaxKind
  | .safe h => h.nk
  | .str => .String
  | .bits _ _ => .Bits
  | .list _ _ => .List

def Frag.Suffix.nk : Suffix → SyntaxKind
  | .field => .FieldSuffix
  | .range _ => .RangeSuffix
  | .slice _ _ => .SliceSuffix

def Frag.Suffixes.nks : Suffixes → List SyntaxKind
  | .nil => []
  | .cons s ss => s.nk :: ss.nks

def Frag.SVals.count : SVals → Nat
  | .nil => 0
  | .cons _ _ rest => rest.count + 1

def Frag.SliceElems.count : SliceElems → Nat
  | .one _ => 1
  | .cons _ es => es.count + 1

theorem olit_nk_simple (o : OLit) : simpleKinds.contains o.nk = true := by cases o <;> rfl
theorem hlit_nk_simple (h : HLit) : simpleKinds.contains h.nk = true := by
  cases h with
  | op o => exact olit_nk_simple o
  | _ => rfl
theorem lit_nk_simple (l : Lit) : simpleKinds.contains l.nk = true := by
  cases l with
  | safe h => exact hlit_nk_simple h
  | _ => rfl
theorem sufs_nk : (ss : Suffixes) → ∀ x ∈ ss.nks, sufKinds.contains x = true
  | .nil => fun x hx => by simp [Suffixes.nks] at hx
  | .cons s ss => fun x hx => by
    rcases List.mem_cons.mp hx with rfl | hx
    · cases s <;> rfl
    · exact sufs_nk ss x hx

/-! ### the walk -/

mutual

theorem c_olit : (o : OLit) → LitOk o.nk o.render
  | .id => lit_id
  | .uninit => lit_uninit
  | .classVal .nil => lit_classVal_nil
  | .classVal (.cons v vs) => by
    have h := lit_classVal v.render vs.renders (fun R' hR' => by
      rcases List.mem_cons.mp hR' with rfl | hR'
      · exact ⟨c_val v, val_starts v⟩
      · exact c_vlist vs R' hR')
    rw [← vlist_join] at h
    simpa only [OLit.nk, OLit.render] using h
  | .castop g ty hd tl => by
    have h := lit_bang (if g then TokenKind.XGetDagOp else TokenKind.XCast) (by cases g <;> rfl) ty
      hd.render tl.renders (fun R' hR' => by
        rcases List.mem_cons.mp hR' with rfl | hR'
        · exact ⟨c_val hd, val_starts hd⟩
        · exact c_vlist tl R' hR')
    rw [← vlist_join] at h
    simpa only [OLit.nk, OLit.render] using h

theorem c_hlit : (h : HLit) → LitOk h.nk h.render
  | .op o => c_olit o
  | .int b => lit_int b
  | .code => lit_code
  | .tru => lit_tru
  | .fls => lit_fls
  | .bang bo ty hd tl => by
    have h := lit_bang bo.1 bo.2 ty hd.render tl.renders (fun R' hR' => by
      rcases List.mem_cons.mp hR' with rfl | hR'
      · exact ⟨c_val hd, val_starts hd⟩
      · exact c_vlist tl R' hR')
    rw [← vlist_join] at h
    simpa only [HLit.nk, HLit.render] using h
  | .cond cs => by
    have h := lit_cond cs.hdR cs.tlR (c_clauses cs)
    rw [← clauses_join] at h
    simpa only [HLit.nk, HLit.render] using h
  | .dag o sufs tl .none => by
    have hO := val_of_parts (c_olit o) (c_suffixes sufs) (c_svals tl) (olit_nk_simple o) (sufs_nk sufs)
    have h := lit_dag_plain hO (olit_opstart o _) false
    simpa only [HLit.nk, HLit.render, DagRest.render, nameR_false, List.nil_append, List.append_assoc] using h
  | .dag o sufs tl (.named .nil) => by
    have hO := val_of_parts (c_olit o) (c_suffixes sufs) (c_svals tl) (olit_nk_simple o) (sufs_nk sufs)
    have h := lit_dag_plain hO (olit_opstart o _) true
    simpa only [HLit.nk, HLit.render, DagRest.render, nameR_true, List.cons_append, List.nil_append, List.append_assoc] using h
  | .dag o sufs tl (.named (.var rest)) => by
    have hO := val_of_parts (c_olit o) (c_suffixes sufs) (c_svals tl) (olit_nk_simple o) (sufs_nk sufs)
    have h := lit_dag_args hO (olit_opstart o _) true [TokenKind.VarName] rest.renders (fun R' hR' => by
        rcases List.mem_cons.mp hR' with rfl | hR'
        · exact ditem_var
        · exact c_dagargs rest R' hR')
      (fun _ => rfl) (Or.inl rfl)
    rw [← dagargs_join] at h
    simpa only [HLit.nk, HLit.render, DagRest.render, nameR_true, List.cons_append, List.nil_append, List.append_assoc] using h
  | .dag o sufs tl (.named (.val v nm rest)) => by
    have hO := val_of_parts (c_olit o) (c_suffixes sufs) (c_svals tl) (olit_nk_simple o) (sufs_nk sufs)
    have h := lit_dag_args hO (olit_opstart o _) true (v.render ++ nameR nm) rest.renders (fun R' hR' => by
        rcases List.mem_cons.mp hR' with rfl | hR'
        · exact ditem_val (c_val v) (val_starts v) nm
        · exact c_dagargs rest R' hR')
      (fun Z => by rw [List.append_assoc]; exact notin_of_mem (val_starts v _) (by decide)) (Or.inl rfl)
    rw [← dagargs_join] at h
    simpa only [HLit.nk, HLit.render, DagRest.render, nameR_true, List.cons_append, List.nil_append, List.append_assoc] using h
  | .dag o sufs tl (.bareVar more) => by
    have hO := val_of_parts (c_olit o) (c_suffixes sufs) (c_svals tl) (olit_nk_simple o) (sufs_nk sufs)
    have h := lit_dag_args hO (olit_opstart o _) false [TokenKind.VarName] more.renders (fun R' hR' => by
        rcases List.mem_cons.mp hR' with rfl | hR'
        · exact ditem_var
        · exact c_dagargs more R' hR')
      (fun _ => rfl) (Or.inr (fun _ => rfl))
    rw [← dagargs_join] at h
    simpa only [HLit.nk, HLit.render, DagRest.render, nameR_false, List.cons_append, List.nil_append, List.append_assoc] using h
  | .dag o sufs tl (.bareVal h' sufs' tl' nm more) => by
    have hO := val_of_parts (c_olit o) (c_suffixes sufs) (c_svals tl) (olit_nk_simple o) (sufs_nk sufs)
    have hV := val_of_parts (c_hlit h') (c_suffixes sufs') (c_svals tl') (hlit_nk_simple h') (sufs_nk sufs')
    have hs : Starts (h'.render ++ (sufs'.render ++ tl'.render)) := hlit_starts h' _
    have h := lit_dag_args hO (olit_opstart o _) false ((h'.render ++ (sufs'.render ++ tl'.render)) ++ nameR nm)
      more.renders (fun R' hR' => by
        rcases List.mem_cons.mp hR' with rfl | hR'
        · exact ditem_val hV hs nm
        · exact c_dagargs more R' hR')
      (fun Z => by rw [List.append_assoc]; exact notin_of_mem (hs _) (by decide))
      (Or.inr (fun Z => by
        rw [List.append_assoc, List.append_assoc, hlit_head]; exact (hlit_first h').2))
    rw [← dagargs_join] at h
    simpa only [HLit.nk, HLit.render, DagRest.render, nameR_false, List.cons_append, List.nil_append, List.append_assoc] using h

theorem c_lit : (l : Lit) → LitOk l.nk l.render
  | .safe h => c_hlit h
  | .str => lit_str
  | .bits hd tl => by
    have h := lit_bits hd.render tl.renders (fun R' hR' => by
      rcases List.mem_cons.mp hR' with rfl | hR'
      · exact ⟨c_val hd, val_starts hd⟩
      · exact c_vlist tl R' hR')
    rw [← vlist_join] at h
    simpa only [Lit.nk, Lit.render] using h
  | .list hd tl => by
    have h := lit_list hd.render tl.renders (fun R' hR' => by
      rcases List.mem_cons.mp hR' with rfl | hR'
      · exact ⟨c_val hd, val_starts hd⟩
      · exact c_vlist tl R' hR')
    rw [← vlist_join] at h
    simpa only [Lit.nk, Lit.render] using h

theorem c_suffix : (s : Suffix) → SufOk s.nk s.render
  | .field => suf_field
  | .range r => suf_range r
  | .slice es t => suf_slice (c_selems es t).1

theorem c_suffixes : (ss : Suffixes) → SufsOk ss.nks ss.render
  | .nil => sufs_nil
  | .cons s ss => sufs_cons (c_suffix s) (suffix_head s) (suffix_pos s) (c_suffixes ss)

theorem c_svals : (tl : SVals) → PasteOk tl.count tl.render
  | .nil => paste_nil
  | .cons l sufs rest => paste_cons_parts (c_lit l) (c_suffixes sufs) (c_svals rest) (lit_nk_simple l) (sufs_nk sufs)

theorem c_val : (v : Val) → ValOk v.render
  | .mk l sufs tl => val_of_parts (c_lit l) (c_suffixes sufs) (c_svals tl) (lit_nk_simple l) (sufs_nk sufs)

theorem c_vlist : (tl : VList) → ∀ R ∈ tl.renders, ValOk R ∧ Starts R
  | .nil => fun R hR => by simp [VList.renders] at hR
  | .cons v rest => fun R hR => by
    rcases List.mem_cons.mp hR with rfl | hR
    · exact ⟨c_val v, val_starts v⟩
    · exact c_vlist rest R hR

theorem c_selem : (e : SliceElem) → ElemOk e.render ∧ Starts e.render
  | .single v => ⟨elem_single (c_val v), val_starts v⟩
  | .dots a b => ⟨elem_dots (c_val a) (c_val b), (val_starts a).append _⟩
  | .minus a b => ⟨elem_minus (c_val a) (c_val b), (val_starts a).append _⟩
  | .juxt a => ⟨elem_juxt (c_val a), (val_starts a).append _⟩

theorem c_selems : (es : SliceElems) → (t : Bool) → SliceOk es.count (es.renderT t) ∧ Starts (es.renderT t)
  | .one e, t => ⟨slice_one (c_selem e).1 (c_selem e).2 t, (c_selem e).2.append _⟩
  | .cons e es, t =>
    ⟨slice_cons (c_selem e).1 (c_selem e).2 (c_selems es t).1 (c_selems es t).2, (c_selem e).2.append _⟩

theorem c_clauses : (cs : Clauses) → ∀ R ∈ cs.hdR :: cs.tlR, ClauseOk R ∧ Starts R
  | .one c v => fun R hR => by
    have : R = c.render ++ TokenKind.Colon :: v.render := by simpa [Clauses.hdR, Clauses.tlR] using hR
    subst this
    exact ⟨clause_of (c_val c) (c_val v), (val_starts c).append _⟩
  | .cons c v rest => fun R hR => by
    rcases List.mem_cons.mp hR with rfl | hR
    · exact ⟨clause_of (c_val c) (c_val v), (val_starts c).append _⟩
    · exact c_clauses rest R hR

theorem c_dagargs : (as : DagArgs) → ∀ R ∈ as.renders, DItemOk R
  | .nil => fun R hR => by simp [DagArgs.renders] at hR
  | .var rest => fun R hR => by
    rcases List.mem_cons.mp hR with rfl | hR
    · exact ditem_var
    · exact c_dagargs rest R hR
  | .val v nm rest => fun R hR => by
    rcases List.mem_cons.mp hR with rfl | hR
    · exact ditem_val (c_val v) (val_starts v) nm
    · exact c_dagargs rest R hR

end

end C04L
end Tg
