/-
C04 converse for values, tree-checked lists (part 4): bits, lists (trailing comma by the hook), dags.
(The lemmas of `C04ConvV4`, relative to a context.)
-/
import TgModel.Lemmas.C04VJ3

namespace Tg
namespace C04L
open Prog Grammar Frag Doc

local notation "rcv" => Tables.recoverTokens

theorem value_itemJ (C : RunCtx) (L : Nat) (hV : ValHJ C L) (n : Nat) (a b : PState) (hl : a.kinds.length < L)
    (hi : C.I a) (h : exec defs rcv n (call .value) a = .ok b) (hc : Clean a b) :
    ∃ w, a.kinds = w ++ b.kinds ∧ b.afterError = false ∧ (C.J b → QV0 (.nt .Value_) w) :=
  hV n a b hl hi h hc

/-! ### bits and lists -/

theorem bits_armJ (C : RunCtx) (L : Nat) (hV : ValHJ C L) {n : Nat} {s s' : PState} (hl : s.kinds.length ≤ L)
    (hi : C.I s) (hcur : s.cur = .LBrace)
    (h : exec defs rcv n (call .bits) s = .ok s') (hc : Clean s s') : VConvJ C s s' (.nt .SimpleValue_) := by
  have h := call_inv defs rcv (lift_fuel h 40)
  simp only [defs, valueList, seqs] at h
  obtain ⟨s1, h1, _, h, hc⟩ := seq_inv defs rcv h hc
  have i1 := C.hI _ _ _ _ hi h1
  have e1 := same_startNode h1
  obtain ⟨s2, h2, c2, h, hc⟩ := seq_inv defs rcv h hc
  have i2 := C.hI _ _ _ _ i1 h2
  have b2 := C.hJ _ _ _ _ i2 h
  obtain ⟨t1, g1, _, g, gc⟩ := seq_inv defs rcv h2 c2
  have j1 := C.hI _ _ _ _ i1 g1
  have f1 := same_startNode g1
  obtain ⟨t2, g2, gc2, g3, _⟩ := seq_inv defs rcv g gc
  have j2 := C.hI _ _ _ _ j1 g2
  have bt2 := C.hJ _ _ _ _ j2 g3
  have f3 := same_finishNode g3
  obtain ⟨ws, b, kd, ad, _, sl⟩ := delimJ_inv C L .LBrace .RBrace _ _ (by decide) (by decide) (value_itemJ C L hV)
    _ _ _ (by rw [f1.kinds, e1.kinds]; exact hl) j1 (Or.inl (by rw [f1.cur, e1.cur]; exact hcur)) g2 gc2
  obtain ⟨s3, h3, _, h4, _⟩ := seq_inv defs rcv h hc
  have e3 := same_finishNode h3
  have e4 := same_retB h4
  refine ⟨TokenKind.LBrace :: (ws ++ [TokenKind.RBrace]), ?_, by rw [e4.after, e3.after, f3.after]; exact ad, ?_⟩
  · rw [← e1.kinds, ← f1.kinds, kd, e4.kinds, e3.kinds, f3.kinds]; simp
  · intro j hs
    have d := delim0_derives (bra := .LBrace) (ket := .RBrace) (x := []) (by decide) (by decide) (sl (bt2 (b2 j)))
      (by simpa using hs)
    exact sv5 (Derives.nt (d_tokSeq (List.mem_singleton.mpr rfl) (Derives.seq (Derives.nt d) (d_tok1 _))))

theorem list_armJ (C : RunCtx) (H : ListHook C) (L : Nat) (hV : ValHJ C L) {n : Nat} {s s' : PState}
    (hl : s.kinds.length ≤ L) (hi : C.I s) (hcur : s.cur = .LSquare)
    (h0 : exec defs rcv n (call .list_) s = .ok s') (hc0 : Clean s s') : VConvJ C s s' (.nt .SimpleValue_) := by
  have hn : Norm s := by unfold Norm; rw [hcur]; decide
  have h := call_inv defs rcv (lift_fuel h0 40)
  have hc := hc0
  simp only [defs, valueList, seqs, ifEatIf] at h
  obtain ⟨s1, h1, _, h, hc⟩ := seq_inv defs rcv h hc
  have i1 := C.hI _ _ _ _ hi h1
  have e1 := same_startNode h1
  obtain ⟨s2, h2, c2, h, hc⟩ := seq_inv defs rcv h hc
  have i2 := C.hI _ _ _ _ i1 h2
  have b2 := C.hJ _ _ _ _ i2 h
  obtain ⟨t1, g1, _, g, gc⟩ := seq_inv defs rcv h2 c2
  have j1 := C.hI _ _ _ _ i1 g1
  have f1 := same_startNode g1
  obtain ⟨t2, g2, gc2, g3, _⟩ := seq_inv defs rcv g gc
  have j2 := C.hI _ _ _ _ j1 g2
  have bt2 := C.hJ _ _ _ _ j2 g3
  have f3 := same_finishNode g3
  obtain ⟨ws, b, kd, ad, _, sl⟩ := delimJ_inv C L .LSquare .RSquare _ _ (by decide) (by decide) (value_itemJ C L hV)
    _ _ _ (by rw [f1.kinds, e1.kinds]; exact hl) j1 (Or.inl (by rw [f1.cur, e1.cur]; exact hcur)) g2 gc2
  have a2 : s2.afterError = false := by rw [f3.after]; exact ad
  obtain ⟨s3, h3, c3, h, hc⟩ := seq_inv defs rcv h hc
  obtain ⟨s4, h4, _, h5, _⟩ := seq_inv defs rcv h hc
  have e4 := same_finishNode h4
  have e5 := same_retB h5
  have kk : s'.kinds = s3.kinds := by rw [e5.kinds, e4.kinds]
  have aa : s'.afterError = s3.afterError := by rw [e5.after, e4.after]
  have k02 : s.kinds = TokenKind.LSquare :: (ws ++ TokenKind.RSquare :: s2.kinds) := by
    rw [← e1.kinds, ← f1.kinds, kd, f3.kinds]
  obtain ⟨s6, h6, c6, h7, c7⟩ := seq_inv defs rcv h3 c3
  rcases eatIf_clean (by decide) h6 with ⟨_, hfl, k6, a6, _⟩ | ⟨_, rfl⟩
  · rcases ifFlag_inv defs rcv h7 with ⟨_, h7⟩ | ⟨hf, _⟩
    · -- a type suffix: not documented
      obtain ⟨s8, h8, c8, h9, c9⟩ := seq_inv defs rcv h7 c7
      obtain ⟨t, k8, a8⟩ := type_inv _ _ _ _ (Nat.le_refl _) h8 c8
      obtain ⟨k9, a9⟩ := expect_clean (by decide) h9 c9 a8
      refine ⟨TokenKind.LSquare :: (ws ++ TokenKind.RSquare :: TokenKind.Less :: (t.render ++ [TokenKind.Greater])),
        ?_, by rw [aa]; exact a9, ?_⟩
      · rw [k02, k6, k8, k9, kk]; simp
      · intro _ hs
        exact (VShape0.not_pat (pat := [TokenKind.RSquare, TokenKind.Less]) (by decide) (by simp)
          (TokenKind.LSquare :: ws) (t.render ++ [TokenKind.Greater]) (by simpa using hs)).elim
    · rw [hfl] at hf; cases hf
  · rcases ifFlag_inv defs rcv h7 with ⟨hf, _⟩ | ⟨_, h7⟩
    · simp at hf
    · have e7 := same_nop h7
      have e7' : s3.kinds = s2.kinds := e7.kinds
      have kw : s.kinds = (TokenKind.LSquare :: (ws ++ [TokenKind.RSquare])) ++ s'.kinds := by
        rw [k02, kk, e7']; simp
      refine ⟨TokenKind.LSquare :: (ws ++ [TokenKind.RSquare]), kw, by rw [aa, e7.after]; exact a2, ?_⟩
      intro j hs
      have hsl := sl (bt2 (b2 j))
      cases b with
      | true =>
        exfalso
        rcases hsl.true_shape with rfl | ⟨u, rfl⟩
        · exact VShape0.not_pat (pat := [TokenKind.LSquare, TokenKind.RSquare]) (by decide) (by simp) [] []
            (by simpa using hs)
        · exact H n s s' hi hn h0 hc0 _ kw j ⟨TokenKind.LSquare :: u, by simp⟩
      | false =>
        have hw : VShape0 ws := VShape0.infix (u := [TokenKind.LSquare]) (x := [TokenKind.RSquare]) (by simpa using hs)
        exact sv6 (Derives.nt (d_tokSeq (List.mem_singleton.mpr rfl)
          (Derives.seq (Derives.nt (sepV0_derives hsl hw)) (d_tok1 _))))

/-! ### dags -/

/-- `Value (":" VarName)?` or `VarName` -/
theorem dagarg_invJ (C : RunCtx) (L : Nat) (hV : ValHJ C L) (n : Nat) (a b : PState) (hl : a.kinds.length < L)
    (hi : C.I a) (h : exec defs rcv n (call .dagarg) a = .ok b) (hc : Clean a b) :
    ∃ w, a.kinds = w ++ b.kinds ∧ b.afterError = false ∧ (C.J b → QV0 (.nt .DagArg_) w) := by
  have h := call_inv defs rcv (lift_fuel h 40)
  simp only [defs, seqs, ifEatIf] at h
  obtain ⟨s1, h1, _, h, hc⟩ := seq_inv defs rcv h hc
  have i1 := C.hI _ _ _ _ hi h1
  have e1 := same_startNode h1
  obtain ⟨s2, h2, c2, h, hc⟩ := seq_inv defs rcv h hc
  have i2 := C.hI _ _ _ _ i1 h2
  rcases eatIf_clean (by decide) h2 with ⟨_, hfl, k2, a2, _⟩ | ⟨_, rfl⟩
  · rcases ifFlag_inv defs rcv h with ⟨_, h⟩ | ⟨hf, _⟩
    · obtain ⟨k3, a3, _⟩ := finRet_inv h hc
      exact ⟨[TokenKind.VarName], by rw [← e1.kinds, k2, k3]; rfl, by rw [a3]; exact a2,
        fun _ _ => Derives.nt (Derives.altR (d_tok1 _))⟩
    · rw [hfl] at hf; cases hf
  · rcases ifFlag_inv defs rcv h with ⟨hf, _⟩ | ⟨_, h⟩
    · simp at hf
    · obtain ⟨s3, h3, c3, h, hc⟩ := seq_inv defs rcv h hc
      have i3 := C.hI _ _ _ _ i2 h3
      have b3 := C.hJ _ _ _ _ i3 h
      obtain ⟨w1, k3, a3, d3⟩ := hV _ ({ s1 with flag := false } : PState) _ (by
        have : ({ s1 with flag := false } : PState).kinds = a.kinds := e1.kinds
        rw [this]; exact hl) i2 h3 c3
      have k3' : s1.kinds = w1 ++ s3.kinds := k3
      obtain ⟨s4, h4, c4, h, hc⟩ := seq_inv defs rcv h hc
      obtain ⟨s5, h5, _, h6, _⟩ := seq_inv defs rcv h hc
      have e5 := same_finishNode h5
      have e6 := same_retB h6
      have kk : b.kinds = s4.kinds := by rw [e6.kinds, e5.kinds]
      have aa : b.afterError = s4.afterError := by rw [e6.after, e5.after]
      obtain ⟨s7, h7, c7, h8, c8⟩ := seq_inv defs rcv h4 c4
      rcases eatIf_clean (by decide) h7 with ⟨_, hfl, k7, a7, _⟩ | ⟨_, rfl⟩
      · rcases ifFlag_inv defs rcv h8 with ⟨_, h8⟩ | ⟨hf, _⟩
        · obtain ⟨h8, f8⟩ := orError_inv h8 c8
          obtain ⟨k8, a8⟩ := varname_inv h8 c8 f8
          refine ⟨w1 ++ [TokenKind.Colon, TokenKind.VarName], ?_, by rw [aa]; exact a8, ?_⟩
          · rw [← e1.kinds, k3', k7, k8, kk]; simp
          · intro j hs
            exact Derives.nt (Derives.altL (Derives.seq (d3 (b3 j) hs.left)
              (Derives.optSome (d_tokSeq (List.mem_singleton.mpr rfl) (d_tok1 _)))))
        · rw [hfl] at hf; cases hf
      · rcases ifFlag_inv defs rcv h8 with ⟨hf, _⟩ | ⟨_, h8⟩
        · simp at hf
        · have e8 := same_nop h8
          have e8' : s4.kinds = s3.kinds := e8.kinds
          refine ⟨w1, by rw [← e1.kinds, k3', kk, e8'], by rw [aa, e8.after]; exact a3, ?_⟩
          intro j hs
          exact Derives.nt (Derives.altL (d_seq_nil (d3 (b3 j) hs) Derives.optNone))

theorem dag_armJ (C : RunCtx) (L : Nat) (hV : ValHJ C L) {n : Nat} {s s' : PState} (hl : s.kinds.length ≤ L)
    (hi : C.I s) (hcur : s.cur = .LParen)
    (h : exec defs rcv n (call .dag) s = .ok s') (hc : Clean s s') : VConvJ C s s' (.nt .SimpleValue_) := by
  have h := call_inv defs rcv (lift_fuel h 40)
  simp only [defs, seqs, sepLoop] at h
  obtain ⟨s1, h1, _, h, hc⟩ := seq_inv defs rcv h hc
  have i1 := C.hI _ _ _ _ hi h1
  have e1 := same_startNode h1
  obtain ⟨s2, h2, _, h, hc⟩ := seq_inv defs rcv h hc
  have i2 := C.hI _ _ _ _ i1 h2
  obtain ⟨k2, a2, _⟩ := expect_hit (by decide) (show s1.cur = .LParen by rw [e1.cur]; exact hcur) h2
  have k02 : s.kinds = [TokenKind.LParen] ++ s2.kinds := by rw [← e1.kinds, k2]; rfl
  have l2 : s2.kinds.length < L := Nat.lt_of_lt_of_le (kinds_len_lt k02 (by simp)) hl
  rcases ifAt_inv defs rcv h with ⟨_, h⟩ | ⟨_, h⟩
  · obtain ⟨s3, h3, c3, h, hc⟩ := seq_inv defs rcv h hc
    have i3 := C.hI _ _ _ _ i2 h3
    have b3 := C.hJ _ _ _ _ i3 h
    obtain ⟨w1, k3, a3, d3⟩ := dagarg_invJ C L hV _ _ _ l2 i2 h3 c3
    obtain ⟨s4, h4, c4, h, hc⟩ := seq_inv defs rcv h hc
    have i4 := C.hI _ _ _ _ i3 h4
    have b4 := C.hJ _ _ _ _ i4 h
    obtain ⟨s5, h5, c5, h, hc⟩ := seq_inv defs rcv h hc
    obtain ⟨s6, h6, _, h7, _⟩ := seq_inv defs rcv h hc
    have e6 := same_finishNode h6
    have e7 := same_retB h7
    have kk : s'.kinds = s5.kinds := by rw [e7.kinds, e6.kinds]
    have aa : s'.afterError = s5.afterError := by rw [e7.after, e6.after]
    rcases ifAt_inv defs rcv h4 with ⟨_, h4⟩ | ⟨_, h4⟩
    · have e4 := same_nop h4
      obtain ⟨k5, a5⟩ := expect_clean (by decide) h5 c5 (by rw [e4.after]; exact a3)
      refine ⟨TokenKind.LParen :: (w1 ++ [TokenKind.RParen]), ?_, by rw [aa]; exact a5, ?_⟩
      · rw [k02, k3, ← e4.kinds, k5, kk]; simp
      · intro j hs
        have h1 : VShape0 w1 := VShape0.infix (u := [TokenKind.LParen]) (x := [TokenKind.RParen]) (by simpa using hs)
        exact sv7 (Derives.nt (d_tokSeq (List.mem_singleton.mpr rfl) (Derives.seq (d3 (b3 j) h1)
          (Derives.seq (u := []) Derives.optNone (d_tok1 _)))))
    · -- dagarg_list
      have h4 := call_inv defs rcv h4
      simp only [defs, seqs, sepLoop] at h4
      obtain ⟨t1, g1, _, g, gc⟩ := seq_inv defs rcv h4 c4
      have j1 := C.hI _ _ _ _ i3 g1
      have f1 := same_startNode g1
      obtain ⟨t2, g2, gc2, g, gc⟩ := seq_inv defs rcv g gc
      have j2 := C.hI _ _ _ _ j1 g2
      have bt2 := C.hJ _ _ _ _ j2 g
      obtain ⟨t3, g3, _, g4, _⟩ := seq_inv defs rcv g gc
      have f3 := same_finishNode g3
      have f4 := same_retB g4
      have l3 : t1.kinds.length < L := by
        rw [f1.kinds]; exact Nat.lt_of_le_of_lt (kinds_len_le k3) l2
      obtain ⟨w2, b, kl, al, sl, hb1⟩ := sepLJ_inv C L [TokenKind.Eof] _ _ (dagarg_invJ C L hV) _ _ _ l3 j1 g2 gc2
        (by rw [f1.after]; exact a3)
      obtain ⟨hcur5, k5, a5, _⟩ := expect_cleanC (by decide) h5 c5 (by rw [f4.after, f3.after]; exact al)
      refine ⟨TokenKind.LParen :: (w1 ++ (w2 ++ [TokenKind.RParen])), ?_, by rw [aa]; exact a5, ?_⟩
      · rw [k02, k3, ← f1.kinds, kl, ← f3.kinds, ← f4.kinds, k5, kk]; simp
      · intro j hs
        have hin : VShape0 (w1 ++ w2) :=
          VShape0.infix (u := [TokenKind.LParen]) (x := [TokenKind.RParen]) (by simpa using hs)
        cases b with
        | true =>
          have := hb1 rfl
          rw [f4.cur, f3.cur] at hcur5
          rw [hcur5] at this; simp at this
        | false =>
          exact sv7 (Derives.nt (d_tokSeq (List.mem_singleton.mpr rfl) (Derives.seq (d3 (b3 j) hin.left)
            (Derives.seq (Derives.optSome (Derives.nt (sepV0_derives (sl (bt2 (b4 j))) hin.right))) (d_tok1 _)))))
  · obtain ⟨s3, h3, c3, _, _⟩ := seq_inv defs rcv h hc
    exact (error_inv defs rcv h3 c3).elim

end C04L
end Tg
