/-
The hook log of the indexer model (`SymMap.ops`) and the arenas stay coherent: the `gid`-th
allocation of the log is the symbol `gidToSym[gid]`, registered with that symbol's `defineLoc` and
name.  `SmStep` is the footprint of the mutating `SymMap` API as the indexer uses it; `LogOK` is an
invariant of every `SmStep`.
-/
import TgModel.Lemmas.IdeSemMonad
import TgModel.Lemmas.SymbolMapLemmas

namespace Tg
namespace Ide
open Tg.SymbolMap (run step Op Sym)
open Handlers (symbolDefineLoc)

/-- the name stored in the arena entry of a symbol -/
def symbolName (sm : SymMap) : SymbolId → String
  | .record i => (sm.record i).name
  | .templateArgument i => (sm.templateArg i).name
  | .recordField i => (sm.recordField i).name
  | .var i => (sm.var i).name
  | .defset i => (sm.defset i).name
  | .multiclass i => (sm.multiclass i).name
  | .defm i => (sm.defm i).name

/-- the id points into its arena -/
def SymbolId.Valid (sm : SymMap) : SymbolId → Prop
  | .record i => i < sm.recordList.size
  | .templateArgument i => i < sm.templateArgList.size
  | .recordField i => i < sm.recordFieldList.size
  | .var i => i < sm.variableList.size
  | .defset i => i < sm.defsetList.size
  | .multiclass i => i < sm.multiclassList.size
  | .defm i => i < sm.defmList.size

/-- the log and the arenas agree -/
structure LogOK (sm : SymMap) : Prop where
  len : (run sm.ops.toList).syms.length = sm.gidToSym.size
  sym : ∀ (gid : Nat) (s : SymbolId), sm.gidToSym[gid]? = some s → s.Valid sm ∧
    ∃ S : Sym, (run sm.ops.toList).syms[gid]? = some S ∧ S.define = (symbolDefineLoc sm s).toLoc ∧
      S.name = (symbolName sm s).toList

theorem LogOK.empty : LogOK {} := by
  constructor
  · rfl
  · intro gid s h
    simp at h

/-- `sm'` has every valid symbol of `sm`, with the same location and name -/
def Frame (sm sm' : SymMap) : Prop :=
  ∀ t, t.Valid sm → t.Valid sm' ∧ symbolDefineLoc sm' t = symbolDefineLoc sm t ∧
    symbolName sm' t = symbolName sm t

theorem run_push (ops : Array Op) (op : Op) : run (ops.push op).toList = step (run ops.toList) op := by
  simp [run, List.foldl_append]

theorem LogOK.frame {sm sm' : SymMap} (h : LogOK sm) (hops : sm'.ops = sm.ops)
    (hg : sm'.gidToSym = sm.gidToSym) (hf : Frame sm sm') : LogOK sm' := by
  constructor
  · rw [hops, hg]; exact h.len
  · intro gid s hs
    rw [hg] at hs
    obtain ⟨hv, S, h1, h2, h3⟩ := h.sym gid s hs
    obtain ⟨f1, f2, f3⟩ := hf s hv
    exact ⟨f1, S, by rw [hops]; exact h1, by rw [f2]; exact h2, by rw [f3]; exact h3⟩

theorem LogOK.reference {sm sm' : SymMap} (h : LogOK sm) (g : Nat) (loc : SymbolMap.Loc)
    (hops : sm'.ops = sm.ops.push (.reference g loc))
    (hg : sm'.gidToSym = sm.gidToSym) (hf : Frame sm sm') : LogOK sm' := by
  constructor
  · rw [hops, hg, run_push, SymbolMap.step_syms_length]; exact h.len
  · intro gid s hs
    rw [hg] at hs
    obtain ⟨hv, S, h1, h2, h3⟩ := h.sym gid s hs
    obtain ⟨f1, f2, f3⟩ := hf s hv
    obtain ⟨S', e1, e2⟩ := SymbolMap.step_stable _ (.reference g loc) gid S h1
    refine ⟨f1, S', by rw [hops, run_push]; exact e1, ?_, ?_⟩
    · rw [f2, e2.2.1]; exact h2
    · rw [f3, e2.1]; exact h3

theorem LogOK.alloc {sm sm' : SymMap} (h : LogOK sm) (s : SymbolId) (name : String) (loc : FileRange)
    (anon : Bool)
    (hops : sm'.ops = sm.ops.push
      (if anon then .defineAnon name.toList loc.toLoc else .define name.toList loc.toLoc))
    (hg : sm'.gidToSym = sm.gidToSym.push s) (hf : Frame sm sm')
    (hnew : s.Valid sm' ∧ symbolDefineLoc sm' s = loc ∧ symbolName sm' s = name) : LogOK sm' := by
  have hstep : (run sm'.ops.toList).syms = (run sm.ops.toList).syms ++ [{ name := name.toList, define := loc.toLoc }] := by
    rw [hops, run_push]
    cases anon <;> simp [step, SymbolMap.addPos_syms]
  constructor
  · rw [hstep, hg]; simp [h.len]
  · intro gid t ht
    rw [hg] at ht
    rw [hstep]
    by_cases hlt : gid < sm.gidToSym.size
    · rw [Array.getElem?_push_lt hlt] at ht
      have ht' : sm.gidToSym[gid]? = some t := by rw [Array.getElem?_eq_getElem hlt]; exact ht
      obtain ⟨hv, S, h1, h2, h3⟩ := h.sym gid t ht'
      obtain ⟨f1, f2, f3⟩ := hf t hv
      refine ⟨f1, S, ?_, by rw [f2]; exact h2, by rw [f3]; exact h3⟩
      rw [List.getElem?_append_left (by rw [h.len]; exact hlt)]; exact h1
    · have hge : sm.gidToSym.size ≤ gid := Nat.le_of_not_lt hlt
      rcases Nat.eq_or_lt_of_le hge with heq | hgt
      · subst heq
        rw [Array.getElem?_push_size] at ht
        cases ht
        refine ⟨hnew.1, { name := name.toList, define := loc.toLoc }, ?_, ?_, ?_⟩
        · rw [← h.len]; exact List.getElem?_concat_length
        · rw [hnew.2.1]
        · rw [hnew.2.2]
      · rw [Array.getElem?_eq_none (by simp; omega)] at ht
        cases ht

/-! ### the API footprint -/

theorem sGetElem!_push_lt {α : Type} [Inhabited α] (a : Array α) (x : α) (i : Nat) (h : i < a.size) :
    (a.push x)[i]! = a[i]! := by
  rw [getElem!_pos (a.push x) i (by simp; omega), getElem!_pos a i h, Array.getElem_push_lt h]

theorem getElem!_push_size {α : Type} [Inhabited α] (a : Array α) (x : α) :
    (a.push x)[a.size]! = x := by
  rw [getElem!_pos (a.push x) a.size (by simp)]; simp

theorem sGetElem!_modify {α : Type} [Inhabited α] (a : Array α) (f : α → α) (j i : Nat) (h : i < a.size) :
    (a.modify j f)[i]! = if j = i then f a[i]! else a[i]! := by
  rw [getElem!_pos (a.modify j f) i (by simp; omega), getElem!_pos a i h, Array.getElem_modify]

/-- one call of the mutating `SymMap` API, as the indexer uses it -/
inductive SmStep : SymMap → SymMap → Prop
  | addRecord (sm r g) : SmStep sm (sm.addRecord r g).2
  | addAnonymousDef (sm r) : SmStep sm (sm.addAnonymousDef r).2
  | addMulticlassDef (sm r) : SmStep sm (sm.addMulticlassDef r).2
  | registerDefsetName (sm id) : SmStep sm (sm.registerDefsetName id)
  | addTemplateArgument (sm a) : SmStep sm (sm.addTemplateArgument a).2
  | addRecordField (sm f) : SmStep sm (sm.addRecordField f).2
  | addVariable (sm v) : SmStep sm (sm.addVariable v).2
  | addDefset (sm d) : SmStep sm (sm.addDefset d).2
  | addMulticlass (sm m) : SmStep sm (sm.addMulticlass m).2
  | addDefm (sm d g) : SmStep sm (sm.addDefm d g).2
  | addAnonymousDefm (sm d) : SmStep sm (sm.addAnonymousDefm d).2
  | addReference (sm s loc) : SmStep sm (sm.addReference s loc)
  | recordMut (sm : SymMap) (id : Nat) (f : Record → Record)
      (hf : ∀ r, (f r).name = r.name ∧ (f r).defineLoc = r.defineLoc) :
      SmStep sm { sm with recordList := sm.recordList.modify id f }
  | multiclassMut (sm : SymMap) (id : Nat) (f : Multiclass → Multiclass)
      (hf : ∀ r, (f r).name = r.name ∧ (f r).defineLoc = r.defineLoc) :
      SmStep sm { sm with multiclassList := sm.multiclassList.modify id f }
  | defmMut (sm : SymMap) (id : Nat) (f : Defm → Defm)
      (hf : ∀ r, (f r).name = r.name ∧ (f r).defineLoc = r.defineLoc) :
      SmStep sm { sm with defmList := sm.defmList.modify id f }
  | defsetMut (sm : SymMap) (id : Nat) (f : Defset → Defset)
      (hf : ∀ r, (f r).name = r.name ∧ (f r).defineLoc = r.defineLoc) :
      SmStep sm { sm with defsetList := sm.defsetList.modify id f }

theorem pushFileSymbol_frame (sm : SymMap) (file : Nat) (s : SymbolId) :
    (sm.pushFileSymbol file s).ops = sm.ops ∧ (sm.pushFileSymbol file s).gidToSym = sm.gidToSym ∧
    Frame sm (sm.pushFileSymbol file s) := by
  unfold SymMap.pushFileSymbol
  split <;> exact ⟨rfl, rfl, fun t ht => ⟨by cases t <;> exact ht, by cases t <;> rfl, by cases t <;> rfl⟩⟩

theorem LogOK.pushFileSymbol {sm : SymMap} (h : LogOK sm) (file : Nat) (s : SymbolId) :
    LogOK (sm.pushFileSymbol file s) :=
  let ⟨a, b, c⟩ := pushFileSymbol_frame sm file s
  h.frame a b c


theorem Frame.of_arenas {sm sm' : SymMap} (h1 : sm'.recordList = sm.recordList)
    (h2 : sm'.templateArgList = sm.templateArgList) (h3 : sm'.recordFieldList = sm.recordFieldList)
    (h4 : sm'.variableList = sm.variableList) (h5 : sm'.defsetList = sm.defsetList)
    (h6 : sm'.multiclassList = sm.multiclassList) (h7 : sm'.defmList = sm.defmList) : Frame sm sm' := by
  intro t ht
  cases t <;>
    simp only [SymbolId.Valid, symbolDefineLoc, symbolName, SymMap.record, SymMap.templateArg,
      SymMap.recordField, SymMap.var, SymMap.defset, SymMap.multiclass, SymMap.defm, h1, h2, h3, h4, h5, h6, h7,
      and_self, and_true] at ht ⊢ <;>
    exact ht

/-- updating fields other than the arenas, the log and `gidToSym` -/
theorem LogOK.of_same {sm sm' : SymMap} (h : LogOK sm) (h0 : sm'.ops = sm.ops) (hg : sm'.gidToSym = sm.gidToSym)
    (h1 : sm'.recordList = sm.recordList)
    (h2 : sm'.templateArgList = sm.templateArgList) (h3 : sm'.recordFieldList = sm.recordFieldList)
    (h4 : sm'.variableList = sm.variableList) (h5 : sm'.defsetList = sm.defsetList)
    (h6 : sm'.multiclassList = sm.multiclassList) (h7 : sm'.defmList = sm.defmList) : LogOK sm' :=
  h.frame h0 hg (Frame.of_arenas h1 h2 h3 h4 h5 h6 h7)


/-- the two side goals of `LogOK.alloc` for an arena push -/
macro "alloc_side" : tactic => `(tactic| (
  first
  | (intro t ht
     cases t <;> first
       | exact ⟨ht, rfl, rfl⟩
       | (simp only [SymbolId.Valid] at ht
          exact ⟨by simp [SymbolId.Valid, SymMap.logDefine]; omega,
            by simp [symbolDefineLoc, SymMap.record, SymMap.templateArg, SymMap.recordField, SymMap.var,
              SymMap.defset, SymMap.multiclass, SymMap.defm, SymMap.logDefine, sGetElem!_push_lt _ _ _ ht],
            by simp [symbolName, SymMap.record, SymMap.templateArg, SymMap.recordField, SymMap.var,
              SymMap.defset, SymMap.multiclass, SymMap.defm, SymMap.logDefine, sGetElem!_push_lt _ _ _ ht]⟩))
  | exact ⟨by simp [SymbolId.Valid, SymMap.logDefine],
      by simp [symbolDefineLoc, SymMap.record, SymMap.templateArg, SymMap.recordField, SymMap.var,
        SymMap.defset, SymMap.multiclass, SymMap.defm, SymMap.logDefine],
      by simp [symbolName, SymMap.record, SymMap.templateArg, SymMap.recordField, SymMap.var,
        SymMap.defset, SymMap.multiclass, SymMap.defm, SymMap.logDefine]⟩))

section alloc
variable {sm : SymMap} (h : LogOK sm)
include h

theorem LogOK.addRecord (r : Record) (g : Bool) : LogOK (sm.addRecord r g).2 := by
  unfold SymMap.addRecord
  simp only
  have h1 : LogOK ((({ sm with recordList := sm.recordList.push r, recordGid := sm.recordGid.push sm.gidToSym.size } : SymMap).logDefine (.record sm.recordList.size) r.name r.defineLoc false)) := by
    refine h.alloc (.record sm.recordList.size) r.name r.defineLoc false rfl rfl ?_ ?_
    · intro t ht
      cases t <;> first | exact ⟨ht, rfl, rfl⟩ | skip
      simp only [SymbolId.Valid] at ht
      refine ⟨by simp [SymbolId.Valid, SymMap.logDefine]; omega, ?_, ?_⟩
      · simp [symbolDefineLoc, SymMap.record, SymMap.logDefine, sGetElem!_push_lt _ _ _ ht]
      · simp [symbolName, SymMap.record, SymMap.logDefine, sGetElem!_push_lt _ _ _ ht]
    · refine ⟨by simp [SymbolId.Valid, SymMap.logDefine], ?_, ?_⟩
      · simp [symbolDefineLoc, SymMap.record, SymMap.logDefine]
      · simp [symbolName, SymMap.record, SymMap.logDefine]
  have h2 : LogOK (match r.kind with
      | .cls => { (({ sm with recordList := sm.recordList.push r, recordGid := sm.recordGid.push sm.gidToSym.size } : SymMap).logDefine (.record sm.recordList.size) r.name r.defineLoc false) with nameToClass := (({ sm with recordList := sm.recordList.push r, recordGid := sm.recordGid.push sm.gidToSym.size } : SymMap).logDefine (.record sm.recordList.size) r.name r.defineLoc false).nameToClass.insert r.name sm.recordList.size }
      | .def_ => { (({ sm with recordList := sm.recordList.push r, recordGid := sm.recordGid.push sm.gidToSym.size } : SymMap).logDefine (.record sm.recordList.size) r.name r.defineLoc false) with nameToDef := (({ sm with recordList := sm.recordList.push r, recordGid := sm.recordGid.push sm.gidToSym.size } : SymMap).logDefine (.record sm.recordList.size) r.name r.defineLoc false).nameToDef.insert r.name sm.recordList.size }) := by
    split <;> exact h1.of_same rfl rfl rfl rfl rfl rfl rfl rfl rfl
  split
  · exact h2.pushFileSymbol _ _
  · exact h2

theorem LogOK.addMulticlassDef (r : Record) : LogOK (sm.addMulticlassDef r).2 := by
  unfold SymMap.addMulticlassDef
  refine LogOK.pushFileSymbol ?_ _ _
  refine h.alloc (.record sm.recordList.size) r.name r.defineLoc false rfl rfl ?_ ?_ <;> alloc_side

theorem LogOK.registerDefsetName (id : Nat) : LogOK (sm.registerDefsetName id) :=
  h.of_same rfl rfl rfl rfl rfl rfl rfl rfl rfl

theorem LogOK.addAnonymousDef (r : Record) : LogOK (sm.addAnonymousDef r).2 := by
  unfold SymMap.addAnonymousDef
  refine h.alloc (.record sm.recordList.size) r.name r.defineLoc true rfl rfl ?_ ?_ <;> alloc_side

theorem LogOK.addTemplateArgument (a : TemplateArgument) : LogOK (sm.addTemplateArgument a).2 := by
  unfold SymMap.addTemplateArgument
  refine h.alloc (.templateArgument sm.templateArgList.size) a.name a.defineLoc false rfl rfl ?_ ?_ <;> alloc_side

theorem LogOK.addRecordField (f : RecordField) : LogOK (sm.addRecordField f).2 := by
  unfold SymMap.addRecordField
  refine h.alloc (.recordField sm.recordFieldList.size) f.name f.defineLoc false rfl rfl ?_ ?_ <;> alloc_side

theorem LogOK.addVariable (v : Variable) : LogOK (sm.addVariable v).2 := by
  unfold SymMap.addVariable
  refine LogOK.pushFileSymbol ?_ _ _
  refine h.alloc (.var sm.variableList.size) v.name v.defineLoc false rfl rfl ?_ ?_ <;> alloc_side

theorem LogOK.addDefset (d : Defset) : LogOK (sm.addDefset d).2 := by
  unfold SymMap.addDefset
  refine LogOK.pushFileSymbol ?_ _ _
  refine h.alloc (.defset sm.defsetList.size) d.name d.defineLoc false rfl rfl ?_ ?_ <;> alloc_side

theorem LogOK.addMulticlass (m : Multiclass) : LogOK (sm.addMulticlass m).2 := by
  unfold SymMap.addMulticlass
  refine LogOK.pushFileSymbol ?_ _ _
  refine LogOK.of_same (sm := (({ sm with multiclassList := sm.multiclassList.push m, multiclassGid := sm.multiclassGid.push sm.gidToSym.size } : SymMap).logDefine (.multiclass sm.multiclassList.size) m.name m.defineLoc false)) ?_ rfl rfl rfl rfl rfl rfl rfl rfl rfl
  refine h.alloc (.multiclass sm.multiclassList.size) m.name m.defineLoc false rfl rfl ?_ ?_ <;> alloc_side

theorem LogOK.addDefm (d : Defm) (g : Bool) : LogOK (sm.addDefm d g).2 := by
  unfold SymMap.addDefm
  have h1 : LogOK ((({ sm with defmList := sm.defmList.push d, defmGid := sm.defmGid.push sm.gidToSym.size } : SymMap).logDefine (.defm sm.defmList.size) d.name d.defineLoc false)) := by
    refine h.alloc (.defm sm.defmList.size) d.name d.defineLoc false rfl rfl ?_ ?_ <;> alloc_side
  simp only
  split
  · exact h1.pushFileSymbol _ _
  · exact h1

theorem LogOK.addAnonymousDefm (d : Defm) : LogOK (sm.addAnonymousDefm d).2 := by
  unfold SymMap.addAnonymousDefm
  refine h.alloc (.defm sm.defmList.size) d.name d.defineLoc true rfl rfl ?_ ?_ <;> alloc_side

theorem LogOK.addReference (s : SymbolId) (loc : FileRange) : LogOK (sm.addReference s loc) :=
  h.reference (sm.gidOf s) loc.toLoc rfl rfl (Frame.of_arenas rfl rfl rfl rfl rfl rfl rfl)

theorem LogOK.recordMut (id : Nat) (f : Record → Record)
    (hf : ∀ r, (f r).name = r.name ∧ (f r).defineLoc = r.defineLoc) :
    LogOK { sm with recordList := sm.recordList.modify id f } := by
  refine h.frame rfl rfl ?_
  intro t ht
  cases t <;> first | exact ⟨ht, rfl, rfl⟩ | skip
  simp only [SymbolId.Valid] at ht
  refine ⟨by simp [SymbolId.Valid]; exact ht, ?_, ?_⟩
  · simp only [symbolDefineLoc, SymMap.record, sGetElem!_modify _ _ _ _ ht]
    split
    · exact (hf _).2
    · rfl
  · simp only [symbolName, SymMap.record, sGetElem!_modify _ _ _ _ ht]
    split
    · exact (hf _).1
    · rfl

theorem LogOK.multiclassMut (id : Nat) (f : Multiclass → Multiclass)
    (hf : ∀ r, (f r).name = r.name ∧ (f r).defineLoc = r.defineLoc) :
    LogOK { sm with multiclassList := sm.multiclassList.modify id f } := by
  refine h.frame rfl rfl ?_
  intro t ht
  cases t <;> first | exact ⟨ht, rfl, rfl⟩ | skip
  simp only [SymbolId.Valid] at ht
  refine ⟨by simp [SymbolId.Valid]; exact ht, ?_, ?_⟩
  · simp only [symbolDefineLoc, SymMap.multiclass, sGetElem!_modify _ _ _ _ ht]
    split
    · exact (hf _).2
    · rfl
  · simp only [symbolName, SymMap.multiclass, sGetElem!_modify _ _ _ _ ht]
    split
    · exact (hf _).1
    · rfl

theorem LogOK.defmMut (id : Nat) (f : Defm → Defm)
    (hf : ∀ r, (f r).name = r.name ∧ (f r).defineLoc = r.defineLoc) :
    LogOK { sm with defmList := sm.defmList.modify id f } := by
  refine h.frame rfl rfl ?_
  intro t ht
  cases t <;> first | exact ⟨ht, rfl, rfl⟩ | skip
  simp only [SymbolId.Valid] at ht
  refine ⟨by simp [SymbolId.Valid]; exact ht, ?_, ?_⟩
  · simp only [symbolDefineLoc, SymMap.defm, sGetElem!_modify _ _ _ _ ht]
    split
    · exact (hf _).2
    · rfl
  · simp only [symbolName, SymMap.defm, sGetElem!_modify _ _ _ _ ht]
    split
    · exact (hf _).1
    · rfl

theorem LogOK.defsetMut (id : Nat) (f : Defset → Defset)
    (hf : ∀ r, (f r).name = r.name ∧ (f r).defineLoc = r.defineLoc) :
    LogOK { sm with defsetList := sm.defsetList.modify id f } := by
  refine h.frame rfl rfl ?_
  intro t ht
  cases t <;> first | exact ⟨ht, rfl, rfl⟩ | skip
  simp only [SymbolId.Valid] at ht
  refine ⟨by simp [SymbolId.Valid]; exact ht, ?_, ?_⟩
  · simp only [symbolDefineLoc, SymMap.defset, sGetElem!_modify _ _ _ _ ht]
    split
    · exact (hf _).2
    · rfl
  · simp only [symbolName, SymMap.defset, sGetElem!_modify _ _ _ _ ht]
    split
    · exact (hf _).1
    · rfl

theorem LogOK.step {sm' : SymMap} (hs : SmStep sm sm') : LogOK sm' := by
  cases hs with
  | addRecord r g => exact h.addRecord r g
  | addAnonymousDef r => exact h.addAnonymousDef r
  | addMulticlassDef r => exact h.addMulticlassDef r
  | registerDefsetName id => exact h.registerDefsetName id
  | addTemplateArgument a => exact h.addTemplateArgument a
  | addRecordField f => exact h.addRecordField f
  | addVariable v => exact h.addVariable v
  | addDefset d => exact h.addDefset d
  | addMulticlass m => exact h.addMulticlass m
  | addDefm d g => exact h.addDefm d g
  | addAnonymousDefm d => exact h.addAnonymousDefm d
  | addReference s loc => exact h.addReference s loc
  | recordMut id f hf => exact h.recordMut id f hf
  | multiclassMut id f hf => exact h.multiclassMut id f hf
  | defmMut id f hf => exact h.defmMut id f hf
  | defsetMut id f hf => exact h.defsetMut id f hf
end alloc


end Ide
end Tg
