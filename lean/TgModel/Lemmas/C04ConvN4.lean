/-
C04 converse for whole statements (part 4): record bodies with their items, `def`, `defm`, `class`,
`let` lists and `foreach` iterators.
-/
import TgModel.Lemmas.C04ConvN3

namespace Tg
namespace C04L
open Prog Grammar Frag Doc

local notation "rcv" => Tables.recoverTokens

/-- `("=" Value)?` -/
theorem opt_init_inv (input : List Char) (n : Nat) (s s' : PState) (hi : Inv input s)
    (h : exec defs rcv n (ifEatIf .Equal (call .value) nop) s = .ok s') (hc : Clean s s') :
    ∃ w, s.kinds = w ++ s'.kinds ∧ DS (.opt (.seq (.tok [TokenKind.Equal]) (.nt .Value_))) w := by
  have h := lift_fuel h 10
  simp only [ifEatIf] at h
  obtain ⟨s1, h1, c1, h2, c2⟩ := seq_inv defs rcv h hc
  have i1 := inv_exec defs rcv input _ _ _ _ hi h1
  rcases eatIf_clean (by decide) h1 with ⟨_, hfl, k1, a1, n1⟩ | ⟨_, rfl⟩
  · rcases ifFlag_inv defs rcv h2 with ⟨_, h2⟩ | ⟨hf, _⟩
    · obtain ⟨wv, k2, dv, _⟩ := value_clean i1 h2 c2 a1 n1
      exact ⟨TokenKind.Equal :: wv, by rw [k1, k2]; rfl, DVN.optSome (ds_tokSeq (DVN.val dv))⟩
    · rw [hfl] at hf; cases hf
  · rcases ifFlag_inv defs rcv h2 with ⟨hf, _⟩ | ⟨_, h2⟩
    · simp at hf
    · have e := same_nop h2
      exact ⟨[], by rw [e.kinds]; rfl, DVN.optNone⟩

/-! ### body items -/

theorem field_def_inv (input : List Char) (n : Nat) (s s' : PState) (hi : Inv input s)
    (h : exec defs rcv n (call .field_def) s = .ok s') (hc : Clean s s') (ha : s.afterError = false) :
    ∃ w, s.kinds = w ++ s'.kinds ∧ (Shape w → DS (.nt .FieldDef_) w) := by
  have h := call_inv defs rcv (lift_fuel h 40)
  simp only [defs, seqs] at h
  obtain ⟨s1, h1, _, h, hc⟩ := seq_inv defs rcv h hc
  have i1 := inv_exec defs rcv input _ _ _ _ hi h1
  have e1 := same_startNode h1
  obtain ⟨s2, h2, c2, h, hc⟩ := seq_inv defs rcv h hc
  have i2 := inv_exec defs rcv input _ _ _ _ i1 h2
  obtain ⟨s3, h3, c3, h, hc⟩ := seq_inv defs rcv h hc
  have i3 := inv_exec defs rcv input _ _ _ _ i2 h3
  obtain ⟨t, k3, a3⟩ := type_inv _ _ _ _ (Nat.le_refl _) h3 c3
  obtain ⟨s4, h4, c4, h, hc⟩ := seq_inv defs rcv h hc
  have i4 := inv_exec defs rcv input _ _ _ _ i3 h4
  obtain ⟨k4, a4⟩ := ident_clean h4 c4
  obtain ⟨s5, h5, c5, h, hc⟩ := seq_inv defs rcv h hc
  obtain ⟨wi, k5, d5⟩ := opt_init_inv input _ _ _ i4 h5 c5
  have a5 := clean_afterError defs rcv h5 c5 a4
  obtain ⟨s6, h6, c6, h, _⟩ := seq_inv defs rcv h hc
  obtain ⟨k6, _⟩ := expect_clean (by decide) h6 c6 a5
  have e7 := same_finishNode h
  have fin : ∀ (fld : List TokenKind), DS (.opt (.tok [TokenKind.Field])) fld → s2.kinds = t.render ++ s3.kinds →
      s.kinds = fld ++ s2.kinds →
      ∃ w, s.kinds = w ++ s'.kinds ∧ (Shape w → DS (.nt .FieldDef_) w) := by
    intro fld dfld _ hk
    refine ⟨fld ++ (t.render ++ (TokenKind.Id :: (wi ++ [TokenKind.Semi]))), ?_, ?_⟩
    · rw [hk, k3, k4, k5, k6, e7.kinds]; simp
    · intro hs
      have ht : Shape t.render := Shape.infix (u := fld) (by simpa using hs)
      exact DVN.nt (DVN.altR (DVN.seq dfld (DVN.seq (DVN.of (fty_doc ht)) (ds_idSeq (DVN.seq d5 (ds_tok1 _))))))
  rcases eatIf_clean (by decide) h2 with ⟨_, _, k2, _, _⟩ | ⟨_, rfl⟩
  · exact fin [TokenKind.Field] (DVN.optSome (ds_tok1 _)) k3 (by rw [← e1.kinds, k2]; rfl)
  · exact fin [] DVN.optNone k3 (by rw [← e1.kinds]; rfl)

theorem field_let_inv (input : List Char) (n : Nat) (s s' : PState) (hi : Inv input s)
    (h : exec defs rcv n (call .field_let) s = .ok s') (hc : Clean s s') :
    ∃ w, s.kinds = w ++ s'.kinds ∧ DS (.nt .FieldLet_) w := by
  have h := call_inv defs rcv (lift_fuel h 40)
  simp only [defs, seqs] at h
  obtain ⟨s1, h1, _, h, hc⟩ := seq_inv defs rcv h hc
  have i1 := inv_exec defs rcv input _ _ _ _ hi h1
  have e1 := same_startNode h1
  obtain ⟨s2, h2, _, h, hc⟩ := seq_inv defs rcv h hc
  have i2 := inv_exec defs rcv input _ _ _ _ i1 h2
  obtain ⟨k2, a2⟩ := assertTok_clean (by decide) h2
  obtain ⟨s3, h3, c3, h, hc⟩ := seq_inv defs rcv h hc
  have i3 := inv_exec defs rcv input _ _ _ _ i2 h3
  obtain ⟨k3, a3⟩ := ident_clean h3 c3
  obtain ⟨s4, h4, c4, h, hc⟩ := seq_inv defs rcv h hc
  have i4 := inv_exec defs rcv input _ _ _ _ i3 h4
  obtain ⟨wr, k4, a4, d4⟩ := opt_range_inv input .LBrace .RBrace _ (by decide) (by decide) _ _ _ i3 h4 c4 a3
  obtain ⟨s5, h5, c5, h, hc⟩ := seq_inv defs rcv h hc
  have i5 := inv_exec defs rcv input _ _ _ _ i4 h5
  obtain ⟨k5, a5, n5⟩ := expect_cleanN (by decide) h5 c5 a4
  obtain ⟨s6, h6, c6, h, hc⟩ := seq_inv defs rcv h hc
  obtain ⟨h6, _⟩ := orError_inv h6 c6
  obtain ⟨wv, k6, dv, a6⟩ := value_clean i5 h6 c6 a5 n5
  obtain ⟨s7, h7, c7, h, _⟩ := seq_inv defs rcv h hc
  obtain ⟨k7, _⟩ := expect_clean (by decide) h7 c7 a6
  have e8 := same_finishNode h
  refine ⟨TokenKind.Let :: TokenKind.Id :: (wr ++ (TokenKind.Equal :: (wv ++ [TokenKind.Semi]))), ?_, ?_⟩
  · rw [← e1.kinds, k2, k3, k4, k5, k6, k7, e8.kinds]; simp
  · exact DVN.nt (ds_tokSeq (ds_idSeq (DVN.seq (DVN.of d4) (ds_tokSeq (DVN.seq (DVN.val dv) (ds_tok1 _))))))

/-- what `body_item` did: nothing (answer `false`), or one documented item (answer `true`) -/
theorem body_item_inv (input : List Char) (n : Nat) (s s' : PState) (hi : Inv input s)
    (h : exec defs rcv n (call .body_item) s = .ok s') (hc : Clean s s') (ha : s.afterError = false) :
    (s'.flag = false ∧ s'.kinds = s.kinds) ∨
    (s'.flag = true ∧ ∃ w, s.kinds = w ++ s'.kinds ∧ (Shape w → DS (.nt .BodyItem_) w)) := by
  have h := call_inv defs rcv (lift_fuel h 40)
  simp only [defs, matchPeek, bodyItemArms] at h
  have wrap : ∀ {m : Nat} {f : Fn} {A : E},
      exec defs rcv (m+2) (seq (call f) (retB true)) s = .ok s' →
      (∀ a, exec defs rcv (m+1) (call f) s = .ok a → Clean s a → ∃ w, s.kinds = w ++ a.kinds ∧ (Shape w → DS A w)) →
      (∀ w, DS A w → DS (.nt .BodyItem_) w) →
      (s'.flag = false ∧ s'.kinds = s.kinds) ∨
      (s'.flag = true ∧ ∃ w, s.kinds = w ++ s'.kinds ∧ (Shape w → DS (.nt .BodyItem_) w)) := by
    intro m f A hh hconv hd
    obtain ⟨a, g1, gc1, g2, _⟩ := seq_inv defs rcv hh hc
    have e := retB_inv defs rcv g2; subst e
    obtain ⟨w, hk, hw⟩ := hconv a g1 gc1
    exact Or.inr ⟨rfl, w, hk, fun hs => hd w (hw hs)⟩
  rcases ifAt_inv defs rcv h with ⟨_, h⟩ | ⟨_, h⟩
  · exact wrap h (fun a g gc => field_def_inv input _ s a hi g gc ha)
      (fun w d => DVN.nt (DVN.altR (DVN.altL d)))
  rcases ifAt_inv defs rcv h with ⟨_, h⟩ | ⟨_, h⟩
  · exact wrap h (fun a g gc => by
        obtain ⟨w, hk, hd⟩ := field_let_inv input _ s a hi g gc
        exact ⟨w, hk, fun _ => hd⟩)
      (fun w d => DVN.nt (DVN.altR (DVN.altR (DVN.altL d))))
  rcases ifAt_inv defs rcv h with ⟨_, h⟩ | ⟨_, h⟩
  · exact wrap h (fun a g gc => by
        obtain ⟨w, hk, hd⟩ := conv_defvar input _ s a hi g gc
        exact ⟨w, hk, fun _ => DVN.ofDV hd⟩)
      (fun w d => DVN.nt (DVN.altR (DVN.altR (DVN.altR (DVN.altL d)))))
  rcases ifAt_inv defs rcv h with ⟨_, h⟩ | ⟨_, h⟩
  · exact wrap h (fun a g gc => by
        obtain ⟨w, hk, hd⟩ := conv_assert input _ s a hi g gc
        exact ⟨w, hk, fun _ => DVN.ofDV hd⟩)
      (fun w d => DVN.nt (DVN.altR (DVN.altR (DVN.altR (DVN.altR (DVN.altL d))))))
  rcases ifAt_inv defs rcv h with ⟨_, h⟩ | ⟨_, h⟩
  · exact wrap h (fun a g gc => by
        obtain ⟨w, hk, hd⟩ := conv_dump input _ s a hi g gc
        exact ⟨w, hk, fun _ => DVN.ofDV hd⟩)
      (fun w d => DVN.nt (DVN.altR (DVN.altR (DVN.altR (DVN.altR (DVN.altR d))))))
  · have e := retB_inv defs rcv h; subst e
    exact Or.inl ⟨rfl, rfl⟩

/-- the item loop of a body -/
theorem items_loop (input : List Char) : ∀ (n : Nat) (s s' : PState), Inv input s →
    exec defs rcv n (loop (ifAt [.RBrace, .Eof] (retB false) (call .body_item)) nop) s = .ok s' → Clean s s' →
    s.afterError = false →
    ∃ w, s.kinds = w ++ s'.kinds ∧ (Shape w → DS (.star (.nt .BodyItem_)) w) := by
  intro n
  induction n with
  | zero => intro s s' _ h; simp [exec] at h
  | succ n ih =>
    intro s s' hi h hc ha
    obtain ⟨s1, h1, c1, hcase⟩ := loop_inv h hc
    have i1 := inv_exec defs rcv input _ _ _ _ hi h1
    have h1 := lift_fuel h1 5
    rcases ifAt_inv defs rcv h1 with ⟨_, h1⟩ | ⟨_, h1⟩
    · have e1 := retB_inv defs rcv h1; subst e1
      rcases hcase with ⟨_, rfl⟩ | ⟨hf, _⟩
      · exact ⟨[], rfl, fun _ => DVN.starNil⟩
      · simp at hf
    · rcases body_item_inv input _ _ _ hi h1 c1 ha with ⟨hfl, hk⟩ | ⟨hfl, w1, hk, hd⟩
      · rcases hcase with ⟨_, rfl⟩ | ⟨hf, _⟩
        · exact ⟨[], by rw [hk]; rfl, fun _ => DVN.starNil⟩
        · rw [hfl] at hf; cases hf
      · rcases hcase with ⟨hf, _⟩ | ⟨_, s2, hb, _, hl, cl⟩
        · rw [hfl] at hf; cases hf
        · have e2 := nop_inv defs rcv (lift_fuel hb 1)
          rw [e2] at hl cl
          have a1 := clean_afterError defs rcv h1 c1 ha
          obtain ⟨w2, k2, d2⟩ := ih _ _ i1 hl cl a1
          exact ⟨w1 ++ w2, by rw [hk, k2]; simp, fun hs => DVN.starCons (hd hs.left) (d2 hs.right)⟩

/-- `";"` or `"{" BodyItem* "}"` -/
theorem conv_bodyN (input : List Char) (n : Nat) (s s' : PState) (hi : Inv input s)
    (h : exec defs rcv n (call .body) s = .ok s') (hc : Clean s s') (ha : s.afterError = false) :
    ∃ w, s.kinds = w ++ s'.kinds ∧ s.cur ≠ .Eof ∧ (Shape w → DS (.nt .Body_) w) := by
  have h := call_inv defs rcv (lift_fuel h 40)
  simp only [defs, seqs, ifEatIf] at h
  obtain ⟨s1, h1, _, h, hc⟩ := seq_inv defs rcv h hc
  have i1 := inv_exec defs rcv input _ _ _ _ hi h1
  have e1 := same_startNode h1
  obtain ⟨s2, h2, c2, h, _⟩ := seq_inv defs rcv h hc
  have e9 := same_finishNode h
  obtain ⟨s3, h3, c3, h4, c4⟩ := seq_inv defs rcv h2 c2
  have i3 := inv_exec defs rcv input _ _ _ _ i1 h3
  rcases eatIf_clean (by decide) h3 with ⟨hcur, hfl, k3, a3, _⟩ | ⟨_, rfl⟩
  · rcases ifFlag_inv defs rcv h4 with ⟨_, h4⟩ | ⟨hf, _⟩
    · have e4 := same_nop h4
      refine ⟨[TokenKind.Semi], ?_, ?_, ?_⟩
      · rw [← e1.kinds, k3, e9.kinds, e4.kinds]; rfl
      · rw [← e1.cur, hcur]; decide
      · intro _; exact DVN.nt (DVN.altL (ds_tok1 _))
    · rw [hfl] at hf; cases hf
  · rcases ifFlag_inv defs rcv h4 with ⟨hf, _⟩ | ⟨_, h4⟩
    · simp at hf
    · obtain ⟨s5, h5, c5, h6, c6⟩ := seq_inv defs rcv h4 c4
      have i5 := inv_exec defs rcv input _ _ _ _ i3 h5
      obtain ⟨hcur, k5, a5, _⟩ := expect_cleanC (by decide) h5 c5 (show s1.afterError = false by rw [e1.after]; exact ha)
      obtain ⟨s6, h6, c6, h7, c7⟩ := seq_inv defs rcv h6 c6
      obtain ⟨wi, k6, d6⟩ := items_loop input _ _ _ i5 h6 c6 a5
      have a6 := clean_afterError defs rcv h6 c6 a5
      obtain ⟨k7, _⟩ := expect_clean (by decide) h7 c7 a6
      refine ⟨TokenKind.LBrace :: (wi ++ [TokenKind.RBrace]), ?_, ?_, ?_⟩
      · have k5' : s1.kinds = TokenKind.LBrace :: s5.kinds := k5
        rw [← e1.kinds, k5', k6, k7, e9.kinds]; simp
      · have : s1.cur = TokenKind.LBrace := hcur
        rw [← e1.cur, this]; decide
      · intro hs
        have hsi : Shape wi := Shape.infix (u := [TokenKind.LBrace]) (x := [TokenKind.RBrace]) (by simpa using hs)
        exact DVN.nt (DVN.altR (ds_tokSeq (DVN.seq (d6 hsi) (ds_tok1 _))))

theorem conv_record_bodyN (input : List Char) (n : Nat) (s s' : PState) (hi : Inv input s)
    (h : exec defs rcv n (call .record_body) s = .ok s') (hc : Clean s s') (ha : s.afterError = false) :
    ∃ w, s.kinds = w ++ s'.kinds ∧ (Shape w → DS (.nt .RecordBody_) w) := by
  have h := call_inv defs rcv (lift_fuel h 40)
  simp only [defs, seqs] at h
  obtain ⟨s1, h1, _, h, hc⟩ := seq_inv defs rcv h hc
  have i1 := inv_exec defs rcv input _ _ _ _ hi h1
  have e1 := same_startNode h1
  obtain ⟨s2, h2, c2, h, hc⟩ := seq_inv defs rcv h hc
  have i2 := inv_exec defs rcv input _ _ _ _ i1 h2
  obtain ⟨wP, k2, a2, d2⟩ := conv_parentsN input _ _ _ i1 h2 c2 (by rw [e1.after]; exact ha)
  obtain ⟨s3, h3, c3, h, _⟩ := seq_inv defs rcv h hc
  obtain ⟨wB, k3, hne, d3⟩ := conv_bodyN input _ _ _ i2 h3 c3 a2
  have e4 := same_finishNode h
  refine ⟨wP ++ wB, ?_, ?_⟩
  · rw [← e1.kinds, k2, k3, e4.kinds]; simp
  · intro hs
    rcases d2 with he | d2
    · exact (hne he).elim
    · exact DVN.nt (DVN.seq d2 (d3 hs.right))

/-! ### `def`, `defm`, `class` -/

/-- the optional name of a `def`/`defm` -/
theorem object_name_inv (input : List Char) (n : Nat) (s s' : PState) (hi : Inv input s) (hn : Norm s)
    (h : exec defs rcv n (call .object_name) s = .ok s') (hc : Clean s s') (ha : s.afterError = false) :
    ∃ w, s.kinds = w ++ s'.kinds ∧ DS (.opt (.nt .Value_NameMode_)) w := by
  have h := call_inv defs rcv (lift_fuel h 40)
  simp only [defs] at h
  rcases ifAt_inv defs rcv h with ⟨_, h⟩ | ⟨_, h⟩
  · have e := same_nop h
    exact ⟨[], by rw [e.kinds]; rfl, DVN.optNone⟩
  · have h := call_inv defs rcv h
    simp only [defs] at h
    rcases ifAt_inv defs rcv h with ⟨_, h⟩ | ⟨_, h⟩
    · obtain ⟨w, hk, hw, _⟩ := name_clean hi h hc ha hn
      exact ⟨w, hk, DVN.optSome (DVN.nval hw)⟩
    · have e := same_nop h
      exact ⟨[], by rw [e.kinds]; rfl, DVN.optNone⟩

theorem conv_def (input : List Char) (n : Nat) (s s' : PState) (hi : Inv input s)
    (h : exec defs rcv n (call .def_) s = .ok s') (hc : Clean s s') :
    ∃ w, s.kinds = w ++ s'.kinds ∧ (Shape w → DS (.nt .Def_) w) := by
  have h := call_inv defs rcv (lift_fuel h 40)
  simp only [defs, seqs] at h
  obtain ⟨s1, h1, _, h, hc⟩ := seq_inv defs rcv h hc
  have i1 := inv_exec defs rcv input _ _ _ _ hi h1
  have e1 := same_startNode h1
  obtain ⟨s2, h2, _, h, hc⟩ := seq_inv defs rcv h hc
  have i2 := inv_exec defs rcv input _ _ _ _ i1 h2
  obtain ⟨k2, a2, n2⟩ := assertTok_cleanN (by decide) h2
  obtain ⟨s3, h3, c3, h, hc⟩ := seq_inv defs rcv h hc
  have i3 := inv_exec defs rcv input _ _ _ _ i2 h3
  obtain ⟨wn, k3, d3⟩ := object_name_inv input _ _ _ i2 n2 h3 c3 a2
  have a3 := clean_afterError defs rcv h3 c3 a2
  obtain ⟨s4, h4, c4, h, _⟩ := seq_inv defs rcv h hc
  obtain ⟨wb, k4, d4⟩ := conv_record_bodyN input _ _ _ i3 h4 c4 a3
  have e5 := same_finishNode h
  refine ⟨TokenKind.Def :: (wn ++ wb), ?_, ?_⟩
  · rw [← e1.kinds, k2, k3, k4, e5.kinds]; simp
  · intro hs
    have hb : Shape wb := Shape.right (u := TokenKind.Def :: wn) (by simpa using hs)
    exact DVN.nt (ds_tokSeq (DVN.seq d3 (d4 hb)))

theorem conv_defm (input : List Char) (n : Nat) (s s' : PState) (hi : Inv input s)
    (h : exec defs rcv n (call .defm) s = .ok s') (hc : Clean s s') :
    ∃ w, s.kinds = w ++ s'.kinds ∧ DS (.nt .Defm_) w := by
  have h := call_inv defs rcv (lift_fuel h 40)
  simp only [defs, seqs] at h
  obtain ⟨s1, h1, _, h, hc⟩ := seq_inv defs rcv h hc
  have i1 := inv_exec defs rcv input _ _ _ _ hi h1
  have e1 := same_startNode h1
  obtain ⟨s2, h2, _, h, hc⟩ := seq_inv defs rcv h hc
  have i2 := inv_exec defs rcv input _ _ _ _ i1 h2
  obtain ⟨k2, a2, n2⟩ := assertTok_cleanN (by decide) h2
  obtain ⟨s3, h3, c3, h, hc⟩ := seq_inv defs rcv h hc
  have i3 := inv_exec defs rcv input _ _ _ _ i2 h3
  obtain ⟨wn, k3, d3⟩ := object_name_inv input _ _ _ i2 n2 h3 c3 a2
  have a3 := clean_afterError defs rcv h3 c3 a2
  obtain ⟨s4, h4, c4, h, hc⟩ := seq_inv defs rcv h hc
  obtain ⟨wp, k4, a4, d4⟩ := conv_parentsN input _ _ _ i3 h4 c4 a3
  obtain ⟨s5, h5, c5, h, _⟩ := seq_inv defs rcv h hc
  obtain ⟨hcur, k5, _, _⟩ := expect_cleanC (by decide) h5 c5 a4
  have e6 := same_finishNode h
  refine ⟨TokenKind.Defm :: (wn ++ (wp ++ [TokenKind.Semi])), ?_, ?_⟩
  · rw [← e1.kinds, k2, k3, k4, k5, e6.kinds]; simp
  · rcases d4 with he | d4
    · rw [he] at hcur; cases hcur
    · exact DVN.nt (ds_tokSeq (DVN.seq d3 (DVN.seq d4 (ds_tok1 _))))

theorem conv_classN (input : List Char) (n : Nat) (s s' : PState) (hi : Inv input s)
    (h : exec defs rcv n (call .class_) s = .ok s') (hc : Clean s s') :
    ∃ w, s.kinds = w ++ s'.kinds ∧ (Shape w → DS (.nt .Class_) w) := by
  have h := call_inv defs rcv (lift_fuel h 40)
  simp only [defs, seqs] at h
  obtain ⟨s1, h1, _, h, hc⟩ := seq_inv defs rcv h hc
  have i1 := inv_exec defs rcv input _ _ _ _ hi h1
  have e1 := same_startNode h1
  obtain ⟨s2, h2, _, h, hc⟩ := seq_inv defs rcv h hc
  have i2 := inv_exec defs rcv input _ _ _ _ i1 h2
  obtain ⟨k2, a2⟩ := assertTok_clean (by decide) h2
  obtain ⟨s3, h3, c3, h, hc⟩ := seq_inv defs rcv h hc
  have i3 := inv_exec defs rcv input _ _ _ _ i2 h3
  obtain ⟨k3, a3⟩ := ident_clean h3 c3
  obtain ⟨s4, h4, c4, h, hc⟩ := seq_inv defs rcv h hc
  have i4 := inv_exec defs rcv input _ _ _ _ i3 h4
  obtain ⟨wT, k4, a4, d4⟩ := conv_targsN input _ _ _ i3 h4 c4 a3
  obtain ⟨s5, h5, c5, h, _⟩ := seq_inv defs rcv h hc
  obtain ⟨wb, k5, d5⟩ := conv_record_bodyN input _ _ _ i4 h5 c5 a4
  have e6 := same_finishNode h
  refine ⟨TokenKind.Class :: TokenKind.Id :: (wT ++ wb), ?_, ?_⟩
  · rw [← e1.kinds, k2, k3, k4, k5, e6.kinds]; simp
  · intro hs
    have hb : Shape wb := Shape.right (u := TokenKind.Class :: TokenKind.Id :: wT) (by simpa using hs)
    rcases d4 with rfl | d4
    · exact (Shape.not_pat (pat := [TokenKind.Class, TokenKind.Id, TokenKind.Less, TokenKind.Greater]) (by decide)
        (by simp) [] wb (by simpa using hs)).elim
    · have hT : Shape wT := Shape.infix (u := [TokenKind.Class, TokenKind.Id]) (x := wb) (by simpa using hs)
      exact DVN.nt (ds_tokSeq (ds_idSeq (DVN.seq (d4 hT) (d5 hb))))

/-! ### `let` lists -/

theorem let_item_inv (input : List Char) (n : Nat) (a b : PState) (hi : Inv input a)
    (h : exec defs rcv n (call .let_item) a = .ok b) (hc : Clean a b) (ha : a.afterError = false) :
    ∃ w, a.kinds = w ++ b.kinds ∧ b.afterError = false ∧ DS (.nt .LetItem_) w := by
  have hb := clean_afterError defs rcv h hc ha
  have h := call_inv defs rcv (lift_fuel h 40)
  simp only [defs, seqs] at h
  obtain ⟨s1, h1, _, h, hc⟩ := seq_inv defs rcv h hc
  have i1 := inv_exec defs rcv input _ _ _ _ hi h1
  have e1 := same_startNode h1
  obtain ⟨s2, h2, c2, h, hc⟩ := seq_inv defs rcv h hc
  have i2 := inv_exec defs rcv input _ _ _ _ i1 h2
  obtain ⟨k2, a2⟩ := ident_clean h2 c2
  obtain ⟨s3, h3, c3, h, hc⟩ := seq_inv defs rcv h hc
  have i3 := inv_exec defs rcv input _ _ _ _ i2 h3
  obtain ⟨wr, k3, a3, d3⟩ := opt_range_inv input .Less .Greater _ (by decide) (by decide) _ _ _ i2 h3 c3 a2
  obtain ⟨s4, h4, c4, h, hc⟩ := seq_inv defs rcv h hc
  have i4 := inv_exec defs rcv input _ _ _ _ i3 h4
  obtain ⟨k4, a4, n4⟩ := expect_cleanN (by decide) h4 c4 a3
  obtain ⟨s5, h5, c5, h, _⟩ := seq_inv defs rcv h hc
  obtain ⟨wv, k5, dv, _⟩ := value_clean i4 h5 c5 a4 n4
  have e6 := same_finishNode h
  refine ⟨TokenKind.Id :: (wr ++ (TokenKind.Equal :: wv)), ?_, hb, ?_⟩
  · rw [← e1.kinds, k2, k3, k4, k5, e6.kinds]; simp
  · exact DVN.nt (ds_idSeq (DVN.seq (DVN.of d3) (ds_tokSeq (DVN.val dv))))

theorem let_list_inv (input : List Char) (n : Nat) (s s' : PState) (hi : Inv input s)
    (h : exec defs rcv n (call .let_list) s = .ok s') (hc : Clean s s') (ha : s.afterError = false) :
    ∃ w, s.kinds = w ++ s'.kinds ∧ (s'.cur = .Eof ∨ DS (.nt .LetList_) w) := by
  have h := call_inv defs rcv (lift_fuel h 40)
  simp only [defs, seqs, sepLoop] at h
  obtain ⟨s1, h1, _, h, hc⟩ := seq_inv defs rcv h hc
  have i1 := inv_exec defs rcv input _ _ _ _ hi h1
  have e1 := same_startNode h1
  obtain ⟨s2, h2, c2, h, _⟩ := seq_inv defs rcv h hc
  have e3 := same_finishNode h
  obtain ⟨w, b, k2, _, sl, hb1, _⟩ := sep_inv _ _ _ (Inv input)
    (fun n p a b ia hab => inv_exec defs rcv input n p a b ia hab) (let_item_inv input) _ _ _ h2 c2
    (by rw [e1.after]; exact ha) i1
  refine ⟨w, by rw [← e1.kinds, k2, e3.kinds], ?_⟩
  cases b with
  | true =>
    left
    have := hb1 rfl
    rw [e3.cur]
    simpa using this
  | false => exact Or.inr (DVN.nt (sepD_derives sl))

/-! ### `foreach` iterators -/

theorem foreach_init_inv (input : List Char) (n : Nat) (s s' : PState) (hi : Inv input s) (hn : Norm s)
    (h : exec defs rcv n (call .foreach_iterator_init) s = .ok s') (hc : Clean s s') (ha : s.afterError = false) :
    ∃ w, s.kinds = w ++ s'.kinds ∧ DS (.nt .ForeachIteratorInit_) w := by
  have h := call_inv defs rcv (lift_fuel h 40)
  simp only [defs, matchPeek, seqs] at h
  rcases ifAt_inv defs rcv h with ⟨_, h⟩ | ⟨_, h⟩
  · obtain ⟨s1, h1, _, h, hc⟩ := seq_inv defs rcv h hc
    have i1 := inv_exec defs rcv input _ _ _ _ hi h1
    obtain ⟨k1, a1⟩ := assertTok_clean (by decide) h1
    obtain ⟨s2, h2, c2, h3, c3⟩ := seq_inv defs rcv h hc
    obtain ⟨wr, k2, a2, d2⟩ := range_list_inv input _ _ _ i1 h2 c2 a1
    obtain ⟨hcur, k3, _, _⟩ := expect_cleanC (by decide) h3 c3 a2
    refine ⟨TokenKind.LBrace :: (wr ++ [TokenKind.RBrace]), by rw [k1, k2, k3]; simp, ?_⟩
    rcases d2 with he | d2
    · rw [he] at hcur; cases hcur
    · exact DVN.nt (DVN.altL (ds_tokSeq (DVN.seq (DVN.of d2) (ds_tok1 _))))
  rcases ifAt_inv defs rcv h with ⟨_, h⟩ | ⟨_, h⟩
  · obtain ⟨w, k1, _, d1⟩ := range_piece_inv _ _ _ h hc
    exact ⟨w, k1, DVN.nt (DVN.altR (DVN.altL (DVN.of d1)))⟩
  · obtain ⟨w, k1, d1, _⟩ := value_clean hi h hc ha hn
    exact ⟨w, k1, DVN.nt (DVN.altR (DVN.altR (DVN.val d1)))⟩

theorem foreach_iterator_inv (input : List Char) (n : Nat) (s s' : PState) (hi : Inv input s)
    (h : exec defs rcv n (call .foreach_iterator) s = .ok s') (hc : Clean s s') :
    ∃ w, s.kinds = w ++ s'.kinds ∧ DS (.nt .ForeachIterator_) w := by
  have h := call_inv defs rcv (lift_fuel h 40)
  simp only [defs, seqs] at h
  obtain ⟨s1, h1, _, h, hc⟩ := seq_inv defs rcv h hc
  have i1 := inv_exec defs rcv input _ _ _ _ hi h1
  have e1 := same_startNode h1
  obtain ⟨s2, h2, c2, h, hc⟩ := seq_inv defs rcv h hc
  have i2 := inv_exec defs rcv input _ _ _ _ i1 h2
  obtain ⟨k2, a2⟩ := ident_clean h2 c2
  obtain ⟨s3, h3, c3, h, hc⟩ := seq_inv defs rcv h hc
  have i3 := inv_exec defs rcv input _ _ _ _ i2 h3
  obtain ⟨k3, a3, n3⟩ := expect_cleanN (by decide) h3 c3 a2
  obtain ⟨s4, h4, c4, h, _⟩ := seq_inv defs rcv h hc
  obtain ⟨wi, k4, d4⟩ := foreach_init_inv input _ _ _ i3 n3 h4 c4 a3
  have e5 := same_finishNode h
  refine ⟨TokenKind.Id :: TokenKind.Equal :: wi, ?_, ?_⟩
  · rw [← e1.kinds, k2, k3, k4, e5.kinds]; simp
  · exact DVN.nt (ds_idSeq (ds_tokSeq d4))

end C04L
end Tg
