/-
C04 converse for statements, values checked by the tree (part 2): template argument lists, argument
values, class references, parent class lists.  (The lemmas of `C04ConvN3`, relative to a context.)
-/
import TgModel.Lemmas.C04MJ1

namespace Tg
namespace C04L
open Prog Grammar Frag Doc

local notation "rcv" => Tables.recoverTokens

section
variable (C : RunCtx) {V N : List TokenKind → Prop} (hv : ValHook C V)
include hv

theorem targ_declJ_inv (n : Nat) (a b : PState) (hi : C.I a) (_ : Norm a)
    (h : exec defs rcv n (call .template_arg_decl) a = .ok b) (hc : Clean a b) (_ha : a.afterError = false) :
    ∃ w, a.kinds = w ++ b.kinds ∧ b.afterError = false ∧
      (C.J b → QPg V N [TokenKind.Less, TokenKind.Comma] (.nt .TemplateArgDecl_) w) := by
  have h := call_inv defs rcv (lift_fuel h 40)
  simp only [defs, seqs, ifEatIf] at h
  obtain ⟨s1, h1, _, h, hc⟩ := seq_inv defs rcv h hc
  have i1 := C.hI _ _ _ _ hi h1
  have e1 := same_startNode h1
  obtain ⟨s2, h2, c2, h, hc⟩ := seq_inv defs rcv h hc
  have i2 := C.hI _ _ _ _ i1 h2
  obtain ⟨t, k2, a2⟩ := type_inv _ _ _ _ (Nat.le_refl _) h2 c2
  obtain ⟨s3, h3, c3, h, hc⟩ := seq_inv defs rcv h hc
  have i3 := C.hI _ _ _ _ i2 h3
  obtain ⟨k3, a3⟩ := ident_clean h3 c3
  obtain ⟨s4, h4, c4, h, hc⟩ := seq_inv defs rcv h hc
  have i4 := C.hI _ _ _ _ i3 h4
  have b4 := C.hJ _ _ _ _ i4 h
  obtain ⟨s5, h5, c5, h6, c6⟩ := seq_inv defs rcv h4 c4
  have i5 := C.hI _ _ _ _ i3 h5
  have e7 := same_finishNode h
  have hty : ∀ p ∈ [TokenKind.Less, TokenKind.Comma], ∀ x, Shape (p :: (t.render ++ x)) →
      DVN V N (.nt .Type_) t.render := by
    intro p hp x hs
    apply DVN.of
    refine ty_doc (p := p) ?_ (Shape.left (u := p :: t.render) (v := x) hs)
    simp only [List.mem_cons, List.not_mem_nil, or_false] at hp
    rcases hp with rfl | rfl <;> decide
  rcases eatIf_clean (by decide) h5 with ⟨_, hfl, k5, a5, n5⟩ | ⟨_, rfl⟩
  · rcases ifFlag_inv defs rcv h6 with ⟨_, h6⟩ | ⟨hf, _⟩
    · obtain ⟨wv, k6, dv, a6⟩ := valueJ_clean C hv i5 h6 c6 a5 n5
      refine ⟨t.render ++ TokenKind.Id :: TokenKind.Equal :: wv, ?_, by rw [e7.after, a6], ?_⟩
      · rw [← e1.kinds, k2, k3, k5, k6, e7.kinds]; simp
      · intro j p hp hs
        exact DVN.nt (DVN.seq (hty p hp _ hs) (dg_idSeq (DVN.optSome (dg_tokSeq (DVN.val (dv (b4 j)))))))
    · rw [hfl] at hf; cases hf
  · rcases ifFlag_inv defs rcv h6 with ⟨hf, _⟩ | ⟨_, h6⟩
    · simp at hf
    · have e6 := same_nop h6
      refine ⟨t.render ++ [TokenKind.Id], ?_, by rw [e7.after, e6.after]; exact a3, ?_⟩
      · have e6' : s4.kinds = s3.kinds := e6.kinds
        rw [← e1.kinds, k2, k3, e7.kinds, e6']; simp
      · intro _ p hp hs
        exact DVN.nt (DVN.seq (hty p hp _ hs) (dg_seq_nil dg_identifier DVN.optNone))

theorem convJ_targs (n : Nat) (s s' : PState) (hi : C.I s)
    (h : exec defs rcv n (call .opt_template_arg_list) s = .ok s') (hc : Clean s s') (ha : s.afterError = false) :
    ∃ w, s.kinds = w ++ s'.kinds ∧ s'.afterError = false ∧
      (w = [TokenKind.Less, TokenKind.Greater] ∨ (Shape w → C.J s' → DVN V N (.opt (.nt .TemplateArgList_)) w)) := by
  have h := call_inv defs rcv (lift_fuel h 40)
  simp only [defs] at h
  rcases ifAt_inv defs rcv h with ⟨_, h⟩ | ⟨_, h⟩
  · have h := call_inv defs rcv h
    simp only [defs, seqs, delimited] at h
    obtain ⟨s1, h1, _, h, hc⟩ := seq_inv defs rcv h hc
    have i1 := C.hI _ _ _ _ hi h1
    have e1 := same_startNode h1
    obtain ⟨s2, h2, c2, h, hc⟩ := seq_inv defs rcv h hc
    have i2 := C.hI _ _ _ _ i1 h2
    have b2 := C.hJ _ _ _ _ i2 h
    have e7 := same_finishNode h
    obtain ⟨s3, h3, c3, h2, c2⟩ := seq_inv defs rcv h2 c2
    have i3 := C.hI _ _ _ _ i1 h3
    obtain ⟨k3, a3, n3⟩ := expect_cleanN (by decide) h3 c3 (show s1.afterError = false by rw [e1.after]; exact ha)
    obtain ⟨s4, h4, c4, h5, c5⟩ := seq_inv defs rcv h2 c2
    have i4 := C.hI _ _ _ _ i3 h4
    have b4 := C.hJ _ _ _ _ i4 h5
    obtain ⟨ws, b, k4, a4, sl, _, sk⟩ := sepMJ_inv C _ _ _ (targ_declJ_inv C hv) _ _ _ h4 c4 a3 i3 n3
    obtain ⟨k5, a5⟩ := expect_clean (by decide) h5 c5 a4
    refine ⟨TokenKind.Less :: (ws ++ [TokenKind.Greater]), ?_, by rw [e7.after, a5], ?_⟩
    · rw [← e1.kinds, k3, k4, k5, e7.kinds]; simp
    · cases b with
      | true =>
        rcases sk.true_shape with rfl | ⟨u, rfl⟩
        · exact Or.inl rfl
        · right
          intro hs _
          exfalso
          refine Shape.not_pat (pat := [TokenKind.Comma, TokenKind.Greater]) (by decide) (by simp)
            (TokenKind.Less :: u) [] ?_
          simpa using hs
      | false =>
        right
        intro hs j
        have hs' : Shape (TokenKind.Less :: ws) :=
          Shape.left (u := TokenKind.Less :: ws) (v := [TokenKind.Greater]) (by simpa using hs)
        have d := sepPg_derives (P0 := [TokenKind.Less, TokenKind.Comma]) (by decide) (p0 := TokenKind.Less)
          (by decide) (sl (b4 (b2 j))) hs'
        cases d with
        | seq d1 d2 =>
          exact DVN.optSome (DVN.nt (dg_tokSeq (dg_cast (DVN.seq d1 (DVN.seq d2 (dg_tok1 _))) (by simp))))
  · have e := nop_inv defs rcv h; subst e
    exact ⟨[], rfl, ha, Or.inr fun _ _ => DVN.optNone⟩

/-- `Value`, or `Value "=" Value` -/
theorem arg_valueJ_inv (n : Nat) (a b : PState) (hi : C.I a) (hn : Norm a)
    (h : exec defs rcv n (call .arg_value) a = .ok b) (hc : Clean a b) (ha : a.afterError = false) :
    ∃ w, a.kinds = w ++ b.kinds ∧ b.afterError = false ∧ (C.J b → DVN V N (.nt .ArgValue_) w) := by
  have hb := clean_afterError defs rcv h hc ha
  have h := call_inv defs rcv (lift_fuel h 40)
  simp only [defs, seqs, ifEatIf] at h
  obtain ⟨s1, h1, _, h, hc⟩ := seq_inv defs rcv h hc
  have i1 := C.hI _ _ _ _ hi h1
  have e1 := same_pushCp h1
  obtain ⟨s2, h2, c2, h, hc⟩ := seq_inv defs rcv h hc
  have i2 := C.hI _ _ _ _ i1 h2
  have b2 := C.hJ _ _ _ _ i2 h
  obtain ⟨w1, k2, d1, a2⟩ := valueJ_clean C hv i1 h2 c2 (by rw [e1.after]; exact ha) (e1.norm hn)
  obtain ⟨s3, h3, c3, h9, c9⟩ := seq_inv defs rcv h hc
  have i3 := C.hI _ _ _ _ i2 h3
  have b9 := C.hJ _ _ _ _ i3 h9
  have e9 := same_popCp h9
  obtain ⟨s4, h4, c4, h5, c5⟩ := seq_inv defs rcv h3 c3
  have i4 := C.hI _ _ _ _ i2 h4
  rcases eatIf_clean (by decide) h4 with ⟨_, hfl, k4, a4, n4⟩ | ⟨_, rfl⟩
  · rcases ifFlag_inv defs rcv h5 with ⟨_, h5⟩ | ⟨hf, _⟩
    · obtain ⟨s6, h6, c6, h5, c5⟩ := seq_inv defs rcv h5 c5
      have i6 := C.hI _ _ _ _ i4 h6
      have e6 := same_startNodeAtCp h6
      obtain ⟨s7, h7, c7, h5, c5⟩ := seq_inv defs rcv h5 c5
      have i7 := C.hI _ _ _ _ i6 h7
      have b7 := C.hJ _ _ _ _ i7 h5
      obtain ⟨w2, k7, d2, _⟩ := valueJ_clean C hv i6 h7 c7 (by rw [e6.after]; exact a4) (e6.norm n4)
      obtain ⟨s8, h8, _, h10, _⟩ := seq_inv defs rcv h5 c5
      have e8 := same_finishNode h8
      have e10 := same_setLocal h10
      refine ⟨w1 ++ TokenKind.Equal :: w2, ?_, hb, fun j => ?_⟩
      · rw [← e1.kinds, k2, k4, ← e6.kinds, k7, e9.kinds, e10.kinds, e8.kinds]; simp
      · exact DVN.nt (DVN.altR (DVN.nt (DVN.seq (DVN.val (d1 (b2 j))) (dg_tokSeq (DVN.val (d2 (b7 (b9 j))))))))
    · rw [hfl] at hf; cases hf
  · rcases ifFlag_inv defs rcv h5 with ⟨hf, _⟩ | ⟨_, h5⟩
    · simp at hf
    · obtain ⟨s6, h6, c6, h5, c5⟩ := seq_inv defs rcv h5 c5
      have e6 := same_startNodeAtCp h6
      obtain ⟨s7, h7, c7, h8, c8⟩ := seq_inv defs rcv h5 c5
      have e7 := same_finishNode h7
      have e8 : s3.kinds = s7.kinds := by
        rcases ifLocal_inv h8 with h8 | h8
        · exact (error_inv defs rcv h8 c8).elim
        · exact (same_nop h8).kinds
      refine ⟨w1, ?_, hb, fun j => ?_⟩
      · have e6' : s6.kinds = s2.kinds := e6.kinds
        rw [← e1.kinds, k2, e9.kinds, e8, e7.kinds, e6']
      · exact DVN.nt (DVN.altL (DVN.nt (DVN.val (d1 (b2 j)))))

/-- `(ArgValue ("," ArgValue)*)?` -/
theorem arg_value_listJ_inv (n : Nat) (s s' : PState) (hi : C.I s) (hn : Norm s)
    (h : exec defs rcv n (call .arg_value_list) s = .ok s') (hc : Clean s s') (ha : s.afterError = false) :
    ∃ w, s.kinds = w ++ s'.kinds ∧ s'.afterError = false ∧
      (s'.cur = .Eof ∨ (C.J s' → DVN V N (.nt .ArgValueList_) w)) := by
  have h := call_inv defs rcv (lift_fuel h 40)
  simp only [defs, seqs, sepLoop] at h
  obtain ⟨s1, h1, _, h, hc⟩ := seq_inv defs rcv h hc
  have i1 := C.hI _ _ _ _ hi h1
  have e1 := same_startNode h1
  obtain ⟨s2, h2, c2, h, _⟩ := seq_inv defs rcv h hc
  have i2 := C.hI _ _ _ _ i1 h2
  have b2 := C.hJ _ _ _ _ i2 h
  have e9 := same_finishNode h
  rcases ifAt_inv defs rcv h2 with ⟨_, h2⟩ | ⟨_, h2⟩
  · obtain ⟨s3, h3, c3, h2, c2⟩ := seq_inv defs rcv h2 c2
    have i3 := C.hI _ _ _ _ i1 h3
    have e3 := same_pushLocal h3
    obtain ⟨s4, h4, c4, h5, _⟩ := seq_inv defs rcv h2 c2
    have i4 := C.hI _ _ _ _ i3 h4
    have b4 := C.hJ _ _ _ _ i4 h5
    have e5 := same_popLocal h5
    obtain ⟨w, b, k4, a4, sl, hb1, _⟩ := sepMJ_inv C _ _ _ (arg_valueJ_inv C hv) _ _ _ h4 c4
      (by rw [e3.after, e1.after]; exact ha) i3 (e3.norm (e1.norm hn))
    refine ⟨w, ?_, by rw [e9.after, e5.after]; exact a4, ?_⟩
    · rw [← e1.kinds, ← e3.kinds, k4, e9.kinds, e5.kinds]
    · cases b with
      | true =>
        left
        have := hb1 rfl
        rw [e9.cur, e5.cur]
        simpa using this
      | false => exact Or.inr fun j => DVN.nt (DVN.optSome (sepDg_derives (sl (b4 (b2 j)))))
  · have e2 := same_nop h2
    exact ⟨[], by rw [e9.kinds, e2.kinds, e1.kinds]; rfl, by rw [e9.after, e2.after, e1.after]; exact ha,
      Or.inr fun _ => DVN.nt DVN.optNone⟩

theorem class_refJ_inv (n : Nat) (a b : PState) (hi : C.I a) (_ : Norm a)
    (h : exec defs rcv n (call .class_ref) a = .ok b) (hc : Clean a b) (ha : a.afterError = false) :
    ∃ w, a.kinds = w ++ b.kinds ∧ b.afterError = false ∧ (C.J b → DVN V N (.nt .ClassRef_) w) := by
  have hb := clean_afterError defs rcv h hc ha
  have h := call_inv defs rcv (lift_fuel h 40)
  simp only [defs, seqs, ifEatIf] at h
  obtain ⟨s1, h1, _, h, hc⟩ := seq_inv defs rcv h hc
  have i1 := C.hI _ _ _ _ hi h1
  have e1 := same_startNode h1
  obtain ⟨s2, h2, c2, h, hc⟩ := seq_inv defs rcv h hc
  have i2 := C.hI _ _ _ _ i1 h2
  obtain ⟨k2, a2⟩ := ident_clean h2 c2
  obtain ⟨s4, h4, c4, h, _⟩ := seq_inv defs rcv h hc
  have i4 := C.hI _ _ _ _ i2 h4
  have b4 := C.hJ _ _ _ _ i4 h
  have e9 := same_finishNode h
  obtain ⟨s5, h5, c5, h6, c6⟩ := seq_inv defs rcv h4 c4
  have i5 := C.hI _ _ _ _ i2 h5
  rcases eatIf_clean (by decide) h5 with ⟨_, hfl, k5, a5, n5⟩ | ⟨_, rfl⟩
  · rcases ifFlag_inv defs rcv h6 with ⟨_, h6⟩ | ⟨hf, _⟩
    · obtain ⟨s7, h7, c7, h8, c8⟩ := seq_inv defs rcv h6 c6
      have i7 := C.hI _ _ _ _ i5 h7
      have b7 := C.hJ _ _ _ _ i7 h8
      obtain ⟨wa, k7, a7, d7⟩ := arg_value_listJ_inv C hv _ _ _ i5 n5 h7 c7 a5
      obtain ⟨hcur, k8, _, _⟩ := expect_cleanC (by decide) h8 c8 a7
      refine ⟨TokenKind.Id :: TokenKind.Less :: (wa ++ [TokenKind.Greater]), ?_, hb, fun j => ?_⟩
      · rw [← e1.kinds, k2, k5, k7, k8, e9.kinds]; simp
      · rcases d7 with he | d7
        · rw [he] at hcur; cases hcur
        · exact DVN.nt (dg_idSeq (DVN.optSome (dg_tokSeq (DVN.seq (DVN.optSome (d7 (b7 (b4 j)))) (dg_tok1 _)))))
    · rw [hfl] at hf; cases hf
  · rcases ifFlag_inv defs rcv h6 with ⟨hf, _⟩ | ⟨_, h6⟩
    · simp at hf
    · have e6 := same_nop h6
      have e6' : s4.kinds = s2.kinds := e6.kinds
      refine ⟨[TokenKind.Id], ?_, hb, fun _ => ?_⟩
      · rw [← e1.kinds, k2, e9.kinds, e6']; rfl
      · exact DVN.nt (dg_seq_nil dg_identifier DVN.optNone)

/-- `(":" ClassRef ("," ClassRef)*)?`; a trailing comma is only taken at the end of the input -/
theorem convJ_parents (n : Nat) (s s' : PState) (hi : C.I s)
    (h : exec defs rcv n (call .parent_class_list) s = .ok s') (hc : Clean s s') (ha : s.afterError = false) :
    ∃ w, s.kinds = w ++ s'.kinds ∧ s'.afterError = false ∧
      (s'.cur = .Eof ∨ (C.J s' → DVN V N (.nt .ParentClassList_) w)) := by
  have hb := clean_afterError defs rcv h hc ha
  have h := call_inv defs rcv (lift_fuel h 40)
  simp only [defs, seqs, ifEatIf, sepLoop] at h
  obtain ⟨s1, h1, _, h, hc⟩ := seq_inv defs rcv h hc
  have i1 := C.hI _ _ _ _ hi h1
  have e1 := same_startNode h1
  obtain ⟨s2, h2, c2, h, _⟩ := seq_inv defs rcv h hc
  have i2 := C.hI _ _ _ _ i1 h2
  have b2 := C.hJ _ _ _ _ i2 h
  have e9 := same_finishNode h
  obtain ⟨s3, h3, c3, h4, c4⟩ := seq_inv defs rcv h2 c2
  have i3 := C.hI _ _ _ _ i1 h3
  rcases eatIf_clean (by decide) h3 with ⟨_, hfl, k3, a3, n3⟩ | ⟨_, rfl⟩
  · rcases ifFlag_inv defs rcv h4 with ⟨_, h4⟩ | ⟨hf, _⟩
    · obtain ⟨ws, b, k4, a4, sl, hb1, _⟩ := sepMJ_inv C _ _ _ (class_refJ_inv C hv) _ _ _ h4 c4 a3 i3 n3
      refine ⟨TokenKind.Colon :: ws, ?_, hb, ?_⟩
      · rw [← e1.kinds, k3, k4, e9.kinds]; simp
      · cases b with
        | true =>
          left
          have := hb1 rfl
          rw [e9.cur]
          simpa using this
        | false => exact Or.inr fun j => DVN.nt (DVN.optSome (dg_tokSeq (sepDg_derives (sl (b2 j)))))
    · rw [hfl] at hf; cases hf
  · rcases ifFlag_inv defs rcv h4 with ⟨hf, _⟩ | ⟨_, h4⟩
    · simp at hf
    · have e4 := same_nop h4
      have e4' : s2.kinds = s1.kinds := e4.kinds
      exact ⟨[], by rw [e9.kinds, e4', e1.kinds]; rfl, hb, Or.inr fun _ => DVN.nt DVN.optNone⟩

end

end C04L
end Tg
