/-
C04 forward direction, step 3 (values, end): the value contracts in the form used by the record and
statement layers, and values in name position (`def` / `defm` names).
-/
import TgModel.Lemmas.C04Values2

namespace Tg
namespace C04L
open Prog Grammar Frag

set_option linter.unusedSimpArgs false
set_option linter.unusedVariables false

/-! ### `value` on a fragment value -/

theorem c_value (fl : Bool) (d : Nat) (loc : List Bool) (cps : List Nat) (v : Val) (X : List TokenKind)
    (hf : valFollowOk (X.headD .Eof) = true) (n : Nat) (hn : 64 * v.render.length + 384 ≤ n) :
    ax n (call .value) ⟨v.render ++ X, fl, d, loc, cps, true⟩ = some ⟨X, true, d, loc, cps, true⟩ :=
  c_val v X hf n fl d loc cps trivial (by omega)

theorem val_head (v : Val) (Z : List TokenKind) : valFirst.contains ((v.render ++ Z).headD .Eof) = true :=
  val_starts v Z

theorem val_length_pos (v : Val) : 1 ≤ v.render.length := (val_starts v).pos

/-! ### name position -/

def nsufsFollowOk (k : TokenKind) : Bool := !(k == .LSquare || k == .Dot)

theorem nsufsFollowOk_iff {k : TokenKind} : nsufsFollowOk k = true ↔ ((k == .LSquare) = false ∧ (k == .Dot) = false) := by
  simp [nsufsFollowOk]

theorem nsval_lit {k : TokenKind} (h : nsvalFollowOk k = true) : litFollowOk k = true := by
  obtain ⟨_, _, h4, h5⟩ := nsvalFollowOk_iff.mp h
  exact litFollowOk_iff.mpr ⟨h5, h4⟩

theorem nsval_nsufs {k : TokenKind} (h : nsvalFollowOk k = true) : nsufsFollowOk k = true := by
  obtain ⟨h2, h3, _, _⟩ := nsvalFollowOk_iff.mp h
  exact nsufsFollowOk_iff.mpr ⟨h2, h3⟩

def NSufsOk (S : List TokenKind) : Prop :=
  Consumes anyCtx (loop (ifAt [.LBrace] (retB false) (call .value_suffix)) nop) 240 false nsufsFollowOk S ∧
    ∀ Z, nsvalFollowOk (Z.headD .Eof) = true → litFollowOk ((S ++ Z).headD .Eof) = true
def NSValOk (R : List TokenKind) : Prop := Consumes anyCtx (call .inner_name_value) 256 true nsvalFollowOk R
def NPasteOk (T : List TokenKind) : Prop :=
  Consumes anyCtx (loop (eatIf .Paste) (call .inner_name_value)) 272 false nvalFollowOk T ∧
    ∀ Z, nvalFollowOk (Z.headD .Eof) = true → nsvalFollowOk ((T ++ Z).headD .Eof) = true
def NameOk (R : List TokenKind) : Prop := Consumes anyCtx (call .name_value) 288 true nvalFollowOk R

theorem nsufs_nil : NSufsOk [] := by
  refine ⟨?_, fun Z h => by simpa using nsval_lit h⟩
  intro Z hf n fl d loc cps _ hn
  obtain ⟨h2, h3⟩ := nsufsFollowOk_iff.mp hf
  obtain ⟨m, rfl⟩ : ∃ m, n = m + 20 := ⟨n - 20, by omega⟩
  rw [ax_loop]
  cases h1 : (Z.headD .Eof == TokenKind.LBrace) <;> ax_eval [ax_call]

theorem nsufs_cons {S1 S : List TokenKind} (h1 : SufOk S1)
    (hh : ∀ Z, [TokenKind.LSquare, .Dot].contains ((S1 ++ Z).headD .Eof) = true)
    (hpos : 1 ≤ S1.length) (hS : NSufsOk S) : NSufsOk (S1 ++ S) := by
  refine ⟨?_, fun Z _ => by rw [List.append_assoc]; exact prop_of_mem litFollowOk (hh _) (by decide)⟩
  intro Z hf n fl d loc cps _ hn
  simp only [List.length_append] at hn
  obtain ⟨m, rfl⟩ : ∃ m, n = m + 8 := ⟨n - 8, by omega⟩
  have hb : ∀ Z, [TokenKind.LBrace].contains ((S1 ++ Z).headD .Eof) = false :=
    fun Z => notin_of_mem (hh Z) (by decide)
  have e1 := fun n fl d loc cps => h1 (S ++ Z) rfl n fl d loc cps trivial
  have e2 := fun n fl d loc cps => hS.1 Z hf n fl d loc cps trivial
  rw [ax_loop]
  ax_eval [e1, e2]

theorem nsval_of {H S : List TokenKind} (hH : LitOk H) (hS : NSufsOk S) : NSValOk (H ++ S) := by
  intro Z hf n fl d loc cps _ hn
  simp only [List.length_append] at hn
  obtain ⟨m, rfl⟩ : ∃ m, n = m + 12 := ⟨n - 12, by omega⟩
  have e1 := hH (S ++ Z) (hS.2 Z hf)
  have e2 := fun n fl d loc cps => hS.1 Z (nsval_nsufs hf) n fl d loc cps trivial
  ax_eval [ax_call (f := .inner_name_value), e1, e2]

theorem npaste_nil : NPasteOk [] := by
  refine ⟨?_, fun Z h => by simpa using (nvalFollowOk_iff.mp h).1⟩
  intro Z hf n fl d loc cps _ hn
  have hP := (nvalFollowOk_iff.mp hf).2
  obtain ⟨m, rfl⟩ : ∃ m, n = m + 20 := ⟨n - 20, by omega⟩
  rw [ax_loop]
  ax_eval []

theorem npaste_cons {R T : List TokenKind} (hR : NSValOk R) (hT : NPasteOk T) :
    NPasteOk (TokenKind.Paste :: (R ++ T)) := by
  refine ⟨?_, fun Z _ => rfl⟩
  intro Z hf n fl d loc cps _ hn
  simp only [List.length_cons, List.length_append] at hn
  obtain ⟨m, rfl⟩ : ∃ m, n = m + 8 := ⟨n - 8, by omega⟩
  have e1 := fun n fl d loc cps => hR (T ++ Z) (hT.2 Z hf) n fl d loc cps trivial
  have e2 := fun n fl d loc cps => hT.1 Z hf n fl d loc cps trivial
  rw [ax_loop]
  ax_eval [e1, e2]

theorem name_of {R T : List TokenKind} (hR : NSValOk R) (hT : NPasteOk T) : NameOk (R ++ T) := by
  intro Z hf n fl d loc cps _ hn
  simp only [List.length_append] at hn
  obtain ⟨m, rfl⟩ : ∃ m, n = m + 12 := ⟨n - 12, by omega⟩
  have e1 := fun n fl d loc cps => hR (T ++ Z) (hT.2 Z hf) n fl d loc cps trivial
  have e2 := fun n fl d loc cps => hT.1 Z hf n fl d loc cps trivial
  ax_eval [ax_call (f := .name_value), e1, e2]

theorem nsuffix_head (s : NSuffix) (Z : List TokenKind) :
    [TokenKind.LSquare, .Dot].contains ((s.toSuffix.render ++ Z).headD .Eof) = true := by
  cases s <;> rfl

theorem nsufs_ok : (sufs : List NSuffix) → NSufsOk (nsufsRender sufs)
  | [] => nsufs_nil
  | s :: ss => nsufs_cons (c_suffix s.toSuffix) (nsuffix_head s) (suffix_pos _) (nsufs_ok ss)

theorem npaste_ok : (tl : List (Lit × List NSuffix)) → NPasteOk (npasteRender tl)
  | [] => npaste_nil
  | (l, sufs) :: rest => by
    have := npaste_cons (nsval_of (c_lit l) (nsufs_ok sufs)) (npaste_ok rest)
    rwa [List.append_assoc] at this

theorem name_ok (v : NameVal) : NameOk v.render := by
  have := name_of (nsval_of (c_lit v.l) (nsufs_ok v.sufs)) (npaste_ok v.tl)
  rwa [List.append_assoc] at this

theorem c_name_value (fl : Bool) (d : Nat) (loc : List Bool) (cps : List Nat) (v : NameVal) (X : List TokenKind)
    (hf : nvalFollowOk (X.headD .Eof) = true) (n : Nat) (hn : 64 * v.render.length + 384 ≤ n) :
    ax n (call .name_value) ⟨v.render ++ X, fl, d, loc, cps, true⟩ = some ⟨X, true, d, loc, cps, true⟩ :=
  name_ok v X hf n fl d loc cps trivial (by omega)

theorem nameval_head_eq (v : NameVal) (Z : List TokenKind) : (v.render ++ Z).headD .Eof = v.l.firstTok := by
  simp only [NameVal.render, List.append_assoc]
  exact lit_head v.l _

/-- a name starts with a value token other than `{` -/
theorem nameval_head (v : NameVal) (Z : List TokenKind) :
    Tables.valueStart.contains ((v.render ++ Z).headD .Eof) = true ∧
    [TokenKind.Colon, .Semi, .LBrace].contains ((v.render ++ Z).headD .Eof) = false := by
  rw [nameval_head_eq]
  have hm := lit_first v.l
  refine ⟨in_of_mem hm (by decide), ?_⟩
  have h1 : (v.l.firstTok == TokenKind.Colon) = false := ne_of_mem hm (by decide)
  have h2 : (v.l.firstTok == TokenKind.Semi) = false := ne_of_mem hm (by decide)
  have h3 := v.ok
  simp only [List.contains_cons, List.contains_nil, h1, h2, h3, Bool.or_false]

end C04L
end Tg
