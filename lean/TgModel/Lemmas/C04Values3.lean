/-
C04 forward direction, step 3 (values, end): the value contracts in the form used by the record and
statement layers, and values in name position (`def` / `defm` names).
-/
import TgModel.Lemmas.C04Values2

namespace Tg
namespace C04L
open Prog Grammar Frag

set_option linter.unusedSimpArgs false
set_option linter.unusedVariables false

/-! ### `value` on a fragment value -/

theorem c_value (fl : Bool) (d : Nat) (loc : List Bool) (cps : CpStack) (cur : List SyntaxKind) (ps : List (SyntaxKind × List SyntaxKind)) (v : Val) (X : List TokenKind)
    (hf : valFollowOk (X.headD .Eof) = true) (n : Nat) (hn : 64 * v.render.length + 384 ≤ n) :
    ax n (call .value) ⟨v.render ++ X, fl, d, loc, cps, true, cur, ps⟩ = some ⟨X, true, d, loc, cps, true, .Value :: cur, ps⟩ :=
  c_val v X hf n fl d loc cps cur ps trivial (by omega)

theorem val_head (v : Val) (Z : List TokenKind) : valFirst.contains ((v.render ++ Z).headD .Eof) = true :=
  val_starts v Z

theorem val_length_pos (v : Val) : 1 ≤ v.render.length := (val_starts v).pos

/-! ### name position -/

def nsufsFollowOk (k : TokenKind) : Bool := !(k == .LSquare || k == .Dot)

theorem nsufsFollowOk_iff {k : TokenKind} : nsufsFollowOk k = true ↔ ((k == .LSquare) = false ∧ (k == .Dot) = false) := by
  simp [nsufsFollowOk]

theorem nsval_lit {k : TokenKind} (h : nsvalFollowOk k = true) : litFollowOk k = true := by
  obtain ⟨_, _, h4, h5⟩ := nsvalFollowOk_iff.mp h
  exact litFollowOk_iff.mpr ⟨h5, h4⟩

theorem nsval_nsufs {k : TokenKind} (h : nsvalFollowOk k = true) : nsufsFollowOk k = true := by
  obtain ⟨h2, h3, _, _⟩ := nsvalFollowOk_iff.mp h
  exact nsufsFollowOk_iff.mpr ⟨h2, h3⟩

def NSufsOk (Ks : List SyntaxKind) (S : List TokenKind) : Prop :=
  Consumes anyCtx (loop (ifAt [.LBrace] (retB false) (call .value_suffix)) nop) 240 false nsufsFollowOk Ks S ∧
    ∀ Z, nsvalFollowOk (Z.headD .Eof) = true → litFollowOk ((S ++ Z).headD .Eof) = true
def NSValOk (R : List TokenKind) : Prop := Consumes anyCtx (call .inner_name_value) 256 true nsvalFollowOk [.InnerValue] R
def NPasteOk (n : Nat) (T : List TokenKind) : Prop :=
  Consumes anyCtx (loop (eatIf .Paste) (call .inner_name_value)) 272 false nvalFollowOk (List.replicate n .InnerValue) T ∧
    ∀ Z, nvalFollowOk (Z.headD .Eof) = true → nsvalFollowOk ((T ++ Z).headD .Eof) = true
def NameOk (R : List TokenKind) : Prop := Consumes anyCtx (call .name_value) 288 true nvalFollowOk [.Value] R

theorem nsufs_nil : NSufsOk [] [] := by
  refine ⟨?_, fun Z h => by simpa using nsval_lit h⟩
  intro Z hf n fl d loc cps cur ps _ hn
  obtain ⟨h2, h3⟩ := nsufsFollowOk_iff.mp hf
  obtain ⟨m, rfl⟩ : ∃ m, n = m + 20 := ⟨n - 20, by omega⟩
  rw [ax_loop]
  cases h1 : (Z.headD .Eof == TokenKind.LBrace) <;> ax_eval [ax_call]

theorem nsufs_cons {k : SyntaxKind} {Ks : List SyntaxKind} {S1 S : List TokenKind} (h1 : SufOk k S1)
    (hh : ∀ Z, [TokenKind.LSquare, .Dot].contains ((S1 ++ Z).headD .Eof) = true)
    (hpos : 1 ≤ S1.length) (hS : NSufsOk Ks S) : NSufsOk (k :: Ks) (S1 ++ S) := by
  refine ⟨?_, fun Z _ => by rw [List.append_assoc]; exact prop_of_mem litFollowOk (hh _) (by decide)⟩
  intro Z hf n fl d loc cps cur ps _ hn
  simp only [List.length_append] at hn
  obtain ⟨m, rfl⟩ : ∃ m, n = m + 8 := ⟨n - 8, by omega⟩
  have hb : ∀ Z, [TokenKind.LBrace].contains ((S1 ++ Z).headD .Eof) = false :=
    fun Z => notin_of_mem (hh Z) (by decide)
  have e1 := fun n fl d loc cps cur ps => h1 (S ++ Z) rfl n fl d loc cps cur ps trivial
  have e2 := fun n fl d loc cps cur ps => hS.1 Z hf n fl d loc cps cur ps trivial
  rw [ax_loop]
  ax_eval [e1, e2]

theorem nsval_of {k : SyntaxKind} {Ks : List SyntaxKind} {H S : List TokenKind} (hH : LitOk k H) (hS : NSufsOk Ks S)
    (hk : simpleKinds.contains k = true) (hKs : ∀ x ∈ Ks, sufKinds.contains x = true) : NSValOk (H ++ S) := by
  intro Z hf n fl d loc cps cur ps _ hn
  have hg : goodNode .InnerValue (pushAll Ks [k]).reverse = true := by
    rw [pushAll_eq]; simpa using good_innerValue k Ks hk hKs
  simp only [List.length_append] at hn
  obtain ⟨m, rfl⟩ : ∃ m, n = m + 12 := ⟨n - 12, by omega⟩
  have e1 := hH (S ++ Z) (hS.2 Z hf)
  have e2 := fun n fl d loc cps cur ps => hS.1 Z (nsval_nsufs hf) n fl d loc cps cur ps trivial
  ax_eval [ax_call (f := .inner_name_value), e1, e2]

theorem npaste_nil : NPasteOk 0 [] := by
  refine ⟨?_, fun Z h => by simpa using (nvalFollowOk_iff.mp h).1⟩
  intro Z hf n fl d loc cps cur ps _ hn
  have hP := (nvalFollowOk_iff.mp hf).2
  obtain ⟨m, rfl⟩ : ∃ m, n = m + 20 := ⟨n - 20, by omega⟩
  rw [ax_loop]
  ax_eval []

theorem npaste_cons {n : Nat} {R T : List TokenKind} (hR : NSValOk R) (hT : NPasteOk n T) :
    NPasteOk (n + 1) (TokenKind.Paste :: (R ++ T)) := by
  refine ⟨?_, fun Z _ => rfl⟩
  intro Z hf n fl d loc cps cur ps _ hn
  simp only [List.length_cons, List.length_append] at hn
  obtain ⟨m, rfl⟩ : ∃ m, n = m + 8 := ⟨n - 8, by omega⟩
  have e1 := fun n fl d loc cps cur ps => hR (T ++ Z) (hT.2 Z hf) n fl d loc cps cur ps trivial
  have e2 := fun n fl d loc cps cur ps => hT.1 Z hf n fl d loc cps cur ps trivial
  rw [ax_loop]
  ax_eval [e1, e2]

theorem name_of {k : Nat} {R T : List TokenKind} (hR : NSValOk R) (hT : NPasteOk k T) : NameOk (R ++ T) := by
  intro Z hf n fl d loc cps cur ps _ hn
  have hg : goodNode .Value (pushAll (List.replicate k .InnerValue) [.InnerValue]).reverse = true :=
    good_all_push .Value ⟨"inner_values", .all, [.InnerValue]⟩ rfl rfl (.InnerValue :: List.replicate k .InnerValue)
      (by intro x hx; rcases List.mem_cons.mp hx with rfl | hx
          · rfl
          · rw [List.eq_of_mem_replicate hx]; rfl)
  simp only [List.length_append] at hn
  obtain ⟨m, rfl⟩ : ∃ m, n = m + 12 := ⟨n - 12, by omega⟩
  have e1 := fun n fl d loc cps cur ps => hR (T ++ Z) (hT.2 Z hf) n fl d loc cps cur ps trivial
  have e2 := fun n fl d loc cps cur ps => hT.1 Z hf n fl d loc cps cur ps trivial
  ax_eval [ax_call (f := .name_value), e1, e2]

theorem nsuffix_head (s : NSuffix) (Z : List TokenKind) :
    [TokenKind.LSquare, .Dot].contains ((s.toSuffix.render ++ Z).headD .Eof) = true := by
  cases s <;> rfl

def nsufKinds (sufs : List NSuffix) : List SyntaxKind := sufs.map fun s => s.toSuffix.nk

theorem nsufKinds_ok (sufs : List NSuffix) : ∀ x ∈ nsufKinds sufs, sufKinds.contains x = true := by
  intro x hx
  obtain ⟨s, _, rfl⟩ := List.mem_map.mp hx
  cases s <;> rfl

theorem nsufs_ok : (sufs : List NSuffix) → NSufsOk (nsufKinds sufs) (nsufsRender sufs)
  | [] => nsufs_nil
  | s :: ss => nsufs_cons (c_suffix s.toSuffix) (nsuffix_head s) (suffix_pos _) (nsufs_ok ss)

theorem npaste_ok : (tl : List (Lit × List NSuffix)) → NPasteOk tl.length (npasteRender tl)
  | [] => npaste_nil
  | (l, sufs) :: rest => by
    have := npaste_cons (nsval_of (c_lit l) (nsufs_ok sufs) (lit_nk_simple l) (nsufKinds_ok sufs)) (npaste_ok rest)
    rwa [List.append_assoc] at this

theorem name_ok (v : NameVal) : NameOk v.render := by
  have := name_of (nsval_of (c_lit v.l) (nsufs_ok v.sufs) (lit_nk_simple v.l) (nsufKinds_ok v.sufs)) (npaste_ok v.tl)
  rwa [List.append_assoc] at this

theorem c_name_value (fl : Bool) (d : Nat) (loc : List Bool) (cps : CpStack) (cur : List SyntaxKind) (ps : List (SyntaxKind × List SyntaxKind)) (v : NameVal) (X : List TokenKind)
    (hf : nvalFollowOk (X.headD .Eof) = true) (n : Nat) (hn : 64 * v.render.length + 384 ≤ n) :
    ax n (call .name_value) ⟨v.render ++ X, fl, d, loc, cps, true, cur, ps⟩ = some ⟨X, true, d, loc, cps, true, .Value :: cur, ps⟩ :=
  name_ok v X hf n fl d loc cps cur ps trivial (by omega)

theorem nameval_head_eq (v : NameVal) (Z : List TokenKind) : (v.render ++ Z).headD .Eof = v.l.firstTok := by
  simp only [NameVal.render, List.append_assoc]
  exact lit_head v.l _

/-- a name starts with a value token other than `{` -/
theorem nameval_head (v : NameVal) (Z : List TokenKind) :
    Tables.valueStart.contains ((v.render ++ Z).headD .Eof) = true ∧
    [TokenKind.Colon, .Semi, .LBrace].contains ((v.render ++ Z).headD .Eof) = false := by
  rw [nameval_head_eq]
  have hm := lit_first v.l
  refine ⟨in_of_mem hm (by decide), ?_⟩
  have h1 : (v.l.firstTok == TokenKind.Colon) = false := ne_of_mem hm (by decide)
  have h2 : (v.l.firstTok == TokenKind.Semi) = false := ne_of_mem hm (by decide)
  have h3 := v.ok
  simp only [List.contains_cons, List.contains_nil, h1, h2, h3, Bool.or_false]

end C04L
end Tg
