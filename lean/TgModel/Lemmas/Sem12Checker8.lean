/-
The eighth core of `core_no_diagnostics_partial` (`Props/C13.lean`): the seventh core, and the name of an earlier
`def` as the value of a class-typed field (`Reg r = R0;`, `let r = R1;`), when the class of the field is a parent
of the def or an ancestor of one (as filed in the tables `DTabs`, `Lemmas/IdeSemCoreP.lean`).
-/
import TgModel.Lemmas.Sem12Core8
namespace Tg
namespace Ide
open Index

/-! ### names that no scope answers -/

/-- the outer scopes answer nothing for the names that are not variables of `gv` -/
def OuterNeg (outer : List Scope) (gv : Env) : Prop :=
  ∀ name, gv.get name = none → ∀ sm' : SymMap, outer.findSome? (scopeLookup sm' name) = none

theorem OuterNeg.ofRoot {sm : SymMap} {root : Scope} {gv : Env} (hk : root.kind = .root) (hv : VarsOK sm root gv) :
    OuterNeg [root] gv := by
  intro name hg sm'
  have hv' := hv name
  rw [hg] at hv'
  simp only at hv'
  simp only [List.findSome?_cons, List.findSome?_nil]
  have : scopeLookup sm' name root = none := by
    unfold scopeLookup Scope.findVariable Scope.recordId Scope.multiclassId
    simp [hv', hk]
  rw [this]

/-- a name that is neither a variable, nor a field, nor a template parameter, nor a top-level variable -/
theorem PInv.findLocalNone {cenv : CEnv} {N : Std.HashMap String Nat} {rid : Nat} {ps : Params} {bv gv : Env}
    {outer : List Scope} {xt : XTab} {dt : DTabs} {env : Env} {c : IndexCtx}
    (h : PInv cenv N rid ps bv gv outer xt dt env c) (hneg : OuterNeg outer gv) (name : String)
    (hb : bv.get name = none) (hn : env.get name = none) (hp : ps.env.get name = none) (hg : gv.get name = none) :
    c.scopes.findLocal c.symbolMap name = none := by
  obtain ⟨sc, hs, hk, hv0, _⟩ := h.top
  have hv : sc.nameToVariable[name]? = none := by have := hv0 name; rw [hb] at this; exact this
  have hf := h.exact name
  rw [hn] at hf
  simp only at hf
  rw [← h.find name] at hf
  have hta : SymMap.recordFindTemplateArg (c.symbolMap.record rid) name = none := by
    unfold SymMap.recordFindTemplateArg indexMapGet
    rw [← Array.find?_toList]
    have hkeys : (c.symbolMap.record rid).nameToTemplateArg.toList.map (·.1) = ps.map (·.1) := by
      have := congrArg (List.map (·.1)) h.tas.tab
      simp only [List.map_map] at this
      exact this
    cases hfd : (c.symbolMap.record rid).nameToTemplateArg.toList.find? (fun e => e.1 == name) with
    | none => rfl
    | some e =>
      exfalso
      have hm := List.mem_of_find?_eq_some hfd
      have he : e.1 = name := by simpa using List.find?_some hfd
      have : name ∈ ps.map (·.1) := by rw [← hkeys, ← he]; exact List.mem_map_of_mem hm
      obtain ⟨q, hq, hqe⟩ := List.mem_map.1 this
      unfold Params.env Env.get at hp
      simp only [Option.map_eq_none_iff, List.find?_eq_none, List.mem_map, forall_exists_index, and_imp] at hp
      have := hp (q.1, q.2.1) q hq rfl
      simp [hqe] at this
  rw [findLocal_eq, hs]
  simp only [List.findSome?_cons]
  have h0 : scopeLookup c.symbolMap name sc = none := by
    unfold scopeLookup Scope.findVariable Scope.recordId Scope.multiclassId
    simp [hv, hk, hf, hta]
  rw [h0]
  exact hneg name hg c.symbolMap

/-! ### the name of a def as an initialiser -/

/-- `v` is the name of a def of the table `dt.defs` that nothing in scope hides, the field has a class type, and the
class is among the ancestors filed for the def -/
def coreInitDef (dt : DTabs) (scope : Env) (ty : Ty) (v : PTree) : Bool :=
  match identValueNode v with
  | some id =>
    match Ast.identifierValue id, Ast.identifierRange id with
    | some name, some _ =>
      match scope.get name, dt.defs.get name, ty with
      | none, some d, .record cid _ =>
        (match ancGet dt.anc d with
          | some as => as.contains cid
          | none => false)
      | _, _, _ => false
    | _, _ => false
  | none => false

theorem Env.get_append_none {e1 e2 : Env} {name : String} (h : Env.get (e1 ++ e2) name = none) :
    e1.get name = none ∧ e2.get name = none := by
  rw [Env.get_append] at h
  cases h1 : e1.get name with
  | none => rw [h1] at h; exact ⟨rfl, h⟩
  | some t => rw [h1] at h; cases h

section core8
variable (k : Nat)

theorem coreInitDef_oracle (dt0 : DTabs) (cenv : CEnv) (N : Std.HashMap String Nat) (rid : Nat) (ps : Params) (gv : Env)
    (outer : List Scope) (xt : XTab) (dt : DTabs) (hdefs : dt.defs = dt0.defs) (hanc : dt.anc = dt0.anc)
    (hneg : OuterNeg outer gv) : InitOracle k (coreInitDef dt0) cenv N rid ps gv outer xt dt := by
  intro ty v bv env c hinv h
  obtain ⟨f, rest, hft⟩ : ∃ f rest, c.fileTrace = f :: rest := by
    cases hc : c.fileTrace with
    | nil => exact absurd hc hinv.trace
    | cons f rest => exact ⟨f, rest, rfl⟩
  unfold coreInitDef at h
  cases hidv : identValueNode v with
  | none => rw [hidv] at h; cases h
  | some id =>
  rw [hidv] at h
  simp only at h
  cases hv1 : Ast.identifierValue id with
  | none => rw [hv1] at h; cases h
  | some name =>
  cases hv2 : Ast.identifierRange id with
  | none => rw [hv1, hv2] at h; cases h
  | some se =>
  rw [hv1, hv2] at h
  simp only at h
  cases hsc : Env.get (bv ++ (env ++ (ps.env ++ gv))) name with
  | some t => rw [hsc] at h; cases h
  | none =>
  cases hd : dt0.defs.get name with
  | none => rw [hsc, hd] at h; cases h
  | some d =>
  rw [hsc, hd] at h
  cases ty with
  | record cid cname =>
    simp only at h
    cases ha : ancGet dt0.anc d with
    | none => rw [ha] at h; cases h
    | some as =>
      rw [ha] at h
      simp only at h
      have hmem : cid ∈ as := by simpa using h
      obtain ⟨hb, hrest⟩ := Env.get_append_none hsc
      obtain ⟨hn, hrest⟩ := Env.get_append_none hrest
      obtain ⟨hp, hg⟩ := Env.get_append_none hrest
      have hloc := hinv.findLocalNone hneg name hb hn hp hg
      obtain ⟨hdef, _, hkind⟩ := hinv.d.names name d (by rw [hdefs]; exact hd)
      have hid := identOf_of f id name se hv1 hv2
      have hvrun : ((mkRec (k + 1)).value v).run c = _ :=
        (indexValue_ident (mkRec k) v id hidv _).trans
          (indexIdentifierValue_def id c f rest hft name ⟨f, se.1, se.2⟩ hid d hloc hdef hkind)
      have hinv1 := hinv.addReference (.record d) ⟨f, se.1, se.2⟩
      refine ⟨_, _, hvrun, ?_, rfl, hinv1⟩
      exact hinv1.d.cast_def (by have := hinv1.newest; omega) name d as cid cname (by rw [hdefs]; exact hd)
        (by rw [hanc]; exact ha) hmem
  | _ => simp only at h; cases h

/-! ### the parents, with their ancestors -/

def classRefNameOf (cr : PTree) : Option String := (Ast.classRefName cr).bind Ast.identifierValue

/-- the parents named in the list and the ancestors filed for them -/
def parentsOwn (xt : XTab) (anc : List (Nat × List Nat)) (l : List PTree) : List Nat :=
  l.flatMap fun cr =>
    match (classRefNameOf cr).bind xt.get with
    | some cid => cid :: (ancGet anc cid).getD []
    | none => []

/-- every parent is a class whose record id is known -/
def parentsNamed (xt : XTab) (l : List PTree) : Bool := l.all fun cr => ((classRefNameOf cr).bind xt.get).isSome

theorem parents8_step (cenv : CEnv) (N : Std.HashMap String Nat) (pcl : PTree) (rid : Nat) (ps : Params) (gv : Env)
    (outer : List Scope) (xt : XTab) (defs : XTab) (anc : List (Nat × List Nat)) (own : List Nat) (env env' : Env)
    (c c' : IndexCtx) (hinv : PInv cenv N rid ps [] gv outer xt ⟨defs, anc, own⟩ env c)
    (hchk : coreParents4 cenv (ps.env ++ gv) env (Ast.parentClassListClasses pcl) = some env')
    (hnamed : parentsNamed xt (Ast.parentClassListClasses pcl) = true)
    (hrun : (indexParentClassList (mkRec (k + 1)) pcl).run c = .ok ((), c')) :
    c'.diagnostics = c.diagnostics ∧
      PInv cenv N rid ps [] gv outer xt ⟨defs, anc, own ++ parentsOwn xt anc (Ast.parentClassListClasses pcl)⟩ env' c' := by
  unfold indexParentClassList at hrun
  obtain ⟨r0, c0, h0, hrun1⟩ := IxM.run_bind_ok hrun
  rw [currentRecordId_run, hinv.currentRecordId] at h0
  cases h0
  simp only at hrun1
  obtain ⟨u, c'', hloop, hpure⟩ := IxM.run_bind_ok hrun1
  simp only [StateT.run_pure] at hpure
  cases hpure
  clear hrun hrun1
  generalize Ast.parentClassListClasses pcl = l at hchk hloop hnamed
  induction l generalizing env own c with
  | nil =>
    simp only [List.forIn_nil, StateT.run_pure] at hloop
    cases hloop
    cases hchk
    refine ⟨rfl, ?_⟩
    have : own ++ parentsOwn xt anc [] = own := by simp [parentsOwn]
    rw [this]
    exact hinv
  | cons cr rest ih =>
    rw [List.forIn_cons] at hloop
    obtain ⟨st, c1, h1, hloop⟩ := IxM.run_bind_ok hloop
    unfold coreParents4 at hchk
    unfold parentsNamed at hnamed
    rw [List.all_cons, Bool.and_eq_true] at hnamed
    obtain ⟨hn1, hn2⟩ := hnamed
    cases hp : coreClassRef4 cenv (env ++ (ps.env ++ gv)) cr with
    | none => rw [hp] at hchk; cases hchk
    | some flds =>
      rw [hp] at hchk
      simp only at hchk
      obtain ⟨cid, c2, hres, hlt, hex, hd, hinv2, hnm⟩ :=
        resolveClassRefAsClass_args k cenv N rid ps [] gv outer xt ⟨defs, anc, own⟩ env flds cr c hinv hp
      have hne : (cid == rid) = false := by simp; omega
      simp only [StateT.run_bind, hres, Except.ok_bind, hne, Bool.false_eq_true, if_false, recordMut_run,
        StateT.run_pure] at h1
      cases h1
      -- the static id of the parent
      have hcid : (classRefNameOf cr).bind xt.get = some cid := by
        cases hcn : classRefNameOf cr with
        | none => rw [hcn] at hn1; cases hn1
        | some name =>
          rw [hcn] at hn1
          simp only [Option.bind_some] at hn1 ⊢
          cases hx : xt.get name with
          | none => rw [hx] at hn1; cases hn1
          | some id =>
            have h1 := (hinv2.x name id hx).1
            rw [hinv2.ntc, hnm name hcn] at h1
            rw [← Option.some.inj h1]
      have hinv3 := hinv2.pushParent8 cid hlt flds hex ((ancGet anc cid).getD [])
        (by
          show ancGet anc cid = some _ ∨ _
          cases ancGet anc cid with
          | none => exact Or.inr rfl
          | some as => exact Or.inl rfl)
      obtain ⟨q, hi⟩ := ih (own ++ cid :: (ancGet anc cid).getD []) (env ++ flds) _ hinv3 hchk hloop hn2
      refine ⟨q.trans hd, ?_⟩
      have e : own ++ parentsOwn xt anc (cr :: rest) =
          (own ++ cid :: (ancGet anc cid).getD []) ++ parentsOwn xt anc rest := by
        unfold parentsOwn
        rw [List.flatMap_cons, hcid]
        simp only [List.append_assoc, List.cons_append]
      rw [e]
      exact hi

/-- the ancestors that the body of a record collects -/
def bodyOwn (xt : XTab) (anc : List (Nat × List Nat)) (rb : PTree) : List Nat :=
  match Ast.recordBodyParentClassList rb with
  | none => []
  | some pcl => parentsOwn xt anc (Ast.parentClassListClasses pcl)

/-- a record body of the eighth core -/
def coreRecordBody8 (tyOf : PTree → Option Ty) (lists : Bool) (cenv : CEnv) (xt : XTab) (dt : DTabs) (back : Env)
    (rb : PTree) : Option Env :=
  match Ast.recordBodyParentClassList rb with
  | none => some []
  | some pcl =>
    if parentsNamed xt (Ast.parentClassListClasses pcl) then
      match coreParents4 cenv back [] (Ast.parentClassListClasses pcl) with
      | some env =>
        match Ast.recordBodyBody rb with
        | none => some env
        | some b => (coreItems5 tyOf lists (coreInitDef dt) back [] env (Ast.bodyItems b)).map (·.2)
      | none => none
    else none

theorem recordBody8_step (tyOf : PTree → Option Ty) (lists : Bool) (hk : lists = true → 0 < k) (cenv : CEnv)
    (N : Std.HashMap String Nat) (rb : PTree) (rid : Nat) (ps : Params) (gv : Env) (outer : List Scope) (xt : XTab)
    (dt : DTabs) (env' : Env) (c c' : IndexCtx) (hown : dt.own = []) (hneg : OuterNeg outer gv)
    (htyO : ∀ dt', TyOracle k tyOf cenv N rid ps gv outer xt dt')
    (hinv : PInv cenv N rid ps [] gv outer xt dt [] c)
    (hchk : coreRecordBody8 tyOf lists cenv xt dt (ps.env ++ gv) rb = some env')
    (hrun : (indexRecordBody (mkRec (k + 1)) rb).run c = .ok ((), c')) :
    c'.diagnostics = c.diagnostics ∧
      ∃ bv, PInv cenv N rid ps bv gv outer xt { dt with own := bodyOwn xt dt.anc rb } env' c' := by
  obtain ⟨defs, anc, own⟩ := dt
  simp only at hown
  subst hown
  unfold coreRecordBody8 at hchk
  unfold indexRecordBody at hrun
  unfold bodyOwn
  cases hp : Ast.recordBodyParentClassList rb with
  | none => rw [hp] at hrun hchk; cases hrun; cases hchk; exact ⟨rfl, [], hinv⟩
  | some pcl =>
    rw [hp] at hrun hchk
    simp only at hrun hchk ⊢
    by_cases hnamed : parentsNamed xt (Ast.parentClassListClasses pcl) = true
    · simp only [hnamed, if_true] at hchk
      cases hps : coreParents4 cenv (ps.env ++ gv) [] (Ast.parentClassListClasses pcl) with
      | none => rw [hps] at hchk; cases hchk
      | some env =>
        rw [hps] at hchk
        simp only at hchk
        obtain ⟨_, c1, h1, hrun⟩ := IxM.run_bind_ok hrun
        obtain ⟨hd1, hinv1⟩ := parents8_step k cenv N pcl rid ps gv outer xt defs anc [] [] env c c1 hinv hps hnamed h1
        rw [List.nil_append] at hinv1
        cases hb : Ast.recordBodyBody rb with
        | none => rw [hb] at hrun hchk; cases hrun; cases hchk; exact ⟨hd1, [], hinv1⟩
        | some b =>
          rw [hb] at hrun hchk
          simp only at hrun hchk
          cases hit : coreItems5 tyOf lists (coreInitDef ⟨defs, anc, []⟩) (ps.env ++ gv) [] env (Ast.bodyItems b) with
          | none => rw [hit] at hchk; cases hchk
          | some p =>
            obtain ⟨bv', env2⟩ := p
            rw [hit] at hchk
            cases hchk
            unfold indexBody at hrun
            obtain ⟨u, c2, h2, h3⟩ := IxM.run_bind_ok hrun
            simp only [StateT.run_pure] at h3
            cases h3
            obtain ⟨hd2, hinv2⟩ := items5_step k tyOf lists hk (coreInitDef ⟨defs, anc, []⟩) cenv N _ rid ps gv outer xt
              ⟨defs, anc, parentsOwn xt anc (Ast.parentClassListClasses pcl)⟩
              [] env bv' env2 c1 c' u (htyO _)
              (coreInitDef_oracle k ⟨defs, anc, []⟩ cenv N rid ps gv outer xt
                ⟨defs, anc, parentsOwn xt anc (Ast.parentClassListClasses pcl)⟩ rfl rfl hneg) hinv1 hit h2
            exact ⟨hd2.trans hd1, bv', hinv2⟩
    · simp only [hnamed, Bool.false_eq_true, if_false] at hchk
      cases hchk

/-! ### the name of a `def` -/

/-- the name under which a `def` is filed: `some none` - there is no name (an anonymous record);
`some (some name)` - a plain identifier; `none` - anything else (such defs are outside this core) -/
def defNameOf (n : PTree) : Option (Option String) :=
  match Ast.defName n with
  | none => some none
  | some nv =>
    match (Ast.valueInnerValues nv).head? with
    | some inner =>
      match Ast.innerValueSimpleValue inner with
      | some sv =>
        if sv.kind == .Identifier then
          match Ast.identifierValue sv, Ast.identifierRange sv with
          | some name, some _ => some (some name)
          | _, _ => none
        else none
      | none => none
    | none => none

theorem utilsIdentifier_ok (id : PTree) (ca cb : IndexCtx) (x : Option (String × FileRange)) (name : String)
    (se : Nat × Nat) (hv : Ast.identifierValue id = some name) (hr : Ast.identifierRange id = some se)
    (h : (utilsIdentifier id).run ca = .ok (x, cb)) : ∃ loc, x = some (name, loc) := by
  cases hft : ca.fileTrace with
  | cons f rest =>
    rw [utilsIdentifier_runOf id ca f rest hft, identOf_of f id name se hv hr] at h
    cases h
    exact ⟨_, rfl⟩
  | nil =>
    exfalso
    unfold utilsIdentifier currentFileId at h
    simp only [hv, StateT.run_bind, IxM.run_get, Except.ok_bind, hft] at h
    cases h

theorem namedRun_defNameOf (n : PTree) (named : Option (String × FileRange)) (o : Option String)
    (h : NamedRun n named) (ho : defNameOf n = some o) :
    (o = none → named = none) ∧ (∀ name, o = some name → ∃ loc, named = some (name, loc)) := by
  unfold defNameOf at ho
  rcases h with ⟨nv, ca, cb, hnv, hr⟩ | ⟨hnv, rfl⟩
  · rw [hnv] at ho
    simp only at ho
    cases hh : (Ast.valueInnerValues nv).head? with
    | none => rw [hh] at ho; cases ho
    | some inner =>
      rw [hh] at ho
      simp only at ho
      cases hsv : Ast.innerValueSimpleValue inner with
      | none => rw [hsv] at ho; cases ho
      | some sv =>
        rw [hsv] at ho
        simp only at ho
        by_cases hkd : sv.kind = .Identifier
        · simp only [hkd, beq_self_eq_true, if_true] at ho
          cases hv : Ast.identifierValue sv with
          | none => rw [hv] at ho; cases ho
          | some name =>
            cases hrg : Ast.identifierRange sv with
            | none => rw [hv, hrg] at ho; cases ho
            | some se =>
              rw [hv, hrg] at ho
              cases ho
              unfold indexNameValue at hr
              simp only [hh, hsv, hkd, beq_self_eq_true, if_true] at hr
              obtain ⟨loc, hx⟩ := utilsIdentifier_ok sv ca cb named name se hv hrg hr
              exact ⟨(fun h => by cases h), (fun nm hnm => by cases hnm; exact ⟨loc, hx⟩)⟩
        · have hb : (sv.kind == SyntaxKind.Identifier) = false := by simpa using hkd
          simp only [hb, Bool.false_eq_true, if_false] at ho
          cases ho
  · rw [hnv] at ho
    cases ho
    exact ⟨(fun _ => rfl), (fun _ h => by cases h)⟩

/-! ### the statements -/

/-- `class C …` of the eighth core -/
def coreClass8 (lists : Bool) (cenv : CEnv) (gv : Env) (xt : XTab) (dt : DTabs) (n : PTree) : Option CEnv :=
  coreClassG (fun ce xt' ps rb => coreRecordBody8 (coreTypeOf7 xt' lists) lists ce xt' dt (ps.env ++ gv) rb) cenv xt n

/-- what the checker knows between two statements: as `St7`, and the record ids of the defs by name (`defs`) and the
ancestors of every record allocated so far (`anc`) -/
structure St8 where
  cenv : CEnv
  gv : Env
  xt : XTab
  defs : XTab
  anc : List (Nat × List Nat)
  nrec : Nat

/-- the def table inside the body of the `def` statement `n`: the def itself is already filed -/
def defsWith (defs : XTab) (o : Option String) (nrec : Nat) : XTab :=
  match o with
  | some name => (name, some nrec) :: defs
  | none => defs

def coreStatement8 (lists : Bool) (st : St8) (s : PTree) : Option St8 :=
  if s.kind == .Class then
    match coreClass8 lists st.cenv st.gv st.xt ⟨st.defs, st.anc, []⟩ s, classNameOf s with
    | some ce, some name =>
      some ⟨ce, st.gv, (name, some st.nrec) :: st.xt, st.defs,
        (st.nrec, classOwn (fun xt' rb => bodyOwn xt' st.anc rb) st.xt s) :: st.anc, st.nrec + 1⟩
    | _, _ => none
  else if s.kind == .Def then
    match defNameOf s, Ast.defRecordBody s with
    | some o, some rb =>
      if (coreRecordBody8 (coreTypeOf7 st.xt lists) lists st.cenv st.xt ⟨defsWith st.defs o st.nrec, st.anc, []⟩ st.gv
          rb).isSome then
        some ⟨st.cenv, st.gv, st.xt, defsWith st.defs o st.nrec,
          (st.nrec, defOwn (bodyOwn st.xt st.anc) s) :: st.anc, st.nrec + 1⟩
      else none
    | _, _ => none
  else if s.kind == .Defvar then
    (coreDefvar5 st.gv s).map fun p => ⟨st.cenv, p :: st.gv, st.xt, st.defs, st.anc, st.nrec⟩
  else none

def coreStatements8 (lists : Bool) : St8 → List PTree → Bool
  | _, [] => true
  | st, s :: rest =>
    match coreStatement8 lists st s with
    | some st' => coreStatements8 lists st' rest
    | none => false

/-- **the eighth core**: the seventh core, and names of earlier defs as values of class-typed fields - see
`coreProgramB` in `Props/C13.lean` -/
def coreStatementList8 (sl : PTree) : Bool :=
  coreStatements8 true ⟨[], [], [], [], [], 0⟩ (Ast.statementListStatements sl)

structure TabInv8 (st : St8) (c : IndexCtx) : Prop where
  t5 : TabInv5 st.cenv st.gv c
  x : XInv st.xt c.symbolMap.recordList.size c.symbolMap
  n : c.symbolMap.recordList.size = st.nrec
  d : DInv ⟨st.defs, st.anc, []⟩ c.symbolMap.recordList.size c.symbolMap

theorem TabInv5.outerNeg {cenv : CEnv} {gv : Env} {c : IndexCtx} (h : TabInv5 cenv gv c) :
    OuterNeg c.scopes.scopes gv := by
  obtain ⟨root, hs, hk, hv⟩ := h.root
  rw [hs]
  exact OuterNeg.ofRoot hk hv

theorem TabInv5.noMulticlass {cenv : CEnv} {gv : Env} {c : IndexCtx} (h : TabInv5 cenv gv c) :
    c.scopes.currentMulticlassId.isSome = false := by
  obtain ⟨root, hs, hk, _⟩ := h.root
  unfold Scopes.currentMulticlassId
  rw [hs]
  simp [Scope.multiclassId, hk]

theorem indexStatement8_step (lists : Bool) (hk : lists = true → 0 < k) (st st' : St8) (s : PTree) (c c' : IndexCtx)
    (h : TabInv8 st c) (hchk : coreStatement8 lists st s = some st')
    (hrun : (indexStatement (mkRec (k + 1)) s).run c = .ok ((), c')) :
    c'.diagnostics = c.diagnostics ∧ TabInv8 st' c' := by
  obtain ⟨tv, tt, tsl, tsf⟩ := mkRec_typRel (k + 1)
  have hkeep : ArenaKeep c.symbolMap c'.symbolMap := (Index.indexStatement_keeps tv tt tsl tsf s).run _ _ _ hrun
  have hneg := h.t5.outerNeg
  unfold coreStatement8 at hchk
  unfold indexStatement at hrun
  by_cases hk1 : s.kind = .Class
  · simp only [hk1, beq_self_eq_true, if_true] at hchk
    simp only [hk1] at hrun
    cases hc : coreClass8 lists st.cenv st.gv st.xt ⟨st.defs, st.anc, []⟩ s with
    | none => rw [hc] at hchk; cases hchk
    | some ce =>
      cases hn : classNameOf s with
      | none => rw [hc, hn] at hchk; cases hchk
      | some name =>
        rw [hc, hn] at hchk
        cases hchk
        obtain ⟨q, ht, hs, hxi, hsz, hdi⟩ := indexClassG_step k _ st.gv ⟨st.defs, st.anc, []⟩
          (fun xt' rb => bodyOwn xt' st.anc rb) c.scopes.scopes
          (fun cenv1 xt' ps rb env N rid outer c6 c7 hout hinv hrb h7 =>
            recordBody8_step k (coreTypeOf7 xt' lists) lists hk cenv1 N rb rid ps st.gv outer xt' ⟨st.defs, st.anc, []⟩
              env c6 c7 rfl (by rw [hout]; exact hneg)
              (fun dt' => coreTypeOf7_oracle k lists hk cenv1 N rid ps st.gv outer xt' dt') hinv hrb h7)
          st.cenv _ st.xt s c c' h.t5.tab h.t5.outer rfl h.x h.d rfl hc hrun
        refine ⟨q, h.t5.after ht hs hkeep, ?_, by rw [hsz, h.n], ?_⟩
        · have := hxi name hn
          rw [h.n] at this
          exact this
        · rw [h.n] at hdi
          exact hdi
  · have hb1 : (s.kind == SyntaxKind.Class) = false := by simpa using hk1
    simp only [hb1, Bool.false_eq_true, if_false] at hchk
    by_cases hk2 : s.kind = .Def
    · simp only [hk2, beq_self_eq_true, if_true] at hchk
      simp only [hk2] at hrun
      cases hdn : defNameOf s with
      | none => rw [hdn] at hchk; cases hchk
      | some o =>
      cases hb : Ast.defRecordBody s with
      | none => rw [hdn, hb] at hchk; cases hchk
      | some rb0 =>
        rw [hdn, hb] at hchk
        simp only at hchk
        by_cases hd : (coreRecordBody8 (coreTypeOf7 st.xt lists) lists st.cenv st.xt
            ⟨defsWith st.defs o st.nrec, st.anc, []⟩ st.gv rb0).isSome = true
        · simp only [hd, if_true] at hchk
          cases hchk
          obtain ⟨q, ht, hs, hxi, hsz, hdi⟩ := indexDefG_step k st.cenv
            (coreRecordBody8 (coreTypeOf7 st.xt lists) lists st.cenv st.xt ⟨defsWith st.defs o st.nrec, st.anc, []⟩ st.gv)
            st.gv st.xt ⟨defsWith st.defs o st.nrec, st.anc, []⟩ (bodyOwn st.xt st.anc) c.scopes.scopes
            (fun rb env N rid outer c6 c7 hout hinv hrb h7 =>
              recordBody8_step k (coreTypeOf7 st.xt lists) lists hk st.cenv N rb rid [] st.gv outer st.xt
                ⟨defsWith st.defs o st.nrec, st.anc, []⟩ env c6 c7 rfl (by rw [hout]; exact hneg)
                (fun dt' => coreTypeOf7_oracle k lists hk st.cenv N rid [] st.gv outer st.xt dt') hinv hrb h7)
            s c c' h.t5.tab h.t5.outer rfl h.x rfl
            (fun r c3 c5 p3 ho hkd hpl hbr => by
              obtain ⟨named, hnr, q3, hcases⟩ := hbr
              obtain ⟨hnone, hsome⟩ := namedRun_defNameOf s named o hnr hdn
              have hsz3 : c3.symbolMap.recordList.size = c.symbolMap.recordList.size := by rw [p3.2.2.1]
              have hd3 : DInv ⟨st.defs, st.anc, []⟩ c3.symbolMap.recordList.size c3.symbolMap := by
                rw [hsz3]
                refine ⟨fun nm id hg => ?_, fun i as hg => ?_, fun a ha => by cases ha⟩
                · obtain ⟨j1, j2, j3⟩ := h.d.names nm id hg
                  exact ⟨by rw [q3]; exact j1, j2, by rw [p3.record]; exact j3⟩
                · obtain ⟨j1, j2⟩ := h.d.ancs i as hg
                  refine ⟨j1, fun a ha => ?_⟩
                  have := j2 a ha
                  unfold SubFact at this ⊢
                  rw [isSubclassOfGo_agree c.symbolMap c3.symbolMap a c.symbolMap.recordList.size h.t5.tab.k.older
                    (fun i _ => by rw [p3.record]) (i + 1) i j1]
                  exact this
              have hold3 : OlderBelow c3.symbolMap c3.symbolMap.recordList.size := by
                rw [hsz3]; exact OlderBelow.same p3 _ h.t5.tab.k.older
              have hmc : c.scopes.currentMulticlassId.isSome = false := h.t5.noMulticlass
              refine hd3.opened hold3 r ho.recs hpl (defsWith st.defs o st.nrec) ?_
              intro nm id hg
              cases o with
              | none =>
                have hnm := hnone rfl
                have hnd : c5.symbolMap.nameToDef = c3.symbolMap.nameToDef := by
                  rcases hcases with ⟨hm, _⟩ | ⟨loc, hl, _⟩ | ⟨_, hh⟩
                  · rw [hmc] at hm; cases hm
                  · rw [hnm] at hl; cases hl
                  · exact hh
                exact Or.inl ⟨hg, by rw [hnd]⟩
              | some dname =>
                obtain ⟨loc0, hnm⟩ := hsome dname rfl
                have hnd : c5.symbolMap.nameToDef =
                    c3.symbolMap.nameToDef.insert dname c3.symbolMap.recordList.size ∧ r.name = dname := by
                  rcases hcases with ⟨hm, _⟩ | ⟨loc, hl, hh⟩ | ⟨hl, _⟩
                  · rw [hmc] at hm; cases hm
                  · rw [hnm] at hl
                    cases hl
                    exact ⟨hh, rfl⟩
                  · rw [hnm] at hl; cases hl
                unfold defsWith at hg
                simp only at hg
                rw [XTab.get_cons] at hg
                by_cases e : nm = dname
                · rw [if_pos e] at hg
                  cases hg
                  refine Or.inr ⟨by rw [hsz3, h.n], ?_, hkd⟩
                  rw [hnd.1, e, hsz3, h.n]
                  simp
                · rw [if_neg e] at hg
                  refine Or.inl ⟨hg, ?_⟩
                  rw [hnd.1, Std.HashMap.getElem?_insert]
                  have : (dname == nm) = false := by simpa using fun e' => e e'.symm
                  simp [this])
            (fun rb hrb => by rw [hb] at hrb; cases hrb; exact hd) hrun
          refine ⟨q, h.t5.after ht (hs (by rw [hb]; rfl)) hkeep, hxi, by rw [hsz, h.n], ?_⟩
          rw [h.n] at hdi
          exact hdi
        · simp only [hd, Bool.false_eq_true, if_false] at hchk
          cases hchk
    · have hb2 : (s.kind == SyntaxKind.Def) = false := by simpa using hk2
      simp only [hb2, Bool.false_eq_true, if_false] at hchk
      by_cases hk3 : s.kind = .Defvar
      · simp only [hk3, beq_self_eq_true, if_true] at hchk
        simp only [hk3] at hrun
        cases hdv : coreDefvar5 st.gv s with
        | none => rw [hdv] at hchk; cases hchk
        | some p =>
          obtain ⟨name, t⟩ := p
          rw [hdv] at hchk
          cases hchk
          obtain ⟨q, h5, hn, hr, hnd⟩ := defvarTop5_step k st.cenv st.gv s name t c c' h.t5 hdv hrun
          have hrec : ∀ i, c'.symbolMap.record i = c.symbolMap.record i := fun i => by unfold SymMap.record; rw [hr]
          refine ⟨q, h5, ?_, by rw [hr]; exact h.n, ?_⟩
          · rw [hr]
            exact h.x.mono (Nat.le_refl _) (fun _ _ _ => by rw [hn])
          · rw [hr]
            refine ⟨fun nm id hg => ?_, fun i as hg => ?_, fun a ha => by cases ha⟩
            · obtain ⟨j1, j2, j3⟩ := h.d.names nm id hg
              exact ⟨by rw [hnd]; exact j1, j2, by rw [hrec]; exact j3⟩
            · obtain ⟨j1, j2⟩ := h.d.ancs i as hg
              refine ⟨j1, fun a ha => ?_⟩
              have := j2 a ha
              unfold SubFact at this ⊢
              rw [isSubclassOfGo_agree c.symbolMap c'.symbolMap a c.symbolMap.recordList.size h.t5.tab.k.older
                (fun i _ => by rw [hrec]) (i + 1) i j1]
              exact this
      · have hb3 : (s.kind == SyntaxKind.Defvar) = false := by simpa using hk3
        simp only [hb3, Bool.false_eq_true, if_false] at hchk
        cases hchk

theorem indexStatementList8L_quiet (lists : Bool) (hk : lists = true → 0 < k) (sl : PTree)
    (hchk : coreStatements8 lists ⟨[], [], [], [], [], 0⟩ (Ast.statementListStatements sl) = true) (c c' : IndexCtx)
    (hsm : c.symbolMap = {}) (hsc : c.scopes = {}) (htr : c.fileTrace ≠ [])
    (hrun : ((mkRec (k + 2)).statementList sl).run c = .ok ((), c')) :
    c'.diagnostics = c.diagnostics := by
  have hrun' : (indexStatementList (mkRec (k + 1)) sl).run c = .ok ((), c') := hrun
  unfold indexStatementList at hrun'
  obtain ⟨u, c'', hloop, hpure⟩ := IxM.run_bind_ok hrun'
  simp only [StateT.run_pure] at hpure
  cases hpure
  have hT : TabInv8 ⟨[], [], [], [], [], 0⟩ c :=
    ⟨TabInv5.init c hsm hsc htr, XInv.nil _ _, by rw [hsm]; rfl, DInv.nil _ _⟩
  clear hrun hrun' hsm hsc htr
  generalize Ast.statementListStatements sl = l at hchk hloop
  generalize (⟨[], [], [], [], [], 0⟩ : St8) = st at hchk hT
  induction l generalizing c st with
  | nil =>
    simp only [List.forIn_nil, StateT.run_pure] at hloop
    cases hloop; rfl
  | cons s rest ih =>
    rw [List.forIn_cons] at hloop
    obtain ⟨stp, c1, h1, hloop⟩ := IxM.run_bind_ok hloop
    obtain ⟨_, c1', j1, j2⟩ := IxM.run_bind_ok h1
    simp only [StateT.run_pure] at j2
    cases j2
    unfold coreStatements8 at hchk
    cases hs : coreStatement8 lists st s with
    | none => rw [hs] at hchk; cases hchk
    | some st1 =>
      rw [hs] at hchk
      obtain ⟨q1, hT1⟩ := indexStatement8_step k lists hk st st1 s c c1 hT hs j1
      have q2 : c'.diagnostics = c1.diagnostics := by
        apply ih <;> first | exact hloop | exact hchk | exact hT1
      exact q2.trans q1

end core8

/-- like the seventh core, the eighth needs one more level of fuel -/
theorem indexStatementList8_quiet (k : Nat) (sl : PTree) (hchk : coreStatementList8 sl = true) (c c' : IndexCtx)
    (hsm : c.symbolMap = {}) (hsc : c.scopes = {}) (htr : c.fileTrace ≠ [])
    (hrun : ((mkRec (k + 3)).statementList sl).run c = .ok ((), c')) :
    c'.diagnostics = c.diagnostics :=
  indexStatementList8L_quiet (k + 1) true (fun _ => Nat.succ_pos k) sl hchk c c' hsm hsc htr hrun

end Ide
end Tg
