/-
The cost table of the grammar for `Lemmas/ProgressCost.lean`: `grammarZ f` bounds the steps of a
run of `f` that consumes nothing.  The numbers were computed by iterating `Progress.zb` over the
ranks (`Progress.Zn Grammar.defs grammarRanks 7`); here they are *validated*, not trusted: kernel
evaluation checks that the table is closed under `zb`, that no function body has a fixed overhead
above 62 and that no loop iteration has.
-/
import TgModel.Grammar
import TgModel.GrammarSumms
import TgModel.Lemmas.ProgressCost

namespace Tg
namespace Progress

def grammarZ : Fn → Nat
  | .source_file => 2
  | .statement_list_top => 1
  | .statement_list_block => 3
  | .statement_list_single_or_block => 6
  | .statement => 4
  | .include => 2
  | .class_ => 2
  | .def_ => 2
  | .object_name => 13
  | .let_ => 3
  | .let_list => 31
  | .let_item => 29
  | .multi_class => 3
  | .multi_class_statements => 6
  | .multi_class_statement => 4
  | .defm => 3
  | .defset => 3
  | .defvar => 4
  | .dump => 3
  | .foreach => 3
  | .foreach_iterator => 17
  | .foreach_iterator_init => 13
  | .if_ => 4
  | .assert_ => 4
  | .opt_template_arg_list => 4
  | .template_arg_list => 4
  | .template_arg_decl => 8
  | .record_body => 18
  | .parent_class_list => 3
  | .class_ref => 5
  | .arg_value_list => 30
  | .arg_value => 28
  | .body => 14
  | .body_item => 10
  | .field_def => 10
  | .field_let => 6
  | .type_ => 4
  | .bit_type => 2
  | .int_type => 2
  | .string_type => 2
  | .dag_type => 2
  | .bits_type => 4
  | .list_type => 4
  | .class_id => 3
  | .code_type => 2
  | .opt_value => 0
  | .value => 13
  | .inner_value => 11
  | .opt_name_value => 13
  | .name_value => 13
  | .inner_name_value => 11
  | .value_suffix => 3
  | .range_suffix => 3
  | .range_list => 10
  | .range_piece => 8
  | .slice_suffix => 3
  | .slice_elements => 30
  | .slice_element => 28
  | .field_suffix => 2
  | .simple_value => 7
  | .integer => 3
  | .string_ => 2
  | .code => 2
  | .boolean => 3
  | .uninitialized => 2
  | .bits => 5
  | .list_ => 7
  | .dag => 3
  | .dagarg_list => 20
  | .dagarg => 18
  | .var_name => 2
  | .identifier => 2
  | .identifier_or_class_value => 5
  | .bang_operator => 7
  | .cond_operator => 5
  | .cond_clause => 28

private theorem all_fn {P : Fn → Prop} [DecidablePred P] (h : Fn.all.all (fun f => decide (P f)) = true) :
    ∀ f, P f := by
  intro f
  have := List.all_eq_true.mp h f (by cases f <;> decide)
  simpa using this

/-- the table is closed: a non-consuming run of `f` costs at most `grammarZ f` -/
theorem grammarZ_closed : ∀ f, zb grammarRanks grammarZ f (Grammar.defs f) ≤ grammarZ f :=
  all_fn (by decide +kernel)

/-- the fixed overhead of every function body is at most 62 -/
theorem grammar_overhead : ∀ f, ob grammarZ (Grammar.defs f) ≤ 62 :=
  all_fn (by decide +kernel)

/-- … and so is the fixed overhead of one iteration of every loop -/
theorem grammar_loops : ∀ f, loopsOk grammarZ (Grammar.defs f) = true :=
  all_fn (by decide +kernel)

end Progress
end Tg
