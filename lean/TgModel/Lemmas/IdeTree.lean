/-
Range lemmas for `PTree` (C17 step 2, and the tree facts the no-panic proof needs):

* `ValidRange text a b`: `[a, b)` is the byte range of a piece `mid` of `text = pre ++ mid ++ post`
  (so both ends are character boundaries, `a ≤ b`, `b ≤ byteLen text`);
* `Spans t txt`: the offsets stored in `t` are the running byte sums of its leaves, whose
  concatenation is `txt`; heights are consistent (`0 < height` of a node, children lower);
* `Desc root t`: `t` is `root` or one of its descendants (nodes and tokens);
* `ofTree_spans`: `PTree.ofTree t` spans `t.text` from offset 0;
* `Spans.desc_validRange`: every descendant of a spanning tree has a `ValidRange`.
-/
import TgModel.Ide.Ast
import TgModel.Lemmas.ParserInv

namespace Tg
namespace Ide

/-- `[a, b)` is the byte range of a piece of `text`: both ends are character boundaries by
construction, `a ≤ b` and `b ≤ byteLen text` -/
def ValidRange (text : List Char) (a b : Nat) : Prop :=
  a ≤ b ∧ ∃ pre mid post, text = pre ++ mid ++ post ∧ a = byteLen pre ∧ b = byteLen pre + byteLen mid

theorem ValidRange.le {text a b} (h : ValidRange text a b) : a ≤ b := h.1

theorem ValidRange.le_len {text a b} (h : ValidRange text a b) : b ≤ byteLen text := by
  obtain ⟨_, pre, mid, post, rfl, _, rfl⟩ := h
  simp only [byteLen_append]; omega

theorem ValidRange.empty_zero (text : List Char) : ValidRange text 0 0 :=
  ⟨Nat.le_refl _, [], [], text, by simp, by simp, by simp⟩

/-- a valid range inside a piece of a larger text -/
theorem ValidRange.shift {mid a b} (h : ValidRange mid a b) (pre post : List Char) :
    ValidRange (pre ++ mid ++ post) (byteLen pre + a) (byteLen pre + b) := by
  obtain ⟨hle, p, m, q, rfl, rfl, rfl⟩ := h
  refine ⟨by omega, pre ++ p, m, q ++ post, by simp [List.append_assoc], by simp, by simp; omega⟩

/-- chain of children: each starts where the previous one stops -/
inductive Tiles : List PTree → Nat → Nat → Prop
  | nil (s : Nat) : Tiles [] s s
  | cons (t : PTree) (ts : List PTree) (e : Nat) : Tiles ts t.stop e → Tiles (t :: ts) t.start e

/-- `Spans t txt`: the offsets of `t` are the byte offsets of its leaves, and the leaves
concatenate to `txt` -/
inductive Spans : PTree → List Char → Prop
  | token (k : SyntaxKind) (s : Nat) (txt : List Char) :
      Spans (.token k s (s + byteLen txt) (String.ofList txt)) txt
  | node (k : SyntaxKind) (s e h : Nat) (cs : Array PTree) (parts : List (List Char)) :
      parts.length = cs.size →
      (∀ i (hi : i < cs.size) (hp : i < parts.length), Spans cs[i] parts[i]) →
      Tiles cs.toList s e → 0 < h → (∀ c ∈ cs.toList, c.height < h) →
      Spans (.node k s e h cs) parts.flatten

/-- reflexive-transitive child relation (nodes and tokens) -/
inductive Desc : PTree → PTree → Prop
  | refl (t : PTree) : Desc t t
  | step {root p c : PTree} : Desc root p → c ∈ p.children.toList → Desc root c

theorem Desc.trans {a b c : PTree} (h1 : Desc a b) (h2 : Desc b c) : Desc a c := by
  induction h2 with
  | refl => exact h1
  | step _ hc ih => exact Desc.step ih hc

theorem Desc.child {p c : PTree} (hc : c ∈ p.children.toList) : Desc p c := Desc.step (Desc.refl p) hc

/-! ### `Tiles` -/

theorem Tiles.start_le_stop {ts : List PTree} {s e : Nat} (h : Tiles ts s e)
    (hle : ∀ t ∈ ts, t.start ≤ t.stop) : s ≤ e := by
  induction h with
  | nil => exact Nat.le_refl _
  | cons t ts e _ ih =>
    have h1 := hle t (by simp)
    have h2 := ih (fun x hx => hle x (by simp [hx]))
    omega

/-! ### `Spans` basics -/

theorem Spans.stop_eq {t : PTree} {txt : List Char} (h : Spans t txt) : t.stop = t.start + byteLen txt := by
  induction h with
  | token k s txt => simp [PTree.stop, PTree.start]
  | node k s e h cs parts hlen hch htile hh hhs ih =>
    simp only [PTree.stop, PTree.start]
    -- generalise over the list of children
    have key : ∀ (l : List PTree) (ps : List (List Char)) (s e : Nat), ps.length = l.length →
        (∀ i (hi : i < l.length) (hp : i < ps.length), l[i].stop = l[i].start + byteLen ps[i]) →
        Tiles l s e → e = s + byteLen ps.flatten := by
      intro l
      induction l with
      | nil =>
        intro ps s e hl _ ht
        cases ht
        cases ps with
        | nil => simp
        | cons _ _ => simp at hl
      | cons t ts ihl =>
        intro ps s e hl hst ht
        cases ps with
        | nil => simp at hl
        | cons p ps =>
          cases ht with
          | cons _ _ _ ht' =>
            have h0 := hst 0 (by simp) (by simp)
            simp only [List.getElem_cons_zero] at h0
            have := ihl ps t.stop e (by simpa using hl)
              (fun i hi hp => by
                have := hst (i + 1) (by simp; omega) (by simp; omega)
                simpa using this) ht'
            simp only [List.flatten_cons, byteLen_append]
            omega
    have := key cs.toList parts s e (by simpa using hlen)
      (fun i hi hp => by
        have hi' : i < cs.size := by simpa using hi
        have := ih i hi' hp
        simpa using this) htile
    exact this

theorem Spans.start_le_stop {t : PTree} {txt : List Char} (h : Spans t txt) : t.start ≤ t.stop := by
  rw [h.stop_eq]; omega

theorem Spans.height_pos_of_node {t : PTree} {txt : List Char} (h : Spans t txt) (hn : t.isNode = true) :
    0 < t.height := by
  cases h with
  | token => simp [PTree.isNode] at hn
  | node => simpa [PTree.height]

/-- the child of a spanning node spans a piece of the node's text, at the right offset -/
theorem Spans.child {t : PTree} {txt : List Char} (h : Spans t txt) {c : PTree}
    (hc : c ∈ t.children.toList) :
    c.height < t.height ∧ ∃ pre mid post, txt = pre ++ mid ++ post ∧ Spans c mid ∧
      c.start = t.start + byteLen pre := by
  cases h with
  | token => simp [PTree.children] at hc
  | node k s e h cs parts hlen hch htile hh hhs =>
    simp only [PTree.children] at hc
    refine ⟨by simpa [PTree.height] using hhs c hc, ?_⟩
    obtain ⟨i, hi, rfl⟩ := List.getElem_of_mem hc
    have hi' : i < cs.size := by simpa using hi
    have hp : i < parts.length := by omega
    have hsp : ∀ j (hj : j < cs.size) (hp : j < parts.length), (cs[j]).stop = (cs[j]).start + byteLen parts[j] :=
      fun j hj hp => (hch j hj hp).stop_eq
    -- offsets along the chain
    have key : ∀ (l : List PTree) (ps : List (List Char)) (s e : Nat), ps.length = l.length →
        (∀ j (hj : j < l.length) (hp : j < ps.length), l[j].stop = l[j].start + byteLen ps[j]) →
        Tiles l s e → ∀ i (hi : i < l.length) (hp : i < ps.length),
          l[i].start = s + byteLen (ps.take i).flatten := by
      intro l
      induction l with
      | nil => intro ps s e _ _ _ i hi; simp at hi
      | cons t ts ihl =>
        intro ps s e hl hst ht i hi hp
        cases ps with
        | nil => simp at hp
        | cons p ps =>
          cases ht with
          | cons _ _ _ ht' =>
            cases i with
            | zero => simp
            | succ i =>
              have h0 := hst 0 (by simp) (by simp)
              simp only [List.getElem_cons_zero] at h0
              have := ihl ps t.stop e (by simpa using hl)
                (fun j hj hp => by
                  have := hst (j + 1) (by simp; omega) (by simp; omega)
                  simpa using this) ht' i (by simpa using hi) (by simpa using hp)
              simp only [List.getElem_cons_succ, List.take_succ_cons, List.flatten_cons, byteLen_append]
              omega
    have hstart := key cs.toList parts s e (by simpa using hlen)
      (fun j hj hp => by
        have hj' : j < cs.size := by simpa using hj
        simpa using hsp j hj' hp) htile i hi hp
    refine ⟨(parts.take i).flatten, parts[i], (parts.drop (i + 1)).flatten, ?_, ?_, ?_⟩
    · have hsplit : parts = parts.take i ++ parts[i] :: parts.drop (i + 1) := by
        rw [← List.drop_eq_getElem_cons hp, List.take_append_drop]
      have h2 := congrArg List.flatten hsplit
      rw [List.flatten_append, List.flatten_cons, ← List.append_assoc] at h2
      exact h2
    · simpa using hch i hi' hp
    · exact hstart

/-- descendants of a spanning tree span a piece of its text; their offset is relative to the root -/
theorem Spans.desc {root : PTree} {txt : List Char} (h : Spans root txt) {t : PTree} (hd : Desc root t) :
    t.height ≤ root.height ∧ ∃ pre mid post, txt = pre ++ mid ++ post ∧ Spans t mid ∧
      t.start = root.start + byteLen pre := by
  induction hd with
  | refl => exact ⟨Nat.le_refl _, [], txt, [], by simp, h, by simp⟩
  | step hp hc ih =>
    obtain ⟨hh, pre, mid, post, rfl, hs, hst⟩ := ih
    obtain ⟨hlt, pre', mid', post', rfl, hs', hst'⟩ := hs.child hc
    refine ⟨by omega, pre ++ pre', mid', post' ++ post, by simp [List.append_assoc], hs', ?_⟩
    simp only [byteLen_append]; omega

/-- **every node and token below a spanning root that starts at offset 0 has a valid range** -/
theorem Spans.desc_validRange {root : PTree} {txt : List Char} (h : Spans root txt) (h0 : root.start = 0)
    {t : PTree} (hd : Desc root t) : ValidRange txt t.start t.stop := by
  obtain ⟨_, pre, mid, post, rfl, hs, hst⟩ := h.desc hd
  have := hs.stop_eq
  refine ⟨hs.start_le_stop, pre, mid, post, rfl, by omega, by omega⟩

theorem Spans.desc_spans {root : PTree} {txt : List Char} (h : Spans root txt) {t : PTree} (hd : Desc root t) :
    ∃ mid, Spans t mid := by
  obtain ⟨_, _, mid, _, _, hs, _⟩ := h.desc hd
  exact ⟨mid, hs⟩

theorem Spans.desc_within {root : PTree} {txt : List Char} (h : Spans root txt) {t : PTree} (hd : Desc root t) :
    root.start ≤ t.start ∧ t.start ≤ t.stop ∧ t.stop ≤ root.stop := by
  obtain ⟨_, pre, mid, post, rfl, hs, hst⟩ := h.desc hd
  have h1 := hs.stop_eq
  have h2 := h.stop_eq
  simp only [byteLen_append] at h2
  omega

/-! ### the text of a `PTree` as a function -/

/-- concatenation of the token texts, in order -/
def PTree.chars : PTree → List Char
  | .token _ _ _ t => t.toList
  | .node _ _ _ _ cs => (cs.toList.attach.map fun ⟨c, _⟩ => c.chars).flatten
termination_by t => t
decreasing_by
  simp_wf
  rename_i h
  have := Array.sizeOf_lt_of_mem (Array.mem_toList_iff.mp h)
  omega

theorem Spans.chars_eq {t : PTree} {txt : List Char} (h : Spans t txt) : t.chars = txt := by
  induction h with
  | token k s txt => simp [PTree.chars]
  | node k s e h cs parts hlen hch htile hh hhs ih =>
    rw [PTree.chars]
    congr 1
    apply List.ext_getElem
    · simp [hlen]
    · intro i h1 h2
      simp only [List.getElem_map, List.getElem_attach]
      have hi : i < cs.size := by simpa using h1
      simpa using ih i hi h2

/-! ### `ofTree` -/

theorem Tiles.snoc {l : List PTree} {s e : Nat} (h : Tiles l s e) (t : PTree) (ht : t.start = e) :
    Tiles (l ++ [t]) s t.stop := by
  induction h with
  | nil s => subst ht; exact Tiles.cons t [] _ (Tiles.nil _)
  | cons x xs e _ ih => exact Tiles.cons x _ _ (ih ht)

mutual
theorem ofTreeAt_spans : ∀ (t : Tree) (pos : Nat),
    Spans (ofTreeAt t pos).1 t.text ∧ (ofTreeAt t pos).1.start = pos ∧ (ofTreeAt t pos).2 = pos + byteLen t.text
  | .token k text, pos => by
    simp only [ofTreeAt, Tree.text_token]
    exact ⟨Spans.token k pos text, rfl, trivial⟩
  | .node k cs, pos => by
    have h := ofTreesAt_spans cs pos #[] 0 [] pos (by simp) (by simp) (Tiles.nil pos) (by simp)
    simp only [ofTreeAt, Tree.text_node]
    obtain ⟨parts, hlen, hsp, htile, hflat, hstop, hh⟩ := h
    refine ⟨?_, rfl, ?_⟩
    · have := Spans.node k pos (ofTreesAt cs pos #[] 0).2.1 ((ofTreesAt cs pos #[] 0).2.2 + 1)
        (ofTreesAt cs pos #[] 0).1 parts hlen hsp htile (by omega)
        (fun c hc => by have := hh c hc; omega)
      rw [hflat] at this
      simpa using this
    · simpa using hstop

/-- accumulator invariant of `ofTreesAt`: `acc` (already spanning `accParts`, tiling `[s, pos)`)
is extended by the annotated `ts` -/
theorem ofTreesAt_spans : ∀ (ts : List Tree) (pos : Nat) (acc : Array PTree) (h : Nat) (accParts : List (List Char))
    (s : Nat),
    accParts.length = acc.size →
    (∀ i (hi : i < acc.size) (hp : i < accParts.length), Spans acc[i] accParts[i]) →
    Tiles acc.toList s pos → (∀ c ∈ acc.toList, c.height ≤ h) →
    ∃ parts : List (List Char), parts.length = (ofTreesAt ts pos acc h).1.size ∧
      (∀ i (hi : i < (ofTreesAt ts pos acc h).1.size) (hp : i < parts.length), Spans (ofTreesAt ts pos acc h).1[i] parts[i]) ∧
      Tiles (ofTreesAt ts pos acc h).1.toList s (ofTreesAt ts pos acc h).2.1 ∧
      parts.flatten = accParts.flatten ++ listText ts ∧
      (ofTreesAt ts pos acc h).2.1 = pos + byteLen (listText ts) ∧
      (∀ c ∈ (ofTreesAt ts pos acc h).1.toList, c.height ≤ (ofTreesAt ts pos acc h).2.2)
  | [], pos, acc, h, accParts, s => by
    intro hlen hsp hs hh
    exact ⟨accParts, by simpa [ofTreesAt] using hlen, by simpa [ofTreesAt] using hsp,
      by simpa [ofTreesAt] using hs, by simp, by simp [ofTreesAt], by simpa [ofTreesAt] using hh⟩
  | t :: ts, pos, acc, h, accParts, s => by
    intro hlen hsp htile hh
    obtain ⟨h1, h2, h3⟩ := ofTreeAt_spans t pos
    have hstop : (ofTreeAt t pos).1.stop = (ofTreeAt t pos).2 := by rw [h1.stop_eq, h2, h3]
    have ih := ofTreesAt_spans ts (ofTreeAt t pos).2 (acc.push (ofTreeAt t pos).1) (max h (ofTreeAt t pos).1.height)
      (accParts ++ [t.text]) s (by simp [hlen])
      (by
        intro i hi hp
        by_cases hlt : i < acc.size
        · have hlt' : i < accParts.length := by omega
          simp only [Array.getElem_push_lt hlt, List.getElem_append_left hlt']
          exact hsp i hlt hlt'
        · have : i = acc.size := by simp at hi; omega
          subst this
          have e1 : (acc.push (ofTreeAt t pos).1)[acc.size]'hi = (ofTreeAt t pos).1 := Array.getElem_push_eq ..
          have e2 : (accParts ++ [t.text])[acc.size]'hp = t.text := by simp [← hlen]
          rw [e1, e2]; exact h1)
      (by
        have := htile.snoc (ofTreeAt t pos).1 h2
        rw [hstop] at this
        simpa using this)
      (by
        intro c hc
        simp only [Array.toList_push, List.mem_append, List.mem_singleton] at hc
        rcases hc with hc | rfl
        · have := hh c hc; omega
        · omega)
    obtain ⟨parts, p1, p2, p3, p4, p5, p6⟩ := ih
    refine ⟨parts, by simpa [ofTreesAt] using p1, by simpa [ofTreesAt] using p2,
      by simpa [ofTreesAt] using p3, ?_, ?_, by simpa [ofTreesAt] using p6⟩
    · simp [p4, List.append_assoc]
    · simp only [ofTreesAt, listText_cons, byteLen_append]
      rw [p5, h3]; omega
end

/-- **C17 step 2**: the annotated tree spans the text of the green tree, from offset 0 -/
theorem ofTree_spans (t : Tree) : Spans (PTree.ofTree t) t.text ∧ (PTree.ofTree t).start = 0 :=
  ⟨(ofTreeAt_spans t 0).1, (ofTreeAt_spans t 0).2.1⟩

theorem ofTree_chars (t : Tree) : (PTree.ofTree t).chars = t.text := (ofTree_spans t).1.chars_eq

/-- every node and token of `PTree.ofTree t` has a valid range in the text of `t` -/
theorem ofTree_ranges_valid (t : Tree) {x : PTree} (hx : Desc (PTree.ofTree t) x) :
    ValidRange t.text x.start x.stop :=
  (ofTree_spans t).1.desc_validRange (ofTree_spans t).2 hx

/-! ### typed accessors return children -/

/-- `c` is a child node of `n` -/
def Sub (n c : PTree) : Prop := c ∈ n.children.toList ∧ c.isNode = true

theorem Sub.desc {n c : PTree} (h : Sub n c) : Desc n c := Desc.child h.1

theorem Ast.child_sub {n c : PTree} {p : SyntaxKind → Bool} (h : Ast.child n p = some c) : Sub n c := by
  unfold Ast.child at h
  have hm := Array.mem_of_find?_eq_some h
  have hp := Array.find?_some h
  simp only [Bool.and_eq_true] at hp
  exact ⟨by simpa using hm, hp.1⟩

theorem Ast.child_is_kind {n c : PTree} {k : SyntaxKind} (h : Ast.child n (Ast.is k) = some c) : c.kind = k := by
  unfold Ast.child at h
  have hp := Array.find?_some h
  simp only [Bool.and_eq_true] at hp
  simpa [Ast.is] using hp.2

theorem Ast.children_sub {n c : PTree} {p : SyntaxKind → Bool} (h : c ∈ Ast.children n p) : Sub n c := by
  unfold Ast.children at h
  simp only [Array.toList_filter, List.mem_filter, Bool.and_eq_true] at h
  exact ⟨h.1, h.2.1⟩

theorem Ast.nthChild_sub {n c : PTree} {p : SyntaxKind → Bool} {i : Nat} (h : Ast.nthChild n p i = some c) :
    Sub n c := by
  unfold Ast.nthChild at h
  exact Ast.children_sub (List.mem_of_getElem? h)

theorem Ast.head?_children_sub {n c : PTree} {p : SyntaxKind → Bool} (h : (Ast.children n p).head? = some c) :
    Sub n c :=
  Ast.children_sub (List.mem_of_head? h)

/-! ### `first_token` -/

theorem Cursor.firstTokenGo_desc : ∀ (fuel : Nat) (c r : Cursor), Cursor.firstTokenGo fuel c = some r →
    Desc c.here r.here ∧ r.here.isToken = true
  | 0, _, _, h => by simp [Cursor.firstTokenGo] at h
  | fuel + 1, c, r, h => by
    unfold Cursor.firstTokenGo at h
    split at h
    · rename_i heq
      simp only [Option.some.injEq] at h; subst h
      exact ⟨Desc.refl _, by simp [heq, PTree.isToken, PTree.isNode]⟩
    · split at h
      · cases h
      · rename_i ch hch
        obtain ⟨h1, h2⟩ := Cursor.firstTokenGo_desc fuel ch r h
        refine ⟨Desc.trans (Desc.child ?_) h1, h2⟩
        unfold Cursor.child at hch
        simp only [Option.map_eq_some_iff] at hch
        obtain ⟨x, hx, rfl⟩ := hch
        exact List.mem_of_getElem? (by simpa using hx)

theorem PTree.firstToken_desc {n t : PTree} (h : n.firstToken = some t) : Desc n t ∧ t.isToken = true := by
  unfold PTree.firstToken Cursor.firstToken at h
  simp only [Option.map_eq_some_iff] at h
  obtain ⟨r, hr, rfl⟩ := h
  exact Cursor.firstTokenGo_desc _ _ _ hr

theorem Ast.identifierRange_desc {n : PTree} {s e : Nat} (h : Ast.identifierRange n = some (s, e)) :
    ∃ t, Desc n t ∧ t.start = s ∧ t.stop = e := by
  unfold Ast.identifierRange at h
  simp only [Option.map_eq_some_iff, Prod.mk.injEq] at h
  obtain ⟨t, ht, rfl, rfl⟩ := h
  exact ⟨t, (PTree.firstToken_desc ht).1, rfl, rfl⟩

end Ide
end Tg
