/-
C04 converse for values, tree-checked lists (part 3): slices (trailing comma included), the suffix dispatch and
the suffix loop.  (The lemmas of `C04ConvV3`, relative to a context.)
-/
import TgModel.Lemmas.C04VJ2

namespace Tg
namespace C04L
open Prog Grammar Frag Doc

local notation "rcv" => Tables.recoverTokens

/-- `SliceElement ","` -/
abbrev sliceItemE0 : E := .seq (.nt .SliceElement_) (.tok [TokenKind.Comma])

/-- the loop of `slice_elements`: left at the end of the input, or with
`(SliceElement ",")* SliceElement ","?` -/
theorem slice_loopJ (C : RunCtx) (L : Nat) (hV : ValHJ C L) : ∀ (n : Nat) (s s' : PState), s.kinds.length < L → C.I s →
    s.afterError = false →
    exec defs rcv n (loop (ifAt [.Eof] (retB false) (seq (call .slice_element) (seq (eatIf .Comma)
      (ifFlag (ifAt [.RSquare] (retB false) (retB true)) (retB false))))) nop) s = .ok s' → Clean s s' →
    ∃ w, s.kinds = w ++ s'.kinds ∧ s'.afterError = false ∧
      (s'.cur = .Eof ∨
       (C.J s' → VShape0 w → ∃ ws wl tc, w = ws ++ (wl ++ tc) ∧ Derives (.star sliceItemE0) ws ∧
          Derives (.nt .SliceElement_) wl ∧ Derives (.opt (.tok [TokenKind.Comma])) tc)) := by
  intro n
  induction n with
  | zero => intro s s' _ _ _ h; simp [exec] at h
  | succ n ih =>
    intro s s' hl hi ha h hc
    obtain ⟨s1, h1, c1, hcase⟩ := loop_inv h hc
    have i1 := C.hI _ _ _ _ hi h1
    have h1 := lift_fuel h1 8
    rcases ifAt_inv defs rcv h1 with ⟨hstop, h1⟩ | ⟨_, h1⟩
    · have e1 := retB_inv defs rcv h1; subst e1
      rcases hcase with ⟨_, rfl⟩ | ⟨hf, _⟩
      · exact ⟨[], rfl, ha, Or.inl (by simpa using hstop)⟩
      · simp at hf
    · obtain ⟨sa, h2, c2, h3, c3⟩ := seq_inv defs rcv h1 c1
      have ia := C.hI _ _ _ _ hi h2
      have ba := C.hJ _ _ _ _ ia h3
      obtain ⟨w1, k1, a1, q1⟩ := slice_element_invJ C L hV _ _ _ hl hi h2 c2
      obtain ⟨sb, h4, c4, h5, c5⟩ := seq_inv defs rcv h3 c3
      rcases eatIf_clean (by decide) h4 with ⟨_, hfl, kc, ac, _⟩ | ⟨hne, rfl⟩
      · rcases ifFlag_inv defs rcv h5 with ⟨_, h5⟩ | ⟨hf, _⟩
        · rcases ifAt_inv defs rcv h5 with ⟨hat, h5⟩ | ⟨_, h5⟩
          · -- a trailing comma: documented for slices
            have e5 := retB_inv defs rcv h5; subst e5
            rcases hcase with ⟨_, rfl⟩ | ⟨hf, _⟩
            · refine ⟨w1 ++ [TokenKind.Comma], by rw [k1, kc]; simp; rfl, ac, Or.inr ?_⟩
              intro j hs
              exact ⟨[], w1, [TokenKind.Comma], by simp, Derives.starNil, q1 (ba j) hs.left,
                Derives.optSome (d_tok1 _)⟩
            · simp at hf
          · have e5 := retB_inv defs rcv h5; subst e5
            rcases hcase with ⟨hf, _⟩ | ⟨_, s2, hb, _, hl2, cl⟩
            · simp at hf
            · have e2 := nop_inv defs rcv (lift_fuel hb 1)
              rw [e2] at hl2 cl
              have kb : s.kinds = (w1 ++ [TokenKind.Comma]) ++ sb.kinds := by rw [k1, kc]; simp
              have lb : ({ sb with flag := true } : PState).kinds.length < L :=
                Nat.lt_of_le_of_lt (kinds_len_le kb) hl
              obtain ⟨w2, k2, a2, d2⟩ := ih _ _ lb i1 ac hl2 cl
              have k2' : sb.kinds = w2 ++ s'.kinds := k2
              refine ⟨w1 ++ TokenKind.Comma :: w2, by rw [kb, k2']; simp, a2, ?_⟩
              rcases d2 with he | d2
              · exact Or.inl he
              · right
                intro j hs
                have hs1 : VShape0 w1 := hs.left
                have hs2 : VShape0 w2 := (hs.right (u := w1)).tail
                have j1 := C.hJ _ _ _ _ i1 hl2 j
                obtain ⟨ws, wl, tc, rfl, dws, dwl, dtc⟩ := d2 j hs2
                exact ⟨(w1 ++ [TokenKind.Comma]) ++ ws, wl, tc, by simp,
                  Derives.starCons (Derives.seq (q1 (ba j1) hs1) (d_tok1 _)) dws, dwl, dtc⟩
        · rw [hfl] at hf; cases hf
      · rcases ifFlag_inv defs rcv h5 with ⟨hf, _⟩ | ⟨_, h5⟩
        · simp at hf
        · have e5 := retB_inv defs rcv h5; subst e5
          rcases hcase with ⟨_, rfl⟩ | ⟨hf, _⟩
          · exact ⟨w1, k1, a1, Or.inr fun j hs => ⟨[], w1, [], by simp, Derives.starNil, q1 (ba j) hs,
              Derives.optNone⟩⟩
          · simp at hf

theorem slice_suffix_invJ (C : RunCtx) (L : Nat) (hV : ValHJ C L) {n : Nat} {s s' : PState} (hl : s.kinds.length ≤ L)
    (hi : C.I s) (h : exec defs rcv n (call .slice_suffix) s = .ok s') (hc : Clean s s') :
    VConvJ C s s' (.nt .ValueSuffix_) := by
  have h := call_inv defs rcv (lift_fuel h 40)
  simp only [defs, seqs, ifEatIf] at h
  obtain ⟨s1, h1, _, h, hc⟩ := seq_inv defs rcv h hc
  have i1 := C.hI _ _ _ _ hi h1
  have e1 := same_startNode h1
  obtain ⟨s2, h2, _, h, hc⟩ := seq_inv defs rcv h hc
  have i2 := C.hI _ _ _ _ i1 h2
  obtain ⟨k2, a2, _⟩ := assertTok_cleanN (by decide) h2
  obtain ⟨s3, h3, c3, h, hc⟩ := seq_inv defs rcv h hc
  have i3 := C.hI _ _ _ _ i2 h3
  have b3 := C.hJ _ _ _ _ i3 h
  -- slice_elements
  have h3 := call_inv defs rcv h3
  simp only [defs, seqs, ifEatIf] at h3
  obtain ⟨t1, g1, _, g, gc⟩ := seq_inv defs rcv h3 c3
  have j1 := C.hI _ _ _ _ i2 g1
  have f1 := same_startNode g1
  obtain ⟨t2, g2, gc2, g, gc⟩ := seq_inv defs rcv g gc
  have j2 := C.hI _ _ _ _ j1 g2
  have bt2 := C.hJ _ _ _ _ j2 g
  have l1 : t1.kinds.length < L := by
    have : s.kinds = [TokenKind.LSquare] ++ s2.kinds := by rw [← e1.kinds, k2]; rfl
    rw [f1.kinds]
    exact Nat.lt_of_lt_of_le (kinds_len_lt this (by simp)) hl
  obtain ⟨w, kw, aw, dw⟩ := slice_loopJ C L hV _ _ _ l1 j1 (by rw [f1.after]; exact a2) g2 gc2
  obtain ⟨t3, g3, _, g4, _⟩ := seq_inv defs rcv g gc
  have f3 := same_finishNode g3
  have f4 := same_retB g4
  obtain ⟨s4, h4, c4, h, hc⟩ := seq_inv defs rcv h hc
  obtain ⟨hcur, k4, a4, _⟩ := expect_cleanC (by decide) h4 c4 (by rw [f4.after, f3.after]; exact aw)
  obtain ⟨s5, h5, _, h6, _⟩ := seq_inv defs rcv h hc
  have e5 := same_finishNode h5
  have e6 := same_retB h6
  refine ⟨TokenKind.LSquare :: (w ++ [TokenKind.RSquare]), ?_, by rw [e6.after, e5.after]; exact a4, ?_⟩
  · rw [← e1.kinds, k2, ← f1.kinds, kw, ← f3.kinds, ← f4.kinds, k4, e6.kinds, e5.kinds]; simp
  · intro j hs
    rcases dw with he | dw
    · rw [f4.cur, f3.cur, he] at hcur; cases hcur
    · have hw : VShape0 w := VShape0.infix (u := [TokenKind.LSquare]) (x := [TokenKind.RSquare]) (by simpa using hs)
      obtain ⟨ws, wl, tc, rfl, dws, dwl, dtc⟩ := dw (bt2 (b3 j)) hw
      exact Derives.nt (Derives.altR (Derives.altL (Derives.nt (d_tokSeq (List.mem_singleton.mpr rfl)
        (Derives.seq (Derives.nt (Derives.seq dws (Derives.seq dwl dtc))) (d_tok1 _))))))

/-- what a suffix test did: nothing (answer `false`) or one documented suffix (answer `true`) -/
def SufStepJ (C : RunCtx) (a b : PState) : Prop :=
  (b.flag = false ∧ b.kinds = a.kinds ∧ b.afterError = a.afterError) ∨
  (b.flag = true ∧ VConvJ C a b (.nt .ValueSuffix_))

theorem value_suffix_invJ (C : RunCtx) (L : Nat) (hV : ValHJ C L) {n : Nat} {s s' : PState} (hl : s.kinds.length ≤ L)
    (hi : C.I s) (h : exec defs rcv n (call .value_suffix) s = .ok s') (hc : Clean s s') : SufStepJ C s s' := by
  have h := call_inv defs rcv (lift_fuel h 20)
  simp only [defs, matchPeek] at h
  have wrap : ∀ {m : Nat} {f : Fn}, exec defs rcv (m+2) (seq (call f) (retB true)) s = .ok s' →
      (∀ a, exec defs rcv (m+1) (call f) s = .ok a → Clean s a → VConvJ C s a (.nt .ValueSuffix_)) →
      SufStepJ C s s' := by
    intro m f hh hconv
    obtain ⟨a, g1, gc1, g2, _⟩ := seq_inv defs rcv hh hc
    have ia := C.hI _ _ _ _ hi g1
    have e := same_retB g2
    have ef : s'.flag = true := by have := retB_inv defs rcv g2; rw [this]
    obtain ⟨w, k, af, d⟩ := hconv a g1 gc1
    exact Or.inr ⟨ef, w, by rw [e.kinds]; exact k, by rw [e.after]; exact af,
      fun j hs => d (C.hJ _ _ _ _ ia g2 j) hs⟩
  rcases ifAt_inv defs rcv h with ⟨_, h⟩ | ⟨_, h⟩
  · exact wrap h (fun a g gc => range_suffix_invJ C g gc)
  rcases ifAt_inv defs rcv h with ⟨_, h⟩ | ⟨_, h⟩
  · exact wrap h (fun a g gc => slice_suffix_invJ C L hV hl hi g gc)
  rcases ifAt_inv defs rcv h with ⟨_, h⟩ | ⟨_, h⟩
  · exact wrap h (fun a g gc => field_suffix_invJ C g gc)
  · have e := retB_inv defs rcv h; subst e
    exact Or.inl ⟨rfl, rfl, rfl⟩

/-- the name-mode suffix test: stops in front of `{` -/
theorem name_suffix_invJ (C : RunCtx) (L : Nat) (hV : ValHJ C L) {n : Nat} {s s' : PState} (hl : s.kinds.length ≤ L)
    (hi : C.I s) (h : exec defs rcv n (ifAt [.LBrace] (retB false) (call .value_suffix)) s = .ok s')
    (hc : Clean s s') : SufStepJ C s s' := by
  have h := lift_fuel h 5
  rcases ifAt_inv defs rcv h with ⟨_, h⟩ | ⟨_, h⟩
  · have e := retB_inv defs rcv h; subst e
    exact Or.inl ⟨rfl, rfl, rfl⟩
  · exact value_suffix_invJ C L hV hl hi h hc

/-- `while test() {}` over a suffix test -/
theorem suffix_loopJ (C : RunCtx) (L : Nat) (c : Prog)
    (hcond : ∀ (n : Nat) (a b : PState), a.kinds.length ≤ L → C.I a → exec defs rcv n c a = .ok b → Clean a b →
      SufStepJ C a b) :
    ∀ (n : Nat) (s s' : PState), s.kinds.length ≤ L → C.I s → s.afterError = false →
      exec defs rcv n (loop c nop) s = .ok s' → Clean s s' →
      ∃ w, s.kinds = w ++ s'.kinds ∧ s'.afterError = false ∧
        (C.J s' → VShape0 w → Derives (.star (.nt .ValueSuffix_)) w) := by
  intro n
  induction n with
  | zero => intro s s' _ _ _ h; simp [exec] at h
  | succ n ih =>
    intro s s' hl hi ha h hc
    obtain ⟨s1, h1, c1, hcase⟩ := loop_inv h hc
    have i1 := C.hI _ _ _ _ hi h1
    rcases hcond _ _ _ hl hi h1 c1 with ⟨hfl, hk, haa⟩ | ⟨hfl, w1, k1, a1, d1⟩
    · rcases hcase with ⟨_, rfl⟩ | ⟨hf, _⟩
      · exact ⟨[], by rw [hk]; rfl, by rw [haa]; exact ha, fun _ _ => Derives.starNil⟩
      · rw [hfl] at hf; cases hf
    · rcases hcase with ⟨hf, _⟩ | ⟨_, s2, hb, _, hl2, cl⟩
      · rw [hfl] at hf; cases hf
      · have e2 := nop_inv defs rcv (lift_fuel hb 1)
        rw [e2] at hl2 cl
        obtain ⟨w2, k2, a2, d2⟩ := ih _ _ (Nat.le_trans (kinds_len_le k1) hl) i1 a1 hl2 cl
        exact ⟨w1 ++ w2, by rw [k1, k2]; simp, a2,
          fun j hs => Derives.starCons (d1 (C.hJ _ _ _ _ i1 hl2 j) hs.left) (d2 j hs.right)⟩

end C04L
end Tg
