/-
From the names invariant of the indexer (`SymMap.NamesOK`, kept by every step of `Index.index`) to
the hypotheses of the C06 theorems about its hook log: `RefsValid`, `NamedRefs`, `TextOk`,
`DisjointLocs`.
-/
import TgModel.Lemmas.IdeTop

namespace Tg
namespace Ide
open Tg.SymbolMap (Op Loc allocs RefsValid registrations NamedRefs TextOk DisjointLocs run)

theorem HookLogOK.namedRefs {ws : Workspace} {ops : List Op} {n : Nat} (h : HookLogOK ws ops n) : NamedRefs ops := by
  intro s loc hm
  obtain ⟨nm, ⟨l, hl⟩, _⟩ := h.refTok s loc hm
  exact ⟨nm.toList, l, hl⟩

/-- the text of file `loc.file` under a token range (or inside a quoted token) is the name -/
theorem TokAt.textAt {ws : Workspace} (hws : ws.WF) {loc : Loc} {nm : String} (h : TokAt ws loc nm) :
    textAt ws loc = nm.toList := by
  obtain ⟨_, t, hd, ht, ⟨_, hs, he, rfl⟩ | ⟨hs, he, hq⟩⟩ := h
  · obtain ⟨txt, hsp, h0⟩ := hws.tree_spans loc.file
    unfold Ide.textAt
    rw [← hs, ← he]
    exact hsp.token_text h0 hd ht
  · obtain ⟨txt, hsp, h0⟩ := hws.tree_spans loc.file
    unfold Ide.textAt
    have := (hsp.token_inner h0 hd ht hq).1
    have he' : loc.stop = t.stop - 1 := by omega
    rw [← hs, he']
    exact this

theorem HookLogOK.textOk {ws : Workspace} (hws : ws.WF) {ops : List Op} {n : Nat} (h : HookLogOK ws ops n) :
    TextOk (textAt ws) ops := by
  refine ⟨?_, ?_⟩
  · intro name loc hm
    obtain ⟨nm, rfl, ht⟩ := h.defTok name loc hm
    exact ht.textAt hws
  · intro s loc hm
    obtain ⟨nm, ⟨l, hl⟩, ht⟩ := h.refTok s loc hm
    obtain ⟨S, hS, hname, _⟩ := Tg.SymbolMap.allocs_sym ops {} s nm.toList l hl
    refine ⟨S, ?_, ?_⟩
    · simpa [run] using hS
    · rw [hname]; exact ht.textAt hws

/-- two name ranges of one file are equal or disjoint: tokens tile the text, an identifier is named as a whole, a
quoted name by its inside, and an identifier is not quoted (`IdsPlain`) -/
theorem TokAt.disjoint {ws : Workspace} (hws : ws.WF) (hplain : IdsPlain ws) {a b : Loc} {na nb : String}
    (ha : TokAt ws a na) (hb : TokAt ws b nb) (hf : a.file = b.file) :
    a = b ∨ a.stop ≤ b.start ∨ b.stop ≤ a.start := by
  obtain ⟨_, ta, hda, hta, ha'⟩ := ha
  obtain ⟨_, tb, hdb, htb, hb'⟩ := hb
  obtain ⟨txt, hsp, h0⟩ := hws.tree_spans a.file
  rw [← hf] at hdb hb'
  have key := hsp.tokens_disjoint hda hdb hta htb
  have hloc : ∀ {x y : Loc}, x.file = y.file → x.start = y.start → x.stop = y.stop → x = y := by
    intro x y h1 h2 h3
    cases x; cases y
    simp only at h1 h2 h3
    simp only [Loc.mk.injEq]
    exact ⟨h1, h2, h3⟩
  -- a quoted token has at least two bytes
  have hlen : ∀ {t : PTree} {nm : String}, Desc (ws.tree a.file) t → t.isToken = true →
      t.text.toList = '"' :: nm.toList ++ ['"'] → t.start + 2 ≤ t.stop :=
    fun hd ht hq => (hsp.token_inner_valid h0 hd ht hq).2
  -- two tokens with the same non-empty range are the same token
  have hsame : ta.start = tb.start → ta.stop = tb.stop → ta.start < ta.stop → ta = tb := by
    intro h1 h2 h3
    rcases hsp.desc_nested_or_disjoint hda hdb with hd | hd | hd | hd
    · exact (desc_of_token hta hd).symm
    · exact desc_of_token htb hd
    · omega
    · omega
  -- an identifier token is not quoted
  have hnq : ∀ {t : PTree} {nm : String}, IdTok (ws.tree a.file) t → t.text.toList = '"' :: nm.toList ++ ['"'] → False := by
    intro t nm hid hq
    exact hplain a.file t hid (by rw [hq]; rfl)
  rcases ha' with ⟨hka, hsa, hea, _⟩ | ⟨hsa, hea, hqa⟩ <;>
    rcases hb' with ⟨hkb, hsb, heb, _⟩ | ⟨hsb, heb, hqb⟩
  · rcases key with ⟨h1, h2⟩ | h | h
    · exact Or.inl (hloc hf (by omega) (by omega))
    · right; left; omega
    · right; right; omega
  · have := hlen hdb htb hqb
    rcases key with ⟨h1, h2⟩ | h | h
    · exact (hnq ((hsame h1 h2 (by omega)) ▸ hka) hqb).elim
    · right; left; omega
    · right; right; omega
  · have := hlen hda hta hqa
    rcases key with ⟨h1, h2⟩ | h | h
    · exact (hnq ((hsame h1 h2 (by omega)).symm ▸ hkb) hqa).elim
    · right; left; omega
    · right; right; omega
  · have := hlen hda hta hqa
    have := hlen hdb htb hqb
    rcases key with ⟨h1, h2⟩ | h | h
    · exact Or.inl (hloc hf (by omega) (by omega))
    · right; left; omega
    · right; right; omega

theorem HookLogOK.disjointLocs {ws : Workspace} (hws : ws.WF) (hplain : IdsPlain ws) {ops : List Op} {n : Nat}
    (h : HookLogOK ws ops n) : DisjointLocs ops := by
  have htok : ∀ e ∈ registrations ops 0, ∃ nm, TokAt ws e.1 nm := by
    intro e he
    rcases registrations_mem ops 0 e he with ⟨name, hm⟩ | hm
    · obtain ⟨nm, _, ht⟩ := h.defTok name e.1 hm
      exact ⟨nm, ht⟩
    · obtain ⟨nm, _, ht⟩ := h.refTok e.2 e.1 hm
      exact ⟨nm, ht⟩
  intro a ha b hb hf _ _
  obtain ⟨na, hta⟩ := htok a ha
  obtain ⟨nb, htb⟩ := htok b hb
  exact hta.disjoint hws hplain htb hf

end Ide
end Tg

namespace Tg
namespace Ide
open Tg.SymbolMap (Op Loc registrations RefStable)

/-- executable form of `RefStable` -/
def refStableB : List Op → Nat → Bool
  | [], _ => true
  | .reference s loc :: t, k => (registrations t k).all (fun e => e.1 != loc || e.2 == s) && refStableB t k
  | .define _ _ :: t, k => refStableB t (k + 1)
  | .defineAnon _ _ :: t, k => refStableB t (k + 1)

theorem refStableB_split : ∀ (pre : List Op) (k : Nat) (post : List Op) (s : Nat) (loc : Loc),
    refStableB (pre ++ Op.reference s loc :: post) k = true →
    ∀ e ∈ registrations post (k + RefStable.registrations.count pre), e.1 = loc → e.2 = s
  | [], k, post, s, loc, h => by
    simp only [List.nil_append, refStableB, Bool.and_eq_true, List.all_eq_true] at h
    intro e he hl
    have := h.1 e (by simpa [RefStable.registrations.count] using he)
    simp only [Bool.or_eq_true, bne_iff_ne, ne_eq, beq_iff_eq] at this
    rcases this with h1 | h1
    · exact absurd hl h1
    · exact h1
  | x :: pre, k, post, s, loc, h => by
    cases x with
    | define n l =>
      simp only [List.cons_append, refStableB] at h
      have := refStableB_split pre (k + 1) post s loc h
      simpa [RefStable.registrations.count, Nat.add_comm, Nat.add_left_comm, Nat.add_assoc] using this
    | defineAnon n l =>
      simp only [List.cons_append, refStableB] at h
      have := refStableB_split pre (k + 1) post s loc h
      simpa [RefStable.registrations.count, Nat.add_comm, Nat.add_left_comm, Nat.add_assoc] using this
    | reference s' l =>
      simp only [List.cons_append, refStableB, Bool.and_eq_true] at h
      have := refStableB_split pre k post s loc h.2
      simpa [RefStable.registrations.count] using this

theorem refStableB_sound {ops : List Op} (h : refStableB ops 0 = true) : RefStable ops := by
  intro pre post s loc hops e he hl
  subst hops
  have := refStableB_split pre 0 post s loc h e (by simpa using he) hl
  exact this

end Ide
end Tg

namespace Tg
namespace Ide
open Tg.SymbolMap (Op)

/-! ### comparing concrete logs (for examples evaluated by the kernel) -/

def opBeq : Op → Op → Bool
  | .define n l, .define n' l' => n == n' && l == l'
  | .defineAnon n l, .defineAnon n' l' => n == n' && l == l'
  | .reference s l, .reference s' l' => s == s' && l == l'
  | _, _ => false

theorem opBeq_eq : ∀ {a b : Op}, opBeq a b = true → a = b := by
  intro a b h
  cases a <;> cases b <;> simp_all [opBeq]

def opsBeq : List Op → List Op → Bool
  | [], [] => true
  | a :: as, b :: bs => opBeq a b && opsBeq as bs
  | _, _ => false

theorem opsBeq_eq : ∀ {a b : List Op}, opsBeq a b = true → a = b
  | [], [], _ => rfl
  | [], _ :: _, h => by simp [opsBeq] at h
  | _ :: _, [], h => by simp [opsBeq] at h
  | a :: as, b :: bs, h => by
    simp only [opsBeq, Bool.and_eq_true] at h
    rw [opBeq_eq h.1, opsBeq_eq h.2]

end Ide
end Tg
