/-
Messages that cannot be mistaken for the report of an unresolved `include`: `MsgOK msg` - the message has
at least four characters and does not start with `incl`.  `msg_ok` proves it for the interpolated messages
of the model (a literal followed by anything).
-/
import TgModel.Lemmas.IdeSemMonad
import TgModel.Ide.Bang
namespace Tg
namespace Ide

/-- the first four characters of "include file not found: …" -/
def inclL : List Char := ['i', 'n', 'c', 'l']

def MsgOK (a : String) : Prop := 4 ≤ a.toList.length ∧ a.toList.take 4 ≠ inclL

instance (a : String) : Decidable (MsgOK a) := by unfold MsgOK; infer_instance

theorem MsgOK.append_left {a : String} (b : String) (h : MsgOK a) : MsgOK (a ++ b) := by
  obtain ⟨h1, h2⟩ := h
  unfold MsgOK
  rw [String.toList_append]
  refine ⟨by rw [List.length_append]; omega, ?_⟩
  rw [List.take_append_of_le_length h1]
  exact h2

/-- a message that starts with the literal prefix of the model is not `MsgOK` -/
theorem not_msgOK_of_prefix (msg : String) (h : "include file not found: ".toList <+: msg.toList) : ¬ MsgOK msg := by
  intro hm
  obtain ⟨t, ht⟩ := h
  apply hm.2
  rw [← ht]
  rfl

theorem MsgOK.expectedFound (what : String) (t : Ty) : MsgOK (Bang.expectedFound what t) := by
  unfold Bang.expectedFound
  exact MsgOK.append_left _ (MsgOK.append_left _ (MsgOK.append_left _ (by decide +kernel)))

/-- closes `MsgOK msg` for a message of the model -/
macro "msg_ok" : tactic => `(tactic| first
  | with_reducible assumption
  | (with_reducible apply_assumption; done)
  | exact MsgOK.expectedFound _ _
  | ((try dsimp only); (repeat' with_reducible (apply MsgOK.append_left)) <;> with_unfolding_all decide +kernel))

end Ide
end Tg
