/-
C04 converse for whole statements — assembled: one theorem over the twelve statement forms, the top-level
theorem with the named hypotheses, and an evaluator for the examples.
-/
import TgModel.Lemmas.C04ConvN6

namespace Tg
namespace C04L
open Prog Grammar Frag Doc

local notation "rcv" => Tables.recoverTokens

/-- the twelve statement forms -/
inductive SForm where
  | incl | assert | cls | def_ | defm | defset | defvar | dump | foreach | if_ | let_ | multiclass
deriving DecidableEq, Repr

def SForm.fn : SForm → Fn
  | .incl => Fn.include
  | .assert => Fn.assert_
  | .cls => Fn.class_
  | .def_ => Fn.def_
  | .defm => Fn.defm
  | .defset => Fn.defset
  | .defvar => Fn.defvar
  | .dump => Fn.dump
  | .foreach => Fn.foreach
  | .if_ => Fn.if_
  | .let_ => Fn.let_
  | .multiclass => Fn.multi_class

def SForm.nt : SForm → NT
  | .incl => NT.Include_
  | .assert => NT.Assert_
  | .cls => NT.Class_
  | .def_ => NT.Def_
  | .defm => NT.Defm_
  | .defset => NT.Defset_
  | .defvar => NT.Defvar_
  | .dump => NT.Dump_
  | .foreach => NT.Foreach_
  | .if_ => NT.If_
  | .let_ => NT.Let_
  | .multiclass => NT.MultiClass_

/-- **converse for every statement form**: a clean run of the form's parser consumed a word that, under
the shape predicate, derives from the form's documented nonterminal in the extended grammar -/
theorem statement_form_converse (f : SForm) (input : List Char) (fuel : Nat) (s s' : PState) (hi : Inv input s)
    (h : exec defs rcv fuel (call f.fn) s = .ok s') (hclean : s'.errors = s.errors) :
    ∃ w, s.kinds = w ++ s'.kinds ∧ (Shape w → DS (.nt f.nt) w) := by
  have hc : Clean s s' := by unfold Clean; rw [hclean]; exact Nat.le_refl _
  have hS := stmtH_all input s.kinds.length
  cases f with
  | incl => exact conv_includeN fuel s s' h hc
  | assert =>
    obtain ⟨w, hk, hd⟩ := conv_assert input fuel s s' hi h hc
    exact ⟨w, hk, fun _ => DVN.ofDV hd⟩
  | cls => exact conv_classN input fuel s s' hi h hc
  | def_ => exact conv_def input fuel s s' hi h hc
  | defm =>
    obtain ⟨w, hk, hd⟩ := conv_defm input fuel s s' hi h hc
    exact ⟨w, hk, fun _ => hd⟩
  | defset => exact conv_defset input _ hS fuel s s' (Nat.le_refl _) hi h hc
  | defvar =>
    obtain ⟨w, hk, hd⟩ := conv_defvar input fuel s s' hi h hc
    exact ⟨w, hk, fun _ => DVN.ofDV hd⟩
  | dump =>
    obtain ⟨w, hk, hd⟩ := conv_dump input fuel s s' hi h hc
    exact ⟨w, hk, fun _ => DVN.ofDV hd⟩
  | foreach => exact conv_foreach input _ hS fuel s s' (Nat.le_refl _) hi h hc
  | if_ => exact conv_if input _ hS fuel s s' (Nat.le_refl _) hi h hc
  | let_ => exact conv_let input _ hS fuel s s' (Nat.le_refl _) hi h hc
  | multiclass => exact conv_multiclass input _ hS fuel s s' (Nat.le_refl _) hi h hc

/-- the top-level converse in the documented grammar itself, under the two named hypotheses -/
theorem source_file_converse_doc (hValueOK : ValueOK) (hNameOK : NameOK) (input : List Char) (r : ParseResult)
    (h : parse input = .ok r) (herr : r.errors = []) (hs : Shape (PState.init input).kinds) :
    Doc.Sentence (PState.init input).kinds :=
  DVN.collapse hValueOK hNameOK (source_file_converse input r h herr hs)

/-! ### evaluating `parse` (for the examples) -/

def acceptsClean (input : List Char) : Bool :=
  match parse input with
  | .ok r => r.errors.isEmpty
  | _ => false

theorem acceptsClean_spec {input : List Char} (h : acceptsClean input = true) :
    ∃ r, parse input = .ok r ∧ r.errors = [] := by
  unfold acceptsClean at h
  split at h
  · rename_i r hr
    exact ⟨r, hr, List.isEmpty_iff.mp h⟩
  · cases h

/-- the top-level converse applied to a concrete input -/
theorem source_file_on_input (input : List Char) (h : acceptsClean input = true)
    (hs : Shape (PState.init input).kinds) : DS (.nt .SourceFile_) (PState.init input).kinds := by
  obtain ⟨r, hr, he⟩ := acceptsClean_spec h
  exact source_file_converse input r hr he hs

end C04L
end Tg
