/-
Weakest-precondition style reasoning for `IxM = StateT IndexCtx (Except String)`:

`Holds m c Q` = "run from `c`, `m` does not throw (= the Rust code does not panic) and the result
and final state satisfy `Q`".
-/
import TgModel.Ide.Context

namespace Tg
namespace Ide

/-- total correctness of one run -/
def Holds {α : Type} (m : IxM α) (c : IndexCtx) (Q : α → IndexCtx → Prop) : Prop :=
  ∃ a c', m c = .ok (a, c') ∧ Q a c'

namespace Holds

variable {α β : Type} {c : IndexCtx}

theorem mono {m : IxM α} {Q Q' : α → IndexCtx → Prop} (h : Holds m c Q)
    (hq : ∀ a c', Q a c' → Q' a c') : Holds m c Q' := by
  obtain ⟨a, c', hm, hQ⟩ := h
  exact ⟨a, c', hm, hq a c' hQ⟩

theorem pure {a : α} {Q : α → IndexCtx → Prop} (h : Q a c) : Holds (Pure.pure a : IxM α) c Q :=
  ⟨a, c, rfl, h⟩

theorem bind {m : IxM α} {f : α → IxM β} {R : α → IndexCtx → Prop} {Q : β → IndexCtx → Prop}
    (hm : Holds m c R) (hf : ∀ a c', R a c' → Holds (f a) c' Q) : Holds (m >>= f) c Q := by
  obtain ⟨a, c', hm, hR⟩ := hm
  obtain ⟨b, c'', hf, hQ⟩ := hf a c' hR
  refine ⟨b, c'', ?_, hQ⟩
  show (StateT.bind m f) c = _
  simp only [StateT.bind]
  show (m c >>= _) = _
  rw [hm]
  exact hf

/-- `m` leaves the state alone and returns a value satisfying `R` -/
theorem bind_const {m : IxM α} {f : α → IxM β} {R : α → Prop} {Q : β → IndexCtx → Prop}
    (hm : Holds m c (fun a c' => c' = c ∧ R a)) (hf : ∀ a, R a → Holds (f a) c Q) : Holds (m >>= f) c Q :=
  bind hm (fun a c' h => by obtain ⟨rfl, hr⟩ := h; exact hf a hr)

theorem map {m : IxM α} {f : α → β} {Q : β → IndexCtx → Prop}
    (hm : Holds m c (fun a c' => Q (f a) c')) : Holds (f <$> m) c Q := by
  obtain ⟨a, c', hm, hQ⟩ := hm
  refine ⟨f a, c', ?_, hQ⟩
  show (StateT.map f m) c = _
  simp only [StateT.map]
  show (m c >>= _) = _
  rw [hm]; rfl

theorem get {Q : IndexCtx → IndexCtx → Prop} (h : Q c c) : Holds (MonadState.get : IxM IndexCtx) c Q :=
  ⟨c, c, rfl, h⟩

theorem getThe {Q : IndexCtx → IndexCtx → Prop} (h : Q c c) : Holds (getThe IndexCtx : IxM IndexCtx) c Q :=
  ⟨c, c, rfl, h⟩

theorem modifyGet {f : IndexCtx → α × IndexCtx} {Q : α → IndexCtx → Prop} (h : Q (f c).1 (f c).2) :
    Holds (MonadStateOf.modifyGet f : IxM α) c Q :=
  ⟨(f c).1, (f c).2, rfl, h⟩

theorem modifyGet' {f : IndexCtx → α × IndexCtx} {Q : α → IndexCtx → Prop} (h : Q (f c).1 (f c).2) :
    Holds (MonadState.modifyGet f : IxM α) c Q :=
  ⟨(f c).1, (f c).2, rfl, h⟩

theorem modify {f : IndexCtx → IndexCtx} {Q : Unit → IndexCtx → Prop} (h : Q () (f c)) :
    Holds (_root_.modify f : IxM Unit) c Q :=
  ⟨(), f c, rfl, h⟩

/-- elimination: a run that `Holds` is an `ok` run -/
theorem run_ok {m : IxM α} {Q : α → IndexCtx → Prop} (h : Holds m c Q) :
    ∃ a c', StateT.run m c = .ok (a, c') ∧ Q a c' := h

/-! ### loops -/

/-- postcondition of one loop-body run: `I` if the loop goes on, `Q` if the body breaks out -/
def stepPost {σ : Type} (I Q : σ → IndexCtx → Prop) : ForInStep σ → IndexCtx → Prop
  | .yield b, c => I b c
  | .done b, c => Q b c

/-- `for x in l do ..` with an invariant indexed by the number of elements already processed;
`Qd` is what must hold when the body breaks out of the loop (`ForInStep.done`) -/
theorem forIn_idx {σ : Type} {l : List α} {init : σ} {f : α → σ → IxM (ForInStep σ)}
    (I : Nat → σ → IndexCtx → Prop) (Q : σ → IndexCtx → Prop)
    (h0 : I 0 init c)
    (hstep : ∀ i (hi : i < l.length) b c1, I i b c1 →
      Holds (f l[i] b) c1 (stepPost (I (i + 1)) Q))
    (hend : ∀ b c1, I l.length b c1 → Q b c1) :
    Holds (forIn l init f) c Q := by
  suffices H : ∀ (k : Nat) (l' : List α) (hl : l = l.take k ++ l') (b : σ) (c1 : IndexCtx),
      k + l'.length = l.length → I k b c1 → Holds (forIn l' b f) c1 Q from
    H 0 l (by simp) init c (by simp) h0
  intro k l'
  induction l' generalizing k with
  | nil =>
    intro _ b c1 hk hI
    simp only [List.length_nil, Nat.add_zero] at hk
    subst hk
    exact ⟨b, c1, rfl, hend b c1 hI⟩
  | cons x xs ih =>
    intro hl b c1 hk hI
    simp only [List.length_cons] at hk
    have hlt : k < l.length := by omega
    have hx : l[k] = x := by
      have : l[k]? = some x := by
        conv => lhs; rw [hl]
        rw [List.getElem?_append_right (by simp; omega)]
        simp [List.length_take, Nat.min_eq_left (Nat.le_of_lt hlt)]
      simpa [List.getElem?_eq_getElem hlt] using this
    rw [List.forIn_cons]
    have hst := hstep k hlt b c1 hI
    rw [hx] at hst
    refine Holds.bind hst ?_
    intro s c2 hs
    cases s with
    | done b' => exact ⟨b', c2, rfl, hs⟩
    | yield b' =>
      refine ih (k + 1) ?_ b' c2 (by omega) hs
      rw [List.take_succ, List.getElem?_eq_getElem hlt, hx]
      simp only [Option.toList_some, List.append_assoc, List.singleton_append]
      exact hl

/-- `for x in l do ..` with a state invariant (membership form) -/
theorem forIn_mem {σ : Type} {l : List α} {init : σ} {f : α → σ → IxM (ForInStep σ)}
    (I : σ → IndexCtx → Prop) (h0 : I init c)
    (hstep : ∀ a ∈ l, ∀ b c1, I b c1 → Holds (f a b) c1 (fun s c2 => I s.value c2)) :
    Holds (forIn l init f) c I := by
  refine forIn_idx (fun _ => I) I h0 ?_ (fun _ _ h => h)
  intro i hi b c1 hI
  refine (hstep l[i] (List.getElem_mem hi) b c1 hI).mono ?_
  intro s c2 hs
  cases s <;> exact hs

/-- `l.mapM f` -/
theorem mapM {l : List α} {f : α → IxM β} (I : IndexCtx → Prop) (R : β → Prop) (h0 : I c)
    (hstep : ∀ a ∈ l, ∀ c1, I c1 → Holds (f a) c1 (fun b c2 => I c2 ∧ R b)) :
    Holds (l.mapM f) c (fun bs c2 => I c2 ∧ bs.length = l.length ∧ ∀ b ∈ bs, R b) := by
  induction l generalizing c with
  | nil => exact ⟨[], c, by simp [List.mapM_nil]; rfl, h0, rfl, by simp⟩
  | cons x xs ih =>
    rw [List.mapM_cons]
    refine Holds.bind (hstep x (by simp) c h0) ?_
    intro b c1 ⟨hI, hR⟩
    refine Holds.bind (ih hI (fun a ha => hstep a (by simp [ha]))) ?_
    intro bs c2 ⟨hI2, hlen, hbs⟩
    refine Holds.pure ⟨hI2, by simp [hlen], ?_⟩
    intro b' hb'
    simp only [List.mem_cons] at hb'
    rcases hb' with rfl | hb'
    · exact hR
    · exact hbs b' hb'

end Holds

/-! ### the primitives of `Context.lean` in functional form -/

theorem modifySM_run {α : Type} (f : SymMap → α × SymMap) (c : IndexCtx) :
    (modifySM f : IxM α) c = .ok ((f c.symbolMap).1, { c with symbolMap := (f c.symbolMap).2 }) := rfl

theorem Holds.modifySM {α : Type} {f : SymMap → α × SymMap} {c : IndexCtx} {Q : α → IndexCtx → Prop}
    (h : Q (f c.symbolMap).1 { c with symbolMap := (f c.symbolMap).2 }) : Holds (Ide.modifySM f) c Q :=
  ⟨_, _, modifySM_run f c, h⟩

theorem Holds.withSM {α : Type} {f : SymMap → α} {c : IndexCtx} {Q : α → IndexCtx → Prop}
    (h : Q (f c.symbolMap) c) : Holds (Ide.withSM f) c Q :=
  ⟨_, _, rfl, h⟩

end Ide
end Tg
