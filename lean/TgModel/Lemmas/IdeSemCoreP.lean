/-
The third core of `core_no_diagnostics_partial` (`Props/C13.lean`): parent class lists and `let`.

* `Record::find_field` along the class hierarchy: with parents older than their children (`OlderBelow`)
  the fuel of `findFieldGo` does not matter (`recordFindField_eq_ff`) and the lookup only reads the older
  records (`ff_agree`);
* the class table invariant: `Exact sm rid env` (the environment `env` answers exactly like `find_field`
  in the record `rid`), `TAsOK sm rid ps` (the template parameters of `rid`), `KInv cenv B sm` (every class
  of the static table `cenv` is registered in `nameToClass`, with exactly these parameters and fields),
  `PInv` (inside a record body), `TabInv` (between statements);
* the checker `coreStatementList3` and its soundness `indexStatementList3_quiet`.

The template parameters are carried along (`ps`) for `Lemmas/IdeSemCoreT.lean`; the checker of this file
only deals with classes that have none.
-/
import TgModel.Lemmas.IdeSemCore
import TgModel.Lemmas.IdeSemLive
import TgModel.Lemmas.Sem10List
namespace Tg
namespace Ide
open Index

/-! ### the types of fields and variables -/

/-- the types that fields and variables of the later cores have: primitive, or a list of primitives -/
def isCoreTy : Ty → Bool
  | .list e => isPrimTy e
  | .record _ _ => true
  | t => isPrimTy t

theorem isCoreTy_of_prim {t : Ty} (h : isPrimTy t = true) : isCoreTy t = true := by
  cases t <;> first | exact h | (simp [isPrimTy] at h)

theorem coreCast_sound (sm : SymMap) (a b : Ty) (ha : isCoreTy a = true) (h : litCastOk a b = true) :
    sm.canBeCastedTo a b = true := by
  cases a with
  | list e =>
    have he : isPrimTy e = true := ha
    unfold litCastOk at h
    unfold SymMap.canBeCastedTo
    cases b with
    | list b' =>
      have h' : litCastOk e b' = true := by
        unfold litCastOk
        simpa [Ty.canBeCastedTo] using h
      have := primCast_sound sm e b' he h'
      unfold SymMap.canBeCastedTo at this
      simpa [Ty.canBeCastedTo] using this
    | _ => first | rfl | (simp only [Ty.canBeCastedTo] at h ⊢; exact h)
  | record ra rn =>
    unfold litCastOk at h
    unfold SymMap.canBeCastedTo
    cases b with
    | record rb rm =>
      simp only [Ty.canBeCastedTo, Bool.or_false] at h
      simp only [Ty.canBeCastedTo, h, Bool.true_or]
    | _ => first | rfl | (simp only [Ty.canBeCastedTo] at h ⊢; exact h)
  | _ => exact primCast_sound sm _ b ha h

/-! ### `Record::find_field` along the class hierarchy -/

/-- parents are older than their children (below the bound `B`) -/
def OlderBelow (sm : SymMap) (B : Nat) : Prop :=
  ∀ i, i < B → ∀ p ∈ (sm.record i).parentList.toList, p < i

/-- the canonical lookup: enough fuel for the record `rid` -/
def ff (sm : SymMap) (name : String) (rid : Nat) : Option Nat := SymMap.findFieldGo sm name (rid + 1) rid

theorem findFieldGo_succ (sm : SymMap) (name : String) (fuel rid : Nat) :
    SymMap.findFieldGo sm name (fuel + 1) rid =
      match indexMapGet (sm.record rid).nameToRecordField name with
      | some f => some f
      | none => (sm.record rid).parentList.toList.findSome? fun p => SymMap.findFieldGo sm name fuel p := by
  conv => lhs; unfold SymMap.findFieldGo
  simp only
  cases h : indexMapGet (sm.record rid).nameToRecordField name with
  | some f => rfl
  | none => simp only; rw [← Array.findSome?_toList]

theorem findSome?_congr_mem {α β : Type} (l : List α) (f g : α → Option β) (h : ∀ x ∈ l, f x = g x) :
    l.findSome? f = l.findSome? g := by
  induction l with
  | nil => rfl
  | cons x t ih =>
    simp only [List.findSome?_cons, h x List.mem_cons_self]
    rw [ih (fun y hy => h y (List.mem_cons_of_mem _ hy))]

/-- with parents older than children, any fuel above the record's index gives the canonical result -/
theorem findFieldGo_enough (sm : SymMap) (name : String) (B : Nat) (ho : OlderBelow sm B) :
    ∀ rid, rid < B → ∀ fuel, rid + 1 ≤ fuel → SymMap.findFieldGo sm name fuel rid = ff sm name rid := by
  intro rid
  induction rid using Nat.strongRecOn with
  | ind rid ih =>
    intro hB fuel hf
    obtain ⟨f', rfl⟩ : ∃ f', fuel = f' + 1 := ⟨fuel - 1, by omega⟩
    unfold ff
    rw [findFieldGo_succ, findFieldGo_succ]
    cases indexMapGet (sm.record rid).nameToRecordField name with
    | some f => rfl
    | none =>
      simp only
      apply findSome?_congr_mem
      intro p hp
      have hlt := ho rid hB p hp
      rw [ih p hlt (by omega) f' (by omega), ih p hlt (by omega) rid (by omega)]

theorem recordFindField_eq_ff (sm : SymMap) (name : String) (ho : OlderBelow sm sm.recordList.size) (rid : Nat)
    (h : rid < sm.recordList.size) : sm.recordFindField rid name = ff sm name rid := by
  unfold SymMap.recordFindField SymMap.fieldFuel
  exact findFieldGo_enough sm name _ ho rid h _ (by omega)

/-- the canonical lookup only reads the field maps and the parent lists of the records up to `rid` -/
theorem ff_agree' (sm sm' : SymMap) (name : String) (B : Nat) (ho : OlderBelow sm B)
    (hag : ∀ i, i < B → (sm'.record i).nameToRecordField = (sm.record i).nameToRecordField ∧
      (sm'.record i).parentList = (sm.record i).parentList) :
    ∀ rid, rid < B → ff sm' name rid = ff sm name rid := by
  have ho' : OlderBelow sm' B := fun i hi p hp => by rw [(hag i hi).2] at hp; exact ho i hi p hp
  intro rid
  induction rid using Nat.strongRecOn with
  | ind rid ih =>
    intro hB
    unfold ff
    rw [findFieldGo_succ, findFieldGo_succ, (hag rid hB).1, (hag rid hB).2]
    cases indexMapGet (sm.record rid).nameToRecordField name with
    | some f => rfl
    | none =>
      simp only
      apply findSome?_congr_mem
      intro p hp
      have hlt := ho rid hB p hp
      rw [findFieldGo_enough sm' name B ho' p (by omega) rid (by omega),
        findFieldGo_enough sm name B ho p (by omega) rid (by omega)]
      exact ih p hlt (by omega)

theorem ff_agree (sm sm' : SymMap) (name : String) (B : Nat) (ho : OlderBelow sm B)
    (hag : ∀ i, i < B → sm'.record i = sm.record i) : ∀ rid, rid < B → ff sm' name rid = ff sm name rid :=
  ff_agree' sm sm' name B ho fun i hi => by rw [hag i hi]; exact ⟨rfl, rfl⟩

theorem ff_unfold (sm : SymMap) (name : String) (B : Nat) (ho : OlderBelow sm B) (rid : Nat) (h : rid < B) :
    ff sm name rid =
      match indexMapGet (sm.record rid).nameToRecordField name with
      | some f => some f
      | none => (sm.record rid).parentList.toList.findSome? (ff sm name) := by
  unfold ff
  rw [findFieldGo_succ]
  cases indexMapGet (sm.record rid).nameToRecordField name with
  | some f => rfl
  | none =>
    simp only
    apply findSome?_congr_mem
    intro p hp
    have hlt := ho rid h p hp
    exact findFieldGo_enough sm name B ho p (by omega) rid (by omega)


/-! ### environments of fields and of classes -/

/-- the environment `env` describes exactly what `find_field` answers in the record `rid` -/
def Exact (sm : SymMap) (rid : Nat) (env : Env) : Prop :=
  ∀ name : String,
    match env.get name with
    | some t => isCoreTy t = true ∧ ∃ fid, ff sm name rid = some fid ∧ fid < sm.recordFieldList.size ∧
        (sm.recordField fid).typ = t
    | none => ff sm name rid = none

/-- template parameters: name, type, has a default value -/
abbrev Params := List (String × Ty × Bool)

/-- the parameters as identifiers in scope -/
def Params.env (ps : Params) : Env := ps.map fun p => (p.1, p.2.1)

/-- the parameters `ps` describe exactly the template arguments of the record `rid`, in order -/
structure TAsOK (sm : SymMap) (rid : Nat) (ps : Params) : Prop where
  tab : (sm.record rid).nameToTemplateArg.toList.map
      (fun e => (e.1, (sm.templateArg e.2).name, (sm.templateArg e.2).typ, (sm.templateArg e.2).hasDefaultValue)) =
    ps.map fun p => (p.1, p.1, p.2.1, p.2.2)
  ids : ∀ e ∈ (sm.record rid).nameToTemplateArg.toList, e.2 < sm.templateArgList.size
  nodup : (ps.map (·.1)).Nodup
  prim : ∀ p ∈ ps, isPrimTy p.2.1 = true

/-- the classes declared so far: name, and the template parameters and the fields of the class (`none`: the
name is shadowed - the class whose body is being indexed) ; the first entry of a name counts -/
abbrev CEnv := List (String × Option (Params × Env))

def CEnv.get (cenv : CEnv) (cname : String) : Option (Params × Env) := (cenv.find? fun e => e.1 == cname).bind (·.2)

/-- the class table: parents are older than children, and every class of `cenv` is registered under
its name, lies below `B`, has exactly the template parameters and the fields `cenv` lists -/
structure KInv (cenv : CEnv) (B : Nat) (sm : SymMap) : Prop where
  older : OlderBelow sm sm.recordList.size
  bound : B ≤ sm.recordList.size
  classes : ∀ cname ps flds, cenv.get cname = some (ps, flds) → ∃ cid, sm.nameToClass[cname]? = some cid ∧ cid < B ∧
    TAsOK sm cid ps ∧ Exact sm cid flds

theorem Env.get_append (e1 e2 : Env) (name : String) :
    Env.get (e1 ++ e2) name = match e1.get name with | some t => some t | none => e2.get name := by
  unfold Env.get
  rw [List.find?_append]
  cases e1.find? (fun e => e.1 == name) <;> rfl

/-- transport of `Exact` to a symbol map that agrees on the records up to `rid` and keeps the fields -/
theorem Exact.transport {sm sm' : SymMap} {rid : Nat} {env : Env} (h : Exact sm rid env) (B : Nat) (hrid : rid < B)
    (ho : OlderBelow sm B) (hag : ∀ i, i < B → sm'.record i = sm.record i)
    (hsz : sm.recordFieldList.size ≤ sm'.recordFieldList.size)
    (hf : ∀ i, i < sm.recordFieldList.size → sm'.recordField i = sm.recordField i) : Exact sm' rid env := by
  intro name
  have := h name
  rw [ff_agree sm sm' name B ho hag rid hrid]
  cases hg : env.get name with
  | none => rw [hg] at this; exact this
  | some t =>
    rw [hg] at this
    obtain ⟨hp, fid, h1, h2, h3⟩ := this
    exact ⟨hp, fid, h1, Nat.lt_of_lt_of_le h2 hsz, by rw [hf fid h2]; exact h3⟩

theorem Exact.transport' {sm sm' : SymMap} {rid : Nat} {env : Env} (h : Exact sm rid env) (B : Nat) (hrid : rid < B)
    (ho : OlderBelow sm B)
    (hag : ∀ i, i < B → (sm'.record i).nameToRecordField = (sm.record i).nameToRecordField ∧
      (sm'.record i).parentList = (sm.record i).parentList)
    (hsz : sm.recordFieldList.size ≤ sm'.recordFieldList.size)
    (hf : ∀ i, i < sm.recordFieldList.size → sm'.recordField i = sm.recordField i) : Exact sm' rid env := by
  intro name
  have := h name
  rw [ff_agree' sm sm' name B ho hag rid hrid]
  cases hg : env.get name with
  | none => rw [hg] at this; exact this
  | some t =>
    rw [hg] at this
    obtain ⟨hp, fid, h1, h2, h3⟩ := this
    exact ⟨hp, fid, h1, Nat.lt_of_lt_of_le h2 hsz, by rw [hf fid h2]; exact h3⟩

theorem OlderBelow.transport {sm sm' : SymMap} {B : Nat} (ho : OlderBelow sm B)
    (hag : ∀ i, i < B → sm'.record i = sm.record i) : OlderBelow sm' B :=
  fun i hi p hp => by rw [hag i hi] at hp; exact ho i hi p hp

theorem TAsOK.transport {sm sm' : SymMap} {rid : Nat} {ps : Params} (h : TAsOK sm rid ps)
    (hag : (sm'.record rid).nameToTemplateArg = (sm.record rid).nameToTemplateArg)
    (hsz : sm.templateArgList.size ≤ sm'.templateArgList.size)
    (hta : ∀ i, i < sm.templateArgList.size → sm'.templateArg i = sm.templateArg i) : TAsOK sm' rid ps := by
  refine ⟨?_, fun e he => ?_, h.nodup, h.prim⟩
  · rw [hag, ← h.tab]
    apply List.map_congr_left
    intro e he
    rw [hta e.2 (h.ids e he)]
  · rw [hag] at he
    exact Nat.lt_of_lt_of_le (h.ids e he) hsz

theorem TAsOK.nil_noTA {sm : SymMap} {rid : Nat} (h : TAsOK sm rid []) : (sm.record rid).nameToTemplateArg = #[] := by
  have := h.tab
  simp only [List.map_nil, List.map_eq_nil_iff] at this
  exact Array.toList_eq_nil_iff.1 this

theorem TAsOK.of_noTA {sm : SymMap} {rid : Nat} (h : (sm.record rid).nameToTemplateArg = #[]) : TAsOK sm rid [] := by
  refine ⟨by rw [h]; rfl, fun e he => ?_, List.nodup_nil, fun p hp => by cases hp⟩
  rw [h] at he
  cases he

/-- transport of the class table when only records at or above `B` change and `nameToClass` is kept
(or extended by names that `cenv` does not mention) -/
theorem KInv.transport {cenv : CEnv} {B : Nat} {sm sm' : SymMap} (h : KInv cenv B sm)
    (hsize : sm.recordList.size ≤ sm'.recordList.size) (hold : OlderBelow sm' sm'.recordList.size)
    (hag : ∀ i, i < B → sm'.record i = sm.record i)
    (hsz : sm.recordFieldList.size ≤ sm'.recordFieldList.size)
    (hf : ∀ i, i < sm.recordFieldList.size → sm'.recordField i = sm.recordField i)
    (htsz : sm.templateArgList.size ≤ sm'.templateArgList.size)
    (hta : ∀ i, i < sm.templateArgList.size → sm'.templateArg i = sm.templateArg i)
    (hcls : ∀ cname e, cenv.get cname = some e → sm'.nameToClass[cname]? = sm.nameToClass[cname]?) :
    KInv cenv B sm' := by
  refine ⟨hold, Nat.le_trans h.bound hsize, fun cname ps flds hg => ?_⟩
  obtain ⟨cid, h1, h2, h3, h4⟩ := h.classes cname ps flds hg
  have hoB : OlderBelow sm B := fun i hi => h.older i (Nat.lt_of_lt_of_le hi h.bound)
  exact ⟨cid, by rw [hcls cname _ hg]; exact h1, h2, h3.transport (by rw [hag cid h2]) htsz hta,
    h4.transport B h2 hoB hag hsz hf⟩


/-! ### variables in scope -/

/-- the lookup that `Scopes::find_local` performs in one scope -/
def scopeLookup (sm : SymMap) (name : String) (scope : Scope) : Option SymbolId :=
  match scope.findVariable name with
  | some id => some (.var id)
  | none =>
    let viaRecord : Option SymbolId :=
      match scope.recordId with
      | some recordId =>
        match sm.recordFindField recordId name with
        | some fieldId => some (.recordField fieldId)
        | none =>
          match SymMap.recordFindTemplateArg (sm.record recordId) name with
          | some t => some (.templateArgument t)
          | none => none
      | none => none
    match viaRecord with
    | some r => some r
    | none =>
      match scope.multiclassId with
      | some mcId =>
        match SymMap.multiclassFindTemplateArg (sm.multiclass mcId) name with
        | some t => some (.templateArgument t)
        | none => none
      | none => none

theorem findLocal_eq (s : Scopes) (sm : SymMap) (name : String) :
    s.findLocal sm name = s.scopes.findSome? (scopeLookup sm name) := rfl

/-- the variables of the scope `sc` are exactly those of `venv` (`defvar`s, with the types of their values) -/
def VarsOK (sm : SymMap) (sc : Scope) (venv : Env) : Prop :=
  ∀ name : String,
    match venv.get name with
    | some t => isCoreTy t = true ∧ ∃ vid v, sc.nameToVariable[name]? = some vid ∧ sm.variableList[vid]? = some v ∧ v.typ = t
    | none => sc.nameToVariable[name]? = none

/-- what the outer scopes answer for the names of `gv`: a variable of the listed type -/
def OuterOK (sm : SymMap) (rest : List Scope) (gv : Env) : Prop :=
  ∀ name t, gv.get name = some t → isCoreTy t = true ∧
    ∃ vid v, (∀ sm' : SymMap, rest.findSome? (scopeLookup sm' name) = some (.var vid)) ∧
      sm.variableList[vid]? = some v ∧ v.typ = t

theorem OuterOK.nil (sm : SymMap) (rest : List Scope) : OuterOK sm rest [] := by
  intro name t h
  simp [Env.get] at h

theorem VarsOK.nil (sm : SymMap) (sc : Scope) (h : ∀ k : String, sc.nameToVariable[k]? = none) : VarsOK sm sc [] := by
  intro name
  simp only [Env.get, List.find?_nil, Option.map_none]
  exact h name

theorem VarsOK.mono {sm sm' : SymMap} {sc : Scope} {venv : Env} (h : VarsOK sm sc venv)
    (hk : ∀ (i : Nat) x, sm.variableList[i]? = some x → sm'.variableList[i]? = some x) : VarsOK sm' sc venv := by
  intro name
  have := h name
  cases hg : venv.get name with
  | none => rw [hg] at this; exact this
  | some t =>
    rw [hg] at this
    obtain ⟨hp, vid, v, h1, h2, h3⟩ := this
    exact ⟨hp, vid, v, h1, hk _ _ h2, h3⟩

theorem OuterOK.mono {sm sm' : SymMap} {rest : List Scope} {gv : Env} (h : OuterOK sm rest gv)
    (hk : ∀ (i : Nat) x, sm.variableList[i]? = some x → sm'.variableList[i]? = some x) : OuterOK sm' rest gv := by
  intro name t hg
  obtain ⟨hp, vid, v, h1, h2, h3⟩ := h name t hg
  exact ⟨hp, vid, v, h1, hk _ _ h2, h3⟩

/-! ### static record ids of the classes -/

/-- the record ids of the classes declared so far (`none`: the name is shadowed), the first entry of a name counts -/
abbrev XTab := List (String × Option Nat)

def XTab.get (xt : XTab) (name : String) : Option Nat := (xt.find? fun e => e.1 == name).bind (·.2)

/-- the classes of `xt` are registered under their names with these ids, below `B` -/
def XInv (xt : XTab) (B : Nat) (sm : SymMap) : Prop :=
  ∀ name id, xt.get name = some id → sm.nameToClass[name]? = some id ∧ id < B

theorem XInv.nil (B : Nat) (sm : SymMap) : XInv [] B sm := by
  intro name id h
  simp [XTab.get] at h

theorem XInv.mono {xt : XTab} {B B' : Nat} {sm sm' : SymMap} (h : XInv xt B sm) (hB : B ≤ B')
    (hn : ∀ name id, xt.get name = some id → sm'.nameToClass[name]? = sm.nameToClass[name]?) : XInv xt B' sm' :=
  fun name id hg => ⟨by rw [hn name id hg]; exact (h name id hg).1, Nat.lt_of_lt_of_le (h name id hg).2 hB⟩

theorem XTab.get_cons (xt : XTab) (name : String) (e : Option Nat) (nm : String) :
    XTab.get ((name, e) :: xt) nm = if nm = name then e else xt.get nm := by
  unfold XTab.get
  simp only [List.find?_cons]
  by_cases h : nm = name
  · subst h; simp
  · have : (name == nm) = false := by simpa using fun e => h e.symm
    simp [h, this]

/-! ### defs and the class hierarchy -/

/-- `a` is an ancestor of the record `i`, with the fuel that `i` needs -/
def SubFact (sm : SymMap) (a i : Nat) : Prop := SymMap.isSubclassOfGo sm a (i + 1) i = true

theorem isSubclassOfGo_succ (sm : SymMap) (a fuel rid : Nat) :
    SymMap.isSubclassOfGo sm a (fuel + 1) rid =
      ((sm.record rid).parentList.contains a || (sm.record rid).parentList.any fun p => SymMap.isSubclassOfGo sm a fuel p) := by
  conv => lhs; unfold SymMap.isSubclassOfGo

theorem isSubclassOfGo_mono (sm : SymMap) (a : Nat) : ∀ (fuel fuel' rid : Nat), fuel ≤ fuel' →
    SymMap.isSubclassOfGo sm a fuel rid = true → SymMap.isSubclassOfGo sm a fuel' rid = true := by
  intro fuel
  induction fuel with
  | zero => intro fuel' rid _ h; simp [SymMap.isSubclassOfGo] at h
  | succ n ih =>
    intro fuel' rid hle h
    obtain ⟨m, rfl⟩ : ∃ m, fuel' = m + 1 := ⟨fuel' - 1, by omega⟩
    rw [isSubclassOfGo_succ] at h ⊢
    simp only [Bool.or_eq_true, Array.any_eq_true'] at h ⊢
    rcases h with h | ⟨p, hp, hh⟩
    · exact Or.inl h
    · exact Or.inr ⟨p, hp, ih m p (by omega) hh⟩

/-- the walk only reads the parent lists of the records it reaches -/
theorem isSubclassOfGo_agree (sm sm' : SymMap) (a B : Nat) (ho : OlderBelow sm B)
    (hag : ∀ i, i < B → (sm'.record i).parentList = (sm.record i).parentList) : ∀ (fuel rid : Nat), rid < B →
    SymMap.isSubclassOfGo sm' a fuel rid = SymMap.isSubclassOfGo sm a fuel rid := by
  intro fuel
  induction fuel with
  | zero => intro rid _; rfl
  | succ n ih =>
    intro rid hr
    rw [isSubclassOfGo_succ, isSubclassOfGo_succ, hag rid hr]
    congr 1
    rw [Bool.eq_iff_iff]
    simp only [Array.any_eq_true']
    constructor
    · rintro ⟨p, hp, hh⟩
      exact ⟨p, hp, by rw [← ih p (by have := ho rid hr p (Array.mem_toList_iff.2 hp); omega)]; exact hh⟩
    · rintro ⟨p, hp, hh⟩
      exact ⟨p, hp, by rw [ih p (by have := ho rid hr p (Array.mem_toList_iff.2 hp); omega)]; exact hh⟩

theorem SubFact.isSubclassOf {sm : SymMap} {a i : Nat} (h : SubFact sm a i) (hi : i < sm.recordList.size) :
    sm.isSubclassOf i a = true :=
  isSubclassOfGo_mono sm a (i + 1) sm.fieldFuel i (by unfold SymMap.fieldFuel; omega) h

/-- the record ids of the defs by name (`none`: shadowed), the ancestors of records by id, and the ancestors collected
so far for the record whose body is being indexed -/
structure DTabs where
  defs : XTab := []
  anc : List (Nat × List Nat) := []
  own : List Nat := []

def ancGet (l : List (Nat × List Nat)) (i : Nat) : Option (List Nat) := (l.find? fun e => e.1 == i).map (·.2)

/-- the tables are right about the symbol map: the defs of `dt.defs` are registered under their names (ids up to `B`),
the listed ancestors are ancestors (`SubFact`), and `dt.own` are ancestors of the record `B` itself -/
structure DInv (dt : DTabs) (B : Nat) (sm : SymMap) : Prop where
  names : ∀ name id, dt.defs.get name = some id → sm.nameToDef[name]? = some id ∧ id ≤ B ∧ (sm.record id).kind = .def_
  ancs : ∀ i as, ancGet dt.anc i = some as → i < B ∧ ∀ a ∈ as, SubFact sm a i
  own : ∀ a ∈ dt.own, SubFact sm a B

theorem DInv.nil (B : Nat) (sm : SymMap) : DInv {} B sm :=
  ⟨fun name id h => by simp [XTab.get] at h, fun i as h => by simp [ancGet] at h, fun a h => by cases h⟩

/-- transport when the parent lists and kinds of the records up to `B` and the names of the table are kept -/
theorem DInv.transport {dt : DTabs} {B : Nat} {sm sm' : SymMap} (h : DInv dt B sm) (ho : OlderBelow sm (B + 1))
    (hpl : ∀ i, i < B + 1 → (sm'.record i).parentList = (sm.record i).parentList)
    (hkind : ∀ i, i < B + 1 → (sm'.record i).kind = (sm.record i).kind)
    (hnd : ∀ name id, dt.defs.get name = some id → sm'.nameToDef[name]? = sm.nameToDef[name]?) : DInv dt B sm' := by
  refine ⟨fun name id hg => ?_, fun i as hg => ?_, fun a ha => ?_⟩
  · obtain ⟨h1, h2, h3⟩ := h.names name id hg
    exact ⟨by rw [hnd name id hg]; exact h1, h2, by rw [hkind id (by omega)]; exact h3⟩
  · obtain ⟨h1, h2⟩ := h.ancs i as hg
    refine ⟨h1, fun a ha => ?_⟩
    unfold SubFact
    rw [isSubclassOfGo_agree sm sm' a (B + 1) ho hpl (i + 1) i (by omega)]
    exact h2 a ha
  · unfold SubFact
    rw [isSubclassOfGo_agree sm sm' a (B + 1) ho hpl (B + 1) B (by omega)]
    exact h.own a ha

/-- one more (last) parent `cid` of the record `B`: the old facts stay, and `cid` and its ancestors are ancestors now -/
theorem DInv.push {dt : DTabs} {B : Nat} {sm sm' : SymMap} (h : DInv dt B sm) (ho : OlderBelow sm (B + 1))
    (hpl : ∀ i, i < B → (sm'.record i).parentList = (sm.record i).parentList)
    (hkind : ∀ i, i < B + 1 → (sm'.record i).kind = (sm.record i).kind)
    (hnd : ∀ name id, dt.defs.get name = some id → sm'.nameToDef[name]? = sm.nameToDef[name]?)
    (cid : Nat) (hcid : cid < B) (hB : (sm'.record B).parentList = (sm.record B).parentList.push cid)
    (extra : List Nat) (hextra : ∀ a ∈ extra, a = cid ∨ SubFact sm a cid) :
    DInv { dt with own := dt.own ++ extra } B sm' := by
  have hoB : OlderBelow sm B := fun i hi => ho i (by omega)
  have hagree : ∀ a fuel i, i < B → SymMap.isSubclassOfGo sm' a fuel i = SymMap.isSubclassOfGo sm a fuel i :=
    fun a fuel i hi => isSubclassOfGo_agree sm sm' a B hoB hpl fuel i hi
  refine ⟨fun name id hg => ?_, fun i as hg => ?_, fun a ha => ?_⟩
  · obtain ⟨h1, h2, h3⟩ := h.names name id hg
    exact ⟨by rw [hnd name id hg]; exact h1, h2, by rw [hkind id (by omega)]; exact h3⟩
  · obtain ⟨h1, h2⟩ := h.ancs i as hg
    refine ⟨h1, fun a ha => ?_⟩
    unfold SubFact
    rw [hagree a (i + 1) i h1]
    exact h2 a ha
  · unfold SubFact
    rw [isSubclassOfGo_succ, hB]
    simp only [Bool.or_eq_true, Array.any_eq_true']
    rcases List.mem_append.1 ha with ha | ha
    · have hold := h.own a ha
      unfold SubFact at hold
      rw [isSubclassOfGo_succ] at hold
      simp only [Bool.or_eq_true, Array.any_eq_true'] at hold
      rcases hold with hc | ⟨p, hp, hh⟩
      · left
        rw [Array.contains_iff_mem] at hc ⊢
        exact Array.mem_push_of_mem _ hc
      · right
        have hpB : p < B := ho B (by omega) p (Array.mem_toList_iff.2 hp)
        exact ⟨p, Array.mem_push_of_mem _ hp, by rw [hagree a B p hpB]; exact hh⟩
    · rcases hextra a ha with rfl | hs
      · left
        rw [Array.contains_iff_mem]
        exact Array.mem_push_self
      · right
        refine ⟨cid, Array.mem_push_self, ?_⟩
        rw [hagree a B cid hcid]
        exact isSubclassOfGo_mono sm a (cid + 1) B cid (by omega) hs

/-! ### the invariant inside a record body -/

structure PInv (cenv : CEnv) (N : Std.HashMap String Nat) (rid : Nat) (ps : Params) (bv gv : Env) (outer : List Scope) (xt : XTab) (dt : DTabs) (env : Env) (c : IndexCtx) : Prop where
  k : KInv cenv rid c.symbolMap
  top : ∃ sc, c.scopes.scopes = sc :: outer ∧ sc.kind = .record rid ∧ VarsOK c.symbolMap sc bv ∧
    OuterOK c.symbolMap outer gv
  newest : rid + 1 = c.symbolMap.recordList.size
  exact : Exact c.symbolMap rid env
  tas : TAsOK c.symbolMap rid ps
  trace : c.fileTrace ≠ []
  ntc : c.symbolMap.nameToClass = N
  x : XInv xt rid c.symbolMap
  d : DInv dt rid c.symbolMap

theorem PInv.currentRecordId {cenv : CEnv} {N : Std.HashMap String Nat} {rid : Nat} {ps : Params} {bv gv : Env} {outer : List Scope} {xt : XTab} {dt : DTabs} {env : Env} {c : IndexCtx} (h : PInv cenv N rid ps bv gv outer xt dt env c) :
    c.scopes.currentRecordId = some rid := by
  obtain ⟨sc, hs, hk, _⟩ := h.top
  unfold Scopes.currentRecordId
  rw [hs]
  simp [Scope.recordId, hk]

theorem PInv.find {cenv : CEnv} {N : Std.HashMap String Nat} {rid : Nat} {ps : Params} {bv gv : Env} {outer : List Scope} {xt : XTab} {dt : DTabs} {env : Env} {c : IndexCtx} (h : PInv cenv N rid ps bv gv outer xt dt env c) (name : String) :
    c.symbolMap.recordFindField rid name = ff c.symbolMap name rid :=
  recordFindField_eq_ff _ _ h.k.older rid (by have := h.newest; omega)

theorem PInv.older1 {cenv : CEnv} {N : Std.HashMap String Nat} {rid : Nat} {ps : Params} {bv gv : Env} {outer : List Scope} {xt : XTab} {dt : DTabs} {env : Env} {c : IndexCtx} (h : PInv cenv N rid ps bv gv outer xt dt env c) :
    OlderBelow c.symbolMap (rid + 1) := by
  have := h.k.older
  rw [← h.newest] at this
  exact this

/-- declaring the field `name : ty` of the record (a new field entry, registered in the record's own map) -/
theorem PInv.declare {cenv : CEnv} {N : Std.HashMap String Nat} {rid : Nat} {ps : Params} {bv gv : Env} {outer : List Scope} {xt : XTab} {dt : DTabs} {env env' : Env} {c : IndexCtx} (h : PInv cenv N rid ps bv gv outer xt dt env c)
    (name : String) (ty : Ty) (hty : isCoreTy ty = true) (loc : FileRange)
    (henv : ∀ n, env'.get n = if n = name then some ty else env.get n) :
    PInv cenv N rid ps bv gv outer xt dt env' (withField c rid ⟨name, ty, rid, loc⟩) := by
  have hrid : rid < c.symbolMap.recordList.size := by have := h.newest; omega
  have hrl : (withField c rid ⟨name, ty, rid, loc⟩).symbolMap.recordList =
      c.symbolMap.recordList.modify rid fun rec =>
        { rec with nameToRecordField := indexMapInsert rec.nameToRecordField name c.symbolMap.recordFieldList.size } := rfl
  have hfl : (withField c rid ⟨name, ty, rid, loc⟩).symbolMap.recordFieldList =
      c.symbolMap.recordFieldList.push ⟨name, ty, rid, loc⟩ := rfl
  have hrec : ∀ i, i < c.symbolMap.recordList.size →
      (withField c rid ⟨name, ty, rid, loc⟩).symbolMap.record i =
        (if rid = i then { (c.symbolMap.record i) with nameToRecordField := (indexMapInsert (c.symbolMap.record i).nameToRecordField name c.symbolMap.recordFieldList.size) }
        else c.symbolMap.record i) := by
    intro i hi
    show (Array.modify c.symbolMap.recordList rid _)[i]! = _
    rw [sGetElem!_modify _ _ _ _ hi]
    rfl
  have hag : ∀ i, i < rid → (withField c rid ⟨name, ty, rid, loc⟩).symbolMap.record i = c.symbolMap.record i := by
    intro i hi
    rw [hrec i (by omega), if_neg (by omega)]
  have hsize : (withField c rid ⟨name, ty, rid, loc⟩).symbolMap.recordList.size = c.symbolMap.recordList.size := by
    rw [hrl, Array.size_modify]
  have hfld : ∀ i, i < c.symbolMap.recordFieldList.size →
      (withField c rid ⟨name, ty, rid, loc⟩).symbolMap.recordField i = c.symbolMap.recordField i := by
    intro i hi
    show (c.symbolMap.recordFieldList.push _)[i]! = _
    exact sGetElem!_push_lt _ _ _ hi
  have hold : OlderBelow (withField c rid ⟨name, ty, rid, loc⟩).symbolMap
      (withField c rid ⟨name, ty, rid, loc⟩).symbolMap.recordList.size := by
    intro i hi p hp
    rw [hsize] at hi
    rw [hrec i hi] at hp
    split at hp
    · exact h.k.older i hi p hp
    · exact h.k.older i hi p hp
  refine ⟨?_, h.top, by rw [hsize]; exact h.newest, ?_, ?_, h.trace, h.ntc, h.x,
    h.d.transport h.older1 (fun i hi => by rw [hrec i (by omega)]; split <;> rfl)
      (fun i hi => by rw [hrec i (by omega)]; split <;> rfl) (fun _ _ _ => rfl)⟩
  · exact h.k.transport (Nat.le_of_eq hsize.symm) hold hag (by rw [hfl]; simp) hfld (Nat.le_refl _) (fun _ _ => rfl)
      (fun _ _ _ => rfl)
  · intro n
    have hunf := ff_unfold _ n _ hold rid (by rw [hsize]; exact hrid)
    have hunf0 := ff_unfold _ n _ h.k.older rid hrid
    rw [hrec rid hrid, if_pos rfl] at hunf
    simp only at hunf
    rw [indexMapGet_insert] at hunf
    rw [henv n]
    by_cases hn : n = name
    · subst hn
      simp only [if_true] at hunf ⊢
      refine ⟨hty, _, hunf, by rw [hfl]; simp, ?_⟩
      show ((c.symbolMap.recordFieldList.push _)[c.symbolMap.recordFieldList.size]!).typ = ty
      rw [getElem!_push_size]
    · simp only [hn, if_false] at hunf ⊢
      have hpar : (c.symbolMap.record rid).parentList.toList.findSome?
            (ff (withField c rid ⟨name, ty, rid, loc⟩).symbolMap n) =
          (c.symbolMap.record rid).parentList.toList.findSome? (ff c.symbolMap n) := by
        apply findSome?_congr_mem
        intro p hp
        have hlt := h.k.older rid hrid p hp
        exact ff_agree c.symbolMap _ n rid (fun i hi => h.k.older i (by omega)) hag p hlt
      have heq : ff (withField c rid ⟨name, ty, rid, loc⟩).symbolMap n rid = ff c.symbolMap n rid := by
        rw [hunf, hunf0, hpar]
      rw [heq]
      have := h.exact n
      cases hg : env.get n with
      | none => rw [hg] at this; exact this
      | some t =>
        rw [hg] at this
        obtain ⟨hp, fid, h1, h2, h3⟩ := this
        exact ⟨hp, fid, h1, by rw [hfl]; simp; omega, by rw [hfld fid h2]; exact h3⟩
  · exact h.tas.transport (by rw [hrec rid hrid, if_pos rfl]) (Nat.le_refl _) (fun _ _ => rfl)

theorem PInv.addReference {cenv : CEnv} {N : Std.HashMap String Nat} {rid : Nat} {ps : Params} {bv gv : Env} {outer : List Scope} {xt : XTab} {dt : DTabs} {env : Env} {c : IndexCtx} (h : PInv cenv N rid ps bv gv outer xt dt env c)
    (s : SymbolId) (loc : FileRange) : PInv cenv N rid ps bv gv outer xt dt env (c.setSM (c.symbolMap.addReference s loc)) :=
  ⟨h.k.transport (Nat.le_refl _) h.k.older (fun _ _ => rfl) (Nat.le_refl _) (fun _ _ => rfl) (Nat.le_refl _)
      (fun _ _ => rfl) (fun _ _ _ => rfl),
    h.top, h.newest,
    h.exact.transport (rid + 1) (Nat.lt_succ_self _) (fun i hi => h.k.older i (by have := h.newest; omega)) (fun _ _ => rfl) (Nat.le_refl _) (fun _ _ => rfl),
    h.tas.transport rfl (Nat.le_refl _) (fun _ _ => rfl), h.trace, h.ntc, h.x,
    h.d.transport h.older1 (fun _ _ => rfl) (fun _ _ => rfl) (fun _ _ _ => rfl)⟩

theorem PInv.findLocal {cenv : CEnv} {N : Std.HashMap String Nat} {rid : Nat} {ps : Params} {bv gv : Env} {outer : List Scope} {xt : XTab} {dt : DTabs} {env : Env} {c : IndexCtx}
    (h : PInv cenv N rid ps bv gv outer xt dt env c) (name : String) (t : Ty) (hb : bv.get name = none) (hg : env.get name = some t) :
    isCoreTy t = true ∧ ∃ fid, c.symbolMap.recordFindField rid name = some fid ∧
      c.scopes.findLocal c.symbolMap name = some (.recordField fid) ∧ (c.symbolMap.recordField fid).typ = t := by
  obtain ⟨sc, hs, hk, hv0, _⟩ := h.top
  have hv : sc.nameToVariable[name]? = none := by have := hv0 name; rw [hb] at this; exact this
  have := h.exact name
  rw [hg] at this
  obtain ⟨hp, fid, hf, _, ht⟩ := this
  rw [← h.find name] at hf
  refine ⟨hp, fid, hf, ?_, ht⟩
  unfold Scopes.findLocal
  rw [hs]
  simp only [List.findSome?_cons]
  have h1 : sc.findVariable name = none := by
    unfold Scope.findVariable
    simp [hv, hk]
  simp only [h1, Scope.recordId, hk, hf]

/-- a field in scope, as `find_field` sees it (the target of a `let`) -/
theorem PInv.fieldOf {cenv : CEnv} {N : Std.HashMap String Nat} {rid : Nat} {ps : Params} {bv gv : Env} {outer : List Scope} {xt : XTab} {dt : DTabs} {env : Env} {c : IndexCtx}
    (h : PInv cenv N rid ps bv gv outer xt dt env c) (name : String) (t : Ty) (hg : env.get name = some t) :
    isCoreTy t = true ∧ ∃ fid, c.symbolMap.recordFindField rid name = some fid ∧ (c.symbolMap.recordField fid).typ = t := by
  have := h.exact name
  rw [hg] at this
  obtain ⟨hp, fid, hf, _, ht⟩ := this
  rw [← h.find name] at hf
  exact ⟨hp, fid, hf, ht⟩

/-- the run of the identifier site on a name that the innermost scopes resolve to a template argument -/
theorem indexIdentifierValue_ta (id : PTree) (c : IndexCtx) (f : Nat) (rest : List Nat) (hft : c.fileTrace = f :: rest)
    (name : String) (loc : FileRange) (hid : identOf f id = some (name, loc)) (tid : Nat)
    (hres : c.scopes.findLocal c.symbolMap name = some (.templateArgument tid)) :
    (indexIdentifierValue id).run c =
      .ok (some (c.symbolMap.templateArg tid).typ, c.setSM (c.symbolMap.addReference (.templateArgument tid) loc)) := by
  unfold indexIdentifierValue resolveId
  simp only [StateT.run_bind, utilsIdentifier_runOf id c f rest hft, hid, Except.ok_bind, IxM.run_get, hres]
  rfl

theorem ta_lookup (info : Nat → String × Ty × Bool) (l : List (String × Nat)) (ps : Params)
    (h : l.map (fun e => (e.1, info e.2)) = ps.map (fun p => (p.1, p.1, p.2.1, p.2.2))) (name : String) (t : Ty)
    (hg : ps.env.get name = some t) :
    ∃ tid, (l.find? (fun e => e.1 == name)).map (·.2) = some tid ∧ (info tid).2.1 = t ∧
      ∃ p ∈ ps, p.2.1 = t := by
  induction l generalizing ps with
  | nil =>
    cases ps with
    | nil => simp [Params.env, Env.get] at hg
    | cons p ps => simp at h
  | cons e l ih =>
    cases ps with
    | nil => simp at h
    | cons p ps =>
      simp only [List.map_cons, List.cons.injEq] at h
      obtain ⟨h1, h2⟩ := h
      have e1 : e.1 = p.1 := congrArg (·.1) h1
      have e2 : (info e.2).2.1 = p.2.1 := congrArg (·.2.2.1) h1
      unfold Params.env at hg
      rw [List.map_cons, Env.get_cons] at hg
      by_cases hn : name = p.1
      · rw [if_pos hn] at hg
        cases hg
        refine ⟨e.2, ?_, e2, p, List.mem_cons_self, rfl⟩
        simp [e1, hn]
      · rw [if_neg hn] at hg
        obtain ⟨tid, j1, j2, q, hq, j3⟩ := ih ps h2 hg
        refine ⟨tid, ?_, j2, q, List.mem_cons_of_mem _ hq, j3⟩
        have : (e.1 == name) = false := by rw [e1]; simpa using fun e' => hn e'.symm
        simp only [List.find?_cons, this]
        exact j1

/-- an identifier that is no field in scope and names a template parameter of the record -/
theorem PInv.findLocalTA {cenv : CEnv} {N : Std.HashMap String Nat} {rid : Nat} {ps : Params} {bv gv : Env} {outer : List Scope} {xt : XTab} {dt : DTabs} {env : Env} {c : IndexCtx}
    (h : PInv cenv N rid ps bv gv outer xt dt env c) (name : String) (t : Ty) (hb : bv.get name = none) (hn : env.get name = none)
    (hg : ps.env.get name = some t) :
    isCoreTy t = true ∧ ∃ tid, c.scopes.findLocal c.symbolMap name = some (.templateArgument tid) ∧
      (c.symbolMap.templateArg tid).typ = t := by
  obtain ⟨sc, hs, hk, hv0, _⟩ := h.top
  have hv : sc.nameToVariable[name]? = none := by have := hv0 name; rw [hb] at this; exact this
  have hf := h.exact name
  rw [hn] at hf
  simp only at hf
  rw [← h.find name] at hf
  obtain ⟨tid, j1, j2, p, hp, j3⟩ := ta_lookup
    (fun i => ((c.symbolMap.templateArg i).name, (c.symbolMap.templateArg i).typ, (c.symbolMap.templateArg i).hasDefaultValue))
    _ ps h.tas.tab name t hg
  refine ⟨by rw [← j3]; exact isCoreTy_of_prim (h.tas.prim p hp), tid, ?_, j2⟩
  unfold Scopes.findLocal
  rw [hs]
  simp only [List.findSome?_cons]
  have h1 : sc.findVariable name = none := by
    unfold Scope.findVariable
    simp [hv, hk]
  have h2 : SymMap.recordFindTemplateArg (c.symbolMap.record rid) name = some tid := by
    unfold SymMap.recordFindTemplateArg indexMapGet
    rw [← Array.find?_toList]
    exact j1
  simp only [h1, Scope.recordId, hk, hf, h2]

/-- the run of the identifier site on a name that the scopes resolve to a variable -/
theorem indexIdentifierValue_var (id : PTree) (c : IndexCtx) (f : Nat) (rest : List Nat) (hft : c.fileTrace = f :: rest)
    (name : String) (loc : FileRange) (hid : identOf f id = some (name, loc)) (vid : Nat)
    (hres : c.scopes.findLocal c.symbolMap name = some (.var vid)) :
    (indexIdentifierValue id).run c =
      .ok (some (c.symbolMap.var vid).typ, c.setSM (c.symbolMap.addReference (.var vid) loc)) := by
  unfold indexIdentifierValue resolveId
  simp only [StateT.run_bind, utilsIdentifier_runOf id c f rest hft, hid, Except.ok_bind, IxM.run_get, hres]
  rfl

theorem var_typ_of_getElem? (sm : SymMap) (vid : Nat) (v : Variable) (h : sm.variableList[vid]? = some v) :
    (sm.var vid).typ = v.typ := by
  unfold SymMap.var
  simp [getElem!_def, h]

/-- a variable of the record body (`defvar` in the body) -/
theorem PInv.findLocalVar {cenv : CEnv} {N : Std.HashMap String Nat} {rid : Nat} {ps : Params} {bv gv : Env} {outer : List Scope} {xt : XTab} {dt : DTabs} {env : Env}
    {c : IndexCtx} (h : PInv cenv N rid ps bv gv outer xt dt env c) (name : String) (t : Ty) (hb : bv.get name = some t) :
    isCoreTy t = true ∧ ∃ vid, c.scopes.findLocal c.symbolMap name = some (.var vid) ∧ (c.symbolMap.var vid).typ = t := by
  obtain ⟨sc, hs, hk, hv0, _⟩ := h.top
  have := hv0 name
  rw [hb] at this
  obtain ⟨hp, vid, v, h1, h2, h3⟩ := this
  refine ⟨hp, vid, ?_, by rw [var_typ_of_getElem? _ _ _ h2]; exact h3⟩
  rw [findLocal_eq, hs]
  simp only [List.findSome?_cons]
  have : scopeLookup c.symbolMap name sc = some (.var vid) := by
    unfold scopeLookup Scope.findVariable
    simp [h1]
  rw [this]

/-- a name that nothing in the record scope answers: a variable of the outer scopes (top-level `defvar`) -/
theorem PInv.findLocalOuter {cenv : CEnv} {N : Std.HashMap String Nat} {rid : Nat} {ps : Params} {bv gv : Env} {outer : List Scope} {xt : XTab} {dt : DTabs} {env : Env}
    {c : IndexCtx} (h : PInv cenv N rid ps bv gv outer xt dt env c) (name : String) (t : Ty) (hb : bv.get name = none)
    (hn : env.get name = none) (hp : ps.env.get name = none) (hg : gv.get name = some t) :
    isCoreTy t = true ∧ ∃ vid, c.scopes.findLocal c.symbolMap name = some (.var vid) ∧ (c.symbolMap.var vid).typ = t := by
  obtain ⟨sc, hs, hk, hv0, ho⟩ := h.top
  have hv : sc.nameToVariable[name]? = none := by have := hv0 name; rw [hb] at this; exact this
  obtain ⟨hpt, vid, v, h1, h2, h3⟩ := ho name t hg
  refine ⟨hpt, vid, ?_, by rw [var_typ_of_getElem? _ _ _ h2]; exact h3⟩
  have hf := h.exact name
  rw [hn] at hf
  simp only at hf
  rw [← h.find name] at hf
  have hta : SymMap.recordFindTemplateArg (c.symbolMap.record rid) name = none := by
    unfold SymMap.recordFindTemplateArg indexMapGet
    rw [← Array.find?_toList]
    have hkeys : (c.symbolMap.record rid).nameToTemplateArg.toList.map (·.1) = ps.map (·.1) := by
      have := congrArg (List.map (·.1)) h.tas.tab
      simp only [List.map_map] at this
      exact this
    cases hfd : (c.symbolMap.record rid).nameToTemplateArg.toList.find? (fun e => e.1 == name) with
    | none => rfl
    | some e =>
      exfalso
      have hm := List.mem_of_find?_eq_some hfd
      have he : e.1 = name := by simpa using List.find?_some hfd
      have : name ∈ ps.map (·.1) := by rw [← hkeys, ← he]; exact List.mem_map_of_mem hm
      obtain ⟨q, hq, hqe⟩ := List.mem_map.1 this
      unfold Params.env Env.get at hp
      simp only [Option.map_eq_none_iff, List.find?_eq_none, List.mem_map, forall_exists_index, and_imp] at hp
      have := hp (q.1, q.2.1) q hq rfl
      simp [hqe] at this
  rw [findLocal_eq, hs]
  simp only [List.findSome?_cons]
  have h0 : scopeLookup c.symbolMap name sc = none := by
    unfold scopeLookup Scope.findVariable Scope.recordId Scope.multiclassId
    simp [hv, hk, hf, hta]
  rw [h0]
  exact h1 c.symbolMap

/-- the state after `record_mut(rid).parent_list.push(cid)` -/
def withParent (c : IndexCtx) (rid cid : Nat) : IndexCtx :=
  c.setSM (c.symbolMap.modRecord rid fun rec => { rec with parentList := rec.parentList.push cid })

/-- a new (last) parent `cid`, a class with exactly the fields `flds`: the fields in scope are `env ++ flds` -/
theorem PInv.pushParent {cenv : CEnv} {N : Std.HashMap String Nat} {rid : Nat} {ps : Params} {bv gv : Env} {outer : List Scope} {xt : XTab} {dt : DTabs} {env : Env} {c : IndexCtx}
    (h : PInv cenv N rid ps bv gv outer xt dt env c) (cid : Nat) (hcid : cid < rid) (flds : Env) (hex : Exact c.symbolMap cid flds) :
    PInv cenv N rid ps bv gv outer xt dt (env ++ flds) (withParent c rid cid) := by
  have hrid : rid < c.symbolMap.recordList.size := by have := h.newest; omega
  have hrec : ∀ i, i < c.symbolMap.recordList.size →
      (withParent c rid cid).symbolMap.record i =
        (if rid = i then { (c.symbolMap.record i) with parentList := (c.symbolMap.record i).parentList.push cid }
        else c.symbolMap.record i) := by
    intro i hi
    show (Array.modify c.symbolMap.recordList rid _)[i]! = _
    rw [sGetElem!_modify _ _ _ _ hi]
    rfl
  have hag : ∀ i, i < rid → (withParent c rid cid).symbolMap.record i = c.symbolMap.record i := by
    intro i hi
    rw [hrec i (by omega), if_neg (by omega)]
  have hsize : (withParent c rid cid).symbolMap.recordList.size = c.symbolMap.recordList.size := by
    show (Array.modify _ _ _).size = _
    rw [Array.size_modify]
  have hold : OlderBelow (withParent c rid cid).symbolMap (withParent c rid cid).symbolMap.recordList.size := by
    intro i hi p hp
    rw [hsize] at hi
    rw [hrec i hi] at hp
    split at hp
    · rename_i e
      subst e
      simp only [Array.toList_push, List.mem_append, List.mem_singleton] at hp
      rcases hp with hp | hp
      · exact h.k.older _ hi p hp
      · omega
    · exact h.k.older i hi p hp
  have hoB : OlderBelow c.symbolMap rid := fun i hi => h.k.older i (by omega)
  have hff : ∀ name, ff (withParent c rid cid).symbolMap name rid =
      match ff c.symbolMap name rid with
      | some f => some f
      | none => ff c.symbolMap name cid := by
    intro name
    rw [ff_unfold _ name _ hold rid (by rw [hsize]; exact hrid), ff_unfold _ name _ h.k.older rid hrid,
      hrec rid hrid, if_pos rfl]
    simp only
    cases indexMapGet (c.symbolMap.record rid).nameToRecordField name with
    | some f => rfl
    | none =>
      simp only [Array.toList_push, List.findSome?_append, List.findSome?_cons, List.findSome?_nil]
      have hpar : (c.symbolMap.record rid).parentList.toList.findSome? (ff (withParent c rid cid).symbolMap name) =
          (c.symbolMap.record rid).parentList.toList.findSome? (ff c.symbolMap name) := by
        apply findSome?_congr_mem
        intro p hp
        exact ff_agree c.symbolMap _ name rid hoB hag p (h.k.older rid hrid p hp)
      rw [hpar, ff_agree c.symbolMap _ name rid hoB hag cid hcid]
      cases (c.symbolMap.record rid).parentList.toList.findSome? (ff c.symbolMap name) with
      | some f => rfl
      | none => cases ff c.symbolMap name cid <;> rfl
  have hd : DInv dt rid (withParent c rid cid).symbolMap := by
    have := h.d.push (sm' := (withParent c rid cid).symbolMap) h.older1 (fun i hi => by rw [hag i hi])
      (fun i hi => by rw [hrec i (by omega)]; split <;> rfl)
      (fun _ _ _ => rfl) cid hcid (by rw [hrec rid hrid, if_pos rfl]) [] (fun a ha => by cases ha)
    simp only [List.append_nil] at this
    exact this
  refine ⟨?_, h.top, by rw [hsize]; exact h.newest, ?_, ?_, h.trace, h.ntc, h.x, hd⟩
  · exact h.k.transport (Nat.le_of_eq hsize.symm) hold hag (Nat.le_refl _) (fun _ _ => rfl) (Nat.le_refl _)
      (fun _ _ => rfl) (fun _ _ _ => rfl)
  · intro name
    rw [hff name, Env.get_append]
    have h1 := h.exact name
    cases hg : env.get name with
    | some t =>
      rw [hg] at h1
      obtain ⟨hp, fid, e1, e2, e3⟩ := h1
      simp only [e1]
      exact ⟨hp, fid, rfl, e2, e3⟩
    | none =>
      rw [hg] at h1
      simp only at h1
      simp only [h1]
      exact hex name
  · exact h.tas.transport (by rw [hrec rid hrid, if_pos rfl]) (Nat.le_refl _) (fun _ _ => rfl)

theorem checkTemplateArgs_nil (rg : Nat × Nat) (c : IndexCtx) : (checkTemplateArgs [] [] rg).run c = .ok ((), c) := rfl

/-- `resolve_class_ref_as_class` on a reference without argument list to a class without template parameters -/
theorem resolveClassRefAsClass_plain (r : Rec) (cr nameNode : PTree) (c : IndexCtx) (f : Nat) (rest : List Nat)
    (hft : c.fileTrace = f :: rest) (hn : Ast.classRefName cr = some nameNode) (name : String) (loc : FileRange)
    (hid : identOf f nameNode = some (name, loc)) (cid : Nat) (hfc : c.symbolMap.nameToClass[name]? = some cid)
    (hta : (c.symbolMap.record cid).nameToTemplateArg = #[]) (hargs : Ast.classRefArgValueList cr = none) :
    (resolveClassRefAsClass r cr).run c = .ok (some cid, c.setSM (c.symbolMap.addReference (.record cid) loc)) := by
  have hta' : ((c.symbolMap.addReference (.record cid) loc).record cid).nameToTemplateArg = #[] := hta
  unfold resolveClassRefAsClass templateArgsOf
  simp only [hn, StateT.run_bind, utilsIdentifier_runOf nameNode c f rest hft, hid, Except.ok_bind, withSM_run,
    SymMap.findClass, hfc, addReference_run, IndexCtx.setSM_symbolMap, hta', hargs, StateT.run_pure,
    Array.toList_empty, List.map_nil]
  rfl


/-! ### the checker of the third core and its soundness -/

def coreParent3 (cenv : CEnv) (cr : PTree) : Option Env :=
  match Ast.classRefName cr, Ast.classRefArgValueList cr with
  | some nameNode, none =>
    match Ast.identifierValue nameNode, Ast.identifierRange nameNode with
    | some name, some _ =>
      match cenv.get name with
      | some ([], flds) => some flds
      | _ => none
    | _, _ => none
  | _, _ => none

def coreParents3 (cenv : CEnv) : Env → List PTree → Option Env
  | env, [] => some env
  | env, cr :: rest =>
    match coreParent3 cenv cr with
    | some flds => coreParents3 cenv (env ++ flds) rest
    | none => none

section core3
variable (k : Nat)

theorem parents3_step (cenv : CEnv) (N : Std.HashMap String Nat) (pcl : PTree) (rid : Nat) (ps : Params) (bv gv : Env) (outer : List Scope) (xt : XTab) (dt : DTabs) (env env' : Env) (c c' : IndexCtx)
    (hinv : PInv cenv N rid ps bv gv outer xt dt env c) (hchk : coreParents3 cenv env (Ast.parentClassListClasses pcl) = some env')
    (hrun : (indexParentClassList (mkRec (k + 1)) pcl).run c = .ok ((), c')) :
    c'.diagnostics = c.diagnostics ∧ PInv cenv N rid ps bv gv outer xt dt env' c' := by
  unfold indexParentClassList at hrun
  obtain ⟨r0, c0, h0, hrun1⟩ := IxM.run_bind_ok hrun
  rw [currentRecordId_run, hinv.currentRecordId] at h0
  cases h0
  simp only at hrun1
  obtain ⟨u, c'', hloop, hpure⟩ := IxM.run_bind_ok hrun1
  simp only [StateT.run_pure] at hpure
  cases hpure
  clear hrun hrun1
  generalize Ast.parentClassListClasses pcl = l at hchk hloop
  induction l generalizing env c with
  | nil =>
    simp only [List.forIn_nil, StateT.run_pure] at hloop
    cases hloop
    cases hchk
    exact ⟨rfl, hinv⟩
  | cons cr rest ih =>
    obtain ⟨f, frest, hft⟩ : ∃ f rest, c.fileTrace = f :: rest := by
      cases hc : c.fileTrace with
      | nil => exact absurd hc hinv.trace
      | cons f rest => exact ⟨f, rest, rfl⟩
    rw [List.forIn_cons] at hloop
    obtain ⟨st, c1, h1, hloop⟩ := IxM.run_bind_ok hloop
    unfold coreParents3 at hchk
    cases hp : coreParent3 cenv cr with
    | none => rw [hp] at hchk; cases hchk
    | some flds =>
      rw [hp] at hchk
      simp only at hchk
      unfold coreParent3 at hp
      cases hnn : Ast.classRefName cr with
      | none => rw [hnn] at hp; cases hp
      | some nameNode =>
      cases hal : Ast.classRefArgValueList cr with
      | some _ => rw [hnn, hal] at hp; cases hp
      | none =>
      rw [hnn, hal] at hp
      simp only at hp
      cases hiv : Ast.identifierValue nameNode with
      | none => rw [hiv] at hp; cases hp
      | some name =>
      cases hir : Ast.identifierRange nameNode with
      | none => rw [hiv, hir] at hp; cases hp
      | some se =>
      rw [hiv, hir] at hp
      simp only at hp
      have hg : cenv.get name = some ([], flds) := by
        cases hcg : cenv.get name with
        | none => rw [hcg] at hp; cases hp
        | some e =>
          obtain ⟨ps0, fl0⟩ := e
          cases ps0 with
          | nil => rw [hcg] at hp; cases hp; rfl
          | cons _ _ => rw [hcg] at hp; cases hp
      obtain ⟨cid, hc1, hc2, hc3, hc4⟩ := hinv.k.classes name [] flds hg
      have hres := resolveClassRefAsClass_plain (mkRec (k + 1)) cr nameNode c f frest hft hnn name ⟨f, se.1, se.2⟩
        (identOf_of f nameNode name se hiv hir) cid hc1 hc3.nil_noTA hal
      have hne : (cid == rid) = false := by simp; omega
      simp only [StateT.run_bind, hres, Except.ok_bind, hne, Bool.false_eq_true, if_false, recordMut_run,
        StateT.run_pure] at h1
      cases h1
      have hinv1 := (hinv.addReference (.record cid) ⟨f, se.1, se.2⟩).pushParent cid hc2 flds
        (hc4.transport (rid) hc2 (fun i hi => hinv.k.older i (by have := hinv.newest; omega)) (fun _ _ => rfl)
          (Nat.le_refl _) (fun _ _ => rfl))
      obtain ⟨q, hi⟩ := ih (env ++ flds) _ hinv1 hchk hloop
      exact ⟨q, hi⟩

/-- the value of an accepted initialiser: its type can be cast to `ty`, nothing is reported -/
theorem init3_value (cenv : CEnv) (N : Std.HashMap String Nat) (rid : Nat) (ps : Params) (bv gv : Env) (outer : List Scope) (xt : XTab) (dt : DTabs) (env : Env) (ty : Ty) (v : PTree) (c : IndexCtx)
    (hinv : PInv cenv N rid ps bv gv outer xt dt env c) (hci : coreInit2 (bv ++ (env ++ (ps.env ++ gv))) ty v = true) :
    ∃ vt c1, ((mkRec (k + 1)).value v).run c = .ok (some vt, c1) ∧ (∀ sm : SymMap, sm.canBeCastedTo vt ty = true) ∧
      c1.diagnostics = c.diagnostics ∧ PInv cenv N rid ps bv gv outer xt dt env c1 := by
  obtain ⟨f, rest, hft⟩ : ∃ f rest, c.fileTrace = f :: rest := by
    cases hc : c.fileTrace with
    | nil => exact absurd hc hinv.trace
    | cons f rest => exact ⟨f, rest, rfl⟩
  unfold coreInit2 at hci
  cases hlt : litValueType v with
  | some lt =>
    rw [hlt] at hci
    simp only at hci
    exact ⟨lt, c, indexValue_lit _ v lt hlt _, fun sm => litCast_sound sm lt ty (litValueType_cases v lt hlt) hci, rfl, hinv⟩
  | none =>
    rw [hlt] at hci
    simp only at hci
    cases hidv : identValueNode v with
    | none => rw [hidv] at hci; cases hci
    | some id =>
      rw [hidv] at hci
      simp only at hci
      cases hv1 : Ast.identifierValue id with
      | none => rw [hv1] at hci; cases hci
      | some vname =>
      cases hv2 : Ast.identifierRange id with
      | none => rw [hv1, hv2] at hci; cases hci
      | some vse =>
      rw [hv1, hv2] at hci
      simp only at hci
      cases hg : Env.get (bv ++ (env ++ (ps.env ++ gv))) vname with
      | none => rw [hg] at hci; cases hci
      | some t =>
      rw [hg] at hci
      simp only at hci
      have hidn := identOf_of f id vname vse hv1 hv2
      rw [Env.get_append] at hg
      cases hgb : Env.get bv vname with
      | some t' =>
        rw [hgb] at hg
        cases hg
        obtain ⟨hpt, vid, hfl, hft'⟩ := hinv.findLocalVar vname t hgb
        have hvrun : ((mkRec (k + 1)).value v).run c = _ :=
          (indexValue_ident (mkRec k) v id hidv _).trans
            (indexIdentifierValue_var id _ f rest hft vname ⟨f, vse.1, vse.2⟩ hidn vid hfl)
        rw [hft'] at hvrun
        exact ⟨t, _, hvrun, fun sm => coreCast_sound sm t ty hpt hci, rfl, hinv.addReference _ _⟩
      | none =>
      rw [hgb] at hg
      simp only at hg
      rw [Env.get_append] at hg
      cases hge : Env.get env vname with
      | some t' =>
        rw [hge] at hg
        cases hg
        obtain ⟨hpt, fid, _, hfl, hft'⟩ := hinv.findLocal vname t hgb hge
        have hvrun : ((mkRec (k + 1)).value v).run c = _ :=
          (indexValue_ident (mkRec k) v id hidv _).trans
            (indexIdentifierValue_field id _ f rest hft vname ⟨f, vse.1, vse.2⟩ hidn fid hfl)
        rw [hft'] at hvrun
        exact ⟨t, _, hvrun, fun sm => coreCast_sound sm t ty hpt hci, rfl, hinv.addReference _ _⟩
      | none =>
      rw [hge] at hg
      simp only at hg
      rw [Env.get_append] at hg
      cases hgp : Env.get ps.env vname with
      | some t' =>
        rw [hgp] at hg
        cases hg
        obtain ⟨hpt, tid, hfl, hft'⟩ := hinv.findLocalTA vname t hgb hge hgp
        have hvrun : ((mkRec (k + 1)).value v).run c = _ :=
          (indexValue_ident (mkRec k) v id hidv _).trans
            (indexIdentifierValue_ta id _ f rest hft vname ⟨f, vse.1, vse.2⟩ hidn tid hfl)
        rw [hft'] at hvrun
        exact ⟨t, _, hvrun, fun sm => coreCast_sound sm t ty hpt hci, rfl, hinv.addReference _ _⟩
      | none =>
        rw [hgp] at hg
        simp only at hg
        obtain ⟨hpt, vid, hfl, hft'⟩ := hinv.findLocalOuter vname t hgb hge hgp hg
        have hvrun : ((mkRec (k + 1)).value v).run c = _ :=
          (indexValue_ident (mkRec k) v id hidv _).trans
            (indexIdentifierValue_var id _ f rest hft vname ⟨f, vse.1, vse.2⟩ hidn vid hfl)
        rw [hft'] at hvrun
        exact ⟨t, _, hvrun, fun sm => coreCast_sound sm t ty hpt hci, rfl, hinv.addReference _ _⟩

/-- the declared type of a field: a primitive type, or (`lists`) `list<T>` with `T` primitive -/
def coreTypeOf (lists : Bool) (tn : PTree) : Option Ty :=
  if isPrimTypeNode tn then primTypeOf tn
  else if lists && tn.kind == .ListType then
    match Ast.listTypeInnerType tn with
    | some inner => if isPrimTypeNode inner then (primTypeOf inner).map .list else none
    | none => none
  else none

theorem coreTypeOf_core (lists : Bool) (tn : PTree) (ty : Ty) (h : coreTypeOf lists tn = some ty) : isCoreTy ty = true := by
  unfold coreTypeOf at h
  split at h
  · exact isCoreTy_of_prim (primTypeOf_prim tn ty h)
  · split at h
    · split at h
      · rename_i inner _
        split at h
        · cases hp : primTypeOf inner with
          | none => rw [hp] at h; cases h
          | some et =>
            rw [hp] at h
            cases h
            exact primTypeOf_prim inner et hp
        · cases h
      · cases h
    · cases h

theorem coreTypeOf_run (lists : Bool) (hk : lists = true → 0 < k) (tn : PTree) (ty : Ty)
    (h : coreTypeOf lists tn = some ty) (c : IndexCtx) : ((mkRec (k + 1)).typ tn).run c = .ok (some ty, c) := by
  unfold coreTypeOf at h
  split at h
  · rename_i hprim
    have := indexType_prim (mkRec k) tn hprim c
    rw [h] at this
    exact this
  · rename_i hnp
    split at h
    · rename_i hl
      simp only [Bool.and_eq_true, beq_iff_eq] at hl
      obtain ⟨k', rfl⟩ : ∃ k', k = k' + 1 := ⟨k - 1, by have := hk hl.1; omega⟩
      split at h
      · rename_i inner hin
        split at h
        · rename_i hpi
          cases hp : primTypeOf inner with
          | none => rw [hp] at h; cases h
          | some et =>
            rw [hp] at h
            cases h
            have hinner : ((mkRec (k' + 1)).typ inner).run c = .ok (some et, c) := by
              have := indexType_prim (mkRec k') inner hpi c
              rw [hp] at this
              exact this
            show (indexType (mkRec (k' + 1)) tn).run c = _
            unfold indexType
            simp only [hl.2, hin, StateT.run_bind, hinner, Except.ok_bind]
            rfl
        · cases h
      · cases h
    · cases h

/-- an initialiser: a literal or an identifier in scope, or (`lists`) a list literal of literals of one type -/
def coreInitL (lists : Bool) (scope : Env) (ty : Ty) (v : PTree) : Bool :=
  coreInit2 scope ty v ||
    (lists && match listLitType v with
      | some lt => litCastOk lt ty
      | none => false)

theorem coreInitL_false (scope : Env) (ty : Ty) (v : PTree) : coreInitL false scope ty v = coreInit2 scope ty v := by
  simp [coreInitL]

theorem initL_value (lists : Bool) (hk : lists = true → 0 < k) (cenv : CEnv) (N : Std.HashMap String Nat) (rid : Nat)
    (ps : Params) (bv gv : Env) (outer : List Scope) (xt : XTab) (dt : DTabs) (env : Env) (ty : Ty) (v : PTree) (c : IndexCtx)
    (hinv : PInv cenv N rid ps bv gv outer xt dt env c) (hci : coreInitL lists (bv ++ (env ++ (ps.env ++ gv))) ty v = true) :
    ∃ vt c1, ((mkRec (k + 1)).value v).run c = .ok (some vt, c1) ∧ (∀ sm : SymMap, sm.canBeCastedTo vt ty = true) ∧
      c1.diagnostics = c.diagnostics ∧ PInv cenv N rid ps bv gv outer xt dt env c1 := by
  by_cases h2 : coreInit2 (bv ++ (env ++ (ps.env ++ gv))) ty v = true
  · exact init3_value k cenv N rid ps bv gv outer xt dt env ty v c hinv h2
  · unfold coreInitL at hci
    simp only [h2, Bool.false_or, Bool.and_eq_true] at hci
    obtain ⟨hl, hci⟩ := hci
    obtain ⟨k', rfl⟩ : ∃ k', k = k' + 1 := ⟨k - 1, by have := hk hl; omega⟩
    obtain ⟨f, rest, hft⟩ : ∃ f rest, c.fileTrace = f :: rest := by
      cases hc : c.fileTrace with
      | nil => exact absurd hc hinv.trace
      | cons f rest => exact ⟨f, rest, rfl⟩
    cases hlt : listLitType v with
    | none => rw [hlt] at hci; cases hci
    | some lt =>
      rw [hlt] at hci
      simp only at hci
      obtain ⟨et, rfl, het⟩ := listLitType_core v lt hlt
      refine ⟨.list et, c, ?_, fun sm => coreCast_sound sm _ ty het hci, rfl, hinv⟩
      exact indexValue_listLit (mkRec (k' + 1)) (fun e lt c h => indexValue_lit (mkRec k') e lt h c) v _ hlt c f rest hft

/-- what the step lemmas need of an additional initialiser check `initX`: the value is indexed to a type that can be cast
to the field type in the symbol map of the state it leaves, nothing is reported, the invariant is kept -/
def InitOracle (k : Nat) (initX : Env → Ty → PTree → Bool) (cenv : CEnv) (N : Std.HashMap String Nat) (rid : Nat) (ps : Params)
    (gv : Env) (outer : List Scope) (xt : XTab) (dt : DTabs) : Prop :=
  ∀ (ty : Ty) (v : PTree) (bv env : Env) (c : IndexCtx), PInv cenv N rid ps bv gv outer xt dt env c →
    initX (bv ++ (env ++ (ps.env ++ gv))) ty v = true →
    ∃ vt c1, ((mkRec (k + 1)).value v).run c = .ok (some vt, c1) ∧ c1.symbolMap.canBeCastedTo vt ty = true ∧
      c1.diagnostics = c.diagnostics ∧ PInv cenv N rid ps bv gv outer xt dt env c1

/-- no additional initialisers -/
def noInitX : Env → Ty → PTree → Bool := fun _ _ _ => false

theorem noInitX_oracle (k : Nat) (cenv : CEnv) (N : Std.HashMap String Nat) (rid : Nat) (ps : Params) (gv : Env)
    (outer : List Scope) (xt : XTab) (dt : DTabs) : InitOracle k noInitX cenv N rid ps gv outer xt dt :=
  fun _ _ _ _ _ _ h => by cases h

/-- `let f [{ranges}] = init;`: `f` a field in scope (`env`), `init` may also name one of the parameters `pe` -/
def coreFieldLet3 (env pe : Env) (n : PTree) : Bool :=
  match Ast.fieldLetName n with
  | some nameNode =>
    match Ast.identifierValue nameNode, Ast.identifierRange nameNode with
    | some name, some _ =>
      match env.get name with
      | some t =>
        match Ast.fieldLetValue n with
        | none => true
        | some v =>
          coreInit2 (env ++ pe) (match Ast.fieldLetRangeList n with | some rl => rangeTyp (some rl) | none => t) v
      | none => false
    | _, _ => false
  | none => false

/-- the same with variables in front of the fields (`front`: the `defvar`s of the body) -/
def coreFieldLetG (lists : Bool) (initX : Env → Ty → PTree → Bool) (front env back : Env) (n : PTree) : Bool :=
  match Ast.fieldLetName n with
  | some nameNode =>
    match Ast.identifierValue nameNode, Ast.identifierRange nameNode with
    | some name, some _ =>
      match env.get name with
      | some t =>
        match Ast.fieldLetValue n with
        | none => true
        | some v =>
          coreInitL lists (front ++ (env ++ back)) (match Ast.fieldLetRangeList n with | some rl => rangeTyp (some rl) | none => t) v ||
            initX (front ++ (env ++ back)) (match Ast.fieldLetRangeList n with | some rl => rangeTyp (some rl) | none => t) v
      | none => false
    | _, _ => false
  | none => false

theorem coreFieldLet3_eq (env pe : Env) (n : PTree) : coreFieldLet3 env pe n = coreFieldLetG false noInitX [] env pe n := by
  unfold coreFieldLet3 coreFieldLetG noInitX
  simp only [coreInitL_false, Bool.or_false]
  rfl

theorem fieldLetG_step (lists : Bool) (hk : lists = true → 0 < k) (initX : Env → Ty → PTree → Bool) (cenv : CEnv) (N : Std.HashMap String Nat) (n : PTree) (rid : Nat) (ps : Params) (bv gv : Env) (outer : List Scope) (xt : XTab) (dt : DTabs) (env : Env) (c c' : IndexCtx)
    (hinv : PInv cenv N rid ps bv gv outer xt dt env c) (hX : InitOracle k initX cenv N rid ps gv outer xt dt)
    (hchk : coreFieldLetG lists initX bv env (ps.env ++ gv) n = true)
    (hrun : (indexFieldLet (mkRec (k + 1)) n).run c = .ok ((), c')) :
    c'.diagnostics = c.diagnostics ∧ PInv cenv N rid ps bv gv outer xt dt env c' := by
  obtain ⟨f, rest, hft⟩ : ∃ f rest, c.fileTrace = f :: rest := by
    cases hc : c.fileTrace with
    | nil => exact absurd hc hinv.trace
    | cons f rest => exact ⟨f, rest, rfl⟩
  unfold coreFieldLetG at hchk
  cases hnn : Ast.fieldLetName n with
  | none => rw [hnn] at hchk; cases hchk
  | some nameNode =>
  rw [hnn] at hchk
  simp only at hchk
  cases hiv : Ast.identifierValue nameNode with
  | none => rw [hiv] at hchk; cases hchk
  | some name =>
  cases hir : Ast.identifierRange nameNode with
  | none => rw [hiv, hir] at hchk; cases hchk
  | some se =>
  rw [hiv, hir] at hchk
  simp only at hchk
  cases hg : env.get name with
  | none => rw [hg] at hchk; cases hchk
  | some t =>
  rw [hg] at hchk
  simp only at hchk
  obtain ⟨hpt, fid, hfind, hft'⟩ := hinv.fieldOf name t hg
  have hid := identOf_of f nameNode name se hiv hir
  unfold indexFieldLet at hrun
  simp only [StateT.run_bind, hnn, utilsIdentifier_runOf nameNode c f rest hft, hid, Except.ok_bind,
    currentRecordId_run, hinv.currentRecordId, withSM_run, hfind, hft'] at hrun
  have henv : ∀ n', env.get n' = if n' = name then some t else env.get n' := by
    intro n'
    by_cases e : n' = name
    · rw [if_pos e, e, hg]
    · rw [if_neg e]
  generalize Ast.fieldLetRangeList n = orl at hrun hchk
  cases orl
  all_goals (
    simp only at hrun hchk
    by_cases hpar : ((c.symbolMap.recordField fid).parent != rid) = true
    · simp only [hpar, if_true, StateT.run_bind, addRecordField_run, Except.ok_bind, recordMut_run, addReference_run] at hrun
      have hinv3 := (hinv.declare name t hpt ⟨f, se.1, se.2⟩ (env' := env) henv).addReference (.recordField fid) ⟨f, se.1, se.2⟩
      change (StateT.run _ ((withField c rid ⟨name, t, rid, ⟨f, se.1, se.2⟩⟩).setSM
        (SymMap.addReference (withField c rid ⟨name, t, rid, ⟨f, se.1, se.2⟩⟩).symbolMap (.recordField fid) ⟨f, se.1, se.2⟩))) = _ at hrun
      cases hv : Ast.fieldLetValue n with
      | none => rw [hv] at hrun; cases hrun; exact ⟨rfl, hinv3⟩
      | some v =>
        rw [hv] at hrun hchk
        simp only at hrun hchk
        obtain ⟨vt, c1, hvr, hcast, hd, hi⟩ : ∃ vt c1, ((mkRec (k + 1)).value v).run _ = .ok (some vt, c1) ∧
            c1.symbolMap.canBeCastedTo vt _ = true ∧ c1.diagnostics = _ ∧ PInv cenv N rid ps bv gv outer xt dt env c1 := by
          rcases Bool.or_eq_true_iff.1 hchk with h1 | h2
          · obtain ⟨vt, c1, a1, a2, a3, a4⟩ := initL_value k lists hk cenv N rid ps bv gv outer xt dt env _ v _ hinv3 h1
            exact ⟨vt, c1, a1, a2 _, a3, a4⟩
          · exact hX _ v bv env _ hinv3 h2
        simp only [StateT.run_bind, hvr, Except.ok_bind, canBeCastedTo_run, hcast, Bool.not_true, Bool.false_eq_true,
          if_false] at hrun
        cases hrun
        exact ⟨hd, hi⟩
    · simp only [hpar, Bool.false_eq_true, if_false, StateT.run_bind, Except.ok_bind, addReference_run] at hrun
      have hinv3 := hinv.addReference (.recordField fid) ⟨f, se.1, se.2⟩
      cases hv : Ast.fieldLetValue n with
      | none => rw [hv] at hrun; cases hrun; exact ⟨rfl, hinv3⟩
      | some v =>
        rw [hv] at hrun hchk
        simp only at hrun hchk
        obtain ⟨vt, c1, hvr, hcast, hd, hi⟩ : ∃ vt c1, ((mkRec (k + 1)).value v).run _ = .ok (some vt, c1) ∧
            c1.symbolMap.canBeCastedTo vt _ = true ∧ c1.diagnostics = _ ∧ PInv cenv N rid ps bv gv outer xt dt env c1 := by
          rcases Bool.or_eq_true_iff.1 hchk with h1 | h2
          · obtain ⟨vt, c1, a1, a2, a3, a4⟩ := initL_value k lists hk cenv N rid ps bv gv outer xt dt env _ v _ hinv3 h1
            exact ⟨vt, c1, a1, a2 _, a3, a4⟩
          · exact hX _ v bv env _ hinv3 h2
        simp only [StateT.run_bind, hvr, Except.ok_bind, canBeCastedTo_run, hcast, Bool.not_true, Bool.false_eq_true,
          if_false] at hrun
        cases hrun
        exact ⟨hd, hi⟩
  )


/-- `T x [= init];`: the fields in scope after the declaration, `none` = not in the core; `init` may name a
field in scope (`x` included) or one of the parameters `pe` -/
def coreFieldDef3 (env pe : Env) (n : PTree) : Option Env :=
  match Ast.fieldDefName n, Ast.fieldDefType n with
  | some nameNode, some tn =>
    match Ast.identifierValue nameNode, Ast.identifierRange nameNode with
    | some name, some _ =>
      if isPrimTypeNode tn then
        match primTypeOf tn with
        | some ty =>
          match Ast.fieldDefValue n with
          | none => some ((name, ty) :: env)
          | some v => if coreInit2 (((name, ty) :: env) ++ pe) ty v then some ((name, ty) :: env) else none
        | none => none
      else none
    | _, _ => none
  | _, _ => none

/-- the same with variables in front of the fields -/
def coreFieldDefG (tyOf : PTree → Option Ty) (lists : Bool) (initX : Env → Ty → PTree → Bool) (front env back : Env) (n : PTree) : Option Env :=
  match Ast.fieldDefName n, Ast.fieldDefType n with
  | some nameNode, some tn =>
    match Ast.identifierValue nameNode, Ast.identifierRange nameNode with
    | some name, some _ =>
      match tyOf tn with
      | some ty =>
        match Ast.fieldDefValue n with
        | none => some ((name, ty) :: env)
        | some v =>
          if coreInitL lists (front ++ (((name, ty) :: env) ++ back)) ty v ||
              initX (front ++ (((name, ty) :: env) ++ back)) ty v then some ((name, ty) :: env) else none
      | none => none
    | _, _ => none
  | _, _ => none

theorem coreFieldDef3_eq (env pe : Env) (n : PTree) : coreFieldDef3 env pe n = coreFieldDefG (coreTypeOf false) false noInitX [] env pe n := by
  unfold coreFieldDef3 coreFieldDefG coreTypeOf noInitX
  simp only [coreInitL_false, Bool.false_and, Bool.false_eq_true, if_false, Bool.or_false]
  cases Ast.fieldDefName n <;> cases Ast.fieldDefType n <;> try rfl
  rename_i nameNode tn
  simp only
  cases Ast.identifierValue nameNode <;> cases Ast.identifierRange nameNode <;> try rfl
  simp only
  by_cases hp : isPrimTypeNode tn = true
  · simp only [hp, if_true]; rfl
  · simp only [hp, Bool.false_eq_true, if_false]

/-- what the step lemmas need of a type checker `tyOf`: the type node is indexed to that type, nothing is reported,
the invariant is kept -/
def TyOracle (k : Nat) (tyOf : PTree → Option Ty) (cenv : CEnv) (N : Std.HashMap String Nat) (rid : Nat) (ps : Params)
    (gv : Env) (outer : List Scope) (xt : XTab) (dt : DTabs) : Prop :=
  ∀ (tn : PTree) (ty : Ty) (bv env : Env) (c : IndexCtx), PInv cenv N rid ps bv gv outer xt dt env c → tyOf tn = some ty →
    isCoreTy ty = true ∧ ∃ c0, ((mkRec (k + 1)).typ tn).run c = .ok (some ty, c0) ∧ c0.diagnostics = c.diagnostics ∧
      PInv cenv N rid ps bv gv outer xt dt env c0

theorem coreTypeOf_oracle (lists : Bool) (hk : lists = true → 0 < k) (cenv : CEnv) (N : Std.HashMap String Nat) (rid : Nat)
    (ps : Params) (gv : Env) (outer : List Scope) (xt : XTab) (dt : DTabs) :
    TyOracle k (coreTypeOf lists) cenv N rid ps gv outer xt dt :=
  fun tn ty _ _ c hinv h => ⟨coreTypeOf_core lists tn ty h, c, coreTypeOf_run k lists hk tn ty h c, rfl, hinv⟩

theorem fieldDefG_step (tyOf : PTree → Option Ty) (lists : Bool) (hk : lists = true → 0 < k) (initX : Env → Ty → PTree → Bool) (cenv : CEnv) (N : Std.HashMap String Nat) (n : PTree) (rid : Nat) (ps : Params) (bv gv : Env) (outer : List Scope) (xt : XTab) (dt : DTabs) (env env' : Env) (c c' : IndexCtx)
    (hinv : PInv cenv N rid ps bv gv outer xt dt env c) (htyO : TyOracle k tyOf cenv N rid ps gv outer xt dt)
    (hX : InitOracle k initX cenv N rid ps gv outer xt dt)
    (hchk : coreFieldDefG tyOf lists initX bv env (ps.env ++ gv) n = some env')
    (hrun : (indexFieldDef (mkRec (k + 1)) n).run c = .ok ((), c')) :
    c'.diagnostics = c.diagnostics ∧ PInv cenv N rid ps bv gv outer xt dt env' c' := by
  obtain ⟨f, rest, hft⟩ : ∃ f rest, c.fileTrace = f :: rest := by
    cases hc : c.fileTrace with
    | nil => exact absurd hc hinv.trace
    | cons f rest => exact ⟨f, rest, rfl⟩
  unfold coreFieldDefG at hchk
  cases hnn : Ast.fieldDefName n with
  | none => rw [hnn] at hchk; cases hchk
  | some nameNode =>
  cases htn : Ast.fieldDefType n with
  | none => rw [hnn, htn] at hchk; cases hchk
  | some tn =>
  rw [hnn, htn] at hchk
  simp only at hchk
  cases hiv : Ast.identifierValue nameNode with
  | none => rw [hiv] at hchk; cases hchk
  | some name =>
  cases hir : Ast.identifierRange nameNode with
  | none => rw [hiv, hir] at hchk; cases hchk
  | some se =>
  rw [hiv, hir] at hchk
  simp only at hchk
  · cases hty : tyOf tn with
    | none => rw [hty] at hchk; cases hchk
    | some ty =>
    rw [hty] at hchk
    simp only at hchk
    obtain ⟨hpty, c0, htyp, hd0, hinv0⟩ := htyO tn ty bv env c hinv hty
    have hid := identOf_of f nameNode name se hiv hir
    have hinv2 := hinv0.declare name ty hpty ⟨f, se.1, se.2⟩ (env' := (name, ty) :: env) (Env.get_cons env name ty)
    unfold indexFieldDef at hrun
    simp only [StateT.run_bind, currentRecordId_run, hinv.currentRecordId, Except.ok_bind, hnn,
      utilsIdentifier_runOf nameNode c f rest hft, hid, htn, htyp, addRecordField_run, recordMut_run] at hrun
    change (StateT.run _ (withField c0 rid ⟨name, ty, rid, ⟨f, se.1, se.2⟩⟩)) = _ at hrun
    cases hv : Ast.fieldDefValue n with
    | none =>
      rw [hv] at hrun hchk
      cases hrun
      cases hchk
      exact ⟨hd0, hinv2⟩
    | some v =>
      rw [hv] at hrun hchk
      simp only at hrun hchk
      by_cases hci : (coreInitL lists (bv ++ (((name, ty) :: env) ++ (ps.env ++ gv))) ty v ||
          initX (bv ++ (((name, ty) :: env) ++ (ps.env ++ gv))) ty v) = true
      · simp only [hci, if_true] at hchk
        cases hchk
        obtain ⟨vt, c1, hvr, hcast, hd, hi⟩ : ∃ vt c1, ((mkRec (k + 1)).value v).run _ = .ok (some vt, c1) ∧
            c1.symbolMap.canBeCastedTo vt ty = true ∧ c1.diagnostics = _ ∧
            PInv cenv N rid ps bv gv outer xt dt ((name, ty) :: env) c1 := by
          rcases Bool.or_eq_true_iff.1 hci with h1 | h2
          · obtain ⟨vt, c1, a1, a2, a3, a4⟩ := initL_value k lists hk cenv N rid ps bv gv outer xt dt _ ty v _ hinv2 h1
            exact ⟨vt, c1, a1, a2 _, a3, a4⟩
          · exact hX ty v bv _ _ hinv2 h2
        simp only [StateT.run_bind, hvr, Except.ok_bind, canBeCastedTo_run, hcast, Bool.not_true, Bool.false_eq_true,
          if_false] at hrun
        cases hrun
        exact ⟨hd.trans hd0, hi⟩
      · simp only [hci, Bool.false_eq_true, if_false] at hchk
        cases hchk

/-- the items of a body of the third core: field definitions and field lets; the fields in scope afterwards -/
def coreItems3 (pe : Env) : Env → List PTree → Option Env
  | env, [] => some env
  | env, it :: rest =>
    if it.kind == .FieldDef then
      match coreFieldDef3 env pe it with
      | some env' => coreItems3 pe env' rest
      | none => none
    else if it.kind == .FieldLet && coreFieldLet3 env pe it then coreItems3 pe env rest
    else none

theorem items3_step (cenv : CEnv) (N : Std.HashMap String Nat) (items : List PTree) (rid : Nat) (ps : Params) (outer : List Scope) (xt : XTab) (dt : DTabs) (env env' : Env) (c c' : IndexCtx)
    (u : PUnit) (hinv : PInv cenv N rid ps [] [] outer xt dt env c) (hchk : coreItems3 ps.env env items = some env')
    (hrun : (forIn items PUnit.unit fun item _ => do
        indexBodyItem (mkRec (k + 1)) item
        pure (ForInStep.yield PUnit.unit)).run c = .ok (u, c')) :
    c'.diagnostics = c.diagnostics ∧ PInv cenv N rid ps [] [] outer xt dt env' c' := by
  induction items generalizing env c with
  | nil =>
    simp only [List.forIn_nil, StateT.run_pure] at hrun
    cases hrun; cases hchk; exact ⟨rfl, hinv⟩
  | cons it rest ih =>
    unfold coreItems3 at hchk
    rw [List.forIn_cons] at hrun
    obtain ⟨st, c1, h1, hrun⟩ := IxM.run_bind_ok hrun
    obtain ⟨_, c1', j1, j2⟩ := IxM.run_bind_ok h1
    simp only [StateT.run_pure] at j2
    cases j2
    by_cases hkind : it.kind = .FieldDef
    · simp only [hkind, beq_self_eq_true, if_true] at hchk
      cases hfd : coreFieldDef3 env ps.env it with
      | none => rw [hfd] at hchk; cases hchk
      | some env1 =>
        rw [hfd] at hchk
        have j1' : (indexFieldDef (mkRec (k + 1)) it).run c = .ok ((), c1) := by
          unfold indexBodyItem at j1
          simp only [hkind] at j1
          exact j1
        obtain ⟨hd1, hinv1⟩ := fieldDefG_step k (coreTypeOf false) false (fun h => nomatch h) noInitX cenv N it rid ps [] [] outer xt dt env env1 c c1 hinv
          (coreTypeOf_oracle k false (fun h => nomatch h) cenv N rid ps [] outer xt dt) (noInitX_oracle k cenv N rid ps [] outer xt dt)
          (by rw [List.append_nil, ← coreFieldDef3_eq]; exact hfd) j1'
        obtain ⟨hd2, r⟩ := ih env1 c1 hinv1 hchk hrun
        exact ⟨hd2.trans hd1, r⟩
    · have hk1 : (it.kind == SyntaxKind.FieldDef) = false := by simpa using hkind
      simp only [hk1, Bool.false_eq_true, if_false] at hchk
      by_cases hl : (it.kind == .FieldLet && coreFieldLet3 env ps.env it) = true
      · simp only [hl, if_true] at hchk
        simp only [Bool.and_eq_true, beq_iff_eq] at hl
        have j1' : (indexFieldLet (mkRec (k + 1)) it).run c = .ok ((), c1) := by
          unfold indexBodyItem at j1
          simp only [hl.1] at j1
          exact j1
        obtain ⟨hd1, hinv1⟩ := fieldLetG_step k false (fun h => nomatch h) noInitX cenv N it rid ps [] [] outer xt dt env c c1 hinv
          (noInitX_oracle k cenv N rid ps [] outer xt dt)
          (by rw [List.append_nil, ← coreFieldLet3_eq]; exact hl.2) j1'
        obtain ⟨hd2, r⟩ := ih env c1 hinv1 hchk hrun
        exact ⟨hd2.trans hd1, r⟩
      · simp only [hl, Bool.false_eq_true, if_false] at hchk
        cases hchk

/-- a record body of the third core: parents from `cenv`, then the items; the fields of the record -/
def coreRecordBody3 (cenv : CEnv) (rb : PTree) : Option Env :=
  match Ast.recordBodyParentClassList rb with
  | none => some []
  | some pcl =>
    match coreParents3 cenv [] (Ast.parentClassListClasses pcl) with
    | some env =>
      match Ast.recordBodyBody rb with
      | none => some env
      | some b => coreItems3 [] env (Ast.bodyItems b)
    | none => none

theorem recordBody3_step (cenv : CEnv) (N : Std.HashMap String Nat) (rb : PTree) (rid : Nat) (outer : List Scope) (xt : XTab) (dt : DTabs) (env' : Env) (c c' : IndexCtx)
    (hinv : PInv cenv N rid [] [] [] outer xt dt [] c) (hchk : coreRecordBody3 cenv rb = some env')
    (hrun : (indexRecordBody (mkRec (k + 1)) rb).run c = .ok ((), c')) :
    c'.diagnostics = c.diagnostics ∧ PInv cenv N rid [] [] [] outer xt dt env' c' := by
  unfold coreRecordBody3 at hchk
  unfold indexRecordBody at hrun
  cases hp : Ast.recordBodyParentClassList rb with
  | none => rw [hp] at hrun hchk; cases hrun; cases hchk; exact ⟨rfl, hinv⟩
  | some pcl =>
    rw [hp] at hrun hchk
    simp only at hrun hchk
    cases hps : coreParents3 cenv [] (Ast.parentClassListClasses pcl) with
    | none => rw [hps] at hchk; cases hchk
    | some env =>
      rw [hps] at hchk
      simp only at hchk
      obtain ⟨_, c1, h1, hrun⟩ := IxM.run_bind_ok hrun
      obtain ⟨hd1, hinv1⟩ := parents3_step k cenv N pcl rid [] [] [] outer xt dt [] env c c1 hinv hps h1
      cases hb : Ast.recordBodyBody rb with
      | none => rw [hb] at hrun hchk; cases hrun; cases hchk; exact ⟨hd1, hinv1⟩
      | some b =>
        rw [hb] at hrun hchk
        simp only at hrun hchk
        unfold indexBody at hrun
        obtain ⟨u, c2, h2, h3⟩ := IxM.run_bind_ok hrun
        simp only [StateT.run_pure] at h3
        cases h3
        obtain ⟨hd2, hinv2⟩ := items3_step k cenv N _ rid [] outer xt dt env env' c1 c' u hinv1 hchk h2
        exact ⟨hd2.trans hd1, hinv2⟩


/-! ### between the statements -/

/-- the class table between two statements -/
structure TabInv (cenv : CEnv) (c : IndexCtx) : Prop where
  k : KInv cenv c.symbolMap.recordList.size c.symbolMap
  trace : c.fileTrace ≠ []

/-- nothing reported, same file, same records, fields and class names -/
def SameTab (c c' : IndexCtx) : Prop :=
  c'.diagnostics = c.diagnostics ∧ c'.fileTrace = c.fileTrace ∧ c'.symbolMap.recordList = c.symbolMap.recordList ∧
    c'.symbolMap.recordFieldList = c.symbolMap.recordFieldList ∧ c'.symbolMap.nameToClass = c.symbolMap.nameToClass ∧
    c'.symbolMap.templateArgList = c.symbolMap.templateArgList ∧
    c'.symbolMap.variableList = c.symbolMap.variableList ∧ c'.scopes = c.scopes

instance : KeepRel SameTab where
  refl := fun _ => ⟨rfl, rfl, rfl, rfl, rfl, rfl, rfl, rfl⟩
  trans := fun h1 h2 => ⟨h2.1.trans h1.1, h2.2.1.trans h1.2.1, h2.2.2.1.trans h1.2.2.1, h2.2.2.2.1.trans h1.2.2.2.1,
    h2.2.2.2.2.1.trans h1.2.2.2.2.1, h2.2.2.2.2.2.1.trans h1.2.2.2.2.2.1, h2.2.2.2.2.2.2.1.trans h1.2.2.2.2.2.2.1,
    h2.2.2.2.2.2.2.2.trans h1.2.2.2.2.2.2.2⟩

theorem same_sameFileDefset : Keeps SameTab sameFileDefset := by
  unfold sameFileDefset currentDefsetId withSM
  keeps
theorem same_defDefset : Keeps SameTab defDefset := by
  unfold defDefset sameFileDefset currentDefsetId currentMulticlassId withSM
  keeps
theorem same_indexNameValue (v : PTree) : Keeps SameTab (indexNameValue v) := by
  unfold indexNameValue utilsIdentifier
  keeps
theorem same_currentMulticlassId : Keeps SameTab currentMulticlassId := by unfold currentMulticlassId; keeps
theorem same_nextAnonymousDefName : Keeps SameTab nextAnonymousDefName :=
  Keeps.modifyGet _ fun _ => ⟨rfl, rfl, rfl, rfl, rfl, rfl, rfl, rfl⟩
theorem same_defsetMut (id : Nat) (g : Defset → Defset) : Keeps SameTab (defsetMut id g) :=
  Keeps.modifyGet _ fun _ => ⟨rfl, rfl, rfl, rfl, rfl, rfl, rfl, rfl⟩
/-- the names of the defs are kept -/
def SameDefs (c c' : IndexCtx) : Prop := c'.symbolMap.nameToDef = c.symbolMap.nameToDef

instance : KeepRel SameDefs where
  refl := fun _ => rfl
  trans := fun h1 h2 => h2.trans h1

theorem defs_sameFileDefset : Keeps SameDefs sameFileDefset := by
  unfold sameFileDefset currentDefsetId withSM
  keeps
theorem defs_defDefset : Keeps SameDefs defDefset := by
  unfold defDefset sameFileDefset currentDefsetId currentMulticlassId withSM
  keeps
theorem defs_indexNameValue (v : PTree) : Keeps SameDefs (indexNameValue v) := by
  unfold indexNameValue utilsIdentifier
  keeps
theorem defs_currentMulticlassId : Keeps SameDefs currentMulticlassId := by unfold currentMulticlassId; keeps
theorem defs_nextAnonymousDefName : Keeps SameDefs nextAnonymousDefName :=
  Keeps.modifyGet _ fun _ => rfl

/-- `scopes.pop()` touches nothing but the scope stack -/
theorem scopesPop_eqs {c c' : IndexCtx} {a : Unit} (h : scopesPop.run c = .ok (a, c')) :
    c'.diagnostics = c.diagnostics ∧ c'.fileTrace = c.fileTrace ∧ c'.symbolMap = c.symbolMap ∧
      ∃ x, c.scopes.scopes = x :: c'.scopes.scopes := by
  unfold scopesPop at h
  simp only [StateT.run_bind, IxM.run_get, Except.ok_bind] at h
  cases hs : c.scopes.scopes with
  | nil =>
    have : c.scopes.pop = none := by unfold Scopes.pop; rw [hs]
    simp only [this] at h
    cases h
  | cons x t =>
    have : c.scopes.pop = some { scopes := t } := by unfold Scopes.pop; rw [hs]
    simp only [this, IxM.run_modify] at h
    cases h
    exact ⟨rfl, rfl, rfl, x, rfl⟩

theorem SameTab.record {c c' : IndexCtx} (h : SameTab c c') (i : Nat) : c'.symbolMap.record i = c.symbolMap.record i := by
  unfold SymMap.record
  rw [h.2.2.1]

theorem SameTab.recordField {c c' : IndexCtx} (h : SameTab c c') (i : Nat) :
    c'.symbolMap.recordField i = c.symbolMap.recordField i := by
  unfold SymMap.recordField
  rw [h.2.2.2.1]

theorem OlderBelow.same {c c' : IndexCtx} (h : SameTab c c') (B : Nat) (ho : OlderBelow c.symbolMap B) :
    OlderBelow c'.symbolMap B := ho.transport fun i _ => h.record i

theorem TabInv.same {cenv : CEnv} {c c' : IndexCtx} (hT : TabInv cenv c) (h : SameTab c c') : TabInv cenv c' := by
  have hsz : c'.symbolMap.recordList.size = c.symbolMap.recordList.size := by rw [h.2.2.1]
  refine ⟨?_, by rw [h.2.1]; exact hT.trace⟩
  rw [hsz]
  exact hT.k.transport (Nat.le_of_eq hsz.symm) (by rw [hsz]; exact OlderBelow.same h _ hT.k.older)
    (fun i _ => h.record i) (by rw [h.2.2.2.1]; exact Nat.le_refl _) (fun i _ => h.recordField i)
    (by rw [h.2.2.2.2.2.1]; exact Nat.le_refl _) (fun i _ => by unfold SymMap.templateArg; rw [h.2.2.2.2.2.1])
    (fun _ _ _ => by rw [h.2.2.2.2.1])

/-- `c5` is `c3` with one more record `r` (and nothing else of the class table changed except, possibly, the class names) -/
structure OpenedRec (r : Record) (c3 c5 : IndexCtx) : Prop where
  diag : c5.diagnostics = c3.diagnostics
  trace : c5.fileTrace = c3.fileTrace
  recs : c5.symbolMap.recordList = c3.symbolMap.recordList.push r
  flds : c5.symbolMap.recordFieldList = c3.symbolMap.recordFieldList
  tal : c5.symbolMap.templateArgList = c3.symbolMap.templateArgList
  vars : c5.symbolMap.variableList = c3.symbolMap.variableList
  scopes : c5.scopes = c3.scopes

theorem OpenedRec.same {r : Record} {c3 c4 c5 : IndexCtx} (h : OpenedRec r c3 c4) (hs : SameTab c4 c5) : OpenedRec r c3 c5 :=
  ⟨hs.1.trans h.diag, hs.2.1.trans h.trace, hs.2.2.1.trans h.recs, hs.2.2.2.1.trans h.flds, hs.2.2.2.2.2.1.trans h.tal,
    hs.2.2.2.2.2.2.1.trans h.vars, hs.2.2.2.2.2.2.2.trans h.scopes⟩

theorem addRecord_vars (sm : SymMap) (r : Record) (g : Bool) : (sm.addRecord r g).2.variableList = sm.variableList := by
  unfold SymMap.addRecord
  simp only
  cases r.kind <;> cases g <;> simp [SymMap.logDefine]

theorem addMulticlassDef_vars (sm : SymMap) (r : Record) : (sm.addMulticlassDef r).2.variableList = sm.variableList := by
  simp [SymMap.addMulticlassDef, SymMap.logDefine]

theorem addAnonymousDef_vars (sm : SymMap) (r : Record) : (sm.addAnonymousDef r).2.variableList = sm.variableList := by
  simp [SymMap.addAnonymousDef, SymMap.logDefine]

theorem addRecord_tab (sm : SymMap) (r : Record) (g : Bool) :
    (sm.addRecord r g).1 = sm.recordList.size ∧ (sm.addRecord r g).2.recordList = sm.recordList.push r ∧
      (sm.addRecord r g).2.recordFieldList = sm.recordFieldList ∧
      (sm.addRecord r g).2.nameToClass =
        (match r.kind with
        | .cls => sm.nameToClass.insert r.name sm.recordList.size
        | .def_ => sm.nameToClass) ∧
      (sm.addRecord r g).2.templateArgList = sm.templateArgList := by
  refine ⟨rfl, ?_, ?_, ?_, ?_⟩ <;> unfold SymMap.addRecord <;> simp only <;> cases r.kind <;> cases g <;>
    simp [SymMap.logDefine]

theorem addMulticlassDef_tab (sm : SymMap) (r : Record) :
    (sm.addMulticlassDef r).1 = sm.recordList.size ∧ (sm.addMulticlassDef r).2.recordList = sm.recordList.push r ∧
      (sm.addMulticlassDef r).2.recordFieldList = sm.recordFieldList ∧
      (sm.addMulticlassDef r).2.nameToClass = sm.nameToClass ∧
      (sm.addMulticlassDef r).2.templateArgList = sm.templateArgList := by
  refine ⟨rfl, ?_, ?_, ?_, ?_⟩ <;> simp [SymMap.addMulticlassDef, SymMap.logDefine]

theorem addAnonymousDef_tab (sm : SymMap) (r : Record) :
    (sm.addAnonymousDef r).1 = sm.recordList.size ∧ (sm.addAnonymousDef r).2.recordList = sm.recordList.push r ∧
      (sm.addAnonymousDef r).2.recordFieldList = sm.recordFieldList ∧
      (sm.addAnonymousDef r).2.nameToClass = sm.nameToClass ∧
      (sm.addAnonymousDef r).2.templateArgList = sm.templateArgList := by
  refine ⟨rfl, ?_, ?_, ?_, ?_⟩ <;> simp [SymMap.addAnonymousDef, SymMap.logDefine]

theorem CEnv.get_cons (cenv : CEnv) (name : String) (e : Option (Params × Env)) (cname : String) :
    CEnv.get ((name, e) :: cenv) cname = if cname = name then e else cenv.get cname := by
  unfold CEnv.get
  simp only [List.find?_cons]
  by_cases h : cname = name
  · subst h; simp
  · have : (name == cname) = false := by simpa using fun e => h e.symm
    simp [h, this]

theorem addRecord_nameToDef (sm : SymMap) (r : Record) (g : Bool) :
    (sm.addRecord r g).2.nameToDef =
      (match r.kind with
      | .cls => sm.nameToDef
      | .def_ => sm.nameToDef.insert r.name sm.recordList.size) := by
  unfold SymMap.addRecord
  simp only
  cases r.kind <;> cases g <;> simp [SymMap.logDefine]

theorem addMulticlassDef_nameToDef (sm : SymMap) (r : Record) : (sm.addMulticlassDef r).2.nameToDef = sm.nameToDef := by
  simp [SymMap.addMulticlassDef, SymMap.logDefine]

theorem addAnonymousDef_nameToDef (sm : SymMap) (r : Record) : (sm.addAnonymousDef r).2.nameToDef = sm.nameToDef := by
  simp [SymMap.addAnonymousDef, SymMap.logDefine]

/-- the tables when a new record `r` (without parents) has been allocated: the table of its body -/
theorem DInv.opened {dt : DTabs} {sm sm' : SymMap} (h : DInv dt sm.recordList.size sm)
    (ho : OlderBelow sm sm.recordList.size) (r : Record) (hrecs : sm'.recordList = sm.recordList.push r)
    (hr : r.parentList = #[]) (defs' : XTab)
    (hdefs : ∀ name id, defs'.get name = some id →
      (dt.defs.get name = some id ∧ sm'.nameToDef[name]? = sm.nameToDef[name]?) ∨
      (id = sm.recordList.size ∧ sm'.nameToDef[name]? = some id ∧ r.kind = .def_)) :
    DInv { defs := defs', anc := dt.anc, own := [] } sm.recordList.size sm' := by
  have hag : ∀ i, i < sm.recordList.size → sm'.record i = sm.record i := by
    intro i hi
    unfold SymMap.record
    rw [hrecs]
    exact sGetElem!_push_lt _ _ _ hi
  have hnew : sm'.record sm.recordList.size = r := by
    unfold SymMap.record
    rw [hrecs]
    exact getElem!_push_size _ _
  refine ⟨fun name id hg => ?_, fun i as hg => ?_, fun a ha => by cases ha⟩
  · rcases hdefs name id hg with ⟨h1, h2⟩ | ⟨h1, h2, h3⟩
    · obtain ⟨e1, e2, e3⟩ := h.names name id h1
      have hlt : id < sm.recordList.size ∨ id = sm.recordList.size := by omega
      rcases hlt with hlt | hlt
      · exact ⟨h2.trans e1, e2, by rw [hag id hlt]; exact e3⟩
      · -- an id that is not allocated yet cannot be registered with a record kind read from the default record
        refine ⟨h2.trans e1, e2, ?_⟩
        subst hlt
        have : sm.record sm.recordList.size = default := by
          unfold SymMap.record
          simp [getElem!_def]
        rw [this] at e3
        cases e3
    · subst h1
      exact ⟨h2, Nat.le_refl _, by rw [hnew]; exact h3⟩
  · obtain ⟨h1, h2⟩ := h.ancs i as hg
    refine ⟨h1, fun a ha => ?_⟩
    unfold SubFact
    rw [isSubclassOfGo_agree sm sm' a sm.recordList.size ho (fun j hj => by rw [hag j hj]) (i + 1) i h1]
    exact h2 a ha

/-- the state in which a record body is indexed: a new empty record `r` with the scope `Record(id)` on top -/
theorem PInv.ofOpen {cenv cenv' : CEnv} {c3 c5 c6 : IndexCtx} (hT : TabInv cenv c3) {gv : Env}
    (houter : OuterOK c3.symbolMap c3.scopes.scopes gv) {xt xt' : XTab} (hx3 : XInv xt c3.symbolMap.recordList.size c3.symbolMap)
    (hx : ∀ nm id, xt'.get nm = some id → xt.get nm = some id ∧
      c5.symbolMap.nameToClass[nm]? = c3.symbolMap.nameToClass[nm]?) {dtB : DTabs}
    (hdB : DInv dtB c3.symbolMap.recordList.size c5.symbolMap) (r : Record)
    (hr1 : r.parentList = #[]) (hr2 : r.nameToRecordField = #[]) (hr3 : r.nameToTemplateArg = #[])
    (ho : OpenedRec r c3 c5)
    (hcls : ∀ cname e, cenv'.get cname = some e →
      cenv.get cname = some e ∧ c5.symbolMap.nameToClass[cname]? = c3.symbolMap.nameToClass[cname]?)
    (h6 : (scopesPush (.record c3.symbolMap.recordList.size)).run c5 = .ok ((), c6)) :
    c6.diagnostics = c3.diagnostics ∧ PInv cenv' c5.symbolMap.nameToClass c3.symbolMap.recordList.size [] [] gv c3.scopes.scopes xt' dtB [] c6 := by
  unfold scopesPush at h6
  rw [IxM.run_modify] at h6
  cases h6
  have hsz : c5.symbolMap.recordList.size = c3.symbolMap.recordList.size + 1 := by rw [ho.recs]; simp
  have hag : ∀ i, i < c3.symbolMap.recordList.size → c5.symbolMap.record i = c3.symbolMap.record i := by
    intro i hi
    unfold SymMap.record
    rw [ho.recs]
    exact sGetElem!_push_lt _ _ _ hi
  have hnew : c5.symbolMap.record c3.symbolMap.recordList.size = r := by
    unfold SymMap.record
    rw [ho.recs]
    exact getElem!_push_size _ _
  have hfld : ∀ i, c5.symbolMap.recordField i = c3.symbolMap.recordField i := by
    intro i
    unfold SymMap.recordField
    rw [ho.flds]
  have hold : OlderBelow c5.symbolMap c5.symbolMap.recordList.size := by
    intro i hi p hp
    rw [hsz] at hi
    by_cases e : i = c3.symbolMap.recordList.size
    · rw [e, hnew, hr1] at hp
      simp at hp
    · rw [hag i (by omega)] at hp
      exact hT.k.older i (by omega) p hp
  have hoB : OlderBelow c3.symbolMap c3.symbolMap.recordList.size := hT.k.older
  refine ⟨ho.diag, ⟨⟨hold, by show _ ≤ c5.symbolMap.recordList.size; omega, ?_⟩, ?_, hsz.symm, ?_, ?_, ?_, rfl, ?_, hdB⟩⟩
  · intro cname ps flds hg
    obtain ⟨h1, h2⟩ := hcls cname _ hg
    obtain ⟨cid, e1, e2, e3, e4⟩ := hT.k.classes cname ps flds h1
    refine ⟨cid, h2.trans e1, e2, ?_, ?_⟩
    · exact e3.transport (sm' := c5.symbolMap) (by rw [hag cid e2]) (by rw [ho.tal]; exact Nat.le_refl _)
        (fun i _ => by unfold SymMap.templateArg; rw [ho.tal])
    · exact e4.transport _ e2 hoB hag (by rw [ho.flds]; exact Nat.le_refl _) (fun i _ => hfld i)
  · refine ⟨{ kind := .record c3.symbolMap.recordList.size }, ?_, rfl, VarsOK.nil _ _ (fun k => by simp), ?_⟩
    · show ({ kind := .record c3.symbolMap.recordList.size } : Scope) :: c5.scopes.scopes = _
      rw [ho.scopes]
    · show OuterOK c5.symbolMap c3.scopes.scopes gv
      exact houter.mono (fun i x hx => by rw [ho.vars]; exact hx)
  · intro name
    show ff c5.symbolMap name _ = none
    rw [ff_unfold _ name _ hold _ (by omega), hnew, hr1, hr2]
    simp [indexMapGet_empty]
  · exact TAsOK.of_noTA (sm := c5.symbolMap) (by rw [hnew]; exact hr3)
  · show c5.fileTrace ≠ []
    rw [ho.trace]; exact hT.trace
  · intro nm id hg
    obtain ⟨h1, h2⟩ := hx nm id hg
    exact ⟨h2.trans (hx3 nm id h1).1, (hx3 nm id h1).2⟩

/-- after the `pop` that ends a record body the scope stack is the outer one -/
theorem PInv.popped {cenv : CEnv} {N : Std.HashMap String Nat} {rid : Nat} {ps : Params} {bv gv : Env} {outer : List Scope}
    {env : Env} {c4 c5 : IndexCtx} (h : PInv cenv N rid ps bv gv outer xt dt env c4) (hpop : scopesPop.run c4 = .ok ((), c5)) :
    c5.scopes.scopes = outer := by
  obtain ⟨x, hx⟩ := (scopesPop_eqs hpop).2.2.2
  obtain ⟨sc, hs, _⟩ := h.top
  rw [hs] at hx
  exact (List.cons.inj hx).2.symm

/-- the tables after a record body: the ancestors collected for the record are filed under its id -/
def closeTab (dt : DTabs) (rid : Nat) : DTabs := { defs := dt.defs, anc := (rid, dt.own) :: dt.anc, own := [] }

theorem PInv.closeD {cenv : CEnv} {N : Std.HashMap String Nat} {rid : Nat} {ps : Params} {bv gv : Env} {outer : List Scope}
    {xt : XTab} {dt : DTabs} {env : Env} {c4 c5 : IndexCtx} (h : PInv cenv N rid ps bv gv outer xt dt env c4)
    (hsm : c5.symbolMap = c4.symbolMap) : DInv (closeTab dt rid) c5.symbolMap.recordList.size c5.symbolMap := by
  rw [hsm, ← h.newest]
  refine ⟨fun name id hg => ?_, fun i as hg => ?_, fun a ha => by cases ha⟩
  · obtain ⟨e1, e2, e3⟩ := h.d.names name id hg
    exact ⟨e1, by omega, e3⟩
  · unfold closeTab ancGet at hg
    simp only [List.find?_cons] at hg
    by_cases hi : (rid == i) = true
    · simp only [hi] at hg
      cases hg
      have : rid = i := by simpa using hi
      subst this
      exact ⟨Nat.lt_succ_self _, h.d.own⟩
    · simp only [hi] at hg
      obtain ⟨e1, e2⟩ := h.d.ancs i as hg
      exact ⟨by omega, e2⟩

/-- the record ids after a record body: the table of the body, possibly extended by the record itself -/
theorem PInv.closeX {cenv : CEnv} {N : Std.HashMap String Nat} {rid : Nat} {ps : Params} {bv gv : Env} {outer : List Scope}
    {xt xtOut : XTab} {env : Env} {c4 c5 : IndexCtx} (h : PInv cenv N rid ps bv gv outer xt dt env c4)
    (hout : ∀ nm id, xtOut.get nm = some id → xt.get nm = some id ∨ (N[nm]? = some rid ∧ id = rid))
    (hsm : c5.symbolMap = c4.symbolMap) : XInv xtOut c5.symbolMap.recordList.size c5.symbolMap := by
  intro nm id hg
  rw [hsm]
  rcases hout nm id hg with h1 | ⟨h1, h2⟩
  · exact ⟨(h.x nm id h1).1, by have := (h.x nm id h1).2; have := h.newest; omega⟩
  · subst h2
    exact ⟨by rw [h.ntc]; exact h1, by have := h.newest; omega⟩

/-- the class table after a record body -/
theorem PInv.close {cenv' cenvOut : CEnv} {N : Std.HashMap String Nat} {rid : Nat} {ps : Params} {bv gv : Env} {outer : List Scope} {xt : XTab} {dt : DTabs} {env : Env} {c4 c5 : IndexCtx}
    (h : PInv cenv' N rid ps bv gv outer xt dt env c4)
    (hout : ∀ cname e, cenvOut.get cname = some e →
      cenv'.get cname = some e ∨ (N[cname]? = some rid ∧ e = (ps, env)))
    (hsm : c5.symbolMap = c4.symbolMap) (htr : c5.fileTrace = c4.fileTrace) : TabInv cenvOut c5 := by
  have hT4 : TabInv cenvOut c4 := by
    refine ⟨⟨h.k.older, Nat.le_refl _, fun cname ps' flds hg => ?_⟩, h.trace⟩
    rcases hout cname _ hg with h1 | ⟨h1, h2⟩
    · obtain ⟨cid, e1, e2, e3, e4⟩ := h.k.classes cname ps' flds h1
      exact ⟨cid, e1, by have := h.newest; omega, e3, e4⟩
    · cases h2
      exact ⟨rid, by rw [h.ntc]; exact h1, by have := h.newest; omega, h.tas, h.exact⟩
  refine ⟨?_, by rw [htr]; exact hT4.trace⟩
  rw [hsm]
  exact hT4.k


/-- `class C [: parents] { … }` of the third core; the class table afterwards -/
def coreClass3 (cenv : CEnv) (n : PTree) : Option CEnv :=
  if (Ast.classTemplateArgList n).isNone then
    match Ast.className n with
    | some nameNode =>
      match Ast.identifierValue nameNode, Ast.identifierRange nameNode with
      | some name, some _ =>
        match Ast.classRecordBody n with
        | none => some ((name, some ([], [])) :: cenv)
        | some rb =>
          match coreRecordBody3 ((name, none) :: cenv) rb with
          | some env => some ((name, some ([], env)) :: cenv)
          | none => none
      | _, _ => none
    | none => none
  else none

theorem indexClass3_step (cenv cenv' : CEnv) (n : PTree) (c c' : IndexCtx) (hT : TabInv cenv c)
    (hchk : coreClass3 cenv n = some cenv') (hrun : (indexClass (mkRec (k + 1)) n).run c = .ok ((), c')) :
    c'.diagnostics = c.diagnostics ∧ TabInv cenv' c' := by
  obtain ⟨f, rest, hft⟩ : ∃ f rest, c.fileTrace = f :: rest := by
    cases hc : c.fileTrace with
    | nil => exact absurd hc hT.trace
    | cons f rest => exact ⟨f, rest, rfl⟩
  unfold coreClass3 at hchk
  by_cases hta : (Ast.classTemplateArgList n).isNone = true
  · simp only [hta, if_true] at hchk
    rw [Option.isNone_iff_eq_none] at hta
    cases hnn : Ast.className n with
    | none => rw [hnn] at hchk; cases hchk
    | some nameNode =>
    rw [hnn] at hchk
    simp only at hchk
    cases hiv : Ast.identifierValue nameNode with
    | none => rw [hiv] at hchk; cases hchk
    | some name =>
    cases hir : Ast.identifierRange nameNode with
    | none => rw [hiv, hir] at hchk; cases hchk
    | some se =>
    rw [hiv, hir] at hchk
    simp only at hchk
    have hid := identOf_of f nameNode name se hiv hir
    unfold indexClass at hrun
    rw [hta, hnn] at hrun
    simp only at hrun
    obtain ⟨x1, c1, h1, hrun⟩ := IxM.run_bind_ok hrun
    rw [utilsIdentifier_runOf nameNode c f rest hft, hid] at h1
    cases h1
    simp only at hrun
    obtain ⟨id, c2, h2, hrun⟩ := IxM.run_bind_ok hrun
    have h2' : (addRecord { name := name, kind := .cls, defineLoc := ⟨f, se.1, se.2⟩ } true).run c =
        .ok ((c.symbolMap.addRecord { name := name, kind := .cls, defineLoc := ⟨f, se.1, se.2⟩ } true).1,
          c.setSM (c.symbolMap.addRecord { name := name, kind := .cls, defineLoc := ⟨f, se.1, se.2⟩ } true).2) := rfl
    rw [h2'] at h2
    cases h2
    obtain ⟨t1, t2, t3, t4, t5⟩ := addRecord_tab c.symbolMap { name := name, kind := .cls, defineLoc := ⟨f, se.1, se.2⟩ } true
    simp only at t4
    have ho : OpenedRec { name := name, kind := .cls, defineLoc := ⟨f, se.1, se.2⟩ } c
        (c.setSM (c.symbolMap.addRecord { name := name, kind := .cls, defineLoc := ⟨f, se.1, se.2⟩ } true).2) :=
      ⟨rfl, rfl, t2, t3, t5, addRecord_vars _ _ _, rfl⟩
    obtain ⟨_, c3, h3, hrun⟩ := IxM.run_bind_ok hrun
    rw [t1] at h3
    have hcls : ∀ cname flds, CEnv.get ((name, none) :: cenv) cname = some flds →
        cenv.get cname = some flds ∧
          (c.setSM (c.symbolMap.addRecord { name := name, kind := .cls, defineLoc := ⟨f, se.1, se.2⟩ } true).2).symbolMap.nameToClass[cname]? =
            c.symbolMap.nameToClass[cname]? := by
      intro cname flds hg
      rw [CEnv.get_cons] at hg
      by_cases e : cname = name
      · rw [if_pos e] at hg; cases hg
      · rw [if_neg e] at hg
        refine ⟨hg, ?_⟩
        simp only [IndexCtx.setSM_symbolMap, t4]
        rw [Std.HashMap.getElem?_insert]
        have : (name == cname) = false := by simpa using fun e' => e e'.symm
        simp [this]
    obtain ⟨q3, hinv3⟩ := PInv.ofOpen (cenv' := (name, none) :: cenv) hT (OuterOK.nil _ _) (xt := []) (xt' := []) (XInv.nil _ _)
      (fun _ _ h => by simp [XTab.get] at h) (dtB := {}) (DInv.nil _ _) _ rfl rfl rfl ho hcls h3
    have hN : (c.setSM (c.symbolMap.addRecord { name := name, kind := .cls, defineLoc := ⟨f, se.1, se.2⟩ } true).2).symbolMap.nameToClass[name]? =
        some c.symbolMap.recordList.size := by
      simp only [IndexCtx.setSM_symbolMap, t4]
      simp
    have hclose : ∀ (env : Env) (c4 : IndexCtx), c4.diagnostics = c.diagnostics →
        PInv ((name, none) :: cenv)
          (c.setSM (c.symbolMap.addRecord { name := name, kind := .cls, defineLoc := ⟨f, se.1, se.2⟩ } true).2).symbolMap.nameToClass
          c.symbolMap.recordList.size [] [] [] c.scopes.scopes [] {} env c4 →
        scopesPop.run c4 = .ok ((), c') → c'.diagnostics = c.diagnostics ∧ TabInv ((name, some ([], env)) :: cenv) c' := by
      intro env c4 q4 hinv4 h5
      have s5 := scopesPop_eqs h5
      refine ⟨s5.1.trans q4, hinv4.close ?_ s5.2.2.1 s5.2.1⟩
      intro cname flds hg
      rw [CEnv.get_cons] at hg ⊢
      by_cases e : cname = name
      · rw [if_pos e] at hg
        cases hg
        exact Or.inr ⟨by rw [e]; exact hN, rfl⟩
      · rw [if_neg e] at hg ⊢
        exact Or.inl hg
    cases hb : Ast.classRecordBody n with
    | none =>
      rw [hb] at hrun hchk
      simp only at hrun
      cases hchk
      exact hclose [] c3 q3 hinv3 hrun
    | some rb =>
      rw [hb] at hrun hchk
      simp only at hrun hchk
      cases hrb : coreRecordBody3 ((name, none) :: cenv) rb with
      | none => rw [hrb] at hchk; cases hchk
      | some env =>
        rw [hrb] at hchk
        cases hchk
        obtain ⟨_, c4, h4, hrun⟩ := IxM.run_bind_ok hrun
        obtain ⟨q4, hinv4⟩ := recordBody3_step k _ _ rb _ _ _ _ env c3 c4 hinv3 hrb h4
        exact hclose env c4 (q4.trans q3) hinv4 hrun
  · simp only [hta, Bool.false_eq_true, if_false] at hchk
    cases hchk


/-- `def d [: parents] { … }` of the third core (any name, or anonymous) -/
def coreDef3 (cenv : CEnv) (n : PTree) : Bool :=
  match Ast.defRecordBody n with
  | none => true
  | some rb => (coreRecordBody3 cenv rb).isSome

/-- what `indexDef` got for the name of the def -/
def NamedRun (n : PTree) (named : Option (String × FileRange)) : Prop :=
  (∃ nv ca cb, Ast.defName n = some nv ∧ (indexNameValue nv).run ca = .ok (named, cb)) ∨
  (Ast.defName n = none ∧ named = none)

/-- what `indexDef` did to `nameToDef` when it allocated the record `r` -/
def DefBranch (n : PTree) (c : IndexCtx) (r : Record) (c3 c5 : IndexCtx) : Prop :=
  ∃ named, NamedRun n named ∧ c3.symbolMap.nameToDef = c.symbolMap.nameToDef ∧
    ((c.scopes.currentMulticlassId.isSome = true ∧ c5.symbolMap.nameToDef = c3.symbolMap.nameToDef) ∨
     (∃ loc, named = some (r.name, loc) ∧
        c5.symbolMap.nameToDef = c3.symbolMap.nameToDef.insert r.name c3.symbolMap.recordList.size) ∨
     (named = none ∧ c5.symbolMap.nameToDef = c3.symbolMap.nameToDef))

/-- the ancestors filed for the def -/
def defOwn (ownFn : PTree → List Nat) (n : PTree) : List Nat :=
  match Ast.defRecordBody n with
  | some rb => ownFn rb
  | none => []

/-- `def`, for any checker `chk` of record bodies that is sound in the state right after the record was opened -/
theorem indexDefG_step (cenv : CEnv) (chk : PTree → Option Env) (gv : Env) (xt : XTab) (dtB : DTabs) (ownFn : PTree → List Nat)
    (sc0 : List Scope)
    (hbody : ∀ (rb : PTree) (env : Env) (N : Std.HashMap String Nat) (rid : Nat) (outer : List Scope) (c6 c7 : IndexCtx),
      outer = sc0 → PInv cenv N rid [] [] gv outer xt dtB [] c6 → chk rb = some env → (indexRecordBody (mkRec (k + 1)) rb).run c6 = .ok ((), c7) →
      c7.diagnostics = c6.diagnostics ∧ ∃ bv, PInv cenv N rid [] bv gv outer xt { dtB with own := ownFn rb } env c7)
    (n : PTree) (c c' : IndexCtx) (hT : TabInv cenv c) (houter : OuterOK c.symbolMap c.scopes.scopes gv)
    (hsc : c.scopes.scopes = sc0)
    (hxt : XInv xt c.symbolMap.recordList.size c.symbolMap) (hown : dtB.own = [])
    (hopen : ∀ (r : Record) (c3 c5 : IndexCtx), SameTab c c3 → OpenedRec r c3 c5 → r.kind = .def_ → r.parentList = #[] →
      DefBranch n c r c3 c5 → DInv dtB c3.symbolMap.recordList.size c5.symbolMap)
    (hchk : ∀ rb, Ast.defRecordBody n = some rb → (chk rb).isSome = true)
    (hrun : (indexDef (mkRec (k + 1)) n).run c = .ok ((), c')) :
    c'.diagnostics = c.diagnostics ∧ TabInv cenv c' ∧
      ((Ast.defRecordBody n).isSome = true → c'.scopes.scopes = c.scopes.scopes) ∧
      XInv xt c'.symbolMap.recordList.size c'.symbolMap ∧
      c'.symbolMap.recordList.size = c.symbolMap.recordList.size + 1 ∧
      DInv (closeTab { dtB with own := defOwn ownFn n } c.symbolMap.recordList.size) c'.symbolMap.recordList.size c'.symbolMap := by
  have hfin : ∀ (r : Record) (c3 c5 c6 : IndexCtx), SameTab c c3 → r.parentList = #[] → r.nameToRecordField = #[] →
      r.nameToTemplateArg = #[] → OpenedRec r c3 c5 → c5.symbolMap.nameToClass = c3.symbolMap.nameToClass →
      DInv dtB c3.symbolMap.recordList.size c5.symbolMap →
      (scopesPush (.record c3.symbolMap.recordList.size)).run c5 = .ok ((), c6) →
      (∀ rb, Ast.defRecordBody n = some rb → ∃ c7, (indexRecordBody (mkRec (k + 1)) rb).run c6 = .ok ((), c7) ∧
        scopesPop.run c7 = .ok ((), c')) →
      (Ast.defRecordBody n = none → c' = c6) → c'.diagnostics = c.diagnostics ∧ TabInv cenv c' ∧
        ((Ast.defRecordBody n).isSome = true → c'.scopes.scopes = c.scopes.scopes) ∧
        XInv xt c'.symbolMap.recordList.size c'.symbolMap ∧
        c'.symbolMap.recordList.size = c.symbolMap.recordList.size + 1 ∧
        DInv (closeTab { dtB with own := defOwn ownFn n } c.symbolMap.recordList.size) c'.symbolMap.recordList.size
          c'.symbolMap := by
    intro r c3 c5 c6 p3 hr1 hr2 hr3 ho hntc hdB h6 hsome hnone
    have houter3 : OuterOK c3.symbolMap c3.scopes.scopes gv := by
      rw [p3.2.2.2.2.2.2.2]
      exact houter.mono (fun i x hx => by rw [p3.2.2.2.2.2.2.1]; exact hx)
    have hx3 : XInv xt c3.symbolMap.recordList.size c3.symbolMap :=
      hxt.mono (by rw [p3.2.2.1]; exact Nat.le_refl _) (fun _ _ _ => by rw [p3.2.2.2.2.1])
    have hsz3 : c3.symbolMap.recordList.size = c.symbolMap.recordList.size := by rw [p3.2.2.1]
    obtain ⟨q6, hinv6⟩ := PInv.ofOpen (cenv' := cenv) (hT.same p3) houter3 (xt := xt) (xt' := xt) hx3
      (fun nm id hg => ⟨hg, by rw [hntc]⟩) hdB r hr1 hr2 hr3 ho
      (fun cname flds hg => ⟨hg, by rw [hntc]⟩) h6
    cases hb : Ast.defRecordBody n with
    | none =>
      rw [hnone hb]
      have hcl := hinv6.closeD (c5 := c6) rfl
      have e : ({ dtB with own := defOwn ownFn n } : DTabs) = dtB := by
        unfold defOwn; rw [hb]; cases dtB; simp only at hown; subst hown; rfl
      rw [e, ← hsz3]
      exact ⟨q6.trans p3.1, hinv6.close (fun _ _ hg => Or.inl hg) rfl rfl, (fun h => by cases h),
        hinv6.closeX (fun _ _ hg => Or.inl hg) rfl, by rw [← hinv6.newest], hcl⟩
    | some rb =>
      have hchk' := hchk rb hb
      simp only [Option.isSome_iff_exists] at hchk'
      obtain ⟨env, hrb⟩ := hchk'
      obtain ⟨c7, h7, h8⟩ := hsome rb hb
      obtain ⟨q7, bv7, hinv7⟩ := hbody rb env _ _ _ c6 c7 (by rw [p3.2.2.2.2.2.2.2]; exact hsc) hinv6 hrb h7
      have s8 := scopesPop_eqs h8
      have hcl := hinv7.closeD s8.2.2.1
      have e : defOwn ownFn n = ownFn rb := by unfold defOwn; rw [hb]
      rw [e, ← hsz3]
      exact ⟨((s8.1.trans q7).trans q6).trans p3.1, hinv7.close (fun _ _ hg => Or.inl hg) s8.2.2.1 s8.2.1,
        (fun _ => by rw [hinv7.popped h8, p3.2.2.2.2.2.2.2]), hinv7.closeX (fun _ _ hg => Or.inl hg) s8.2.2.1,
        by rw [s8.2.2.1, ← hinv7.newest], hcl⟩
  unfold indexDef at hrun
  obtain ⟨ds, c1, h1, hrun⟩ := IxM.run_bind_ok hrun
  have p1 : SameTab c c1 := same_defDefset.run _ _ _ h1
  have q1 : SameDefs c c1 := defs_defDefset.run _ _ _ h1
  dsimp only at hrun
  split at hrun
  all_goals
    obtain ⟨named, c2, h2, hrun⟩ := IxM.run_bind_ok hrun
    have p2 : SameTab c c2 := by
      first
        | exact KeepRel.trans p1 ((same_indexNameValue _).run _ _ _ h2)
        | (have e : c2 = c1 := by cases h2; rfl
           rw [e]; exact p1)
    have q2 : SameDefs c c2 := by
      first
        | exact KeepRel.trans q1 ((defs_indexNameValue _).run _ _ _ h2)
        | (have e : c2 = c1 := by cases h2; rfl
           rw [e]; exact q1)
    have hnr : NamedRun n named := by
      first
        | exact Or.inl ⟨_, _, _, by assumption, h2⟩
        | exact Or.inr ⟨by assumption, by cases h2; rfl⟩
    split at hrun
    · rename_i name loc
      obtain ⟨m, c3, h3, hrun⟩ := IxM.run_bind_ok hrun
      have p3 : SameTab c c3 := KeepRel.trans p2 (same_currentMulticlassId.run _ _ _ h3)
      have q3 : c3.symbolMap.nameToDef = c.symbolMap.nameToDef :=
        KeepRel.trans (R := SameDefs) q2 (defs_currentMulticlassId.run _ _ _ h3)
      have hmcur : m = c2.scopes.currentMulticlassId := by cases h3; rfl
      split at hrun
      · obtain ⟨id, c4, h4, hrun⟩ := IxM.run_bind_ok hrun
        have h4' : (addMulticlassDef { name := name, kind := .def_, defineLoc := loc }).run c3 =
            .ok ((c3.symbolMap.addMulticlassDef { name := name, kind := .def_, defineLoc := loc }).1,
              c3.setSM (c3.symbolMap.addMulticlassDef { name := name, kind := .def_, defineLoc := loc }).2) := rfl
        rw [h4'] at h4
        cases h4
        obtain ⟨t1, t2, t3, t4, t5⟩ := addMulticlassDef_tab c3.symbolMap { name := name, kind := .def_, defineLoc := loc }
        have ho : OpenedRec { name := name, kind := .def_, defineLoc := loc } c3
            (c3.setSM (c3.symbolMap.addMulticlassDef { name := name, kind := .def_, defineLoc := loc }).2) :=
          ⟨rfl, rfl, t2, t3, t5, addMulticlassDef_vars _ _, rfl⟩
        split at hrun
        · obtain ⟨_, c5, h5, hrun⟩ := IxM.run_bind_ok hrun
          have s5 := (same_defsetMut _ _).run _ _ _ h5
          obtain ⟨_, c6, h6, hrun⟩ := IxM.run_bind_ok hrun
          refine hfin _ c3 c5 c6 p3 rfl rfl rfl (ho.same s5) (s5.2.2.2.2.1.trans t4)
            (hopen _ c3 c5 p3 (ho.same s5) rfl rfl ⟨_, hnr, q3, Or.inl ⟨by rw [← p2.2.2.2.2.2.2.2, ← hmcur]; assumption, (((by cases h5; rfl) : _ = _).trans (addMulticlassDef_nameToDef _ _))⟩⟩) h6 ?_ ?_
          · intro rb hb
            rw [hb] at hrun
            simp only at hrun
            obtain ⟨_, c7, h7, h8⟩ := IxM.run_bind_ok hrun
            exact ⟨c7, h7, h8⟩
          · intro hb
            rw [hb] at hrun
            cases hrun; rfl
        · obtain ⟨_, c6, h6, hrun⟩ := IxM.run_bind_ok hrun
          refine hfin _ c3 _ c6 p3 rfl rfl rfl ho t4
            (hopen _ c3 _ p3 ho rfl rfl ⟨_, hnr, q3, Or.inl ⟨by rw [← p2.2.2.2.2.2.2.2, ← hmcur]; assumption, ((rfl : _ = _).trans (addMulticlassDef_nameToDef _ _))⟩⟩) h6 ?_ ?_
          · intro rb hb
            rw [hb] at hrun
            simp only at hrun
            obtain ⟨_, c7, h7, h8⟩ := IxM.run_bind_ok hrun
            exact ⟨c7, h7, h8⟩
          · intro hb
            rw [hb] at hrun
            cases hrun; rfl
      · obtain ⟨id, c4, h4, hrun⟩ := IxM.run_bind_ok hrun
        have h4' : (addRecord { name := name, kind := .def_, defineLoc := loc } ds.isNone).run c3 =
            .ok ((c3.symbolMap.addRecord { name := name, kind := .def_, defineLoc := loc } ds.isNone).1,
              c3.setSM (c3.symbolMap.addRecord { name := name, kind := .def_, defineLoc := loc } ds.isNone).2) := rfl
        rw [h4'] at h4
        cases h4
        obtain ⟨t1, t2, t3, t4, t5⟩ := addRecord_tab c3.symbolMap { name := name, kind := .def_, defineLoc := loc } ds.isNone
        simp only at t4
        have ho : OpenedRec { name := name, kind := .def_, defineLoc := loc } c3
            (c3.setSM (c3.symbolMap.addRecord { name := name, kind := .def_, defineLoc := loc } ds.isNone).2) :=
          ⟨rfl, rfl, t2, t3, t5, addRecord_vars _ _ _, rfl⟩
        split at hrun
        · obtain ⟨_, c5, h5, hrun⟩ := IxM.run_bind_ok hrun
          have s5 := (same_defsetMut _ _).run _ _ _ h5
          obtain ⟨_, c6, h6, hrun⟩ := IxM.run_bind_ok hrun
          refine hfin _ c3 c5 c6 p3 rfl rfl rfl (ho.same s5) (s5.2.2.2.2.1.trans t4)
            (hopen _ c3 c5 p3 (ho.same s5) rfl rfl ⟨_, hnr, q3, Or.inr (Or.inl ⟨loc, rfl, (((by cases h5; rfl) : _ = _).trans ((addRecord_nameToDef _ _ _).trans rfl))⟩)⟩) h6 ?_ ?_
          · intro rb hb
            rw [hb] at hrun
            simp only at hrun
            obtain ⟨_, c7, h7, h8⟩ := IxM.run_bind_ok hrun
            exact ⟨c7, h7, h8⟩
          · intro hb
            rw [hb] at hrun
            cases hrun; rfl
        · obtain ⟨_, c6, h6, hrun⟩ := IxM.run_bind_ok hrun
          refine hfin _ c3 _ c6 p3 rfl rfl rfl ho t4
            (hopen _ c3 _ p3 ho rfl rfl ⟨_, hnr, q3, Or.inr (Or.inl ⟨loc, rfl, ((rfl : _ = _).trans ((addRecord_nameToDef _ _ _).trans rfl))⟩)⟩) h6 ?_ ?_
          · intro rb hb
            rw [hb] at hrun
            simp only at hrun
            obtain ⟨_, c7, h7, h8⟩ := IxM.run_bind_ok hrun
            exact ⟨c7, h7, h8⟩
          · intro hb
            rw [hb] at hrun
            cases hrun; rfl
    · obtain ⟨nm, c2a, h2a, hrun⟩ := IxM.run_bind_ok hrun
      have p2a : SameTab c c2a := KeepRel.trans p2 (same_nextAnonymousDefName.run _ _ _ h2a)
      obtain ⟨f, c3, h3, hrun⟩ := IxM.run_bind_ok hrun
      have p3 : SameTab c c3 := KeepRel.trans p2a ((currentFileId_keeps (R := SameTab)).run _ _ _ h3)
      have q3 : c3.symbolMap.nameToDef = c.symbolMap.nameToDef :=
        KeepRel.trans (R := SameDefs) (KeepRel.trans (R := SameDefs) q2 (defs_nextAnonymousDefName.run _ _ _ h2a))
          ((currentFileId_keeps (R := SameDefs)).run _ _ _ h3)
      obtain ⟨id, c4, h4, hrun⟩ := IxM.run_bind_ok hrun
      have h4' : (addAnonymousDef { name := nm, kind := .def_, defineLoc := ⟨f, n.start, n.stop⟩ }).run c3 =
          .ok ((c3.symbolMap.addAnonymousDef { name := nm, kind := .def_, defineLoc := ⟨f, n.start, n.stop⟩ }).1,
            c3.setSM (c3.symbolMap.addAnonymousDef { name := nm, kind := .def_, defineLoc := ⟨f, n.start, n.stop⟩ }).2) := rfl
      rw [h4'] at h4
      cases h4
      obtain ⟨t1, t2, t3, t4, t5⟩ := addAnonymousDef_tab c3.symbolMap { name := nm, kind := .def_, defineLoc := ⟨f, n.start, n.stop⟩ }
      have ho : OpenedRec { name := nm, kind := .def_, defineLoc := ⟨f, n.start, n.stop⟩ } c3
          (c3.setSM (c3.symbolMap.addAnonymousDef { name := nm, kind := .def_, defineLoc := ⟨f, n.start, n.stop⟩ }).2) :=
        ⟨rfl, rfl, t2, t3, t5, addAnonymousDef_vars _ _, rfl⟩
      obtain ⟨_, c6, h6, hrun⟩ := IxM.run_bind_ok hrun
      refine hfin _ c3 _ c6 p3 rfl rfl rfl ho t4
        (hopen _ c3 _ p3 ho rfl rfl ⟨_, hnr, q3, Or.inr (Or.inr ⟨rfl, ((rfl : _ = _).trans (addAnonymousDef_nameToDef _ _))⟩)⟩) h6 ?_ ?_
      · intro rb hb
        rw [hb] at hrun
        simp only at hrun
        obtain ⟨_, c7, h7, h8⟩ := IxM.run_bind_ok hrun
        exact ⟨c7, h7, h8⟩
      · intro hb
        rw [hb] at hrun
        cases hrun; rfl

theorem indexDef3_step (cenv : CEnv) (n : PTree) (c c' : IndexCtx) (hT : TabInv cenv c) (hchk : coreDef3 cenv n = true)
    (hrun : (indexDef (mkRec (k + 1)) n).run c = .ok ((), c')) : c'.diagnostics = c.diagnostics ∧ TabInv cenv c' := by
  suffices h : c'.diagnostics = c.diagnostics ∧ TabInv cenv c' ∧
      ((Ast.defRecordBody n).isSome = true → c'.scopes.scopes = c.scopes.scopes) ∧
      XInv [] c'.symbolMap.recordList.size c'.symbolMap ∧
      c'.symbolMap.recordList.size = c.symbolMap.recordList.size + 1 from ⟨h.1, h.2.1⟩
  have h := indexDefG_step k cenv (coreRecordBody3 cenv) [] [] {} (fun _ => []) c.scopes.scopes
    (fun rb env N rid outer c6 c7 _ hinv hrb h7 =>
      let ⟨q, hi⟩ := recordBody3_step k cenv N rb rid outer [] {} env c6 c7 hinv hrb h7
      ⟨q, [], hi⟩) n c c' hT (OuterOK.nil _ _) rfl (XInv.nil _ _) rfl (fun _ _ _ _ _ _ _ _ => DInv.nil _ _) ?_ hrun
  · exact ⟨h.1, h.2.1, h.2.2.1, h.2.2.2.1, h.2.2.2.2.1⟩
  intro rb hb
  unfold coreDef3 at hchk
  rw [hb] at hchk
  exact hchk

/-- one statement of the third core; the class table afterwards -/
def coreStatement3 (cenv : CEnv) (s : PTree) : Option CEnv :=
  if s.kind == .Class then coreClass3 cenv s
  else if s.kind == .Def && coreDef3 cenv s then some cenv
  else none

def coreStatements3 : CEnv → List PTree → Bool
  | _, [] => true
  | cenv, s :: rest =>
    match coreStatement3 cenv s with
    | some cenv' => coreStatements3 cenv' rest
    | none => false

/-- **the third core**: `class` / `def` statements without template parameters (`Props/C13.lean`,
`coreProgramB`, has the full description); the parent lists name
classes declared earlier in the list (the latest declaration of a name counts), without arguments;
the bodies consist of field definitions `T x [= init];` (`T` primitive) and `let f [{ranges}] = init;`
where `f` is a field of the record - declared earlier in the body or inherited - and `init` is a
literal, or the name of such a field, castable to the declared type (for `let` with a range list: to
the type of the selected bits) -/
def coreStatementList3 (sl : PTree) : Bool := coreStatements3 [] (Ast.statementListStatements sl)

theorem indexStatement3_step (cenv cenv' : CEnv) (s : PTree) (c c' : IndexCtx) (hT : TabInv cenv c)
    (hchk : coreStatement3 cenv s = some cenv')
    (hrun : (indexStatement (mkRec (k + 1)) s).run c = .ok ((), c')) : c'.diagnostics = c.diagnostics ∧ TabInv cenv' c' := by
  unfold coreStatement3 at hchk
  unfold indexStatement at hrun
  by_cases hk : s.kind = .Class
  · simp only [hk, beq_self_eq_true, if_true] at hchk
    simp only [hk] at hrun
    exact indexClass3_step k cenv cenv' s c c' hT hchk hrun
  · have hk1 : (s.kind == SyntaxKind.Class) = false := by simpa using hk
    simp only [hk1, Bool.false_eq_true, if_false] at hchk
    by_cases hd : (s.kind == .Def && coreDef3 cenv s) = true
    · simp only [hd, if_true] at hchk
      cases hchk
      simp only [Bool.and_eq_true, beq_iff_eq] at hd
      simp only [hd.1] at hrun
      exact indexDef3_step k cenv s c c' hT hd.2 hrun
    · simp only [hd, Bool.false_eq_true, if_false] at hchk
      cases hchk

theorem TabInv.init (c : IndexCtx) (hsm : c.symbolMap = {}) (htr : c.fileTrace ≠ []) : TabInv [] c := by
  refine ⟨⟨?_, Nat.le_refl _, ?_⟩, htr⟩
  · intro i hi
    rw [hsm] at hi
    exact absurd hi (Nat.not_lt_zero _)
  · intro cname ps flds hg
    simp [CEnv.get] at hg

theorem indexStatementList3_quiet (sl : PTree) (hchk : coreStatementList3 sl = true) (c c' : IndexCtx)
    (hsm : c.symbolMap = {}) (htr : c.fileTrace ≠ []) (hrun : ((mkRec (k + 2)).statementList sl).run c = .ok ((), c')) :
    c'.diagnostics = c.diagnostics := by
  have hrun' : (indexStatementList (mkRec (k + 1)) sl).run c = .ok ((), c') := hrun
  unfold indexStatementList at hrun'
  unfold coreStatementList3 at hchk
  obtain ⟨u, c'', hloop, hpure⟩ := IxM.run_bind_ok hrun'
  simp only [StateT.run_pure] at hpure
  cases hpure
  have hT := TabInv.init c hsm htr
  clear hrun hrun' hsm htr
  generalize Ast.statementListStatements sl = l at hchk hloop
  generalize ([] : CEnv) = cenv at hchk hT
  induction l generalizing c cenv with
  | nil =>
    simp only [List.forIn_nil, StateT.run_pure] at hloop
    cases hloop; rfl
  | cons s rest ih =>
    rw [List.forIn_cons] at hloop
    obtain ⟨st, c1, h1, hloop⟩ := IxM.run_bind_ok hloop
    obtain ⟨_, c1', j1, j2⟩ := IxM.run_bind_ok h1
    simp only [StateT.run_pure] at j2
    cases j2
    unfold coreStatements3 at hchk
    cases hs : coreStatement3 cenv s with
    | none => rw [hs] at hchk; cases hchk
    | some cenv1 =>
      rw [hs] at hchk
      obtain ⟨q1, hT1⟩ := indexStatement3_step k cenv cenv1 s c c1 hT hs j1
      have q2 : c'.diagnostics = c1.diagnostics := by
        apply ih <;> first | exact hloop | exact hchk | exact hT1
      exact q2.trans q1

end core3
end Ide
end Tg
