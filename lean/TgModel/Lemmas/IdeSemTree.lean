/-
Well-formedness of the positioned syntax tree (`PTree.WF`: the offsets tile, what `PTree.ofTree`
produces), well-formed cursors and the offsets seen by the rowan navigation primitives.
-/
import TgModel.Ide.Handlers
namespace Tg
namespace Ide

/-- the children tile `[s, e]`: each starts where the previous one stops -/
def STiles : Nat → Nat → List PTree → Prop
  | s, e, [] => s = e
  | s, e, c :: cs => c.start = s ∧ STiles c.stop e cs

/-- offsets and heights are consistent (what `PTree.ofTree` produces) -/
inductive PTree.WF : PTree → Prop
  | token (k : SyntaxKind) (s e : Nat) (text : String) (h : e = s + byteLen text.toList) :
      PTree.WF (.token k s e text)
  | node (k : SyntaxKind) (s e h : Nat) (cs : Array PTree) (ht : STiles s e cs.toList)
      (hh : ∀ c, c ∈ cs → c.height < h) (hc : ∀ c, c ∈ cs → PTree.WF c) : PTree.WF (.node k s e h cs)

theorem STiles.le {l : List PTree} {s e : Nat} (hl : ∀ c ∈ l, c.start ≤ c.stop) (h : STiles s e l) : s ≤ e := by
  induction l generalizing s with
  | nil => exact Nat.le_of_eq h
  | cons c t iht =>
    obtain ⟨h1, h2⟩ := h
    have := iht (fun x hx => hl x (List.mem_cons_of_mem _ hx)) h2
    have := hl c List.mem_cons_self
    omega

theorem PTree.WF.le {t : PTree} (h : t.WF) : t.start ≤ t.stop := by
  induction h with
  | token k s e text h => simp [PTree.start, PTree.stop, h]
  | node k s e h cs ht hh hc ih =>
    simp only [PTree.start, PTree.stop]
    exact ht.le (fun c hc' => (ih c (Array.mem_toList_iff.1 hc')))

theorem STiles.append {l1 l2 : List PTree} {s m e : Nat} (h1 : STiles s m l1) (h2 : STiles m e l2) :
    STiles s e (l1 ++ l2) := by
  induction l1 generalizing s with
  | nil => cases h1; exact h2
  | cons c t ih => exact ⟨h1.1, ih h1.2⟩

mutual
theorem ofTreeAt_wf : ∀ (t : Tree) (pos : Nat),
    (ofTreeAt t pos).1.WF ∧ (ofTreeAt t pos).1.start = pos ∧ (ofTreeAt t pos).1.stop = (ofTreeAt t pos).2
  | .token k text, pos => by
    simp only [ofTreeAt, PTree.start, PTree.stop, and_self, and_true]
    exact PTree.WF.token _ _ _ _ (by simp)
  | .node k cs, pos => by
    simp only [ofTreeAt]
    obtain ⟨news, h1, h2, h3, h4⟩ := ofTreesAt_wf cs pos #[] 0
    refine ⟨?_, rfl, rfl⟩
    refine PTree.WF.node _ _ _ _ _ ?_ ?_ ?_
    · rw [h1]; simpa using h2
    · intro c hc
      rw [h1] at hc
      exact Nat.lt_succ_of_le (h3 c (by simpa using hc)).2
    · intro c hc
      rw [h1] at hc
      exact (h3 c (by simpa using hc)).1
theorem ofTreesAt_wf : ∀ (ts : List Tree) (pos : Nat) (acc : Array PTree) (h : Nat),
    ∃ news : List PTree, (ofTreesAt ts pos acc h).1 = acc ++ news.toArray ∧
      STiles pos (ofTreesAt ts pos acc h).2.1 news ∧
      (∀ c ∈ news, c.WF ∧ c.height ≤ (ofTreesAt ts pos acc h).2.2) ∧ h ≤ (ofTreesAt ts pos acc h).2.2
  | [], pos, acc, h => ⟨[], by simp [ofTreesAt], by simp [ofTreesAt, STiles], by simp, by simp [ofTreesAt]⟩
  | t :: ts, pos, acc, h => by
    simp only [ofTreesAt]
    obtain ⟨w1, w2, w3⟩ := ofTreeAt_wf t pos
    obtain ⟨news, h1, h2, h3, h4⟩ := ofTreesAt_wf ts (ofTreeAt t pos).2 (acc.push (ofTreeAt t pos).1) (max h (ofTreeAt t pos).1.height)
    refine ⟨(ofTreeAt t pos).1 :: news, ?_, ?_, ?_, ?_⟩
    · rw [h1]; simp
    · exact ⟨w2, by rw [w3]; exact h2⟩
    · intro c hc
      rcases List.mem_cons.1 hc with rfl | hc
      · exact ⟨w1, by omega⟩
      · exact h3 c hc
    · omega
end

theorem PTree.ofTree_wf (t : Tree) : (PTree.ofTree t).WF ∧ (PTree.ofTree t).start = 0 :=
  ⟨(ofTreeAt_wf t 0).1, (ofTreeAt_wf t 0).2.1⟩

/-! ### offsets of the children of a well-formed node -/

theorem STiles.head {l : List PTree} {s e : Nat} {a : PTree} (h : STiles s e l) (h0 : l[0]? = some a) :
    a.start = s := by
  cases l with
  | nil => simp at h0
  | cons c t => simp at h0; subst h0; exact h.1

theorem STiles.adj {l : List PTree} {s e : Nat} {a b : PTree} {i : Nat} (h : STiles s e l)
    (ha : l[i]? = some a) (hb : l[i + 1]? = some b) : a.stop = b.start := by
  induction l generalizing s i with
  | nil => simp at ha
  | cons c t ih =>
    cases i with
    | zero =>
      simp at ha hb; subst ha
      exact (h.2.head hb).symm
    | succ i =>
      simp at ha hb
      exact ih h.2 ha hb

theorem STiles.last {l : List PTree} {s e : Nat} {a : PTree} (h : STiles s e l)
    (ha : l[l.length - 1]? = some a) : a.stop = e := by
  induction l generalizing s with
  | nil => simp at ha
  | cons c t ih =>
    cases t with
    | nil => simp at ha; subst ha; exact h.2
    | cons d t' =>
      simp only [List.length_cons, Nat.add_sub_cancel] at ha ih
      rw [List.getElem?_cons_succ] at ha
      exact ih h.2 ha

theorem STiles.bounds {l : List PTree} {s e : Nat} (hl : ∀ c ∈ l, c.start ≤ c.stop) (h : STiles s e l)
    {a : PTree} (ha : a ∈ l) : s ≤ a.start ∧ a.stop ≤ e := by
  induction l generalizing s with
  | nil => cases ha
  | cons c t ih =>
    have hle := h.2.le (fun x hx => hl x (List.mem_cons_of_mem _ hx))
    rcases List.mem_cons.1 ha with rfl | ha
    · exact ⟨Nat.le_of_eq h.1.symm, hle⟩
    · have := ih (fun x hx => hl x (List.mem_cons_of_mem _ hx)) h.2 ha
      have := hl c List.mem_cons_self
      have := h.1
      omega

/-- elements at `i < j` are ordered -/
theorem STiles.ordered {l : List PTree} {s e : Nat} (hl : ∀ c ∈ l, c.start ≤ c.stop) (h : STiles s e l)
    {a b : PTree} {i j : Nat} (hij : i < j) (ha : l[i]? = some a) (hb : l[j]? = some b) :
    a.stop ≤ b.start := by
  induction l generalizing s i j with
  | nil => simp at ha
  | cons c t ih =>
    cases j with
    | zero => omega
    | succ j =>
      simp only [List.getElem?_cons_succ] at hb
      cases i with
      | zero =>
        simp at ha; subst ha
        exact (h.2.bounds (fun x hx => hl x (List.mem_cons_of_mem _ hx)) (List.mem_of_getElem? hb)).1
      | succ i =>
        simp only [List.getElem?_cons_succ] at ha
        exact ih (fun x hx => hl x (List.mem_cons_of_mem _ hx)) h.2 (by omega) ha hb

/-! ### well-formed cursors -/

/-- the path recorded in `up` is a path in the tree -/
def UpOK : PTree → List (PTree × Nat) → Prop
  | _, [] => True
  | t, (p, i) :: rest => p.children[i]? = some t ∧ UpOK p rest

/-- the cursor's path is a path of a well-formed tree -/
structure Cursor.SOK (c : Cursor) : Prop where
  up : UpOK c.here c.up
  wf : c.here.WF
  upwf : ∀ p ∈ c.up, p.1.WF

theorem Cursor.SOK.root {t : PTree} (h : t.WF) : (Cursor.root t).SOK :=
  ⟨trivial, h, fun _ hp => by cases hp⟩

theorem PTree.WF.child {t ch : PTree} {i : Nat} (h : t.WF) (hc : t.children[i]? = some ch) :
    ch.WF ∧ ch.height < t.height := by
  cases h with
  | token => simp [PTree.children] at hc
  | node k s e h cs ht hh hw =>
    simp only [PTree.children] at hc
    have hm : ch ∈ cs := Array.mem_of_getElem? hc
    exact ⟨hw ch hm, hh ch hm⟩

theorem Cursor.SOK.child {c ch : Cursor} {i : Nat} (h : c.SOK) (hc : c.child i = some ch) : ch.SOK := by
  unfold Cursor.child at hc
  cases hx : c.here.children[i]? with
  | none => rw [hx] at hc; cases hc
  | some x =>
    rw [hx] at hc
    simp only [Option.map_some, Option.some.injEq] at hc
    subst hc
    refine ⟨⟨hx, h.up⟩, (h.wf.child hx).1, ?_⟩
    intro p hp
    rcases List.mem_cons.1 hp with rfl | hp
    · exact h.wf
    · exact h.upwf p hp

theorem Cursor.child_here {c ch : Cursor} {i : Nat} (hc : c.child i = some ch) :
    c.here.children[i]? = some ch.here ∧ ch.up = (c.here, i) :: c.up := by
  unfold Cursor.child at hc
  cases hx : c.here.children[i]? with
  | none => rw [hx] at hc; cases hc
  | some x =>
    rw [hx] at hc
    simp only [Option.map_some, Option.some.injEq] at hc
    subst hc
    exact ⟨rfl, rfl⟩

theorem Cursor.SOK.parent {c p : Cursor} (h : c.SOK) (hp : c.parent = some p) :
    p.SOK ∧ ∃ i, p.child i = some c := by
  unfold Cursor.parent at hp
  split at hp
  · cases hp
  · rename_i q i rest hup
    cases hp
    have hu := h.up
    rw [hup] at hu
    refine ⟨⟨hu.2, h.upwf (q, i) (by rw [hup]; exact List.mem_cons_self), fun x hx => h.upwf x (by rw [hup]; exact List.mem_cons_of_mem _ hx)⟩, i, ?_⟩
    unfold Cursor.child
    simp only [hu.1, Option.map_some, Option.some.injEq]
    cases c
    simp_all

/-- the children of a well-formed node tile its range -/
theorem PTree.WF.tiles {t : PTree} (h : t.WF) (hn : t.isNode = true) :
    STiles t.start t.stop t.children.toList := by
  cases h with
  | token => simp [PTree.isNode] at hn
  | node k s e h cs ht hh hw => exact ht

theorem PTree.WF.children_le {t : PTree} (h : t.WF) : ∀ c ∈ t.children.toList, c.start ≤ c.stop := by
  cases h with
  | token => intro c hc; simp [PTree.children] at hc
  | node k s e h cs ht hh hw => intro c hc; exact (hw c (Array.mem_toList_iff.1 hc)).le

theorem PTree.isNode_of_children {t ch : PTree} {i : Nat} (hc : t.children[i]? = some ch) : t.isNode = true := by
  cases t with
  | token => simp [PTree.children] at hc
  | node => rfl


/-! ### navigation -/

theorem Cursor.SOK.prevSibling {c e : Cursor} (h : c.SOK) (he : c.prevSiblingOrToken = some e) :
    e.SOK ∧ e.here.stop = c.here.start ∧
      ∃ p i rest, c.up = (p, i + 1) :: rest ∧ e.up = (p, i) :: rest ∧ p.children[i]? = some e.here := by
  unfold Cursor.prevSiblingOrToken at he
  split at he
  · rename_i p i rest hup
    cases hx : p.children[i]? with
    | none => rw [hx] at he; cases he
    | some x =>
      rw [hx] at he
      simp only [Option.map_some, Option.some.injEq] at he
      subst he
      have hu := h.up
      rw [hup] at hu
      have hpwf : p.WF := h.upwf (p, i + 1) (by rw [hup]; exact List.mem_cons_self)
      refine ⟨⟨⟨hx, hu.2⟩, (hpwf.child hx).1, ?_⟩, ?_, p, i, rest, hup, rfl, hx⟩
      · intro q hq
        rcases List.mem_cons.1 hq with rfl | hq
        · exact hpwf
        · exact h.upwf q (by rw [hup]; exact List.mem_cons_of_mem _ hq)
      · have ht := hpwf.tiles (PTree.isNode_of_children hx)
        exact ht.adj (by simpa using hx) (by simpa using hu.1)
  · cases he

theorem Cursor.lastTokenGo_spec (fuel : Nat) {c t : Cursor} (h : c.SOK)
    (ht : Cursor.lastTokenGo fuel c = some t) :
    t.SOK ∧ t.here.isToken = true ∧ t.here.stop = c.here.stop := by
  induction fuel generalizing c with
  | zero => cases ht
  | succ fuel ih =>
    unfold Cursor.lastTokenGo at ht
    split at ht
    · cases ht
      rename_i heq
      exact ⟨h, by rw [heq]; rfl, rfl⟩
    · rename_i k s e hh cs heq
      split at ht
      · cases ht
      · rename_i hne
        split at ht
        · cases ht
        · rename_i ch hch
          obtain ⟨h1, h2, h3⟩ := ih (h.child hch) ht
          refine ⟨h1, h2, ?_⟩
          rw [h3]
          obtain ⟨hc1, _⟩ := Cursor.child_here hch
          have ht := h.wf.tiles (PTree.isNode_of_children hc1)
          rw [heq] at hc1 ht
          simp only [PTree.children, PTree.start, PTree.stop] at hc1 ht
          rw [heq]
          simp only [PTree.stop]
          exact ht.last (by simpa using hc1)

theorem Cursor.SOK.lastToken {c t : Cursor} (h : c.SOK) (ht : c.lastToken = some t) :
    t.SOK ∧ t.here.isToken = true ∧ t.here.stop = c.here.stop :=
  Cursor.lastTokenGo_spec _ h ht

theorem Cursor.firstTokenGo_spec (fuel : Nat) {c t : Cursor} (h : c.SOK)
    (ht : Cursor.firstTokenGo fuel c = some t) :
    t.SOK ∧ t.here.isToken = true ∧ t.here.start = c.here.start := by
  induction fuel generalizing c with
  | zero => cases ht
  | succ fuel ih =>
    unfold Cursor.firstTokenGo at ht
    split at ht
    · cases ht
      rename_i heq
      exact ⟨h, by rw [heq]; rfl, rfl⟩
    · rename_i k s e hh cs heq
      split at ht
      · cases ht
      · rename_i ch hch
        obtain ⟨h1, h2, h3⟩ := ih (h.child hch) ht
        refine ⟨h1, h2, ?_⟩
        rw [h3]
        obtain ⟨hc1, _⟩ := Cursor.child_here hch
        have ht := h.wf.tiles (PTree.isNode_of_children hc1)
        exact ht.head (by simpa using hc1)

theorem Cursor.SOK.firstToken {c t : Cursor} (h : c.SOK) (ht : c.firstToken = some t) :
    t.SOK ∧ t.here.isToken = true ∧ t.here.start = c.here.start :=
  Cursor.firstTokenGo_spec _ h ht

/-- an element without previous sibling starts where its parent starts -/
theorem Cursor.SOK.start_of_no_prev {c : Cursor} {p : PTree} {i : Nat} {rest : List (PTree × Nat)}
    (h : c.SOK) (hup : c.up = (p, i) :: rest) (hn : c.prevSiblingOrToken = none) :
    c.here.start = p.start := by
  have hu := h.up
  rw [hup] at hu
  have hpwf : p.WF := h.upwf (p, i) (by rw [hup]; exact List.mem_cons_self)
  have ht := hpwf.tiles (PTree.isNode_of_children hu.1)
  cases i with
  | zero => exact ht.head (by simpa using hu.1)
  | succ j =>
    unfold Cursor.prevSiblingOrToken at hn
    rw [hup] at hn
    simp only at hn
    have hj : j < p.children.size := by
      have := (Array.getElem?_eq_some_iff.1 hu.1).1
      omega
    rw [Array.getElem?_eq_getElem hj] at hn
    cases hn

theorem Cursor.findPrevOfAncestors_spec (up : List (PTree × Nat)) (x : PTree) (e : Cursor)
    (h : (Cursor.mk x up).SOK) (hn : (Cursor.mk x up).prevSiblingOrToken = none)
    (he : Cursor.findPrevOfAncestors up = some e) : e.SOK ∧ e.here.stop = x.start := by
  induction up generalizing x with
  | nil => cases he
  | cons pi rest ih =>
    obtain ⟨p, i⟩ := pi
    have hs := h.start_of_no_prev rfl hn
    simp only at hs
    obtain ⟨hpar, _⟩ := h.parent (p := ⟨p, rest⟩) rfl
    unfold Cursor.findPrevOfAncestors at he
    split at he
    · rename_i e' he'
      cases he
      obtain ⟨h1, h2, _⟩ := hpar.prevSibling he'
      exact ⟨h1, by rw [h2, hs]⟩
    · rename_i hnone
      obtain ⟨h1, h2⟩ := ih p hpar hnone he
      exact ⟨h1, by rw [h2, hs]⟩

/-- `prev_token`: the result is a token of the tree that ends exactly where this element starts -/
theorem Cursor.SOK.prevToken {c t : Cursor} (h : c.SOK) (ht : c.prevToken = some t) :
    t.SOK ∧ t.here.isToken = true ∧ t.here.stop = c.here.start := by
  unfold Cursor.prevToken at ht
  split at ht
  · rename_i e he
    obtain ⟨h1, h2, _⟩ := h.prevSibling he
    obtain ⟨g1, g2, g3⟩ := h1.lastToken ht
    exact ⟨g1, g2, by rw [g3, h2]⟩
  · rename_i hn
    split at ht
    · rename_i e he
      obtain ⟨h1, h2⟩ := Cursor.findPrevOfAncestors_spec c.up c.here e h hn he
      obtain ⟨g1, g2, g3⟩ := h1.lastToken ht
      exact ⟨g1, g2, by rw [g3, h2]⟩
    · cases ht


/-! ### `covering_element` -/

theorem childOrTokenAtRange_child {c ch : Cursor} {rs re : Nat}
    (h : childOrTokenAtRange c rs re = some ch) : ∃ i, c.child i = some ch := by
  unfold childOrTokenAtRange at h
  simp only at h
  split at h
  · rename_i ch' hch
    split at h
    · cases h; exact ⟨_, hch⟩
    · cases h
  · cases h

theorem Cursor.SOK.child_bounds {c ch : Cursor} {i : Nat} (h : c.SOK) (hi : c.child i = some ch) :
    c.here.start ≤ ch.here.start ∧ ch.here.stop ≤ c.here.stop := by
  obtain ⟨hc, _⟩ := Cursor.child_here hi
  have ht := h.wf.tiles (PTree.isNode_of_children hc)
  exact ht.bounds h.wf.children_le (Array.mem_toList_iff.2 (Array.mem_of_getElem? hc))

theorem coveringGo_spec (fuel : Nat) {c r : Cursor} {rs re : Nat} (h : c.SOK)
    (hr : coveringGo fuel c rs re = .ok r) :
    r.SOK ∧ r.here.start ≤ rs ∧ re ≤ r.here.stop ∧ c.here.start ≤ r.here.start ∧ r.here.stop ≤ c.here.stop := by
  induction fuel generalizing c with
  | zero => cases hr
  | succ fuel ih =>
    unfold coveringGo at hr
    split at hr
    · cases hr
    · rename_i hrange
      have hb : c.here.start ≤ rs ∧ re ≤ c.here.stop := by simpa using hrange
      split at hr
      · cases hr; exact ⟨h, hb.1, hb.2, Nat.le_refl _, Nat.le_refl _⟩
      · split at hr
        · rename_i ch hch
          obtain ⟨i, hi⟩ := childOrTokenAtRange_child hch
          obtain ⟨h1, h2, h3, h4, h5⟩ := ih (h.child hi) hr
          have := h.child_bounds hi
          exact ⟨h1, h2, h3, by omega, by omega⟩
        · cases hr; exact ⟨h, hb.1, hb.2, Nat.le_refl _, Nat.le_refl _⟩

theorem coveringElement_spec {root : PTree} (hwf : root.WF) {rs re : Nat} {r : Cursor}
    (hr : coveringElement root rs re = .ok r) :
    r.SOK ∧ r.here.start ≤ rs ∧ re ≤ r.here.stop ∧ root.start ≤ r.here.start ∧ r.here.stop ≤ root.stop :=
  coveringGo_spec _ (Cursor.SOK.root hwf) hr

theorem Cursor.SOK.parent_bounds {c p : Cursor} (h : c.SOK) (hp : c.parent = some p) :
    p.here.start ≤ c.here.start ∧ c.here.stop ≤ p.here.stop := by
  obtain ⟨hpok, i, hi⟩ := h.parent hp
  obtain ⟨hc, _⟩ := Cursor.child_here hi
  have ht := hpok.wf.tiles (PTree.isNode_of_children hc)
  exact ht.bounds hpok.wf.children_le (Array.mem_toList_iff.2 (Array.mem_of_getElem? hc))


theorem slashes_toList : "//".toList = ['/', '/'] := by decide

theorem byteLen_of_startsWith_slashes (s : String) (h : s.startsWith "//" = true) : 2 ≤ byteLen s.toList := by
  rw [String.startsWith_string_iff] at h
  obtain ⟨t, ht⟩ := h
  rw [← ht, slashes_toList]
  simp only [List.cons_append, List.nil_append, byteLen]
  have := utf8Len_pos '/'
  omega

theorem PTree.WF.token_len {t : PTree} (h : t.WF) (ht : t.isToken = true) :
    t.stop = t.start + byteLen t.text.toList := by
  cases h with
  | token k s e text h => exact h
  | node => simp [PTree.isToken, PTree.isNode] at ht

/-! ### document order: `descendants()` -/

theorem Cursor.child_sizeOf {c ch : Cursor} {i : Nat} (h : c.child i = some ch) :
    sizeOf ch.here < sizeOf c.here := by
  obtain ⟨hc, _⟩ := Cursor.child_here h
  cases hh : c.here with
  | token => rw [hh] at hc; simp [PTree.children] at hc
  | node k s e h cs =>
    rw [hh] at hc
    simp only [PTree.children] at hc
    have hm : ch.here ∈ cs := Array.mem_of_getElem? hc
    have := Array.sizeOf_lt_of_mem hm
    simp only [PTree.node.sizeOf_spec]
    omega

/-- the child elements of a cursor, in order -/
def Cursor.childList (c : Cursor) : List Cursor :=
  (List.range c.here.children.size).filterMap fun i => c.child i

/-- all node cursors in the subtree of `c` (itself included if it is a node), parents before their
children, siblings in source order: the document order of `descendants()` -/
def Cursor.subnodes (c : Cursor) : List Cursor :=
  (if c.here.isNode then [c] else []) ++
  (List.range c.here.children.size).flatMap fun i =>
    match h : c.child i with
    | some ch => subnodes ch
    | none => []
termination_by sizeOf c.here
decreasing_by exact Cursor.child_sizeOf h

/-- all token cursors in the subtree of `c`, in source order -/
def Cursor.tokens (c : Cursor) : List Cursor :=
  (if c.here.isNode then [] else [c]) ++
  (List.range c.here.children.size).flatMap fun i =>
    match h : c.child i with
    | some ch => tokens ch
    | none => []
termination_by sizeOf c.here
decreasing_by exact Cursor.child_sizeOf h

theorem flatMap_congr' {α β : Type} {l : List α} {f g : α → List β} (h : ∀ x ∈ l, f x = g x) :
    l.flatMap f = l.flatMap g := by
  induction l with
  | nil => rfl
  | cons x t ih =>
    simp only [List.flatMap_cons]
    rw [h x List.mem_cons_self, ih fun y hy => h y (List.mem_cons_of_mem _ hy)]

theorem flatMap_range_child {β : Type} (c : Cursor) (f : Cursor → List β) (n : Nat) :
    ((List.range n).flatMap fun i => match c.child i with | some ch => f ch | none => []) =
      ((List.range n).filterMap fun i => c.child i).flatMap f := by
  induction n with
  | zero => simp
  | succ n ih =>
    rw [List.range_succ, List.flatMap_append, List.filterMap_append, List.flatMap_append, ih]
    congr 1
    cases h : c.child n <;> simp [h]

theorem Cursor.subnodes_eq (c : Cursor) :
    c.subnodes = (if c.here.isNode then [c] else []) ++ c.childList.flatMap Cursor.subnodes := by
  rw [Cursor.subnodes, Cursor.childList, ← flatMap_range_child]
  congr 1
  apply flatMap_congr'
  intro i _
  split <;> simp_all

theorem Cursor.tokens_eq (c : Cursor) :
    c.tokens = (if c.here.isNode then [] else [c]) ++ c.childList.flatMap Cursor.tokens := by
  rw [Cursor.tokens, Cursor.childList, ← flatMap_range_child]
  congr 1
  apply flatMap_congr'
  intro i _
  split <;> simp_all

theorem Cursor.childList_token {c : Cursor} (h : c.here.isNode = false) : c.childList = [] := by
  unfold Cursor.childList
  cases hh : c.here with
  | token => simp [PTree.children]
  | node => rw [hh] at h; simp [PTree.isNode] at h

theorem Cursor.subnodes_token {c : Cursor} (h : c.here.isNode = false) : c.subnodes = [] := by
  rw [Cursor.subnodes_eq, Cursor.childList_token h, h]; simp

theorem Cursor.tokens_token {c : Cursor} (h : c.here.isNode = false) : c.tokens = [c] := by
  rw [Cursor.tokens_eq, Cursor.childList_token h, h]; simp

theorem mem_childList {c ch : Cursor} : ch ∈ c.childList ↔ ∃ i, c.child i = some ch := by
  unfold Cursor.childList
  simp only [List.mem_filterMap, List.mem_range]
  constructor
  · rintro ⟨i, _, h⟩; exact ⟨i, h⟩
  · rintro ⟨i, h⟩
    refine ⟨i, ?_, h⟩
    obtain ⟨hc, _⟩ := Cursor.child_here h
    exact (Array.getElem?_eq_some_iff.1 hc).1

theorem foldl_append_flatMap {α β : Type} (g : α → List β) (f : Array β → α → Array β)
    (hf : ∀ acc x, f acc x = acc ++ (g x).toArray) (l : List α) (acc : Array β) :
    l.foldl f acc = acc ++ (l.flatMap g).toArray := by
  induction l generalizing acc with
  | nil => simp
  | cons x t ih => simp [ih, hf, Array.append_assoc]

theorem descendantsGo_eq (p : PTree → Bool) (fuel : Nat) (c : Cursor) (acc : Array Cursor)
    (hwf : c.here.WF) (hf : c.here.height < fuel) :
    descendantsGo p fuel c acc = acc ++ ((c.subnodes).filter fun d => p d.here).toArray := by
  induction fuel generalizing c acc with
  | zero => omega
  | succ fuel ih =>
    unfold descendantsGo
    simp only
    rw [foldl_append_flatMap (fun i => match c.child i with
        | some ch => (ch.subnodes.filter fun d => p d.here)
        | none => [])]
    · rw [Cursor.subnodes_eq, Cursor.childList, ← flatMap_range_child, List.filter_append, List.filter_flatMap]
      have : ((List.range c.here.children.size).flatMap fun i =>
          match c.child i with
          | some ch => List.filter (fun d => p d.here) ch.subnodes
          | none => []) = (List.range c.here.children.size).flatMap (fun a => List.filter (fun d => p d.here)
            (match c.child a with | some ch => ch.subnodes | none => [])) := by
        apply flatMap_congr'
        intro i _
        cases c.child i <;> simp
      rw [this]
      by_cases hn : c.here.isNode = true
      · by_cases hp : p c.here = true
        · simp [hn, hp]
        · simp [hn, hp]
      · simp [hn]
    · intro acc i
      cases hch : c.child i with
      | none => simp
      | some ch =>
        simp only
        obtain ⟨hc, _⟩ := Cursor.child_here hch
        obtain ⟨hcw, hch'⟩ := hwf.child hc
        by_cases hn : ch.here.isNode = true
        · simp only [hn, if_true]
          exact ih ch acc hcw (by omega)
        · simp only [hn]
          rw [Cursor.subnodes_token (by simpa using hn)]
          simp

/-- `descendants()` filtered by `p`: exactly the nodes of the tree that satisfy `p`, in document order -/
theorem descendants_eq (root : PTree) (hwf : root.WF) (p : PTree → Bool) :
    (descendants root p).toList = (Cursor.root root).subnodes.filter fun d => p d.here := by
  unfold descendants
  rw [descendantsGo_eq p _ _ _ hwf (by simp [Cursor.root])]
  simp


/-- `d` is in the subtree of `c` (`c` itself included) -/
inductive SDesc : Cursor → Cursor → Prop
  | refl (c : Cursor) : SDesc c c
  | step {c ch d : Cursor} : ch ∈ c.childList → SDesc ch d → SDesc c d

theorem SDesc.trans {a b c : Cursor} (h1 : SDesc a b) (h2 : SDesc b c) : SDesc a c := by
  induction h1 with
  | refl => exact h2
  | step hm _ ih => exact SDesc.step hm (ih h2)

theorem SDesc.ok {c d : Cursor} (h : SDesc c d) (hc : c.SOK) : d.SOK := by
  induction h with
  | refl => exact hc
  | step hm _ ih =>
    obtain ⟨i, hi⟩ := mem_childList.1 hm
    exact ih (hc.child hi)

theorem SDesc.bounds {c d : Cursor} (h : SDesc c d) (hc : c.SOK) :
    c.here.start ≤ d.here.start ∧ d.here.stop ≤ c.here.stop := by
  induction h with
  | refl => exact ⟨Nat.le_refl _, Nat.le_refl _⟩
  | step hm _ ih =>
    obtain ⟨i, hi⟩ := mem_childList.1 hm
    have := hc.child_bounds hi
    have := ih (hc.child hi)
    omega

theorem mem_subnodes {c d : Cursor} : d ∈ c.subnodes ↔ SDesc c d ∧ d.here.isNode = true := by
  constructor
  · intro h
    induction c using Cursor.subnodes.induct with
    | case1 c ih =>
      rw [Cursor.subnodes_eq] at h
      rcases List.mem_append.1 h with h | h
      · split at h
        · simp at h; subst h; exact ⟨SDesc.refl _, ‹_›⟩
        · cases h
      · obtain ⟨ch, hch, hd⟩ := List.mem_flatMap.1 h
        obtain ⟨i, hi⟩ := mem_childList.1 hch
        obtain ⟨h1, h2⟩ := ih i ch hi hd
        exact ⟨SDesc.step hch h1, h2⟩
  · rintro ⟨h, hn⟩
    induction h with
    | refl c => rw [Cursor.subnodes_eq]; simp [hn]
    | step hm _ ih =>
      rw [Cursor.subnodes_eq]
      exact List.mem_append_right _ (List.mem_flatMap.2 ⟨_, hm, ih hn⟩)

/-! ### the token sequence of the file, seen from a cursor -/

/-- the tokens of the first `i` children of `c` -/
def Cursor.tokensUpTo (c : Cursor) (i : Nat) : List Cursor :=
  ((List.range i).filterMap fun j => c.child j).flatMap Cursor.tokens

/-- the tokens in front of the element whose path is `up`, in source order -/
def beforeUp : List (PTree × Nat) → List Cursor
  | [] => []
  | (p, i) :: rest => beforeUp rest ++ (Cursor.mk p rest).tokensUpTo i

/-- the tokens of the file in front of `c` -/
def Cursor.before (c : Cursor) : List Cursor := beforeUp c.up

theorem Cursor.before_child {c ch : Cursor} {i : Nat} (h : c.child i = some ch) :
    ch.before = c.before ++ c.tokensUpTo i := by
  obtain ⟨_, hu⟩ := Cursor.child_here h
  unfold Cursor.before
  rw [hu, beforeUp]

theorem Cursor.tokensUpTo_succ {c ch : Cursor} {i : Nat} (h : c.child i = some ch) :
    c.tokensUpTo (i + 1) = c.tokensUpTo i ++ ch.tokens := by
  unfold Cursor.tokensUpTo
  rw [List.range_succ, List.filterMap_append, List.flatMap_append]
  simp [h]

theorem Cursor.tokens_node {c : Cursor} (h : c.here.isNode = true) :
    c.tokens = c.tokensUpTo c.here.children.size := by
  rw [Cursor.tokens_eq, h]
  simp [Cursor.tokensUpTo, Cursor.childList]

/-- `last_token`: the last token of the element in document order -/
theorem Cursor.lastTokenGo_flat (fuel : Nat) {e t : Cursor} (h : Cursor.lastTokenGo fuel e = some t) :
    t.before ++ [t] = e.before ++ e.tokens := by
  induction fuel generalizing e with
  | zero => cases h
  | succ fuel ih =>
    unfold Cursor.lastTokenGo at h
    split at h
    · cases h
      rename_i heq
      rw [Cursor.tokens_token (by rw [heq]; rfl)]
    · rename_i k s e' hh cs heq
      split at h
      · cases h
      · rename_i hne
        split at h
        · cases h
        · rename_i ch hch
          rw [ih h, Cursor.before_child hch, Cursor.tokens_node (c := e) (by rw [heq]; rfl)]
          have hsz : e.here.children.size = (cs.size - 1) + 1 := by
            rw [heq]; simp only [PTree.children]
            have : cs.size ≠ 0 := by simpa using hne
            omega
          rw [hsz, Cursor.tokensUpTo_succ hch, List.append_assoc]

theorem Cursor.lastToken_flat {e t : Cursor} (h : e.lastToken = some t) :
    t.before ++ [t] = e.before ++ e.tokens := Cursor.lastTokenGo_flat _ h

theorem Cursor.prevSibling_flat {c e : Cursor} (h : c.prevSiblingOrToken = some e) :
    c.before = e.before ++ e.tokens := by
  unfold Cursor.prevSiblingOrToken at h
  split at h
  · rename_i p i rest hup
    cases hx : p.children[i]? with
    | none => rw [hx] at h; cases h
    | some x =>
      rw [hx] at h
      simp only [Option.map_some, Option.some.injEq] at h
      have hch : (Cursor.mk p rest).child i = some e := by
        unfold Cursor.child; simp [hx, h]
      unfold Cursor.before
      rw [hup, beforeUp, Cursor.tokensUpTo_succ hch, ← List.append_assoc]
      have := Cursor.before_child hch
      unfold Cursor.before at this
      rw [← this]
  · cases h

theorem Cursor.SOK.before_of_no_prev {c : Cursor} {p : PTree} {i : Nat} {rest : List (PTree × Nat)}
    (h : c.SOK) (hup : c.up = (p, i) :: rest) (hn : c.prevSiblingOrToken = none) :
    c.before = (Cursor.mk p rest).before := by
  have hu := h.up
  rw [hup] at hu
  cases i with
  | zero => unfold Cursor.before; rw [hup, beforeUp]; simp [Cursor.tokensUpTo]
  | succ j =>
    unfold Cursor.prevSiblingOrToken at hn
    rw [hup] at hn
    simp only at hn
    have hj : j < p.children.size := by
      have := (Array.getElem?_eq_some_iff.1 hu.1).1
      omega
    rw [Array.getElem?_eq_getElem hj] at hn
    cases hn

theorem Cursor.findPrevOfAncestors_flat (up : List (PTree × Nat)) (x : PTree) (e : Cursor)
    (h : (Cursor.mk x up).SOK) (hn : (Cursor.mk x up).prevSiblingOrToken = none)
    (he : Cursor.findPrevOfAncestors up = some e) : (Cursor.mk x up).before = e.before ++ e.tokens := by
  induction up generalizing x with
  | nil => cases he
  | cons pi rest ih =>
    obtain ⟨p, i⟩ := pi
    rw [h.before_of_no_prev rfl hn]
    obtain ⟨hpar, _⟩ := h.parent (p := ⟨p, rest⟩) rfl
    unfold Cursor.findPrevOfAncestors at he
    split at he
    · rename_i e' he'
      cases he
      exact Cursor.prevSibling_flat he'
    · rename_i hnone
      exact ih p hpar hnone he

/-- `prev_token`: the token directly in front of `c` in document order -/
theorem Cursor.SOK.prevToken_flat {c t : Cursor} (h : c.SOK) (ht : c.prevToken = some t) :
    c.before = t.before ++ [t] := by
  unfold Cursor.prevToken at ht
  split at ht
  · rename_i e he
    rw [Cursor.prevSibling_flat he, Cursor.lastToken_flat ht]
  · rename_i hn
    split at ht
    · rename_i e he
      have := Cursor.findPrevOfAncestors_flat c.up c.here e h hn he
      rw [Cursor.lastToken_flat ht]
      exact this
    · cases ht


/-! ### `range_excluding_trivia` -/

/-- the walk of `range_excluding_trivia`: the first non-trivia token at or before `tok`, following
`prev_token` -/
def lastNonTriviaGo : Nat → Option Cursor → Option Cursor
  | 0, _ => none
  | _ + 1, none => none
  | fuel + 1, some t => if !t.here.kind.isTrivia then some t else lastNonTriviaGo fuel t.prevToken

theorem rangeExcludingTriviaGo_eq (fuel start : Nat) (tok : Option Cursor) :
    rangeExcludingTriviaGo fuel start tok =
      match lastNonTriviaGo fuel tok with
      | some t => (start, t.here.stop)
      | none => (start, start) := by
  induction fuel generalizing tok with
  | zero => simp [rangeExcludingTriviaGo, lastNonTriviaGo]
  | succ fuel ih =>
    cases tok with
    | none => simp [rangeExcludingTriviaGo, lastNonTriviaGo]
    | some t =>
      unfold rangeExcludingTriviaGo lastNonTriviaGo
      simp only
      split
      · rfl
      · exact ih _

theorem lastNonTriviaGo_mono {fuel fuel' : Nat} {tok : Option Cursor} {t : Cursor}
    (h : lastNonTriviaGo fuel tok = some t) (hle : fuel ≤ fuel') : lastNonTriviaGo fuel' tok = some t := by
  induction fuel generalizing tok fuel' with
  | zero => cases h
  | succ fuel ih =>
    cases fuel' with
    | zero => omega
    | succ fuel' =>
      cases tok with
      | none => cases h
      | some x =>
        unfold lastNonTriviaGo at h ⊢
        split
        · rename_i hx; rw [if_pos hx] at h; exact h
        · rename_i hx; rw [if_neg hx] at h; exact ih h (by omega)

/-- the walk ends at a non-trivia token `t`; everything between `t` and the starting token is
trivia, in document order -/
theorem lastNonTriviaGo_spec (fuel : Nat) {L t : Cursor} (hL : L.SOK) (hLt : L.here.isToken = true)
    (h : lastNonTriviaGo fuel (some L) = some t) :
    t.SOK ∧ t.here.isToken = true ∧ t.here.kind.isTrivia = false ∧ t.here.stop ≤ L.here.stop ∧
    ∃ ts, L.before ++ [L] = t.before ++ t :: ts ∧ ∀ x ∈ ts, x.here.kind.isTrivia = true := by
  induction fuel generalizing L with
  | zero => cases h
  | succ fuel ih =>
    unfold lastNonTriviaGo at h
    split at h
    · rename_i hnt
      cases h
      exact ⟨hL, hLt, by simpa using hnt, Nat.le_refl _, [], rfl, fun _ hx => by cases hx⟩
    · rename_i htr
      cases hp : L.prevToken with
      | none => rw [hp] at h; cases fuel <;> cases h
      | some L' =>
        rw [hp] at h
        obtain ⟨h1, h2, h3⟩ := hL.prevToken hp
        obtain ⟨g1, g2, g3, g4, ts, g5, g6⟩ := ih h1 h2 h
        have hle := hL.wf.le
        refine ⟨g1, g2, g3, by omega, ts ++ [L], ?_, ?_⟩
        · rw [hL.prevToken_flat hp, g5]; simp
        · intro x hx
          rcases List.mem_append.1 hx with hx | hx
          · exact g6 x hx
          · simp at hx; subst hx; simpa using htr

/-- a token cursor is determined by the tokens up to and including it -/
theorem cursor_eq_of_before {a b : Cursor} (h : a.before ++ [a] = b.before ++ [b]) : a = b := by
  have := List.append_inj' h rfl
  simpa using this.2

/-- starting the walk at any token between `t` and `L` ends at the same token `t` -/
theorem lastNonTriviaGo_restart (fuel : Nat) {L t M : Cursor} (hL : L.SOK)
    (h : lastNonTriviaGo fuel (some L) = some t) (ts : List Cursor)
    (hts : L.before ++ [L] = t.before ++ t :: ts) (k : Nat) (hk : k ≤ ts.length)
    (hM : M.before ++ [M] = t.before ++ t :: ts.take k) :
    lastNonTriviaGo fuel (some M) = some t := by
  induction fuel generalizing L ts with
  | zero => cases h
  | succ fuel ih =>
    by_cases hkl : k = ts.length
    · subst hkl
      rw [List.take_length, ← hts] at hM
      rw [cursor_eq_of_before hM]; exact h
    · unfold lastNonTriviaGo at h
      split at h
      · -- `L` is not trivia: `t = L`, `ts = []`
        cases h
        have : ts = [] := by
          have := List.append_cancel_left hts
          simpa using this.symm
        subst this
        simp at hk hkl; omega
      · cases hp : L.prevToken with
        | none => rw [hp] at h; cases fuel <;> cases h
        | some L' =>
          rw [hp] at h
          obtain ⟨h1, _, _⟩ := hL.prevToken hp
          -- `ts = ts' ++ [L]`
          have hflat := hL.prevToken_flat hp
          rw [hflat] at hts
          have hne : ts ≠ [] := by
            intro he; subst he; simp at hk hkl; omega
          obtain ⟨ts', x, rfl⟩ : ∃ ts' x, ts = ts' ++ [x] :=
            ⟨ts.dropLast, ts.getLast hne, (List.dropLast_concat_getLast hne).symm⟩
          have hsplit : (L'.before ++ [L']) ++ [L] = (t.before ++ t :: ts') ++ [x] := by
            simpa [List.append_assoc] using hts
          have h3 := List.append_inj' hsplit rfl
          have hk' : k ≤ ts'.length := by
            simp at hk hkl; omega
          have := ih h1 h ts' h3.1 hk' (by rw [hM, List.take_append_of_le_length hk'])
          exact lastNonTriviaGo_mono this (by omega)


theorem mem_tokens {c d : Cursor} (h : d ∈ c.tokens) : SDesc c d ∧ d.here.isNode = false := by
  induction c using Cursor.tokens.induct with
  | case1 c ih =>
    rw [Cursor.tokens_eq] at h
    rcases List.mem_append.1 h with h | h
    · split at h
      · cases h
      · rename_i hn; simp at h; subst h; exact ⟨SDesc.refl _, by simpa using hn⟩
    · obtain ⟨ch, hch, hd⟩ := List.mem_flatMap.1 h
      obtain ⟨i, hi⟩ := mem_childList.1 hch
      obtain ⟨h1, h2⟩ := ih i ch hi hd
      exact ⟨SDesc.step hch h1, h2⟩

/-- the tokens of the children `i ≤ j < n` -/
def Cursor.tokensFrom (c : Cursor) (i n : Nat) : List Cursor :=
  ((List.range' i (n - i)).filterMap fun j => c.child j).flatMap Cursor.tokens

theorem Cursor.tokensUpTo_split (c : Cursor) {i n : Nat} (h : i ≤ n) :
    c.tokensUpTo n = c.tokensUpTo i ++ c.tokensFrom i n := by
  unfold Cursor.tokensUpTo Cursor.tokensFrom
  rw [← List.flatMap_append, ← List.filterMap_append]
  congr 2
  rw [List.range_eq_range', List.range_eq_range']
  have := List.range'_append (s := 0) (m := i) (n := n - i) (step := 1)
  simp only [Nat.one_mul, Nat.zero_add] at this
  rw [this]
  congr 1
  omega

theorem Cursor.mem_tokensFrom {c y : Cursor} {i n : Nat} (h : y ∈ c.tokensFrom i n) :
    ∃ j ch, i ≤ j ∧ c.child j = some ch ∧ y ∈ ch.tokens := by
  unfold Cursor.tokensFrom at h
  obtain ⟨ch, hch, hy⟩ := List.mem_flatMap.1 h
  obtain ⟨j, hj, hjc⟩ := List.mem_filterMap.1 hch
  exact ⟨j, ch, (List.mem_range'_1.1 hj).1, hjc, hy⟩

/-- siblings: the earlier one ends before the later one starts -/
theorem Cursor.SOK.siblings {c a b : Cursor} {i j : Nat} (h : c.SOK) (hij : i < j)
    (ha : c.child i = some a) (hb : c.child j = some b) : a.here.stop ≤ b.here.start := by
  obtain ⟨ha', _⟩ := Cursor.child_here ha
  obtain ⟨hb', _⟩ := Cursor.child_here hb
  have ht := h.wf.tiles (PTree.isNode_of_children ha')
  exact ht.ordered h.wf.children_le hij (by simpa using ha') (by simpa using hb')

/-- the tokens of a subtree are a contiguous segment of the tokens of any enclosing subtree; the
tokens after the segment start after the inner subtree ends -/
theorem SDesc.tokens_segment {c d : Cursor} (h : SDesc c d) (hc : c.SOK) :
    ∃ xs ys, c.tokens = xs ++ d.tokens ++ ys ∧ d.before = c.before ++ xs ∧
      ∀ y ∈ ys, d.here.stop ≤ y.here.start := by
  induction h with
  | refl c => exact ⟨[], [], by simp, by simp, fun _ hy => by cases hy⟩
  | @step c ch d hm hd ih =>
    obtain ⟨i, hi⟩ := mem_childList.1 hm
    have hchok := hc.child hi
    obtain ⟨xs, ys, h1, h2, h3⟩ := ih hchok
    obtain ⟨hci, _⟩ := Cursor.child_here hi
    have hnode := PTree.isNode_of_children hci
    have hlt : i < c.here.children.size := (Array.getElem?_eq_some_iff.1 hci).1
    refine ⟨c.tokensUpTo i ++ xs, ys ++ c.tokensFrom (i + 1) c.here.children.size, ?_, ?_, ?_⟩
    · rw [Cursor.tokens_node hnode, Cursor.tokensUpTo_split c (Nat.succ_le_of_lt hlt),
        Cursor.tokensUpTo_succ hi, h1]
      simp [List.append_assoc]
    · rw [h2, Cursor.before_child hi, List.append_assoc]
    · intro y hy
      rcases List.mem_append.1 hy with hy | hy
      · exact h3 y hy
      · obtain ⟨j, chj, hj, hcj, hyj⟩ := Cursor.mem_tokensFrom hy
        have hsib := hc.siblings (by omega : i < j) hi hcj
        have hyb := (mem_tokens hyj).1.bounds (hc.child hcj)
        have hdb := hd.bounds hchok
        omega

/-- two elements of a tree are nested or separated -/
theorem SDesc.comparable {r c d : Cursor} (hr : r.SOK) (hc : SDesc r c) (hd : SDesc r d) :
    SDesc c d ∨ SDesc d c ∨ c.here.stop ≤ d.here.start ∨ d.here.stop ≤ c.here.start := by
  induction hc generalizing d with
  | refl => exact Or.inl hd
  | @step r ch c hm hcd ih =>
    cases hd with
    | refl => exact Or.inr (Or.inl (SDesc.step hm hcd))
    | @step _ ch' _ hm' hdd =>
      obtain ⟨i, hi⟩ := mem_childList.1 hm
      obtain ⟨j, hj⟩ := mem_childList.1 hm'
      have hcb := hcd.bounds (hr.child hi)
      have hdb := hdd.bounds (hr.child hj)
      rcases Nat.lt_trichotomy i j with hlt | heq | hgt
      · have := hr.siblings hlt hi hj
        exact Or.inr (Or.inr (Or.inl (by omega)))
      · subst heq
        rw [hi] at hj
        cases hj
        exact ih (hr.child hi) hdd
      · have := hr.siblings hgt hj hi
        exact Or.inr (Or.inr (Or.inr (by omega)))


/-- two ranges are nested or disjoint -/
def NestedOrDisjoint (a b : Nat × Nat) : Prop :=
  (a.1 ≤ b.1 ∧ b.2 ≤ a.2) ∨ (b.1 ≤ a.1 ∧ a.2 ≤ b.2) ∨ a.2 ≤ b.1 ∨ b.2 ≤ a.1

theorem NestedOrDisjoint.symm {a b : Nat × Nat} (h : NestedOrDisjoint a b) : NestedOrDisjoint b a := by
  unfold NestedOrDisjoint at *
  omega

theorem rangeExcludingTrivia_eq (fuel : Nat) (c : Cursor) :
    rangeExcludingTrivia fuel c =
      match lastNonTriviaGo fuel c.lastToken with
      | some t => (c.here.start, t.here.stop)
      | none => (c.here.start, c.here.start) := by
  unfold rangeExcludingTrivia
  exact rangeExcludingTriviaGo_eq _ _ _

theorem lastNonTriviaGo_some {fuel : Nat} {tok : Option Cursor} {t : Cursor}
    (h : lastNonTriviaGo fuel tok = some t) : ∃ L, tok = some L := by
  cases tok with
  | none => cases fuel <;> cases h
  | some L => exact ⟨L, rfl⟩

/-- the range never ends after the node -/
theorem rangeExcludingTrivia_le_s (fuel : Nat) {c : Cursor} (hc : c.SOK) :
    (rangeExcludingTrivia fuel c).1 = c.here.start ∧ (rangeExcludingTrivia fuel c).2 ≤ c.here.stop := by
  rw [rangeExcludingTrivia_eq]
  cases hw : lastNonTriviaGo fuel c.lastToken with
  | none => exact ⟨rfl, hc.wf.le⟩
  | some t =>
    obtain ⟨L, hL⟩ := lastNonTriviaGo_some hw
    rw [hL] at hw
    obtain ⟨l1, l2, l3⟩ := hc.lastToken hL
    obtain ⟨_, _, _, h4, _⟩ := lastNonTriviaGo_spec fuel l1 l2 hw
    exact ⟨rfl, by simp only; omega⟩

theorem rangeExcludingTrivia_nested (fuel : Nat) {c1 c2 : Cursor} (h : SDesc c1 c2) (hc : c1.SOK) :
    NestedOrDisjoint (rangeExcludingTrivia fuel c1) (rangeExcludingTrivia fuel c2) := by
  have hb := h.bounds hc
  have hc2 := h.ok hc
  rw [rangeExcludingTrivia_eq, rangeExcludingTrivia_eq]
  cases hw1 : lastNonTriviaGo fuel c1.lastToken with
  | none =>
    refine Or.inr (Or.inr (Or.inl ?_))
    cases lastNonTriviaGo fuel c2.lastToken <;> simp only <;> omega
  | some t1 =>
    cases hw2 : lastNonTriviaGo fuel c2.lastToken with
    | none =>
      simp only
      by_cases hle : c2.here.start ≤ t1.here.stop
      · exact Or.inl ⟨hb.1, hle⟩
      · exact Or.inr (Or.inr (Or.inl (by simp only; omega)))
    | some t2 =>
      simp only
      obtain ⟨L1, hL1⟩ := lastNonTriviaGo_some hw1
      obtain ⟨L2, hL2⟩ := lastNonTriviaGo_some hw2
      rw [hL1] at hw1
      rw [hL2] at hw2
      obtain ⟨a1, a2, a3⟩ := hc.lastToken hL1
      obtain ⟨b1, b2, b3⟩ := hc2.lastToken hL2
      obtain ⟨p1, p2, p3, p4, ts1, p5, p6⟩ := lastNonTriviaGo_spec fuel a1 a2 hw1
      obtain ⟨q1, q2, q3, q4, ts2, q5, q6⟩ := lastNonTriviaGo_spec fuel b1 b2 hw2
      obtain ⟨xs, ys, s1, s2, s3⟩ := h.tokens_segment hc
      have hW1 := Cursor.lastToken_flat hL1
      have hW2 := Cursor.lastToken_flat hL2
      -- `W1 = W2 ++ ys`
      have hW : t1.before ++ t1 :: ts1 = (L2.before ++ [L2]) ++ ys := by
        rw [← p5, hW1, hW2, s1, s2]; simp [List.append_assoc]
      by_cases hlen : ys.length ≤ ts1.length
      · -- `L2` is `t1` or one of the trivia tokens behind it: both walks end at `t1`
        have hsplit : (t1.before ++ t1 :: ts1.take (ts1.length - ys.length)) ++ ts1.drop (ts1.length - ys.length) =
            (L2.before ++ [L2]) ++ ys := by
          rw [← hW]
          simp [List.append_assoc]
        have hinj := List.append_inj' hsplit (by simp; omega)
        have := lastNonTriviaGo_restart fuel a1 hw1 ts1 p5 (ts1.length - ys.length) (by omega) hinj.1.symm
        rw [hw2] at this
        cases this
        exact Or.inl ⟨hb.1, Nat.le_refl _⟩
      · -- `t1` comes after the tokens of `c2`
        have hsplit : (t1.before) ++ (t1 :: ts1) =
            ((L2.before ++ [L2]) ++ ys.take (ys.length - (ts1.length + 1))) ++ ys.drop (ys.length - (ts1.length + 1)) := by
          rw [hW]
          simp [List.append_assoc]
        have hinj := List.append_inj' hsplit (by simp; omega)
        have hmem : t1 ∈ ys := List.mem_of_mem_drop (by rw [← hinj.2]; exact List.mem_cons_self)
        have := s3 t1 hmem
        have := p1.wf.le
        exact Or.inl ⟨hb.1, by omega⟩

/-- **nested or disjoint**: the ranges of any two nodes of a well-formed tree -/
theorem rangeExcludingTrivia_nestedOrDisjoint (fuel : Nat) {r c1 c2 : Cursor} (hr : r.SOK)
    (h1 : SDesc r c1) (h2 : SDesc r c2) :
    NestedOrDisjoint (rangeExcludingTrivia fuel c1) (rangeExcludingTrivia fuel c2) := by
  have ok1 := h1.ok hr
  have ok2 := h2.ok hr
  rcases SDesc.comparable hr h1 h2 with h | h | h | h
  · exact rangeExcludingTrivia_nested fuel h ok1
  · exact (rangeExcludingTrivia_nested fuel h ok2).symm
  · have e1 := rangeExcludingTrivia_le_s fuel ok1
    have e2 := rangeExcludingTrivia_le_s fuel ok2
    exact Or.inr (Or.inr (Or.inl (by omega)))
  · have e1 := rangeExcludingTrivia_le_s fuel ok1
    have e2 := rangeExcludingTrivia_le_s fuel ok2
    exact Or.inr (Or.inr (Or.inr (by omega)))


theorem Cursor.firstTokenGo_flat (fuel : Nat) {e f : Cursor} (h : Cursor.firstTokenGo fuel e = some f) :
    ∃ rest, e.tokens = f :: rest := by
  induction fuel generalizing e with
  | zero => cases h
  | succ fuel ih =>
    unfold Cursor.firstTokenGo at h
    split at h
    · cases h
      rename_i heq
      exact ⟨[], Cursor.tokens_token (by rw [heq]; rfl)⟩
    · rename_i k s e' hh cs heq
      split at h
      · cases h
      · rename_i ch hch
        obtain ⟨rest, hr⟩ := ih h
        obtain ⟨hc0, _⟩ := Cursor.child_here hch
        have hlt : 0 < e.here.children.size := (Array.getElem?_eq_some_iff.1 hc0).1
        rw [Cursor.tokens_node (c := e) (by rw [heq]; rfl), Cursor.tokensUpTo_split e (Nat.succ_le_of_lt hlt),
          Cursor.tokensUpTo_succ hch, hr]
        exact ⟨_, by simp [Cursor.tokensUpTo]; rfl⟩

/-- `first_token`: the first token of the element in document order -/
theorem Cursor.firstToken_flat {e f : Cursor} (h : e.firstToken = some f) : ∃ rest, e.tokens = f :: rest :=
  Cursor.firstTokenGo_flat _ h

/-- **specification of `range_excluding_trivia`** in terms of the token sequence: the range starts at
the node's start; it ends at the end of the last non-trivia token among the tokens up to the end of
the node (`c.before ++ c.tokens`: everything after that token is trivia) — or it is empty, when the
walk finds no such token (`lastNonTriviaGo … = none`). -/
theorem rangeExcludingTrivia_spec (fuel : Nat) {c : Cursor} (hc : c.SOK) :
    (rangeExcludingTrivia fuel c).1 = c.here.start ∧
    ((lastNonTriviaGo fuel c.lastToken = none ∧ (rangeExcludingTrivia fuel c).2 = c.here.start) ∨
     ∃ t ts, (rangeExcludingTrivia fuel c).2 = t.here.stop ∧ t.here.isToken = true ∧
       t.here.kind.isTrivia = false ∧ c.before ++ c.tokens = t.before ++ t :: ts ∧
       ∀ x ∈ ts, x.here.kind.isTrivia = true) := by
  rw [rangeExcludingTrivia_eq]
  cases hw : lastNonTriviaGo fuel c.lastToken with
  | none => exact ⟨rfl, Or.inl ⟨rfl, rfl⟩⟩
  | some t =>
    obtain ⟨L, hL⟩ := lastNonTriviaGo_some hw
    rw [hL] at hw
    obtain ⟨l1, l2, l3⟩ := hc.lastToken hL
    obtain ⟨_, h2, h3, _, ts, h5, h6⟩ := lastNonTriviaGo_spec fuel l1 l2 hw
    exact ⟨rfl, Or.inr ⟨t, ts, rfl, h2, h3, by rw [← Cursor.lastToken_flat hL, h5], h6⟩⟩

/-- if the node itself has a non-trivia token and the walk succeeds, the range ends at the end of
the node's last non-trivia token -/
theorem rangeExcludingTrivia_last_nontrivia {c t : Cursor} {ts : List Cursor}
    (h : c.before ++ c.tokens = t.before ++ t :: ts) (hts : ∀ x ∈ ts, x.here.kind.isTrivia = true)
    (hex : ∃ u ∈ c.tokens, u.here.kind.isTrivia = false) :
    ∃ pre, c.tokens = pre ++ t :: ts := by
  by_cases hlen : ts.length < c.tokens.length
  · have hsplit : c.before ++ (c.tokens.take (c.tokens.length - (ts.length + 1)) ++
        c.tokens.drop (c.tokens.length - (ts.length + 1))) = t.before ++ t :: ts := by
      rw [List.take_append_drop]; exact h
    rw [← List.append_assoc] at hsplit
    have hinj := List.append_inj' hsplit (by simp; omega)
    exact ⟨c.tokens.take (c.tokens.length - (ts.length + 1)), by rw [← hinj.2, List.take_append_drop]⟩
  · exfalso
    obtain ⟨u, hu, hnt⟩ := hex
    have hsplit : c.before ++ c.tokens = (t.before ++ t :: ts.take (ts.length - c.tokens.length)) ++
        ts.drop (ts.length - c.tokens.length) := by
      rw [h]; simp [List.append_assoc]
    have hinj := List.append_inj' hsplit (by simp; omega)
    have : u ∈ ts := List.mem_of_mem_drop (by rw [← hinj.2]; exact hu)
    rw [hts u this] at hnt
    cases hnt


theorem SDesc.up_suffix {c d : Cursor} (h : SDesc c d) : ∃ xs, d.up = xs ++ c.up := by
  induction h with
  | refl c => exact ⟨[], rfl⟩
  | @step c0 ch0 d0 hm _ ih =>
    obtain ⟨i, hi⟩ := mem_childList.1 hm
    obtain ⟨_, hu⟩ := Cursor.child_here hi
    obtain ⟨xs, hxs⟩ := ih
    exact ⟨xs ++ [(c0.here, i)], by rw [hxs, hu]; simp⟩

theorem suffix_cons_inj {α : Type} {xs ys : List α} {a b : α} {t : List α}
    (h : xs ++ a :: t = ys ++ b :: t) : a = b := by
  have h2 := List.append_inj' h rfl
  exact (List.cons.inj h2.2).1

/-- every node of the tree occurs exactly once in the document-order list -/
theorem Cursor.subnodes_nodup (c : Cursor) : c.subnodes.Nodup := by
  induction c using Cursor.subnodes.induct with
  | case1 c ih =>
    rw [Cursor.subnodes_eq]
    have hchildren : (c.childList.flatMap Cursor.subnodes).Nodup := by
      unfold List.Nodup
      rw [List.pairwise_flatMap]
      constructor
      · intro ch hch
        obtain ⟨i, hi⟩ := mem_childList.1 hch
        exact ih i ch hi
      · unfold Cursor.childList
        rw [List.pairwise_filterMap]
        refine List.Pairwise.imp ?_ (List.pairwise_lt_range (n := c.here.children.size))
        intro i j hij a ha b hb x hx y hy hxy
        subst hxy
        obtain ⟨xs, h1⟩ := (mem_subnodes.1 hx).1.up_suffix
        obtain ⟨ys, h2⟩ := (mem_subnodes.1 hy).1.up_suffix
        rw [(Cursor.child_here ha).2] at h1
        rw [(Cursor.child_here hb).2] at h2
        have := suffix_cons_inj (h1.symm.trans h2)
        have : i = j := (Prod.mk.inj this).2
        omega
    by_cases hn : c.here.isNode = true
    · simp only [hn, if_true, List.singleton_append, List.nodup_cons]
      refine ⟨?_, hchildren⟩
      intro hmem
      obtain ⟨ch, hch, hx⟩ := List.mem_flatMap.1 hmem
      obtain ⟨i, hi⟩ := mem_childList.1 hch
      obtain ⟨xs, h1⟩ := (mem_subnodes.1 hx).1.up_suffix
      rw [(Cursor.child_here hi).2] at h1
      have := congrArg List.length h1
      simp at this
      omega
    · simp only [hn, Bool.false_eq_true, if_false, List.nil_append]
      exact hchildren

/-! ### a checker for concrete trees -/

def tilesb : Nat → Nat → List PTree → Bool
  | s, e, [] => s == e
  | s, e, c :: cs => c.start == s && tilesb c.stop e cs

theorem tilesb_sound {s e : Nat} {l : List PTree} (h : tilesb s e l = true) : STiles s e l := by
  induction l generalizing s with
  | nil => simpa [tilesb, STiles] using h
  | cons c t ih =>
    simp only [tilesb, Bool.and_eq_true, beq_iff_eq] at h
    exact ⟨h.1, ih h.2⟩

def PTree.wfb : Nat → PTree → Bool
  | 0, _ => false
  | _ + 1, .token _ s e text => e == s + byteLen text.toList
  | n + 1, .node _ s e h cs => tilesb s e cs.toList && cs.all fun c => decide (c.height < h) && PTree.wfb n c

theorem PTree.wfb_sound (n : Nat) {t : PTree} (h : t.wfb n = true) : t.WF := by
  induction n generalizing t with
  | zero => simp [PTree.wfb] at h
  | succ n ih =>
    cases t with
    | token k s e text =>
      simp only [PTree.wfb, beq_iff_eq] at h
      exact PTree.WF.token _ _ _ _ h
    | node k s e hh cs =>
      simp only [PTree.wfb, Bool.and_eq_true, Array.all_eq_true_iff_forall_mem, decide_eq_true_eq] at h
      exact PTree.WF.node _ _ _ _ _ (tilesb_sound h.1) (fun c hc => (h.2 c hc).1) (fun c hc => ih (h.2 c hc).2)


/-! ### the trees of a workspace -/

/-- every parse tree of the workspace is well-formed -/
def Workspace.TreesWF (ws : Workspace) : Prop := ∀ id, (ws.tree id).WF

theorem defaultTree_wf : (PTree.node .SourceFile 0 0 1 #[]).WF :=
  PTree.WF.node _ _ _ _ _ rfl (fun _ h => by simp at h) (fun _ h => by simp at h)

theorem parseFile_wf {text : String} {t : PTree} {errs : List SynError}
    (h : parseFile text = .ok (t, errs)) : t.WF := by
  unfold parseFile at h
  split at h
  · cases h; exact (PTree.ofTree_wf _).1
  · cases h
  · cases h

def InfosWF (infos : Array (Option FileInfo)) : Prop := ∀ f, some f ∈ infos → f.tree.WF

theorem InfosWF.push_none {infos : Array (Option FileInfo)} (h : InfosWF infos) : InfosWF (infos.push none) := by
  intro f hf
  rcases Array.mem_push.1 hf with hf | hf
  · exact h f hf
  · cases hf

theorem assignOrGetFileId_infos (c : Collect) (p : String) (h : InfosWF c.infos) :
    InfosWF (c.assignOrGetFileId p).2.infos := by
  unfold Collect.assignOrGetFileId
  split
  · exact h
  · exact h.push_none

theorem resolveIncludeFile_infos (c : Collect) (ip : String) (dirs : List String) (h : InfosWF c.infos) :
    InfosWF (c.resolveIncludeFile ip dirs).2.infos := by
  induction dirs with
  | nil => exact h
  | cons d ds ih =>
    unfold Collect.resolveIncludeFile
    simp only
    split
    · exact assignOrGetFileId_infos c _ h
    · exact ih

theorem InfosWF.set {infos : Array (Option FileInfo)} (h : InfosWF infos) (i : Nat) (f : FileInfo)
    (hf : f.tree.WF) : InfosWF (infos.set! i (some f)) := by
  intro g hg
  rw [Array.set!_eq_setIfInBounds] at hg
  rcases Array.mem_or_eq_of_mem_setIfInBounds hg with hg | hg
  · exact h g hg
  · cases hg; exact hf

theorem collectLoop_infos (inc : Option String) (fuel : Nat) (c c' : Collect) (h : InfosWF c.infos)
    (hr : collectLoop inc fuel c = .ok c') : InfosWF c'.infos := by
  induction fuel generalizing c with
  | zero => cases hr
  | succ fuel ih =>
    unfold collectLoop at hr
    split at hr
    · cases hr; exact h
    · rename_i fileId queue hq
      simp only at hr
      split at hr
      · exact ih { c with queue := queue } h hr
      · split at hr
        · cases hr
        · rename_i tree errors hparse
          refine ih _ ?_ hr
          refine InfosWF.set ?_ _ _ (parseFile_wf hparse)
          -- the fold over the includes only assigns ids
          generalize (listIncludes tree) = incs
          have : ∀ (st : Collect × List ((Nat × Nat) × Nat)), InfosWF st.1.infos →
              InfosWF (incs.foldl (fun (st : Collect × List ((Nat × Nat) × Nat)) inc' =>
                match st.1.resolveIncludeFile inc'.2 ((Path.parent (c.paths.getD fileId "")).toList ++ (match inc with | some d => [d] | none => [])) with
                | (some id, c') => ({ c' with queue := c'.queue ++ [id] }, st.2 ++ [(inc'.1, id)])
                | (none, c') => (c', st.2)) st).1.infos := by
            induction incs with
            | nil => intro st hst; exact hst
            | cons x t iht =>
              intro st hst
              simp only [List.foldl_cons]
              apply iht
              have := resolveIncludeFile_infos st.1 x.2 ((Path.parent (c.paths.getD fileId "")).toList ++ (match inc with | some d => [d] | none => [])) hst
              split
              · rename_i heq; rw [heq] at this; exact this
              · rename_i heq; rw [heq] at this; exact this
          exact this _ h

theorem buildWorkspace_treesWF {vfs : List (String × String)} {rootPath : String} {inc : Option String}
    {ws : Workspace} (h : buildWorkspace vfs rootPath inc = .ok ws) : ws.TreesWF := by
  unfold buildWorkspace at h
  simp only at h
  split at h
  · cases h
  · rename_i c hc
    cases h
    have hinfos : InfosWF c.infos := by
      refine collectLoop_infos _ _ _ _ ?_ hc
      exact assignOrGetFileId_infos _ _ (fun f hf => by simp at hf)
    intro id
    unfold Workspace.tree
    simp only
    split
    · rename_i f hf
      simp only [Array.getElem?_mapIdx] at hf
      cases hi : c.infos[id]? with
      | none => rw [hi] at hf; cases hf
      | some o =>
        rw [hi] at hf
        simp only [Option.map_some, Option.some.injEq] at hf
        cases o with
        | none => simp only at hf; subst hf; exact defaultTree_wf
        | some g => simp only at hf; subst hf; exact hinfos g (Array.mem_of_getElem? hi)
    · exact defaultTree_wf


end Ide
end Tg
