/-
Source order of the outline: the effect of the `SymMap` API on the per-file symbol lists, the
outline-neutral functions of the indexer, and the positional invariant of the statement functions.
-/
import TgModel.Lemmas.IdeSemFresh
namespace Tg
namespace Ide
open Handlers (symbolDefineLoc)

/-! ### every API step keeps the existing symbols -/

theorem Frame.refl (sm : SymMap) : Frame sm sm := fun _ ht => ⟨ht, rfl, rfl⟩

theorem Frame.trans {a b c : SymMap} (h1 : Frame a b) (h2 : Frame b c) : Frame a c := fun t ht => by
  obtain ⟨v1, d1, n1⟩ := h1 t ht
  obtain ⟨v2, d2, n2⟩ := h2 t v1
  exact ⟨v2, d2.trans d1, n2.trans n1⟩

theorem Frame.pushFileSymbol (sm : SymMap) (f : Nat) (s : SymbolId) : Frame sm (sm.pushFileSymbol f s) :=
  (pushFileSymbol_frame sm f s).2.2

macro "frame_alloc" : tactic => `(tactic| (
  intro t ht
  cases t <;> first
    | exact ⟨ht, rfl, rfl⟩
    | (simp only [SymbolId.Valid] at ht
       exact ⟨by simp [SymbolId.Valid, SymMap.logDefine]; omega,
         by simp [symbolDefineLoc, SymMap.record, SymMap.templateArg, SymMap.recordField, SymMap.var,
           SymMap.defset, SymMap.multiclass, SymMap.defm, SymMap.logDefine, sGetElem!_push_lt _ _ _ ht],
         by simp [symbolName, SymMap.record, SymMap.templateArg, SymMap.recordField, SymMap.var,
           SymMap.defset, SymMap.multiclass, SymMap.defm, SymMap.logDefine, sGetElem!_push_lt _ _ _ ht]⟩)))

theorem Frame.modify_record (sm : SymMap) (id : Nat) (f : Record → Record)
    (hf : ∀ r, (f r).name = r.name ∧ (f r).defineLoc = r.defineLoc) :
    Frame sm { sm with recordList := sm.recordList.modify id f } := by
  intro t ht
  cases t <;> first | exact ⟨ht, rfl, rfl⟩ | skip
  simp only [SymbolId.Valid] at ht
  refine ⟨by simp [SymbolId.Valid]; exact ht, ?_, ?_⟩
  · simp only [symbolDefineLoc, SymMap.record, sGetElem!_modify _ _ _ _ ht]
    split
    · exact (hf _).2
    · rfl
  · simp only [symbolName, SymMap.record, sGetElem!_modify _ _ _ _ ht]
    split
    · exact (hf _).1
    · rfl

theorem Frame.modify_multiclass (sm : SymMap) (id : Nat) (f : Multiclass → Multiclass)
    (hf : ∀ r, (f r).name = r.name ∧ (f r).defineLoc = r.defineLoc) :
    Frame sm { sm with multiclassList := sm.multiclassList.modify id f } := by
  intro t ht
  cases t <;> first | exact ⟨ht, rfl, rfl⟩ | skip
  simp only [SymbolId.Valid] at ht
  refine ⟨by simp [SymbolId.Valid]; exact ht, ?_, ?_⟩
  · simp only [symbolDefineLoc, SymMap.multiclass, sGetElem!_modify _ _ _ _ ht]
    split
    · exact (hf _).2
    · rfl
  · simp only [symbolName, SymMap.multiclass, sGetElem!_modify _ _ _ _ ht]
    split
    · exact (hf _).1
    · rfl

theorem Frame.modify_defm (sm : SymMap) (id : Nat) (f : Defm → Defm)
    (hf : ∀ r, (f r).name = r.name ∧ (f r).defineLoc = r.defineLoc) :
    Frame sm { sm with defmList := sm.defmList.modify id f } := by
  intro t ht
  cases t <;> first | exact ⟨ht, rfl, rfl⟩ | skip
  simp only [SymbolId.Valid] at ht
  refine ⟨by simp [SymbolId.Valid]; exact ht, ?_, ?_⟩
  · simp only [symbolDefineLoc, SymMap.defm, sGetElem!_modify _ _ _ _ ht]
    split
    · exact (hf _).2
    · rfl
  · simp only [symbolName, SymMap.defm, sGetElem!_modify _ _ _ _ ht]
    split
    · exact (hf _).1
    · rfl

theorem Frame.modify_defset (sm : SymMap) (id : Nat) (f : Defset → Defset)
    (hf : ∀ r, (f r).name = r.name ∧ (f r).defineLoc = r.defineLoc) :
    Frame sm { sm with defsetList := sm.defsetList.modify id f } := by
  intro t ht
  cases t <;> first | exact ⟨ht, rfl, rfl⟩ | skip
  simp only [SymbolId.Valid] at ht
  refine ⟨by simp [SymbolId.Valid]; exact ht, ?_, ?_⟩
  · simp only [symbolDefineLoc, SymMap.defset, sGetElem!_modify _ _ _ _ ht]
    split
    · exact (hf _).2
    · rfl
  · simp only [symbolName, SymMap.defset, sGetElem!_modify _ _ _ _ ht]
    split
    · exact (hf _).1
    · rfl

theorem SmStep.frame {sm sm' : SymMap} (h : SmStep sm sm') : Frame sm sm' := by
  cases h with
  | addRecord r g =>
    unfold SymMap.addRecord
    simp only
    have h1 : Frame sm (({ sm with recordList := sm.recordList.push r, recordGid := sm.recordGid.push sm.gidToSym.size } : SymMap).logDefine (.record sm.recordList.size) r.name r.defineLoc false) := by
      frame_alloc
    split
    · refine Frame.trans ?_ (Frame.pushFileSymbol _ _ _)
      split <;> exact h1.trans (Frame.of_arenas rfl rfl rfl rfl rfl rfl rfl)
    · split <;> exact h1.trans (Frame.of_arenas rfl rfl rfl rfl rfl rfl rfl)
  | addAnonymousDef r => unfold SymMap.addAnonymousDef; frame_alloc
  | addMulticlassDef r =>
    unfold SymMap.addMulticlassDef
    refine Frame.trans ?_ (Frame.pushFileSymbol _ _ _)
    frame_alloc
  | registerDefsetName id => exact Frame.of_arenas rfl rfl rfl rfl rfl rfl rfl
  | addTemplateArgument a => unfold SymMap.addTemplateArgument; frame_alloc
  | addRecordField f => unfold SymMap.addRecordField; frame_alloc
  | addVariable v =>
    unfold SymMap.addVariable
    refine Frame.trans ?_ (Frame.pushFileSymbol _ _ _)
    frame_alloc
  | addDefset d =>
    unfold SymMap.addDefset
    refine Frame.trans ?_ (Frame.pushFileSymbol _ _ _)
    frame_alloc
  | addMulticlass m =>
    unfold SymMap.addMulticlass
    refine Frame.trans ?_ (Frame.pushFileSymbol _ _ _)
    refine Frame.trans ?_ (Frame.of_arenas (sm := (({ sm with multiclassList := sm.multiclassList.push m, multiclassGid := sm.multiclassGid.push sm.gidToSym.size } : SymMap).logDefine (.multiclass sm.multiclassList.size) m.name m.defineLoc false)) rfl rfl rfl rfl rfl rfl rfl)
    frame_alloc
  | addDefm d g =>
    unfold SymMap.addDefm
    have h1 : Frame sm (({ sm with defmList := sm.defmList.push d, defmGid := sm.defmGid.push sm.gidToSym.size } : SymMap).logDefine (.defm sm.defmList.size) d.name d.defineLoc false) := by
      frame_alloc
    simp only
    split
    · exact h1.trans (Frame.pushFileSymbol _ _ _)
    · exact h1
  | addAnonymousDefm d => unfold SymMap.addAnonymousDefm; frame_alloc
  | addReference s loc => exact Frame.of_arenas rfl rfl rfl rfl rfl rfl rfl
  | recordMut id f hf => exact Frame.modify_record sm id f hf
  | multiclassMut id f hf => exact Frame.modify_multiclass sm id f hf
  | defmMut id f hf => exact Frame.modify_defm sm id f hf
  | defsetMut id f hf => exact Frame.modify_defset sm id f hf


/-! ### the per-file symbol lists -/

/-- the symbols registered for a file, in registration order -/
def fileList (sm : SymMap) (f : Nat) : List SymbolId := ((sm.iterSymbolsInFile f).getD #[]).toList

theorem find?_modify_first' {α : Type} (p : α → Bool) (g : α → α) (hg : ∀ a, p (g a) = p a)
    (l : List α) (i : Nat) (hi : l.findIdx? p = some i) :
    (l.modify i g).find? p = (l.find? p).map g := by
  induction l generalizing i with
  | nil => simp at hi
  | cons a t ih =>
    rw [List.findIdx?_cons] at hi
    by_cases hp : p a = true
    · simp only [hp, if_true, Option.some.injEq] at hi
      subst hi
      simp [List.find?_cons, hp, hg]
    · simp only [hp, Bool.false_eq_true, if_false, Option.map_eq_some_iff] at hi
      obtain ⟨j, hj, rfl⟩ := hi
      simp [List.find?_cons, hp, hg, ih j hj]

theorem find?_modify_other {α : Type} (p : α → Bool) (g : α → α) (l : List α) (i : Nat)
    (hi : ∀ a, l[i]? = some a → p a = false ∧ p (g a) = false) :
    (l.modify i g).find? p = l.find? p := by
  induction l generalizing i with
  | nil => simp
  | cons a t ih =>
    cases i with
    | zero =>
      obtain ⟨h1, h2⟩ := hi a (by simp)
      simp [List.find?_cons, h1, h2]
    | succ j =>
      simp only [List.modify_succ_cons, List.find?_cons]
      rw [ih j (fun b hb => hi b (by simpa using hb))]

theorem fileList_pushFileSymbol (sm : SymMap) (file f : Nat) (s : SymbolId) :
    fileList (sm.pushFileSymbol file s) f = fileList sm f ++ (if f = file then [s] else []) := by
  unfold fileList SymMap.pushFileSymbol SymMap.iterSymbolsInFile
  split
  · rename_i i hi
    simp only
    have hi' : sm.fileToSymbolList.toList.findIdx? (fun e => e.1 == file) = some i := by
      rw [← hi]
      conv => rhs; rw [← Array.toArray_toList (xs := sm.fileToSymbolList), List.findIdx?_toArray]
    obtain ⟨hlt, hp, _⟩ := Array.findIdx?_eq_some_iff_getElem.1 hi
    rw [← Array.find?_toList, Array.toList_modify, ← Array.find?_toList]
    by_cases hf : f = file
    · subst hf
      rw [find?_modify_first' (fun e : Nat × Array SymbolId => e.1 == f) (fun e => (e.1, e.2.push s)) (fun _ => rfl) _ _ hi']
      have : (sm.fileToSymbolList.toList.find? fun e => e.1 == f).isSome := by
        rw [List.find?_isSome]
        exact ⟨_, Array.mem_toList_iff.2 (Array.getElem_mem hlt), hp⟩
      cases hfind : sm.fileToSymbolList.toList.find? fun e => e.1 == f with
      | none => rw [hfind] at this; cases this
      | some e => simp
    · rw [find?_modify_other]
      · simp [hf]
      · intro a ha
        have ha' : a = sm.fileToSymbolList[i] := by
          have : sm.fileToSymbolList.toList[i]? = some sm.fileToSymbolList[i] := by simp [hlt]
          rw [this] at ha; exact (Option.some.inj ha).symm
        have hk : a.1 = file := by rw [ha']; simpa using hp
        simp only [hk]
        have : (file == f) = false := by simpa using fun h => hf h.symm
        exact ⟨this, this⟩
  · rename_i hn
    simp only
    rw [Array.find?_push]
    by_cases hf : f = file
    · subst hf
      have hnone : (sm.fileToSymbolList.find? fun e => e.1 == f) = none := by
        rw [Array.find?_eq_none]
        intro x hx hp
        rw [Array.findIdx?_eq_none_iff] at hn
        exact absurd hp (by simpa using hn x hx)
      simp [hnone]
    · have : (file == f) = false := by simpa using fun h => hf h.symm
      simp [this, hf]


@[simp] theorem pushFileSymbol_recordList (sm : SymMap) (f : Nat) (s : SymbolId) :
    (sm.pushFileSymbol f s).recordList = sm.recordList := by
  unfold SymMap.pushFileSymbol
  split <;> rfl

@[simp] theorem pushFileSymbol_templateArgList (sm : SymMap) (f : Nat) (s : SymbolId) :
    (sm.pushFileSymbol f s).templateArgList = sm.templateArgList := by
  unfold SymMap.pushFileSymbol
  split <;> rfl

@[simp] theorem pushFileSymbol_recordFieldList (sm : SymMap) (f : Nat) (s : SymbolId) :
    (sm.pushFileSymbol f s).recordFieldList = sm.recordFieldList := by
  unfold SymMap.pushFileSymbol
  split <;> rfl

@[simp] theorem pushFileSymbol_defsetList (sm : SymMap) (f : Nat) (s : SymbolId) :
    (sm.pushFileSymbol f s).defsetList = sm.defsetList := by
  unfold SymMap.pushFileSymbol
  split <;> rfl

@[simp] theorem pushFileSymbol_multiclassList (sm : SymMap) (f : Nat) (s : SymbolId) :
    (sm.pushFileSymbol f s).multiclassList = sm.multiclassList := by
  unfold SymMap.pushFileSymbol
  split <;> rfl

@[simp] theorem pushFileSymbol_defmList (sm : SymMap) (f : Nat) (s : SymbolId) :
    (sm.pushFileSymbol f s).defmList = sm.defmList := by
  unfold SymMap.pushFileSymbol
  split <;> rfl

/-- the symbols the outline lists -/
def isOutline : SymbolId → Bool
  | .record _ | .defset _ | .multiclass _ => true
  | _ => false

/-- the define locations of the outline symbols of a file, in registration order -/
def olocs (sm : SymMap) (f : Nat) : List FileRange :=
  ((fileList sm f).filter isOutline).map (symbolDefineLoc sm)

/-- every registered symbol exists -/
def ListValid (sm : SymMap) : Prop := ∀ f, ∀ s ∈ fileList sm f, s.Valid sm

theorem fileList_congr {sm sm' : SymMap} (h : sm'.fileToSymbolList = sm.fileToSymbolList) (f : Nat) :
    fileList sm' f = fileList sm f := by
  unfold fileList SymMap.iterSymbolsInFile; rw [h]

/-- a step that keeps the existing symbols and appends `ext f` to the list of each file `f` -/
theorem olocs_step {sm sm' : SymMap} (hv : ListValid sm) (hfr : Frame sm sm') (ext : Nat → List SymbolId)
    (hl : ∀ f, fileList sm' f = fileList sm f ++ ext f) (hext : ∀ f, ∀ s ∈ ext f, s.Valid sm') :
    ListValid sm' ∧ ∀ f, olocs sm' f = olocs sm f ++ ((ext f).filter isOutline).map (symbolDefineLoc sm') := by
  constructor
  · intro f s hs
    rw [hl f] at hs
    rcases List.mem_append.1 hs with hs | hs
    · exact (hfr s (hv f s hs)).1
    · exact hext f s hs
  · intro f
    unfold olocs
    rw [hl f, List.filter_append, List.map_append]
    congr 1
    apply List.map_congr_left
    intro s hs
    exact (hfr s (hv f s (List.mem_filter.1 hs).1)).2.1

/-- the steps of the API that do not register an outline symbol -/
inductive SmStepN : SymMap → SymMap → Prop
  | addRecordLocal (sm r) : SmStepN sm (sm.addRecord r false).2
  | addAnonymousDef (sm r) : SmStepN sm (sm.addAnonymousDef r).2
  | registerDefsetName (sm id) : SmStepN sm (sm.registerDefsetName id)
  | addTemplateArgument (sm a) : SmStepN sm (sm.addTemplateArgument a).2
  | addRecordField (sm f) : SmStepN sm (sm.addRecordField f).2
  | addVariable (sm v) : SmStepN sm (sm.addVariable v).2
  | addDefm (sm d g) : SmStepN sm (sm.addDefm d g).2
  | addAnonymousDefm (sm d) : SmStepN sm (sm.addAnonymousDefm d).2
  | addReference (sm s loc) : SmStepN sm (sm.addReference s loc)
  | recordMut (sm : SymMap) (id : Nat) (f : Record → Record)
      (hf : ∀ r, (f r).name = r.name ∧ (f r).defineLoc = r.defineLoc) :
      SmStepN sm { sm with recordList := sm.recordList.modify id f }
  | multiclassMut (sm : SymMap) (id : Nat) (f : Multiclass → Multiclass)
      (hf : ∀ r, (f r).name = r.name ∧ (f r).defineLoc = r.defineLoc) :
      SmStepN sm { sm with multiclassList := sm.multiclassList.modify id f }
  | defmMut (sm : SymMap) (id : Nat) (f : Defm → Defm)
      (hf : ∀ r, (f r).name = r.name ∧ (f r).defineLoc = r.defineLoc) :
      SmStepN sm { sm with defmList := sm.defmList.modify id f }
  | defsetMut (sm : SymMap) (id : Nat) (f : Defset → Defset)
      (hf : ∀ r, (f r).name = r.name ∧ (f r).defineLoc = r.defineLoc) :
      SmStepN sm { sm with defsetList := sm.defsetList.modify id f }

theorem SmStepN.toStep {sm sm' : SymMap} (h : SmStepN sm sm') : SmStep sm sm' := by
  cases h with
  | addRecordLocal r => exact .addRecord sm r false
  | addAnonymousDef r => exact .addAnonymousDef sm r
  | registerDefsetName id => exact .registerDefsetName sm id
  | addTemplateArgument a => exact .addTemplateArgument sm a
  | addRecordField f => exact .addRecordField sm f
  | addVariable v => exact .addVariable sm v
  | addDefm d g => exact .addDefm sm d g
  | addAnonymousDefm d => exact .addAnonymousDefm sm d
  | addReference s loc => exact .addReference sm s loc
  | recordMut id f hf => exact .recordMut sm id f hf
  | multiclassMut id f hf => exact .multiclassMut sm id f hf
  | defmMut id f hf => exact .defmMut sm id f hf
  | defsetMut id f hf => exact .defsetMut sm id f hf

/-- what a neutral step appends to the file lists: nothing, or one symbol that is not an outline symbol -/
theorem SmStepN.lists {sm sm' : SymMap} (h : SmStepN sm sm') :
    ∃ ext : Nat → List SymbolId, (∀ f, fileList sm' f = fileList sm f ++ ext f) ∧
      (∀ f, ∀ s ∈ ext f, s.Valid sm' ∧ isOutline s = false) := by
  cases h with
  | addRecordLocal r =>
    refine ⟨fun _ => [], fun f => ?_, fun f s hs => by cases hs⟩
    rw [List.append_nil]
    apply fileList_congr
    unfold SymMap.addRecord
    simp only [Bool.false_eq_true, if_false]
    split <;> rfl
  | addVariable v =>
    refine ⟨fun f => if f = v.defineLoc.file then [.var sm.variableList.size] else [], fun f => ?_, fun f s hs => ?_⟩
    · unfold SymMap.addVariable
      rw [fileList_pushFileSymbol]
      congr 1
    · simp only at hs
      split at hs
      · simp at hs; subst hs
        exact ⟨by simp [SymbolId.Valid, SymMap.addVariable, SymMap.logDefine], rfl⟩
      · cases hs
  | addDefm d g =>
    cases g with
    | false =>
      refine ⟨fun _ => [], fun f => ?_, fun f s hs => by cases hs⟩
      rw [List.append_nil]
      exact fileList_congr rfl f
    | true =>
      refine ⟨fun f => if f = d.defineLoc.file then [.defm sm.defmList.size] else [], fun f => ?_, fun f s hs => ?_⟩
      · unfold SymMap.addDefm
        simp only [if_true]
        rw [fileList_pushFileSymbol]
        congr 1
      · simp only at hs
        split at hs
        · simp at hs; subst hs
          exact ⟨by simp [SymbolId.Valid, SymMap.addDefm, SymMap.logDefine], rfl⟩
        · cases hs
  | _ =>
    refine ⟨fun _ => [], fun f => ?_, fun f s hs => by cases hs⟩
    rw [List.append_nil]
    exact fileList_congr rfl f

/-- a neutral step keeps the outline of every file -/
theorem SmStepN.olocs {sm sm' : SymMap} (h : SmStepN sm sm') (hv : ListValid sm) :
    ListValid sm' ∧ ∀ f, olocs sm' f = olocs sm f := by
  obtain ⟨ext, h1, h2⟩ := h.lists
  obtain ⟨v, ho⟩ := olocs_step hv h.toStep.frame ext h1 (fun f s hs => (h2 f s hs).1)
  refine ⟨v, fun f => ?_⟩
  rw [ho f]
  have : (ext f).filter isOutline = [] := by
    rw [List.filter_eq_nil_iff]
    intro s hs
    simp [(h2 f s hs).2]
  rw [this]; simp


/-- registering one outline symbol `s` (valid afterwards, at `loc`) for the file of `loc` -/
theorem olocs_push {sm sm' : SymMap} (hv : ListValid sm) (hfr : Frame sm sm') (s : SymbolId) (loc : FileRange)
    (hl : ∀ f, fileList sm' f = fileList sm f ++ (if f = loc.file then [s] else []))
    (hs : s.Valid sm') (ho : isOutline s = true) (hloc : symbolDefineLoc sm' s = loc) :
    ListValid sm' ∧ ∀ f, olocs sm' f = olocs sm f ++ (if f = loc.file then [loc] else []) := by
  obtain ⟨v, h⟩ := olocs_step hv hfr (fun f => if f = loc.file then [s] else []) hl
    (fun f t ht => by
      split at ht
      · simp at ht; subst ht; exact hs
      · cases ht)
  refine ⟨v, fun f => ?_⟩
  rw [h f]
  split
  · simp [ho, hloc]
  · simp

theorem olocs_addRecord_global {sm : SymMap} (hv : ListValid sm) (r : Record) :
    ListValid (sm.addRecord r true).2 ∧
    ∀ f, olocs (sm.addRecord r true).2 f = olocs sm f ++ (if f = r.defineLoc.file then [r.defineLoc] else []) := by
  refine olocs_push hv (SmStep.addRecord sm r true).frame (.record sm.recordList.size) r.defineLoc ?_ ?_ rfl ?_
  · intro f
    unfold SymMap.addRecord
    simp only [if_true]
    rw [fileList_pushFileSymbol]
    congr 1
    apply fileList_congr
    split <;> rfl
  · unfold SymMap.addRecord
    simp only [if_true, SymbolId.Valid, pushFileSymbol_recordList]
    split <;> simp [SymMap.logDefine]
  · unfold SymMap.addRecord
    simp only [if_true, symbolDefineLoc, SymMap.record, pushFileSymbol_recordList]
    split <;> simp [SymMap.logDefine]

theorem olocs_addMulticlassDef {sm : SymMap} (hv : ListValid sm) (r : Record) :
    ListValid (sm.addMulticlassDef r).2 ∧
    ∀ f, olocs (sm.addMulticlassDef r).2 f = olocs sm f ++ (if f = r.defineLoc.file then [r.defineLoc] else []) := by
  refine olocs_push hv (SmStep.addMulticlassDef sm r).frame (.record sm.recordList.size) r.defineLoc ?_ ?_ rfl ?_
  · intro f
    unfold SymMap.addMulticlassDef
    rw [fileList_pushFileSymbol]
    congr 1
  · simp [SymMap.addMulticlassDef, SymbolId.Valid, SymMap.logDefine]
  · simp [SymMap.addMulticlassDef, symbolDefineLoc, SymMap.record, SymMap.logDefine]

theorem olocs_addDefset {sm : SymMap} (hv : ListValid sm) (d : Defset) :
    ListValid (sm.addDefset d).2 ∧
    ∀ f, olocs (sm.addDefset d).2 f = olocs sm f ++ (if f = d.defineLoc.file then [d.defineLoc] else []) := by
  refine olocs_push hv (SmStep.addDefset sm d).frame (.defset sm.defsetList.size) d.defineLoc ?_ ?_ rfl ?_
  · intro f
    unfold SymMap.addDefset
    rw [fileList_pushFileSymbol]
    congr 1
  · simp [SymMap.addDefset, SymbolId.Valid, SymMap.logDefine]
  · simp [SymMap.addDefset, symbolDefineLoc, SymMap.defset, SymMap.logDefine]

theorem olocs_addMulticlass {sm : SymMap} (hv : ListValid sm) (m : Multiclass) :
    ListValid (sm.addMulticlass m).2 ∧
    ∀ f, olocs (sm.addMulticlass m).2 f = olocs sm f ++ (if f = m.defineLoc.file then [m.defineLoc] else []) := by
  refine olocs_push hv (SmStep.addMulticlass sm m).frame (.multiclass sm.multiclassList.size) m.defineLoc ?_ ?_ rfl ?_
  · intro f
    unfold SymMap.addMulticlass
    rw [fileList_pushFileSymbol]
    congr 1
  · simp [SymMap.addMulticlass, SymbolId.Valid, SymMap.logDefine]
  · simp [SymMap.addMulticlass, symbolDefineLoc, SymMap.multiclass, SymMap.logDefine]


end Ide
end Tg
