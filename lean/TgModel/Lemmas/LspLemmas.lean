/-
The conversion layer (`TgModel/Lsp.lean`) composed with the position round trip (C10): a range that is valid
in a text, converted with that text's line table and read back against the same text, is the same range.
-/
import TgModel.Lsp
import TgModel.Props.C10
import TgModel.Lemmas.IdeHandlers

namespace Tg
namespace Lsp

open Tg.Ide Tg.LineIndex

theorem floorB_boundary (pre post : List Char) (acc : Nat) :
    floorB (pre ++ post) (byteLen pre) acc = acc + byteLen pre := by
  induction pre generalizing acc with
  | nil =>
    cases post with
    | nil => simp [floorB]
    | cons ch t => simp [floorB, utf8Len_pos ch]
  | cons ch pre ih =>
    simp only [List.cons_append, byteLen_cons, floorB]
    rw [if_neg (by omega), Nat.add_sub_cancel_left, ih]
    omega

/-- the offset `floorB` rounds to is a character boundary of the text -/
theorem floorB_isBoundary (text : List Char) (o acc : Nat) :
    ∃ pre post, text = pre ++ post ∧ floorB text o acc = acc + byteLen pre := by
  induction text generalizing o acc with
  | nil => exact ⟨[], [], rfl, by simp [floorB]⟩
  | cons ch t ih =>
    simp only [floorB]
    split
    · exact ⟨[], ch :: t, rfl, by simp⟩
    · obtain ⟨pre, post, rfl, h⟩ := ih (o - utf8Len ch) (acc + utf8Len ch)
      exact ⟨ch :: pre, post, rfl, by rw [h]; simp; omega⟩

/-- **`position` is total**: the scan always succeeds on the offset the Rust code rounds to -/
theorem position_eq (text : List Char) (o : Nat) :
    ∃ l c, toPos text (floorB text o 0) 0 0 = some (l, c) ∧ position text o = ⟨l, c⟩ := by
  obtain ⟨pre, post, rfl, h⟩ := floorB_isBoundary text o 0
  obtain ⟨l, c, hp⟩ := C10.boundary_has_position pre post
  rw [Nat.zero_add] at h
  refine ⟨l, c, by rw [h]; exact hp, ?_⟩
  unfold position
  rw [h, hp]
  rfl

/-- the position of a character boundary is the position the line-table model assigns to it, and reading it
back gives the offset -/
theorem position_boundary {text : List Char} {a : Nat} (h : Boundary text a) :
    ∃ l c, toPos text a 0 0 = some (l, c) ∧ position text a = ⟨l, c⟩ ∧ offsetOf text (position text a) = a := by
  obtain ⟨pre, post, rfl, rfl⟩ := h
  obtain ⟨l, c, hp, hr⟩ := C10.roundtrip_boundary pre post
  have hpos : position (pre ++ post) (byteLen pre) = ⟨l, c⟩ := by
    unfold position
    rw [floorB_boundary, Nat.zero_add, hp]
    rfl
  exact ⟨l, c, hp, hpos, by rw [hpos]; exact hr⟩

/-- **a position denotes an offset of a text**: a client that interprets it against that text gets the offset -/
def PosDenotes (text : List Char) (p : Position) (a : Nat) : Prop := offsetOf text p = a

/-- **a range denotes a byte span of a text** -/
def Denotes (text : List Char) (r : Range) (a b : Nat) : Prop :=
  PosDenotes text r.start a ∧ PosDenotes text r.stop b

theorem position_denotes {text : List Char} {a : Nat} (h : Boundary text a) : PosDenotes text (position text a) a :=
  (position_boundary h).choose_spec.choose_spec.2.2

theorem range_denotes {text : List Char} {a b : Nat} (h : ValidRange text a b) : Denotes text (range text a b) a b :=
  ⟨position_denotes h.boundary_start, position_denotes h.boundary_stop⟩

/-- the line of a boundary offset: the number of line starts at or before it -/
theorem position_line {text : List Char} {a : Nat} (h : Boundary text a) :
    (position text a).line = ((lineStarts text 0).filter (· ≤ a)).length := by
  obtain ⟨l, c, hp, hpos, _⟩ := position_boundary h
  rw [hpos]
  exact C10.line_contains text a l c hp

/-- **a folding range denotes the lines of a byte span**: what is sent are the (zero-based) numbers of the lines
the two ends of the span lie in, a line being started by the beginning of the text and by every LF, lone CR
and CRLF -/
def LinesDenote (text : List Char) (r : FoldingRange) (a b : Nat) : Prop :=
  r.startLine = ((lineStarts text 0).filter (· ≤ a)).length ∧
  r.endLine = ((lineStarts text 0).filter (· ≤ b)).length

theorem foldingRange_denotes {text : List Char} {a b : Nat} (h : ValidRange text a b) :
    LinesDenote text (foldingRange text (a, b)) a b :=
  ⟨position_line h.boundary_start, position_line h.boundary_stop⟩

mutual
/-- **a document symbol and all its descendants denote the ide-level symbol**: both `range` and
`selection_range` denote the symbol's range, name and detail are the symbol's, and the children correspond
one to one -/
inductive SymDenotes (text : List Char) : Handlers.DocumentSymbol → DocumentSymbol → Prop
  | mk (d : Handlers.DocumentSymbol) (s : DocumentSymbol) :
      Denotes text s.range d.range.1 d.range.2 → Denotes text s.selectionRange d.range.1 d.range.2 →
      s.name = d.name → s.detail = d.typ → SymsDenote text d.children s.children → SymDenotes text d s
inductive SymsDenote (text : List Char) : List Handlers.DocumentSymbol → List DocumentSymbol → Prop
  | nil : SymsDenote text [] []
  | cons {d s ds ss} : SymDenotes text d s → SymsDenote text ds ss → SymsDenote text (d :: ds) (s :: ss)
end

/-- the two lists correspond element by element (same length, `R` at every index) -/
inductive All₂ {α β : Type} (R : α → β → Prop) : List α → List β → Prop
  | nil : All₂ R [] []
  | cons {a b as bs} : R a b → All₂ R as bs → All₂ R (a :: as) (b :: bs)

theorem All₂.of_map {α β : Type} {R : α → β → Prop} (f : α → β) :
    ∀ (l : List α), (∀ x ∈ l, R x (f x)) → All₂ R l (l.map f)
  | [], _ => .nil
  | x :: l, h => .cons (h x (by simp)) (All₂.of_map f l fun y hy => h y (by simp [hy]))

theorem All₂.length {α β : Type} {R : α → β → Prop} {l : List α} {l' : List β} (h : All₂ R l l') :
    l.length = l'.length := by
  induction h with
  | nil => rfl
  | cons _ _ ih => simp [ih]

/-- every element of either list has its partner at the same index -/
theorem All₂.get {α β : Type} {R : α → β → Prop} {l : List α} {l' : List β} (h : All₂ R l l') (i : Nat) {a : α}
    {b : β} (ha : l[i]? = some a) (hb : l'[i]? = some b) : R a b := by
  induction h generalizing i with
  | nil => simp at ha
  | cons hr _ ih =>
    cases i with
    | zero => simp at ha hb; subst ha; subst hb; exact hr
    | succ i => simp at ha hb; exact ih i ha hb

theorem All₂.right {α β : Type} {R : α → β → Prop} {l : List α} {l' : List β} (h : All₂ R l l') :
    ∀ b ∈ l', ∃ a ∈ l, R a b := by
  induction h with
  | nil => intro b hb; cases hb
  | cons hr _ ih =>
    intro b hb
    rcases List.mem_cons.mp hb with rfl | hb
    · exact ⟨_, by simp, hr⟩
    · obtain ⟨a, ha, h⟩ := ih b hb
      exact ⟨a, by simp [ha], h⟩

theorem documentSymbolL_cons (text : List Char) (c : Handlers.DocumentSymbol) (cs : List Handlers.DocumentSymbol) :
    documentSymbolL text (c :: cs) = documentSymbol text c :: documentSymbolL text cs := by
  simp [documentSymbolL]

theorem symsDenote_of_forall {text : List Char} :
    ∀ (cs : List Handlers.DocumentSymbol), (∀ c ∈ cs, SymDenotes text c (documentSymbol text c)) →
      SymsDenote text cs (documentSymbolL text cs)
  | [], _ => by simp only [documentSymbolL]; exact .nil
  | c :: cs, h => by
    rw [documentSymbolL_cons]
    exact .cons (h c (by simp)) (symsDenote_of_forall cs fun d hd => h d (by simp [hd]))

theorem DocSymOK.imp {P Q : Nat × Nat → Prop} (hpq : ∀ rg, P rg → Q rg) {d : Handlers.DocumentSymbol}
    (h : Handlers.DocSymOK P d) : Handlers.DocSymOK Q d := by
  induction h with
  | mk s hs _ ih => exact .mk s (hpq _ hs) ih

/-- a symbol all of whose ranges (its own and its descendants') are valid in `text` -/
theorem documentSymbol_denotes {text : List Char} {d : Handlers.DocumentSymbol}
    (h : Handlers.DocSymOK (fun rg => ValidRange text rg.1 rg.2) d) : SymDenotes text d (documentSymbol text d) := by
  induction h with
  | mk s hs _ ih =>
    obtain ⟨name, typ, rg, kind, children⟩ := s
    have hr := range_denotes hs
    simp only [documentSymbol]
    exact .mk _ _ hr hr rfl rfl (symsDenote_of_forall children ih)

theorem documentSymbolL_denotes {text : List Char} {ds : List Handlers.DocumentSymbol}
    (h : ∀ d ∈ ds, Handlers.DocSymOK (fun rg => ValidRange text rg.1 rg.2) d) :
    SymsDenote text ds (documentSymbolL text ds) :=
  symsDenote_of_forall ds fun d hd => documentSymbol_denotes (h d hd)

/-- the snapshot of a workspace of the Ide model: the path of a file, and its current text (the text its tree
spans; for a built workspace the content that was parsed, `C17.chars_of_parse`) -/
def snapOf (ws : Workspace) : Snapshot := { path := ws.pathStr, text := fun f => (ws.tree f).chars }

end Lsp
end Tg
