/-
C04, negative facts about the documented grammar (part 1): inversion of `Doc.Derives`, a first-token
analysis (`canStart`, sound for `Derives`, evaluated by the kernel), and `¬ ValueOK`.
-/
import TgModel.Lemmas.C04ConvVal

namespace Tg
namespace C04L
open Prog Grammar Frag Doc

local notation "rcv" => Tables.recoverTokens

/-! ### inversion -/

theorem inv_nt {x : NT} {w : List TokenKind} (h : Derives (.nt x) w) : Derives (rule x) w := by
  cases h with
  | nt h => exact h

theorem inv_seq {a b : E} {w : List TokenKind} (h : Derives (.seq a b) w) :
    ∃ u v, w = u ++ v ∧ Derives a u ∧ Derives b v := by
  cases h with
  | seq h1 h2 => exact ⟨_, _, rfl, h1, h2⟩

theorem inv_alt {a b : E} {w : List TokenKind} (h : Derives (.alt a b) w) : Derives a w ∨ Derives b w := by
  cases h with
  | altL h => exact Or.inl h
  | altR h => exact Or.inr h

theorem inv_tok {ks : List TokenKind} {w : List TokenKind} (h : Derives (.tok ks) w) : ∃ k, k ∈ ks ∧ w = [k] := by
  cases h with
  | tok h => exact ⟨_, h, rfl⟩

theorem inv_opt {a : E} {w : List TokenKind} (h : Derives (.opt a) w) : w = [] ∨ Derives a w := by
  cases h with
  | optNone => exact Or.inl rfl
  | optSome h => exact Or.inr h

theorem inv_star {a : E} {w : List TokenKind} (h : Derives (.star a) w) :
    w = [] ∨ ∃ u v, w = u ++ v ∧ Derives a u ∧ Derives (.star a) v := by
  cases h with
  | starNil => exact Or.inl rfl
  | starCons h1 h2 => exact Or.inr ⟨_, _, rfl, h1, h2⟩

theorem inv_plus {a : E} {w : List TokenKind} (h : Derives (.plus a) w) :
    ∃ u v, w = u ++ v ∧ Derives a u ∧ Derives (.star a) v := by
  cases h with
  | plus h1 h2 => exact ⟨_, _, rfl, h1, h2⟩

/-- `tok ks` in front: exactly one token -/
theorem inv_tokseq {ks : List TokenKind} {b : E} {w : List TokenKind} (h : Derives (.seq (.tok ks) b) w) :
    ∃ k v, w = k :: v ∧ k ∈ ks ∧ Derives b v := by
  obtain ⟨u, v, rfl, h1, h2⟩ := inv_seq h
  obtain ⟨k, hk, rfl⟩ := inv_tok h1
  exact ⟨k, v, rfl, hk, h2⟩

/-! ### nullable and first tokens, with fuel for the nonterminals -/

/-- may `e` derive the empty word?  (`true` when the fuel runs out; the fuel decreases at every step, so
that the kernel can evaluate the function) -/
def nullableN : Nat → E → Bool
  | 0, _ => true
  | n + 1, e =>
    match e with
    | .tok _ => false
    | .eps => true
    | .seq a b => nullableN n a && nullableN n b
    | .alt a b => nullableN n a || nullableN n b
    | .opt _ => true
    | .star _ => true
    | .plus a => nullableN n a
    | .nt x => nullableN n (rule x)

/-- the tokens a word of `e` may start with (`none` = anything, when the fuel runs out) -/
def firstN : Nat → E → Option (List TokenKind)
  | 0, _ => none
  | n + 1, e =>
    match e with
    | .tok ks => some ks
    | .eps => some []
    | .seq a b =>
      match firstN n a with
      | none => none
      | some A => if nullableN n a then (match firstN n b with | none => none | some B => some (A ++ B)) else some A
    | .alt a b =>
      match firstN n a, firstN n b with
      | some A, some B => some (A ++ B)
      | _, _ => none
    | .opt a => firstN n a
    | .star a => firstN n a
    | .plus a => firstN n a
    | .nt x => firstN n (rule x)

theorem nullable_sound {e : E} {w : List TokenKind} (h : Derives e w) : w = [] → ∀ n, nullableN n e = true := by
  induction h with
  | tok _ => intro hw; cases hw
  | @nt x w _ ih =>
    intro hw n
    cases n with
    | zero => simp [nullableN]
    | succ n => simp only [nullableN]; exact ih hw n
  | eps => intro _ n; cases n <;> simp [nullableN]
  | seq _ _ i1 i2 =>
    intro hw n
    obtain ⟨h1, h2⟩ := List.append_eq_nil_iff.mp hw
    cases n with
    | zero => simp [nullableN]
    | succ n =>
      simp only [nullableN, Bool.and_eq_true]
      exact ⟨i1 h1 n, i2 h2 n⟩
  | altL _ ih =>
    intro hw n
    cases n with
    | zero => simp [nullableN]
    | succ n => simp only [nullableN, Bool.or_eq_true]; exact Or.inl (ih hw n)
  | altR _ ih =>
    intro hw n
    cases n with
    | zero => simp [nullableN]
    | succ n => simp only [nullableN, Bool.or_eq_true]; exact Or.inr (ih hw n)
  | optNone => intro _ n; cases n <;> simp [nullableN]
  | optSome _ _ => intro _ n; cases n <;> simp [nullableN]
  | starNil => intro _ n; cases n <;> simp [nullableN]
  | starCons _ _ _ _ => intro _ n; cases n <;> simp [nullableN]
  | plus _ _ i1 _ =>
    intro hw n
    obtain ⟨h1, _⟩ := List.append_eq_nil_iff.mp hw
    cases n with
    | zero => simp [nullableN]
    | succ n => simp only [nullableN]; exact i1 h1 n

theorem first_sound {e : E} {w' : List TokenKind} (h : Derives e w') :
    ∀ (n : Nat) (S : List TokenKind) (k : TokenKind) (w : List TokenKind), w' = k :: w → firstN n e = some S → k ∈ S := by
  induction h with
  | tok hk =>
    intro n S k w hw hS
    cases n with
    | zero => simp [firstN] at hS
    | succ n =>
      simp only [firstN, Option.some.injEq] at hS
      simp only [List.cons.injEq] at hw
      subst hS; rw [← hw.1]; exact hk
  | @nt x w _ ih =>
    intro n S k w hw hS
    cases n with
    | zero => simp [firstN] at hS
    | succ n => simp only [firstN] at hS; exact ih n S k w hw hS
  | eps => intro n S k w hw; cases hw
  | @seq a b u v h1 h2 i1 i2 =>
    intro n S k w hw hS
    cases n with
    | zero => simp [firstN] at hS
    | succ n =>
    simp only [firstN] at hS
    cases hA : firstN n a with
    | none => rw [hA] at hS; cases hS
    | some A =>
      rw [hA] at hS
      simp only at hS
      cases u with
      | nil =>
        have hn := nullable_sound h1 rfl n
        rw [hn] at hS
        simp only [if_true] at hS
        cases hB : firstN n b with
        | none => rw [hB] at hS; cases hS
        | some B =>
          rw [hB] at hS
          simp only [Option.some.injEq] at hS
          subst hS
          exact List.mem_append_right _ (i2 n B k w (by simpa using hw) hB)
      | cons x u' =>
        have hx : x = k := by simp only [List.cons_append, List.cons.injEq] at hw; exact hw.1
        have hk : k ∈ A := i1 n A k u' (by rw [hx]) hA
        split at hS
        · cases hB : firstN n b with
          | none => rw [hB] at hS; cases hS
          | some B =>
            rw [hB] at hS
            simp only [Option.some.injEq] at hS
            subst hS
            exact List.mem_append_left _ hk
        · simp only [Option.some.injEq] at hS
          subst hS; exact hk
  | @altL a b w _ ih =>
    intro n S k w' hw hS
    cases n with
    | zero => simp [firstN] at hS
    | succ n =>
    simp only [firstN] at hS
    cases hA : firstN n a with
    | none => rw [hA] at hS; cases hS
    | some A =>
      cases hB : firstN n b with
      | none => rw [hA, hB] at hS; cases hS
      | some B =>
        rw [hA, hB] at hS
        simp only [Option.some.injEq] at hS
        subst hS
        exact List.mem_append_left _ (ih n A k w' hw hA)
  | @altR a b w _ ih =>
    intro n S k w' hw hS
    cases n with
    | zero => simp [firstN] at hS
    | succ n =>
    simp only [firstN] at hS
    cases hA : firstN n a with
    | none => rw [hA] at hS; cases hS
    | some A =>
      cases hB : firstN n b with
      | none => rw [hA, hB] at hS; cases hS
      | some B =>
        rw [hA, hB] at hS
        simp only [Option.some.injEq] at hS
        subst hS
        exact List.mem_append_right _ (ih n B k w' hw hB)
  | optNone => intro n S k w hw; cases hw
  | optSome _ ih =>
    intro n S k w hw hS
    cases n with
    | zero => simp [firstN] at hS
    | succ n =>
      simp only [firstN] at hS
      exact ih n S k w hw hS
  | starNil => intro n S k w hw; cases hw
  | @starCons a u v _ _ i1 i2 =>
    intro n S k w hw hS
    cases u with
    | nil => exact i2 n S k w (by simpa using hw) hS
    | cons x u' =>
      have hx : x = k := by simp only [List.cons_append, List.cons.injEq] at hw; exact hw.1
      cases n with
      | zero => simp [firstN] at hS
      | succ n =>
        simp only [firstN] at hS
        exact i1 n S k u' (by rw [hx]) hS
  | @plus a u v _ _ i1 i2 =>
    intro n S k w hw hS
    cases n with
    | zero => simp [firstN] at hS
    | succ n =>
    cases u with
    | nil =>
      refine i2 (n + 1) S k w (by simpa using hw) ?_
      simp only [firstN] at hS ⊢
      exact hS
    | cons x u' =>
      have hx : x = k := by simp only [List.cons_append, List.cons.injEq] at hw; exact hw.1
      simp only [firstN] at hS
      exact i1 n S k u' (by rw [hx]) hS

/-- may a word of `e` start with `k`? -/
def canStart (n : Nat) (e : E) (k : TokenKind) : Bool :=
  match firstN n e with
  | none => true
  | some S => S.contains k

theorem canStart_sound {e : E} {k : TokenKind} {w : List TokenKind} (h : Derives e (k :: w)) (n : Nat) :
    canStart n e k = true := by
  unfold canStart
  cases hS : firstN n e with
  | none => rfl
  | some S => simpa using first_sound h n S k w rfl hS

/-- a word of `e` cannot start with `k` (refutation by evaluation) -/
theorem not_start {e : E} {k : TokenKind} {w : List TokenKind} (n : Nat) (hn : canStart n e k = false)
    (h : Derives e (k :: w)) : False := by
  rw [canStart_sound h n] at hn; cases hn

/-- `e` does not derive the empty word (refutation by evaluation) -/
theorem not_null {e : E} (n : Nat) (hn : nullableN n e = false) (h : Derives e []) : False := by
  rw [nullable_sound h rfl n] at hn; cases hn

/-- skipping an alternative that cannot start with the token at hand -/
theorem alt_skip {a b : E} {k : TokenKind} {w : List TokenKind} (n : Nat) (hn : canStart n a k = false)
    (h : Derives (.alt a b) (k :: w)) : Derives b (k :: w) := by
  rcases inv_alt h with h | h
  · exact (not_start n hn h).elim
  · exact h

end C04L
end Tg
