/-
C04 forward direction, step 3: contracts of the grammar functions on the abstract interpreter.
Each says: on the rendering of a fragment term followed by `rest`, the function consumes exactly
the rendering.  Fuel: `64 * (number of tokens) + 64 * rank` always suffices.
-/
import TgModel.Lemmas.C04Exec

namespace Tg
namespace C04L
open Prog Grammar Frag

set_option linter.unusedSimpArgs false

/-- side conditions of the evaluation rules: fuel, follow facts, closed token comparisons -/
macro "ax_side" : tactic =>
  `(tactic| first
    | omega
    | assumption
    | exact hasTop_cpsUp _
    | (simp only [List.reverse_cons, List.reverse_nil, List.nil_append, List.cons_append]; decide)
    | trivial
    | (simp only [List.headD_cons]; assumption)
    | (simp only [List.headD_cons, List.headD_nil]; decide)
    | decide
    | simp (config := { decide := true }) only [List.contains_cons, List.contains_nil, List.headD_cons,
        List.headD_nil, Bool.or_false, Bool.or_self, Bool.false_or, *])

/-- the simp set that evaluates the abstract interpreter on a concrete program -/
macro "ax_eval" " [" ls:Lean.Parser.Tactic.simpLemma,* "]" : tactic =>
  `(tactic| simp (disch := ax_side) only
      [ax_nop, ax_seq, ax_startNode, ax_finishNode, ax_pushCp, ax_popCp, ax_startNodeAtCp, ax_retB, ax_skip,
       ax_pushLocal, ax_popLocal, ax_setLocal, ax_ifLocal_true, ax_ifLocal_false, pushAll,
       List.replicate_zero, List.replicate_succ,
       ax_ifFlag_true, ax_ifFlag_false, ax_ifAt_pos, ax_ifAt_neg, loopK_true, loopK_false,
       ax_eat, ax_eatIf_pos, ax_eatIf_neg, ax_expect, ax_assertTok, Option.bind_some,
       Grammar.defs, seqs, matchPeek, orError, whileNotAt, sepLoop, delimited, ifEatIf, leaf1,
       keywordType, List.headD_cons, List.headD_nil, List.cons_append, List.nil_append,
       List.append_assoc, List.append_nil, $ls,*])

/-! ### follow conditions -/

/-- what may follow a literal-with-suffixes (`#` included) -/
def svalFollowOk (k : TokenKind) : Bool :=
  !(k == .LBrace || k == .LSquare || k == .Dot || k == .Less || k == .StrVal)

/-- what may follow a value -/
def valFollowOk (k : TokenKind) : Bool := svalFollowOk k && !(k == .Paste)

/-- the same in name mode (`def` names), where `{` ends the name -/
def nsvalFollowOk (k : TokenKind) : Bool :=
  !(k == .LSquare || k == .Dot || k == .Less || k == .StrVal)

def nvalFollowOk (k : TokenKind) : Bool := nsvalFollowOk k && !(k == .Paste)

theorem svalFollowOk_iff {k : TokenKind} : svalFollowOk k = true ↔
    ((k == .LBrace) = false ∧ (k == .LSquare) = false ∧ (k == .Dot) = false ∧ (k == .Less) = false ∧
     (k == .StrVal) = false) := by
  simp [svalFollowOk, and_assoc]

theorem nsvalFollowOk_iff {k : TokenKind} : nsvalFollowOk k = true ↔
    ((k == .LSquare) = false ∧ (k == .Dot) = false ∧ (k == .Less) = false ∧ (k == .StrVal) = false) := by
  simp [nsvalFollowOk, and_assoc]

theorem valFollowOk_iff {k : TokenKind} : valFollowOk k = true ↔ (svalFollowOk k = true ∧ (k == .Paste) = false) := by
  simp [valFollowOk]

theorem nvalFollowOk_iff {k : TokenKind} : nvalFollowOk k = true ↔ (nsvalFollowOk k = true ∧ (k == .Paste) = false) := by
  simp [nvalFollowOk]

@[simp] theorem intKind_true : intKind true = .BinaryIntVal := rfl
@[simp] theorem intKind_false : intKind false = .IntVal := rfl

variable (rest : List TokenKind) (fl : Bool) (d : Nat) (loc : List Bool) (cps : CpStack) (cur : List SyntaxKind) (ps : List (SyntaxKind × List SyntaxKind))

theorem c_identifier (n : Nat) (hn : 64 ≤ n) :
    ax n (call .identifier) ⟨.Id :: rest, fl, d, loc, cps, true, cur, ps⟩ = some ⟨rest, true, d, loc, cps, true, SyntaxKind.Identifier :: cur, ps⟩ := by
  obtain ⟨m, rfl⟩ : ∃ m, n = m + 10 := ⟨n - 10, by omega⟩
  ax_eval [ax_call]

/-! ### membership helpers for follow sets -/

theorem ne_of_mem {k K : TokenKind} {S : List TokenKind} (h : S.contains k = true)
    (hS : S.contains K = false) : (k == K) = false := by
  cases hk : (k == K) with
  | false => rfl
  | true =>
    have : k = K := by simpa using hk
    subst this; rw [h] at hS; cases hS

theorem prop_of_mem {k : TokenKind} {S : List TokenKind} (P : TokenKind → Bool) (h : S.contains k = true)
    (hS : S.all P = true) : P k = true := by
  have hm : k ∈ S := by simpa using h
  exact List.all_eq_true.mp hS k hm

theorem notin_of_mem {k : TokenKind} {S T : List TokenKind} (h : S.contains k = true)
    (hS : S.all (fun x => !T.contains x) = true) : T.contains k = false := by
  have := prop_of_mem (fun x => !T.contains x) h hS
  simpa using this

theorem in_of_mem {k : TokenKind} {S T : List TokenKind} (h : S.contains k = true)
    (hS : S.all (fun x => T.contains x) = true) : T.contains k = true :=
  prop_of_mem (fun x => T.contains x) h hS

/-! ### types -/

/-- the node kind of a type -/
def Frag.Ty.nk : Ty → SyntaxKind
  | .bit => .BitType
  | .int => .IntType
  | .string => .StringType
  | .dag => .DagType
  | .code => .CodeType
  | .bits _ => .BitsType
  | .list _ => .ListType
  | .cls => .ClassId

/-- the flag after `type_` (only `identifier` / `integer` inside touch it) -/
def tyFlag (fl : Bool) : Ty → Bool
  | .bits _ => true
  | .list t => tyFlag fl t
  | .cls => true
  | _ => fl

/-- **`type_`** on a fragment type -/
theorem c_type (t : Ty) (X : List TokenKind) :
    ∀ (n : Nat) (fl : Bool) (d : Nat) (cur : List SyntaxKind) (ps : List (SyntaxKind × List SyntaxKind)),
      64 * t.render.length + 192 ≤ n →
      ax n (call .type_) ⟨t.render ++ X, fl, d, loc, cps, true, cur, ps⟩ = some ⟨X, tyFlag fl t, d, loc, cps, true, t.nk :: cur, ps⟩ := by
  induction t generalizing X cps with
  | list t ih =>
    intro n fl d cur ps hn
    simp only [Ty.render, List.length_cons, List.length_append] at hn
    obtain ⟨m, rfl⟩ : ∃ m, n = m + 40 := ⟨n - 40, by omega⟩
    have hg : goodNode .ListType (List.reverse [t.nk]) = true := by cases t <;> rfl
    rw [ax_call]
    ax_eval [ax_call (f := .list_type), typeArms, Ty.render, tyFlag, ih]
    rfl
  | bits b =>
    intro n fl d cur ps hn
    obtain ⟨m, rfl⟩ : ∃ m, n = m + 40 := ⟨n - 40, by omega⟩
    cases b <;> ax_eval [ax_call, typeArms, Ty.render, tyFlag, Ty.nk, intKind_true, intKind_false]
  | _ =>
    intro n fl d cur ps hn
    obtain ⟨m, rfl⟩ : ∃ m, n = m + 40 := ⟨n - 40, by omega⟩
    ax_eval [ax_call, typeArms, Ty.render, tyFlag, Ty.nk]

/-- a type starts with a type keyword or an identifier -/
theorem ty_head (t : Ty) (Y : List TokenKind) : Tables.typeFirst.contains ((t.render ++ Y).headD .Eof) = true := by
  cases t <;> rfl

/-! ### bit ranges -/

theorem c_integer (b : Bool) (n : Nat) (hn : 64 ≤ n) :
    ax n (call .integer) ⟨intKind b :: rest, fl, d, loc, cps, true, cur, ps⟩ = some ⟨rest, true, d, loc, cps, true, SyntaxKind.Integer :: cur, ps⟩ := by
  obtain ⟨m, rfl⟩ : ∃ m, n = m + 20 := ⟨n - 20, by omega⟩
  cases b <;> ax_eval [ax_call, intKind_true, intKind_false]

theorem c_range_piece (p : RangePiece) (X : List TokenKind)
    (h1 : (X.headD .Eof == .DotDotDot) = false) (h2 : (X.headD .Eof == .Minus) = false)
    (h3 : (X.headD .Eof == .IntVal) = false) (n : Nat) (hn : 64 * p.render.length + 192 ≤ n) :
    ax n (call .range_piece) ⟨p.render ++ X, fl, d, loc, cps, true, cur, ps⟩ = some ⟨X, true, d, loc, cps, true, SyntaxKind.RangePiece :: cur, ps⟩ := by
  obtain ⟨m, rfl⟩ : ∃ m, n = m + 40 := ⟨n - 40, by omega⟩
  cases p with
  | single b =>
    ax_eval [ax_call (f := .range_piece), RangePiece.render, c_integer]
  | dots b1 b2 =>
    ax_eval [ax_call (f := .range_piece), RangePiece.render, c_integer]
  | minus b1 b2 =>
    ax_eval [ax_call (f := .range_piece), RangePiece.render, c_integer]
  | juxt b1 =>
    have h' := c_integer X true (d + 1) loc (cpsUp cps) [SyntaxKind.Integer] ((SyntaxKind.RangePiece, cur) :: ps) false
    simp only [intKind_false] at h'
    ax_eval [ax_call (f := .range_piece), RangePiece.render, c_integer, h']

theorem piece_head (p : RangePiece) (Z : List TokenKind) :
    [TokenKind.IntVal, .BinaryIntVal].contains ((p.render ++ Z).headD .Eof) = true := by
  have key : ∀ b, [TokenKind.IntVal, .BinaryIntVal].contains (intKind b) = true := by
    intro b; cases b <;> rfl
  cases p <;> simp only [RangePiece.render, List.cons_append, List.headD_cons] <;> exact key _

theorem piece_length_pos (p : RangePiece) : 0 < p.render.length := by
  cases p <;> simp [RangePiece.render]

/-- the loop of `range_list` -/
theorem c_range_loop (tl : List RangePiece) (X : List TokenKind)
    (hX : [TokenKind.RBrace, .Greater].contains (X.headD .Eof) = true) :
    ∀ (p : RangePiece) (n : Nat) (fl : Bool) (cur : List SyntaxKind),
      64 * (p.render.length + (rangeTail tl).length) + 256 ≤ n →
      ax n (loop (ifAt [.Eof] (retB false) (seq (call .range_piece) (eatIf .Comma))) nop)
        ⟨p.render ++ (rangeTail tl ++ X), fl, d, loc, cps, true, cur, ps⟩ = some ⟨X, false, d, loc, cps, true, pushAll (List.replicate (tl.length + 1) SyntaxKind.RangePiece) cur, ps⟩ := by
  have h1 : (X.headD .Eof == .DotDotDot) = false := ne_of_mem hX (by decide)
  have h2 : (X.headD .Eof == .Minus) = false := ne_of_mem hX (by decide)
  have h3 : (X.headD .Eof == .IntVal) = false := ne_of_mem hX (by decide)
  have h4 : (X.headD .Eof == .Comma) = false := ne_of_mem hX (by decide)
  induction tl with
  | nil =>
    intro p n fl cur hn
    simp only [rangeTail, List.length_nil] at hn
    obtain ⟨m, rfl⟩ : ∃ m, n = m + 20 := ⟨n - 20, by omega⟩
    have hh : ∀ Z, [TokenKind.Eof].contains ((p.render ++ Z).headD .Eof) = false :=
      fun Z => notin_of_mem (piece_head p Z) (by decide)
    rw [ax_loop]
    ax_eval [rangeTail, c_range_piece]
    rfl
  | cons q qs ih =>
    intro p n fl cur hn
    simp only [rangeTail, List.length_cons, List.length_append] at hn
    obtain ⟨m, rfl⟩ : ∃ m, n = m + 20 := ⟨n - 20, by omega⟩
    have hh : ∀ Z, [TokenKind.Eof].contains ((p.render ++ Z).headD .Eof) = false :=
      fun Z => notin_of_mem (piece_head p Z) (by decide)
    rw [ax_loop]
    ax_eval [rangeTail, c_range_piece, ih]
    rfl

theorem c_range_list (r : RangeList) (X : List TokenKind)
    (hX : [TokenKind.RBrace, .Greater].contains (X.headD .Eof) = true)
    (n : Nat) (hn : 64 * r.render.length + 320 ≤ n) :
    ax n (call .range_list) ⟨r.render ++ X, fl, d, loc, cps, true, cur, ps⟩ = some ⟨X, true, d, loc, cps, true, SyntaxKind.RangeList :: cur, ps⟩ := by
  obtain ⟨p, tl⟩ := r
  simp only [RangeList.render, List.length_append] at hn ⊢
  obtain ⟨m, rfl⟩ : ∃ m, n = m + 20 := ⟨n - 20, by omega⟩
  have hg : goodNode .RangeList (pushAll (List.replicate tl.length .RangePiece) [.RangePiece]).reverse = true :=
    good_all_push .RangeList ⟨"pieces", .all, [.RangePiece]⟩ rfl rfl
      (List.replicate (tl.length + 1) .RangePiece) (by intro x hx; rw [List.eq_of_mem_replicate hx]; rfl)
  ax_eval [ax_call (f := .range_list), c_range_loop _ _ _ _ tl X hX]

end C04L
end Tg
