/-
Runs of statement lists taken apart (`StmtsRun`: the successive runs of the statements), the run of a
`foreach` with a well-formed head taken apart (`foreach_run`), what its iterator declares
(`iterator_var`), the identifier site of a `defvar x = id;` / `dump id;` statement is entered in the
state in which the statement starts (`direct_site_run`), and `index_enters_ws`: `Ix10.index_enters` with
the workspace of the state.
-/
import TgModel.Lemmas.Ix10Hist
namespace Tg
namespace Ide
open Index

namespace Ix11
open Ix10

/-! ### statement lists -/

/-- the successive runs of the statements of a list -/
inductive StmtsRun (k : Nat) : List PTree → IndexCtx → IndexCtx → Prop
  | nil (c : IndexCtx) : StmtsRun k [] c c
  | cons {s : PTree} {l : List PTree} {c c1 c2 : IndexCtx} :
      (indexStatement (mkRec k) s).run c = .ok ((), c1) → StmtsRun k l c1 c2 → StmtsRun k (s :: l) c c2

theorem stmtsRun_of_list (k : Nat) (sl : PTree) (c c' : IndexCtx) (u : Unit)
    (h : (indexStatementList (mkRec k) sl).run c = .ok (u, c')) :
    StmtsRun k (Ast.statementListStatements sl) c c' := by
  unfold indexStatementList at h
  obtain ⟨u1, c1, h1, h2⟩ := IxM.run_bind_ok h
  simp only [StateT.run_pure] at h2
  cases h2
  clear h
  revert h1
  generalize Ast.statementListStatements sl = l
  intro h1
  induction l generalizing c with
  | nil =>
    simp only [List.forIn_nil, StateT.run_pure] at h1
    cases h1
    exact .nil _
  | cons x t ih =>
    simp only [List.forIn_cons] at h1
    obtain ⟨st, c0, hb, h1⟩ := IxM.run_bind_ok h1
    obtain ⟨v, c00, hs, hb⟩ := IxM.run_bind_ok hb
    simp only [StateT.run_pure] at hb
    cases hb
    exact .cons hs (ih _ h1)

theorem StmtsRun.split {k : Nat} {pre : List PTree} {s : PTree} {post : List PTree} :
    ∀ {c c' : IndexCtx}, StmtsRun k (pre ++ s :: post) c c' →
      ∃ c1 c2, StmtsRun k pre c c1 ∧ (indexStatement (mkRec k) s).run c1 = .ok ((), c2) ∧ StmtsRun k post c2 c' := by
  induction pre with
  | nil =>
    intro c c' h
    cases h with
    | cons h1 h2 => exact ⟨c, _, .nil _, h1, h2⟩
  | cons x pre ih =>
    intro c c' h
    cases h with
    | cons h1 h2 =>
      obtain ⟨c1, c2, a, b, d⟩ := ih h2
      exact ⟨c1, c2, .cons h1 a, b, d⟩

theorem StmtsRun.keeps {R : IndexCtx → IndexCtx → Prop} [KeepRel R] {k : Nat} {l : List PTree}
    (hR : ∀ s ∈ l, Keeps R (indexStatement (mkRec k) s)) : ∀ {c c' : IndexCtx}, StmtsRun k l c c' → R c c' := by
  induction l with
  | nil => intro c c' h; cases h; exact KeepRel.refl _
  | cons x t ih =>
    intro c c' h
    cases h with
    | cons h1 h2 =>
      exact KeepRel.trans ((hR x List.mem_cons_self).run _ _ _ h1)
        (ih (fun s hs => hR s (List.mem_cons_of_mem _ hs)) h2)

theorem statement_preR (k : Nat) (s : PTree) : Keeps PreR (indexStatement (mkRec k) s) :=
  Ix10.preR_of_pass k fun R _ _ _ hv ht hsl hsf => Index.indexStatement_keeps hv ht hsl hsf s

theorem statement_later (k : Nat) (s : PTree) : Keeps LaterRel (indexStatement (mkRec k) s) := by
  obtain ⟨lv, lt, lsl, lsf⟩ := mkRec_later k
  exact Index.indexStatement_keeps lv lt lsl lsf s

theorem statement_attr (k : Nat) (s : PTree) : Keeps AttrRel (indexStatement (mkRec k) s) := by
  obtain ⟨lv, lt, lsl, lsf⟩ := mkRec_attr k
  exact Index.indexStatement_keeps lv lt lsl lsf s

/-! ### `foreach` -/

/-- the run of a `foreach` with a well-formed head: iterator, push, body, pop -/
theorem foreach_run (k : Nat) (n it nn : PTree) (name : String) (se : Nat × Nat) (init body : PTree)
    (hit : Ast.foreachIterator n = some it) (hn : Ast.foreachIteratorName it = some nn)
    (hiv : Ast.identifierValue nn = some name) (hir : Ast.identifierRange nn = some se)
    (hinit : Ast.foreachIteratorInit it = some init) (hbody : Ast.foreachBody n = some body)
    (c c' : IndexCtx) (u : Unit) (hrun : (indexForeach (mkRec k) n).run c = .ok (u, c')) :
    ∃ vid s1 s3, (indexForeachIterator (mkRec k) it).run c = .ok (some (name, vid), s1) ∧
      ((mkRec k).statementList body).run { s1 with scopes := s1.scopes.push (.foreach name vid) } = .ok ((), s3) ∧
      scopesPop.run s3 = .ok ((), c') := by
  unfold indexForeach at hrun
  simp only [hit] at hrun
  obtain ⟨x1, s1, h1, hrun⟩ := IxM.run_bind_ok hrun
  obtain ⟨vid, rfl⟩ := iterator_some (mkRec k) it nn name se init hn hiv hir hinit c x1 s1 h1
  simp only at hrun
  obtain ⟨x2, s2, h2, hrun⟩ := IxM.run_bind_ok hrun
  have hs2 : s2 = { s1 with scopes := s1.scopes.push (.foreach name vid) } := by
    unfold scopesPush at h2
    rw [IxM.run_modify] at h2
    cases h2; rfl
  subst hs2
  simp only [hbody] at hrun
  obtain ⟨x3, s3, h3, hrun⟩ := IxM.run_bind_ok hrun
  exact ⟨vid, s1, s3, h1, h3, hrun⟩

/-- what the iterator of a `foreach` declares: a valid variable whose location is the iterator's identifier -/
theorem iterator_var (r : Rec) (it nn : PTree) (name : String) (se : Nat × Nat) (init : PTree)
    (hn : Ast.foreachIteratorName it = some nn) (hiv : Ast.identifierValue nn = some name)
    (hir : Ast.identifierRange nn = some se) (hinit : Ast.foreachIteratorInit it = some init)
    (c : IndexCtx) (f : Nat) (rest : List Nat) (hft : c.fileTrace = f :: rest)
    (name' : String) (vid : Nat) (s1 : IndexCtx)
    (h : (indexForeachIterator r it).run c = .ok (some (name', vid), s1)) :
    SymbolId.Valid s1.symbolMap (.var vid) ∧
      Handlers.symbolDefineLoc s1.symbolMap (.var vid) = ⟨f, se.1, se.2⟩ := by
  unfold indexForeachIterator at h
  simp only [hn] at h
  obtain ⟨a, c0, h0, h⟩ := IxM.run_bind_ok h
  rw [utilsIdentifier_runOf nn c f rest hft] at h0
  cases h0
  obtain ⟨s, e⟩ := se
  simp only [identOf, hiv, hir, hinit] at h
  obtain ⟨x2, c2, _, h⟩ := IxM.run_bind_ok h
  obtain ⟨x3, c3, h3, h⟩ := IxM.run_bind_ok h
  simp only [StateT.run_pure] at h
  cases h
  unfold addVariable modifySM at h3
  rw [IxM.run_modifyGet] at h3
  cases h3
  constructor
  · simp [SymbolId.Valid, SymMap.logDefine]
  · simp [Handlers.symbolDefineLoc, SymMap.var, SymMap.logDefine]

/-! ### the identifier site of `defvar x = id;` / `dump id;` -/

/-- the site is entered in the state in which the statement starts -/
theorem direct_site_run (k : Nat) (s id : PTree) (hu : DefvarUse s id ∨ DumpUse s id) (c c' : IndexCtx) (u : Unit)
    (h : (indexStatement (mkRec k) s).run c = .ok (u, c')) :
    ∃ t c1, (indexIdentifierValue id).run c = .ok (t, c1) ∧ LaterRel c1 c' := by
  obtain ⟨lv, lt, lsl, lsf⟩ := mkRec_later k
  unfold indexStatement at h
  rcases hu with hu | hu
  · obtain ⟨nameNode, name, se, hnn, hiv, hir⟩ := hu.name
    obtain ⟨v, hv, hidv⟩ := hu.value
    simp only [hu.kind] at h
    unfold indexDefvar at h
    simp only [hnn] at h
    obtain ⟨a, c0, h0, h⟩ := IxM.run_bind_ok h
    cases hft : c.fileTrace with
    | nil =>
      unfold utilsIdentifier currentFileId at h0
      simp only [hiv, StateT.run_bind, IxM.run_get, Except.ok_bind, hft] at h0
      cases h0
    | cons f rest =>
      rw [utilsIdentifier_runOf nameNode c f rest hft] at h0
      cases h0
      obtain ⟨s0, e0⟩ := se
      simp only [identOf, hiv, hir, hv] at h
      obtain ⟨t, c1, h1, h2⟩ := IxM.run_bind_ok h
      clear h
      cases k with
      | zero => cases h1
      | succ k =>
        have h1' : (indexValue (mkRec k) v).run c = .ok (t, c1) := h1
        rw [indexValue_ident (mkRec k) v id hidv c] at h1'
        exact ⟨t, c1, h1', (scopesAddVariable_keeps (R := LaterRel) _).run _ _ _ h2⟩
  · obtain ⟨v, hv, hidv⟩ := hu.value
    simp only [hu.kind] at h
    unfold indexDump at h
    simp only [hv] at h
    obtain ⟨t, c1, h1, h2⟩ := IxM.run_bind_ok h
    clear h
    simp only [StateT.run_pure] at h2
    cases h2
    cases k with
    | zero => cases h1
    | succ k =>
      have h1' : (indexValue (mkRec k) v).run c = .ok (t, c') := h1
      rw [indexValue_ident (mkRec k) v id hidv c] at h1'
      exact ⟨t, c', h1', SmLater.refl _⟩

/-! ### entering a file -/

/-- `Ix10.index_enters`, with the workspace of the state in which the file is entered -/
theorem index_enters_ws (ws : Workspace) (res : IndexResult) (h : Index.index ws = .ok res) (g : Nat)
    (hg : TopReach ws g) (sf : PTree) (hsf : Ast.sourceFileCast (ws.tree g) = some sf) :
    ∃ (j : Nat) (cs cs' : IndexCtx) (rest : List Nat), LiveInv cs ∧ cs.ws = ws ∧ cs.fileTrace = g :: rest ∧
      (indexSourceFile (mkRec j) sf).run cs = .ok ((), cs') ∧ SmLater cs'.symbolMap res.symbolMap := by
  obtain ⟨sf0, ctx, hcast, hrun, hres, _, _, _, _, hreach⟩ := index_files ws res h
  subst hres
  by_cases hne : g = ws.root
  · subst hne
    rw [hcast] at hsf
    cases hsf
    exact ⟨ws.depthBound, IndexCtx.new ws, ctx, [], LiveInv.new ws, rfl, rfl, hrun, SmLater.refl _⟩
  · have hrun' : ((mkRec (ws.depthBound + 1)).sourceFile sf0).run (IndexCtx.new ws) = .ok ((), ctx) := hrun
    have hh := ((mkRec_hist (ws.depthBound + 1)).2.2.2 sf0).run _ _ _ hrun'
    have hnot : g ∉ (IndexCtx.new ws).indexedFiles := by simpa [IndexCtx.new] using hne
    obtain ⟨j, cs, cs', rest, l, w, tr, r, la⟩ := hh.hist g (hreach g hg) hnot sf hsf
    exact ⟨j, cs, cs', rest, l.inv (LiveInv.new ws), w, tr, r, la⟩

/-- the statements of a file that is entered: the state and the successive runs -/
theorem file_stmtsRun (ws : Workspace) (res : IndexResult) (h : Index.index ws = .ok res) (g : Nat)
    (hg : TopReach ws g) (sf sl : PTree) (hsf : Ast.sourceFileCast (ws.tree g) = some sf)
    (hsl : Ast.sourceFileStatementList sf = some sl) :
    ∃ (k : Nat) (cs cs' : IndexCtx) (rest : List Nat), LiveInv cs ∧ cs.ws = ws ∧ cs.fileTrace = g :: rest ∧
      StmtsRun k (Ast.statementListStatements sl) cs cs' ∧ SmLater cs'.symbolMap res.symbolMap := by
  obtain ⟨j, cs, cs', rest, hlive, hws, htr, hrun, hla⟩ := index_enters_ws ws res h g hg sf hsf
  have heq : indexSourceFile (mkRec j) sf = (mkRec j).statementList sl := by
    unfold indexSourceFile
    rw [hsl]
  rw [heq] at hrun
  cases j with
  | zero => cases hrun
  | succ j => exact ⟨j, cs, cs', rest, hlive, hws, htr, stmtsRun_of_list j sl cs cs' () hrun, hla⟩

end Ix11
end Ide
end Tg
