/-
Cursors (`rowan` red-tree navigation): every cursor reached from the root by the navigation
primitives of `PTree.lean` points at a descendant of the root, and `covering_element` /
`token_at_offset` do not fail their asserts on well-formed trees.
-/
import TgModel.Lemmas.IdeTree

namespace Tg
namespace Ide

/-! ### character boundaries -/

/-- `a` is the byte offset of a character boundary of `text` -/
def Boundary (text : List Char) (a : Nat) : Prop := ∃ pre post, text = pre ++ post ∧ a = byteLen pre

theorem ValidRange.boundary_start {text a b} (h : ValidRange text a b) : Boundary text a := by
  obtain ⟨_, pre, mid, post, rfl, rfl, _⟩ := h
  exact ⟨pre, mid ++ post, by simp [List.append_assoc], rfl⟩

theorem ValidRange.boundary_stop {text a b} (h : ValidRange text a b) : Boundary text b := by
  obtain ⟨_, pre, mid, post, rfl, _, rfl⟩ := h
  exact ⟨pre ++ mid, post, rfl, by simp⟩

/-- two prefixes of the same text: the one with fewer bytes is a prefix of the other -/
theorem prefix_of_byteLen_le : ∀ (text p1 q1 p2 q2 : List Char), text = p1 ++ q1 → text = p2 ++ q2 →
    byteLen p1 ≤ byteLen p2 → ∃ m, p2 = p1 ++ m
  | _, [], _, p2, _, _, _, _ => ⟨p2, rfl⟩
  | text, x :: p1, q1, [], q2, h1, h2, hle => by
    have := utf8Len_pos x
    simp at hle
    omega
  | text, x :: p1, q1, y :: p2, q2, h1, h2, hle => by
    subst h1
    simp only [List.cons_append, List.cons.injEq] at h2
    obtain ⟨rfl, h2⟩ := h2
    simp only [byteLen_cons, Nat.add_le_add_iff_left] at hle
    obtain ⟨m, rfl⟩ := prefix_of_byteLen_le _ p1 q1 p2 q2 rfl h2 hle
    exact ⟨m, rfl⟩

theorem ValidRange.of_boundaries {text a b} (ha : Boundary text a) (hb : Boundary text b) (hle : a ≤ b) :
    ValidRange text a b := by
  obtain ⟨p1, q1, h1, rfl⟩ := ha
  obtain ⟨p2, q2, h2, rfl⟩ := hb
  obtain ⟨m, rfl⟩ := prefix_of_byteLen_le text p1 q1 (p2) q2 h1 h2 hle
  exact ⟨hle, p1, m, q2, h2, rfl, by simp⟩

/-! ### cursors -/

/-- the cursor is consistent: `up` is the actual path from the root to `here` -/
inductive Cursor.OK (root : PTree) : Cursor → Prop
  | root : Cursor.OK root ⟨root, []⟩
  | child {p ch : PTree} {i : Nat} {rest : List (PTree × Nat)} :
      Cursor.OK root ⟨p, rest⟩ → p.children[i]? = some ch → Cursor.OK root ⟨ch, (p, i) :: rest⟩

theorem Cursor.OK.desc {root : PTree} {c : Cursor} (h : Cursor.OK root c) : Desc root c.here := by
  induction h with
  | root => exact Desc.refl _
  | child _ hch ih => exact Desc.step ih (List.mem_of_getElem? (by simpa using hch))

theorem Cursor.OK.child_ok {root : PTree} {c ch : Cursor} {i : Nat} (h : Cursor.OK root c)
    (hc : c.child i = some ch) : Cursor.OK root ch := by
  unfold Cursor.child at hc
  simp only [Option.map_eq_some_iff] at hc
  obtain ⟨x, hx, rfl⟩ := hc
  cases c with
  | mk here up => exact Cursor.OK.child h hx

theorem Cursor.OK.parent_ok {root : PTree} {c p : Cursor} (h : Cursor.OK root c)
    (hp : c.parent = some p) : Cursor.OK root p := by
  cases h with
  | root => simp [Cursor.parent] at hp
  | child hpar _ =>
    simp only [Cursor.parent, Option.some.injEq] at hp
    subst hp
    exact hpar

theorem Cursor.OK.prevSibling_ok {root : PTree} {c p : Cursor} (h : Cursor.OK root c)
    (hp : c.prevSiblingOrToken = some p) : Cursor.OK root p := by
  cases h with
  | root => simp [Cursor.prevSiblingOrToken] at hp
  | @child par ch i rest hpar _ =>
    cases i with
    | zero => simp [Cursor.prevSiblingOrToken] at hp
    | succ i =>
      simp only [Cursor.prevSiblingOrToken, Option.map_eq_some_iff] at hp
      obtain ⟨x, hx, rfl⟩ := hp
      exact Cursor.OK.child hpar hx

theorem Cursor.firstTokenGo_ok {root : PTree} : ∀ (fuel : Nat) (c r : Cursor), Cursor.OK root c →
    Cursor.firstTokenGo fuel c = some r → Cursor.OK root r
  | 0, _, _, _, h => by simp [Cursor.firstTokenGo] at h
  | fuel + 1, c, r, hc, h => by
    unfold Cursor.firstTokenGo at h
    split at h
    · cases h; exact hc
    · split at h
      · cases h
      · rename_i ch hch
        exact Cursor.firstTokenGo_ok fuel ch r (hc.child_ok hch) h

theorem Cursor.lastTokenGo_ok {root : PTree} : ∀ (fuel : Nat) (c r : Cursor), Cursor.OK root c →
    Cursor.lastTokenGo fuel c = some r → Cursor.OK root r ∧ Desc c.here r.here
  | 0, _, _, _, h => by simp [Cursor.lastTokenGo] at h
  | fuel + 1, c, r, hc, h => by
    unfold Cursor.lastTokenGo at h
    split at h
    · cases h; exact ⟨hc, Desc.refl _⟩
    · split at h
      · cases h
      · split at h
        · cases h
        · rename_i ch hch
          obtain ⟨h1, h2⟩ := Cursor.lastTokenGo_ok fuel ch r (hc.child_ok hch) h
          refine ⟨h1, Desc.trans (Desc.child ?_) h2⟩
          unfold Cursor.child at hch
          simp only [Option.map_eq_some_iff] at hch
          obtain ⟨x, hx, rfl⟩ := hch
          exact List.mem_of_getElem? (by simpa using hx)

theorem Cursor.OK.firstToken_ok {root : PTree} {c r : Cursor} (h : Cursor.OK root c)
    (hr : c.firstToken = some r) : Cursor.OK root r := Cursor.firstTokenGo_ok _ _ _ h hr

theorem Cursor.OK.lastToken_ok {root : PTree} {c r : Cursor} (h : Cursor.OK root c)
    (hr : c.lastToken = some r) : Cursor.OK root r := (Cursor.lastTokenGo_ok _ _ _ h hr).1

theorem Cursor.findPrevOfAncestors_ok {root : PTree} : ∀ (up : List (PTree × Nat)) (here : PTree) (r : Cursor),
    Cursor.OK root ⟨here, up⟩ → Cursor.findPrevOfAncestors up = some r → Cursor.OK root r
  | [], _, _, _, h => by simp [Cursor.findPrevOfAncestors] at h
  | (p, i) :: rest, here, r, hc, h => by
    have hp : Cursor.OK root ⟨p, rest⟩ := by
      cases hc with
      | child hpar _ => exact hpar
    unfold Cursor.findPrevOfAncestors at h
    split at h
    · rename_i e he
      cases h
      exact hp.prevSibling_ok he
    · exact Cursor.findPrevOfAncestors_ok rest p r hp h

theorem Cursor.OK.prevToken_ok {root : PTree} {c r : Cursor} (h : Cursor.OK root c)
    (hr : c.prevToken = some r) : Cursor.OK root r := by
  unfold Cursor.prevToken at hr
  split at hr
  · rename_i e he
    exact (h.prevSibling_ok he).lastToken_ok hr
  · split at hr
    · rename_i e he
      cases c with
      | mk here up => exact (Cursor.findPrevOfAncestors_ok up here e h he).lastToken_ok hr
    · cases hr


/-! ### `covering_element` -/

theorem childOrTokenAtRange_some {c ch : Cursor} {rs re : Nat} (h : childOrTokenAtRange c rs re = some ch) :
    (∃ i, c.child i = some ch) ∧ ch.here.start ≤ rs ∧ re ≤ ch.here.stop := by
  unfold childOrTokenAtRange at h
  simp only at h
  split at h
  · rename_i x hx
    split at h
    · rename_i hc
      cases h
      simp only [Bool.and_eq_true, decide_eq_true_eq] at hc
      exact ⟨⟨_, hx⟩, hc.1, hc.2⟩
    · cases h
  · cases h

theorem Cursor.child_height {c ch : Cursor} {i : Nat} {txt : List Char} (hs : Spans c.here txt)
    (h : c.child i = some ch) : ch.here.height < c.here.height ∧ ∃ mid, Spans ch.here mid := by
  unfold Cursor.child at h
  simp only [Option.map_eq_some_iff] at h
  obtain ⟨x, hx, rfl⟩ := h
  have hm : x ∈ c.here.children.toList := List.mem_of_getElem? (by simpa using hx)
  obtain ⟨hlt, _, mid, _, _, hmid, _⟩ := hs.child hm
  exact ⟨hlt, mid, hmid⟩

/-- `covering_element` does not fail its assert when the range lies inside the root -/
theorem coveringGo_ok {root : PTree} : ∀ (fuel : Nat) (c : Cursor) (rs re : Nat) (txt : List Char),
    Cursor.OK root c → Spans c.here txt → c.here.height + 1 ≤ fuel → c.here.start ≤ rs → re ≤ c.here.stop →
    ∃ r, coveringGo fuel c rs re = .ok r ∧ Cursor.OK root r
  | 0, _, _, _, _, _, _, hf, _, _ => by omega
  | fuel + 1, c, rs, re, txt, hc, hs, hf, h1, h2 => by
    unfold coveringGo
    have hcond : (c.here.start ≤ rs && re ≤ c.here.stop) = true := by simp [h1, h2]
    simp only [hcond, Bool.not_true, Bool.false_eq_true, if_false]
    split
    · exact ⟨c, rfl, hc⟩
    · split
      · rename_i ch hch
        obtain ⟨⟨i, hi⟩, h3, h4⟩ := childOrTokenAtRange_some hch
        obtain ⟨hlt, mid, hmid⟩ := Cursor.child_height hs hi
        exact coveringGo_ok fuel ch rs re mid (hc.child_ok hi) hmid (by omega) h3 h4
      · exact ⟨c, rfl, hc⟩

theorem coveringElement_ok {root : PTree} {txt : List Char} (hs : Spans root txt) {rs re : Nat}
    (h1 : root.start ≤ rs) (h2 : re ≤ root.stop) :
    ∃ r, coveringElement root rs re = .ok r ∧ Cursor.OK root r :=
  coveringGo_ok _ _ rs re txt Cursor.OK.root hs (by simp [Cursor.root]) h1 h2

/-! ### `token_at_offset` -/

theorem Tiles.covering {l : List PTree} {s e : Nat} (h : Tiles l s e) (hle : ∀ t ∈ l, t.start ≤ t.stop)
    {o : Nat} (hse : s < e) (h1 : s ≤ o) (h2 : o ≤ e) :
    ∃ t ∈ l, t.start < t.stop ∧ t.start ≤ o ∧ o ≤ t.stop := by
  induction h with
  | nil => omega
  | cons t ts e htl ih =>
    have ht := hle t (by simp)
    by_cases hin : t.start < t.stop ∧ o ≤ t.stop
    · exact ⟨t, by simp, hin.1, h1, hin.2⟩
    · have hts : ∀ x ∈ ts, x.start ≤ x.stop := fun x hx => hle x (by simp [hx])
      have hts_le := htl.start_le_stop hts
      have : t.stop < e ∧ t.stop ≤ o := by
        by_cases he : t.start < t.stop
        · have : ¬ o ≤ t.stop := fun h => hin ⟨he, h⟩
          omega
        · omega
      obtain ⟨x, hx, hx'⟩ := ih hts this.1 this.2 h2
      exact ⟨x, by simp [hx], hx'⟩

theorem tokenAtOffsetGo_ok {root : PTree} : ∀ (fuel : Nat) (c : Cursor) (offset : Nat) (txt : List Char),
    Cursor.OK root c → Spans c.here txt → c.here.height + 1 ≤ fuel → c.here.start ≤ offset →
    offset ≤ c.here.stop →
    ∃ r, tokenAtOffsetGo fuel c offset = .ok r ∧ ∀ x, r = some x → Cursor.OK root x
  | 0, _, _, _, _, _, hf, _, _ => by omega
  | fuel + 1, c, offset, txt, hc, hs, hf, h1, h2 => by
    unfold tokenAtOffsetGo
    split
    · exact ⟨some c, rfl, by intro x hx; cases hx; exact hc⟩
    · rename_i k s e hh cs heq
      rw [heq] at h1 h2 hs hf
      simp only [PTree.start, PTree.stop, PTree.height] at h1 h2 hf
      have hcond : (s ≤ offset && offset ≤ e) = true := by simp [h1, h2]
      simp only [hcond, Bool.not_true, Bool.false_eq_true, if_false]
      split
      · exact ⟨none, rfl, by intro x hx; cases hx⟩
      · rename_i hse
        cases hs with
        | node _ _ _ _ _ parts hlen hch htile hpos hhs =>
          have hle : ∀ t ∈ cs.toList, t.start ≤ t.stop := by
            intro t ht
            obtain ⟨i, hi, rfl⟩ := List.getElem_of_mem ht
            have hi' : i < cs.size := by simpa using hi
            have := (hch i hi' (by omega)).start_le_stop
            simpa using this
          obtain ⟨t, ht, ht1, ht2, ht3⟩ := htile.covering hle (by omega) h1 h2
          split
          · rename_i hnone
            exfalso
            rw [Array.findIdx?_eq_none_iff] at hnone
            have := hnone t (by simpa using ht)
            simp [PTree.isEmptyRange, ht2, ht3] at this
            omega
          · rename_i i hi
            have hi' := (Array.findIdx?_eq_some_iff_getElem.mp hi).1
            have hp := (Array.findIdx?_eq_some_iff_getElem.mp hi).2.1
            simp only [Bool.and_eq_true, decide_eq_true_eq] at hp
            have hchild : c.child i = some ⟨cs[i], (c.here, i) :: c.up⟩ := by
              simp [Cursor.child, heq, PTree.children, Array.getElem?_eq_getElem hi']
            rw [hchild]
            simp only
            have hsp := hch i hi' (by omega)
            have hlt := hhs cs[i] (by simp)
            exact tokenAtOffsetGo_ok fuel _ offset _ (hc.child_ok hchild) hsp (by simp only; omega) hp.1.2 hp.2

theorem tokenAtOffsetLeft_ok {root : PTree} {txt : List Char} (hs : Spans root txt) {offset : Nat}
    (h1 : root.start ≤ offset) (h2 : offset ≤ root.stop) :
    ∃ r, tokenAtOffsetLeft root offset = .ok r ∧ ∀ x, r = some x → Cursor.OK root x :=
  tokenAtOffsetGo_ok _ _ offset txt Cursor.OK.root hs (by simp [Cursor.root]) h1 h2


/-! ### `descendants` -/

theorem descendantsGo_ok {root : PTree} (p : PTree → Bool) : ∀ (fuel : Nat) (c : Cursor) (acc : Array Cursor),
    Cursor.OK root c → (∀ x ∈ acc.toList, Cursor.OK root x ∧ x.here.isNode = true ∧ p x.here = true) →
    ∀ x ∈ (descendantsGo p fuel c acc).toList, Cursor.OK root x ∧ x.here.isNode = true ∧ p x.here = true
  | 0, _, _, _, hacc => by simpa [descendantsGo] using hacc
  | fuel + 1, c, acc, hc, hacc => by
    unfold descendantsGo
    simp only
    have hacc1 : ∀ x ∈ (if c.here.isNode && p c.here then acc.push c else acc).toList,
        Cursor.OK root x ∧ x.here.isNode = true ∧ p x.here = true := by
      split
      · rename_i hcond
        simp only [Bool.and_eq_true] at hcond
        intro x hx
        simp only [Array.toList_push, List.mem_append, List.mem_singleton] at hx
        rcases hx with hx | rfl
        · exact hacc x hx
        · exact ⟨hc, hcond.1, hcond.2⟩
      · exact hacc
    generalize (if c.here.isNode && p c.here then acc.push c else acc) = acc1 at hacc1
    generalize List.range c.here.children.size = l
    induction l generalizing acc1 with
    | nil => simpa using hacc1
    | cons i is ih =>
      simp only [List.foldl_cons]
      apply ih
      split
      · rename_i ch hch
        split
        · exact descendantsGo_ok p fuel ch acc1 (hc.child_ok hch) hacc1
        · exact hacc1
      · exact hacc1

theorem descendants_ok {root : PTree} (p : PTree → Bool) :
    ∀ x ∈ (descendants root p).toList, Cursor.OK root x ∧ x.here.isNode = true ∧ p x.here = true :=
  descendantsGo_ok p _ _ _ Cursor.OK.root (by simp)

/-! ### `range_excluding_trivia` -/

/-- the end of the range is the start of the node or the end of some token of the tree -/
theorem rangeExcludingTriviaGo_spec {root : PTree} : ∀ (fuel start : Nat) (tok : Option Cursor),
    (∀ t, tok = some t → Cursor.OK root t) →
    (rangeExcludingTriviaGo fuel start tok).1 = start ∧
    ((rangeExcludingTriviaGo fuel start tok).2 = start ∨
      ∃ t, Cursor.OK root t ∧ (rangeExcludingTriviaGo fuel start tok).2 = t.here.stop)
  | 0, start, tok, _ => by simp [rangeExcludingTriviaGo]
  | fuel + 1, start, tok, htok => by
    unfold rangeExcludingTriviaGo
    split
    · simp
    · rename_i t
      have ht := htok t rfl
      split
      · exact ⟨rfl, Or.inr ⟨t, ht, rfl⟩⟩
      · exact rangeExcludingTriviaGo_spec fuel start t.prevToken (fun t' ht' => ht.prevToken_ok ht')

/-- without any assumption on where trivia sit: both ends are character boundaries of the text -/
theorem rangeExcludingTrivia_boundaries {root : PTree} {txt : List Char} (hs : Spans root txt)
    (h0 : root.start = 0) (fuel : Nat) {c : Cursor} (hc : Cursor.OK root c) :
    Boundary txt (rangeExcludingTrivia fuel c).1 ∧ Boundary txt (rangeExcludingTrivia fuel c).2 := by
  unfold rangeExcludingTrivia
  obtain ⟨h1, h2⟩ := rangeExcludingTriviaGo_spec (root := root) fuel c.here.start c.lastToken
    (fun t ht => hc.lastToken_ok ht)
  have hb : Boundary txt c.here.start := (hs.desc_validRange h0 hc.desc).boundary_start
  rw [h1]
  refine ⟨hb, ?_⟩
  rcases h2 with h2 | ⟨t, ht, h2⟩
  · rw [h2]; exact hb
  · rw [h2]; exact (hs.desc_validRange h0 ht.desc).boundary_stop


/-! ### `range_excluding_trivia`: the end is not before the start

The walk back over trivia tokens stays inside the node as long as the node does not *begin* with a
trivia token (`first_token` is not trivia): a trivia token that is not on the leftmost path of the
node has a previous sibling element inside the node (at its own level or at the level of an
ancestor below the node). -/

inductive Below (A : Cursor) : Cursor → Prop
  | refl : Below A A
  | child {c ch : Cursor} {i : Nat} : Below A c → c.child i = some ch → Below A ch

inductive LeftPath : Cursor → Cursor → Prop
  | refl (c : Cursor) : LeftPath c c
  | step {c ch t : Cursor} : c.child 0 = some ch → LeftPath ch t → LeftPath c t

theorem LeftPath.snoc {A c ch : Cursor} (h : LeftPath A c) (hc : c.child 0 = some ch) : LeftPath A ch := by
  induction h with
  | refl c => exact LeftPath.step hc (LeftPath.refl _)
  | step h0 _ ih => exact LeftPath.step h0 (ih hc)

theorem Below.trans {A B C : Cursor} (h1 : Below A B) (h2 : Below B C) : Below A C := by
  induction h2 with
  | refl => exact h1
  | child _ hc ih => exact Below.child ih hc

theorem Below.desc {A c : Cursor} (h : Below A c) : Desc A.here c.here := by
  induction h with
  | refl => exact Desc.refl _
  | child _ hc ih =>
    refine Desc.step ih ?_
    unfold Cursor.child at hc
    simp only [Option.map_eq_some_iff] at hc
    obtain ⟨x, hx, rfl⟩ := hc
    exact List.mem_of_getElem? (by simpa using hx)

theorem Cursor.lastTokenGo_below : ∀ (fuel : Nat) (c r : Cursor), Cursor.lastTokenGo fuel c = some r →
    Below c r ∧ r.here.isToken = true
  | 0, _, _, h => by simp [Cursor.lastTokenGo] at h
  | fuel + 1, c, r, h => by
    unfold Cursor.lastTokenGo at h
    split at h
    · rename_i heq
      cases h
      exact ⟨Below.refl, by simp [heq, PTree.isToken, PTree.isNode]⟩
    · split at h
      · cases h
      · split at h
        · cases h
        · rename_i ch hch
          obtain ⟨h1, h2⟩ := Cursor.lastTokenGo_below fuel ch r h
          exact ⟨(Below.child Below.refl hch).trans h1, h2⟩

theorem Cursor.prevToken_isToken {c r : Cursor} (h : c.prevToken = some r) : r.here.isToken = true := by
  unfold Cursor.prevToken at h
  split at h
  · exact (Cursor.lastTokenGo_below _ _ _ h).2
  · split at h
    · exact (Cursor.lastTokenGo_below _ _ _ h).2
    · cases h

/-- the first child: its previous token is the previous token of its parent -/
theorem Cursor.prevToken_child_zero {c ch : Cursor} (h : c.child 0 = some ch) : ch.prevToken = c.prevToken := by
  unfold Cursor.child at h
  simp only [Option.map_eq_some_iff] at h
  obtain ⟨x, _, rfl⟩ := h
  cases c with
  | mk here up =>
    have h1 : (⟨x, (here, 0) :: up⟩ : Cursor).prevSiblingOrToken = none := rfl
    unfold Cursor.prevToken
    rw [h1]
    simp only [Cursor.findPrevOfAncestors]
    cases (Cursor.mk here up).prevSiblingOrToken <;> rfl

theorem Below.prevToken {A t : Cursor} (h : Below A t) :
    LeftPath A t ∨ ∀ t', t.prevToken = some t' → Below A t' := by
  induction h with
  | refl => exact Or.inl (LeftPath.refl _)
  | @child c ch i hb hc ih =>
    cases i with
    | zero =>
      rw [Cursor.prevToken_child_zero hc]
      rcases ih with ih | ih
      · exact Or.inl (ih.snoc hc)
      · exact Or.inr ih
    | succ i =>
      right
      intro t' ht'
      have hc' := hc
      unfold Cursor.child at hc
      simp only [Option.map_eq_some_iff] at hc
      obtain ⟨x, hx, rfl⟩ := hc
      have hi : i + 1 < c.here.children.size := by
        rw [Array.getElem?_eq_some_iff] at hx
        exact hx.1
      have hprev : (⟨x, (c.here, i + 1) :: c.up⟩ : Cursor).prevSiblingOrToken =
          some ⟨c.here.children[i], (c.here, i) :: c.up⟩ := by
        simp [Cursor.prevSiblingOrToken, Array.getElem?_eq_getElem (show i < c.here.children.size by omega)]
      have hsib : c.child i = some ⟨c.here.children[i], (c.here, i) :: c.up⟩ := by
        simp [Cursor.child, Array.getElem?_eq_getElem (show i < c.here.children.size by omega)]
      unfold Cursor.prevToken at ht'
      rw [hprev] at ht'
      simp only at ht'
      exact (Below.child hb hsib).trans (Cursor.lastTokenGo_below _ _ _ ht').1

theorem Cursor.firstTokenGo_of_leftPath : ∀ (fuel : Nat) (c t : Cursor) (txt : List Char), LeftPath c t →
    t.here.isToken = true → Spans c.here txt → c.here.height + 1 ≤ fuel → Cursor.firstTokenGo fuel c = some t
  | 0, _, _, _, _, _, _, hf => by omega
  | fuel + 1, c, t, txt, hl, ht, hs, hf => by
    cases hl with
    | refl =>
      unfold Cursor.firstTokenGo
      split
      · rfl
      · rename_i heq
        simp [heq, PTree.isToken, PTree.isNode] at ht
    | @step _ ch _ h0 hl' =>
      obtain ⟨hlt, mid, hmid⟩ := Cursor.child_height hs h0
      unfold Cursor.firstTokenGo
      split
      · rename_i heq
        simp [Cursor.child, heq, PTree.children] at h0
      · rw [h0]
        exact Cursor.firstTokenGo_of_leftPath fuel ch t mid hl' ht hmid (by omega)

/-- the walk over trivia never leaves the node -/
theorem rangeExcludingTriviaGo_below {A : Cursor} {txt : List Char} (hs : Spans A.here txt)
    (hft : ∀ t, A.firstToken = some t → t.here.kind.isTrivia = false) :
    ∀ (fuel : Nat) (tok : Option Cursor),
    (∀ t, tok = some t → Below A t ∧ t.here.isToken = true) →
    A.here.start ≤ (rangeExcludingTriviaGo fuel A.here.start tok).2
  | 0, _, _ => by simp [rangeExcludingTriviaGo]
  | fuel + 1, tok, htok => by
    unfold rangeExcludingTriviaGo
    split
    · simp
    · rename_i t
      obtain ⟨hb, htk⟩ := htok t rfl
      split
      · simp only
        have := hs.desc_within hb.desc
        omega
      · rename_i htriv
        refine rangeExcludingTriviaGo_below hs hft fuel t.prevToken ?_
        intro t' ht'
        refine ⟨?_, Cursor.prevToken_isToken ht'⟩
        rcases hb.prevToken with hl | hp
        · exfalso
          have := Cursor.firstTokenGo_of_leftPath (A.here.height + 1) A t txt hl htk hs (Nat.le_refl _)
          have := hft t this
          simp [this] at htriv
        · exact hp t' ht'

theorem rangeExcludingTriviaGo_fst : ∀ (fuel start : Nat) (tok : Option Cursor),
    (rangeExcludingTriviaGo fuel start tok).1 = start
  | 0, _, _ => by simp [rangeExcludingTriviaGo]
  | fuel + 1, start, tok => by
    unfold rangeExcludingTriviaGo
    split
    · rfl
    · split
      · rfl
      · exact rangeExcludingTriviaGo_fst fuel start _

/-- a node that does not begin with a trivia token: `start ≤ end` -/
theorem rangeExcludingTrivia_le {A : Cursor} {txt : List Char} (hs : Spans A.here txt)
    (hft : ∀ t, A.firstToken = some t → t.here.kind.isTrivia = false) (fuel : Nat) :
    (rangeExcludingTrivia fuel A).1 ≤ (rangeExcludingTrivia fuel A).2 := by
  unfold rangeExcludingTrivia
  rw [rangeExcludingTriviaGo_fst]
  exact rangeExcludingTriviaGo_below hs hft fuel A.lastToken
    (fun t ht => Cursor.lastTokenGo_below _ _ _ ht)


theorem Cursor.firstTokenGo_here : ∀ (fuel : Nat) (c c' : Cursor), c.here = c'.here →
    (Cursor.firstTokenGo fuel c).map (·.here) = (Cursor.firstTokenGo fuel c').map (·.here)
  | 0, _, _, _ => by simp [Cursor.firstTokenGo]
  | fuel + 1, c, c', h => by
    unfold Cursor.firstTokenGo
    rw [← h]
    split
    · simp [h]
    · have hch : (c.child 0).map (·.here) = (c'.child 0).map (·.here) := by
        simp only [Cursor.child, h, Option.map_map]
        rfl
      cases h1 : c.child 0 with
      | none =>
        rw [h1] at hch
        cases h2 : c'.child 0 with
        | none => rfl
        | some x => rw [h2] at hch; simp at hch
      | some x =>
        rw [h1] at hch
        cases h2 : c'.child 0 with
        | none => rw [h2] at hch; simp at hch
        | some y =>
          rw [h2] at hch
          simp only [Option.map_some, Option.some.injEq] at hch
          exact Cursor.firstTokenGo_here fuel x y hch

theorem Cursor.firstToken_here (c : Cursor) : c.firstToken.map (·.here) = c.here.firstToken := by
  unfold PTree.firstToken Cursor.firstToken
  exact Cursor.firstTokenGo_here _ c (Cursor.root c.here) rfl

/-- the nodes whose range the handlers cut with `range_excluding_trivia` (folding ranges, the path of
an `include`) do not begin with a trivia token -/
def TriviaOK (root : PTree) : Prop :=
  ∀ A, Desc root A → A.isNode = true → (Tables.foldingKinds.contains A.kind = true ∨ A.kind = .String) →
    ∀ t, A.firstToken = some t → t.kind.isTrivia = false

end Ide
end Tg
