/-
C04 converse for values (part 6): `inner_value`, `value`, the induction, the name-mode value, and the
theorems: `VW w → VShape w → Derives Value w`, `VWN w → VShape w → Derives Value_NameMode w`, and the
top-level converse without hypotheses on values.
-/
import TgModel.Lemmas.C04ConvV5

namespace Tg
namespace C04L
open Prog Grammar Frag Doc

local notation "rcv" => Tables.recoverTokens

/-- `simple_value suffix*` (both `inner_value` and `inner_name_value`, which differ in the suffix test) -/
theorem inner_core (L : Nat) (hV : ValH L) (c : Prog)
    (hcond : ∀ (n : Nat) (a b : PState), a.kinds.length ≤ L → exec defs rcv n c a = .ok b → Clean a b → SufStep a b)
    {n : Nat} {s s' : PState} (hl : s.kinds.length ≤ L)
    (h : exec defs rcv n (seq (startNode .InnerValue) (seq (call .simple_value)
      (ifFlag (seq (loop c nop) (seq finishNode (retB true))) (seq finishNode (retB false))))) s = .ok s')
    (hc : Clean s s') :
    ∃ w, s.kinds = w ++ s'.kinds ∧ s'.afterError = false ∧
      (VShape w → Derives (.seq (.nt .SimpleValue_) (.star (.nt .ValueSuffix_))) w) := by
  have h := lift_fuel h 10
  obtain ⟨s1, h1, _, h, hc⟩ := seq_inv defs rcv h hc
  have e1 := same_startNode h1
  obtain ⟨s2, h2, c2, h, hc⟩ := seq_inv defs rcv h hc
  obtain ⟨w1, k2, a2, d2⟩ := simple_value_inv L hV (by rw [e1.kinds]; exact hl) h2 c2
  have l2 : s2.kinds.length ≤ L := by
    have : s.kinds = w1 ++ s2.kinds := by rw [← e1.kinds]; exact k2
    exact Nat.le_trans (kinds_len_le this) hl
  rcases ifFlag_inv defs rcv h with ⟨_, h⟩ | ⟨_, h⟩
  · obtain ⟨s3, h3, c3, h, hc⟩ := seq_inv defs rcv h hc
    obtain ⟨w2, k3, a3, d3⟩ := suffix_loop L c hcond _ _ _ l2 a2 h3 c3
    obtain ⟨k4, a4, _⟩ := finRet_inv h hc
    refine ⟨w1 ++ w2, by rw [← e1.kinds, k2, k3, k4]; simp, by rw [a4]; exact a3, fun hs => ?_⟩
    exact Derives.seq (d2 hs.left) (d3 hs.right)
  · obtain ⟨k4, a4, _⟩ := finRet_inv h hc
    exact ⟨w1, by rw [← e1.kinds, k2, k4], by rw [a4]; exact a2, fun hs => d_seq_nil (d2 hs) Derives.starNil⟩

theorem inner_value_inv (L : Nat) (hV : ValH L) (n : Nat) (s s' : PState) (hl : s.kinds.length ≤ L)
    (h : exec defs rcv n (call .inner_value) s = .ok s') (hc : Clean s s') : VConv s s' (.nt .InnerValue_) := by
  have h := call_inv defs rcv (lift_fuel h 5)
  simp only [defs, seqs] at h
  obtain ⟨w, k, a, d⟩ := inner_core L hV _ (fun n a b hla hab cab => value_suffix_inv L hV hla hab cab) hl h hc
  exact ⟨w, k, a, fun hs => Derives.nt (d hs)⟩

theorem inner_name_value_inv (L : Nat) (hV : ValH L) (n : Nat) (s s' : PState) (hl : s.kinds.length ≤ L)
    (h : exec defs rcv n (call .inner_name_value) s = .ok s') (hc : Clean s s') :
    VConv s s' (.nt .InnerValue_NameMode_) := by
  have h := call_inv defs rcv (lift_fuel h 5)
  simp only [defs, seqs] at h
  obtain ⟨w, k, a, d⟩ := inner_core L hV _ (fun n a b hla hab cab => name_suffix_inv L hV hla hab cab) hl h hc
  exact ⟨w, k, a, fun hs => Derives.nt (d hs)⟩

/-- the paste loop `("#" inner)*` -/
theorem paste_loop (L : Nat) (fi : Fn) (A : E)
    (hInner : ∀ (n : Nat) (a b : PState), a.kinds.length ≤ L → exec defs rcv n (call fi) a = .ok b → Clean a b →
      VConv a b A) :
    ∀ (n : Nat) (s s' : PState), s.kinds.length ≤ L → s.afterError = false →
      exec defs rcv n (loop (eatIf .Paste) (call fi)) s = .ok s' → Clean s s' →
      ∃ w, s.kinds = w ++ s'.kinds ∧ s'.afterError = false ∧
        (VShape w → Derives (.star (.seq (.tok [TokenKind.Paste]) A)) w) := by
  intro n
  induction n with
  | zero => intro s s' _ _ h; simp [exec] at h
  | succ n ih =>
    intro s s' hl ha h hc
    obtain ⟨s1, h1, c1, hcase⟩ := loop_inv h hc
    have h1 := lift_fuel h1 1
    rcases eatIf_clean (by decide) h1 with ⟨_, hfl, k1, a1, _⟩ | ⟨_, rfl⟩
    · rcases hcase with ⟨hf, _⟩ | ⟨_, s2, hb, cb, hl2, cl⟩
      · rw [hfl] at hf; cases hf
      · have l1 : s1.kinds.length ≤ L := by
          have : s.kinds = [TokenKind.Paste] ++ s1.kinds := k1
          exact Nat.le_trans (kinds_len_le this) hl
        obtain ⟨w1, k2, a2, d2⟩ := hInner _ _ _ l1 hb cb
        obtain ⟨w2, k3, a3, d3⟩ := ih _ _ (Nat.le_trans (kinds_len_le k2) l1) a2 hl2 cl
        refine ⟨TokenKind.Paste :: (w1 ++ w2), by rw [k1, k2, k3]; simp, a3, fun hs => ?_⟩
        have h12 : VShape (w1 ++ w2) := hs.tail
        exact d_cast (Derives.starCons (d_tokSeq (List.mem_singleton.mpr rfl) (d2 h12.left)) (d3 h12.right)) (by simp)
    · rcases hcase with ⟨_, rfl⟩ | ⟨hf, _⟩
      · exact ⟨[], rfl, ha, fun _ => Derives.starNil⟩
      · simp at hf

/-- `inner ("#" inner)*` (both `value` and `name_value`) -/
theorem value_core (L : Nat) (fi : Fn) (A : E)
    (hInner : ∀ (n : Nat) (a b : PState), a.kinds.length ≤ L → exec defs rcv n (call fi) a = .ok b → Clean a b →
      VConv a b A)
    {n : Nat} {s s' : PState} (hl : s.kinds.length ≤ L)
    (h : exec defs rcv n (seq (startNode .Value) (seq (call fi) (seq (loop (eatIf .Paste) (call fi))
      (seq finishNode (retB true))))) s = .ok s') (hc : Clean s s') :
    ∃ w, s.kinds = w ++ s'.kinds ∧ s'.afterError = false ∧
      (VShape w → Derives (.seq A (.star (.seq (.tok [TokenKind.Paste]) A))) w) := by
  have h := lift_fuel h 10
  obtain ⟨s1, h1, _, h, hc⟩ := seq_inv defs rcv h hc
  have e1 := same_startNode h1
  obtain ⟨s2, h2, c2, h, hc⟩ := seq_inv defs rcv h hc
  obtain ⟨w1, k2, a2, d2⟩ := hInner _ _ _ (by rw [e1.kinds]; exact hl) h2 c2
  have l2 : s2.kinds.length ≤ L := by
    have : s.kinds = w1 ++ s2.kinds := by rw [← e1.kinds]; exact k2
    exact Nat.le_trans (kinds_len_le this) hl
  obtain ⟨s3, h3, c3, h, hc⟩ := seq_inv defs rcv h hc
  obtain ⟨w2, k3, a3, d3⟩ := paste_loop L fi A hInner _ _ _ l2 a2 h3 c3
  obtain ⟨k4, a4, _⟩ := finRet_inv h hc
  exact ⟨w1 ++ w2, by rw [← e1.kinds, k2, k3, k4]; simp, by rw [a4]; exact a3,
    fun hs => Derives.seq (d2 hs.left) (d3 hs.right)⟩

theorem value_step (L : Nat) (hV : ValH L) : ValH (L + 1) := by
  intro n s s' hl h hc
  have hl : s.kinds.length ≤ L := Nat.le_of_lt_succ hl
  have h := call_inv defs rcv (lift_fuel h 5)
  simp only [defs, seqs] at h
  obtain ⟨w, k, a, d⟩ := value_core L .inner_value (.nt .InnerValue_) (inner_value_inv L hV) hl h hc
  exact ⟨w, k, a, fun hs => Derives.nt (d hs)⟩

theorem valH_all : ∀ L, ValH L
  | 0 => fun _ _ _ hl => (Nat.not_lt_zero _ hl).elim
  | L + 1 => value_step L (valH_all L)

/-! ### the theorems -/

/-- **converse for `value`** (run form): a clean run of the value parser consumed a word that, under the
value shape, is a documented `Value` -/
theorem value_run_converse (n : Nat) (s s' : PState) (h : exec defs rcv n (call .value) s = .ok s')
    (hc : Clean s s') : ∃ w, s.kinds = w ++ s'.kinds ∧ (VShape w → Derives (.nt .Value_) w) := by
  obtain ⟨w, k, _, d⟩ := valH_all (s.kinds.length + 1) n s s' (Nat.lt_succ_self _) h hc
  exact ⟨w, k, d⟩

/-- **`ValueOK` under the value shape**: every `VW` word with the value shape is a documented `Value` -/
theorem value_converse {w : List TokenKind} (hv : VW w) (hs : VShape w) : Derives (.nt .Value_) w := by
  obtain ⟨fuel, a, b, _, h, hc, hw⟩ := hv
  obtain ⟨w', k, d⟩ := value_run_converse fuel a b h hc
  have : w = w' := List.append_cancel_right (hw.symm.trans k)
  subst this
  exact d hs

/-- the same for the name of a `def`/`defm` -/
theorem name_run_converse (n : Nat) (s s' : PState) (h : exec defs rcv n (call .name_value) s = .ok s')
    (hc : Clean s s') : ∃ w, s.kinds = w ++ s'.kinds ∧ (VShape w → Derives (.nt .Value_NameMode_) w) := by
  have h := call_inv defs rcv (lift_fuel h 5)
  simp only [defs, seqs] at h
  obtain ⟨w, k, _, d⟩ := value_core s.kinds.length .inner_name_value (.nt .InnerValue_NameMode_)
    (inner_name_value_inv _ (valH_all _)) (Nat.le_refl _) h hc
  exact ⟨w, k, fun hs => Derives.nt (d hs)⟩

theorem name_converse {w : List TokenKind} (hv : VWN w) (hs : VShape w) : Derives (.nt .Value_NameMode_) w := by
  obtain ⟨fuel, a, b, _, h, hc, hw⟩ := hv
  obtain ⟨w', k, d⟩ := name_run_converse fuel a b h hc
  have : w = w' := List.append_cancel_right (hw.symm.trans k)
  subst this
  exact d hs


/-! ### the top-level converse without hypotheses on values -/

/-- a condition that every block of adjacent tokens inherits reaches every admitted word of a derivation -/
theorem DVN.restrict {V N : List TokenKind → Prop} {G : List TokenKind → Prop}
    (hG : ∀ u v x, G (u ++ v ++ x) → G v) {e : E} {w : List TokenKind} (h : DVN V N e w) :
    G w → DVN (fun v => V v ∧ G v) (fun v => N v ∧ G v) e w := by
  have hl : ∀ {u v : List TokenKind}, G (u ++ v) → G u := fun {u v} h => hG [] u v (by simpa using h)
  have hr : ∀ {u v : List TokenKind}, G (u ++ v) → G v := fun {u v} h => hG u v [] (by simpa using h)
  induction h with
  | val h => exact fun g => .val ⟨h, g⟩
  | nval h => exact fun g => .nval ⟨h, g⟩
  | tok h => exact fun _ => .tok h
  | nt _ ih => exact fun g => .nt (ih g)
  | eps => exact fun _ => .eps
  | seq _ _ i1 i2 => exact fun g => .seq (i1 (hl g)) (i2 (hr g))
  | altL _ ih => exact fun g => .altL (ih g)
  | altR _ ih => exact fun g => .altR (ih g)
  | optNone => exact fun _ => .optNone
  | optSome _ ih => exact fun g => .optSome (ih g)
  | starNil => exact fun _ => .starNil
  | starCons _ _ i1 i2 => exact fun g => .starCons (i1 (hl g)) (i2 (hr g))
  | plus _ _ i1 i2 => exact fun g => .plus (i1 (hl g)) (i2 (hr g))

/-- **converse at the top**: if `parse` accepts the input without any error and its token kinds have the
statement shape and the value shape, they are a sentence of the documented grammar -/
theorem source_file_converse_shape (input : List Char) (r : ParseResult) (h : parse input = .ok r)
    (herr : r.errors = []) (hs : Shape (PState.init input).kinds) (hv : VShape (PState.init input).kinds) :
    Doc.Sentence (PState.init input).kinds := by
  have d := source_file_converse input r h herr hs
  have d' := DVN.restrict (G := VShape) (fun _ _ _ g => VShape.infix g) d hv
  exact DVN.collapse (fun w hw => value_converse hw.1 hw.2) (fun w hw => name_converse hw.1 hw.2) d'

end C04L
end Tg
