/-
C04 converse for statements, values checked by the tree (part 1).

The lemmas of `C04ConvN*` once more, relative to a context `RunCtx` (a predicate `I` every run preserves and
a predicate `J` every run reflects) and to two hooks that say what a clean run of `value` / `name_value`
consumed is — *provided `J` holds in the state the run ends in* — a word of `V` / `N`.  Conclusions have the
form `Shape w → C.J s' → DVN V N A w`.
-/
import TgModel.Lemmas.C04VJ6

namespace Tg
namespace C04L
open Prog Grammar Frag Doc

local notation "rcv" => Tables.recoverTokens

/-- what a clean run of `value` consumed is, if `J` holds afterwards, a word of `V` -/
def ValHook (C : RunCtx) (V : List TokenKind → Prop) : Prop :=
  ∀ (n : Nat) (a b : PState), C.I a → Norm a → exec defs rcv n (call .value) a = .ok b → Clean a b →
    ∃ w, a.kinds = w ++ b.kinds ∧ (C.J b → V w)

def NameHook (C : RunCtx) (N : List TokenKind → Prop) : Prop :=
  ∀ (n : Nat) (a b : PState), C.I a → Norm a → exec defs rcv n (call .name_value) a = .ok b → Clean a b →
    ∃ w, a.kinds = w ++ b.kinds ∧ (C.J b → N w)

section
variable {V N : List TokenKind → Prop}

theorem dg_cast {e : E} {w w' : List TokenKind} (h : DVN V N e w) (hw : w = w') : DVN V N e w' := hw ▸ h

theorem dg_tok1 (k : TokenKind) : DVN V N (.tok [k]) [k] := .tok (List.mem_singleton.mpr rfl)

theorem dg_tokSeq {k : TokenKind} {b : E} {v : List TokenKind} (h : DVN V N b v) :
    DVN V N (.seq (.tok [k]) b) (k :: v) :=
  DVN.seq (dg_tok1 k) h

theorem dg_seq_nil {a b : E} {u : List TokenKind} (ha : DVN V N a u) (hb : DVN V N b []) : DVN V N (.seq a b) u :=
  dg_cast (DVN.seq ha hb) (List.append_nil u)

theorem dg_identifier : DVN V N (.nt .Identifier_) [TokenKind.Id] := DVN.of d_identifier

theorem dg_idSeq {b : E} {v : List TokenKind} (h : DVN V N b v) :
    DVN V N (.seq (.nt .Identifier_) b) (TokenKind.Id :: v) :=
  DVN.seq (u := [TokenKind.Id]) dg_identifier h

/-- an item that derives from `A` if the word, together with the token before it, has the shape -/
def QPg (V N : List TokenKind → Prop) (P0 : List TokenKind) (A : E) (w : List TokenKind) : Prop :=
  ∀ p ∈ P0, Shape (p :: w) → DVN V N A w

theorem sepPg_star {P0 : List TokenKind} (hC : TokenKind.Comma ∈ P0) {A : E} {w : List TokenKind}
    (h : SepList (QPg V N P0 A) false w) (hT : Shape (TokenKind.Comma :: w)) :
    DVN V N (.star (.seq (.tok [TokenKind.Comma]) A)) (TokenKind.Comma :: w) := by
  generalize hb : false = b at h
  induction h with
  | nil => cases hb
  | last hq => exact dg_cast (DVN.starCons (dg_tokSeq (hq _ hC hT)) DVN.starNil) (by simp)
  | @cons u rest b hq _ ih =>
    have h1 : Shape (TokenKind.Comma :: u) := Shape.left (u := TokenKind.Comma :: u) (v := TokenKind.Comma :: rest) hT
    have h2 : Shape (TokenKind.Comma :: rest) := Shape.right (u := TokenKind.Comma :: u) (v := TokenKind.Comma :: rest) hT
    exact dg_cast (DVN.starCons (dg_tokSeq (hq _ hC h1)) (ih h2 hb)) (by simp)

theorem sepPg_derives {P0 : List TokenKind} (hC : TokenKind.Comma ∈ P0) {A : E} {w : List TokenKind} {p0 : TokenKind}
    (hp0 : p0 ∈ P0) (h : SepList (QPg V N P0 A) false w) (hT : Shape (p0 :: w)) :
    DVN V N (.seq A (.star (.seq (.tok [TokenKind.Comma]) A))) w := by
  cases h with
  | last hq => exact dg_seq_nil (hq _ hp0 hT) DVN.starNil
  | @cons u rest _ hq hr =>
    have h1 : Shape (p0 :: u) := Shape.left (u := p0 :: u) (v := TokenKind.Comma :: rest) hT
    have h2 : Shape (TokenKind.Comma :: rest) := Shape.right (u := p0 :: u) (v := TokenKind.Comma :: rest) hT
    exact DVN.seq (hq _ hp0 h1) (sepPg_star hC hr h2)

theorem sepDg_star {A : E} {w : List TokenKind} (h : SepList (DVN V N A) false w) :
    DVN V N (.star (.seq (.tok [TokenKind.Comma]) A)) (TokenKind.Comma :: w) := by
  generalize hb : false = b at h
  induction h with
  | nil => cases hb
  | last hq => exact dg_cast (DVN.starCons (dg_tokSeq hq) DVN.starNil) (by simp)
  | cons hq _ ih => exact dg_cast (DVN.starCons (dg_tokSeq hq) (ih hb)) (by simp)

theorem sepDg_derives {A : E} {w : List TokenKind} (h : SepList (DVN V N A) false w) :
    DVN V N (.seq A (.star (.seq (.tok [TokenKind.Comma]) A))) w := by
  cases h with
  | last hq => exact dg_seq_nil hq DVN.starNil
  | cons hq hr => exact DVN.seq hq (sepDg_star hr)

end

/-! ### separator loops -/

/-- `sepN_inv` relative to a context: the facts about the items hold if `J` holds at the end -/
theorem sepMJ_inv (C : RunCtx) (stop : List TokenKind) (item : Prog) (Q : List TokenKind → Prop)
    (hitem : ∀ (n : Nat) (a b : PState), C.I a → Norm a → exec defs rcv n item a = .ok b → Clean a b →
      a.afterError = false → ∃ w, a.kinds = w ++ b.kinds ∧ b.afterError = false ∧ (C.J b → Q w)) :
    ∀ (n : Nat) (s s' : PState),
      exec defs rcv n (loop (ifAt stop (retB false) (seq item (eatIf .Comma))) nop) s = .ok s' → Clean s s' →
      s.afterError = false → C.I s → Norm s →
      ∃ w b, s.kinds = w ++ s'.kinds ∧ s'.afterError = false ∧ (C.J s' → SepList Q b w) ∧
        (b = true → stop.contains s'.cur = true) ∧ SepList (fun _ => True) b w := by
  intro n
  induction n with
  | zero => intro s s' h; simp [exec] at h
  | succ n ih =>
    intro s s' h hc ha hi hn
    obtain ⟨s1, h1, c1, hcase⟩ := loop_inv h hc
    have i1 := C.hI _ _ _ _ hi h1
    have h1 := lift_fuel h1 5
    rcases ifAt_inv defs rcv h1 with ⟨hstop, h1⟩ | ⟨_, h1⟩
    · have e1 := retB_inv defs rcv h1; subst e1
      rcases hcase with ⟨_, rfl⟩ | ⟨hf, _⟩
      · exact ⟨[], true, rfl, ha, fun _ => SepList.nil, fun _ => hstop, SepList.nil⟩
      · simp at hf
    · obtain ⟨sa, h2, c2, h3, c3⟩ := seq_inv defs rcv h1 c1
      have ia := C.hI _ _ _ _ hi h2
      obtain ⟨w1, k1, a1, q1⟩ := hitem _ _ _ hi hn h2 c2 ha
      rcases eatIf_clean (by decide) h3 with ⟨_, hfl, kc, ac, nc⟩ | ⟨hne, rfl⟩
      · rcases hcase with ⟨hf, _⟩ | ⟨_, s2, hb, _, hl, cl⟩
        · rw [hfl] at hf; cases hf
        · have e2 := nop_inv defs rcv (lift_fuel hb 1)
          rw [e2] at hl cl
          obtain ⟨w2, b, k2, a2, sl, hs1, sk⟩ := ih _ _ hl cl ac i1 nc
          refine ⟨w1 ++ TokenKind.Comma :: w2, b, by rw [k1, kc, k2]; simp, a2, fun j => ?_, hs1,
            SepList.cons trivial sk⟩
          have j1 : C.J s1 := C.hJ _ _ _ _ i1 hl j
          exact SepList.cons (q1 (C.hJ _ _ _ _ ia h3 j1)) (sl j)
      · rcases hcase with ⟨_, rfl⟩ | ⟨hf, _⟩
        · exact ⟨w1, false, k1, a1, fun j => SepList.last (q1 (C.hJ _ _ _ _ ia h3 j)), (fun hb => by cases hb),
            SepList.last trivial⟩
        · simp at hf

/-- `(bra RangeList ket)?` -/
theorem opt_range_inv0 (bra ket : TokenKind) (msg : Option String) (hb : plain bra = true)
    (hk : plain ket = true) (n : Nat) (s s' : PState)
    (h : exec defs rcv n (ifEatIf bra (seq (call .range_list) (expect ket msg)) nop) s = .ok s') (hc : Clean s s')
    (ha : s.afterError = false) :
    ∃ w, s.kinds = w ++ s'.kinds ∧ s'.afterError = false ∧
      Derives (.opt (.seq (.tok [bra]) (.seq (.nt .RangeList_) (.tok [ket])))) w := by
  have h := lift_fuel h 10
  simp only [ifEatIf] at h
  obtain ⟨s1, h1, c1, h2, c2⟩ := seq_inv defs rcv h hc
  rcases eatIf_clean hb h1 with ⟨_, hfl, k1, a1, _⟩ | ⟨_, rfl⟩
  · rcases ifFlag_inv defs rcv h2 with ⟨_, h2⟩ | ⟨hf, _⟩
    · obtain ⟨s3, h3, c3, h4, c4⟩ := seq_inv defs rcv h2 c2
      obtain ⟨w, k3, a3, d3⟩ := range_list_inv0 _ _ _ h3 c3 a1
      obtain ⟨hcur, k4, a4, _⟩ := expect_cleanC hk h4 c4 a3
      refine ⟨bra :: (w ++ [ket]), by rw [k1, k3, k4]; simp, a4, ?_⟩
      rcases d3 with he | d3
      · rw [he] at hcur; subst hcur; simp [plain] at hk
      · exact Derives.optSome (d_tokSeq (List.mem_singleton.mpr rfl) (Derives.seq d3 (d_tok1 _)))
    · rw [hfl] at hf; cases hf
  · rcases ifFlag_inv defs rcv h2 with ⟨hf, _⟩ | ⟨_, h2⟩
    · simp at hf
    · have e := same_nop h2
      exact ⟨[], by rw [e.kinds]; rfl, by rw [e.after]; exact ha, Derives.optNone⟩

/-! ### `dump`, `defvar`, `assert` -/

section
variable (C : RunCtx) {V N : List TokenKind → Prop} (hv : ValHook C V)
include hv

/-- `value` through the hook -/
theorem valueJ_clean {n : Nat} {s s' : PState} (hi : C.I s) (h : exec defs rcv n (call .value) s = .ok s')
    (hc : Clean s s') (ha : s.afterError = false) (hn : Norm s) :
    ∃ w, s.kinds = w ++ s'.kinds ∧ (C.J s' → V w) ∧ s'.afterError = false := by
  obtain ⟨w, hw, hV⟩ := hv n s s' hi hn h hc
  exact ⟨w, hw, hV, clean_afterError defs rcv h hc ha⟩

theorem convJ_dump (n : Nat) (s s' : PState) (hi : C.I s) (h : exec defs rcv n (call .dump) s = .ok s')
    (hc : Clean s s') : ∃ w, s.kinds = w ++ s'.kinds ∧ (C.J s' → DVN V N (.nt .Dump_) w) := by
  have h := call_inv defs rcv (lift_fuel h 30)
  simp only [defs, seqs] at h
  obtain ⟨s1, h1, _, h, hc⟩ := seq_inv defs rcv h hc
  have i1 := C.hI _ _ _ _ hi h1
  have e1 := startNode_inv defs rcv h1; subst e1
  obtain ⟨s2, h2, _, h, hc⟩ := seq_inv defs rcv h hc
  have i2 := C.hI _ _ _ _ i1 h2
  obtain ⟨k2, a2, n2⟩ := assertTok_cleanN (by decide) h2
  obtain ⟨s3, h3, c3, h, hc⟩ := seq_inv defs rcv h hc
  have i3 := C.hI _ _ _ _ i2 h3
  have b3 := C.hJ _ _ _ _ i3 h
  obtain ⟨wv, k3, dv, a3⟩ := valueJ_clean C hv i2 h3 c3 a2 n2
  obtain ⟨s4, h4, c4, h, hc⟩ := seq_inv defs rcv h hc
  obtain ⟨k4, _⟩ := expect_clean (by decide) h4 c4 a3
  obtain ⟨k5, _, _, _⟩ := finishNode_same (finishNode_inv defs rcv h)
  refine ⟨TokenKind.Dump :: (wv ++ [TokenKind.Semi]), ?_, fun j => ?_⟩
  · rw [← startNode_kinds s .Dump, k2, k3, k4, k5]; simp
  · exact DVN.nt (dg_tokSeq (DVN.seq (DVN.val (dv (b3 j))) (dg_tok1 _)))

theorem convJ_defvar (n : Nat) (s s' : PState) (hi : C.I s) (h : exec defs rcv n (call .defvar) s = .ok s')
    (hc : Clean s s') : ∃ w, s.kinds = w ++ s'.kinds ∧ (C.J s' → DVN V N (.nt .Defvar_) w) := by
  have h := call_inv defs rcv (lift_fuel h 30)
  simp only [defs, seqs] at h
  obtain ⟨s1, h1, _, h, hc⟩ := seq_inv defs rcv h hc
  have i1 := C.hI _ _ _ _ hi h1
  have e1 := startNode_inv defs rcv h1; subst e1
  obtain ⟨s2, h2, _, h, hc⟩ := seq_inv defs rcv h hc
  have i2 := C.hI _ _ _ _ i1 h2
  obtain ⟨k2, a2⟩ := assertTok_clean (by decide) h2
  obtain ⟨s3, h3, c3, h, hc⟩ := seq_inv defs rcv h hc
  have i3 := C.hI _ _ _ _ i2 h3
  obtain ⟨k3, a3⟩ := ident_clean h3 c3
  obtain ⟨s4, h4, c4, h, hc⟩ := seq_inv defs rcv h hc
  have i4 := C.hI _ _ _ _ i3 h4
  obtain ⟨k4, a4, n4⟩ := expect_cleanN (by decide) h4 c4 a3
  obtain ⟨s5, h5, c5, h, hc⟩ := seq_inv defs rcv h hc
  have i5 := C.hI _ _ _ _ i4 h5
  have b5 := C.hJ _ _ _ _ i5 h
  obtain ⟨wv, k5, dv, a5⟩ := valueJ_clean C hv i4 h5 c5 a4 n4
  obtain ⟨s6, h6, c6, h, hc⟩ := seq_inv defs rcv h hc
  obtain ⟨k6, _⟩ := expect_clean (by decide) h6 c6 a5
  obtain ⟨k7, _, _, _⟩ := finishNode_same (finishNode_inv defs rcv h)
  refine ⟨TokenKind.Defvar :: TokenKind.Id :: TokenKind.Equal :: (wv ++ [TokenKind.Semi]), ?_, fun j => ?_⟩
  · rw [← startNode_kinds s .Defvar, k2, k3, k4, k5, k6, k7]; simp
  · exact DVN.nt (dg_tokSeq (dg_idSeq (dg_tokSeq (DVN.seq (DVN.val (dv (b5 j))) (dg_tok1 _)))))

theorem convJ_assert (n : Nat) (s s' : PState) (hi : C.I s) (h : exec defs rcv n (call .assert_) s = .ok s')
    (hc : Clean s s') : ∃ w, s.kinds = w ++ s'.kinds ∧ (C.J s' → DVN V N (.nt .Assert_) w) := by
  have h := call_inv defs rcv (lift_fuel h 30)
  simp only [defs, seqs] at h
  obtain ⟨s1, h1, _, h, hc⟩ := seq_inv defs rcv h hc
  have i1 := C.hI _ _ _ _ hi h1
  have e1 := startNode_inv defs rcv h1; subst e1
  obtain ⟨s2, h2, _, h, hc⟩ := seq_inv defs rcv h hc
  have i2 := C.hI _ _ _ _ i1 h2
  obtain ⟨k2, a2, n2⟩ := assertTok_cleanN (by decide) h2
  obtain ⟨s3, h3, c3, h, hc⟩ := seq_inv defs rcv h hc
  have i3 := C.hI _ _ _ _ i2 h3
  have b3 := C.hJ _ _ _ _ i3 h
  obtain ⟨w1, k3, d1, a3⟩ := valueJ_clean C hv i2 h3 c3 a2 n2
  obtain ⟨s4, h4, c4, h, hc⟩ := seq_inv defs rcv h hc
  have i4 := C.hI _ _ _ _ i3 h4
  obtain ⟨k4, a4, n4⟩ := expect_cleanN (by decide) h4 c4 a3
  obtain ⟨s5, h5, c5, h, hc⟩ := seq_inv defs rcv h hc
  have i5 := C.hI _ _ _ _ i4 h5
  have b5 := C.hJ _ _ _ _ i5 h
  obtain ⟨w2, k5, d2, a5⟩ := valueJ_clean C hv i4 h5 c5 a4 n4
  obtain ⟨s6, h6, c6, h, hc⟩ := seq_inv defs rcv h hc
  obtain ⟨k6, _⟩ := expect_clean (by decide) h6 c6 a5
  obtain ⟨k7, _, _, _⟩ := finishNode_same (finishNode_inv defs rcv h)
  refine ⟨TokenKind.Assert :: (w1 ++ TokenKind.Comma :: (w2 ++ [TokenKind.Semi])), ?_, fun j => ?_⟩
  · rw [← startNode_kinds s .Assert, k2, k3, k4, k5, k6, k7]; simp
  · exact DVN.nt (dg_tokSeq (DVN.seq (DVN.val (d1 (b3 j))) (dg_tokSeq (DVN.seq (DVN.val (d2 (b5 j))) (dg_tok1 _)))))

/-- `("=" Value)?` -/
theorem opt_initJ_inv (n : Nat) (s s' : PState) (hi : C.I s)
    (h : exec defs rcv n (ifEatIf .Equal (call .value) nop) s = .ok s') (hc : Clean s s') :
    ∃ w, s.kinds = w ++ s'.kinds ∧ (C.J s' → DVN V N (.opt (.seq (.tok [TokenKind.Equal]) (.nt .Value_))) w) := by
  have h := lift_fuel h 10
  simp only [ifEatIf] at h
  obtain ⟨s1, h1, c1, h2, c2⟩ := seq_inv defs rcv h hc
  have i1 := C.hI _ _ _ _ hi h1
  rcases eatIf_clean (by decide) h1 with ⟨_, hfl, k1, a1, n1⟩ | ⟨_, rfl⟩
  · rcases ifFlag_inv defs rcv h2 with ⟨_, h2⟩ | ⟨hf, _⟩
    · obtain ⟨wv, k2, dv, _⟩ := valueJ_clean C hv i1 h2 c2 a1 n1
      exact ⟨TokenKind.Equal :: wv, by rw [k1, k2]; rfl, fun j => DVN.optSome (dg_tokSeq (DVN.val (dv j)))⟩
    · rw [hfl] at hf; cases hf
  · rcases ifFlag_inv defs rcv h2 with ⟨hf, _⟩ | ⟨_, h2⟩
    · simp at hf
    · have e := same_nop h2
      exact ⟨[], by rw [e.kinds]; rfl, fun _ => DVN.optNone⟩

end

end C04L
end Tg
