/-
Diagnostics of the indexer: attribution to files.

`AttrRel c c'`: the run from `c` to `c'` only appended diagnostics, the file trace is back where it
was, the set of indexed files only grew, and every appended diagnostic is attributed either to the
current file of `c` (head of the file trace) or to a file that was first indexed during the run.
It is a `CoreRel` (`IdeSemKeeps.lean`), so every function of the indexer keeps it
(`mkRec_attr`, `index_attr`).
-/
import TgModel.Lemmas.IdeSemKeepsB
import TgModel.Lemmas.IdeSemRun
import TgModel.Lemmas.IdeSemTyped

namespace Tg
namespace Ide

/-- `d` belongs to the current file of `c`, or to a file first indexed between `c` and `c'` -/
def Attributed (c c' : IndexCtx) (d : Diagnostic) : Prop :=
  c.fileTrace.head? = some d.location.file ∨
    (d.location.file ∉ c.indexedFiles ∧ d.location.file ∈ c'.indexedFiles)

/-- `g` is what some `include` statement of the workspace resolves to -/
def IsIncludeTarget (ws : Workspace) (g : Nat) : Prop :=
  ∃ src fi rng, ws.file? src = some fi ∧ (rng, g) ∈ fi.includeMap

theorem mem_of_lookup {α β : Type} [BEq α] [LawfulBEq α] (k : α) (v : β) (l : List (α × β))
    (h : l.lookup k = some v) : (k, v) ∈ l := by
  induction l with
  | nil => cases h
  | cons p t ih =>
    obtain ⟨k', v'⟩ := p
    rw [List.lookup_cons] at h
    by_cases hk : (k == k') = true
    · simp only [hk] at h
      have : k = k' := by simpa using hk
      cases h
      subst this
      exact List.mem_cons_self ..
    · simp only [hk] at h
      exact List.mem_cons_of_mem _ (ih h)

structure AttrRel (c c' : IndexCtx) : Prop where
  ws : c'.ws = c.ws
  trace : c'.fileTrace = c.fileTrace
  mono : ∀ f, f ∈ c.indexedFiles → f ∈ c'.indexedFiles
  /-- files are only indexed because an `include` resolves to them -/
  targets : ∀ g, g ∈ c'.indexedFiles → g ∈ c.indexedFiles ∨ IsIncludeTarget c.ws g
  diags : ∃ extra : List Diagnostic, c'.diagnostics.toList = c.diagnostics.toList ++ extra ∧
    ∀ d ∈ extra, Attributed c c' d

theorem AttrRel.refl (c : IndexCtx) : AttrRel c c :=
  ⟨rfl, rfl, fun _ h => h, fun _ h => Or.inl h, [], by simp, fun _ h => nomatch h⟩

theorem AttrRel.trans {a b c : IndexCtx} (h1 : AttrRel a b) (h2 : AttrRel b c) : AttrRel a c := by
  obtain ⟨e1, he1, ha1⟩ := h1.diags
  obtain ⟨e2, he2, ha2⟩ := h2.diags
  refine ⟨h2.ws.trans h1.ws, h2.trace.trans h1.trace, fun f hf => h2.mono f (h1.mono f hf),
    fun g hg => by
      rcases h2.targets g hg with h | h
      · exact h1.targets g h
      · rw [h1.ws] at h; exact Or.inr h,
    e1 ++ e2,
    by rw [he2, he1, List.append_assoc], fun d hd => ?_⟩
  rcases List.mem_append.1 hd with hd | hd
  · rcases ha1 d hd with h | ⟨h, h'⟩
    · exact Or.inl h
    · exact Or.inr ⟨h, h2.mono _ h'⟩
  · rcases ha2 d hd with h | ⟨h, h'⟩
    · exact Or.inl (by rw [← h1.trace]; exact h)
    · exact Or.inr ⟨fun hin => h (h1.mono _ hin), h'⟩

/-- a step that touches neither the workspace, the file trace, the indexed files nor the diagnostics -/
theorem AttrRel.of_same {c c' : IndexCtx} (h1 : c'.ws = c.ws) (h2 : c'.fileTrace = c.fileTrace)
    (h3 : c'.indexedFiles = c.indexedFiles) (h4 : c'.diagnostics = c.diagnostics) : AttrRel c c' :=
  ⟨h1, h2, fun f hf => by rw [h3]; exact hf, fun g hg => by rw [h3] at hg; exact Or.inl hg, [],
    by rw [h4]; simp, fun _ h => nomatch h⟩

instance : KeepRel AttrRel where
  refl := AttrRel.refl
  trans := AttrRel.trans

theorem AttrRel.error (rg : Nat × Nat) (msg : String) : Keeps AttrRel (error rg msg) := by
  refine ⟨fun c a c' h => ?_⟩
  cases hft : c.fileTrace with
  | nil =>
    unfold Ide.error currentFileId at h
    simp only [StateT.run_bind, IxM.run_get, Except.ok_bind, hft] at h
    cases h
  | cons f rest =>
    rw [error_run rg msg c f rest hft] at h
    cases h
    refine ⟨rfl, rfl, fun _ h => h, fun _ h => Or.inl h, [{ location := ⟨f, rg.1, rg.2⟩, message := msg }], ?_, ?_⟩
    · simp [IndexCtx.report]
    · intro d hd
      rw [List.mem_singleton] at hd
      subst hd
      exact Or.inl (by rw [hft]; rfl)

theorem AttrRel.incl (r : Rec) (hsf : ∀ n, Keeps AttrRel (r.sourceFile n)) (n : PTree) :
    Keeps AttrRel (Index.indexInclude r n) := by
  refine ⟨fun c a c' h => ?_⟩
  cases hft : c.fileTrace with
  | nil =>
    unfold Index.indexInclude currentFileId at h
    simp only [StateT.run_bind, IxM.run_get, Except.ok_bind, hft] at h
    cases h
  | cons f rest =>
  unfold Index.indexInclude at h
  simp only [StateT.run_bind, currentFileId_run c f rest hft, Except.ok_bind, IxM.run_get] at h
  split at h
  · exact (AttrRel.error _ _).run _ _ _ h
  · rename_i inc hlk
    have htarget : IsIncludeTarget c.ws inc := by
      cases hfi : c.ws.file? f with
      | none => rw [hfi] at hlk; cases hlk
      | some fi =>
        rw [hfi] at hlk
        exact ⟨f, fi, _, hfi, mem_of_lookup _ _ _ hlk⟩
    obtain ⟨b, c1, h1, h⟩ := IxM.run_bind_ok h
    unfold markIndexed at h1
    rw [IxM.run_modifyGet] at h1
    by_cases hin : c.indexedFiles.contains inc = true
    · simp only [hin, if_true, Except.ok.injEq, Prod.mk.injEq] at h1
      obtain ⟨rfl, rfl⟩ := h1
      simp only [Bool.not_false, if_true, StateT.run_pure] at h
      cases h
      exact AttrRel.refl _
    · simp only [hin, Bool.false_eq_true, if_false, Except.ok.injEq, Prod.mk.injEq] at h1
      obtain ⟨rfl, rfl⟩ := h1
      have hnot : inc ∉ c.indexedFiles := by simpa using hin
      simp only [Bool.not_true, Bool.false_eq_true, if_false] at h
      split at h
      · rename_i sf _
        obtain ⟨_, c2, h2, h⟩ := IxM.run_bind_ok h
        unfold pushFile at h2
        rw [IxM.run_modify] at h2
        cases h2
        obtain ⟨_, c3, h3, h⟩ := IxM.run_bind_ok h
        have r3 := (hsf sf).run _ _ _ h3
        unfold popFile at h
        obtain ⟨c3', c3'', hg, h⟩ := IxM.run_bind_ok h
        rw [IxM.run_get] at hg
        cases hg
        have htr : c3.fileTrace = inc :: c.fileTrace := r3.trace
        rw [htr] at h
        simp only [IxM.run_modify] at h
        cases h
        obtain ⟨extra, he, ha⟩ := r3.diags
        refine ⟨r3.ws, rfl, fun f hf => r3.mono f (List.mem_cons_of_mem _ hf), fun g hg => ?_, extra, he,
          fun d hd => ?_⟩
        · rcases r3.targets g hg with h | h
          · rcases List.mem_cons.1 h with rfl | h
            · exact Or.inr htarget
            · exact Or.inl h
          · exact Or.inr h
        · right
          rcases ha d hd with h | ⟨h, h'⟩
          · have : d.location.file = inc := by simpa using h.symm
            rw [this]
            exact ⟨hnot, r3.mono _ (List.mem_cons_self ..)⟩
          · exact ⟨fun hin' => h (List.mem_cons_of_mem _ hin'), h'⟩
      · simp only [StateT.run_pure] at h
        cases h
        refine ⟨rfl, rfl, fun f hf => List.mem_cons_of_mem _ hf, fun g hg => ?_, [], by simp, fun _ h => nomatch h⟩
        rcases List.mem_cons.1 hg with rfl | h
        · exact Or.inr htarget
        · exact Or.inl h

instance : CoreRel AttrRel where
  sm := fun _ _ _ => AttrRel.of_same rfl rfl rfl rfl
  anon := Keeps.modifyGet _ fun _ => AttrRel.of_same rfl rfl rfl rfl
  error := AttrRel.error
  incl := AttrRel.incl

instance : NoScopeRel AttrRel where
  scopes := fun _ _ _ h => ⟨h.ws, h.trace, h.mono, h.targets, h.diags⟩

instance : VarRel AttrRel where
  addVariable := fun v => by
    unfold scopesAddVariable
    keeps
    refine Keeps.modifyGet _ fun c => ?_
    split <;> exact AttrRel.of_same rfl rfl rfl rfl

/-- every function of the indexer only appends diagnostics attributed to the current file or to
files it indexes for the first time -/
theorem mkRec_attr (fuel : Nat) :
    (∀ n, Keeps AttrRel ((Index.mkRec fuel).value n)) ∧ (∀ n, Keeps AttrRel ((Index.mkRec fuel).typ n)) ∧
    (∀ n, Keeps AttrRel ((Index.mkRec fuel).statementList n)) ∧
    (∀ n, Keeps AttrRel ((Index.mkRec fuel).sourceFile n)) := mkRec_keeps fuel


/-! ### run equations used by the per-site theorems of C13 -/

/-- `utils::identifier` as a function of the current file -/
def identOf (f : Nat) (id : PTree) : Option (String × FileRange) :=
  match Ast.identifierValue id with
  | none => none
  | some name =>
    match Ast.identifierRange id with
    | none => none
    | some (s, e) => some (name, ⟨f, s, e⟩)

theorem utilsIdentifier_runOf (id : PTree) (c : IndexCtx) (f : Nat) (rest : List Nat)
    (h : c.fileTrace = f :: rest) : (utilsIdentifier id).run c = .ok (identOf f id, c) := by
  unfold utilsIdentifier identOf
  cases hn : Ast.identifierValue id with
  | none => rfl
  | some name =>
    simp only [StateT.run_bind, currentFileId_run c f rest h, Except.ok_bind]
    cases hr : Ast.identifierRange id with
    | none => rfl
    | some se => obtain ⟨s, e⟩ := se; rfl

/-- replace the symbol map -/
def IndexCtx.setSM (c : IndexCtx) (sm : SymMap) : IndexCtx := { c with symbolMap := sm }

@[simp] theorem IndexCtx.setSM_fileTrace (c : IndexCtx) (sm : SymMap) : (c.setSM sm).fileTrace = c.fileTrace := rfl
@[simp] theorem IndexCtx.setSM_diagnostics (c : IndexCtx) (sm : SymMap) : (c.setSM sm).diagnostics = c.diagnostics := rfl
@[simp] theorem IndexCtx.setSM_symbolMap (c : IndexCtx) (sm : SymMap) : (c.setSM sm).symbolMap = sm := rfl
@[simp] theorem IndexCtx.setSM_scopes (c : IndexCtx) (sm : SymMap) : (c.setSM sm).scopes = c.scopes := rfl

/-- `record_mut(id)` followed by the mutation `g` -/
def SymMap.modRecord (sm : SymMap) (id : Nat) (g : Record → Record) : SymMap :=
  { sm with recordList := sm.recordList.modify id g }

theorem addReference_run (s : SymbolId) (loc : FileRange) (c : IndexCtx) :
    (addReference s loc).run c = .ok ((), c.setSM (c.symbolMap.addReference s loc)) := rfl

theorem addRecordField_run (fld : RecordField) (c : IndexCtx) :
    (addRecordField fld).run c = .ok ((c.symbolMap.addRecordField fld).1,
      c.setSM (c.symbolMap.addRecordField fld).2) := rfl

theorem addTemplateArgument_run (a : TemplateArgument) (c : IndexCtx) :
    (addTemplateArgument a).run c = .ok ((c.symbolMap.addTemplateArgument a).1,
      c.setSM (c.symbolMap.addTemplateArgument a).2) := rfl

theorem recordMut_run (id : Nat) (g : Record → Record) (c : IndexCtx) :
    (recordMut id g).run c = .ok ((), c.setSM (c.symbolMap.modRecord id g)) := rfl

theorem currentRecordId_run (c : IndexCtx) : currentRecordId.run c = .ok (c.scopes.currentRecordId, c) := rfl
theorem currentMulticlassId_run (c : IndexCtx) : currentMulticlassId.run c = .ok (c.scopes.currentMulticlassId, c) := rfl
theorem currentDefmId_run (c : IndexCtx) : currentDefmId.run c = .ok (c.scopes.currentDefmId, c) := rfl

/-- the state after `indexFieldDef` / `indexFieldLet` has declared the field `fld` of `recordId` -/
def withField (c : IndexCtx) (recordId : Nat) (fld : RecordField) : IndexCtx :=
  (c.setSM (c.symbolMap.addRecordField fld).2).setSM
    ((c.setSM (c.symbolMap.addRecordField fld).2).symbolMap.modRecord recordId fun rec =>
      { rec with nameToRecordField := indexMapInsert rec.nameToRecordField fld.name (c.symbolMap.addRecordField fld).1 })

@[simp] theorem withField_fileTrace (c : IndexCtx) (recordId : Nat) (fld : RecordField) :
    (withField c recordId fld).fileTrace = c.fileTrace := rfl
@[simp] theorem withField_diagnostics (c : IndexCtx) (recordId : Nat) (fld : RecordField) :
    (withField c recordId fld).diagnostics = c.diagnostics := rfl


def SymMap.modMulticlass (sm : SymMap) (id : Nat) (g : Multiclass → Multiclass) : SymMap :=
  { sm with multiclassList := sm.multiclassList.modify id g }

theorem multiclassMut_run (id : Nat) (g : Multiclass → Multiclass) (c : IndexCtx) :
    (multiclassMut id g).run c = .ok ((), c.setSM (c.symbolMap.modMulticlass id g)) := rfl

/-- the state after `indexTemplateArgDecl` has declared the parameter `ta` of the class `recordId` -/
def withClassParam (c : IndexCtx) (recordId : Nat) (ta : TemplateArgument) : IndexCtx :=
  (c.setSM (c.symbolMap.addTemplateArgument ta).2).setSM
    ((c.setSM (c.symbolMap.addTemplateArgument ta).2).symbolMap.modRecord recordId fun rec =>
      { rec with nameToTemplateArg := indexMapInsert rec.nameToTemplateArg ta.name (c.symbolMap.addTemplateArgument ta).1 })

/-- … of the multiclass `multiclassId` -/
def withMulticlassParam (c : IndexCtx) (multiclassId : Nat) (ta : TemplateArgument) : IndexCtx :=
  (c.setSM (c.symbolMap.addTemplateArgument ta).2).setSM
    ((c.setSM (c.symbolMap.addTemplateArgument ta).2).symbolMap.modMulticlass multiclassId fun mc =>
      { mc with nameToTemplateArg := indexMapInsert mc.nameToTemplateArg ta.name (c.symbolMap.addTemplateArgument ta).1 })

@[simp] theorem withClassParam_fileTrace (c : IndexCtx) (id : Nat) (ta : TemplateArgument) :
    (withClassParam c id ta).fileTrace = c.fileTrace := rfl
@[simp] theorem withMulticlassParam_fileTrace (c : IndexCtx) (id : Nat) (ta : TemplateArgument) :
    (withMulticlassParam c id ta).fileTrace = c.fileTrace := rfl
@[simp] theorem withClassParam_diagnostics (c : IndexCtx) (id : Nat) (ta : TemplateArgument) :
    (withClassParam c id ta).diagnostics = c.diagnostics := rfl
@[simp] theorem withMulticlassParam_diagnostics (c : IndexCtx) (id : Nat) (ta : TemplateArgument) :
    (withMulticlassParam c id ta).diagnostics = c.diagnostics := rfl

end Ide
end Tg
