/-
The converse of `unresolved_diagnosed_ide`: every diagnostic of a successful `Index.index` whose message is
not `MsgOK` (in particular: starts with "include file not found: ") is the report `notFound f n` of an
`include` statement `n` (`n.kind = .Include`) executed in an indexed file `f` whose target does not resolve.
`NFRel`: the relation between the state before and after a run that says so about the diagnostics added;
kept by every function of `mkRec k` (message-aware pass `Ix13Pass.lean`, `include` by hand).
-/
import TgModel.Lemmas.Ix13Pass
import TgModel.Lemmas.IdeInclude
namespace Tg
namespace Ide
open Index

namespace Ix13

/-- where a report of an unresolved include comes from -/
def NFWit (ws : Workspace) (idx : List Nat) (d : Diagnostic) : Prop :=
  ∃ f n, f ∈ idx ∧ n.kind = .Include ∧ incTarget ws f n = none ∧ d = notFound f n

/-- the files on the file trace are marked as indexed -/
def TraceIn (c : IndexCtx) : Prop := ∀ f ∈ c.fileTrace, f ∈ c.indexedFiles

structure NFRel (c c' : IndexCtx) : Prop where
  ws : c'.ws = c.ws
  trace : c'.fileTrace = c.fileTrace
  mono : ∀ f, f ∈ c.indexedFiles → f ∈ c'.indexedFiles
  diags : TraceIn c → ∃ extra : List Diagnostic, c'.diagnostics.toList = c.diagnostics.toList ++ extra ∧
    ∀ d ∈ extra, MsgOK d.message ∨ NFWit c.ws c'.indexedFiles d

theorem NFRel.traceIn {c c' : IndexCtx} (h : NFRel c c') (ht : TraceIn c) : TraceIn c' := by
  intro f hf
  rw [h.trace] at hf
  exact h.mono f (ht f hf)

theorem NFRel.of_same {c c' : IndexCtx} (h1 : c'.ws = c.ws) (h2 : c'.fileTrace = c.fileTrace)
    (h3 : c'.indexedFiles = c.indexedFiles) (h4 : c'.diagnostics = c.diagnostics) : NFRel c c' :=
  ⟨h1, h2, fun f hf => by rw [h3]; exact hf, fun _ => ⟨[], by rw [h4]; simp, fun _ h => nomatch h⟩⟩

instance : KeepRel NFRel where
  refl := fun _ => NFRel.of_same rfl rfl rfl rfl
  trans := fun {a b c} h1 h2 => by
    refine ⟨h2.ws.trans h1.ws, h2.trace.trans h1.trace, fun f hf => h2.mono f (h1.mono f hf), fun ht => ?_⟩
    obtain ⟨e1, he1, ha1⟩ := h1.diags ht
    obtain ⟨e2, he2, ha2⟩ := h2.diags (h1.traceIn ht)
    refine ⟨e1 ++ e2, by rw [he2, he1, List.append_assoc], fun d hd => ?_⟩
    rcases List.mem_append.1 hd with hd | hd
    · rcases ha1 d hd with h | ⟨f, n, hf, hk, ht', rfl⟩
      · exact Or.inl h
      · exact Or.inr ⟨f, n, h2.mono f hf, hk, ht', rfl⟩
    · rcases ha2 d hd with h | ⟨f, n, hf, hk, ht', rfl⟩
      · exact Or.inl h
      · exact Or.inr ⟨f, n, hf, hk, by rw [← h1.ws]; exact ht', rfl⟩

theorem NFRel.error (rg : Nat × Nat) (msg : String) (hm : MsgOK msg) : Keeps NFRel (error rg msg) := by
  refine ⟨fun c a c' h => ?_⟩
  cases hft : c.fileTrace with
  | nil =>
    unfold Ide.error currentFileId at h
    simp only [StateT.run_bind, IxM.run_get, Except.ok_bind, hft] at h
    cases h
  | cons f rest =>
    rw [error_run rg msg c f rest hft] at h
    cases h
    refine ⟨rfl, rfl, fun _ hf => hf, fun _ => ⟨[{ location := ⟨f, rg.1, rg.2⟩, message := msg }], ?_, ?_⟩⟩
    · simp [IndexCtx.report]
    · intro d hd
      simp only [List.mem_singleton] at hd
      subst hd
      exact Or.inl hm

instance : Inc3.CoreRel NFRel where
  sm := fun _ _ _ => NFRel.of_same rfl rfl rfl rfl
  anon := Keeps.modifyGet _ fun _ => NFRel.of_same rfl rfl rfl rfl
  error := NFRel.error

theorem nf_push (k : ScopeKind) : Keeps NFRel (scopesPush k) :=
  Keeps.modify _ fun _ => NFRel.of_same rfl rfl rfl rfl

theorem nf_pop : Keeps NFRel scopesPop := by
  unfold scopesPop
  keeps
  exact Keeps.modify _ fun _ => NFRel.of_same rfl rfl rfl rfl

instance : VarRel NFRel where
  addVariable := fun v => by
    unfold scopesAddVariable addVariable modifySM
    refine Keeps.bind (Keeps.modifyGet _ fun _ => NFRel.of_same rfl rfl rfl rfl) fun _ => ?_
    refine Keeps.bind (Keeps.modifyGet _ fun c => ?_) fun ok => ?_
    · dsimp only
      split <;> exact NFRel.of_same rfl rfl rfl rfl
    · cases ok
      · exact Keeps.throw _
      · exact Keeps.pure _

instance : BlockRel NFRel where
  push := fun k _ => nf_push k
  pop := nf_pop
  foreach := fun r hv ht hsl n => by
    unfold Index.indexForeach
    keeps
    · exact nf_push _
    · exact nf_pop

/-! ### `include` -/

theorem mkRec_nf_include (k : Nat) (hsf : ∀ n, Keeps NFRel ((mkRec k).sourceFile n)) (n : PTree)
    (hk : n.kind = .Include) : Keeps NFRel (indexInclude (mkRec k) n) := by
  refine ⟨fun c a c' h => ?_⟩
  cases hft : c.fileTrace with
  | nil =>
    unfold Index.indexInclude currentFileId at h
    simp only [StateT.run_bind, IxM.run_get, Except.ok_bind, hft] at h
    cases h
  | cons f rest =>
    rcases indexInclude_cases (mkRec k) n c c' f rest hft h with ⟨hnone, rfl⟩ | ⟨t, _, _, rfl⟩ |
        ⟨t, _, hnot, hcast, rfl⟩ | ⟨t, sf, c3, x, rest', _, hnot, hcast, h3, htr, rfl⟩
    · refine ⟨rfl, rfl, fun _ hf => hf, fun hT => ⟨[notFound f n], ?_, ?_⟩⟩
      · simp [IndexCtx.report, notFound, nodeRange]
      · intro d hd
        simp only [List.mem_singleton] at hd
        subst hd
        exact Or.inr ⟨f, n, hT f (by rw [hft]; exact List.mem_cons_self), hk, hnone, rfl⟩
    · exact KeepRel.refl _
    · exact ⟨rfl, rfl, fun x hx => List.mem_cons_of_mem _ hx, fun _ => ⟨[], by simp, fun _ h => nomatch h⟩⟩
    · have r3 := (hsf sf).run _ _ _ h3
      have htr3 : c3.fileTrace = t :: c.fileTrace := r3.trace
      rw [htr3] at htr
      cases htr
      refine ⟨r3.ws, rfl, fun y hy => r3.mono y (List.mem_cons_of_mem _ hy), fun hT => ?_⟩
      have hT0 : TraceIn { c with indexedFiles := t :: c.indexedFiles, fileTrace := t :: c.fileTrace } := by
        intro y hy
        rcases List.mem_cons.mp hy with rfl | hy
        · exact List.mem_cons_self
        · exact List.mem_cons_of_mem _ (hT y hy)
      obtain ⟨extra, he, ha⟩ := r3.diags hT0
      exact ⟨extra, he, ha⟩

theorem mkRec_nf (k : Nat) :
    (∀ n, Keeps NFRel ((mkRec k).value n)) ∧ (∀ n, Keeps NFRel ((mkRec k).typ n)) ∧
    (∀ n, Keeps NFRel ((mkRec k).statementList n)) ∧ (∀ n, Keeps NFRel ((mkRec k).sourceFile n)) := by
  induction k with
  | zero => exact ⟨fun _ => Keeps.throw _, fun _ => Keeps.throw _, fun _ => Keeps.throw _, fun _ => Keeps.throw _⟩
  | succ k ih =>
    obtain ⟨hv, ht, hsl, hsf⟩ := ih
    have hinc := fun n hk => mkRec_nf_include k hsf n hk
    exact ⟨fun n => Inc3.Index.indexValue_keeps hv ht hsl hsf hinc n, fun n => Inc3.Index.indexType_keeps hv ht n,
      fun n => Inc3.Index.indexStatementList_keeps hv ht hsl hsf hinc n,
      fun n => Inc3.Index.indexSourceFile_keeps hv ht hsl hsf hinc n⟩

/-- **every diagnostic whose message is not `MsgOK` is the report of an unresolved include** -/
theorem nf_converse (ws : Workspace) (res : IndexResult) (h : Index.index ws = .ok res) (d : Diagnostic)
    (hd : d ∈ res.diagnostics.toList) (hm : ¬ MsgOK d.message) :
    ∃ f n, (f = ws.root ∨ IsIncludeTarget ws f) ∧ n.kind = .Include ∧ incTarget ws f n = none ∧ d = notFound f n := by
  obtain ⟨sf0, ctx, hcast, hrun, hres, _, _, htargets, _, _⟩ := index_files ws res h
  subst hres
  have hrun' : ((mkRec (ws.depthBound + 1)).sourceFile sf0).run (IndexCtx.new ws) = .ok ((), ctx) := hrun
  have hh := ((mkRec_nf (ws.depthBound + 1)).2.2.2 sf0).run _ _ _ hrun'
  have hT : TraceIn (IndexCtx.new ws) := by
    intro f hf
    simpa [IndexCtx.new] using hf
  obtain ⟨extra, he, ha⟩ := hh.diags hT
  have hd' : d ∈ extra := by
    have : d ∈ ctx.diagnostics.toList := hd
    rw [he] at this
    simpa [IndexCtx.new] using this
  rcases ha d hd' with h1 | ⟨f, n, hf, hk, ht, rfl⟩
  · exact absurd h1 hm
  · exact ⟨f, n, htargets f hf, hk, ht, rfl⟩

end Ix13
end Ide
end Tg
