/-
The generic parser invariant: holds in the initial state and is preserved by *every* `Prog`
(whatever the grammar is).  It carries losslessness (C01), the look-ahead/offset bookkeeping
behind error ranges (C02/C17) and the "Error token has a parked message" fact (C02).
-/
import TgModel.Dsl
import TgModel.Lemmas.PrepLemmas

namespace Tg

mutual
def Tree.text : Tree → List Char
  | .token _ t => t
  | .node _ cs => listText cs
def listText : List Tree → List Char
  | [] => []
  | t :: ts => t.text ++ listText ts
end

@[simp] theorem listText_nil : listText [] = [] := by simp [listText]
@[simp] theorem listText_cons (t : Tree) (ts : List Tree) : listText (t :: ts) = t.text ++ listText ts := by
  simp [listText]
@[simp] theorem Tree.text_token (k : SyntaxKind) (t : List Char) : (Tree.token k t).text = t := by
  simp [Tree.text]
@[simp] theorem Tree.text_node (k : SyntaxKind) (cs : List Tree) : (Tree.node k cs).text = listText cs := by
  simp [Tree.text]

@[simp] theorem listText_append (a b : List Tree) : listText (a ++ b) = listText a ++ listText b := by
  induction a with
  | nil => simp
  | cons t ts ih => simp [ih, List.append_assoc]

/-- text of children stored most-recent-first -/
def revText (ts : List Tree) : List Char := listText ts.reverse

@[simp] theorem revText_nil : revText [] = [] := by simp [revText]
@[simp] theorem revText_cons (t : Tree) (ts : List Tree) : revText (t :: ts) = revText ts ++ t.text := by
  simp [revText]

theorem revText_take_drop (n : Nat) (ts : List Tree) :
    revText (ts.drop n) ++ revText (ts.take n) = revText ts := by
  simp only [revText]
  rw [← listText_append, ← List.reverse_append, List.take_append_drop]

def parentsText : List (SyntaxKind × List Tree) → List Char
  | [] => []
  | (_, sibs) :: ps => parentsText ps ++ revText sibs

def builderText (b : Builder) : List Char := parentsText b.parents ++ revText b.cur

/-- an error range that is the range of a piece of the input -/
def ErrOk (input : List Char) (e : SynError) : Prop :=
  ∃ pre mid post, input = pre ++ mid ++ post ∧ e.start = byteLen pre ∧ e.stop = byteLen pre + byteLen mid

structure Inv (input : List Char) (s : PState) : Prop where
  text : builderText s.b ++ s.curText ++ s.src.rest = input
  pos : s.curStart = byteLen (builderText s.b)
  eof : s.cur = .Eof → s.curText = [] ∧ s.src.rest = []
  err : s.cur = .Error → (s.src.prepErr.isSome = true ∨ s.src.lexErr.isSome = true)
  errs : ∀ e ∈ s.errors, ErrOk input e
  ne : s.cur ≠ .Eof → s.curText ≠ []
  capOk : s.curText.length + s.src.rest.length + 2 ≤ s.cap
  /-- look-ahead and token source are what `n` rounds of `save; lex` lead to -/
  chain : ∃ n, Src.chain input n = (s.cur, s.src)

namespace PState

theorem inv_init (input : List Char) : Inv input (PState.init input) := by
  unfold PState.init
  have h1 := Src.eat_append (Src.init input)
  have h2 := Src.eat_eof (Src.init input)
  have h3 := Src.eat_error (Src.init input)
  have h4 := Src.eat_text_ne_nil (Src.init input)
  cases he : (Src.init input).eat with
  | mk t src =>
    rw [he] at h1 h2 h3 h4
    refine ⟨by simpa [builderText, parentsText, Src.init] using h1, by simp [builderText, parentsText],
           h2, h3, by simp, h4, ?_, ⟨0, by simp [Src.chain, he]⟩⟩
    have := congrArg List.length h1
    simp [Src.init] at this ⊢; omega

theorem inv_flag {input s} (h : Inv input s) (b : Bool) : Inv input { s with flag := b } :=
  ⟨h.text, h.pos, h.eof, h.err, h.errs, h.ne, h.capOk, h.chain⟩

theorem inv_error {input s} (h : Inv input s) (m : String) : Inv input (s.error m) := by
  refine ⟨h.text, h.pos, h.eof, h.err, ?_, h.ne, h.capOk, h.chain⟩
  intro e he
  simp only [PState.error, List.mem_cons] at he
  rcases he with rfl | he
  · exact ⟨builderText s.b, s.curText, s.src.rest, h.text.symm, h.pos, by simp [h.pos]⟩
  · exact h.errs e he

theorem builderText_pushTok (s : PState) : builderText s.pushTok.b = builderText s.b ++ s.curText := by
  simp [PState.pushTok, builderText, List.append_assoc]

/-- what `save; lex` keeps: everything except the (re-established) look-ahead facts -/
theorem inv_save {input s s1} (h : Inv input s) (hs : s.save = .ok s1) :
    builderText s1.b ++ s1.src.rest = input ∧ s1.curStart = s.curStart ∧ s1.curText = s.curText ∧
    builderText s1.b = builderText s.b ++ s.curText ∧ (∀ e ∈ s1.errors, ErrOk input e) ∧
    (s.cur = .Eof → s1.src.rest = []) ∧ s1.src.rest = s.src.rest ∧ s1.cap = s.cap ∧
    s1.cur = s.cur ∧ s1.src = Src.pull s.cur s.src := by
  have hb := builderText_pushTok s
  unfold PState.save at hs
  split at hs
  · rename_i hcur
    simp only [beq_iff_eq] at hcur
    obtain ⟨m, src', hte, hrest⟩ := Src.takeError_some s.src (h.err hcur)
    rw [hte] at hs
    simp only [Res.ok.injEq] at hs
    subst hs
    have hpull : src' = Src.pull s.cur s.src := by
      simp only [Src.pull, hcur, beq_self_eq_true, if_true, hte]
    refine ⟨?_, rfl, rfl, hb, ?_, ?_, hrest, rfl, rfl, hpull⟩
    · show builderText s.pushTok.b ++ src'.rest = input
      rw [hb, hrest]; simpa [List.append_assoc] using h.text
    · intro e he
      simp only [PState.error, List.mem_cons] at he
      rcases he with rfl | he
      · exact ⟨builderText s.b, s.curText, s.src.rest, h.text.symm, h.pos, by show s.curStart + byteLen s.curText = _; rw [h.pos]⟩
      · exact h.errs e he
    · intro hc; rw [hcur] at hc; cases hc
  · rename_i hcur
    simp only [Res.ok.injEq] at hs
    subst hs
    have hpull : s.src = Src.pull s.cur s.src := by
      simp only [Src.pull, hcur, Bool.false_eq_true, if_false]
    refine ⟨?_, rfl, rfl, hb, h.errs, ?_, rfl, rfl, rfl, hpull⟩
    · show builderText s.pushTok.b ++ s.src.rest = input
      rw [hb]; simpa [List.append_assoc] using h.text
    · intro hc; exact (h.eof hc).2

theorem save_ok {input s} (h : Inv input s) : ∃ s1, s.save = .ok s1 := by
  unfold PState.save
  split
  · rename_i hcur
    simp only [beq_iff_eq] at hcur
    obtain ⟨m, src', hte, _⟩ := Src.takeError_some s.src (h.err hcur)
    rw [hte]; exact ⟨_, rfl⟩
  · exact ⟨_, rfl⟩

theorem inv_save_lex {input s s1} (h : Inv input s) (hs : s.save = .ok s1) : Inv input s1.lex := by
  obtain ⟨h1, h2, h3, h4, h5, h6, h7, h8, h9, h10⟩ := inv_save h hs
  obtain ⟨n, hn⟩ := h.chain
  have hch : Src.chain input (n+1) = ((s1.src.eat).1.kind, (s1.src.eat).2) := by
    simp only [Src.chain, hn, h10]
  unfold PState.lex
  have ha := Src.eat_append s1.src
  have he := Src.eat_eof s1.src
  have hr := Src.eat_error s1.src
  have hn := Src.eat_text_ne_nil s1.src
  cases hle : s1.src.eat with
  | mk t src =>
    rw [hle] at ha he hr hn
    simp only [] at ha he hr hn ⊢
    rw [hle] at hch
    refine ⟨?_, ?_, he, hr, h5, hn, ?_, ⟨n+1, hch⟩⟩
    · simp only []; rw [List.append_assoc, ha]; exact h1
    · simp only []; rw [h2, h3, h4, h.pos]; simp
    · have hl := congrArg List.length ha
      have hc := h.capOk
      simp only [List.length_append] at hl
      simp only []; rw [h8]; rw [h7] at hl; omega

theorem inv_skip {input} (fuel : Nat) {s s'} (h : Inv input s) (hs : PState.skip fuel s = .ok s') :
    Inv input s' := by
  induction fuel generalizing s with
  | zero => simp [PState.skip] at hs
  | succ n ih =>
    simp only [PState.skip] at hs
    split at hs
    · split at hs
      · rename_i s1 hsave; exact ih (inv_save_lex h hsave) hs
      · rename_i hne; exact (hne _ hs).elim
    · simp only [Res.ok.injEq] at hs; subst hs; exact h

theorem inv_eat {input s s'} (h : Inv input s) (hs : s.eat = .ok s') : Inv input s' := by
  unfold PState.eat at hs
  split at hs
  · rename_i s1 hsave; exact inv_skip _ (inv_save_lex h hsave) hs
  · rename_i hne; exact (hne _ hs).elim

theorem inv_startNode {input s} (h : Inv input s) (k : SyntaxKind) : Inv input (s.startNode k) := by
  have hb : builderText (s.startNode k).b = builderText s.b := by
    simp [PState.startNode, builderText, parentsText]
  exact ⟨by rw [hb]; exact h.text, by rw [hb]; exact h.pos, h.eof, h.err, h.errs, h.ne, h.capOk, h.chain⟩

theorem inv_finishNode {input s s'} (h : Inv input s) (hs : s.finishNode = .ok s') : Inv input s' := by
  unfold PState.finishNode at hs
  split at hs
  · cases hs
  · rename_i k sibs ps hp
    simp only [Res.ok.injEq] at hs; subst hs
    have hb : builderText { cur := Tree.node k s.b.cur.reverse :: sibs, parents := ps } = builderText s.b := by
      simp [builderText, hp, parentsText, revText, List.append_assoc]
    exact ⟨by simp only []; rw [hb]; exact h.text, by simp only []; rw [hb]; exact h.pos, h.eof, h.err, h.errs, h.ne, h.capOk, h.chain⟩

theorem inv_startNodeAt {input s s'} (h : Inv input s) (cp : Nat × Nat) (k : SyntaxKind)
    (hs : s.startNodeAt cp k = .ok s') : Inv input s' := by
  unfold PState.startNodeAt at hs
  split at hs
  · cases hs
  · split at hs
    · cases hs
    · simp only [Res.ok.injEq] at hs; subst hs
      have hb : builderText { cur := s.b.cur.take (s.b.cur.length - cp.2),
                              parents := (k, s.b.cur.drop (s.b.cur.length - cp.2)) :: s.b.parents }
          = builderText s.b := by
        simp [builderText, parentsText, List.append_assoc, revText_take_drop]
      exact ⟨by simp only []; rw [hb]; exact h.text, by simp only []; rw [hb]; exact h.pos, h.eof, h.err, h.errs, h.ne, h.capOk, h.chain⟩

end PState

/-- **Generic invariant preservation**: for every grammar `defs`, every program `p`, every fuel. -/
theorem inv_exec (defs : Defs) (recover : List TokenKind) (input : List Char) :
    ∀ (fuel : Nat) (p : Prog) (s s' : PState), Inv input s → exec defs recover fuel p s = .ok s' → Inv input s' := by
  intro fuel
  induction fuel with
  | zero => intro p s s' _ h; simp [exec] at h
  | succ n ih =>
    intro p s s' hi h
    cases p with
    | nop => simp only [exec, Res.ok.injEq] at h; subst h; exact hi
    | startNode k => simp only [exec, Res.ok.injEq] at h; subst h; exact PState.inv_startNode hi k
    | finishNode => simp only [exec] at h; exact PState.inv_finishNode hi h
    | pushCp =>
      simp only [exec, Res.ok.injEq] at h; subst h
      exact ⟨hi.text, hi.pos, hi.eof, hi.err, hi.errs, hi.ne, hi.capOk, hi.chain⟩
    | popCp =>
      simp only [exec, Res.ok.injEq] at h; subst h
      exact ⟨hi.text, hi.pos, hi.eof, hi.err, hi.errs, hi.ne, hi.capOk, hi.chain⟩
    | startNodeAtCp k =>
      simp only [exec] at h
      split at h
      · exact PState.inv_startNodeAt hi _ k h
      · rename_i hne; first | exact (hne _ h).elim | cases h
    | eat => simp only [exec] at h; exact PState.inv_eat hi h
    | skip => simp only [exec] at h; exact PState.inv_skip _ hi h
    | eatIf k =>
      simp only [exec] at h
      split at h
      · split at h
        · rename_i s1 he
          simp only [Res.ok.injEq] at h; subst h
          exact PState.inv_flag (PState.inv_eat hi he) true
        · rename_i hne; first | exact (hne _ h).elim | cases h
      · simp only [Res.ok.injEq] at h; subst h; exact PState.inv_flag hi false
    | expect k msg =>
      simp only [exec] at h
      split at h
      · exact PState.inv_eat hi h
      · split at h
        · simp only [Res.ok.injEq] at h; subst h; exact hi
        · simp only [Res.ok.injEq] at h; subst h; exact PState.inv_error hi _
    | assertTok k =>
      simp only [exec] at h
      split at h
      · exact PState.inv_eat hi h
      · rename_i hne; first | exact (hne _ h).elim | cases h
    | error msg => simp only [exec, Res.ok.injEq] at h; subst h; exact PState.inv_error hi _
    | errorAndEat msg =>
      simp only [exec] at h
      split at h
      · rename_i s1 he
        exact PState.inv_finishNode (PState.inv_eat (PState.inv_startNode (PState.inv_error hi _) _) he) h
      · rename_i hne; first | exact (hne _ h).elim | cases h
    | errorAndRecover msg =>
      simp only [exec] at h
      split at h
      · split at h
        · rename_i s2 he
          exact PState.inv_finishNode (PState.inv_eat (PState.inv_startNode (PState.inv_error hi _) _) he) h
        · rename_i hne; first | exact (hne _ h).elim | cases h
      · simp only [Res.ok.injEq] at h; subst h; exact PState.inv_error hi _
    | retB b => simp only [exec, Res.ok.injEq] at h; subst h; exact PState.inv_flag hi b
    | seq a b =>
      simp only [exec] at h
      split at h
      · rename_i s1 h1; exact ih b s1 s' (ih a s s1 hi h1) h
      · rename_i hne; first | exact (hne _ h).elim | cases h
    | ifAt ks t e =>
      simp only [exec] at h
      split at h
      · exact ih t s s' hi h
      · exact ih e s s' hi h
    | ifFlag t e =>
      simp only [exec] at h
      split at h
      · exact ih t s s' hi h
      · exact ih e s s' hi h
    | loop c b =>
      simp only [exec] at h
      split at h
      · rename_i s1 h1
        have i1 := ih c s s1 hi h1
        split at h
        · split at h
          · rename_i s2 h2; exact ih _ s2 s' (ih b s1 s2 i1 h2) h
          · rename_i hne; first | exact (hne _ h).elim | cases h
        · simp only [Res.ok.injEq] at h; subst h; exact i1
      · rename_i hne; first | exact (hne _ h).elim | cases h
    | call f => simp only [exec] at h; exact ih _ s s' hi h
    | pushLocal =>
      simp only [exec, Res.ok.injEq] at h; subst h
      exact ⟨hi.text, hi.pos, hi.eof, hi.err, hi.errs, hi.ne, hi.capOk, hi.chain⟩
    | popLocal =>
      simp only [exec, Res.ok.injEq] at h; subst h
      exact ⟨hi.text, hi.pos, hi.eof, hi.err, hi.errs, hi.ne, hi.capOk, hi.chain⟩
    | setLocal =>
      simp only [exec, Res.ok.injEq] at h; subst h
      exact ⟨hi.text, hi.pos, hi.eof, hi.err, hi.errs, hi.ne, hi.capOk, hi.chain⟩
    | ifLocal t e =>
      simp only [exec] at h
      split at h
      · exact ih t s s' hi h
      · exact ih e s s' hi h

end Tg
