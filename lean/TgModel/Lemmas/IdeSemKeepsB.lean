/-
Second half of the pass over the indexer (functions that push / pop scopes), the knot `mkRec`, and
the resulting invariant of `Index.index`: the hook log and the arenas agree (`LogOK`).
-/
import TgModel.Lemmas.IdeSemKeeps
namespace Tg
namespace Ide
/-! ### the functions that push and pop scopes -/

/-- what the pass needs to know about scope pushes and pops: pushing a scope that binds nothing and
popping are allowed; the one push that binds a variable (`foreach`) is supplied for the whole
construct.  Relations that ignore the scope stack (`NoScopeRel`) are instances. -/
class BlockRel (R : IndexCtx → IndexCtx → Prop) : Prop where
  push : ∀ k, (∀ nm id, k ≠ ScopeKind.foreach nm id) → Keeps R (scopesPush k)
  pop : Keeps R scopesPop
  foreach : ∀ (r : Rec), (∀ n, Keeps R (r.value n)) → (∀ n, Keeps R (r.typ n)) →
    (∀ n, Keeps R (r.statementList n)) → ∀ n, Keeps R (Index.indexForeach r n)

section noscope
variable {R : IndexCtx → IndexCtx → Prop} [CoreRel R] [NoScopeRel R]

theorem scopesPush_noscope (k : ScopeKind) : Keeps R (scopesPush k) :=
  Keeps.modify _ fun c => NoScopeRel.scopes c c _ (KeepRel.refl c)

theorem scopesPop_noscope : Keeps R scopesPop := by
  unfold scopesPop
  keeps
  exact Keeps.modify _ fun c => NoScopeRel.scopes c c _ (KeepRel.refl c)

instance : BlockRel R where
  push := fun k _ => scopesPush_noscope k
  pop := scopesPop_noscope
  foreach := fun r hv ht hsl n => by
    unfold Index.indexForeach
    keeps
    · exact scopesPush_noscope _
    · exact scopesPop_noscope

end noscope

section passB
set_option linter.unusedSectionVars false
set_option linter.unusedVariables false
variable {R : IndexCtx → IndexCtx → Prop} [CoreRel R] [VarRel R] [BlockRel R] {r : Rec}
  (hv : ∀ n, Keeps R (r.value n)) (ht : ∀ n, Keeps R (r.typ n))
  (hsl : ∀ n, Keeps R (r.statementList n)) (hsf : ∀ n, Keeps R (r.sourceFile n))

omit [CoreRel R] [VarRel R] in
theorem scopesPush_keeps (k : ScopeKind) (hk : ∀ nm id, k ≠ ScopeKind.foreach nm id) : Keeps R (scopesPush k) :=
  BlockRel.push k hk
macro_rules | `(tactic| keeps_prim) => `(tactic| exact scopesPush_keeps _ (fun _ _ h => nomatch h))

omit [CoreRel R] [VarRel R] in
theorem scopesPop_keeps : Keeps R scopesPop := BlockRel.pop
macro_rules | `(tactic| keeps_prim) => `(tactic| exact scopesPop_keeps)

include hv ht hsl hsf

theorem Bang.xFilter_keeps (a0 : _) : Keeps R (Bang.xFilter r a0) := by
  unfold Bang.xFilter
  keeps
macro_rules | `(tactic| keeps_prim) => `(tactic| (apply Bang.xFilter_keeps <;> assumption))

theorem Bang.xFoldl_keeps (a0 : _) : Keeps R (Bang.xFoldl r a0) := by
  unfold Bang.xFoldl
  keeps
macro_rules | `(tactic| keeps_prim) => `(tactic| (apply Bang.xFoldl_keeps <;> assumption))

theorem Bang.xForEach_keeps (a0 : _) : Keeps R (Bang.xForEach r a0) := by
  unfold Bang.xForEach
  keeps
macro_rules | `(tactic| keeps_prim) => `(tactic| (apply Bang.xForEach_keeps <;> assumption))

theorem Bang.indexBangOperator_keeps (a0 : _) : Keeps R (Bang.indexBangOperator r a0) := by
  unfold Bang.indexBangOperator
  keeps
macro_rules | `(tactic| keeps_prim) => `(tactic| (apply Bang.indexBangOperator_keeps <;> assumption))

theorem Index.indexSimpleValue_keeps (a0 : _) : Keeps R (Index.indexSimpleValue r a0) := by
  unfold Index.indexSimpleValue
  keeps
macro_rules | `(tactic| keeps_prim) => `(tactic| (apply Index.indexSimpleValue_keeps <;> assumption))

theorem Index.indexInnerValue_keeps (a0 : _) : Keeps R (Index.indexInnerValue r a0) := by
  unfold Index.indexInnerValue
  keeps
macro_rules | `(tactic| keeps_prim) => `(tactic| (apply Index.indexInnerValue_keeps <;> assumption))

theorem Index.indexValue_keeps (a0 : _) : Keeps R (Index.indexValue r a0) := by
  unfold Index.indexValue
  keeps
macro_rules | `(tactic| keeps_prim) => `(tactic| (apply Index.indexValue_keeps <;> assumption))

theorem Index.indexForeach_keeps (a0 : _) : Keeps R (Index.indexForeach r a0) :=
  BlockRel.foreach r hv ht hsl a0
macro_rules | `(tactic| keeps_prim) => `(tactic| (apply Index.indexForeach_keeps <;> assumption))

theorem Index.indexIf_keeps (a0 : _) : Keeps R (Index.indexIf r a0) := by
  unfold Index.indexIf
  keeps
macro_rules | `(tactic| keeps_prim) => `(tactic| (apply Index.indexIf_keeps <;> assumption))

theorem Index.indexLet_keeps (a0 : _) : Keeps R (Index.indexLet r a0) := by
  unfold Index.indexLet
  keeps
macro_rules | `(tactic| keeps_prim) => `(tactic| (apply Index.indexLet_keeps <;> assumption))

theorem Index.indexClass_keeps (a0 : _) : Keeps R (Index.indexClass r a0) := by
  unfold Index.indexClass
  keeps
macro_rules | `(tactic| keeps_prim) => `(tactic| (apply Index.indexClass_keeps <;> assumption))

theorem Index.indexDef_keeps (a0 : _) : Keeps R (Index.indexDef r a0) := by
  unfold Index.indexDef
  keeps
macro_rules | `(tactic| keeps_prim) => `(tactic| (apply Index.indexDef_keeps <;> assumption))

theorem Index.indexDefm_keeps (a0 : _) : Keeps R (Index.indexDefm r a0) := by
  unfold Index.indexDefm
  keeps
macro_rules | `(tactic| keeps_prim) => `(tactic| (apply Index.indexDefm_keeps <;> assumption))

theorem Index.indexDefset_keeps (a0 : _) : Keeps R (Index.indexDefset r a0) := by
  unfold Index.indexDefset
  keeps
macro_rules | `(tactic| keeps_prim) => `(tactic| (apply Index.indexDefset_keeps <;> assumption))

theorem Index.indexMultiClass_keeps (a0 : _) : Keeps R (Index.indexMultiClass r a0) := by
  unfold Index.indexMultiClass
  keeps
macro_rules | `(tactic| keeps_prim) => `(tactic| (apply Index.indexMultiClass_keeps <;> assumption))

theorem Index.indexInclude_keeps (a0 : _) : Keeps R (Index.indexInclude r a0) :=
  CoreRel.incl r hsf a0
macro_rules | `(tactic| keeps_prim) => `(tactic| (apply Index.indexInclude_keeps <;> assumption))

theorem Index.indexStatement_keeps (a0 : _) : Keeps R (Index.indexStatement r a0) := by
  unfold Index.indexStatement
  keeps
macro_rules | `(tactic| keeps_prim) => `(tactic| (apply Index.indexStatement_keeps <;> assumption))

theorem Index.indexStatementList_keeps (a0 : _) : Keeps R (Index.indexStatementList r a0) := by
  unfold Index.indexStatementList
  keeps
macro_rules | `(tactic| keeps_prim) => `(tactic| (apply Index.indexStatementList_keeps <;> assumption))

theorem Index.indexSourceFile_keeps (a0 : _) : Keeps R (Index.indexSourceFile r a0) := by
  unfold Index.indexSourceFile
  keeps
macro_rules | `(tactic| keeps_prim) => `(tactic| (apply Index.indexSourceFile_keeps <;> assumption))

end passB

/-! ### the knot -/

section knot
variable {R : IndexCtx → IndexCtx → Prop} [CoreRel R] [VarRel R] [BlockRel R]

theorem mkRec_keeps (fuel : Nat) :
    (∀ n, Keeps R ((Index.mkRec fuel).value n)) ∧ (∀ n, Keeps R ((Index.mkRec fuel).typ n)) ∧
    (∀ n, Keeps R ((Index.mkRec fuel).statementList n)) ∧ (∀ n, Keeps R ((Index.mkRec fuel).sourceFile n)) := by
  induction fuel with
  | zero => exact ⟨fun _ => Keeps.throw _, fun _ => Keeps.throw _, fun _ => Keeps.throw _, fun _ => Keeps.throw _⟩
  | succ fuel ih =>
    obtain ⟨hv, ht, hsl, hsf⟩ := ih
    exact ⟨fun n => Index.indexValue_keeps hv ht hsl hsf n, fun n => Index.indexType_keeps hv ht n,
      fun n => Index.indexStatementList_keeps hv ht hsl hsf n, fun n => Index.indexSourceFile_keeps hv ht hsl hsf n⟩

/-- a successful `Index.index` relates the initial context to a context with the resulting symbol map -/
theorem index_keeps (ws : Workspace) (res : Index.IndexResult) (h : Index.index ws = .ok res) :
    ∃ c', R (IndexCtx.new ws) c' ∧ c'.symbolMap = res.symbolMap ∧ c'.diagnostics = res.diagnostics := by
  unfold Index.index at h
  split at h
  · cases h
  · rename_i sf _
    split at h
    · cases h
    · rename_i u ctx hrun
      cases h
      obtain ⟨hv, ht, hsl, hsf⟩ := mkRec_keeps (R := R) ws.depthBound
      exact ⟨ctx, (Index.indexSourceFile_keeps hv ht hsl hsf sf).run _ _ _ hrun, rfl, rfl⟩

end knot

/-! ### `LogOK` is an invariant of the indexer -/

/-- `LogOK` before → `LogOK` after -/
def LogRel (c c' : IndexCtx) : Prop := LogOK c.symbolMap → LogOK c'.symbolMap

instance : StdRel LogRel where
  refl := fun _ h => h
  trans := fun h1 h2 h => h2 (h1 h)
  of_eq := fun c c' _ h1 _ h => by rw [h1]; exact h
  sm := fun _ _ hs h => h.step hs

instance : NoScopeRel LogRel where
  scopes := fun _ _ _ h => h

instance : VarRel LogRel where
  addVariable := fun v => by
    unfold scopesAddVariable
    keeps
    refine Keeps.modifyGet _ fun c => ?_
    split <;> exact fun h => h

/-- the symbol map produced by the indexer is coherent with its own hook log -/
theorem index_logOK (ws : Workspace) (res : Index.IndexResult) (h : Index.index ws = .ok res) :
    LogOK res.symbolMap := by
  obtain ⟨c', hR, hsm, _⟩ := index_keeps (R := LogRel) ws res h
  rw [← hsm]
  exact hR LogOK.empty

end Ide
end Tg
