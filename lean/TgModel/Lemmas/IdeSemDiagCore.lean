/-
A syntactically specified core on which the indexer reports nothing
(`Props/C13.lean`, `core_no_diagnostics_partial`).

The core: a statement list of

  class C { T₁ x₁ [= l₁]; … }        def d { T₁ x₁ [= l₁]; … }

without template parameters and parents, where every `Tᵢ` is a primitive type (`bit`, `int`,
`string`, `code`, `dag`, `bits<n>`) and every initialiser `lᵢ` is a single literal (integer, string,
code, boolean, `?`) whose type can be cast to the declared type.  It is a Boolean predicate on the
tree (`coreStatementList`), so concrete programs are checked by `decide`.
-/
import TgModel.Lemmas.IdeSemDiag

namespace Tg
namespace Ide
open Index

/-- the diagnostics are unchanged -/
def Quiet (c c' : IndexCtx) : Prop := c'.diagnostics = c.diagnostics

instance : KeepRel Quiet where
  refl := fun _ => rfl
  trans := fun h1 h2 => h2.trans h1

theorem Quiet.modifySM {α : Type} (g : SymMap → α × SymMap) : Keeps Quiet (modifySM g) :=
  Keeps.modifyGet _ fun _ => rfl

/-! ### literals and primitive types -/

/-- the type of a literal simple value -/
def litType (sv : PTree) : Option Ty :=
  match sv.kind with
  | .Integer => some .int
  | .String => some .string
  | .Code => some .code
  | .Boolean => some .bit
  | .Uninitialized => some .uninitialized
  | _ => none

/-- a `Value` that is one literal: its type -/
def litValueType (v : PTree) : Option Ty :=
  match Ast.valueInnerValues v with
  | [iv] =>
    match Ast.innerValueSimpleValue iv with
    | some sv => if (Ast.innerValueSuffixes iv).isEmpty then litType sv else none
    | none => none
  | _ => none

theorem indexSimpleValue_lit (r : Rec) (sv : PTree) (t : Ty) (h : litType sv = some t) (c : IndexCtx) :
    (indexSimpleValue r sv).run c = .ok (some t, c) := by
  unfold litType at h
  unfold indexSimpleValue
  split at h <;> first | (cases h; simp only [*]; rfl) | cases h

theorem indexValue_lit (r : Rec) (v : PTree) (t : Ty) (h : litValueType v = some t) (c : IndexCtx) :
    (indexValue r v).run c = .ok (some t, c) := by
  unfold litValueType at h
  split at h
  · rename_i iv hiv
    split at h
    · rename_i sv hsv
      split at h
      · rename_i hsuf
        unfold indexValue
        simp only [hiv, List.head?_cons, List.tail_cons, List.forIn_nil, List.length_cons, List.length_nil,
          StateT.run_bind]
        have hinner : (indexInnerValue r iv).run c = .ok (some t, c) := by
          unfold indexInnerValue
          have hs : Ast.innerValueSuffixes iv = [] := by simpa using hsuf
          simp only [hsv, StateT.run_bind, indexSimpleValue_lit r sv t h c, Except.ok_bind, hs, List.forIn_nil]
          rfl
        simp only [hinner, Except.ok_bind]
        rfl
      · cases h
    · cases h
  · cases h

/-- `impl Indexable for ast::Type` on the primitive types -/
def primTypeOf (n : PTree) : Option Ty :=
  match n.kind with
  | .BitType => some .bit
  | .IntType => some .int
  | .StringType => some .string
  | .CodeType => some .code
  | .DagType => some .dag
  | .BitsType =>
    match Ast.bitsTypeLength n with
    | none => none
    | some length =>
      match indexInteger length with
      | none => none
      | some len => if len < 0 then none else some (.bits len.toNat)
  | _ => none

/-- a type node of the core: anything but `list<…>` and a class name -/
def isPrimTypeNode (n : PTree) : Bool := n.kind != .ListType && n.kind != .ClassId

theorem indexType_prim (r : Rec) (n : PTree) (h : isPrimTypeNode n = true) (c : IndexCtx) :
    (indexType r n).run c = .ok (primTypeOf n, c) := by
  unfold isPrimTypeNode at h
  have h1 : n.kind ≠ .ListType := by intro e; simp [e] at h
  have h2 : n.kind ≠ .ClassId := by intro e; simp [e] at h
  unfold indexType primTypeOf
  by_cases e1 : n.kind = .BitType
  · simp only [e1]; rfl
  by_cases e2 : n.kind = .IntType
  · simp only [e2]; rfl
  by_cases e3 : n.kind = .StringType
  · simp only [e3]; rfl
  by_cases e4 : n.kind = .CodeType
  · simp only [e4]; rfl
  by_cases e5 : n.kind = .DagType
  · simp only [e5]; rfl
  by_cases e6 : n.kind = .BitsType
  · simp only [e6]
    cases Ast.bitsTypeLength n with
    | none => rfl
    | some length =>
      simp only
      cases indexInteger length with
      | none => rfl
      | some len =>
        simp only
        by_cases hl : len < 0
        · simp only [hl, if_true]; rfl
        · simp only [hl, if_false]; rfl
  · split <;> first | contradiction | skip
    split <;> first | contradiction | rfl

/-- the cast check between a literal's type and a primitive declared type does not depend on the
class hierarchy -/
def litCastOk (lit ty : Ty) : Bool := Ty.canBeCastedTo (fun _ _ => false) lit ty


theorem litCast_sound (sm : SymMap) (lit ty : Ty) (hl : lit = .int ∨ lit = .string ∨ lit = .code ∨ lit = .bit ∨ lit = .uninitialized)
    (h : litCastOk lit ty = true) : sm.canBeCastedTo lit ty = true := by
  unfold litCastOk at h
  unfold SymMap.canBeCastedTo
  rcases hl with rfl | rfl | rfl | rfl | rfl <;> cases ty <;>
    first
      | rfl
      | (simp only [Ty.canBeCastedTo] at h ⊢; exact h)
      | (rename_i w
         rcases w with _ | _ | w <;>
           first | rfl | (simp only [Ty.canBeCastedTo] at h ⊢; exact h) | (simp [Ty.canBeCastedTo] at h))

theorem litType_cases (sv : PTree) (t : Ty) (h : litType sv = some t) :
    t = .int ∨ t = .string ∨ t = .code ∨ t = .bit ∨ t = .uninitialized := by
  unfold litType at h
  split at h <;> cases h <;> simp

theorem litValueType_cases (v : PTree) (t : Ty) (h : litValueType v = some t) :
    t = .int ∨ t = .string ∨ t = .code ∨ t = .bit ∨ t = .uninitialized := by
  unfold litValueType at h
  split at h
  · split at h
    · split at h
      · exact litType_cases _ _ h
      · cases h
    · cases h
  · cases h

/-! ### primitives keep `Quiet` -/

section quietPrims
theorem quiet_addRecord (r : Record) (g : Bool) : Keeps Quiet (addRecord r g) := Quiet.modifySM _
theorem quiet_addAnonymousDef (r : Record) : Keeps Quiet (addAnonymousDef r) := Quiet.modifySM _
theorem quiet_addMulticlassDef (r : Record) : Keeps Quiet (addMulticlassDef r) := Quiet.modifySM _
theorem quiet_addRecordField (f : RecordField) : Keeps Quiet (addRecordField f) := Quiet.modifySM _
theorem quiet_recordMut (id : Nat) (g : Record → Record) : Keeps Quiet (recordMut id g) := Quiet.modifySM _
theorem quiet_defsetMut (id : Nat) (g : Defset → Defset) : Keeps Quiet (defsetMut id g) := Quiet.modifySM _
theorem quiet_scopesPush (k : ScopeKind) : Keeps Quiet (scopesPush k) := Keeps.modify _ fun _ => rfl
theorem quiet_scopesPop : Keeps Quiet scopesPop := by
  unfold scopesPop
  keeps
  exact Keeps.modify _ fun _ => rfl
theorem quiet_nextAnonymousDefName : Keeps Quiet nextAnonymousDefName := Keeps.modifyGet _ fun _ => rfl
theorem quiet_withSM {α : Type} (g : SymMap → α) : Keeps Quiet (withSM g) := by unfold withSM; keeps
theorem quiet_utilsIdentifier (n : PTree) : Keeps Quiet (utilsIdentifier n) := by unfold utilsIdentifier; keeps
theorem quiet_currentRecordId : Keeps Quiet currentRecordId := by unfold currentRecordId; keeps
theorem quiet_currentMulticlassId : Keeps Quiet currentMulticlassId := by unfold currentMulticlassId; keeps
theorem quiet_currentDefmId : Keeps Quiet currentDefmId := by unfold currentDefmId; keeps
theorem quiet_currentDefsetId : Keeps Quiet currentDefsetId := by unfold currentDefsetId; keeps
macro_rules | `(tactic| keeps_prim) => `(tactic| exact quiet_addRecord _ _)
macro_rules | `(tactic| keeps_prim) => `(tactic| exact quiet_addAnonymousDef _)
macro_rules | `(tactic| keeps_prim) => `(tactic| exact quiet_addMulticlassDef _)
macro_rules | `(tactic| keeps_prim) => `(tactic| exact quiet_addRecordField _)
macro_rules | `(tactic| keeps_prim) => `(tactic| exact quiet_recordMut _ _)
macro_rules | `(tactic| keeps_prim) => `(tactic| exact quiet_defsetMut _ _)
macro_rules | `(tactic| keeps_prim) => `(tactic| exact quiet_scopesPush _)
macro_rules | `(tactic| keeps_prim) => `(tactic| exact quiet_scopesPop)
macro_rules | `(tactic| keeps_prim) => `(tactic| exact quiet_nextAnonymousDefName)
macro_rules | `(tactic| keeps_prim) => `(tactic| exact quiet_withSM _)
macro_rules | `(tactic| keeps_prim) => `(tactic| exact quiet_utilsIdentifier _)
macro_rules | `(tactic| keeps_prim) => `(tactic| exact quiet_currentRecordId)
macro_rules | `(tactic| keeps_prim) => `(tactic| exact quiet_currentMulticlassId)
macro_rules | `(tactic| keeps_prim) => `(tactic| exact quiet_currentDefmId)
macro_rules | `(tactic| keeps_prim) => `(tactic| exact quiet_currentDefsetId)

theorem quiet_sameFileDefset : Keeps Quiet sameFileDefset := by unfold sameFileDefset; keeps
theorem quiet_defDefset : Keeps Quiet defDefset := by unfold defDefset sameFileDefset; keeps
theorem quiet_indexNameValue (v : PTree) : Keeps Quiet (indexNameValue v) := by unfold indexNameValue; keeps
macro_rules | `(tactic| keeps_prim) => `(tactic| exact quiet_sameFileDefset)
macro_rules | `(tactic| keeps_prim) => `(tactic| exact quiet_defDefset)
macro_rules | `(tactic| keeps_prim) => `(tactic| exact quiet_indexNameValue _)
end quietPrims

/-! ### the core -/

/-- `T x [= literal];` with a primitive `T` and a literal that can be cast to `T` -/
def coreFieldDef (n : PTree) : Bool :=
  match Ast.fieldDefType n with
  | none => false
  | some tn =>
    isPrimTypeNode tn &&
    match Ast.fieldDefValue n with
    | none => true
    | some v =>
      match litValueType v, primTypeOf tn with
      | some lt, some ty => litCastOk lt ty
      | some _, none => true
      | none, _ => false

def coreBody (b : PTree) : Bool := (Ast.bodyItems b).all fun it => it.kind == .FieldDef && coreFieldDef it

/-- a record body without parents whose items are core field definitions -/
def coreRecordBody (rb : PTree) : Bool :=
  match Ast.recordBodyParentClassList rb with
  | none => true
  | some pcl =>
    (Ast.parentClassListClasses pcl).isEmpty &&
    match Ast.recordBodyBody rb with
    | none => true
    | some b => coreBody b

def coreClass (n : PTree) : Bool :=
  (Ast.classTemplateArgList n).isNone &&
  match Ast.classRecordBody n with
  | none => true
  | some rb => coreRecordBody rb

def coreDef (n : PTree) : Bool :=
  match Ast.defRecordBody n with
  | none => true
  | some rb => coreRecordBody rb

def coreStatement (s : PTree) : Bool := (s.kind == .Class && coreClass s) || (s.kind == .Def && coreDef s)

/-- **the core**: a statement list of core classes and defs -/
def coreStatementList (sl : PTree) : Bool := (Ast.statementListStatements sl).all coreStatement

section core
variable (k : Nat)

theorem indexFieldDef_quiet (n : PTree) (h : coreFieldDef n = true) :
    Keeps Quiet (indexFieldDef (mkRec (k + 1)) n) := by
  unfold coreFieldDef at h
  refine ⟨fun c a c' hrun => ?_⟩
  unfold indexFieldDef at hrun
  obtain ⟨x0, c0, h0, hrun⟩ := IxM.run_bind_ok hrun
  have q0 : Quiet c c0 := quiet_currentRecordId.run _ _ _ h0
  cases x0 with
  | none => cases hrun
  | some recordId =>
  simp only at hrun
  cases hname : Ast.fieldDefName n with
  | none => rw [hname] at hrun; cases hrun; exact q0
  | some nameNode =>
  rw [hname] at hrun
  simp only at hrun
  obtain ⟨x1, c1, h1, hrun⟩ := IxM.run_bind_ok hrun
  have q1 : Quiet c0 c1 := (quiet_utilsIdentifier _).run _ _ _ h1
  cases x1 with
  | none => cases hrun; exact q1.trans q0
  | some nl =>
  obtain ⟨name, loc⟩ := nl
  simp only at hrun
  cases htn : Ast.fieldDefType n with
  | none => rw [htn] at h; cases h
  | some tn =>
  rw [htn] at hrun h
  simp only [Bool.and_eq_true] at h
  obtain ⟨hprim, hval⟩ := h
  simp only at hrun
  have htyp : ((mkRec (k + 1)).typ tn).run c1 = .ok (primTypeOf tn, c1) := indexType_prim _ tn hprim c1
  simp only [StateT.run_bind, htyp, Except.ok_bind] at hrun
  cases hty : primTypeOf tn with
  | none => rw [hty] at hrun; cases hrun; exact q1.trans q0
  | some ty =>
  rw [hty] at hrun hval
  cases hv : Ast.fieldDefValue n with
  | none => rw [hv] at hrun; cases hrun; exact q1.trans q0
  | some v =>
  rw [hv] at hrun hval
  simp only at hrun hval
  cases hlt : litValueType v with
  | none => rw [hlt] at hval; cases hval
  | some lt =>
  rw [hlt] at hval
  simp only at hval
  have hvrun : ∀ cc, ((mkRec (k + 1)).value v).run cc = .ok (some lt, cc) := fun cc => indexValue_lit _ v lt hlt cc
  simp only [StateT.run_bind, hvrun, Except.ok_bind, canBeCastedTo_run,
    litCast_sound _ lt ty (litValueType_cases v lt hlt) hval, Bool.not_true, Bool.false_eq_true, if_false] at hrun
  cases hrun
  exact q1.trans q0

theorem indexBody_quiet (b : PTree) (h : coreBody b = true) : Keeps Quiet (indexBody (mkRec (k + 1)) b) := by
  unfold indexBody
  unfold coreBody at h
  rw [List.all_eq_true] at h
  refine Keeps.bind (keeps_forIn_mem _ _ _ fun it hit s => ?_) fun _ => Keeps.pure _
  have := h it hit
  simp only [Bool.and_eq_true, beq_iff_eq] at this
  refine Keeps.bind ?_ fun _ => Keeps.pure _
  unfold indexBodyItem
  simp only [this.1]
  exact indexFieldDef_quiet k it this.2

theorem indexParentClassList_quiet (pcl : PTree) (h : Ast.parentClassListClasses pcl = []) :
    Keeps Quiet (indexParentClassList (mkRec (k + 1)) pcl) := by
  unfold indexParentClassList
  rw [h]
  simp only [List.forIn_nil]
  keeps

theorem indexRecordBody_quiet (rb : PTree) (h : coreRecordBody rb = true) :
    Keeps Quiet (indexRecordBody (mkRec (k + 1)) rb) := by
  unfold indexRecordBody
  unfold coreRecordBody at h
  cases hp : Ast.recordBodyParentClassList rb with
  | none => exact Keeps.pure _
  | some pcl =>
    rw [hp] at h
    simp only [Bool.and_eq_true, List.isEmpty_iff] at h
    simp only
    refine Keeps.bind (indexParentClassList_quiet k pcl h.1) fun _ => ?_
    cases hb : Ast.recordBodyBody rb with
    | none => exact Keeps.pure _
    | some b =>
      rw [hb] at h
      exact indexBody_quiet k b h.2

theorem indexClass_quiet (n : PTree) (h : coreClass n = true) : Keeps Quiet (indexClass (mkRec (k + 1)) n) := by
  unfold coreClass at h
  simp only [Bool.and_eq_true, Option.isNone_iff_eq_none] at h
  obtain ⟨hta, hrb⟩ := h
  unfold indexClass
  rw [hta]
  cases hb : Ast.classRecordBody n with
  | none => keeps
  | some rb =>
    rw [hb] at hrb
    have := indexRecordBody_quiet k rb hrb
    keeps

theorem indexDef_quiet (n : PTree) (h : coreDef n = true) : Keeps Quiet (indexDef (mkRec (k + 1)) n) := by
  unfold coreDef at h
  have htail : ∀ id : Nat, Keeps Quiet (do
      scopesPush (.record id)
      let some body := Ast.defRecordBody n | return
      indexRecordBody (mkRec (k + 1)) body
      scopesPop : IxM Unit) := by
    intro id
    refine Keeps.bind (quiet_scopesPush _) fun _ => ?_
    cases hb : Ast.defRecordBody n with
    | none => exact Keeps.pure _
    | some rb =>
      rw [hb] at h
      exact Keeps.bind (indexRecordBody_quiet k rb h) fun _ => quiet_scopesPop
  unfold indexDef
  refine Keeps.bind quiet_defDefset fun ds => ?_
  dsimp only
  split
  all_goals first
    | refine Keeps.bind (quiet_indexNameValue _) fun named => ?_
    | refine Keeps.bind (Keeps.pure _) fun named => ?_
  all_goals
    split
    · refine Keeps.bind quiet_currentMulticlassId fun m => ?_
      split
      · refine Keeps.bind (quiet_addMulticlassDef _) fun id => ?_
        split
        · exact Keeps.bind (quiet_defsetMut _ _) fun _ => htail id
        · exact htail id
      · refine Keeps.bind (quiet_addRecord _ _) fun id => ?_
        split
        · exact Keeps.bind (quiet_defsetMut _ _) fun _ => htail id
        · exact htail id
    · refine Keeps.bind quiet_nextAnonymousDefName fun nm => ?_
      refine Keeps.bind currentFileId_keeps fun f => ?_
      refine Keeps.bind (quiet_addAnonymousDef _) fun id => ?_
      exact htail id

theorem indexStatement_quiet (s : PTree) (h : coreStatement s = true) :
    Keeps Quiet (indexStatement (mkRec (k + 1)) s) := by
  unfold coreStatement at h
  simp only [Bool.or_eq_true, Bool.and_eq_true, beq_iff_eq] at h
  unfold indexStatement
  rcases h with ⟨hk, hc⟩ | ⟨hk, hc⟩
  · simp only [hk]; exact indexClass_quiet k s hc
  · simp only [hk]; exact indexDef_quiet k s hc

/-- on a core statement list the indexer reports nothing -/
theorem indexStatementList_quiet (sl : PTree) (h : coreStatementList sl = true) :
    Keeps Quiet ((mkRec (k + 2)).statementList sl) := by
  show Keeps Quiet (indexStatementList (mkRec (k + 1)) sl)
  unfold indexStatementList
  unfold coreStatementList at h
  rw [List.all_eq_true] at h
  refine Keeps.bind (keeps_forIn_mem _ _ _ fun s hs st => ?_) fun _ => Keeps.pure _
  exact Keeps.bind (indexStatement_quiet k s (h s hs)) fun _ => Keeps.pure _

end core

theorem depthBound_ge (ws : Workspace) : 8 ≤ ws.depthBound := by
  unfold Workspace.depthBound
  rw [← Array.foldl_toList]
  suffices h : ∀ (l : List FileInfo) (n : Nat), 8 ≤ n → 8 ≤ l.foldl (fun n f => n + f.tree.height + 2) n from
    h _ 8 (Nat.le_refl _)
  intro l
  induction l with
  | nil => intro n hn; exact hn
  | cons f t ih => intro n hn; exact ih _ (by show 8 ≤ n + f.tree.height + 2; omega)

end Ide
end Tg
