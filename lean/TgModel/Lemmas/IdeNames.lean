/-
Facts about the hook log (`SymbolMap.Op` lists) and about token ranges that the C06 hypotheses
(`RefsValid`, `NamedRefs`, `TextOk`, `DisjointLocs`) are built from:

* `allocs` / `RefsValid` / `registrations` of a log extended at the end;
* `TokAt ws loc name`: `loc` is the range of a token of its file, with text `name`;
* `textAt`: the text of a file between two byte offsets; under a token range it is the token text;
* two tokens of a spanning tree have equal or disjoint ranges.
-/
import TgModel.Lemmas.IdeTree
import TgModel.Lemmas.SymbolMapLemmas
import TgModel.Ide.Workspace

namespace Tg
namespace Ide
open Tg.SymbolMap (Op Loc allocs RefsValid registrations)

/-! ### logs extended at the end -/

theorem allocs_append (a b : List Op) : allocs (a ++ b) = allocs a ++ allocs b := by
  induction a with
  | nil => rfl
  | cons x xs ih => cases x <;> simp [allocs, ih]

theorem allocs_define (n : List Char) (l : Loc) : allocs [Op.define n l] = [Op.define n l] := rfl
theorem allocs_defineAnon (n : List Char) (l : Loc) : allocs [Op.defineAnon n l] = [Op.defineAnon n l] := rfl
theorem allocs_reference (g : Nat) (l : Loc) : allocs [Op.reference g l] = [] := rfl

/-- the symbol id `g` was allocated by a `define` (not an anonymous one) with this name -/
def NamedGid (ops : List Op) (g : Nat) (name : List Char) : Prop :=
  ∃ l, (allocs ops)[g]? = some (Op.define name l)

theorem NamedGid.append {ops : List Op} {g : Nat} {name : List Char} (h : NamedGid ops g name) (more : List Op) :
    NamedGid (ops ++ more) g name := by
  obtain ⟨l, hl⟩ := h
  refine ⟨l, ?_⟩
  rw [allocs_append, List.getElem?_append_left]
  · exact hl
  · exact (List.getElem?_eq_some_iff.mp hl).1

theorem RefsValid_append : ∀ (a b : List Op) (k : Nat),
    RefsValid (a ++ b) k ↔ RefsValid a k ∧ RefsValid b (k + (allocs a).length)
  | [], b, k => by simp [RefsValid, allocs]
  | x :: xs, b, k => by
    cases x with
    | define n l =>
      simp only [List.cons_append, RefsValid, allocs, List.length_cons]
      rw [RefsValid_append xs b (k + 1)]
      simp only [Nat.add_assoc, Nat.add_comm 1]
    | defineAnon n l =>
      simp only [List.cons_append, RefsValid, allocs, List.length_cons]
      rw [RefsValid_append xs b (k + 1)]
      simp only [Nat.add_assoc, Nat.add_comm 1]
    | reference s l =>
      simp only [List.cons_append, RefsValid, allocs]
      rw [RefsValid_append xs b k]
      exact and_assoc.symm

theorem registrations_mem : ∀ (ops : List Op) (k : Nat) (e : Loc × Nat), e ∈ registrations ops k →
    (∃ n, Op.define n e.1 ∈ ops) ∨ (Op.reference e.2 e.1 ∈ ops)
  | [], _, _, h => by simp [registrations] at h
  | x :: xs, k, e, h => by
    cases x with
    | define n l =>
      simp only [registrations, List.mem_cons] at h
      rcases h with rfl | h
      · exact Or.inl ⟨n, by simp⟩
      · rcases registrations_mem xs _ e h with ⟨n', hn⟩ | hr
        · exact Or.inl ⟨n', by simp [hn]⟩
        · exact Or.inr (by simp [hr])
    | defineAnon n l =>
      simp only [registrations] at h
      rcases registrations_mem xs _ e h with ⟨n', hn⟩ | hr
      · exact Or.inl ⟨n', by simp [hn]⟩
      · exact Or.inr (by simp [hr])
    | reference s l =>
      simp only [registrations, List.mem_cons] at h
      rcases h with rfl | h
      · exact Or.inr (by simp)
      · rcases registrations_mem xs _ e h with ⟨n', hn⟩ | hr
        · exact Or.inl ⟨n', by simp [hn]⟩
        · exact Or.inr (by simp [hr])

/-! ### tokens -/

/-- `t` is the first token of an `Identifier` node of the tree -/
def IdTok (root t : PTree) : Prop :=
  ∃ idn, Desc root idn ∧ idn.isNode = true ∧ idn.kind = .Identifier ∧ idn.firstToken = some t

/-- `loc` is the range of the first token of an `Identifier` node of the tree of workspace file `loc.file`, and the
token text is `name`; or `loc` is the inside of a token `"name"` (the name of a `def "name"`) -/
def TokAt (ws : Workspace) (loc : Loc) (name : String) : Prop :=
  loc.file < ws.files.size ∧ ∃ t, Desc (ws.tree loc.file) t ∧ t.isToken = true ∧
    ((IdTok (ws.tree loc.file) t ∧ t.start = loc.start ∧ t.stop = loc.stop ∧ t.text = name) ∨
     (t.start + 1 = loc.start ∧ loc.stop + 1 = t.stop ∧ t.text.toList = '"' :: name.toList ++ ['"']))

/-- **identifiers are not quoted**: the first token of an `Identifier` node does not begin with `"` (true of parser
output: the token is an `Id`) -/
def IdsPlainT (root : PTree) : Prop := ∀ t, IdTok root t → t.text.toList.head? ≠ some '"'

/-- … in every file of the workspace -/
def IdsPlain (ws : Workspace) : Prop := ∀ f, IdsPlainT (ws.tree f)

/-- a descendant is the root or lies below one of its children -/
theorem Desc.cases_head {root t : PTree} (h : Desc root t) :
    t = root ∨ ∃ c ∈ root.children.toList, Desc c t := by
  induction h with
  | refl => exact Or.inl rfl
  | @step p c _ hc ih =>
    rcases ih with rfl | ⟨c', hc', hd⟩
    · exact Or.inr ⟨c, hc, Desc.refl _⟩
    · exact Or.inr ⟨c', hc', Desc.step hd hc⟩

theorem Tiles.ordered {l : List PTree} {s e : Nat} (h : Tiles l s e) (hle : ∀ t ∈ l, t.start ≤ t.stop)
    {i j : Nat} (hij : i < j) (hj : j < l.length) : (l[i]'(by omega)).stop ≤ (l[j]).start := by
  induction h generalizing i j with
  | nil => simp at hj
  | cons t ts e htl ih =>
    cases j with
    | zero => omega
    | succ j =>
      have hts : ∀ x ∈ ts, x.start ≤ x.stop := fun x hx => hle x (by simp [hx])
      cases i with
      | zero =>
        simp only [List.getElem_cons_zero, List.getElem_cons_succ]
        -- `ts` tiles `[t.stop, e]`: its `j`-th element starts at or after `t.stop`
        have key : ∀ (l : List PTree) (s e : Nat), Tiles l s e → (∀ x ∈ l, x.start ≤ x.stop) →
            ∀ j (hj : j < l.length), s ≤ l[j].start := by
          intro l s e hl
          induction hl with
          | nil => intro _ j hj; simp at hj
          | cons x xs e' _ ih' =>
            intro hx j hj
            cases j with
            | zero => simp
            | succ j =>
              have := ih' (fun y hy => hx y (by simp [hy])) j (by simpa using hj)
              have := hx x (by simp)
              simp only [List.getElem_cons_succ]
              omega
        exact key ts t.stop e htl hts j (by simpa using hj)
      | succ i =>
        simp only [List.getElem_cons_succ]
        exact ih hts (by omega) (by simpa using hj)

/-- two descendants of a spanning tree: one lies below the other, or their ranges are disjoint -/
theorem Spans.desc_nested_or_disjoint {root : PTree} {txt : List Char} (h : Spans root txt) :
    ∀ {x y : PTree}, Desc root x → Desc root y →
      Desc x y ∨ Desc y x ∨ x.stop ≤ y.start ∨ y.stop ≤ x.start := by
  induction h with
  | token k s txt =>
    intro x y hx hy
    rcases hx.cases_head with rfl | ⟨c, hc, _⟩
    · exact Or.inl hy
    · simp [PTree.children] at hc
  | node k s e hh cs parts hlen hch htile hpos hhs ih =>
    intro x y hx hy
    rcases hx.cases_head with rfl | ⟨cx, hcx, hdx⟩
    · exact Or.inl hy
    · rcases hy.cases_head with rfl | ⟨cy, hcy, hdy⟩
      · exact Or.inr (Or.inl hx)
      · simp only [PTree.children] at hcx hcy
        obtain ⟨i, hi, rfl⟩ := List.getElem_of_mem hcx
        obtain ⟨j, hj, rfl⟩ := List.getElem_of_mem hcy
        have hi' : i < cs.size := by simpa using hi
        have hj' : j < cs.size := by simpa using hj
        have hle : ∀ t ∈ cs.toList, t.start ≤ t.stop := by
          intro t ht
          obtain ⟨m, hm, rfl⟩ := List.getElem_of_mem ht
          have hm' : m < cs.size := by simpa using hm
          simpa using (hch m hm' (by omega)).start_le_stop
        have hwx := (hch i hi' (by omega)).desc_within (by simpa using hdx)
        have hwy := (hch j hj' (by omega)).desc_within (by simpa using hdy)
        rcases Nat.lt_trichotomy i j with hlt | heq | hgt
        · have := htile.ordered hle hlt hj
          right; right; left
          simp only [Array.getElem_toList] at this hwx hwy
          omega
        · subst heq
          exact ih i hi' (by omega) (by simpa using hdx) (by simpa using hdy)
        · have := htile.ordered hle hgt hi
          right; right; right
          simp only [Array.getElem_toList] at this hwx hwy
          omega

theorem desc_of_token {t y : PTree} (ht : t.isToken = true) (h : Desc t y) : y = t := by
  rcases h.cases_head with rfl | ⟨c, hc, _⟩
  · rfl
  · cases t with
    | node => simp [PTree.isToken, PTree.isNode] at ht
    | token => simp [PTree.children] at hc

/-- two tokens of a spanning tree have the same range or disjoint ranges -/
theorem Spans.tokens_disjoint {root : PTree} {txt : List Char} (h : Spans root txt) {x y : PTree}
    (hx : Desc root x) (hy : Desc root y) (tx : x.isToken = true) (ty : y.isToken = true) :
    (x.start = y.start ∧ x.stop = y.stop) ∨ x.stop ≤ y.start ∨ y.stop ≤ x.start := by
  rcases h.desc_nested_or_disjoint hx hy with hd | hd | hd | hd
  · rw [desc_of_token tx hd]; exact Or.inl ⟨rfl, rfl⟩
  · rw [desc_of_token ty hd]; exact Or.inl ⟨rfl, rfl⟩
  · exact Or.inr (Or.inl hd)
  · exact Or.inr (Or.inr hd)

/-! ### the text under a byte range -/

/-- drop the characters that start before byte offset `n` -/
def dropBytes : Nat → List Char → List Char
  | 0, cs => cs
  | _ + 1, [] => []
  | n + 1, c :: cs => dropBytes (n + 1 - utf8Len c) cs

/-- keep the characters that start before byte offset `n` -/
def takeBytes : Nat → List Char → List Char
  | 0, _ => []
  | _ + 1, [] => []
  | n + 1, c :: cs => c :: takeBytes (n + 1 - utf8Len c) cs

/-- the text between byte offsets `a` and `b` -/
def sliceBytes (cs : List Char) (a b : Nat) : List Char := takeBytes (b - a) (dropBytes a cs)

theorem dropBytes_append (pre rest : List Char) : dropBytes (byteLen pre) (pre ++ rest) = rest := by
  induction pre with
  | nil => simp [dropBytes]
  | cons c cs ih =>
    have hp := utf8Len_pos c
    simp only [byteLen_cons, List.cons_append]
    obtain ⟨m, hm⟩ : ∃ m, utf8Len c + byteLen cs = m + 1 := ⟨utf8Len c + byteLen cs - 1, by omega⟩
    rw [hm, dropBytes]
    have : m + 1 - utf8Len c = byteLen cs := by omega
    rw [this]; exact ih

theorem takeBytes_append (mid rest : List Char) : takeBytes (byteLen mid) (mid ++ rest) = mid := by
  induction mid with
  | nil => simp [takeBytes]
  | cons c cs ih =>
    have hp := utf8Len_pos c
    simp only [byteLen_cons, List.cons_append]
    obtain ⟨m, hm⟩ : ∃ m, utf8Len c + byteLen cs = m + 1 := ⟨utf8Len c + byteLen cs - 1, by omega⟩
    rw [hm, takeBytes]
    have : m + 1 - utf8Len c = byteLen cs := by omega
    rw [this, ih]

theorem sliceBytes_mid (pre mid post : List Char) :
    sliceBytes (pre ++ mid ++ post) (byteLen pre) (byteLen pre + byteLen mid) = mid := by
  unfold sliceBytes
  rw [List.append_assoc, dropBytes_append]
  have : byteLen pre + byteLen mid - byteLen pre = byteLen mid := by omega
  rw [this, takeBytes_append]

/-- under the range of a token of a spanning tree that starts at offset 0 lies exactly the token's text -/
theorem Spans.token_text {root t : PTree} {txt : List Char} (h : Spans root txt) (h0 : root.start = 0)
    (hd : Desc root t) (ht : t.isToken = true) : sliceBytes root.chars t.start t.stop = t.text.toList := by
  obtain ⟨_, pre, mid, post, rfl, hs, hst⟩ := h.desc hd
  rw [h.chars_eq]
  have hstop := hs.stop_eq
  have hmid : t.text.toList = mid := by
    cases hs with
    | token k s m => simp [PTree.text]
    | node => simp [PTree.isToken, PTree.isNode] at ht
  rw [hstop, hst, h0, hmid]
  simpa using sliceBytes_mid pre mid post

/-- the inside of a quoted piece of a text -/
theorem sliceBytes_inner (pre mid post : List Char) :
    sliceBytes (pre ++ ('"' :: mid ++ ['"']) ++ post) (byteLen pre + 1) (byteLen pre + 1 + byteLen mid) = mid := by
  have h : pre ++ ('"' :: mid ++ ['"']) ++ post = (pre ++ ['"']) ++ mid ++ (['"'] ++ post) := by simp
  have hb : byteLen (pre ++ ['"']) = byteLen pre + 1 := by
    simp only [byteLen_append, byteLen_cons, byteLen_nil]
    have : utf8Len '"' = 1 := by decide
    omega
  rw [h, ← hb]
  exact sliceBytes_mid _ _ _

/-- under the inside of a quoted token lies the quoted text -/
theorem Spans.token_inner {root t : PTree} {txt : List Char} (h : Spans root txt) (h0 : root.start = 0)
    (hd : Desc root t) (ht : t.isToken = true) {mid : List Char} (hq : t.text.toList = '"' :: mid ++ ['"']) :
    sliceBytes root.chars (t.start + 1) (t.stop - 1) = mid ∧ t.stop = t.start + 1 + byteLen mid + 1 := by
  obtain ⟨_, pre, m, post, rfl, hs, hst⟩ := h.desc hd
  rw [h.chars_eq]
  have hstop := hs.stop_eq
  have hmid : t.text.toList = m := by
    cases hs with
    | token k s m => simp [PTree.text]
    | node => simp [PTree.isToken, PTree.isNode] at ht
  rw [hmid] at hq
  subst hq
  have hq1 : utf8Len '"' = 1 := by decide
  have hlen : byteLen ('"' :: mid ++ ['"']) = 1 + byteLen mid + 1 := by
    simp only [List.cons_append, byteLen_cons, byteLen_append, byteLen_nil, hq1]; omega
  rw [hlen] at hstop
  rw [h0] at hst
  refine ⟨?_, by omega⟩
  have e1 : t.start + 1 = byteLen pre + 1 := by omega
  have e2 : t.stop - 1 = byteLen pre + 1 + byteLen mid := by omega
  rw [e1, e2]
  exact sliceBytes_inner pre mid post

/-- the inside of a quoted token is a valid range of the text -/
theorem Spans.token_inner_valid {root t : PTree} {txt : List Char} (h : Spans root txt) (h0 : root.start = 0)
    (hd : Desc root t) (ht : t.isToken = true) {mid : List Char} (hq : t.text.toList = '"' :: mid ++ ['"']) :
    ValidRange txt (t.start + 1) (t.stop - 1) ∧ t.start + 2 ≤ t.stop := by
  obtain ⟨_, pre, m, post, rfl, hs, hst⟩ := h.desc hd
  have hstop := hs.stop_eq
  have hmid : t.text.toList = m := by
    cases hs with
    | token k s m => simp [PTree.text]
    | node => simp [PTree.isToken, PTree.isNode] at ht
  rw [hmid] at hq
  subst hq
  have hq1 : utf8Len '"' = 1 := by decide
  have hlen : byteLen ('"' :: mid ++ ['"']) = 1 + byteLen mid + 1 := by
    simp only [List.cons_append, byteLen_cons, byteLen_append, byteLen_nil, hq1]; omega
  rw [hlen] at hstop
  rw [h0] at hst
  refine ⟨⟨by omega, pre ++ ['"'], mid, ['"'] ++ post, by simp, ?_, ?_⟩, by omega⟩
  · simp only [byteLen_append, byteLen_cons, byteLen_nil, hq1]; omega
  · simp only [byteLen_append, byteLen_cons, byteLen_nil, hq1]; omega

/-- the text of workspace file `loc.file` under `loc` -/
def textAt (ws : Workspace) (loc : Loc) : List Char :=
  sliceBytes (ws.tree loc.file).chars loc.start loc.stop

end Ide
end Tg
