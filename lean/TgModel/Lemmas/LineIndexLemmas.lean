/- Generalised (scan-state) lemmas about the line-index model. -/
import TgModel.LineIndex

namespace Tg
namespace LineIndex

theorem utf16Len_pos (c : Char) : 0 < utf16Len c := by unfold utf16Len; split <;> omega

theorem u8_nl : utf8Len '\n' = 1 := by decide
theorem u8_cr : utf8Len '\r' = 1 := by decide

theorem cls_u8 (ch : Char) (t : List Char) (h : cls ch t ≠ .other) : utf8Len ch = 1 := by
  unfold cls at h
  split at h
  · subst_vars; exact u8_nl
  · split at h
    · subst_vars; exact u8_cr
    · exact absurd rfl h

/-- generalized round trip -/
theorem roundtrip_gen : ∀ (t : List Char) (o l0 c0 l c off : Nat),
    toPos t o l0 c0 = some (l, c) →
    l0 ≤ l ∧ (l = l0 → c0 ≤ c ∧ fromPos t 0 (c - c0) off = off + o) ∧
      (l0 < l → fromPos t (l - l0) c off = off + o) := by
  intro t
  induction t with
  | nil =>
    intro o l0 c0 l c off h
    cases o with
    | zero => simp [toPos] at h; obtain ⟨rfl, rfl⟩ := h; simp [fromPos]
    | succ o => simp [toPos] at h
  | cons ch t ih =>
    intro o l0 c0 l c off h
    cases o with
    | zero =>
      simp [toPos] at h; obtain ⟨rfl, rfl⟩ := h
      simp [fromPos]
    | succ o =>
      simp only [toPos] at h
      split at h
      · simp at h
      · rename_i hge
        cases hc : cls ch t with
        | lf =>
          have hu := cls_u8 ch t (by simp [hc])
          simp only [hc] at h
          have := ih (o + 1 - 1) (l0+1) 0 l c (off+1) h
          obtain ⟨hle, h1, h2⟩ := this
          refine ⟨by omega, ?_, ?_⟩
          · intro he; omega
          · intro hlt
            have e : l - l0 = (l - (l0+1)) + 1 := by omega
            rw [e]; simp only [fromPos, hc]
            by_cases heq : l = l0 + 1
            · have := (h1 heq).2; simp [heq] at this ⊢; omega
            · have := h2 (by omega); rw [this]; omega
        | cr =>
          have hu := cls_u8 ch t (by simp [hc])
          simp only [hc] at h
          have := ih (o + 1 - 1) (l0+1) 0 l c (off+1) h
          obtain ⟨hle, h1, h2⟩ := this
          refine ⟨by omega, ?_, ?_⟩
          · intro he; omega
          · intro hlt
            have e : l - l0 = (l - (l0+1)) + 1 := by omega
            rw [e]; simp only [fromPos, hc]
            by_cases heq : l = l0 + 1
            · have := (h1 heq).2; simp [heq] at this ⊢; omega
            · have := h2 (by omega); rw [this]; omega
        | crOfCrlf =>
          have hu := cls_u8 ch t (by simp [hc])
          simp only [hc] at h
          have := ih (o + 1 - 1) l0 (c0+1) l c (off+1) h
          obtain ⟨hle, h1, h2⟩ := this
          refine ⟨hle, ?_, ?_⟩
          · intro he
            obtain ⟨hcc, hf⟩ := h1 he
            refine ⟨by omega, ?_⟩
            have hne : c - c0 ≠ 0 := by omega
            simp only [fromPos, hne, if_false, hc]
            have e : c - c0 - 1 = c - (c0 + 1) := by omega
            rw [e, hf]; omega
          · intro hlt
            have e : l - l0 = (l - l0 - 1) + 1 := by omega
            rw [e]; simp only [fromPos, hc]
            have := h2 hlt
            have e2 : l - l0 - 1 + 1 = l - l0 := by omega
            rw [e2, this]; omega
        | other =>
          simp only [hc] at h
          have := ih (o + 1 - utf8Len ch) l0 (c0 + utf16Len ch) l c (off + utf8Len ch) h
          obtain ⟨hle, h1, h2⟩ := this
          have hp8 := utf8Len_pos ch
          have hp16 := utf16Len_pos ch
          refine ⟨hle, ?_, ?_⟩
          · intro he
            obtain ⟨hcc, hf⟩ := h1 he
            refine ⟨by omega, ?_⟩
            have hne : c - c0 ≠ 0 := by omega
            have hnlt : ¬ (c - c0 < utf16Len ch) := by omega
            simp only [fromPos, hne, if_false, hc, hnlt]
            have e : c - c0 - utf16Len ch = c - (c0 + utf16Len ch) := by omega
            rw [e, hf]; omega
          · intro hlt
            have e : l - l0 = (l - l0 - 1) + 1 := by omega
            rw [e]; simp only [fromPos, hc]
            have := h2 hlt
            have e2 : l - l0 - 1 + 1 = l - l0 := by omega
            rw [e2, this]; omega

/-- every char-boundary offset has a position (the scan never gets stuck inside the text) -/
theorem toPos_boundary (pre post : List Char) (l0 c0 : Nat) :
    ∃ l c, toPos (pre ++ post) (byteLen pre) l0 c0 = some (l, c) := by
  induction pre generalizing l0 c0 with
  | nil => simp [toPos]
  | cons ch pre ih =>
    have hp := utf8Len_pos ch
    obtain ⟨k, hk⟩ : ∃ k, byteLen (ch :: pre) = k + 1 := ⟨utf8Len ch + byteLen pre - 1, by simp; omega⟩
    simp only [List.cons_append, hk, toPos]
    have hk' : k + 1 = utf8Len ch + byteLen pre := by rw [← hk]; simp
    have hnot : ¬ (k + 1 < utf8Len ch) := by omega
    simp only [hnot, if_false]
    cases hc : cls ch (pre ++ post) with
    | lf =>
      have := cls_u8 ch (pre ++ post) (by simp [hc])
      have e : k + 1 - 1 = byteLen pre := by omega
      simp only [e]; exact ih _ _
    | cr =>
      have := cls_u8 ch (pre ++ post) (by simp [hc])
      have e : k + 1 - 1 = byteLen pre := by omega
      simp only [e]; exact ih _ _
    | crOfCrlf =>
      have := cls_u8 ch (pre ++ post) (by simp [hc])
      have e : k + 1 - 1 = byteLen pre := by omega
      simp only [e]; exact ih _ _
    | other =>
      have e : k + 1 - utf8Len ch = byteLen pre := by omega
      simp only [e]; exact ih _ _

theorem lineStarts_gt (t : List Char) (b : Nat) : ∀ x ∈ lineStarts t b, b < x := by
  induction t generalizing b with
  | nil => simp [lineStarts]
  | cons ch t ih =>
    intro x hx
    simp only [lineStarts] at hx
    have hp := utf8Len_pos ch
    split at hx
    · simp only [List.mem_cons] at hx
      rcases hx with rfl | hx
      · omega
      · have := ih _ x hx; omega
    · simp only [List.mem_cons] at hx
      rcases hx with rfl | hx
      · omega
      · have := ih _ x hx; omega
    · have := ih _ x hx; omega
    · have := ih _ x hx; omega

/-- generalized: the line of an offset is the number of line starts at or before it -/
theorem line_gen : ∀ (t : List Char) (o l0 c0 l c b : Nat),
    toPos t o l0 c0 = some (l, c) → l = l0 + ((lineStarts t b).filter (· ≤ b + o)).length := by
  intro t
  induction t with
  | nil => intro o l0 c0 l c b h; cases o <;> simp [toPos] at h <;> simp [lineStarts, h.1]
  | cons ch t ih =>
    intro o l0 c0 l c b h
    cases o with
    | zero =>
      simp [toPos] at h
      have : (lineStarts (ch :: t) b).filter (· ≤ b + 0) = [] := by
        apply List.filter_eq_nil_iff.mpr
        intro x hx; have := lineStarts_gt _ _ x hx; simp; omega
      rw [this]; simp [h.1]
    | succ o =>
      simp only [toPos] at h
      split at h
      · simp at h
      · cases hc : cls ch t with
        | lf =>
          simp only [hc] at h
          have := ih _ _ _ _ _ (b+1) h
          simp only [lineStarts, hc]
          have e : b + 1 + (o + 1 - 1) = b + (o + 1) := by omega
          rw [e] at this
          rw [List.filter_cons_of_pos (by simp)]
          simp [this]; omega
        | cr =>
          simp only [hc] at h
          have := ih _ _ _ _ _ (b+1) h
          simp only [lineStarts, hc]
          have e : b + 1 + (o + 1 - 1) = b + (o + 1) := by omega
          rw [e] at this
          rw [List.filter_cons_of_pos (by simp)]
          simp [this]; omega
        | crOfCrlf =>
          simp only [hc] at h
          have := ih _ _ _ _ _ (b+1) h
          simp only [lineStarts, hc]
          have e : b + 1 + (o + 1 - 1) = b + (o + 1) := by omega
          rw [e] at this
          exact this
        | other =>
          rename_i hge
          simp only [hc] at h
          have := ih _ _ _ _ _ (b + utf8Len ch) h
          simp only [lineStarts, hc]
          have e : b + utf8Len ch + (o + 1 - utf8Len ch) = b + (o + 1) := by omega
          rw [e] at this
          exact this

theorem fromPos_bounds : ∀ (t : List Char) (l c off : Nat),
    off ≤ fromPos t l c off ∧ fromPos t l c off ≤ off + byteLen t := by
  intro t
  induction t with
  | nil => intro l c off; simp [fromPos]
  | cons ch t ih =>
    intro l c off
    have hp := utf8Len_pos ch
    cases l with
    | zero =>
      simp only [fromPos]
      split
      · simp
      · cases hc : cls ch t with
        | lf => simp; omega
        | cr => simp; omega
        | crOfCrlf =>
          have hu := cls_u8 ch t (by simp [hc])
          have := ih 0 (c - 1) (off + 1)
          simp; omega
        | other =>
          simp only []
          split
          · simp
          · have := ih 0 (c - utf16Len ch) (off + utf8Len ch)
            simp; omega
    | succ l =>
      simp only [fromPos]
      cases hc : cls ch t with
      | lf =>
        have hu := cls_u8 ch t (by simp [hc]); have := ih l c (off + 1); simp; omega
      | cr =>
        have hu := cls_u8 ch t (by simp [hc]); have := ih l c (off + 1); simp; omega
      | crOfCrlf =>
        have hu := cls_u8 ch t (by simp [hc]); have := ih (l+1) c (off + 1); simp; omega
      | other => have := ih (l+1) c (off + utf8Len ch); simp; omega

def u16len : List Char → Nat
  | [] => 0
  | c :: cs => utf16Len c + u16len cs

theorem fromPos_zero_zero (t : List Char) (off : Nat) : fromPos t 0 0 off = off := by
  cases t <;> simp [fromPos]

/-- a column at or past the UTF-16 length of everything that follows lands where the next
line starts (or at the end of the text) -/
theorem clamp_gen : ∀ (t : List Char) (l c off : Nat), u16len t ≤ c →
    fromPos t l c off = fromPos t (l+1) 0 off := by
  intro t
  induction t with
  | nil => intro l c off _; simp [fromPos]
  | cons ch t ih =>
    intro l c off hc
    have hp := utf16Len_pos ch
    simp only [u16len] at hc
    cases l with
    | zero =>
      have hne : c ≠ 0 := by omega
      simp only [fromPos, hne, if_false]
      cases hcl : cls ch t with
      | lf => simp [fromPos_zero_zero]
      | cr => simp [fromPos_zero_zero]
      | crOfCrlf => exact ih 0 (c - 1) (off + 1) (by omega)
      | other =>
        have : ¬ (c < utf16Len ch) := by omega
        simp only [this, if_false]
        exact ih 0 (c - utf16Len ch) (off + utf8Len ch) (by omega)
    | succ l =>
      simp only [fromPos]
      cases hcl : cls ch t with
      | lf => exact ih l c (off + 1) (by omega)
      | cr => exact ih l c (off + 1) (by omega)
      | crOfCrlf => exact ih (l+1) c (off + 1) (by omega)
      | other => exact ih (l+1) c (off + utf8Len ch) (by omega)

theorem cls_other (ch : Char) (t : List Char) (h1 : ch ≠ '\n') (h2 : ch ≠ '\r') : cls ch t = .other := by
  simp [cls, h1, h2]

/-- inside a line the column advances by the UTF-16 length of the characters passed -/
theorem column_gen (seg post : List Char) (l0 c0 : Nat)
    (hseg : ∀ ch ∈ seg, ch ≠ '\n' ∧ ch ≠ '\r') :
    toPos (seg ++ post) (byteLen seg) l0 c0 = some (l0, c0 + u16len seg) := by
  induction seg generalizing c0 with
  | nil => simp [toPos, u16len]
  | cons ch seg ih =>
    have hp := utf8Len_pos ch
    obtain ⟨h1, h2⟩ := hseg ch (by simp)
    obtain ⟨k, hk⟩ : ∃ k, byteLen (ch :: seg) = k + 1 := ⟨utf8Len ch + byteLen seg - 1, by simp; omega⟩
    have hk' : k + 1 = utf8Len ch + byteLen seg := by rw [← hk]; simp
    simp only [List.cons_append, hk, toPos]
    have hnot : ¬ (k + 1 < utf8Len ch) := by omega
    simp only [hnot, if_false, cls_other ch _ h1 h2]
    have e : k + 1 - utf8Len ch = byteLen seg := by omega
    rw [e, ih _ (fun c hc => hseg c (by simp [hc]))]
    simp [u16len, Nat.add_assoc]

end LineIndex
end Tg
