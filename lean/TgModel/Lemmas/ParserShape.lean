/-
`ParserShape`: the three grammar-specific facts about parser output
(root is a `SourceFile` node; a `BangOperator` node begins with a bang-operator token; no node
opened after the leading trivia begins with a trivia token).

Method: a tiny abstract interpreter `absStep` over `Prog` tracks the nodes and checkpoints a
program has opened (`Item`s); it is sound w.r.t. `exec` for the relation `Rel` between the abstract
stack and the builder, which also carries the cleanliness of everything built so far.  All grammar
functions pass the check by kernel evaluation.
-/
import TgModel.Lemmas.ShapeTree
import TgModel.Lemmas.GrammarEof

namespace Tg
open Tg.Ide

/-! ### `save`, `skip`, `eat` on the builder -/

def isTokenTree : Tree → Bool
  | .token _ _ => true
  | .node _ _ => false

theorem cleanL_of_tokens {l : List Tree} (h : ∀ t ∈ l, isTokenTree t = true) : cleanL l := by
  rw [cleanL_iff]
  intro t ht
  have := h t ht
  cases t with
  | token k txt => simp
  | node k cs => simp [isTokenTree] at this

/-- the token kinds the parser sees: the raw directive kinds are turned into `PreProcessor` / `Error`
by the preprocessor, so "trivia" means the same for the token and for the leaf it becomes -/
def plainK (k : TokenKind) : Prop := k.toSyntax.isTrivia = k.isTrivia

theorem Src.eat_plain (s : Src) : plainK (s.eat).1.kind := by
  unfold Src.eat
  simp only
  split
  · rcases Src.processIf_kind true (s.lexEat).1 (s.lexEat).2 with h | h
    · rw [h]; rfl
    · rw [h.1]; rfl
  · rcases Src.processIf_kind false (s.lexEat).1 (s.lexEat).2 with h | h
    · rw [h]; rfl
    · rw [h.1]; rfl
  · rfl
  · rfl
  · rcases Src.processDefine_kind (s.lexEat).1 (s.lexEat).2 with h | h
    · rw [h]; rfl
    · rw [h.1]; rfl
  · rename_i hk; show plainK (s.lexEat).1.kind; rw [hk]; rfl
  · rename_i h1 h2 h3 h4 h5 h6
    unfold plainK
    generalize (s.lexEat).1.kind = k at *
    cases k <;> first | rfl | (exfalso; simp at h1 h2 h3 h4 h5)

namespace PState

theorem lex_plain (s : PState) : plainK s.lex.cur := by
  simp only [PState.lex]
  exact Src.eat_plain _

theorem init_plain (input : List Char) : plainK (PState.init input).cur := by
  simp only [PState.init]
  exact Src.eat_plain _

theorem save_builder {s s1 : PState} (h : s.save = .ok s1) :
    s1.b = { cur := Tree.token s.cur.toSyntax s.curText :: s.b.cur, parents := s.b.parents } ∧
    s1.cps = s.cps ∧ s1.cur = s.cur ∧ s1.curText = s.curText := by
  unfold PState.save at h
  split at h
  · split at h
    · simp only [Res.ok.injEq] at h
      subst h
      simp [PState.error, PState.pushTok]
    · cases h
  · simp only [Res.ok.injEq] at h
    subst h
    simp [PState.pushTok]

theorem lex_builder (s : PState) : s.lex.b = s.b ∧ s.lex.cps = s.cps := by
  simp [PState.lex]

/-- `skip` pushes only tokens and ends at a non-trivia token -/
theorem skip_spec : ∀ (fuel : Nat) (s s' : PState), PState.skip fuel s = .ok s' →
    s'.cur.isTrivia = false ∧ s'.b.parents = s.b.parents ∧ s'.cps = s.cps ∧
    (∃ tr, s'.b.cur = tr ++ s.b.cur ∧ ∀ t ∈ tr, isTokenTree t = true) ∧ (plainK s.cur → plainK s'.cur)
  | 0, _, _, h => by simp [PState.skip] at h
  | fuel + 1, s, s', h => by
    unfold PState.skip at h
    split at h
    · split at h
      · rename_i s1 hs1
        obtain ⟨hb, hc, _, _⟩ := save_builder hs1
        obtain ⟨h1, h2, h3, ⟨tr, h4, h5⟩, h6⟩ := skip_spec fuel s1.lex s' h
        rw [(lex_builder s1).1] at h2 h4
        rw [(lex_builder s1).2] at h3
        refine ⟨h1, by rw [h2, hb], by rw [h3, hc], ⟨tr ++ [Tree.token s.cur.toSyntax s.curText], ?_, ?_⟩,
          fun _ => h6 (lex_plain s1)⟩
        · rw [h4, hb]; simp
        · intro t ht
          simp only [List.mem_append, List.mem_singleton] at ht
          rcases ht with ht | rfl
          · exact h5 t ht
          · rfl
      · rename_i hne
        exact (hne _ h).elim
    · rename_i hnt
      simp only [Res.ok.injEq] at h
      subst h
      exact ⟨by simpa using hnt, rfl, rfl, ⟨[], by simp, by simp⟩, fun h => h⟩

/-- `eat` pushes the look-ahead token, then only (trivia) tokens, and ends at a non-trivia token -/
theorem eat_spec {s s' : PState} (h : s.eat = .ok s') :
    s'.cur.isTrivia = false ∧ s'.b.parents = s.b.parents ∧ s'.cps = s.cps ∧
    (∃ tr, s'.b.cur = tr ++ Tree.token s.cur.toSyntax s.curText :: s.b.cur ∧ ∀ t ∈ tr, isTokenTree t = true) ∧
    plainK s'.cur := by
  unfold PState.eat at h
  split at h
  · rename_i s1 hs1
    obtain ⟨hb, hc, _, _⟩ := save_builder hs1
    obtain ⟨h1, h2, h3, ⟨tr, h4, h5⟩, h6⟩ := skip_spec _ s1.lex s' h
    rw [(lex_builder s1).1] at h2 h4
    rw [(lex_builder s1).2] at h3
    exact ⟨h1, by rw [h2, hb], by rw [h3, hc], ⟨tr, by rw [h4, hb], h5⟩, h6 (lex_plain s1)⟩
  · rename_i hne
    exact (hne _ h).elim

end PState


/-! ### the relation between the abstract stack and the builder -/

inductive Item where
  | frame (k : SyntaxKind)
  | cp
deriving DecidableEq, Repr

/-- the part of the builder below the program under consideration -/
structure Base where
  parents : List (SyntaxKind × List Tree)
  cur : List Tree
  cps : List (Nat × Nat)

/-- the first token of the oldest child is not trivia -/
def firstClean (ch : List Tree) : Prop := ∀ x, firstTokL ch.reverse = some x → x.isTrivia = false

/-- children (newest first) of a node opened by the program -/
def FrameOK (k : SyntaxKind) (ch : List Tree) : Prop := cleanL ch ∧ okFirst k (firstTokL ch.reverse)

inductive Rel (B : Base) : List Item → List (SyntaxKind × List Tree) → List Tree → List (Nat × Nat) → Prop
  | nil {new : List Tree} : cleanL new → Rel B [] B.parents (new ++ B.cur) B.cps
  | cp {σ : List Item} {ps : List (SyntaxKind × List Tree)} {old added : List Tree} {cps : List (Nat × Nat)} :
      Rel B σ ps old cps → cleanL added → firstClean added →
      Rel B (.cp :: σ) ps (added ++ old) ((ps.length, old.length) :: cps)
  | frame {σ : List Item} {ps : List (SyntaxKind × List Tree)} {sibs ch : List Tree} {cps : List (Nat × Nat)}
      {k : SyntaxKind} :
      Rel B σ ps sibs cps → FrameOK k ch → Rel B (.frame k :: σ) ((k, sibs) :: ps) ch cps

theorem firstClean_nil : firstClean [] := by intro x h; simp at h

theorem firstClean_append {xs ch : List Tree} (hxs : xs ≠ [] → firstClean xs) (hch : firstClean ch) :
    firstClean (xs ++ ch) := by
  intro x hx
  rw [List.reverse_append] at hx
  by_cases hne : ch = []
  · subst hne
    simp only [List.reverse_nil, List.nil_append] at hx
    by_cases hx0 : xs = []
    · subst hx0; simp at hx
    · exact hxs hx0 x hx
  · rw [firstTokL_append_of_ne_nil (by simpa using hne)] at hx
    exact hch x hx

/-- pushing clean trees whose oldest one does not begin with trivia -/
theorem Rel.pushMany {B : Base} {σ : List Item} {ps : List (SyntaxKind × List Tree)} {cur : List Tree}
    {cps : List (Nat × Nat)} (h : Rel B σ ps cur cps) {xs : List Tree} (hc : cleanL xs)
    (hf : xs ≠ [] → firstClean xs) : Rel B σ ps (xs ++ cur) cps := by
  cases h with
  | nil hnew =>
    rw [← List.append_assoc]
    exact Rel.nil (cleanL_append.mpr ⟨hc, hnew⟩)
  | cp hr hadd hfc =>
    rw [← List.append_assoc]
    exact Rel.cp hr (cleanL_append.mpr ⟨hc, hadd⟩) (firstClean_append hf hfc)
  | frame hr hfr =>
    refine Rel.frame hr ⟨cleanL_append.mpr ⟨hc, hfr.1⟩, ?_, ?_⟩
    · exact firstClean_append hf hfr.2.1
    · intro hk
      obtain ⟨x, hx, hxm⟩ := hfr.2.2 hk
      have hne : cur ≠ [] := by
        intro h0; subst h0; simp at hx
      refine ⟨x, ?_, hxm⟩
      rw [List.reverse_append, firstTokL_append_of_ne_nil (by simpa using hne)]
      exact hx

theorem Rel.push {B : Base} {σ : List Item} {ps : List (SyntaxKind × List Tree)} {cur : List Tree}
    {cps : List (Nat × Nat)} (h : Rel B σ ps cur cps) {x : Tree} (hc : x.clean)
    (hf : ∀ y, x.firstTok = some y → y.isTrivia = false) : Rel B σ ps (x :: cur) cps := by
  have := h.pushMany (xs := [x]) (by simp [hc]) (fun _ y hy => hf y (by simpa using hy))
  simpa using this

/-- what `eat` pushes: a non-trivia token, then tokens -/
theorem Rel.pushEat {B : Base} {σ : List Item} {ps : List (SyntaxKind × List Tree)} {cur : List Tree}
    {cps : List (Nat × Nat)} (h : Rel B σ ps cur cps) {k : SyntaxKind} {txt : List Char}
    (hk : k.isTrivia = false) {tr : List Tree} (htr : ∀ t ∈ tr, isTokenTree t = true) :
    Rel B σ ps (tr ++ Tree.token k txt :: cur) cps := by
  have := h.pushMany (xs := tr ++ [Tree.token k txt])
    (cleanL_append.mpr ⟨cleanL_of_tokens htr, by simp⟩)
    (fun _ y hy => by
      rw [List.reverse_append] at hy
      simp only [List.reverse_cons, List.reverse_nil, List.nil_append, List.singleton_append,
        firstTokL_cons, Tree.firstTok_token, Option.some.injEq] at hy
      subst hy; exact hk)
  simpa [List.append_assoc] using this


/-! ### the state invariant and the primitives -/

structure SInv (B : Base) (σ : List Item) (s : PState) : Prop where
  nt : s.cur.isTrivia = false
  plain : plainK s.cur
  rel : Rel B σ s.b.parents s.b.cur s.cps

namespace SInv
variable {B : Base} {σ : List Item} {s s' : PState}

theorem eat (h : SInv B σ s) (he : s.eat = .ok s') : SInv B σ s' := by
  obtain ⟨h1, h2, h3, ⟨tr, h4, h5⟩, h6⟩ := PState.eat_spec he
  refine ⟨h1, h6, ?_⟩
  rw [h2, h3, h4]
  exact h.rel.pushEat (by rw [h.plain]; exact h.nt) h5

theorem error (h : SInv B σ s) (msg : String) : SInv B σ (s.error msg) := ⟨h.nt, h.plain, h.rel⟩

theorem startNode (h : SInv B σ s) {k : SyntaxKind} (hk : k ≠ .BangOperator) :
    SInv B (.frame k :: σ) (s.startNode k) := by
  refine ⟨h.nt, h.plain, ?_⟩
  simp only [PState.startNode]
  exact Rel.frame h.rel ⟨by simp, by intro x hx; simp at hx, fun hk' => absurd hk' hk⟩

theorem finishNode {k : SyntaxKind} (h : SInv B (.frame k :: σ) s) (hf : s.finishNode = .ok s') : SInv B σ s' := by
  have hrel := h.rel
  unfold PState.finishNode at hf
  generalize hps : s.b.parents = ps at hrel hf
  generalize hcur : s.b.cur = cur at hrel hf
  cases hrel with
  | frame hr hfr =>
    simp only [Res.ok.injEq] at hf
    subst hf
    refine ⟨h.nt, h.plain, ?_⟩
    simp only [hcur]
    refine hr.push ?_ ?_
    · simp only [Tree.clean_node]
      exact ⟨hfr.2, cleanL_reverse.mpr hfr.1⟩
    · intro y hy
      simp only [Tree.firstTok_node] at hy
      exact hfr.2.1 y hy

theorem pushCp (h : SInv B σ s) :
    SInv B (.cp :: σ) { s with cps := (s.b.parents.length, s.b.cur.length) :: s.cps } := by
  refine ⟨h.nt, h.plain, ?_⟩
  have := Rel.cp (added := []) h.rel (by simp) firstClean_nil
  simpa using this

theorem popCp (h : SInv B (.cp :: σ) s) : SInv B σ { s with cps := s.cps.tail } := by
  have hrel := h.rel
  refine ⟨h.nt, h.plain, ?_⟩
  generalize hcps : s.cps = cps at hrel
  generalize hcur : s.b.cur = cur at hrel
  cases hrel with
  | cp hr hadd hfc =>
    simp only [hcps, List.tail_cons, hcur]
    exact hr.pushMany hadd (fun _ => hfc)

/-- `start_node_at(checkpoint)`: wraps exactly what was pushed since the checkpoint -/
theorem startNodeAtCp {k : SyntaxKind} (h : SInv B (.cp :: σ) s) (hk : k ≠ .BangOperator) {cp : Nat × Nat}
    {rest : List (Nat × Nat)} (hcps : s.cps = cp :: rest) (hs : s.startNodeAt cp k = .ok s') :
    SInv B (.frame k :: .cp :: σ) s' := by
  have hrel := h.rel
  generalize hps : s.b.parents = ps at hrel
  generalize hcur : s.b.cur = cur at hrel
  rw [hcps] at hrel
  cases hrel with
  | @cp _ _ old added _ hr hadd hfc =>
    unfold PState.startNodeAt at hs
    simp only [hps, bne_self_eq_false, Bool.false_eq_true, if_false, hcur, List.length_append] at hs
    have : ¬ (old.length > added.length + old.length) := by omega
    simp only [this, if_false, Res.ok.injEq] at hs
    subst hs
    refine ⟨h.nt, h.plain, ?_⟩
    have hn : added.length + old.length - old.length = added.length := by omega
    simp only [hn, List.take_left', List.drop_left', hcps]
    refine Rel.frame ?_ ⟨hadd, hfc, fun hk' => absurd hk' hk⟩
    have := Rel.cp (added := []) hr (by simp) firstClean_nil
    simpa using this

end SInv


/-! ### the abstract interpreter -/

def isBangCall : Prog → Bool
  | .call .bang_operator => true
  | _ => false

def subsetK (a b : List TokenKind) : Bool := a.all b.contains

/-- both branches must leave the same abstract stack -/
def joinAbs : Option (List Item) → Option (List Item) → Option (List Item)
  | some a, some b => if a = b then some a else none
  | _, _ => none

/-- abstract execution: which nodes / checkpoints are open after `p`, `none` = rejected.
Rejected are: closing a node or using a checkpoint the program did not open itself, branches that
disagree, loops that change the stack, opening a `BangOperator` node, and calling `bang_operator`
anywhere except directly under a test for a bang-operator token. -/
def absStep : Prog → List Item → Option (List Item)
  | .nop, σ => some σ
  | .startNode k, σ => if k = .BangOperator then none else some (.frame k :: σ)
  | .finishNode, σ => match σ with | .frame _ :: σ' => some σ' | _ => none
  | .pushCp, σ => some (.cp :: σ)
  | .popCp, σ => match σ with | .cp :: σ' => some σ' | _ => none
  | .startNodeAtCp k, σ =>
    match σ with
    | .cp :: σ' => if k = .BangOperator then none else some (.frame k :: .cp :: σ')
    | _ => none
  | .eat, σ => some σ
  | .skip, σ => some σ
  | .eatIf _, σ => some σ
  | .expect _ _, σ => some σ
  | .assertTok _, σ => some σ
  | .error _, σ => some σ
  | .errorAndEat _, σ => some σ
  | .errorAndRecover _, σ => some σ
  | .retB _, σ => some σ
  | .seq a b, σ => (absStep a σ).bind (absStep b)
  | .ifAt ks t e, σ =>
    if isBangCall t then
      (if subsetK ks Tables.bangOps && decide (absStep e σ = some σ) then some σ else none)
    else joinAbs (absStep t σ) (absStep e σ)
  | .ifFlag t e, σ => joinAbs (absStep t σ) (absStep e σ)
  | .loop c b, σ => if decide (absStep c σ = some σ) && decide (absStep b σ = some σ) then some σ else none
  | .call f, σ => if f = .bang_operator then none else some σ
  | .pushLocal, σ => some σ
  | .popLocal, σ => some σ
  | .setLocal, σ => some σ
  | .ifLocal t e, σ => joinAbs (absStep t σ) (absStep e σ)

theorem joinAbs_some {a b : Option (List Item)} {r : List Item} (h : joinAbs a b = some r) : a = some r ∧ b = some r := by
  unfold joinAbs at h
  split at h
  · split at h
    · rename_i heq
      simp only [Option.some.injEq] at h
      subst h
      exact ⟨rfl, by rw [heq]⟩
    · cases h
  · cases h

/-- what follows the operator token in `bang_operator` -/
def bangRest : Prog :=
  Grammar.seqs [Grammar.ifEatIf .Less (.seq (.call .type_) (.expect .Greater none)) .nop,
    Grammar.delimited .LParen .RParen .Comma (.call .value), .finishNode, .retB true]

def bangElse : Prog := Grammar.seqs [.errorAndRecover "expected bang operator", .finishNode, .retB false]

theorem defs_bang : Grammar.defs .bang_operator =
    .seq (.startNode .BangOperator) (.ifAt Tables.bangOps (.seq .eat bangRest) bangElse) := rfl

theorem bangOps_toSyntax : ∀ k ∈ Tables.bangOps, k.toSyntax ∈ bangKinds := by decide

/-- every grammar function passes the check (kernel evaluation) -/
theorem defs_checked : ∀ f ∈ Fn.all, f = .bang_operator ∨ absStep (Grammar.defs f) [] = some [] := by
  decide +kernel

theorem bangRest_checked : absStep bangRest [.frame .BangOperator] = some [] := by decide +kernel

theorem Fn.mem_all (f : Fn) : f ∈ Fn.all := by cases f <;> decide


/-! ### soundness of the abstract interpreter -/

theorem PState.skip_of_nt {fuel : Nat} {s s' : PState} (hnt : s.cur.isTrivia = false)
    (h : PState.skip fuel s = .ok s') : s' = s := by
  cases fuel with
  | zero => simp [PState.skip] at h
  | succ n =>
    unfold PState.skip at h
    simp only [hnt, Bool.false_eq_true, if_false, Res.ok.injEq] at h
    exact h.symm

namespace SInv
variable {B : Base} {σ : List Item} {s s' : PState}

theorem setFlag (h : SInv B σ s) (b : Bool) : SInv B σ { s with flag := b } := ⟨h.nt, h.plain, h.rel⟩
theorem setLocals (h : SInv B σ s) (l : List Bool) : SInv B σ { s with locals := l } := ⟨h.nt, h.plain, h.rel⟩

/-- `start_node(Error); eat; finish_node` -/
theorem errorNode (h : SInv B σ s) (msg : String) {s1 s2 : PState}
    (he : ((s.error msg).startNode .Error).eat = .ok s1) (hf : s1.finishNode = .ok s2) : SInv B σ s2 :=
  (((h.error msg).startNode (k := .Error) (by decide)).eat he).finishNode hf

end SInv

theorem isBangCall_eq {t : Prog} (h : isBangCall t = true) : t = .call .bang_operator := by
  unfold isBangCall at h
  split at h
  · rfl
  · cases h

theorem subsetK_mem {a b : List TokenKind} (h : subsetK a b = true) {k : TokenKind} (hk : a.contains k = true) :
    k ∈ b := by
  simp only [subsetK, List.all_eq_true] at h
  have := h k (by simpa using hk)
  simpa using this

/-- **soundness**: a program accepted by `absStep` keeps the builder invariant -/
theorem absStep_sound (B : Base) (rc : List TokenKind) :
    ∀ (fuel : Nat) (p : Prog) (σ σ' τ : List Item) (s s' : PState), absStep p σ = some σ' →
      SInv B (σ ++ τ) s → exec Grammar.defs rc fuel p s = .ok s' → SInv B (σ' ++ τ) s' := by
  intro fuel
  induction fuel using Nat.strongRecOn with
  | _ fuel ih =>
    intro p σ σ' τ s s' ha hi hx
    cases fuel with
    | zero => simp [exec] at hx
    | succ n =>
      have ihn : ∀ (p : Prog) (σ σ' τ : List Item) (s s' : PState), absStep p σ = some σ' →
          SInv B (σ ++ τ) s → exec Grammar.defs rc n p s = .ok s' → SInv B (σ' ++ τ) s' :=
        fun p σ σ' τ s s' => ih n (Nat.lt_succ_self n) p σ σ' τ s s'
      cases p with
      | nop =>
        simp only [exec, Res.ok.injEq] at hx; subst hx
        simp only [absStep, Option.some.injEq] at ha; subst ha
        exact hi
      | startNode k =>
        simp only [exec, Res.ok.injEq] at hx; subst hx
        simp only [absStep] at ha
        split at ha
        · cases ha
        · rename_i hk
          simp only [Option.some.injEq] at ha; subst ha
          exact hi.startNode hk
      | finishNode =>
        simp only [exec] at hx
        simp only [absStep] at ha
        split at ha
        · simp only [Option.some.injEq] at ha; subst ha
          exact SInv.finishNode hi hx
        · cases ha
      | pushCp =>
        simp only [exec, Res.ok.injEq] at hx; subst hx
        simp only [absStep, Option.some.injEq] at ha; subst ha
        exact hi.pushCp
      | popCp =>
        simp only [exec, Res.ok.injEq] at hx; subst hx
        simp only [absStep] at ha
        split at ha
        · simp only [Option.some.injEq] at ha; subst ha
          exact SInv.popCp hi
        · cases ha
      | startNodeAtCp k =>
        simp only [exec] at hx
        simp only [absStep] at ha
        split at ha
        · split at ha
          · cases ha
          · rename_i hk
            simp only [Option.some.injEq] at ha; subst ha
            split at hx
            · rename_i cp rest hcps
              exact SInv.startNodeAtCp hi hk hcps hx
            · cases hx
        · cases ha
      | eat =>
        simp only [exec] at hx
        simp only [absStep, Option.some.injEq] at ha; subst ha
        exact hi.eat hx
      | skip =>
        simp only [exec] at hx
        simp only [absStep, Option.some.injEq] at ha; subst ha
        rw [PState.skip_of_nt hi.nt hx]
        exact hi
      | eatIf k =>
        simp only [exec] at hx
        simp only [absStep, Option.some.injEq] at ha; subst ha
        split at hx
        · split at hx
          · rename_i s1 he
            simp only [Res.ok.injEq] at hx; subst hx
            exact (hi.eat he).setFlag true
          · rename_i hne; first | exact (hne _ hx).elim | cases hx
        · simp only [Res.ok.injEq] at hx; subst hx
          exact hi.setFlag false
      | expect k msg =>
        simp only [exec] at hx
        simp only [absStep, Option.some.injEq] at ha; subst ha
        split at hx
        · exact hi.eat hx
        · split at hx
          · simp only [Res.ok.injEq] at hx; subst hx; exact hi
          · simp only [Res.ok.injEq] at hx; subst hx; exact hi.error _
      | assertTok k =>
        simp only [exec] at hx
        simp only [absStep, Option.some.injEq] at ha; subst ha
        split at hx
        · exact hi.eat hx
        · cases hx
      | error msg =>
        simp only [exec, Res.ok.injEq] at hx; subst hx
        simp only [absStep, Option.some.injEq] at ha; subst ha
        exact hi.error _
      | errorAndEat msg =>
        simp only [exec] at hx
        simp only [absStep, Option.some.injEq] at ha; subst ha
        split at hx
        · rename_i s1 he
          exact hi.errorNode msg he hx
        · rename_i hne; first | exact (hne _ hx).elim | cases hx
      | errorAndRecover msg =>
        simp only [exec] at hx
        simp only [absStep, Option.some.injEq] at ha; subst ha
        split at hx
        · split at hx
          · rename_i s2 he
            exact hi.errorNode msg he hx
          · rename_i hne; first | exact (hne _ hx).elim | cases hx
        · simp only [Res.ok.injEq] at hx; subst hx; exact hi.error _
      | retB b =>
        simp only [exec, Res.ok.injEq] at hx; subst hx
        simp only [absStep, Option.some.injEq] at ha; subst ha
        exact hi.setFlag b
      | seq a b =>
        simp only [exec] at hx
        simp only [absStep, Option.bind_eq_some_iff] at ha
        obtain ⟨σ1, ha1, ha2⟩ := ha
        split at hx
        · rename_i s1 h1
          exact ihn b σ1 σ' τ s1 s' ha2 (ihn a σ σ1 τ s s1 ha1 hi h1) hx
        · rename_i hne; first | exact (hne _ hx).elim | cases hx
      | ifAt ks t e =>
        simp only [exec] at hx
        simp only [absStep] at ha
        split at ha
        · rename_i hbang
          split at ha
          · rename_i hcond
            simp only [Option.some.injEq] at ha; subst ha
            simp only [Bool.and_eq_true, decide_eq_true_eq] at hcond
            split at hx
            · rename_i hcur
              -- the call of `bang_operator` at a bang-operator token
              have hmem : s.cur ∈ Tables.bangOps := subsetK_mem hcond.1 hcur
              rw [isBangCall_eq hbang] at hx
              -- unfold `call`, `seq`, `startNode`, `ifAt`, `seq`, `eat`
              cases n with
              | zero => simp [exec] at hx
              | succ n1 =>
                simp only [exec, defs_bang] at hx
                cases n1 with
                | zero => simp [exec] at hx
                | succ n2 =>
                  simp only [exec] at hx
                  cases n2 with
                  | zero => simp [exec] at hx
                  | succ n3 =>
                    simp only [exec] at hx
                    have hc1 : Tables.bangOps.contains (s.startNode .BangOperator).cur = true := by
                      simpa [PState.startNode] using hmem
                    simp only [hc1, if_true] at hx
                    cases n3 with
                    | zero => simp [exec] at hx
                    | succ n4 =>
                      simp only [exec] at hx
                      cases n4 with
                      | zero => simp [exec] at hx
                      | succ n5 =>
                        simp only [exec] at hx
                        split at hx
                        · rename_i s2 he
                          -- after the operator token: the node is open and begins with it
                          obtain ⟨h1, h2, h3, ⟨tr, h4, h5⟩, h6⟩ := PState.eat_spec he
                          have hi2 : SInv B ([.frame .BangOperator] ++ (σ ++ τ)) s2 := by
                            refine ⟨h1, h6, ?_⟩
                            rw [h2, h3, h4]
                            simp only [PState.startNode, List.singleton_append]
                            refine Rel.frame hi.rel ⟨?_, ?_, ?_⟩
                            · exact cleanL_append.mpr ⟨cleanL_of_tokens h5, by simp⟩
                            · intro x hx'
                              simp only [List.reverse_append, List.reverse_cons, List.reverse_nil, List.nil_append,
                                List.singleton_append, firstTokL_cons, Tree.firstTok_token, Option.some.injEq] at hx'
                              subst hx'
                              rw [hi.plain]; exact hi.nt
                            · intro _
                              refine ⟨s.cur.toSyntax, ?_, bangOps_toSyntax _ hmem⟩
                              simp
                          have := ih (n5 + 1) (by omega) bangRest [.frame .BangOperator] [] (σ ++ τ) s2 s'
                            bangRest_checked hi2 hx
                          simpa using this
                        · rename_i hne; first | exact (hne _ hx).elim | cases hx
            · exact ihn e σ σ τ s s' hcond.2 hi hx
          · cases ha
        · obtain ⟨h1, h2⟩ := joinAbs_some ha
          split at hx
          · exact ihn t σ σ' τ s s' h1 hi hx
          · exact ihn e σ σ' τ s s' h2 hi hx
      | ifFlag t e =>
        simp only [exec] at hx
        simp only [absStep] at ha
        obtain ⟨h1, h2⟩ := joinAbs_some ha
        split at hx
        · exact ihn t σ σ' τ s s' h1 hi hx
        · exact ihn e σ σ' τ s s' h2 hi hx
      | loop c b =>
        simp only [exec] at hx
        simp only [absStep] at ha
        split at ha
        · rename_i hcond
          simp only [Bool.and_eq_true, decide_eq_true_eq] at hcond
          simp only [Option.some.injEq] at ha; subst ha
          split at hx
          · rename_i s1 h1
            have i1 := ihn c σ σ τ s s1 hcond.1 hi h1
            split at hx
            · split at hx
              · rename_i s2 h2
                have i2 := ihn b σ σ τ s1 s2 hcond.2 i1 h2
                have hloop : absStep (.loop c b) σ = some σ := by
                  simp [absStep, hcond.1, hcond.2]
                exact ihn (.loop c b) σ σ τ s2 s' hloop i2 hx
              · rename_i hne; first | exact (hne _ hx).elim | cases hx
            · simp only [Res.ok.injEq] at hx; subst hx; exact i1
          · rename_i hne; first | exact (hne _ hx).elim | cases hx
        · cases ha
      | call f =>
        simp only [exec] at hx
        simp only [absStep] at ha
        split at ha
        · cases ha
        · rename_i hf
          simp only [Option.some.injEq] at ha; subst ha
          have hchk : absStep (Grammar.defs f) [] = some [] := by
            rcases defs_checked f (Fn.mem_all f) with h | h
            · exact absurd h hf
            · exact h
          have := ihn (Grammar.defs f) [] [] (σ ++ τ) s s' hchk (by simpa using hi) hx
          simpa using this
      | pushLocal =>
        simp only [exec, Res.ok.injEq] at hx; subst hx
        simp only [absStep, Option.some.injEq] at ha; subst ha
        exact hi.setLocals _
      | popLocal =>
        simp only [exec, Res.ok.injEq] at hx; subst hx
        simp only [absStep, Option.some.injEq] at ha; subst ha
        exact hi.setLocals _
      | setLocal =>
        simp only [exec, Res.ok.injEq] at hx; subst hx
        simp only [absStep, Option.some.injEq] at ha; subst ha
        exact hi.setLocals _
      | ifLocal t e =>
        simp only [exec] at hx
        simp only [absStep] at ha
        obtain ⟨h1, h2⟩ := joinAbs_some ha
        split at hx
        · exact ihn t σ σ' τ s s' h1 hi hx
        · exact ihn e σ σ' τ s s' h2 hi hx


/-! ### the top level: `source_file` and `statement_list_top` -/

section Inversion
variable {defs : Defs} {rc : List TokenKind}

theorem exec_call {fuel : Nat} {f : Fn} {s s' : PState} (h : exec defs rc fuel (.call f) s = .ok s') :
    ∃ n, fuel = n + 1 ∧ exec defs rc n (defs f) s = .ok s' := by
  cases fuel with
  | zero => simp [exec] at h
  | succ n => exact ⟨n, rfl, by simpa [exec] using h⟩

theorem exec_seq {fuel : Nat} {a b : Prog} {s s' : PState} (h : exec defs rc fuel (.seq a b) s = .ok s') :
    ∃ n s1, fuel = n + 1 ∧ exec defs rc n a s = .ok s1 ∧ exec defs rc n b s1 = .ok s' := by
  cases fuel with
  | zero => simp [exec] at h
  | succ n =>
    simp only [exec] at h
    split at h
    · rename_i s1 h1
      exact ⟨n, s1, rfl, h1, h⟩
    · rename_i hne; first | exact (hne _ h).elim | cases h

theorem exec_startNode {fuel : Nat} {k : SyntaxKind} {s s' : PState}
    (h : exec defs rc fuel (.startNode k) s = .ok s') : s' = s.startNode k := by
  cases fuel with
  | zero => simp [exec] at h
  | succ n => simp only [exec, Res.ok.injEq] at h; exact h.symm

theorem exec_finishNode {fuel : Nat} {s s' : PState}
    (h : exec defs rc fuel .finishNode s = .ok s') : s.finishNode = .ok s' := by
  cases fuel with
  | zero => simp [exec] at h
  | succ n => simpa [exec] using h

theorem exec_skip {fuel : Nat} {s s' : PState}
    (h : exec defs rc fuel .skip s = .ok s') : PState.skip s.skipFuel s = .ok s' := by
  cases fuel with
  | zero => simp [exec] at h
  | succ n => simpa [exec] using h

/-- `if p.at(Eof) {} else { p.error(..) }` does not touch the builder -/
theorem exec_ifAt_nop_error {fuel : Nat} {ks : List TokenKind} {msg : String} {s s' : PState}
    (h : exec defs rc fuel (.ifAt ks .nop (.error msg)) s = .ok s') : s'.b = s.b := by
  cases fuel with
  | zero => simp [exec] at h
  | succ n =>
    simp only [exec] at h
    split at h
    · cases n with
      | zero => simp [exec] at h
      | succ m => simp only [exec, Res.ok.injEq] at h; subst h; rfl
    · cases n with
      | zero => simp [exec] at h
      | succ m => simp only [exec, Res.ok.injEq] at h; subst h; rfl

end Inversion

theorem finishNode_builder {s s' : PState} {k : SyntaxKind} {sibs : List Tree}
    {ps : List (SyntaxKind × List Tree)} (hp : s.b.parents = (k, sibs) :: ps) (h : s.finishNode = .ok s') :
    s'.b = { cur := Tree.node k s.b.cur.reverse :: sibs, parents := ps } := by
  unfold PState.finishNode at h
  rw [hp] at h
  simp only [Res.ok.injEq] at h
  subst h
  rfl

theorem whileStatements_checked :
    absStep (Grammar.whileNotAt [] (.call .statement)) [] = some [] := by decide +kernel

theorem defs_source_file : Grammar.defs .source_file =
    .seq (.startNode .SourceFile) (.seq (.call .statement_list_top)
      (.seq (.ifAt [.Eof] .nop (.error "unexpected input at top level")) .finishNode)) := rfl

theorem defs_statement_list_top : Grammar.defs .statement_list_top =
    .seq (.startNode .StatementList) (.seq .skip
      (.seq (Grammar.whileNotAt [] (.call .statement)) .finishNode)) := rfl

/-- the parse tree is a `SourceFile` node, and every node of the kinds the IDE inspects begins
properly -/
theorem parse_good (input : List Char) (r : Grammar.ParseResult) (h : Grammar.parse input = .ok r) :
    ∃ cs, r.tree = .node .SourceFile cs ∧ r.tree.good := by
  unfold Grammar.parse at h
  split at h
  · rename_i s hx
    split at h
    · rename_i t hcur hpar
      simp only [Grammar.ParseOut.ok.injEq] at h
      subst h
      simp only
      -- peel `source_file`
      obtain ⟨n1, _, hx⟩ := exec_call hx
      rw [defs_source_file] at hx
      obtain ⟨n2, s1, _, h1, hx⟩ := exec_seq hx
      have hs1 := exec_startNode h1
      obtain ⟨n3, s4, _, hslt, hx⟩ := exec_seq hx
      obtain ⟨n4, s5, _, hif, hfin2⟩ := exec_seq hx
      -- peel `statement_list_top`
      obtain ⟨n5, _, hslt⟩ := exec_call hslt
      rw [defs_statement_list_top] at hslt
      obtain ⟨n6, s2, _, h2, hslt⟩ := exec_seq hslt
      have hs2 := exec_startNode h2
      obtain ⟨n7, s3, _, hskip, hslt⟩ := exec_seq hslt
      obtain ⟨n8, s3', _, hloop, hfin1⟩ := exec_seq hslt
      -- the state after the leading trivia
      obtain ⟨hnt, hp3, hc3, ⟨tr, hcur3, htr⟩, hpl⟩ := PState.skip_spec _ _ _ (exec_skip hskip)
      have hb0 : (PState.init input).b = {} := by simp [PState.init]
      have hpar2 : s2.b.parents = [(.StatementList, []), (.SourceFile, [])] := by
        rw [hs2, hs1]; simp [PState.startNode, hb0]
      have hcur2 : s2.b.cur = [] := by rw [hs2]; simp [PState.startNode]
      have hplain3 : plainK s3.cur := by
        apply hpl
        rw [hs2, hs1]
        simpa [PState.startNode] using PState.init_plain input
      let B : Base := ⟨s3.b.parents, s3.b.cur, s3.cps⟩
      have hi3 : SInv B ([] ++ []) s3 := ⟨hnt, hplain3, by simpa using Rel.nil (B := B) (new := []) (by simp)⟩
      have hi3' := absStep_sound B _ _ _ [] [] [] s3 s3' whileStatements_checked hi3 hloop
      -- read the builder off the relation
      have hrel := hi3'.rel
      simp only [List.append_nil] at hrel
      generalize hps' : s3'.b.parents = ps' at hrel
      generalize hcur' : s3'.b.cur = cur' at hrel
      generalize hcps' : s3'.cps = cps' at hrel
      cases hrel with
      | @nil new hnew =>
        have hpar3' : s3'.b.parents = [(.StatementList, []), (.SourceFile, [])] := by
          rw [hps']; show s3.b.parents = _; rw [hp3, hpar2]
        have hb4 := finishNode_builder hpar3' (exec_finishNode hfin1)
        have hb5 : s5.b = s4.b := exec_ifAt_nop_error hif
        have hpar5 : s5.b.parents = [(.SourceFile, [])] := by rw [hb5, hb4]
        have hb6 := finishNode_builder hpar5 (exec_finishNode hfin2)
        rw [hb6] at hcur
        simp only [List.cons.injEq, and_true] at hcur
        subst hcur
        refine ⟨_, rfl, ?_⟩
        rw [hb5, hb4]
        simp only [List.reverse_cons, List.reverse_nil, List.nil_append, Tree.good_node, goodL_cons, goodL_nil,
          and_true]
        have hsf : SyntaxKind.SourceFile ∉ shapeKinds := by decide
        have hsl : SyntaxKind.StatementList ∉ shapeKinds := by decide
        refine ⟨fun hm => absurd hm hsf, fun hm => absurd hm hsl, ?_⟩
        rw [hcur']
        show goodL (new ++ s3.b.cur).reverse
        rw [hcur3, hcur2]
        apply cleanL_goodL
        rw [cleanL_reverse]
        exact cleanL_append.mpr ⟨hnew, cleanL_append.mpr ⟨cleanL_of_tokens htr, by simp⟩⟩
    · cases h
  · cases h
  · cases h

/-- **the grammar facts hold for every parser output** -/
theorem parserShape : ParserShape := by
  intro input r h
  obtain ⟨cs, hcs, hg⟩ := parse_good input r h
  rw [hcs] at hg ⊢
  exact treeShape_of_good rfl hg

end Tg
