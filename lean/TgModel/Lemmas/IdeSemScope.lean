/-
Scope-stack discipline of the indexer: the relations "the scope stack is unchanged" (`SEq`) and
"unchanged except for new variables in the innermost scope" (`SExt`), Hoare triples for the
push … pop blocks, and the balance of every block construct.
-/
import TgModel.Lemmas.IdeSemKeepsB
namespace Tg
namespace Ide

/-! ### scope-stack relations -/

/-- the scope stack is exactly as before -/
def SEq (c c' : IndexCtx) : Prop := c'.scopes = c.scopes

/-- the scope stack is as before except that the innermost scope that is not a defset scope may have
got more variables (what a statement list does to the block it runs in: `defvar`; a defset opens
no scope of its own for them) -/
def ScopesExtL : List Scope → List Scope → Prop
  | [], [] => True
  | h :: t, h' :: t' =>
    if Scopes.isDefsetKind h.kind then h' = h ∧ ScopesExtL t t' else h'.kind = h.kind ∧ t' = t
  | _, _ => False

def ScopesExt (s s' : Scopes) : Prop := ScopesExtL s.scopes s'.scopes

def SExt (c c' : IndexCtx) : Prop := ScopesExt c.scopes c'.scopes

theorem ScopesExtL.refl (l : List Scope) : ScopesExtL l l := by
  induction l with
  | nil => trivial
  | cons h t ih =>
    unfold ScopesExtL
    split
    · exact ⟨rfl, ih⟩
    · exact ⟨rfl, rfl⟩

theorem ScopesExtL.trans {a b c : List Scope} (h1 : ScopesExtL a b) (h2 : ScopesExtL b c) : ScopesExtL a c := by
  induction a generalizing b c with
  | nil =>
    cases b with
    | nil => exact h2
    | cons _ _ => cases h1
  | cons x t ih =>
    cases b with
    | nil => cases h1
    | cons y u =>
      cases c with
      | nil => cases h2
      | cons z v =>
        unfold ScopesExtL at h1 h2 ⊢
        by_cases hk : Scopes.isDefsetKind x.kind = true
        · simp only [hk, if_true] at h1 ⊢
          obtain ⟨rfl, h1'⟩ := h1
          simp only [hk, if_true] at h2
          exact ⟨h2.1, ih h1' h2.2⟩
        · simp only [hk] at h1 ⊢
          obtain ⟨hyk, rfl⟩ := h1
          rw [hyk] at h2
          simp only [hk] at h2
          exact ⟨h2.1, h2.2⟩

theorem ScopesExt.refl (s : Scopes) : ScopesExt s s := ScopesExtL.refl _

theorem ScopesExt.trans {a b c : Scopes} (h1 : ScopesExt a b) (h2 : ScopesExt b c) : ScopesExt a c :=
  ScopesExtL.trans h1 h2

instance : StdRel SEq where
  refl := fun _ => rfl
  trans := fun h1 h2 => Eq.trans h2 h1
  of_eq := fun _ _ _ _ h => h
  sm := fun _ _ _ => rfl

instance : StdRel SExt where
  refl := fun c => ScopesExt.refl c.scopes
  trans := fun h1 h2 => ScopesExt.trans h1 h2
  of_eq := fun c c' _ _ h => by unfold SExt; rw [h]; exact ScopesExt.refl _
  sm := fun c _ _ => ScopesExt.refl c.scopes

theorem SEq.toSExt {c c' : IndexCtx} (h : SEq c c') : SExt c c' := by
  unfold SExt; rw [h]; exact ScopesExt.refl _

theorem Keeps.toSExt {α : Type} {m : IxM α} (h : Keeps SEq m) : Keeps SExt m :=
  Keeps.mono (fun _ _ => SEq.toSExt) h

theorem insertVariableGo_ext {l l' : List Scope} {name : String} {id : Nat}
    (h : Scopes.insertVariableGo name id l = some l') : ScopesExtL l l' := by
  induction l generalizing l' with
  | nil => cases h
  | cons sc rest ih =>
    unfold Scopes.insertVariableGo at h
    split at h
    · rename_i hk
      cases hr : Scopes.insertVariableGo name id rest with
      | none => rw [hr] at h; cases h
      | some r =>
        rw [hr] at h
        simp only [Option.map_some, Option.some.injEq] at h
        subst h
        unfold ScopesExtL
        simp only [hk, if_true]
        exact ⟨trivial, ih hr⟩
    · rename_i hk
      cases h
      unfold ScopesExtL
      simp only [hk]
      exact ⟨trivial, trivial⟩

theorem insertVariable_ext {s s' : Scopes} {name : String} {id : Nat}
    (h : s.insertVariable name id = some s') : ScopesExt s s' := by
  unfold Scopes.insertVariable at h
  cases hg : Scopes.insertVariableGo name id s.scopes with
  | none => rw [hg] at h; cases h
  | some l =>
    rw [hg] at h
    cases h
    exact insertVariableGo_ext hg

theorem IxM.run_modifyGet {α : Type} (f : IndexCtx → α × IndexCtx) (c : IndexCtx) :
    (modifyGet f : IxM α).run c = .ok (f c) := rfl

theorem IxM.run_modify (f : IndexCtx → IndexCtx) (c : IndexCtx) :
    (modify f : IxM Unit).run c = .ok ((), f c) := rfl

theorem IxM.run_get (c : IndexCtx) : (get : IxM IndexCtx).run c = .ok (c, c) := rfl

theorem IxM.run_panic {α : Type} (msg : String) (c : IndexCtx) : (panic msg : IxM α).run c = .error msg := rfl

theorem Except.ok_bind {ε α β : Type} (a : α) (f : α → Except ε β) : (Except.ok a >>= f) = f a := rfl

theorem scopesAddVariable_run (v : Variable) (c c' : IndexCtx) (a : Unit)
    (h : (scopesAddVariable v).run c = .ok (a, c')) :
    ∃ s', c.scopes.insertVariable v.name (c.symbolMap.addVariable v).1 = some s' ∧ c'.scopes = s' := by
  unfold scopesAddVariable addVariable modifySM at h
  simp only [StateT.run_bind, IxM.run_modifyGet, Except.ok_bind] at h
  cases hi : c.scopes.insertVariable v.name (c.symbolMap.addVariable v).1 with
  | none =>
    simp only [hi] at h
    cases h
  | some s =>
    simp only [hi] at h
    cases h
    exact ⟨s, rfl, rfl⟩

instance : VarRel SExt where
  addVariable := fun v => ⟨fun c a c' h => by
    obtain ⟨s', h1, h2⟩ := scopesAddVariable_run v c c' a h
    unfold SExt
    rw [h2]
    exact insertVariable_ext h1⟩

/-! ### Hoare triples over successful runs -/

/-- if `P` holds before a successful run of `m`, `Q` holds after it -/
structure Triple {α : Type} (P : IndexCtx → Prop) (m : IxM α) (Q : IndexCtx → Prop) : Prop where
  run : ∀ c a c', P c → m.run c = .ok (a, c') → Q c'

theorem Triple.pure {α : Type} {P : IndexCtx → Prop} (a : α) : Triple P (Pure.pure a : IxM α) P :=
  ⟨fun c a' c' hp h => by simp only [StateT.run_pure] at h; cases h; exact hp⟩

theorem Triple.bind {α β : Type} {P Q S : IndexCtx → Prop} {m : IxM α} {f : α → IxM β}
    (hm : Triple P m Q) (hf : ∀ a, Triple Q (f a) S) : Triple P (m >>= f) S := by
  refine ⟨fun c b c' hp h => ?_⟩
  simp only [StateT.run_bind] at h
  simp only [Bind.bind, Except.bind] at h
  split at h
  · cases h
  · rename_i v hv
    exact (hf v.1).run v.2 b c' (hm.run c v.1 v.2 hp hv) h

theorem Triple.of_keeps {α : Type} {R : IndexCtx → IndexCtx → Prop} {m : IxM α} (h : Keeps R m)
    {P Q : IndexCtx → Prop} (hpq : ∀ c c', P c → R c c' → Q c') : Triple P m Q :=
  ⟨fun c a c' hp hr => hpq c c' hp (h.run c a c' hr)⟩

/-- the scope stack is `s0` -/
def AtScopes (s0 : Scopes) (c : IndexCtx) : Prop := c.scopes = s0

/-- inside a block pushed on `s0` (not a defset block): the stack is `s0` plus one scope of kind `k`
(with any variables) -/
def InBlock (s0 : Scopes) (k : ScopeKind) (c : IndexCtx) : Prop :=
  Scopes.isDefsetKind k = false ∧ ScopesExt (s0.push k) c.scopes

theorem Triple.seq_at {α : Type} {m : IxM α} (h : Keeps SEq m) (s0 : Scopes) :
    Triple (AtScopes s0) m (AtScopes s0) :=
  Triple.of_keeps h fun c c' hp hr => by unfold AtScopes at *; rw [hr, hp]

theorem Triple.ext_in {α : Type} {m : IxM α} (h : Keeps SExt m) (s0 : Scopes) (k : ScopeKind) :
    Triple (InBlock s0 k) m (InBlock s0 k) :=
  Triple.of_keeps h fun c c' hp hr => ⟨hp.1, ScopesExt.trans hp.2 hr⟩

theorem Triple.seq_in {α : Type} {m : IxM α} (h : Keeps SEq m) (s0 : Scopes) (k : ScopeKind) :
    Triple (InBlock s0 k) m (InBlock s0 k) := Triple.ext_in h.toSExt s0 k

theorem Triple.push (s0 : Scopes) (k : ScopeKind) (hk : Scopes.isDefsetKind k = false) :
    Triple (AtScopes s0) (scopesPush k) (InBlock s0 k) :=
  ⟨fun c a c' hp h => by
    unfold scopesPush at h
    rw [IxM.run_modify] at h
    cases h
    unfold InBlock AtScopes at *
    simp only
    rw [hp]
    exact ⟨hk, ScopesExt.refl _⟩⟩

theorem scopesPop_run_s {c c' : IndexCtx} {a : Unit} (h : scopesPop.run c = .ok (a, c')) :
    ∃ x, c.scopes.scopes = x :: c'.scopes.scopes := by
  unfold scopesPop at h
  simp only [StateT.run_bind, IxM.run_get, Except.ok_bind] at h
  cases hs : c.scopes.scopes with
  | nil =>
    have : c.scopes.pop = none := by unfold Scopes.pop; rw [hs]
    simp only [this] at h
    cases h
  | cons x t =>
    have : c.scopes.pop = some { scopes := t } := by unfold Scopes.pop; rw [hs]
    simp only [this, IxM.run_modify] at h
    cases h
    exact ⟨x, rfl⟩

theorem Triple.pop (s0 : Scopes) (k : ScopeKind) : Triple (InBlock s0 k) scopesPop (AtScopes s0) :=
  ⟨fun c a c' hp h => by
    obtain ⟨x, hx⟩ := scopesPop_run_s h
    obtain ⟨hk, hext⟩ := hp
    unfold ScopesExt at hext
    rw [hx] at hext
    simp only [Scopes.push, ScopesExtL, hk, Bool.false_eq_true, if_false] at hext
    unfold AtScopes
    cases hc : c'.scopes with
    | mk l =>
      rw [hc] at hext
      simp only at hext
      rw [hext.2]⟩

/-! a `defset` block: variables declared inside go to the enclosing scopes -/

/-- the scope stack is `s0` up to declared variables -/
def AtExt (s0 : Scopes) (c : IndexCtx) : Prop := ScopesExt s0 c.scopes

/-- inside the block of a defset opened on (an extension of) `s0` -/
def InDefset (s0 : Scopes) (id : Nat) (c : IndexCtx) : Prop :=
  ∃ s1, ScopesExt s0 s1 ∧ ScopesExt (s1.push (.defset id)) c.scopes

theorem Triple.ext_at {α : Type} {m : IxM α} (h : Keeps SExt m) (s0 : Scopes) :
    Triple (AtExt s0) m (AtExt s0) :=
  Triple.of_keeps h fun c c' hp hr => ScopesExt.trans hp hr

theorem Triple.ext_inDefset {α : Type} {m : IxM α} (h : Keeps SExt m) (s0 : Scopes) (id : Nat) :
    Triple (InDefset s0 id) m (InDefset s0 id) :=
  Triple.of_keeps h fun c c' hp hr => by
    obtain ⟨s1, h1, h2⟩ := hp
    exact ⟨s1, h1, ScopesExt.trans h2 hr⟩

theorem Triple.pushDefset (s0 : Scopes) (id : Nat) :
    Triple (AtExt s0) (scopesPush (.defset id)) (InDefset s0 id) :=
  ⟨fun c a c' hp h => by
    unfold scopesPush at h
    rw [IxM.run_modify] at h
    cases h
    exact ⟨c.scopes, hp, ScopesExt.refl _⟩⟩

theorem Triple.popDefset (s0 : Scopes) (id : Nat) : Triple (InDefset s0 id) scopesPop (AtExt s0) :=
  ⟨fun c a c' hp h => by
    obtain ⟨x, hx⟩ := scopesPop_run_s h
    obtain ⟨s1, h1, h2⟩ := hp
    unfold ScopesExt at h2
    rw [hx] at h2
    simp only [Scopes.push, ScopesExtL, Scopes.isDefsetKind, if_true] at h2
    exact ScopesExt.trans h1 h2.2⟩

theorem keeps_sext_of_triples {α : Type} {m : IxM α} (h : ∀ s0, Triple (AtExt s0) m (AtExt s0)) :
    Keeps SExt m :=
  ⟨fun c a c' hr => (h c.scopes).run c a c' (ScopesExt.refl _) hr⟩

/-- a computation keeps the scope stack iff it does so from every stack -/
theorem keeps_seq_of_triples {α : Type} {m : IxM α} (h : ∀ s0, Triple (AtScopes s0) m (AtScopes s0)) :
    Keeps SEq m :=
  ⟨fun c a c' hr => (h c.scopes).run c a c' rfl hr⟩

/-! ### the block constructs are balanced -/

/-- the re-entrant impls respect the scope discipline: values and types leave the stack as it is,
statement lists may only add variables to the innermost scope -/
structure RecScoped (r : Rec) : Prop where
  value : ∀ n, Keeps SEq (r.value n)
  typ : ∀ n, Keeps SEq (r.typ n)
  statementList : ∀ n, Keeps SExt (r.statementList n)
  sourceFile : ∀ n, Keeps SExt (r.sourceFile n)

variable {r : Rec} (hr : RecScoped r)
include hr

theorem indexIf_balanced (n : PTree) : Keeps SEq (Index.indexIf r n) := by
  apply keeps_seq_of_triples; intro s0
  unfold Index.indexIf
  split
  · refine Triple.bind (Triple.seq_at (hr.value _) s0) fun _ => ?_
    split
    · refine Triple.bind (Triple.push s0 _ rfl) fun _ => ?_
      refine Triple.bind (Triple.ext_in (hr.statementList _) s0 _) fun _ => ?_
      refine Triple.bind (Triple.pop s0 _) fun _ => ?_
      split
      · refine Triple.bind (Triple.push s0 _ rfl) fun _ => ?_
        refine Triple.bind (Triple.ext_in (hr.statementList _) s0 _) fun _ => ?_
        exact Triple.pop s0 _
      · exact Triple.pure _
    · exact Triple.pure _
  · exact Triple.pure _


theorem RecScoped.valueExt (n : PTree) : Keeps SExt (r.value n) := (hr.value n).toSExt
theorem RecScoped.typExt (n : PTree) : Keeps SExt (r.typ n) := (hr.typ n).toSExt

theorem indexLet_balanced (n : PTree) : Keeps SEq (Index.indexLet r n) := by
  apply keeps_seq_of_triples; intro s0
  unfold Index.indexLet
  split
  · refine Triple.bind (Triple.seq_at (Index.indexLetList_keeps hr.value hr.typ _) s0) fun _ => ?_
    split
    · refine Triple.bind (Triple.push s0 _ rfl) fun _ => ?_
      refine Triple.bind (Triple.ext_in (hr.statementList _) s0 _) fun _ => ?_
      exact Triple.pop s0 _
    · exact Triple.pure _
  · exact Triple.pure _

/-- `foreach`: balanced if the `Foreach` node has its body (`StatementList`) child -/
theorem indexForeach_balanced (n : PTree) (hbody : (Ast.foreachBody n).isSome) :
    Keeps SEq (Index.indexForeach r n) := by
  apply keeps_seq_of_triples; intro s0
  unfold Index.indexForeach
  split
  · refine Triple.bind (Triple.seq_at (Index.indexForeachIterator_keeps hr.value hr.typ _) s0) fun _ => ?_
    split
    · refine Triple.bind (Triple.push s0 _ rfl) fun _ => ?_
      split
      · refine Triple.bind (Triple.ext_in (hr.statementList _) s0 _) fun _ => ?_
        exact Triple.pop s0 _
      · rename_i hnone
        cases hb : Ast.foreachBody n with
        | none => rw [hb] at hbody; cases hbody
        | some b => exact absurd hb (hnone b)
    · exact Triple.pure _
  · exact Triple.pure _

/-- `defset`: the defset scope is popped again; variables declared inside the defset stay visible in
the enclosing scope (a defset opens no scope of its own for `defvar`), so the stack is the same up
to declared variables (`SExt`) -/
theorem indexDefset_balanced (n : PTree) : Keeps SExt (Index.indexDefset r n) := by
  apply keeps_sext_of_triples; intro s0
  unfold Index.indexDefset
  split
  · refine Triple.bind (Triple.ext_at (utilsIdentifier_keeps _) s0) fun _ => ?_
    split
    · split
      · refine Triple.bind (Triple.ext_at (hr.typExt _) s0) fun _ => ?_
        split
        · refine Triple.bind (Triple.ext_at (addDefset_keeps _) s0) fun _ => ?_
          refine Triple.bind (Triple.pushDefset s0 _) fun _ => ?_
          dsimp only
          split
          · refine Triple.bind (Triple.ext_inDefset (hr.statementList _) s0 _) fun _ => ?_
            refine Triple.bind (Triple.popDefset s0 _) fun _ => ?_
            exact Triple.ext_at (registerDefsetName_keeps _) s0
          · refine Triple.bind (Triple.popDefset s0 _) fun _ => ?_
            exact Triple.ext_at (registerDefsetName_keeps _) s0
        · exact Triple.pure _
      · exact Triple.pure _
    · exact Triple.pure _
  · exact Triple.pure _

theorem indexClass_balanced (n : PTree) : Keeps SEq (Index.indexClass r n) := by
  apply keeps_seq_of_triples; intro s0
  unfold Index.indexClass
  split
  · refine Triple.bind (Triple.seq_at (utilsIdentifier_keeps _) s0) fun _ => ?_
    split
    · refine Triple.bind (Triple.seq_at (addRecord_keeps _ _ ⟨rfl, rfl⟩) s0) fun _ => ?_
      refine Triple.bind (Triple.push s0 _ rfl) fun _ => ?_
      dsimp only
      have tail : Triple (InBlock s0 (ScopeKind.record ‹Nat›))
          (match Ast.classRecordBody n with
            | some body => do
              let __r ← Index.indexRecordBody r body
              scopesPop
            | _ => scopesPop) (AtScopes s0) := by
        split
        · refine Triple.bind (Triple.ext_in (Index.indexRecordBody_keeps hr.valueExt hr.typExt _) s0 _) fun _ => ?_
          exact Triple.pop s0 _
        · exact Triple.pop s0 _
      split
      · refine Triple.bind (Triple.ext_in (Index.indexTemplateArgList_keeps hr.valueExt hr.typExt _) s0 _) fun _ => ?_
        exact tail
      · exact tail
    · exact Triple.pure _
  · exact Triple.pure _

/-- one step of a triple proof for push … pop code; `s0` is the stack outside -/
macro "triple_step" s0:term : tactic => `(tactic| first
  | with_reducible exact Triple.pure _
  | with_reducible exact Triple.pop $s0 _
  | focus ((with_reducible (refine Triple.bind (Triple.push $s0 _ ?_) fun _ => ?_)); focus rfl)
  | with_reducible (refine Triple.bind (Triple.pop $s0 _) fun _ => ?_)
  | focus (with_reducible (refine Triple.bind (Triple.seq_at ?_ $s0) fun _ => ?_); focus (keeps; done))
  | focus (with_reducible (refine Triple.bind (Triple.ext_in ?_ $s0 _) fun _ => ?_); focus (keeps; done))
  | split
  | focus (with_reducible (refine Triple.seq_at ?_ $s0); focus (keeps; done))
  | focus (with_reducible (refine Triple.ext_in ?_ $s0 _); focus (keeps; done)))

macro "triples" s0:term : tactic => `(tactic| repeat' (triple_step $s0))

theorem indexMultiClass_balanced (n : PTree) : Keeps SEq (Index.indexMultiClass r n) := by
  apply keeps_seq_of_triples; intro s0
  have hv := hr.value; have ht := hr.typ; have hv' := hr.valueExt; have ht' := hr.typExt
  have hsl := hr.statementList
  unfold Index.indexMultiClass
  dsimp only
  triples s0

/-- `def`: balanced if the node has its `RecordBody` child -/
theorem indexDef_balanced (n : PTree) (hbody : (Ast.defRecordBody n).isSome) :
    Keeps SEq (Index.indexDef r n) := by
  apply keeps_seq_of_triples; intro s0
  have hv := hr.value; have ht := hr.typ; have hv' := hr.valueExt; have ht' := hr.typExt
  unfold Index.indexDef
  dsimp only
  triples s0
  all_goals
    rename_i hnone
    cases hb : Ast.defRecordBody n with
    | none => rw [hb] at hbody; cases hbody
    | some b => exact absurd hb (hnone b)

/-- `defm`: balanced if the node has its `ParentClassList` child -/
theorem indexDefm_balanced (n : PTree) (hbody : (Ast.defmParentClassList n).isSome) :
    Keeps SEq (Index.indexDefm r n) := by
  apply keeps_seq_of_triples; intro s0
  have hv := hr.value; have ht := hr.typ; have hv' := hr.valueExt; have ht' := hr.typExt
  unfold Index.indexDefm
  dsimp only
  triples s0
  all_goals
    rename_i hnone
    cases hb : Ast.defmParentClassList n with
    | none => rw [hb] at hbody; cases hbody
    | some b => exact absurd hb (hnone b)

/-- `!foreach(var, sequence, expr)`: the variable's scope ends with the operator -/
theorem xForEach_balanced (n : PTree) : Keeps SEq (Bang.xForEach r n) := by
  apply keeps_seq_of_triples; intro s0
  have hv := hr.value; have ht := hr.typ; have hv' := hr.valueExt; have ht' := hr.typExt
  unfold Bang.xForEach
  triples s0

theorem xFilter_balanced (n : PTree) : Keeps SEq (Bang.xFilter r n) := by
  apply keeps_seq_of_triples; intro s0
  have hv := hr.value; have ht := hr.typ; have hv' := hr.valueExt; have ht' := hr.typExt
  unfold Bang.xFilter
  triples s0

theorem xFoldl_balanced (n : PTree) : Keeps SEq (Bang.xFoldl r n) := by
  apply keeps_seq_of_triples; intro s0
  have hv := hr.value; have ht := hr.typ; have hv' := hr.valueExt; have ht' := hr.typExt
  unfold Bang.xFoldl
  triples s0

end Ide
end Tg
