/-
The declared type of a field / template argument / `defvar` stays what the indexer computed.

* `ArenaKeep`: the three arenas that carry a declared type (`recordFieldList`, `templateArgList`,
  `variableList`) are append-only and no `SymMap` step ever rewrites an entry.  `TypRel` lifts it
  to indexer contexts; every indexer function keeps it (`mkRec_typRel`).
* `indexFieldDef_typ`, `indexTemplateArgDecl_typ`, `indexDefvar_typ`: the entry allocated by the
  declaration stores the `Ty` that `r.typ` (= `indexType`, for `r = Index.mkRec _`) returned on the
  declaration's type node (for `defvar`: that `r.value` returned on the initialiser).
-/
import TgModel.Lemmas.IdeSemFresh

namespace Tg
namespace Ide

/-- entries of the typed arenas are kept -/
def ArenaKeep (sm sm' : SymMap) : Prop :=
  (∀ (i : Nat) x, sm.recordFieldList[i]? = some x → sm'.recordFieldList[i]? = some x) ∧
  (∀ (i : Nat) x, sm.templateArgList[i]? = some x → sm'.templateArgList[i]? = some x) ∧
  (∀ (i : Nat) x, sm.variableList[i]? = some x → sm'.variableList[i]? = some x)

theorem ArenaKeep.refl (sm : SymMap) : ArenaKeep sm sm := ⟨fun _ _ h => h, fun _ _ h => h, fun _ _ h => h⟩

theorem ArenaKeep.trans {a b c : SymMap} (h1 : ArenaKeep a b) (h2 : ArenaKeep b c) : ArenaKeep a c :=
  ⟨fun i x h => h2.1 i x (h1.1 i x h), fun i x h => h2.2.1 i x (h1.2.1 i x h),
    fun i x h => h2.2.2 i x (h1.2.2 i x h)⟩

theorem ArenaKeep.of_eq {sm sm' : SymMap} (h1 : sm'.recordFieldList = sm.recordFieldList)
    (h2 : sm'.templateArgList = sm.templateArgList) (h3 : sm'.variableList = sm.variableList) :
    ArenaKeep sm sm' :=
  ⟨fun _ _ h => by rw [h1]; exact h, fun _ _ h => by rw [h2]; exact h, fun _ _ h => by rw [h3]; exact h⟩

theorem getElem?_push_of_some {α : Type} (as : Array α) (a x : α) (i : Nat) (h : as[i]? = some x) :
    (as.push a)[i]? = some x := by
  have hi : i < as.size := by
    rcases Nat.lt_or_ge i as.size with h' | h'
    · exact h'
    · rw [Array.getElem?_eq_none h'] at h; cases h
  rw [Array.getElem?_push_lt hi]
  rw [Array.getElem?_eq_getElem hi] at h
  exact h

theorem pushFileSymbol_arenas (sm : SymMap) (file : Nat) (s : SymbolId) :
    (sm.pushFileSymbol file s).recordFieldList = sm.recordFieldList ∧
    (sm.pushFileSymbol file s).templateArgList = sm.templateArgList ∧
    (sm.pushFileSymbol file s).variableList = sm.variableList := by
  unfold SymMap.pushFileSymbol
  split <;> exact ⟨rfl, rfl, rfl⟩

theorem SmStep.arenaKeep {sm sm' : SymMap} (h : SmStep sm sm') : ArenaKeep sm sm' := by
  cases h with
  | addRecord r g =>
    apply ArenaKeep.of_eq <;> (unfold SymMap.addRecord; simp only; split <;> split <;>
      simp [pushFileSymbol_arenas, SymMap.logDefine])
  | addAnonymousDef r => apply ArenaKeep.of_eq <;> simp [SymMap.addAnonymousDef, SymMap.logDefine]
  | addMulticlassDef r =>
    apply ArenaKeep.of_eq <;> simp [SymMap.addMulticlassDef, SymMap.logDefine, pushFileSymbol_arenas]
  | registerDefsetName id => apply ArenaKeep.of_eq <;> simp [SymMap.registerDefsetName]
  | addTemplateArgument a =>
    refine ⟨fun _ _ h => h, fun i x h => ?_, fun _ _ h => h⟩
    exact getElem?_push_of_some _ _ _ _ h
  | addRecordField f =>
    refine ⟨fun i x h => ?_, fun _ _ h => h, fun _ _ h => h⟩
    exact getElem?_push_of_some _ _ _ _ h
  | addVariable v =>
    unfold SymMap.addVariable
    refine ⟨fun _ _ h => ?_, fun _ _ h => ?_, fun i x h => ?_⟩
    · simpa [pushFileSymbol_arenas, SymMap.logDefine] using h
    · simpa [pushFileSymbol_arenas, SymMap.logDefine] using h
    · simp only [pushFileSymbol_arenas, SymMap.logDefine]
      exact getElem?_push_of_some _ _ _ _ h
  | addDefset d => apply ArenaKeep.of_eq <;> simp [SymMap.addDefset, SymMap.logDefine, pushFileSymbol_arenas]
  | addMulticlass m => apply ArenaKeep.of_eq <;> simp [SymMap.addMulticlass, SymMap.logDefine, pushFileSymbol_arenas]
  | addDefm d g =>
    apply ArenaKeep.of_eq <;> (unfold SymMap.addDefm; simp only; split <;>
      simp [pushFileSymbol_arenas, SymMap.logDefine])
  | addAnonymousDefm d => apply ArenaKeep.of_eq <;> simp [SymMap.addAnonymousDefm, SymMap.logDefine]
  | addReference s loc => exact ArenaKeep.of_eq rfl rfl rfl
  | recordMut id f hf => exact ArenaKeep.of_eq rfl rfl rfl
  | multiclassMut id f hf => exact ArenaKeep.of_eq rfl rfl rfl
  | defmMut id f hf => exact ArenaKeep.of_eq rfl rfl rfl
  | defsetMut id f hf => exact ArenaKeep.of_eq rfl rfl rfl

/-- the typed arenas of `c` survive in `c'` -/
def TypRel (c c' : IndexCtx) : Prop := ArenaKeep c.symbolMap c'.symbolMap

instance : StdRel TypRel where
  refl := fun c => ArenaKeep.refl _
  trans := fun h1 h2 => h1.trans h2
  of_eq := fun c c' _ h1 _ => by unfold TypRel; rw [h1]; exact ArenaKeep.refl _
  sm := fun _ _ hs => hs.arenaKeep

instance : NoScopeRel TypRel where
  scopes := fun _ _ _ h => h

instance : VarRel TypRel where
  addVariable := fun v => by
    unfold scopesAddVariable
    keeps
    refine Keeps.modifyGet _ fun c => ?_
    split <;> exact ArenaKeep.refl _

/-- every indexer function only appends to the typed arenas -/
theorem mkRec_typRel (fuel : Nat) :
    (∀ n, Keeps TypRel ((Index.mkRec fuel).value n)) ∧ (∀ n, Keeps TypRel ((Index.mkRec fuel).typ n)) ∧
    (∀ n, Keeps TypRel ((Index.mkRec fuel).statementList n)) ∧
    (∀ n, Keeps TypRel ((Index.mkRec fuel).sourceFile n)) := mkRec_keeps fuel

/-! ### what the typed declarations store -/

theorem modifySM_run' {α : Type} (g : SymMap → α × SymMap) (c : IndexCtx) :
    (modifySM g).run c = .ok ((g c.symbolMap).1, { c with symbolMap := (g c.symbolMap).2 }) := rfl

theorem getElem!_of_getElem? {α : Type} [Inhabited α] (as : Array α) (i : Nat) (x : α) (h : as[i]? = some x) :
    as[i]! = x := by
  simp [getElem!_def, h]

section decl
variable {r : Rec} (hv : ∀ n, Keeps TypRel (r.value n))
include hv

/-- what `indexFieldDef` stores: unless the declaration is incomplete (no name / no type node / the
type does not resolve), the field entry it allocates carries the `Ty` that `r.typ` returned on the
declaration's type node, and that entry is still there when `indexFieldDef` returns -/
theorem indexFieldDef_typ (n : PTree) (c c' : IndexCtx) (h : (Index.indexFieldDef r n).run c = .ok ((), c')) :
    (Ast.fieldDefName n = none ∨ Ast.fieldDefType n = none ∨
      (∃ nameNode c1, Ast.fieldDefName n = some nameNode ∧ (utilsIdentifier nameNode).run c = .ok (none, c1)) ∨
      (∃ typNode c1 c2, Ast.fieldDefType n = some typNode ∧ (r.typ typNode).run c1 = .ok (none, c2))) ∨
    ∃ nameNode name loc typNode typ c1 c2 fld,
      Ast.fieldDefName n = some nameNode ∧ (utilsIdentifier nameNode).run c = .ok (some (name, loc), c1) ∧
      Ast.fieldDefType n = some typNode ∧ (r.typ typNode).run c1 = .ok (some typ, c2) ∧
      c'.symbolMap.recordFieldList[c2.symbolMap.recordFieldList.size]? = some fld ∧
      fld.name = name ∧ fld.typ = typ ∧ fld.defineLoc = loc := by
  unfold Index.indexFieldDef at h
  obtain ⟨x0, c0, h0, h⟩ := IxM.run_bind_ok h
  have : c0 = c := by
    unfold currentRecordId at h0
    simp only [bind_pure_comp, StateT.run_map, IxM.run_get] at h0
    cases h0; rfl
  subst this
  cases x0 with
  | none => exact absurd h (by simp [panic, StateT.run, throw, throwThe, MonadExceptOf.throw, StateT.lift, bind, Except.bind])
  | some recordId =>
  simp only at h
  cases hname : Ast.fieldDefName n with
  | none => exact Or.inl (Or.inl rfl)
  | some nameNode =>
  rw [hname] at h
  simp only at h
  obtain ⟨x1, c1, h1, h⟩ := IxM.run_bind_ok h
  cases x1 with
  | none => exact Or.inl (Or.inr (Or.inr (Or.inl ⟨nameNode, c1, rfl, h1⟩)))
  | some nl =>
  obtain ⟨name, loc⟩ := nl
  simp only at h
  cases htn : Ast.fieldDefType n with
  | none => exact Or.inl (Or.inr (Or.inl rfl))
  | some typNode =>
  rw [htn] at h
  simp only at h
  obtain ⟨x2, c2, h2, h⟩ := IxM.run_bind_ok h
  cases x2 with
  | none => exact Or.inl (Or.inr (Or.inr (Or.inr ⟨typNode, c1, c2, rfl, h2⟩)))
  | some typ =>
  simp only at h
  obtain ⟨x3, c3, h3, h⟩ := IxM.run_bind_ok h
  unfold addRecordField at h3
  rw [modifySM_run'] at h3
  cases h3
  have hk : TypRel _ c' := (?_ : Keeps TypRel _).run _ _ _ h
  · right
    refine ⟨nameNode, name, loc, typNode, typ, c1, c2,
      { name := name, typ := typ, parent := recordId, defineLoc := loc }, rfl, h1, rfl, h2,
      hk.1 _ _ ?_, rfl, rfl, rfl⟩
    simp [SymMap.addRecordField, SymMap.logDefine]
  · keeps

/-- the same for `TemplateArgDecl` -/
theorem indexTemplateArgDecl_typ (n : PTree) (c c' : IndexCtx)
    (h : (Index.indexTemplateArgDecl r n).run c = .ok ((), c')) :
    (Ast.templateArgDeclName n = none ∨ Ast.templateArgDeclType n = none ∨
      (∃ nameNode c1, Ast.templateArgDeclName n = some nameNode ∧ (utilsIdentifier nameNode).run c = .ok (none, c1)) ∨
      (∃ typNode c1 c2, Ast.templateArgDeclType n = some typNode ∧ (r.typ typNode).run c1 = .ok (none, c2))) ∨
    ∃ nameNode name loc typNode typ c1 c2 arg,
      Ast.templateArgDeclName n = some nameNode ∧ (utilsIdentifier nameNode).run c = .ok (some (name, loc), c1) ∧
      Ast.templateArgDeclType n = some typNode ∧ (r.typ typNode).run c1 = .ok (some typ, c2) ∧
      c'.symbolMap.templateArgList[c2.symbolMap.templateArgList.size]? = some arg ∧
      arg.name = name ∧ arg.typ = typ ∧ arg.defineLoc = loc := by
  unfold Index.indexTemplateArgDecl at h
  cases hname : Ast.templateArgDeclName n with
  | none => exact Or.inl (Or.inl rfl)
  | some nameNode =>
  rw [hname] at h
  simp only at h
  obtain ⟨x1, c1, h1, h⟩ := IxM.run_bind_ok h
  cases x1 with
  | none => exact Or.inl (Or.inr (Or.inr (Or.inl ⟨nameNode, c1, rfl, h1⟩)))
  | some nl =>
  obtain ⟨name, loc⟩ := nl
  simp only at h
  cases htn : Ast.templateArgDeclType n with
  | none => exact Or.inl (Or.inr (Or.inl rfl))
  | some typNode =>
  rw [htn] at h
  simp only at h
  obtain ⟨x2, c2, h2, h⟩ := IxM.run_bind_ok h
  cases x2 with
  | none => exact Or.inl (Or.inr (Or.inr (Or.inr ⟨typNode, c1, c2, rfl, h2⟩)))
  | some typ =>
  simp only at h
  obtain ⟨x3, c3, h3, h⟩ := IxM.run_bind_ok h
  unfold addTemplateArgument at h3
  rw [modifySM_run'] at h3
  cases h3
  have hk : TypRel _ c' := (?_ : Keeps TypRel _).run _ _ _ h
  · right
    refine ⟨nameNode, name, loc, typNode, typ, c1, c2,
      { name := name, typ := typ, hasDefaultValue := (Ast.templateArgDeclValue n).isSome, defineLoc := loc },
      rfl, h1, rfl, h2, hk.2.1 _ _ ?_, rfl, rfl, rfl⟩
    simp [SymMap.addTemplateArgument, SymMap.logDefine]
  · keeps

omit hv in
theorem scopesAddVariable_entry (v : Variable) (c c' : IndexCtx)
    (h : (scopesAddVariable v).run c = .ok ((), c')) :
    c'.symbolMap.variableList[c.symbolMap.variableList.size]? = some v := by
  unfold scopesAddVariable at h
  obtain ⟨x1, c1, h1, h⟩ := IxM.run_bind_ok h
  unfold addVariable at h1
  rw [modifySM_run'] at h1
  cases h1
  have hk : TypRel _ c' := (?_ : Keeps TypRel _).run _ _ _ h
  · refine hk.2.2 _ _ ?_
    simp [SymMap.addVariable, SymMap.logDefine]
  · keeps
    refine Keeps.modifyGet _ fun c => ?_
    split <;> exact ArenaKeep.refl _

omit hv in
/-- a `defvar` variable is typed by its initialiser: the entry carries the `Ty` that `r.value`
returned on the value node (`unknown` when it returned none) -/
theorem indexDefvar_typ (n : PTree) (c c' : IndexCtx) (h : (Index.indexDefvar r n).run c = .ok ((), c')) :
    (Ast.defvarName n = none ∨ Ast.defvarValue n = none ∨
      (∃ nameNode c1, Ast.defvarName n = some nameNode ∧ (utilsIdentifier nameNode).run c = .ok (none, c1))) ∨
    ∃ nameNode name loc value typ c1 c2 var,
      Ast.defvarName n = some nameNode ∧ (utilsIdentifier nameNode).run c = .ok (some (name, loc), c1) ∧
      Ast.defvarValue n = some value ∧ (r.value value).run c1 = .ok (typ, c2) ∧
      c'.symbolMap.variableList[c2.symbolMap.variableList.size]? = some var ∧
      var.name = name ∧ var.typ = typ.getD .unknown ∧ var.defineLoc = loc := by
  unfold Index.indexDefvar at h
  cases hname : Ast.defvarName n with
  | none => exact Or.inl (Or.inl rfl)
  | some nameNode =>
  rw [hname] at h
  simp only at h
  obtain ⟨x1, c1, h1, h⟩ := IxM.run_bind_ok h
  cases x1 with
  | none => exact Or.inl (Or.inr (Or.inr ⟨nameNode, c1, rfl, h1⟩))
  | some nl =>
  obtain ⟨name, loc⟩ := nl
  simp only at h
  cases htn : Ast.defvarValue n with
  | none => exact Or.inl (Or.inr (Or.inl rfl))
  | some value =>
  rw [htn] at h
  simp only at h
  obtain ⟨x2, c2, h2, h⟩ := IxM.run_bind_ok h
  right
  exact ⟨nameNode, name, loc, value, x2, c1, c2, _, rfl, h1, rfl, h2,
    scopesAddVariable_entry _ _ _ h, rfl, rfl, rfl⟩

end decl
end Ide
end Tg
