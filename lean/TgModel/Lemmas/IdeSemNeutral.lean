/-
The functions of the indexer that never register an outline symbol (values, types, template
arguments, fields, parent-class lists, …): they keep every relation of class `NeutRel` — relations
that allow only the neutral steps of the `SymMap` API (`SmStepN`) and ignore scopes and diagnostics.
Generated in the style of `IdeSemKeeps.lean` (one `…_n` lemma per function, proved by `keeps`).
-/
import TgModel.Lemmas.IdeSemOrder

namespace Tg
namespace Ide

class NeutRel (R : IndexCtx → IndexCtx → Prop) : Prop extends KeepRel R where
  /-- `R` only looks at the workspace, the file trace, the set of indexed files and the symbol map -/
  of_eq : ∀ c c', c'.ws = c.ws → c'.fileTrace = c.fileTrace → c'.indexedFiles = c.indexedFiles →
    c'.symbolMap = c.symbolMap → R c c'
  /-- the neutral steps of the `SymMap` API are allowed -/
  smN : ∀ c sm', SmStepN c.symbolMap sm' → R c { c with symbolMap := sm' }

section primsN
variable {R : IndexCtx → IndexCtx → Prop} [NeutRel R]

theorem currentFileId_n : Keeps R currentFileId := by
  unfold currentFileId panic
  keeps
macro_rules | `(tactic| keeps_prim) => `(tactic| exact currentFileId_n)

theorem panic_n {α : Type} (msg : String) : Keeps R (panic msg : IxM α) := Keeps.throw _
macro_rules | `(tactic| keeps_prim) => `(tactic| exact panic_n _)

theorem resolveId_n (name : String) : Keeps R (resolveId name) := by
  unfold resolveId
  keeps
macro_rules | `(tactic| keeps_prim) => `(tactic| exact resolveId_n _)

theorem error_n (rg : Nat × Nat) (msg : String) : Keeps R (error rg msg) := by
  unfold error
  keeps
  exact Keeps.modify _ fun _ => NeutRel.of_eq _ _ rfl rfl rfl rfl
macro_rules | `(tactic| keeps_prim) => `(tactic| exact error_n _ _)

theorem nextAnonymousDefName_n : Keeps R nextAnonymousDefName :=
  Keeps.modifyGet _ fun _ => NeutRel.of_eq _ _ rfl rfl rfl rfl
macro_rules | `(tactic| keeps_prim) => `(tactic| exact nextAnonymousDefName_n)

theorem currentRecordId_n : Keeps R currentRecordId := by unfold currentRecordId; keeps
theorem currentDefsetId_n : Keeps R currentDefsetId := by unfold currentDefsetId; keeps
theorem currentMulticlassId_n : Keeps R currentMulticlassId := by unfold currentMulticlassId; keeps
theorem currentDefmId_n : Keeps R currentDefmId := by unfold currentDefmId; keeps
macro_rules | `(tactic| keeps_prim) => `(tactic| exact currentRecordId_n)
macro_rules | `(tactic| keeps_prim) => `(tactic| exact currentDefsetId_n)
macro_rules | `(tactic| keeps_prim) => `(tactic| exact currentMulticlassId_n)
macro_rules | `(tactic| keeps_prim) => `(tactic| exact currentDefmId_n)

theorem withSM_n {α : Type} (f : SymMap → α) : Keeps R (withSM f) := by
  unfold withSM
  keeps
macro_rules | `(tactic| keeps_prim) => `(tactic| exact withSM_n _)

theorem canBeCastedTo_n (a b : Ty) : Keeps R (canBeCastedTo a b) := withSM_n _
macro_rules | `(tactic| keeps_prim) => `(tactic| exact canBeCastedTo_n _ _)

theorem modifySM_n {α : Type} (f : SymMap → α × SymMap) (hf : ∀ sm, SmStepN sm (f sm).2) :
    Keeps R (modifySM f) :=
  Keeps.modifyGet _ fun c => NeutRel.smN c _ (hf c.symbolMap)

theorem addRecordLocal_n (r : Record) : Keeps R (addRecord r false) :=
  modifySM_n _ fun sm => .addRecordLocal sm r
theorem addAnonymousDef_n (r : Record) : Keeps R (addAnonymousDef r) :=
  modifySM_n _ fun sm => .addAnonymousDef sm r
theorem registerDefsetName_n (id : Nat) : Keeps R (registerDefsetName id) :=
  modifySM_n _ fun sm => .registerDefsetName sm id
theorem addTemplateArgument_n (a : TemplateArgument) : Keeps R (addTemplateArgument a) :=
  modifySM_n _ fun sm => .addTemplateArgument sm a
theorem addRecordField_n (f : RecordField) : Keeps R (addRecordField f) :=
  modifySM_n _ fun sm => .addRecordField sm f
theorem addVariable_n (v : Variable) : Keeps R (addVariable v) :=
  modifySM_n _ fun sm => .addVariable sm v
theorem addDefm_n (d : Defm) (g : Bool) : Keeps R (addDefm d g) :=
  modifySM_n _ fun sm => .addDefm sm d g
theorem addAnonymousDefm_n (d : Defm) : Keeps R (addAnonymousDefm d) :=
  modifySM_n _ fun sm => .addAnonymousDefm sm d
theorem addReference_n (s : SymbolId) (loc : FileRange) : Keeps R (addReference s loc) :=
  modifySM_n _ fun sm => .addReference sm s loc
macro_rules | `(tactic| keeps_prim) => `(tactic| exact addAnonymousDef_n _)
macro_rules | `(tactic| keeps_prim) => `(tactic| exact registerDefsetName_n _)
macro_rules | `(tactic| keeps_prim) => `(tactic| exact addTemplateArgument_n _)
macro_rules | `(tactic| keeps_prim) => `(tactic| exact addRecordField_n _)
macro_rules | `(tactic| keeps_prim) => `(tactic| exact addVariable_n _)
macro_rules | `(tactic| keeps_prim) => `(tactic| exact addDefm_n _ _)
macro_rules | `(tactic| keeps_prim) => `(tactic| exact addAnonymousDefm_n _)
macro_rules | `(tactic| keeps_prim) => `(tactic| exact addReference_n _ _)

theorem recordMut_n (id : Nat) (f : Record → Record)
    (hf : ∀ r, (f r).name = r.name ∧ (f r).defineLoc = r.defineLoc) : Keeps R (recordMut id f) :=
  modifySM_n _ fun sm => .recordMut sm id f hf
theorem multiclassMut_n (id : Nat) (f : Multiclass → Multiclass)
    (hf : ∀ r, (f r).name = r.name ∧ (f r).defineLoc = r.defineLoc) : Keeps R (multiclassMut id f) :=
  modifySM_n _ fun sm => .multiclassMut sm id f hf
theorem defmMut_n (id : Nat) (f : Defm → Defm)
    (hf : ∀ r, (f r).name = r.name ∧ (f r).defineLoc = r.defineLoc) : Keeps R (defmMut id f) :=
  modifySM_n _ fun sm => .defmMut sm id f hf
theorem defsetMut_n (id : Nat) (f : Defset → Defset)
    (hf : ∀ r, (f r).name = r.name ∧ (f r).defineLoc = r.defineLoc) : Keeps R (defsetMut id f) :=
  modifySM_n _ fun sm => .defsetMut sm id f hf
macro_rules | `(tactic| keeps_prim) => `(tactic| exact recordMut_n _ _ (fun _ => ⟨rfl, rfl⟩))
macro_rules | `(tactic| keeps_prim) => `(tactic| exact multiclassMut_n _ _ (fun _ => ⟨rfl, rfl⟩))
macro_rules | `(tactic| keeps_prim) => `(tactic| exact defmMut_n _ _ (fun _ => ⟨rfl, rfl⟩))
macro_rules | `(tactic| keeps_prim) => `(tactic| exact defsetMut_n _ _ (fun _ => ⟨rfl, rfl⟩))

theorem utilsIdentifier_n (n : PTree) : Keeps R (utilsIdentifier n) := by
  unfold utilsIdentifier
  keeps
macro_rules | `(tactic| keeps_prim) => `(tactic| exact utilsIdentifier_n _)

theorem scopesPush_n (k : ScopeKind) : Keeps R (scopesPush k) :=
  Keeps.modify _ fun _ => NeutRel.of_eq _ _ rfl rfl rfl rfl
macro_rules | `(tactic| keeps_prim) => `(tactic| exact scopesPush_n _)

theorem scopesPop_n : Keeps R scopesPop := by
  unfold scopesPop
  keeps
  exact Keeps.modify _ fun _ => NeutRel.of_eq _ _ rfl rfl rfl rfl
macro_rules | `(tactic| keeps_prim) => `(tactic| exact scopesPop_n)

theorem scopesAddVariable_n (v : Variable) : Keeps R (scopesAddVariable v) := by
  unfold scopesAddVariable
  keeps
  refine Keeps.modifyGet _ fun c => ?_
  split <;> exact NeutRel.of_eq _ _ rfl rfl rfl rfl
macro_rules | `(tactic| keeps_prim) => `(tactic| exact scopesAddVariable_n _)

end primsN

section passN
set_option linter.unusedSectionVars false
set_option linter.unusedVariables false
variable {R : IndexCtx → IndexCtx → Prop} [NeutRel R] {r : Rec}
  (hv : ∀ n, Keeps R (r.value n)) (ht : ∀ n, Keeps R (r.typ n))
include hv ht

theorem Bang.unexpectTypeAnnotation_n (a0 : _) : Keeps R (Bang.unexpectTypeAnnotation a0) := by
  unfold Bang.unexpectTypeAnnotation
  keeps
macro_rules | `(tactic| keeps_prim) => `(tactic| (apply Bang.unexpectTypeAnnotation_n <;> assumption))

theorem Bang.expectValues_n (a0 a1 a2 : _) : Keeps R (Bang.expectValues a0 a1 a2) := by
  unfold Bang.expectValues
  keeps
macro_rules | `(tactic| keeps_prim) => `(tactic| (apply Bang.expectValues_n <;> assumption))

theorem Bang.checkNext_n (a0 a1 a2 : _) : Keeps R (Bang.checkNext a0 a1 a2) := by
  unfold Bang.checkNext
  keeps
macro_rules | `(tactic| keeps_prim) => `(tactic| (apply Bang.checkNext_n <;> assumption))

theorem Bang.variableIdentifier_n (a0 : _) : Keeps R (Bang.variableIdentifier a0) := by
  unfold Bang.variableIdentifier
  keeps
macro_rules | `(tactic| keeps_prim) => `(tactic| (apply Bang.variableIdentifier_n <;> assumption))

theorem Bang.expectTypeAnnotation_n (a0 : _) : Keeps R (Bang.expectTypeAnnotation r a0) := by
  unfold Bang.expectTypeAnnotation
  keeps
macro_rules | `(tactic| keeps_prim) => `(tactic| (apply Bang.expectTypeAnnotation_n <;> assumption))

theorem Bang.indexValues_n (a0 : _) : Keeps R (Bang.indexValues r a0) := by
  unfold Bang.indexValues
  keeps
macro_rules | `(tactic| keeps_prim) => `(tactic| (apply Bang.indexValues_n <;> assumption))

theorem Bang.indexValuesAndCheckTypes_n (a0 a1 : _) : Keeps R (Bang.indexValuesAndCheckTypes r a0 a1) := by
  unfold Bang.indexValuesAndCheckTypes
  keeps
macro_rules | `(tactic| keeps_prim) => `(tactic| (apply Bang.indexValuesAndCheckTypes_n <;> assumption))

theorem Bang.arithN_n (a0 : _) : Keeps R (Bang.arithN r a0) := by
  unfold Bang.arithN
  keeps
macro_rules | `(tactic| keeps_prim) => `(tactic| (apply Bang.arithN_n <;> assumption))

theorem Bang.arith2_n (a0 : _) : Keeps R (Bang.arith2 r a0) := by
  unfold Bang.arith2
  keeps
macro_rules | `(tactic| keeps_prim) => `(tactic| (apply Bang.arith2_n <;> assumption))

theorem Bang.xCast_n (a0 : _) : Keeps R (Bang.xCast r a0) := by
  unfold Bang.xCast
  keeps
macro_rules | `(tactic| keeps_prim) => `(tactic| (apply Bang.xCast_n <;> assumption))

theorem Bang.xCon_n (a0 : _) : Keeps R (Bang.xCon r a0) := by
  unfold Bang.xCon
  keeps
macro_rules | `(tactic| keeps_prim) => `(tactic| (apply Bang.xCon_n <;> assumption))

theorem Bang.xDag_n (a0 : _) : Keeps R (Bang.xDag r a0) := by
  unfold Bang.xDag
  keeps
macro_rules | `(tactic| keeps_prim) => `(tactic| (apply Bang.xDag_n <;> assumption))

theorem Bang.xEmpty_n (a0 : _) : Keeps R (Bang.xEmpty r a0) := by
  unfold Bang.xEmpty
  keeps
macro_rules | `(tactic| keeps_prim) => `(tactic| (apply Bang.xEmpty_n <;> assumption))

theorem Bang.xEqNe_n (a0 : _) : Keeps R (Bang.xEqNe r a0) := by
  unfold Bang.xEqNe
  keeps
macro_rules | `(tactic| keeps_prim) => `(tactic| (apply Bang.xEqNe_n <;> assumption))

theorem Bang.xExists_n (a0 : _) : Keeps R (Bang.xExists r a0) := by
  unfold Bang.xExists
  keeps
macro_rules | `(tactic| keeps_prim) => `(tactic| (apply Bang.xExists_n <;> assumption))

theorem Bang.xFind_n (a0 : _) : Keeps R (Bang.xFind r a0) := by
  unfold Bang.xFind
  keeps
macro_rules | `(tactic| keeps_prim) => `(tactic| (apply Bang.xFind_n <;> assumption))

theorem Bang.xCompare_n (a0 : _) : Keeps R (Bang.xCompare r a0) := by
  unfold Bang.xCompare
  keeps
macro_rules | `(tactic| keeps_prim) => `(tactic| (apply Bang.xCompare_n <;> assumption))

theorem Bang.xGetDagArg_n (a0 : _) : Keeps R (Bang.xGetDagArg r a0) := by
  unfold Bang.xGetDagArg
  keeps
macro_rules | `(tactic| keeps_prim) => `(tactic| (apply Bang.xGetDagArg_n <;> assumption))

theorem Bang.xGetDagName_n (a0 : _) : Keeps R (Bang.xGetDagName r a0) := by
  unfold Bang.xGetDagName
  keeps
macro_rules | `(tactic| keeps_prim) => `(tactic| (apply Bang.xGetDagName_n <;> assumption))

theorem Bang.xGetDagOp_n (a0 : _) : Keeps R (Bang.xGetDagOp r a0) := by
  unfold Bang.xGetDagOp
  keeps
macro_rules | `(tactic| keeps_prim) => `(tactic| (apply Bang.xGetDagOp_n <;> assumption))

theorem Bang.xHead_n (a0 : _) : Keeps R (Bang.xHead r a0) := by
  unfold Bang.xHead
  keeps
macro_rules | `(tactic| keeps_prim) => `(tactic| (apply Bang.xHead_n <;> assumption))

theorem Bang.xIf_n (a0 : _) : Keeps R (Bang.xIf r a0) := by
  unfold Bang.xIf
  keeps
macro_rules | `(tactic| keeps_prim) => `(tactic| (apply Bang.xIf_n <;> assumption))

theorem Bang.xInitialized_n (a0 : _) : Keeps R (Bang.xInitialized r a0) := by
  unfold Bang.xInitialized
  keeps
macro_rules | `(tactic| keeps_prim) => `(tactic| (apply Bang.xInitialized_n <;> assumption))

theorem Bang.xInterleave_n (a0 : _) : Keeps R (Bang.xInterleave r a0) := by
  unfold Bang.xInterleave
  keeps
macro_rules | `(tactic| keeps_prim) => `(tactic| (apply Bang.xInterleave_n <;> assumption))

theorem Bang.xIsA_n (a0 : _) : Keeps R (Bang.xIsA r a0) := by
  unfold Bang.xIsA
  keeps
macro_rules | `(tactic| keeps_prim) => `(tactic| (apply Bang.xIsA_n <;> assumption))

theorem Bang.xListConcat_n (a0 : _) : Keeps R (Bang.xListConcat r a0) := by
  unfold Bang.xListConcat
  keeps
macro_rules | `(tactic| keeps_prim) => `(tactic| (apply Bang.xListConcat_n <;> assumption))

theorem Bang.xListFlatten_n (a0 : _) : Keeps R (Bang.xListFlatten r a0) := by
  unfold Bang.xListFlatten
  keeps
macro_rules | `(tactic| keeps_prim) => `(tactic| (apply Bang.xListFlatten_n <;> assumption))

theorem Bang.xListRemove_n (a0 : _) : Keeps R (Bang.xListRemove r a0) := by
  unfold Bang.xListRemove
  keeps
macro_rules | `(tactic| keeps_prim) => `(tactic| (apply Bang.xListRemove_n <;> assumption))

theorem Bang.xListSplat_n (a0 : _) : Keeps R (Bang.xListSplat r a0) := by
  unfold Bang.xListSplat
  keeps
macro_rules | `(tactic| keeps_prim) => `(tactic| (apply Bang.xListSplat_n <;> assumption))

theorem Bang.xLog2_n (a0 : _) : Keeps R (Bang.xLog2 r a0) := by
  unfold Bang.xLog2
  keeps
macro_rules | `(tactic| keeps_prim) => `(tactic| (apply Bang.xLog2_n <;> assumption))

theorem Bang.xNot_n (a0 : _) : Keeps R (Bang.xNot r a0) := by
  unfold Bang.xNot
  keeps
macro_rules | `(tactic| keeps_prim) => `(tactic| (apply Bang.xNot_n <;> assumption))

theorem Bang.xRange_n (a0 : _) : Keeps R (Bang.xRange r a0) := by
  unfold Bang.xRange
  keeps
macro_rules | `(tactic| keeps_prim) => `(tactic| (apply Bang.xRange_n <;> assumption))

theorem Bang.xRepr_n (a0 : _) : Keeps R (Bang.xRepr r a0) := by
  unfold Bang.xRepr
  keeps
macro_rules | `(tactic| keeps_prim) => `(tactic| (apply Bang.xRepr_n <;> assumption))

theorem Bang.xSetDagArg_n (a0 : _) : Keeps R (Bang.xSetDagArg r a0) := by
  unfold Bang.xSetDagArg
  keeps
macro_rules | `(tactic| keeps_prim) => `(tactic| (apply Bang.xSetDagArg_n <;> assumption))

theorem Bang.xSetDagName_n (a0 : _) : Keeps R (Bang.xSetDagName r a0) := by
  unfold Bang.xSetDagName
  keeps
macro_rules | `(tactic| keeps_prim) => `(tactic| (apply Bang.xSetDagName_n <;> assumption))

theorem Bang.xSetDagOp_n (a0 : _) : Keeps R (Bang.xSetDagOp r a0) := by
  unfold Bang.xSetDagOp
  keeps
macro_rules | `(tactic| keeps_prim) => `(tactic| (apply Bang.xSetDagOp_n <;> assumption))

theorem Bang.xSize_n (a0 : _) : Keeps R (Bang.xSize r a0) := by
  unfold Bang.xSize
  keeps
macro_rules | `(tactic| keeps_prim) => `(tactic| (apply Bang.xSize_n <;> assumption))

theorem Bang.xStrConcat_n (a0 : _) : Keeps R (Bang.xStrConcat r a0) := by
  unfold Bang.xStrConcat
  keeps
macro_rules | `(tactic| keeps_prim) => `(tactic| (apply Bang.xStrConcat_n <;> assumption))

theorem Bang.xSubst_n (a0 : _) : Keeps R (Bang.xSubst r a0) := by
  unfold Bang.xSubst
  keeps
macro_rules | `(tactic| keeps_prim) => `(tactic| (apply Bang.xSubst_n <;> assumption))

theorem Bang.xSubstr_n (a0 : _) : Keeps R (Bang.xSubstr r a0) := by
  unfold Bang.xSubstr
  keeps
macro_rules | `(tactic| keeps_prim) => `(tactic| (apply Bang.xSubstr_n <;> assumption))

theorem Bang.xTail_n (a0 : _) : Keeps R (Bang.xTail r a0) := by
  unfold Bang.xTail
  keeps
macro_rules | `(tactic| keeps_prim) => `(tactic| (apply Bang.xTail_n <;> assumption))

theorem Bang.xToLowerUpper_n (a0 : _) : Keeps R (Bang.xToLowerUpper r a0) := by
  unfold Bang.xToLowerUpper
  keeps
macro_rules | `(tactic| keeps_prim) => `(tactic| (apply Bang.xToLowerUpper_n <;> assumption))

theorem Bang.xFilter_n (a0 : _) : Keeps R (Bang.xFilter r a0) := by
  unfold Bang.xFilter
  keeps
macro_rules | `(tactic| keeps_prim) => `(tactic| (apply Bang.xFilter_n <;> assumption))

theorem Bang.xFoldl_n (a0 : _) : Keeps R (Bang.xFoldl r a0) := by
  unfold Bang.xFoldl
  keeps
macro_rules | `(tactic| keeps_prim) => `(tactic| (apply Bang.xFoldl_n <;> assumption))

theorem Bang.xForEach_n (a0 : _) : Keeps R (Bang.xForEach r a0) := by
  unfold Bang.xForEach
  keeps
macro_rules | `(tactic| keeps_prim) => `(tactic| (apply Bang.xForEach_n <;> assumption))

theorem Bang.indexBangOperator_n (a0 : _) : Keeps R (Bang.indexBangOperator r a0) := by
  unfold Bang.indexBangOperator
  keeps
macro_rules | `(tactic| keeps_prim) => `(tactic| (apply Bang.indexBangOperator_n <;> assumption))

theorem Index.sameFileDefset_n  : Keeps R (Index.sameFileDefset ) := by
  unfold Index.sameFileDefset
  keeps
macro_rules | `(tactic| keeps_prim) => `(tactic| (apply Index.sameFileDefset_n <;> assumption))

theorem Index.defDefset_n  : Keeps R (Index.defDefset ) := by
  unfold Index.defDefset
  keeps
macro_rules | `(tactic| keeps_prim) => `(tactic| (apply Index.defDefset_n <;> assumption))

theorem Index.checkTemplateArgs_n (a0 a1 a2 : _) : Keeps R (Index.checkTemplateArgs a0 a1 a2) := by
  unfold Index.checkTemplateArgs
  keeps
macro_rules | `(tactic| keeps_prim) => `(tactic| (apply Index.checkTemplateArgs_n <;> assumption))

theorem Index.templateArgsOf_n (a0 : _) : Keeps R (Index.templateArgsOf a0) := by
  unfold Index.templateArgsOf
  keeps
macro_rules | `(tactic| keeps_prim) => `(tactic| (apply Index.templateArgsOf_n <;> assumption))

theorem Index.indexNameValue_n (a0 : _) : Keeps R (Index.indexNameValue a0) := by
  unfold Index.indexNameValue
  keeps
macro_rules | `(tactic| keeps_prim) => `(tactic| (apply Index.indexNameValue_n <;> assumption))

theorem Index.indexIdentifierValue_n (a0 : _) : Keeps R (Index.indexIdentifierValue a0) := by
  unfold Index.indexIdentifierValue
  keeps
macro_rules | `(tactic| keeps_prim) => `(tactic| (apply Index.indexIdentifierValue_n <;> assumption))

theorem Index.indexAssert_n (a0 : _) : Keeps R (Index.indexAssert r a0) := by
  unfold Index.indexAssert
  keeps
macro_rules | `(tactic| keeps_prim) => `(tactic| (apply Index.indexAssert_n <;> assumption))

theorem Index.indexDefvar_n (a0 : _) : Keeps R (Index.indexDefvar r a0) := by
  unfold Index.indexDefvar
  keeps
macro_rules | `(tactic| keeps_prim) => `(tactic| (apply Index.indexDefvar_n <;> assumption))

theorem Index.indexDump_n (a0 : _) : Keeps R (Index.indexDump r a0) := by
  unfold Index.indexDump
  keeps
macro_rules | `(tactic| keeps_prim) => `(tactic| (apply Index.indexDump_n <;> assumption))

theorem Index.indexForeachIteratorInit_n (a0 : _) : Keeps R (Index.indexForeachIteratorInit r a0) := by
  unfold Index.indexForeachIteratorInit
  keeps
macro_rules | `(tactic| keeps_prim) => `(tactic| (apply Index.indexForeachIteratorInit_n <;> assumption))

theorem Index.indexForeachIterator_n (a0 : _) : Keeps R (Index.indexForeachIterator r a0) := by
  unfold Index.indexForeachIterator
  keeps
macro_rules | `(tactic| keeps_prim) => `(tactic| (apply Index.indexForeachIterator_n <;> assumption))

theorem Index.indexLetItem_n (a0 : _) : Keeps R (Index.indexLetItem r a0) := by
  unfold Index.indexLetItem
  keeps
macro_rules | `(tactic| keeps_prim) => `(tactic| (apply Index.indexLetItem_n <;> assumption))

theorem Index.indexLetList_n (a0 : _) : Keeps R (Index.indexLetList r a0) := by
  unfold Index.indexLetList
  keeps
macro_rules | `(tactic| keeps_prim) => `(tactic| (apply Index.indexLetList_n <;> assumption))

theorem Index.indexTemplateArgDecl_n (a0 : _) : Keeps R (Index.indexTemplateArgDecl r a0) := by
  unfold Index.indexTemplateArgDecl
  keeps
macro_rules | `(tactic| keeps_prim) => `(tactic| (apply Index.indexTemplateArgDecl_n <;> assumption))

theorem Index.indexTemplateArgList_n (a0 : _) : Keeps R (Index.indexTemplateArgList r a0) := by
  unfold Index.indexTemplateArgList
  keeps
macro_rules | `(tactic| keeps_prim) => `(tactic| (apply Index.indexTemplateArgList_n <;> assumption))

theorem Index.indexArgValue_n (a0 : _) : Keeps R (Index.indexArgValue r a0) := by
  unfold Index.indexArgValue
  keeps
macro_rules | `(tactic| keeps_prim) => `(tactic| (apply Index.indexArgValue_n <;> assumption))

theorem Index.indexArgValueList_n (a0 : _) : Keeps R (Index.indexArgValueList r a0) := by
  unfold Index.indexArgValueList
  keeps
macro_rules | `(tactic| keeps_prim) => `(tactic| (apply Index.indexArgValueList_n <;> assumption))

theorem Index.resolveClassRefAsClass_n (a0 : _) : Keeps R (Index.resolveClassRefAsClass r a0) := by
  unfold Index.resolveClassRefAsClass
  keeps
macro_rules | `(tactic| keeps_prim) => `(tactic| (apply Index.resolveClassRefAsClass_n <;> assumption))

theorem Index.resolveClassRefAsMulticlass_n (a0 : _) : Keeps R (Index.resolveClassRefAsMulticlass r a0) := by
  unfold Index.resolveClassRefAsMulticlass
  keeps
macro_rules | `(tactic| keeps_prim) => `(tactic| (apply Index.resolveClassRefAsMulticlass_n <;> assumption))

theorem Index.namesClassOnly_n (a0 : _) : Keeps R (Index.namesClassOnly a0) := by
  unfold Index.namesClassOnly
  keeps
macro_rules | `(tactic| keeps_prim) => `(tactic| (apply Index.namesClassOnly_n <;> assumption))

theorem Index.multiclassParent_n (a0 a1 : _) : Keeps R (Index.multiclassParent r a0 a1) := by
  unfold Index.multiclassParent
  keeps
macro_rules | `(tactic| keeps_prim) => `(tactic| (apply Index.multiclassParent_n <;> assumption))

theorem Index.defmMulticlassParent_n (a0 a1 : _) : Keeps R (Index.defmMulticlassParent r a0 a1) := by
  unfold Index.defmMulticlassParent
  keeps
macro_rules | `(tactic| keeps_prim) => `(tactic| (apply Index.defmMulticlassParent_n <;> assumption))

theorem Index.indexParentClassList_n (a0 : _) : Keeps R (Index.indexParentClassList r a0) := by
  unfold Index.indexParentClassList
  keeps
macro_rules | `(tactic| keeps_prim) => `(tactic| (apply Index.indexParentClassList_n <;> assumption))

theorem Index.indexFieldDef_n (a0 : _) : Keeps R (Index.indexFieldDef r a0) := by
  unfold Index.indexFieldDef
  keeps
macro_rules | `(tactic| keeps_prim) => `(tactic| (apply Index.indexFieldDef_n <;> assumption))

theorem Index.indexFieldLet_n (a0 : _) : Keeps R (Index.indexFieldLet r a0) := by
  unfold Index.indexFieldLet
  keeps
macro_rules | `(tactic| keeps_prim) => `(tactic| (apply Index.indexFieldLet_n <;> assumption))

theorem Index.indexBodyItem_n (a0 : _) : Keeps R (Index.indexBodyItem r a0) := by
  unfold Index.indexBodyItem
  keeps
macro_rules | `(tactic| keeps_prim) => `(tactic| (apply Index.indexBodyItem_n <;> assumption))

theorem Index.indexBody_n (a0 : _) : Keeps R (Index.indexBody r a0) := by
  unfold Index.indexBody
  keeps
macro_rules | `(tactic| keeps_prim) => `(tactic| (apply Index.indexBody_n <;> assumption))

theorem Index.indexRecordBody_n (a0 : _) : Keeps R (Index.indexRecordBody r a0) := by
  unfold Index.indexRecordBody
  keeps
macro_rules | `(tactic| keeps_prim) => `(tactic| (apply Index.indexRecordBody_n <;> assumption))

theorem Index.indexType_n (a0 : _) : Keeps R (Index.indexType r a0) := by
  unfold Index.indexType
  keeps
macro_rules | `(tactic| keeps_prim) => `(tactic| (apply Index.indexType_n <;> assumption))

theorem Index.indexClassValue_n (a0 : _) : Keeps R (Index.indexClassValue r a0) := by
  unfold Index.indexClassValue
  keeps
macro_rules | `(tactic| keeps_prim) => `(tactic| (apply Index.indexClassValue_n <;> assumption))

theorem Index.indexSimpleValue_n (a0 : _) : Keeps R (Index.indexSimpleValue r a0) := by
  unfold Index.indexSimpleValue
  keeps
macro_rules | `(tactic| keeps_prim) => `(tactic| (apply Index.indexSimpleValue_n <;> assumption))

theorem Index.indexInnerValue_n (a0 : _) : Keeps R (Index.indexInnerValue r a0) := by
  unfold Index.indexInnerValue
  keeps
macro_rules | `(tactic| keeps_prim) => `(tactic| (apply Index.indexInnerValue_n <;> assumption))

theorem Index.indexValue_n (a0 : _) : Keeps R (Index.indexValue r a0) := by
  unfold Index.indexValue
  keeps
macro_rules | `(tactic| keeps_prim) => `(tactic| (apply Index.indexValue_n <;> assumption))

end passN

end Ide
end Tg
