/- Refinement: the concrete preprocessor model `Src.eat` is the abstract machine `PP.next`
run over the lexer's token stream `Lex.allTokens`. -/
import TgModel.PrepSpec
import TgModel.Lemmas.PrepLemmas

namespace Tg

/-- lexer tokens of a text, up to (excluding) `Eof` -/
def Lex.tokens : Nat → List Char → List Tok
  | 0, _ => []
  | n+1, s => if s.isEmpty then [] else
      { kind := (Lex.next s).kind, text := (Lex.next s).text } :: Lex.tokens n (Lex.next s).rest

def Lex.allTokens (s : List Char) : List Tok := Lex.tokens s.length s

theorem Lex.tokens_fuel : ∀ (n : Nat) (s : List Char), s.length ≤ n → Lex.tokens n s = Lex.tokens s.length s := by
  intro n
  induction n using Nat.strongRecOn with
  | _ n ih =>
    intro s hs
    cases s with
    | nil => cases n <;> simp [Lex.tokens]
    | cons c r =>
      cases n with
      | zero => simp at hs
      | succ m =>
        have hlt := Lex.next_rest_length_lt (c :: r) (by simp)
        simp only [List.length_cons, Lex.tokens, List.isEmpty_cons, Bool.false_eq_true, if_false]
        congr 1
        have h1 : (Lex.next (c :: r)).rest.length ≤ m := by simp at hs hlt; omega
        have h2 : (Lex.next (c :: r)).rest.length ≤ r.length := by simp at hlt; omega
        rw [ih m (by omega) _ h1]
        by_cases hr : r.length = m
        · rw [hr]; exact (ih m (by omega) _ h1).symm ▸ rfl
        · rw [ih r.length (by simp at hs; omega) _ h2]

theorem Lex.allTokens_nil : Lex.allTokens [] = [] := by simp [Lex.allTokens, Lex.tokens]

theorem Lex.allTokens_cons (s : List Char) (h : s ≠ []) :
    Lex.allTokens s = { kind := (Lex.next s).kind, text := (Lex.next s).text } :: Lex.allTokens (Lex.next s).rest := by
  cases s with
  | nil => exact absurd rfl h
  | cons c r =>
    have hlt := Lex.next_rest_length_lt (c :: r) (by simp)
    simp only [Lex.allTokens, List.length_cons, Lex.tokens, List.isEmpty_cons, Bool.false_eq_true, if_false]
    congr 1
    exact Lex.tokens_fuel _ _ (by simp at hlt; omega)

open PP in
/-- abstraction of a lexer token -/
def absTok (t : Tok) : PP.LK :=
  match t.kind with
  | .Ifdef => .ifdef
  | .Ifndef => .ifndef
  | .Else => .else_
  | .Endif => .endif
  | .Define => .define
  | .Id => .id t.text
  | k => if k.isTrivia then .ws else .other k t.text

def absToks (s : List Char) : List PP.LK := (Lex.allTokens s).map absTok

theorem absTok_trivia (t : Tok) (h : t.kind.isTrivia = true) : absTok t = .ws := by
  unfold absTok
  split <;> simp_all [TokenKind.isTrivia]

theorem absTok_not_trivia (t : Tok) (h : t.kind.isTrivia = false) : (absTok t).isTrivia = false := by
  unfold absTok
  split <;> simp_all [PP.LK.isTrivia]

namespace Src

theorem lexEat_nil (s : Src) (h : s.rest = []) : (s.lexEat).1.kind = .Eof ∧ (s.lexEat).2.rest = [] := by
  simp [lexEat, h, Lex.next_nil]

theorem absToks_lexEat (s : Src) (h : s.rest ≠ []) :
    absToks s.rest = absTok (s.lexEat).1 :: absToks (s.lexEat).2.rest := by
  simp only [absToks, Lex.allTokens_cons s.rest h, List.map_cons, lexEat]

theorem lexEat_not_eof (s : Src) (h : s.rest ≠ []) : (s.lexEat).1.kind ≠ .Eof := by
  intro he; exact h ((lexEat_eof s).mp he)

theorem lexEat_rest_lt (s : Src) (h : s.rest ≠ []) : (s.lexEat).2.rest.length < s.rest.length := by
  simpa [lexEat] using Lex.next_rest_length_lt s.rest h

/-- `next_not_trivia` refines the abstract one -/
theorem nnt_refine (fuel : Nat) (s : Src) (racc : List Char) (hf : s.rest.length < fuel) :
    (∀ k, (PP.nextNotTrivia (absToks s.rest)).1 = some k →
      absTok (nextNotTrivia fuel s racc).2.1 = k ∧ (nextNotTrivia fuel s racc).2.1.kind ≠ .Eof) ∧
    ((PP.nextNotTrivia (absToks s.rest)).1 = none → (nextNotTrivia fuel s racc).2.1.kind = .Eof) ∧
    absToks (nextNotTrivia fuel s racc).2.2.rest = (PP.nextNotTrivia (absToks s.rest)).2 ∧
    (nextNotTrivia fuel s racc).2.2.macros = s.macros ∧
    (nextNotTrivia fuel s racc).2.2.prepErr = s.prepErr := by
  induction fuel generalizing s racc with
  | zero => omega
  | succ n ih =>
    by_cases hr : s.rest = []
    · obtain ⟨hk, hrest⟩ := lexEat_nil s hr
      have hnt : (s.lexEat).1.kind.isTrivia = false := by rw [hk]; rfl
      simp only [nextNotTrivia, hnt, Bool.false_eq_true, if_false]
      simp [absToks, hr, hrest, Lex.allTokens_nil, PP.nextNotTrivia, hk, lexEat_macros, lexEat_prepErr]
    · have ha := absToks_lexEat s hr
      have hlt := lexEat_rest_lt s hr
      by_cases htr : (s.lexEat).1.kind.isTrivia = true
      · simp only [nextNotTrivia, htr, if_true]
        have := ih (s.lexEat).2 ((s.lexEat).1.text.reverseAux racc) (by omega)
        rw [ha, absTok_trivia _ htr]
        simpa [PP.nextNotTrivia, PP.LK.isTrivia, lexEat_macros, lexEat_prepErr] using this
      · simp only [Bool.not_eq_true] at htr
        simp only [nextNotTrivia, htr, Bool.false_eq_true, if_false]
        rw [ha]
        simp only [PP.nextNotTrivia, absTok_not_trivia _ htr, Bool.false_eq_true, if_false]
        refine ⟨?_, by simp, by simp, lexEat_macros s, lexEat_prepErr s⟩
        intro k hk
        simp only [Option.some.injEq] at hk
        exact ⟨hk, lexEat_not_eof s hr⟩

theorem eatUntil_plain (t : Tok) (d : Nat) (r : List PP.LK)
    (h1 : t.kind ≠ .Ifdef) (h2 : t.kind ≠ .Ifndef) (h3 : t.kind ≠ .Endif) (h4 : t.kind ≠ .Else) :
    PP.eatUntil d (absTok t :: r) = PP.eatUntil d r := by
  unfold absTok
  split
  · rename_i h; exact absurd h h1
  · rename_i h; exact absurd h h2
  · rename_i h; exact absurd h h4
  · rename_i h; exact absurd h h3
  · simp [PP.eatUntil]
  · simp [PP.eatUntil]
  · split <;> simp [PP.eatUntil]

/-- `eat_until_else_or_endif` refines the abstract one -/
theorem eu_refine (fuel depth : Nat) (s : Src) (racc : List Char) (hf : s.rest.length < fuel) :
    absToks (eatUntil fuel depth s racc).2.rest = (PP.eatUntil depth (absToks s.rest)).1 ∧
    (eatUntil fuel depth s racc).2.macros = s.macros := by
  induction fuel generalizing depth s racc with
  | zero => omega
  | succ n ih =>
    by_cases hr : s.rest = []
    · obtain ⟨hk, hrest⟩ := lexEat_nil s hr
      simp only [eatUntil, hk]
      simp [absToks, hr, hrest, Lex.allTokens_nil, PP.eatUntil, lexEat_macros]
    · have ha := absToks_lexEat s hr
      have hlt := lexEat_rest_lt s hr
      have hne := lexEat_not_eof s hr
      have hrec := fun d => ih d (s.lexEat).2 ((s.lexEat).1.text.reverseAux racc) (by omega)
      simp only [eatUntil]
      rw [ha]
      split
      · rename_i hk; simp only [absTok, hk, PP.eatUntil]; simpa [lexEat_macros] using hrec (depth + 1)
      · rename_i hk; simp only [absTok, hk, PP.eatUntil]; simpa [lexEat_macros] using hrec (depth + 1)
      · rename_i hk
        simp only [absTok, hk, PP.eatUntil]
        split
        · simpa [lexEat_macros] using hrec (depth - 1)
        · exact ⟨rfl, lexEat_macros s⟩
      · rename_i hk
        simp only [absTok, hk, PP.eatUntil]
        split
        · rename_i hd; simp only [beq_iff_eq] at hd; simp [hd, lexEat_macros]
        · rename_i hd; simp only [beq_iff_eq] at hd; simp only [hd, if_false]; simpa [lexEat_macros] using hrec depth
      · rename_i hk; exact absurd hk hne
      · rename_i h1 h2 h3 h4 h5
        rw [eatUntil_plain _ _ _ h1 h2 h3 h4]; simpa [lexEat_macros] using hrec depth

theorem absTok_id_iff (t : Tok) (m : List Char) : absTok t = .id m ↔ (t.kind = .Id ∧ t.text = m) := by
  unfold absTok
  split <;> simp_all
  split <;> simp

/-- how a delivered token relates to the abstract output -/
def KindRel (t : Tok) : PP.Out → Prop
  | .eof => t.kind = .Eof
  | .pp => t.kind = .PreProcessor
  | .error => t.kind = .Error
  | .tok k => absTok t = k ∧ t.kind ≠ .PreProcessor ∧ t.kind ≠ .Eof

theorem processIf_refine (ifdef : Bool) (d : Tok) (s : Src) (st : PP.PS) (hm : st.macros = s.macros) :
    KindRel (processIf ifdef d s).1 (PP.processIf (!ifdef) st (absToks s.rest)).1 ∧
    absToks (processIf ifdef d s).2.rest = (PP.processIf (!ifdef) st (absToks s.rest)).2.2 ∧
    (PP.processIf (!ifdef) st (absToks s.rest)).2.1.macros = (processIf ifdef d s).2.macros := by
  obtain ⟨h1, h2, h3, h4, _⟩ := nnt_refine (fuelOf s) s d.text.reverse (by simp [fuelOf])
  unfold processIf PP.processIf
  simp only []
  cases ha : PP.nextNotTrivia (absToks s.rest) with
  | mk ok r' =>
    rw [ha] at h1 h2 h3
    simp only [] at h1 h2 h3
    cases ok with
    | none =>
      have hk := h2 rfl
      simp [hk, KindRel, h3, hm, h4]
    | some k =>
      obtain ⟨hk1, hk2⟩ := h1 k rfl
      by_cases hid : (nextNotTrivia (fuelOf s) s d.text.reverse).2.1.kind = .Id
      · have hk : k = .id (nextNotTrivia (fuelOf s) s d.text.reverse).2.1.text := by
          rw [← hk1]; exact (absTok_id_iff _ _).mpr ⟨hid, rfl⟩
        subst hk
        simp only [hid, beq_self_eq_true, if_true]
        have hdis : PP.disabled st.macros (nextNotTrivia (fuelOf s) s d.text.reverse).2.1.text (!ifdef) =
            ((ifdef && !(nextNotTrivia (fuelOf s) s d.text.reverse).2.2.macros.contains (nextNotTrivia (fuelOf s) s d.text.reverse).2.1.text) ||
             (!ifdef && (nextNotTrivia (fuelOf s) s d.text.reverse).2.2.macros.contains (nextNotTrivia (fuelOf s) s d.text.reverse).2.1.text)) := by
          rw [h4, hm]; unfold PP.disabled
          cases ifdef <;> cases (s.macros.contains _) <;> rfl
        rw [hdis]
        split
        · obtain ⟨e1, e2⟩ := eu_refine (fuelOf (nextNotTrivia (fuelOf s) s d.text.reverse).2.2) 1
            (nextNotTrivia (fuelOf s) s d.text.reverse).2.2
            ((nextNotTrivia (fuelOf s) s d.text.reverse).2.1.text.reverseAux (nextNotTrivia (fuelOf s) s d.text.reverse).1)
            (by simp [fuelOf])
          rw [h3] at e1
          simp only [List.reverseAux_eq] at e1 e2
          simp [KindRel, e1, e2, h4, hm]
        · simp [KindRel, h3, h4, hm]
      · have hne : ∀ m, k ≠ .id m := by
          intro m hm'; rw [← hk1] at hm'; exact hid ((absTok_id_iff _ _).mp hm').1
        have hbeq : ((nextNotTrivia (fuelOf s) s d.text.reverse).2.1.kind == TokenKind.Id) = false := by
          simpa using hid
        simp only [hbeq, Bool.false_eq_true, if_false]
        cases k <;> simp_all [KindRel]

/-- abstract `#define` step (the `.define` arm of `PP.next`) -/
theorem processDefine_refine (d : Tok) (s : Src) (st : PP.PS) (hm : st.macros = s.macros) :
    KindRel (processDefine d s).1 (PP.next st (.define :: absToks s.rest)).1 ∧
    absToks (processDefine d s).2.rest = (PP.next st (.define :: absToks s.rest)).2.2 ∧
    (PP.next st (.define :: absToks s.rest)).2.1.macros = (processDefine d s).2.macros := by
  obtain ⟨h1, h2, h3, h4, _⟩ := nnt_refine (fuelOf s) s d.text.reverse (by simp [fuelOf])
  unfold processDefine
  simp only [PP.next]
  cases ha : PP.nextNotTrivia (absToks s.rest) with
  | mk ok r' =>
    rw [ha] at h1 h2 h3
    simp only [] at h1 h2 h3
    cases ok with
    | none =>
      have hk := h2 rfl
      simp [hk, KindRel, h3, hm, h4]
    | some k =>
      obtain ⟨hk1, hk2⟩ := h1 k rfl
      by_cases hid : (nextNotTrivia (fuelOf s) s d.text.reverse).2.1.kind = .Id
      · have hk : k = .id (nextNotTrivia (fuelOf s) s d.text.reverse).2.1.text := by
          rw [← hk1]; exact (absTok_id_iff _ _).mpr ⟨hid, rfl⟩
        subst hk
        simp [hid, KindRel, h3, h4, hm]
      · have hne : ∀ m, k ≠ .id m := by
          intro m hm'; rw [← hk1] at hm'; exact hid ((absTok_id_iff _ _).mp hm').1
        have hbeq : ((nextNotTrivia (fuelOf s) s d.text.reverse).2.1.kind == TokenKind.Id) = false := by
          simpa using hid
        simp only [hbeq, Bool.false_eq_true, if_false]
        cases k <;> simp_all [KindRel]

theorem next_plain (st : PP.PS) (t : Tok) (r : List PP.LK)
    (h1 : t.kind ≠ .Ifdef) (h2 : t.kind ≠ .Ifndef) (h3 : t.kind ≠ .Else) (h4 : t.kind ≠ .Endif)
    (h5 : t.kind ≠ .Define) : PP.next st (absTok t :: r) = (.tok (absTok t), st, r) := by
  unfold absTok
  split
  · rename_i h; exact absurd h h1
  · rename_i h; exact absurd h h2
  · rename_i h; exact absurd h h3
  · rename_i h; exact absurd h h4
  · rename_i h; exact absurd h h5
  · simp [PP.next]
  · split <;> simp [PP.next]

/-- **refinement**: one `PreProcessor::eat` is one abstract step over the lexer's token stream -/
theorem eat_refine (s : Src) (st : PP.PS) (hm : st.macros = s.macros) :
    KindRel (s.eat).1 (PP.next st (absToks s.rest)).1 ∧
    absToks (s.eat).2.rest = (PP.next st (absToks s.rest)).2.2 ∧
    (PP.next st (absToks s.rest)).2.1.macros = (s.eat).2.macros := by
  by_cases hr : s.rest = []
  · obtain ⟨hk, hrest⟩ := lexEat_nil s hr
    unfold eat
    cases hle : s.lexEat with
    | mk t s1 =>
      rw [hle] at hk hrest
      simp only [] at hk hrest ⊢
      simp [hk, absToks, hr, Lex.allTokens_nil, PP.next, KindRel, hrest, hm]
      have := lexEat_macros s; rw [hle] at this; exact this.symm
  · have ha := absToks_lexEat s hr
    have hne := lexEat_not_eof s hr
    have hpp : (s.lexEat).1.kind ≠ .PreProcessor := by simpa [lexEat] using Lex.next_not_pp s.rest
    have hmac := lexEat_macros s
    unfold eat
    rw [ha]
    cases hle : s.lexEat with
    | mk t s1 =>
      rw [hle] at hne hpp hmac
      simp only [] at hne hpp hmac ⊢
      have hm1 : st.macros = s1.macros := by rw [hm, hmac]
      split
      · rename_i hk
        have := processIf_refine true t s1 st hm1
        simpa [absTok, hk, PP.next] using this
      · rename_i hk
        have := processIf_refine false t s1 st hm1
        simpa [absTok, hk, PP.next] using this
      · rename_i hk
        obtain ⟨e1, e2⟩ := eu_refine (fuelOf s1) 1 s1 t.text.reverse (by simp [fuelOf])
        simp [absTok, hk, PP.next, KindRel, e1, e2, hm1]
      · rename_i hk
        simp [absTok, hk, PP.next, KindRel, hm1]
      · rename_i hk
        have := processDefine_refine t s1 st hm1
        simpa [absTok, hk] using this
      · rename_i h1 h2 h3 h4 h5
        rw [next_plain st t _ h1 h2 h3 h4 h5]
        exact ⟨⟨rfl, hpp, hne⟩, rfl, hm1⟩

/-- delivered tokens that are not preprocessor trivia, abstracted -/
def delivered (toks : List Tok) : List PP.LK :=
  (toks.filter (fun t => t.kind != .PreProcessor)).map absTok

theorem runAll_refine (n : Nat) (s : Src) (st : PP.PS) (hm : st.macros = s.macros) (outs : List PP.Out)
    (h : PP.runAll n st (absToks s.rest) = some outs) (hne : PP.noErr outs) :
    ∃ toks, runAll n s = some toks ∧ delivered toks = PP.plains outs := by
  induction n generalizing s st outs with
  | zero => simp [PP.runAll] at h
  | succ n ih =>
    obtain ⟨hk, hrest, hmac⟩ := eat_refine s st hm
    simp only [PP.runAll] at h
    simp only [runAll]
    split at h
    · rename_i heof
      simp only [Option.some.injEq] at h; subst h
      rw [heof] at hk
      simp only [KindRel] at hk
      exact ⟨[], by simp [hk], by simp [delivered, PP.plains]⟩
    · rename_i hneof
      cases hrec : PP.runAll n (PP.next st (absToks s.rest)).2.1 (PP.next st (absToks s.rest)).2.2 with
      | none => simp [hrec] at h
      | some outs' =>
        simp only [hrec, Option.map_some, Option.some.injEq] at h
        subst h
        have hne' : PP.noErr outs' := fun o ho => hne o (by simp [ho])
        obtain ⟨toks, ht, hd⟩ := ih (s.eat).2 (PP.next st (absToks s.rest)).2.1 hmac outs' (by rw [hrest]; exact hrec) hne'
        have hnoteof : ((s.eat).1.kind == TokenKind.Eof) = false := by
          cases ho : (PP.next st (absToks s.rest)).1 with
          | eof => exact absurd ho hneof
          | pp => rw [ho] at hk; simp [KindRel] at hk; simp [hk]
          | error => rw [ho] at hk; simp [KindRel] at hk; simp [hk]
          | tok k => rw [ho] at hk; simp [KindRel] at hk; simpa using hk.2.2
        refine ⟨(s.eat).1 :: toks, by simp [hnoteof, ht], ?_⟩
        cases ho : (PP.next st (absToks s.rest)).1 with
        | eof => exact absurd ho hneof
        | pp =>
          rw [ho] at hk; simp [KindRel] at hk
          simp [delivered, hk, PP.plains] at hd ⊢; exact hd
        | error => exact absurd ho (hne _ (by simp))
        | tok k =>
          rw [ho] at hk; simp [KindRel] at hk
          simp [delivered, hk.2.1, hk.1, PP.plains] at hd ⊢; exact hd

end Src
end Tg
